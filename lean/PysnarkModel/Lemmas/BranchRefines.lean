import PysnarkModel.Lemmas.BranchLoop
/-!
# Block branching: every structured program computes what its native twin computes

The induction over the statement tree that puts together `Lemmas/BranchChain.lean` (if chains)
and `Lemmas/BranchLoop.lean` (loops).
-/
namespace Pysnark

/-- `_.x = <value>` binds `x` to a value that stands for the native value -/
theorem bindT_ref {r : Nat} {x : Nat} {t : TVal} {n : Nat} {bs bs' : BSt} {s s' : St} {E : NEnv} {v : NVal}
    (hr : RefV r bs.bv.vals E) (hd : denN r v = denT r t) (hb : t.bok = true)
    (h : bindT x t n bs s = .ok (bs', s')) : s' = s ∧ RefV r bs'.bv.vals (E.set x v) := by
  obtain ⟨_, rfl, rfl⟩ := bindT_ok h
  exact ⟨rfl, hr.set x hd hb⟩

theorem guardedM_live {α : Type} {r : Nat} {c : LinComb} {m : M α} {a : α} {s s' : St} (hl : Live r s)
    (hm : ∀ t b t', m t = .ok (b, t') → t'.resolution = t.resolution)
    (h : guardedM c m s = .ok (a, s')) :
    Live r s' ∧ BoolLC c ∧ ∃ s1 s2, m s1 = .ok (a, s2) ∧ (c.value = 1 → Live r s1) := by
  unfold guardedM at h
  obtain ⟨bak, s1, h1, h⟩ := bind_ok.mp h
  obtain ⟨a', s2, h2, h⟩ := bind_ok.mp h
  obtain ⟨u, s3, h3, h⟩ := bind_ok.mp h
  obtain ⟨rfl, rfl⟩ := pure_ok' h
  obtain ⟨rfl, hcb, hl1⟩ := addGuard_live hl h1
  have hres : s2.resolution = r := by rw [hm _ _ _ h2, addGuard_res h1]; exact hl.res
  exact ⟨Live.of_restore hl.triple hres h3, hcb, s1, s2, h2, hl1⟩

/-- `if_then_else` on two evaluated branches without the identity test at the top -/
theorem iteVals_val {r : Nat} {c : LinComb} (hc : BoolLC c) {tv fv o : TVal} {n n' : Nat} {s s' : St}
    (hr : s.resolution = r) (h : iteVals c tv fv n s = .ok ((o, n'), s')) :
    Same s s' ∧ denT r o = dsel c.value (denT r tv) (denT r fv) ∧ ((tv.bok = true ∨ fv.bok = true) → o.bok = true) := by
  have hsame := iteVals_same h
  unfold iteVals at h
  split at h
  · rename_i a b
    obtain ⟨v, s1, h1, h⟩ := bind_ok.mp h
    obtain ⟨⟨w, n1⟩, s2, h2, h⟩ := bind_ok.mp h
    obtain ⟨h3, rfl⟩ := pure_ok' h
    simp only [Prod.mk.injEq] at h3
    obtain ⟨rfl, _⟩ := h3
    obtain ⟨ho, _, rfl⟩ := freshS_ok h2
    obtain ⟨_, _, hk, vr, _⟩ := iteScalar_rep a.toVal_isS b.toVal_isS h1
    refine ⟨hsame, ?_, fun _ => ?_⟩
    · rw [denT_leaf, denT_leaf, denT_leaf, SVal.ofVal_den ho, ← hr, vr, SVal.den_eq_rep, SVal.den_eq_rep]
      unfold dsel
      rcases hc with h0 | h1
      · simp [h0]
      · simp [h1]
    · rw [TVal.bok_leaf]
      exact SVal.bok_of_lcb_bool (fun l hl' => hk l (by rw [← SVal.ofVal_toVal ho]; exact hl'))
  · obtain ⟨hd, hb⟩ := mergeT_val hc hr h
    exact ⟨hsame, hd, hb⟩

/-- `if_then_else(c, lambda: t, lambda: f)` under a true guard: the branch that the condition
selects has been evaluated under a true guard, the other one does not matter -/
theorem iteThunks_live {r : Nat} {env : BEnv} {nc : NCtx} {vals : Vals} {E : NEnv} (hi : RefI r env nc) (hv : RefV r vals E)
    {c : LinComb} {t f : BExpr} {n n' : Nat} {o : TVal} {s s' : St} (hl : Live r s)
    (h : iteThunks c (evalE env vals t) (evalE env vals f) n s = .ok ((o, n'), s')) :
    Live r s' ∧ BoolLC c ∧ o.bok = true ∧
      (c.value = 1 → ∃ v, nEvalE nc E t = .ok v ∧ denN r v = denT r o) ∧
      (c.value = 0 → ∃ v, nEvalE nc E f = .ok v ∧ denN r v = denT r o) := by
  unfold iteThunks at h
  obtain ⟨⟨tv, n1⟩, s1, h1, h⟩ := bind_ok.mp h
  obtain ⟨ncv, s2, h2, h⟩ := bind_ok.mp h
  obtain ⟨⟨fv, n2⟩, s3, h3, h⟩ := bind_ok.mp h
  obtain ⟨l1, hcb, t1, t2, ht, hlt⟩ := guardedM_live hl (fun _ _ _ hh => (evalE_same t hh).res) h1
  obtain ⟨sm2, v2, _⟩ := boolNot_val h2
  obtain ⟨l3, _, u1, u2, hf, hlf⟩ := guardedM_live (l1.same sm2) (fun _ _ _ hh => (evalE_same f hh).res) h3
  obtain ⟨sm4, hd, hb⟩ := iteVals_val hcb l3.res h
  have key1 : c.value = 1 → tv.bok = true ∧ ∃ v, nEvalE nc E t = .ok v ∧ denN r v = denT r tv := by
    intro hc1
    obtain ⟨_, b, v, nv, dv⟩ := evalE_val hi hv t (hlt hc1) ht
    exact ⟨b, v, nv, dv⟩
  have key0 : c.value = 0 → fv.bok = true ∧ ∃ v, nEvalE nc E f = .ok v ∧ denN r v = denT r fv := by
    intro hc0
    obtain ⟨_, b, v, nv, dv⟩ := evalE_val hi hv f (hlf (by rw [v2, hc0]; rfl)) hf
    exact ⟨b, v, nv, dv⟩
  refine ⟨l3.same sm4, hcb, ?_, ?_, ?_⟩
  · rcases hcb with h0 | h1
    · exact hb (Or.inr (key0 h0).1)
    · exact hb (Or.inl (key1 h1).1)
  · intro hc1
    obtain ⟨_, v, nv, dv⟩ := key1 hc1
    exact ⟨v, nv, by rw [hd, dv]; simp [dsel, hc1]⟩
  · intro hc0
    obtain ⟨_, v, nv, dv⟩ := key0 hc0
    exact ⟨v, nv, by rw [hd, dv]; simp [dsel, hc0]⟩

theorem RefI.push {r : Nat} {env : BEnv} {nc : NCtx} (hi : RefI r env nc) (lv : Nat) (k : Int) :
    RefI r { env with lvs := (lv, k) :: env.lvs } { nc with lvs := (lv, k) :: nc.lvs } :=
  ⟨hi.res, by simp only [hi.lvs], hi.inputs, hi.finputs, hi.ibok, hi.fbok⟩

/-- element assignment on both sides -/
theorem set_ref {r : Nat} {old new t : TVal} {old' v : NVal} {path : List Nat} (ho : denN r old' = denT r old)
    (hv : denN r v = denT r t) (h : old.set path t = some new) :
    ∃ new', old'.set path v = some new' ∧ denN r new' = denT r new := by
  have h1 := PTree.map_set (SVal.den r) path old t
  have h2 := PTree.map_set (NLeaf.norm r) path old' v
  rw [h] at h1
  have ho' : PTree.map (NLeaf.norm r) old' = PTree.map (SVal.den r) old := ho
  have hv' : PTree.map (NLeaf.norm r) v = PTree.map (SVal.den r) t := hv
  rw [ho', hv', ← h1] at h2
  cases hs : old'.set path v with
  | none => rw [hs] at h2; cases h2
  | some new' =>
    rw [hs] at h2
    simp only [Option.map_some, Option.some.injEq] at h2
    exact ⟨new', rfl, h2⟩

mutual
theorem execStmt_ref {r : Nat} : ∀ (st : BStmt) (env : BEnv) (nc : NCtx) (bs bs' : BSt) (s s' : St) (E : NEnv),
    RefI r env nc → Live r s → RefV r bs.bv.vals E → execStmt env st bs s = .ok (bs', s') →
    Post r (nStmt nc st E) bs'.bv.vals s'
  | .assign x e, env, nc, bs, bs', s, s', E, hi, hl, hr, h => by
    unfold execStmt at h
    obtain ⟨⟨t, n⟩, s1, h1, h2⟩ := bind_ok.mp h
    obtain ⟨sm, hb, v, nv, dv⟩ := evalE_val hi hr e hl h1
    obtain ⟨rfl, hr'⟩ := bindT_ref hr dv hb h2
    simp only [nStmt, nv]
    exact ⟨hl.same sm, hr'⟩
  | .setitem x path e, env, nc, bs, bs', s, s', E, hi, hl, hr, h => by
    unfold execStmt at h
    obtain ⟨⟨t, n⟩, s1, h1, h2⟩ := bind_ok.mp h
    obtain ⟨sm, hb, v, nv, dv⟩ := evalE_val hi hr e hl h1
    dsimp only at h2
    cases hg : bs.bv.vals.get? x with
    | none => simp only [hg] at h2; exact (raise_ok.mp h2).elim
    | some old =>
      simp only [hg] at h2
      cases hs : old.set path t with
      | none => simp only [hs] at h2; exact (raise_ok.mp h2).elim
      | some new =>
        simp only [hs] at h2
        have hx := hr.eq x
        unfold Vals.valOf NEnv.valOf at hx
        rw [hg] at hx
        cases hE : E.get? x with
        | none => rw [hE] at hx; cases hx
        | some old' =>
          rw [hE] at hx
          simp only [Option.map_some, Option.some.injEq] at hx
          obtain ⟨new', hs', dn⟩ := set_ref hx.symm dv hs
          have hbn : TVal.bok new = true := PTree.all_of_set path hs (hr.bok.get? hg) hb
          obtain ⟨rfl, hr'⟩ := bindT_ref hr dn hbn h2
          simp only [nStmt, nv, ok_bind, hE, nGet, hs']
          exact ⟨hl.same sm, hr'⟩
  | .sel x c t f, env, nc, bs, bs', s, s', E, hi, hl, hr, h => by
    unfold execStmt at h
    obind h with cv, s1, h1
    obind h with ⟨tv, n1⟩, s2, h2
    obind h with ⟨fv, n2⟩, s3, h3
    obind h with cl, s4, h4
    obtain ⟨hcl, hs4⟩ := condLC_ok h4
    subst hs4
    obind h with ⟨o, n3⟩, s5, h5
    obtain ⟨sm1, b, hnat, hvr⟩ := evalC_live hi hr hl h1
    have vrc := hvr cl hcl
    obtain ⟨sm2, bt, vt, nt, dt⟩ := evalE_val hi hr t (hl.same sm1) h2
    obtain ⟨sm3, bf, vf, nf, df⟩ := evalE_val hi hr f ((hl.same sm1).same sm2) h3
    have hl3 := ((hl.same sm1).same sm2).same sm3
    have hcb : BoolLC cl := by unfold BoolLC; rw [vrc]; cases b <;> simp
    obtain ⟨hd, hb⟩ := mergeT_val hcb hl3.res h5
    have sm5 := mergeT_same h5
    simp only [nStmt, hnat, ok_bind]
    cases b with
    | true =>
      simp only [if_true] at vrc ⊢
      rw [nt]
      obtain ⟨rfl, hr'⟩ := bindT_ref (v := vt) hr (by rw [hd, dt]; simp [dsel, vrc]) (hb (Or.inl bt)) h
      exact ⟨hl3.same sm5, hr'⟩
    | false =>
      simp only [Bool.false_eq_true, if_false] at vrc ⊢
      rw [nf]
      obtain ⟨rfl, hr'⟩ := bindT_ref (v := vf) hr (by rw [hd, df]; simp [dsel, vrc]) (hb (Or.inr bf)) h
      exact ⟨hl3.same sm5, hr'⟩
  | .ite x c t f, env, nc, bs, bs', s, s', E, hi, hl, hr, h => by
    unfold execStmt at h
    obind h with cv, s1, h1
    obind h with cl, s2, h2
    obtain ⟨hcl, hs2⟩ := condLC_ok h2
    subst hs2
    obind h with ⟨o, n3⟩, s3, h3
    obtain ⟨sm1, b, hnat, hvr⟩ := evalC_live hi hr hl h1
    have vrc := hvr cl hcl
    obtain ⟨l3, _, hbo, k1, k0⟩ := iteThunks_live hi hr (hl.same sm1) h3
    simp only [nStmt, hnat, ok_bind]
    cases b with
    | true =>
      simp only [if_true] at vrc ⊢
      obtain ⟨v, nv, dv⟩ := k1 vrc
      rw [nv]
      obtain ⟨rfl, hr'⟩ := bindT_ref hr dv hbo h
      exact ⟨l3, hr'⟩
    | false =>
      simp only [Bool.false_eq_true, if_false] at vrc ⊢
      obtain ⟨v, nv, dv⟩ := k0 vrc
      rw [nv]
      obtain ⟨rfl, hr'⟩ := bindT_ref hr dv hbo h
      exact ⟨l3, hr'⟩
  | .ifs c body rest, env, nc, bs, bs', s, s', E, hi, hl, hr, h => by
    unfold execStmt at h
    obtain ⟨cv, s1, h1, ha⟩ := bind_ok.mp h
    obtain ⟨bs1, s2, h2, hb⟩ := bind_ok.mp ha
    obtain ⟨bs2, s3, h3, h4⟩ := bind_ok.mp hb
    clear h ha hb
    obtain ⟨sm1, b, hnat, hvr⟩ := evalC_live hi hr hl h1
    obtain ⟨c', ctx, hc', hnew, hbs1⟩ := bIf_ok h2
    have vrc := hvr c' hc'
    obtain ⟨cif, cog, cbak, ccond, cnd, ⟨ic, hic, vic⟩, clive, _, cres⟩ := ifNew_live (hl.same sm1) hnew
    obtain ⟨⟨hst, hdom⟩, hres3⟩ := execBlock_struct body env bs1 bs2 s2 s3 h3
    have hstk : bs2.stack = ctx :: bs.stack := by rw [hst, hbs1]
    have hbv1 : bs1.bv = bs.bv := by rw [hbs1]
    simp only [nStmt, hnat, ok_bind]
    cases b with
    | true =>
      simp only [if_true] at vrc
      have hcv1 : ctx.cond.value = 1 := by rw [ccond]; exact vrc
      have hbody := execBlock_ref body env nc bs1 bs2 s2 s3 E hi (clive vrc) (hbv1 ▸ hr) h3
      show Post r (nBlock nc body E) _ _
      cases hN : nBlock nc body E with
      | error x =>
        rw [hN] at hbody
        exact hbody
      | ok ET =>
        rw [hN] at hbody
        have hp : PendT r ET ctx bs2.bv.vals :=
          ⟨cif, cog, Or.inr ⟨ic, hic, by rw [vic, vrc]; rfl⟩, Or.inl ⟨hcv1, hbody.2⟩⟩
        obtain ⟨x, y⟩ := execIfRest_taken rest env nc bs2 bs' s3 s' ET ctx bs.stack hi hstk hp hbody.1.res h4
        exact ⟨x, y⟩
    | false =>
      simp only [Bool.false_eq_true, if_false] at vrc
      have hp : PendO r E ctx bs2.bv.vals :=
        ⟨cif, cog, ⟨ic, hic, by rw [vic, vrc]; rfl⟩, by rw [ccond]; exact vrc, by rw [cbak]; exact hr.backup,
          fun x hx => hdom x (by rw [hbv1]; rw [cbak, Vals.has_backup] at hx; exact hx),
          fun nd0 h0 => by rw [cnd] at h0; cases h0⟩
      exact execIfRest_open rest env nc bs2 bs' s3 s' E ctx bs.stack hi hstk hp (hres3.trans cres) h4
  | .forr lv bound mx body, env, nc, bs, bs', s, s', E, hi, hl, hr, h => by
    unfold execStmt at h
    obtain ⟨stop, s1, h1, ha⟩ := bind_ok.mp h
    clear h
    cases stop <;> first | exact (raise_ok.mp ha).elim | skip
    rename_i st
    dsimp only at ha
    obtain ⟨sm, w, nw, hbd⟩ := evalC_bound hi hr hl h1
    simp only [nStmt, nw, ok_bind, hbd]
    show Post r (if 0 ≤ st.value ∧ st.value ≤ (mx : Int) then _ else _) _ _
    by_cases hcap : 0 ≤ st.value ∧ st.value ≤ (mx : Int)
    · rw [if_pos hcap]
      refine for_stmt (env := env) (lv := lv) (st := st) (mx := mx)
        (body := fun env' bs => execBlock env' body bs)
        (bodyN := fun i e => nBlock { nc with lvs := (lv, (i : Int)) :: nc.lvs } body e)
        ?_ ?_ (hl.same sm) hr hcap ha
      · exact ⟨fun b t b' t' E' hl' hr' hh => execBlock_ref body _ _ b b' t t' E' (hi.push lv 0) hl' hr' hh,
          fun b t b' t' hh => execBlock_struct body _ b b' t t' hh⟩
      · intro ix
        exact ⟨fun b t b' t' E' hl' hr' hh => execBlock_ref body _ _ b b' t t' E' (hi.push lv ix) hl' hr' hh,
          fun b t b' t' hh => execBlock_struct body _ b b' t t' hh⟩
    · rw [if_neg hcap]
      trivial
  | .whil c mx body brk, env, nc, bs, bs', s, s', E, hi, hl, hr, h => by
    unfold execStmt at h
    simp only [nStmt]
    exact while_stmt (env := env) hi (bodyT := fun bs => execBlock env body bs) (bodyN := fun e => nBlock nc body e)
      ⟨fun b t b' t' E' hl' hr' hh => execBlock_ref body env nc b b' t t' E' hi hl' hr' hh,
        fun b t b' t' hh => execBlock_struct body env b b' t t' hh⟩ hl hr h

theorem execBlock_ref {r : Nat} : ∀ (b : BBlock) (env : BEnv) (nc : NCtx) (bs bs' : BSt) (s s' : St) (E : NEnv),
    RefI r env nc → Live r s → RefV r bs.bv.vals E → execBlock env b bs s = .ok (bs', s') →
    Post r (nBlock nc b E) bs'.bv.vals s'
  | .nil, env, nc, bs, bs', s, s', E, hi, hl, hr, h => by
    unfold execBlock at h
    obtain ⟨rfl, rfl⟩ := pure_ok' h
    exact ⟨hl, hr⟩
  | .cons st rest, env, nc, bs, bs', s, s', E, hi, hl, hr, h => by
    unfold execBlock at h
    obtain ⟨bs1, s1, h1, h2⟩ := bind_ok.mp h
    have hs := execStmt_ref st env nc bs bs1 s s1 E hi hl hr h1
    simp only [nBlock]
    cases hN : nStmt nc st E with
    | error x =>
      rw [hN] at hs
      exact hs
    | ok E1 =>
      rw [hN] at hs
      exact execBlock_ref rest env nc bs1 bs' s1 s' E1 hi hs.1 hs.2 h2

theorem execIfRest_taken {r : Nat} : ∀ (rest : BIfRest) (env : BEnv) (nc : NCtx) (bs bs' : BSt) (s s' : St) (ET : NEnv)
    (ctx : BCtx) (stk : List BCtx), RefI r env nc → bs.stack = ctx :: stk → PendT r ET ctx bs.bv.vals →
    s.resolution = r → execIfRest env rest bs s = .ok (bs', s') → Live r s' ∧ RefV r bs'.bv.vals ET
  | .endif, env, nc, bs, bs', s, s', ET, ctx, stk, hi, hs, hp, hres, h => by
    unfold execIfRest at h
    obtain ⟨ctx0, rest0, bv', hs0, rfl, hcase⟩ := bEnd_ok (Or.inl h)
    rw [hs] at hs0; cases hs0
    rcases hcase with ⟨_, he⟩ | ⟨hf, _⟩
    · exact ifEnd_pendT hp hres he
    · rw [hp.isIf] at hf; cases hf
  | .els b, env, nc, bs, bs', s, s', ET, ctx, stk, hi, hs, hp, hres, h => by
    unfold execIfRest at h
    obtain ⟨bs1, s1, h1, ha⟩ := bind_ok.mp h
    obtain ⟨bs2, s2, h2, h3⟩ := bind_ok.mp ha
    clear h ha
    obtain ⟨ctx0, rest0, ctx', bv', hs0, _, he, rfl⟩ := bElse_ok h1
    rw [hs] at hs0; cases hs0
    obtain ⟨hp1, hc0, hres1⟩ := ifElse_betT hp hres he
    obtain ⟨⟨hst, hdom⟩, hres2⟩ := execBlock_struct b env _ bs2 s1 s2 h2
    have hp2 : PendT r ET ctx' bs2.bv.vals := hp1.mono hc0 hdom
    obtain ⟨ctx1, rest1, bv1, hs1, rfl, hcase⟩ := bEnd_ok (Or.inl h3)
    rw [hst] at hs1; cases hs1
    rcases hcase with ⟨_, he'⟩ | ⟨hf, _⟩
    · exact ifEnd_pendT hp2 (hres2.trans hres1) he'
    · rw [hp2.isIf] at hf; cases hf
  | .elif c b rest, env, nc, bs, bs', s, s', ET, ctx, stk, hi, hs, hp, hres, h => by
    unfold execIfRest at h
    obtain ⟨bs1, s1, h1, ha⟩ := bind_ok.mp h
    obtain ⟨bs2, s2, h2, h3⟩ := bind_ok.mp ha
    clear h ha
    obtain ⟨ctx0, rest0, ctx', bv', hs0, _, he, rfl⟩ := bElif_ok h1
    rw [hs] at hs0; cases hs0
    obtain ⟨hp1, hc0, hres1⟩ := ifElif_betT hp hres he
    obtain ⟨⟨hst, hdom⟩, hres2⟩ := execBlock_struct b env _ bs2 s1 s2 h2
    have hp2 : PendT r ET ctx' bs2.bv.vals := hp1.mono hc0 hdom
    exact execIfRest_taken rest env nc bs2 bs' s2 s' ET ctx' stk hi hst hp2 (hres2.trans hres1) h3

theorem execIfRest_open {r : Nat} : ∀ (rest : BIfRest) (env : BEnv) (nc : NCtx) (bs bs' : BSt) (s s' : St) (E0 : NEnv)
    (ctx : BCtx) (stk : List BCtx), RefI r env nc → bs.stack = ctx :: stk → PendO r E0 ctx bs.bv.vals →
    s.resolution = r → execIfRest env rest bs s = .ok (bs', s') → Post r (nIfRest nc rest E0) bs'.bv.vals s'
  | .endif, env, nc, bs, bs', s, s', E0, ctx, stk, hi, hs, hp, hres, h => by
    unfold execIfRest at h
    obtain ⟨ctx0, rest0, bv', hs0, rfl, hcase⟩ := bEnd_ok (Or.inl h)
    rw [hs] at hs0; cases hs0
    rcases hcase with ⟨_, he⟩ | ⟨hf, _⟩
    · obtain ⟨x, y⟩ := ifEnd_pendO hp hres he
      exact ⟨x, y⟩
    · rw [hp.isIf] at hf; cases hf
  | .els b, env, nc, bs, bs', s, s', E0, ctx, stk, hi, hs, hp, hres, h => by
    unfold execIfRest at h
    obtain ⟨bs1, s1, h1, ha⟩ := bind_ok.mp h
    obtain ⟨bs2, s2, h2, h3⟩ := bind_ok.mp ha
    clear h ha
    obtain ⟨ctx0, rest0, ctx', bv', hs0, _, he, rfl⟩ := bElse_ok h1
    rw [hs] at hs0; cases hs0
    obtain ⟨hl1, hr1, cif, cog, cic, ccv⟩ := ifElse_betO hp hres he
    obtain ⟨⟨hst, _⟩, _⟩ := execBlock_struct b env _ bs2 s1 s2 h2
    have hbody := execBlock_ref b env nc _ bs2 s1 s2 E0 hi hl1 hr1 h2
    simp only [nIfRest]
    cases hN : nBlock nc b E0 with
    | error x =>
      rw [hN] at hbody
      exact hbody
    | ok ET =>
      rw [hN] at hbody
      have hp2 : PendT r ET ctx' bs2.bv.vals := ⟨cif, cog, Or.inl cic, Or.inl ⟨ccv, hbody.2⟩⟩
      obtain ⟨ctx1, rest1, bv1, hs1, rfl, hcase⟩ := bEnd_ok (Or.inl h3)
      rw [hst] at hs1; cases hs1
      rcases hcase with ⟨_, he'⟩ | ⟨hf, _⟩
      · obtain ⟨x, y⟩ := ifEnd_pendT hp2 hbody.1.res he'
        exact ⟨x, y⟩
      · rw [hp2.isIf] at hf; cases hf
  | .elif c b rest, env, nc, bs, bs', s, s', E0, ctx, stk, hi, hs, hp, hres, h => by
    unfold execIfRest at h
    obtain ⟨bs1, s1, h1, ha⟩ := bind_ok.mp h
    obtain ⟨bs2, s2, h2, h3⟩ := bind_ok.mp ha
    clear h ha
    obtain ⟨ctx0, rest0, ctx', bv', hs0, _, he, rfl⟩ := bElif_ok h1
    rw [hs] at hs0; cases hs0
    obtain ⟨bb, hnat, hr1, htrue, hfalse, hres1⟩ := ifElif_betO hi hp hres he
    obtain ⟨⟨hst, hdom⟩, hres2⟩ := execBlock_struct b env _ bs2 s1 s2 h2
    simp only [nIfRest, hnat, ok_bind]
    cases bb with
    | true =>
      obtain ⟨hl1, cif, cog, ccv, ic, hic, vic⟩ := htrue rfl
      have hbody := execBlock_ref b env nc _ bs2 s1 s2 E0 hi hl1 hr1 h2
      show Post r (nBlock nc b E0) _ _
      cases hN : nBlock nc b E0 with
      | error x =>
        rw [hN] at hbody
        exact hbody
      | ok ET =>
        rw [hN] at hbody
        have hp2 : PendT r ET ctx' bs2.bv.vals := ⟨cif, cog, Or.inr ⟨ic, hic, vic⟩, Or.inl ⟨ccv, hbody.2⟩⟩
        obtain ⟨x, y⟩ := execIfRest_taken rest env nc bs2 bs' s2 s' ET ctx' stk hi hst hp2 hbody.1.res h3
        exact ⟨x, y⟩
    | false =>
      have hp2 : PendO r E0 ctx' bs2.bv.vals := (hfalse rfl).mono' hdom
      exact execIfRest_open rest env nc bs2 bs' s2 s' E0 ctx' stk hi hst hp2 (hres2.trans hres1) h3
end

end Pysnark
