import PysnarkModel.Lemmas.BranchRefines
/-!
# Block branching: a complete run (`runBlockT`) against the native run (`nativeRunT`)
-/
namespace Pysnark

theorem tdiv_of_emod_zero {a b : Int} (h : a % b = 0) : a.tdiv b = a / b :=
  Int.tdiv_eq_ediv_of_dvd (Int.dvd_of_emod_eq_zero h)

theorem setupLeaf_ref {r : Nat} {a : ILeaf} {n n' : Nat} {o : SVal} {s s' : St} (hl : Live r s)
    (h : setupLeaf a n s = .ok ((o, n'), s')) :
    Same s s' ∧ o.bok = true ∧ ∀ p, nLeaf r a = .ok p → p.norm r = o.den r := by
  cases a with
  | int v =>
    simp only [setupLeaf] at h
    obtain ⟨l, s1, h1, h⟩ := bind_ok.mp h
    obtain ⟨h2, rfl⟩ := pure_ok' h
    simp only [Prod.mk.injEq] at h2
    obtain ⟨rfl, _⟩ := h2
    obtain ⟨sm, vl⟩ := privVal_val h1
    refine ⟨sm, rfl, fun p hp => ?_⟩
    simp only [nLeaf, Except.ok.injEq] at hp
    subst hp
    simp only [NLeaf.norm, SVal.den, vl]
  | bool v =>
    simp only [setupLeaf] at h
    obtain ⟨l, s1, h1, h⟩ := bind_ok.mp h
    obtain ⟨b, s2, h2, h⟩ := bind_ok.mp h
    obtain ⟨sm1, vl⟩ := privVal_val h1
    obtain ⟨sm2, c, rfl, hb, vc⟩ := cmpV_int_all (x := .lc l) (y := .int 1) trivial trivial h2
    dsimp only at h
    obtain ⟨h3, rfl⟩ := pure_ok' h
    simp only [Prod.mk.injEq] at h3
    obtain ⟨rfl, _⟩ := h3
    refine ⟨sm1.trans sm2, SVal.bok_bool hb, fun p hp => ?_⟩
    simp only [nLeaf, Except.ok.injEq] at hp
    subst hp
    rw [norm_nBool]
    show _ = c.value * 2 ^ r
    rw [vc (hl.same sm1)]
    simp only [cmpSem, ival, vl]
    by_cases hv : v = 1 <;> simp [hv]
  | fxp m e =>
    simp only [setupLeaf] at h
    obtain ⟨w, s1, h1, h⟩ := bind_ok.mp h
    obtain ⟨sm, x, rfl, vx, _⟩ := mkVal_privx_val h1
    dsimp only at h
    obtain ⟨h3, rfl⟩ := pure_ok' h
    simp only [Prod.mk.injEq] at h3
    obtain ⟨rfl, _⟩ := h3
    refine ⟨sm, rfl, fun p hp => ?_⟩
    simp only [nLeaf] at hp
    split at hp
    · rename_i hdiv
      simp only [Except.ok.injEq] at hp
      subst hp
      show _ = x.value
      rw [vx, hl.res]
      simp only [NLeaf.norm, rep, scaleFlt]
      exact (tdiv_of_emod_zero hdiv).symm
    · cases hp

mutual
theorem setupT_ref {r : Nat} : ∀ (v : IVal) {n n' : Nat} {t : TVal} {s s' : St}, Live r s →
    setupT v n s = .ok ((t, n'), s') →
    Same s s' ∧ t.bok = true ∧ ∀ w, nInit r v = .ok w → denN r w = denT r t
  | .leaf a, n, n', t, s, s', hl, h => by
    unfold setupT at h
    obtain ⟨⟨o, n1⟩, s1, h1, h⟩ := bind_ok.mp h
    obtain ⟨h2, rfl⟩ := pure_ok' h
    simp only [Prod.mk.injEq] at h2
    obtain ⟨rfl, _⟩ := h2
    obtain ⟨sm, hb, hv⟩ := setupLeaf_ref hl h1
    refine ⟨sm, by rw [TVal.bok_leaf]; exact hb, fun w hw => ?_⟩
    simp only [nInit] at hw
    cases hp : nLeaf r a with
    | error x => rw [hp] at hw; cases hw
    | ok p =>
      rw [hp] at hw
      simp only [ok_bind] at hw
      cases hw
      rw [denN_leaf, denT_leaf, hv p hp]
  | .node vs, n, n', t, s, s', hl, h => by
    unfold setupT at h
    obtain ⟨⟨ts, n1⟩, s1, h1, h⟩ := bind_ok.mp h
    obtain ⟨h2, rfl⟩ := pure_ok' h
    simp only [Prod.mk.injEq] at h2
    obtain ⟨rfl, _⟩ := h2
    obtain ⟨sm, hb, hv⟩ := setupTL_ref vs hl h1
    refine ⟨sm, by rw [TVal.bok_node]; exact hb, fun w hw => ?_⟩
    simp only [nInit] at hw
    cases hp : nInitL r vs with
    | error x => rw [hp] at hw; cases hw
    | ok ws =>
      rw [hp] at hw
      simp only [ok_bind] at hw
      cases hw
      rw [denN_node, denT_node, hv ws hp]
theorem setupTL_ref {r : Nat} : ∀ (vs : List IVal) {n n' : Nat} {ts : List TVal} {s s' : St}, Live r s →
    setupTL vs n s = .ok ((ts, n'), s') →
    Same s s' ∧ ts.all TVal.bok = true ∧ ∀ ws, nInitL r vs = .ok ws → ws.map (denN r) = ts.map (denT r)
  | [], n, n', ts, s, s', _, h => by
    unfold setupTL at h
    obtain ⟨h2, rfl⟩ := pure_ok' h
    simp only [Prod.mk.injEq] at h2
    obtain ⟨rfl, _⟩ := h2
    refine ⟨Same.refl _, rfl, fun ws hw => ?_⟩
    simp only [nInitL, Except.ok.injEq] at hw
    subst hw; rfl
  | v :: vs, n, n', ts, s, s', hl, h => by
    unfold setupTL at h
    obtain ⟨⟨t, n1⟩, s1, h1, h⟩ := bind_ok.mp h
    obtain ⟨⟨ts', n2⟩, s2, h2, h⟩ := bind_ok.mp h
    obtain ⟨h3, rfl⟩ := pure_ok' h
    simp only [Prod.mk.injEq] at h3
    obtain ⟨rfl, _⟩ := h3
    obtain ⟨sm1, hb1, hv1⟩ := setupT_ref v hl h1
    obtain ⟨sm2, hb2, hv2⟩ := setupTL_ref vs (hl.same sm1) h2
    refine ⟨sm1.trans sm2, by simp only [List.all_cons, hb1, hb2, Bool.and_self], fun ws hw => ?_⟩
    simp only [nInitL] at hw
    cases hp : nInit r v with
    | error x => rw [hp] at hw; cases hw
    | ok w =>
      rw [hp] at hw
      simp only [ok_bind] at hw
      cases hq : nInitL r vs with
      | error x => rw [hq] at hw; cases hw
      | ok ws' =>
        rw [hq] at hw
        simp only [ok_bind] at hw
        cases hw
        simp only [List.map_cons, hv1 w hp, hv2 ws' hq]
end

theorem setupVars_same {r : Nat} : ∀ (init : List (Nat × IVal)) {bv bv' : BV} {s s' : St}, Live r s →
    setupVars init bv s = .ok (bv', s') → Same s s'
  | [], bv, bv', s, s', _, h => by
    unfold setupVars at h
    obtain ⟨rfl, rfl⟩ := pure_ok' h
    exact Same.refl _
  | (x, v) :: rest, bv, bv', s, s', hl, h => by
    unfold setupVars at h
    obtain ⟨⟨t, n⟩, s1, h1, h2⟩ := bind_ok.mp h
    obtain ⟨sm1, _, _⟩ := setupT_ref v hl h1
    exact sm1.trans (setupVars_same rest (hl.same sm1) h2)

theorem setupVars_ref {r : Nat} : ∀ (init : List (Nat × IVal)) {bv bv' : BV} {E : NEnv} {s s' : St}, Live r s →
    RefV r bv.vals E → setupVars init bv s = .ok (bv', s') →
    ∀ E', nInitVars r init E = .ok E' → RefV r bv'.vals E'
  | [], bv, bv', E, s, s', _, hr, h => by
    unfold setupVars at h
    obtain ⟨rfl, rfl⟩ := pure_ok' h
    intro E' hE
    simp only [nInitVars, Except.ok.injEq] at hE
    subst hE; exact hr
  | (x, v) :: rest, bv, bv', E, s, s', hl, hr, h => by
    unfold setupVars at h
    obtain ⟨⟨t, n⟩, s1, h1, h2⟩ := bind_ok.mp h
    obtain ⟨sm1, hb, hv⟩ := setupT_ref v hl h1
    intro E' hE
    simp only [nInitVars] at hE
    cases hp : nInit r v with
    | error e => rw [hp] at hE; cases hE
    | ok w =>
      rw [hp] at hE
      simp only [ok_bind] at hE
      exact setupVars_ref rest (hl.same sm1) (hr.set x (hv w hp) hb) h2 E' hE

theorem setupInputs_ref {r : Nat} : ∀ (ls : List ILeaf) {n n' : Nat} {os : List SVal} {s s' : St}, Live r s →
    setupInputs ls n s = .ok ((os, n'), s') →
    Same s s' ∧ (∀ o ∈ os, o.bok = true) ∧ ∀ ps, nLeaves r ls = .ok ps → os.map (SVal.den r) = ps.map (NLeaf.norm r)
  | [], n, n', os, s, s', _, h => by
    unfold setupInputs at h
    obtain ⟨h2, rfl⟩ := pure_ok' h
    simp only [Prod.mk.injEq] at h2
    obtain ⟨rfl, _⟩ := h2
    refine ⟨Same.refl _, (fun o ho => by cases ho), fun ps hp => ?_⟩
    simp only [nLeaves, Except.ok.injEq] at hp
    subst hp; rfl
  | a :: rest, n, n', os, s, s', hl, h => by
    unfold setupInputs at h
    obtain ⟨⟨o, n1⟩, s1, h1, h⟩ := bind_ok.mp h
    obtain ⟨⟨os', n2⟩, s2, h2, h⟩ := bind_ok.mp h
    obtain ⟨h3, rfl⟩ := pure_ok' h
    simp only [Prod.mk.injEq] at h3
    obtain ⟨rfl, _⟩ := h3
    obtain ⟨sm1, hb1, hv1⟩ := setupLeaf_ref hl h1
    obtain ⟨sm2, hb2, hv2⟩ := setupInputs_ref rest (hl.same sm1) h2
    refine ⟨sm1.trans sm2, ?_, fun ps hp => ?_⟩
    · intro o' ho'
      rcases List.mem_cons.mp ho' with rfl | ho'
      · exact hb1
      · exact hb2 o' ho'
    · simp only [nLeaves] at hp
      cases hq : nLeaf r a with
      | error x => rw [hq] at hp; cases hp
      | ok p =>
        rw [hq] at hp
        simp only [ok_bind] at hp
        cases hq' : nLeaves r rest with
        | error x => rw [hq'] at hp; cases hp
        | ok ps' =>
          rw [hq'] at hp
          simp only [ok_bind] at hp
          cases hp
          simp only [List.map_cons, hv1 p hq, hv2 ps' hq']

theorem RefV.nil (r : Nat) : RefV r [] [] := ⟨fun _ => rfl, Vals.bok_nil⟩

/-- a completed run of a structured program against its native twin: if the initial values are
representable, the native program runs from them to the same final values -/
theorem runBlockT_ref {s0 : St} (hg : s0.guard = none) (hi : s0.ignoreErrors = false)
    {init : List (Nat × IVal)} {inputs : List Int} {finputs : List (Int × Nat)} {prog : BBlock} {bs : BSt} {s : St}
    (h : runBlockT init inputs finputs prog s0 = .ok (bs, s)) :
    bs.stack = [] ∧ ∀ E0 nc, nativeInit s0.resolution init inputs finputs = .ok (E0, nc) →
      Post s0.resolution (nBlock nc prog E0) bs.bv.vals s := by
  unfold runBlockT at h
  obtain ⟨bv, s1, h1, h⟩ := bind_ok.mp h
  obtain ⟨⟨inp, n1⟩, s2, h2, h⟩ := bind_ok.mp h
  obtain ⟨⟨finp, n2⟩, s3, h3, h⟩ := bind_ok.mp h
  have hl0 : Live s0.resolution s0 := ⟨by unfold St.isGuard; rw [hg], hi, rfl⟩
  have sm1 := setupVars_same init (bv := {}) hl0 h1
  obtain ⟨sm2, hb2, hv2⟩ := setupInputs_ref _ (hl0.same sm1) h2
  obtain ⟨sm3, hb3, hv3⟩ := setupInputs_ref _ ((hl0.same sm1).same sm2) h3
  obtain ⟨⟨hst, _⟩, _⟩ := execBlock_struct prog _ _ _ _ _ h
  refine ⟨hst, fun E0 nc hN => ?_⟩
  unfold nativeInit at hN
  cases hE : nInitVars s0.resolution init [] with
  | error x => rw [hE] at hN; cases hN
  | ok E =>
    rw [hE] at hN
    simp only [ok_bind] at hN
    cases hI : nLeaves s0.resolution (inputs.map ILeaf.int) with
    | error x => rw [hI] at hN; cases hN
    | ok ps =>
      rw [hI] at hN
      simp only [ok_bind] at hN
      cases hF : nLeaves s0.resolution (finputs.map (fun me => ILeaf.fxp me.1 me.2)) with
      | error x => rw [hF] at hN; cases hN
      | ok fs =>
        rw [hF] at hN
        simp only [ok_bind] at hN
        have hr1 := setupVars_ref init (bv := {}) hl0 (RefV.nil _) h1 E hE
        cases hN
        have hri : RefI s0.resolution { inputs := inp, finputs := finp } { res := s0.resolution, inputs := ps, finputs := fs } := by
          refine ⟨rfl, rfl, fun i => ?_, fun i => ?_, hb2, hb3⟩
          · have := congrArg (fun l => l[i]?) (hv2 ps hI)
            simpa only [List.getElem?_map] using this
          · have := congrArg (fun l => l[i]?) (hv3 fs hF)
            simpa only [List.getElem?_map] using this
        exact execBlock_ref prog _ _ _ _ _ _ _ hri (((hl0.same sm1).same sm2).same sm3) hr1 h

theorem nInitVars_int (r : Nat) : ∀ (init : List (Nat × Int)) (E : NEnv),
    nInitVars r (init.map (fun kv => (kv.1, PTree.leaf (ILeaf.int kv.2)))) E
      = .ok (init.foldl (fun e kv => e.set kv.1 (.leaf (.int kv.2))) E)
  | [], E => rfl
  | (x, v) :: rest, E => by
    simp only [List.map_cons, nInitVars, nInit, nLeaf, ok_bind, List.foldl_cons]
    exact nInitVars_int r rest _

theorem nLeaves_int (r : Nat) : ∀ (inputs : List Int), nLeaves r (inputs.map ILeaf.int) = .ok (inputs.map NLeaf.int)
  | [] => rfl
  | v :: rest => by
    simp only [List.map_cons, nLeaves, nLeaf, ok_bind, nLeaves_int r rest]
    rfl


end Pysnark
