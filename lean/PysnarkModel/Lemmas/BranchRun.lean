import PysnarkModel.Lemmas.BranchRefines
/-!
# Block branching: a complete run (`runBlock`) against the native run (`nativeRun`)
-/
namespace Pysnark

theorem setupVars_ref : ∀ (init : List (Nat × Int)) {bv bv' : BV} {E : NEnv} {s s' : St}, RefV bv.vals E →
    setupVars init bv s = .ok (bv', s') →
    Same s s' ∧ RefV bv'.vals (init.foldl (fun e kv => e.set kv.1 kv.2) E)
  | [], bv, bv', E, s, s', hr, h => by
    unfold setupVars at h
    obtain ⟨rfl, rfl⟩ := pure_ok' h
    exact ⟨Same.refl _, hr⟩
  | (x, v) :: rest, bv, bv', E, s, s', hr, h => by
    unfold setupVars at h
    obtain ⟨l, s1, h1, h2⟩ := bind_ok.mp h
    obtain ⟨sm1, v1⟩ := privVal_val h1
    have hr1 : RefV (bv.vals.set x ⟨l, bv.next⟩) (E.set x v) := by
      have := hr.set x ⟨l, bv.next⟩
      simpa [v1] using this
    obtain ⟨sm2, hr2⟩ := setupVars_ref rest (bv := ⟨bv.vals.set x ⟨l, bv.next⟩, bv.next + 1⟩) hr1 h2
    exact ⟨sm1.trans sm2, hr2⟩

theorem setupInputs_ref : ∀ (inputs : List Int) {n : Nat} {os : List Obj} {s s' : St},
    setupInputs inputs n s = .ok (os, s') → Same s s' ∧ os.map (fun o => o.v.value) = inputs
  | [], n, os, s, s', h => by
    unfold setupInputs at h
    obtain ⟨rfl, rfl⟩ := pure_ok' h
    exact ⟨Same.refl _, rfl⟩
  | v :: rest, n, os, s, s', h => by
    unfold setupInputs at h
    obtain ⟨l, s1, h1, h⟩ := bind_ok.mp h
    obtain ⟨os', s2, h2, h⟩ := bind_ok.mp h
    obtain ⟨rfl, rfl⟩ := pure_ok' h
    obtain ⟨sm1, v1⟩ := privVal_val h1
    obtain ⟨sm2, v2⟩ := setupInputs_ref rest h2
    exact ⟨sm1.trans sm2, by simp [v1, v2]⟩

/-- a completed run of a structured program against its native twin -/
theorem runBlock_ref {s0 : St} (hg : s0.guard = none) (hi : s0.ignoreErrors = false)
    {init : List (Nat × Int)} {inputs : List Int} {prog : BBlock} {bs : BSt} {s : St}
    (h : runBlock init inputs prog s0 = .ok (bs, s)) :
    bs.stack = [] ∧ Post (nativeRun init inputs prog) bs.bv.vals s := by
  unfold runBlock at h
  obtain ⟨bv, s1, h1, h⟩ := bind_ok.mp h
  obtain ⟨inp, s2, h2, h⟩ := bind_ok.mp h
  have hl0 : Live s0 := ⟨by unfold St.isGuard; rw [hg], hi⟩
  obtain ⟨sm1, hr1⟩ := setupVars_ref init (bv := {}) (E := []) (fun x => rfl) h1
  obtain ⟨sm2, hv2⟩ := setupInputs_ref inputs h2
  have hri : RefI { inputs := inp } { inputs := inputs } := by
    refine ⟨rfl, fun i => ?_⟩
    rw [← hv2, List.getElem?_map]
  obtain ⟨hst, _⟩ := execBlock_struct prog _ _ _ _ _ h
  exact ⟨hst, execBlock_ref prog _ _ _ _ _ _ _ hri ((hl0.same sm1).same sm2) hr1 h⟩

end Pysnark
