import PysnarkModel.Lemmas.BranchBasic
/-!
# Block branching: what holds for every completed run, live or under a false guard

After each statement the stack of open contexts is what it was before, and every variable that
was bound is still bound.  (Needed to reason about the parts of a program that run under a false
guard, where nothing can be said about values.)
-/
namespace Pysnark

theorem iterM_inv {β : Type} (P : β → St → Prop) (f : Nat → β → M β)
    (hf : ∀ i b s b' s', P b s → f i b s = .ok (b', s') → P b' s') :
    ∀ (n i : Nat) (b : β) (s : St) (b' : β) (s' : St), P b s → iterM n f i b s = .ok (b', s') → P b' s'
  | 0, i, b, s, b', s', hp, h => by
    unfold iterM at h
    obtain ⟨rfl, rfl⟩ := pure_ok' h
    exact hp
  | n+1, i, b, s, b', s', hp, h => by
    unfold iterM at h
    obtain ⟨b1, s1, h1, h2⟩ := bind_ok.mp h
    exact iterM_inv P f hf n (i+1) b1 s1 b' s' (hf i b s b1 s1 hp h1) h2

/-! ## keys are preserved by the merges -/
theorem mergeBak_has {c : LinComb} {bak : Vals} : ∀ {vals rs : Vals} {n n' : Nat} {s s' : St},
    mergeBak c bak vals n s = .ok ((rs, n'), s') → ∀ x, rs.has x = vals.has x
  | [], rs, n, n', s, s', h, x => by
    unfold mergeBak at h
    obtain ⟨h1, _⟩ := pure_ok' h
    simp only [Prod.mk.injEq] at h1
    rw [← h1.1]
  | (y, t) :: rest, rs, n, n', s, s', h, x => by
    obtain ⟨f, r, n1, s1, rs', _, _, h3, rfl⟩ := mergeBak_cons_ok h
    have ih := mergeBak_has h3 x
    simp only [Vals.has, Vals.get?] at ih ⊢
    by_cases hy : y = x
    · simp [hy]
    · simp only [hy, if_false]; exact ih

theorem mergeNodef_has {c : LinComb} {vals : Vals} : ∀ {nd rs : Vals} {n n' : Nat} {s s' : St},
    mergeNodef c vals nd n s = .ok ((rs, n'), s') → ∀ x, rs.has x = nd.has x
  | [], rs, n, n', s, s', h, x => by
    unfold mergeNodef at h
    obtain ⟨h1, _⟩ := pure_ok' h
    simp only [Prod.mk.injEq] at h1
    rw [← h1.1]
  | (y, t) :: rest, rs, n, n', s, s', h, x => by
    obtain ⟨f, r, n1, s1, rs', _, _, h3, rfl⟩ := mergeNodef_cons_ok h
    have ih := mergeNodef_has h3 x
    simp only [Vals.has, Vals.get?] at ih ⊢
    by_cases hy : y = x
    · simp [hy]
    · simp only [hy, if_false]; exact ih

theorem has_filter_bak (vals bak : Vals) (x : Nat) :
    Vals.has (vals.filter (fun kv => !bak.has kv.1)) x = (vals.has x && !bak.has x) := by
  have := Vals.get?_filter (fun k => !Vals.has bak k) vals x
  unfold Vals.has at this ⊢
  rw [this]
  cases (bak.get? x).isSome <;> simp

theorem has_removeAll (vals nd : Vals) (x : Nat) : (vals.removeAll nd).has x = (vals.has x && !nd.has x) := by
  unfold Vals.has
  rw [Vals.get?_removeAll]
  unfold Vals.has
  cases (nd.get? x).isSome <;> simp

theorem has_setAll (vals nd : Vals) (x : Nat) : (vals.setAll nd).has x = (nd.has x || vals.has x) := by
  unfold Vals.has
  rw [Vals.get?_setAll]
  unfold Vals.has
  cases h : (nd.get? x).isSome <;> simp [h]

theorem has_set (vals : Vals) (x y : Nat) (o : Obj) : (vals.set x o).has y = (decide (x = y) || vals.has y) := by
  unfold Vals.has
  rw [Vals.get?_set]
  by_cases h : x = y <;> simp [h]

/-- what `exit` does to the fields of the context and to the sets of bound names -/
theorem exit_struct {ctx ctx' : BCtx} {bv bv' : BV} {s s' : St} (h : ctx.exit bv s = .ok ((ctx', bv'), s')) :
    ctx'.isIf = ctx.isIf ∧ ctx'.bak = ctx.bak ∧ ctx'.cond = ctx.cond ∧ ctx'.icond = ctx.icond ∧
    ctx'.origguard = ctx.origguard ∧
    ∃ nd, ctx'.nodefvals = some nd ∧
      (ctx.nodefvals = none → ∀ x, nd.has x = (bv.vals.has x && !ctx.bak.has x)) ∧
      (∀ nd0, ctx.nodefvals = some nd0 → ∀ x, nd.has x = nd0.has x) ∧
      ∀ x, bv'.vals.has x = (bv.vals.has x && !nd.has x) := by
  obtain ⟨s1, nd, n1, s2, vals, n2, _, hnd, hb, rfl, rfl⟩ := exit_ok h
  refine ⟨rfl, rfl, rfl, rfl, rfl, nd, rfl, ?_, ?_, ?_⟩
  · intro hn x
    rcases hnd with ⟨_, rfl, _, _⟩ | ⟨nd0, hn0, _⟩
    · exact has_filter_bak _ _ x
    · rw [hn] at hn0; cases hn0
  · intro nd0 hn x
    rcases hnd with ⟨hn0, _, _, _⟩ | ⟨nd1, hn1, hm⟩
    · rw [hn] at hn0; cases hn0
    · rw [hn] at hn1; cases hn1
      exact mergeNodef_has hm x
  · intro x
    rw [mergeBak_has hb x, has_removeAll]

theorem enter_struct {ctx ctx' : BCtx} {c : LinComb} {bv : BV} {s s' : St} (h : ctx.enter c bv s = .ok (ctx', s')) :
    ctx'.isIf = ctx.isIf ∧ ctx'.bak = bv.vals ∧ ctx'.cond = c ∧ ctx'.icond = ctx.icond ∧
    ctx'.nodefvals = ctx.nodefvals := by
  obtain ⟨og, _, rfl⟩ := enter_ok h
  exact ⟨rfl, rfl, rfl, rfl, rfl⟩

/-- the names bound when the statement started (`D`) are bound, were bound at the last `enter`,
and are not among the names first bound inside the statement -/
structure ChainDom (D : Nat → Prop) (ctx : BCtx) (vals : Vals) : Prop where
  vals : ∀ x, D x → vals.has x = true
  bak : ∀ x, D x → ctx.bak.has x = true
  nd : ∀ nd, ctx.nodefvals = some nd → ∀ x, D x → nd.has x = false

theorem ChainDom.exit {D : Nat → Prop} {ctx ctx' : BCtx} {bv bv' : BV} {s s' : St} (hd : ChainDom D ctx bv.vals)
    (h : ctx.exit bv s = .ok ((ctx', bv'), s')) :
    (∀ x, D x → bv'.vals.has x = true) ∧ (∀ nd, ctx'.nodefvals = some nd → ∀ x, D x → nd.has x = false) := by
  obtain ⟨_, _, _, _, _, nd, hnd, h1, h2, h3⟩ := exit_struct h
  have hndD : ∀ x, D x → nd.has x = false := by
    intro x hx
    cases hn : ctx.nodefvals with
    | none => rw [h1 hn x, hd.bak x hx]; simp
    | some nd0 => rw [h2 nd0 hn x]; exact hd.nd nd0 hn x hx
  refine ⟨fun x hx => ?_, fun nd' hn' x hx => ?_⟩
  · rw [h3 x, hd.vals x hx, hndD x hx]; rfl
  · rw [hnd] at hn'; cases hn'; exact hndD x hx

theorem ChainDom.enter {D : Nat → Prop} {ctx ctx' : BCtx} {c : LinComb} {bv : BV} {s s' : St}
    (hv : ∀ x, D x → bv.vals.has x = true) (hn : ∀ nd, ctx.nodefvals = some nd → ∀ x, D x → nd.has x = false)
    (h : ctx.enter c bv s = .ok (ctx', s')) : ChainDom D ctx' bv.vals := by
  obtain ⟨_, hb, _, _, hnd⟩ := enter_struct h
  exact ⟨hv, fun x hx => by rw [hb]; exact hv x hx, fun nd h' => hn nd (hnd ▸ h')⟩

theorem ChainDom.mono {D : Nat → Prop} {ctx : BCtx} {vals vals' : Vals} (hd : ChainDom D ctx vals)
    (h : ∀ x, vals.has x = true → vals'.has x = true) : ChainDom D ctx vals' :=
  ⟨fun x hx => h x (hd.vals x hx), hd.bak, hd.nd⟩

/-- state between the rounds of a loop / the arms of a chain: the context on top of the stack -/
def TopDom (D : Nat → Prop) (stk : List BCtx) (bs : BSt) : Prop :=
  ∃ ctx, bs.stack = ctx :: stk ∧ ChainDom D ctx bs.bv.vals

theorem TopDom.whileNext {D : Nat → Prop} {stk : List BCtx} {bs bs' : BSt} {cond : Val} {s s' : St}
    (hd : TopDom D stk bs) (h : bWhileNext cond bs s = .ok (bs', s')) : TopDom D stk bs' := by
  obtain ⟨ctx0, hs0, hc⟩ := hd
  obtain ⟨ctx, rest, c, ctx', bv', hs, _, _, hw, rfl⟩ := bWhileNext_ok h
  rw [hs0] at hs; cases hs
  obtain ⟨ctx1, s1, c1, s2, he, _, hen⟩ := whileNext_ok hw
  obtain ⟨hx, _⟩ := whileExit_ok he
  obtain ⟨hv, hn⟩ := hc.exit hx
  exact ⟨ctx', rfl, ChainDom.enter hv hn hen⟩

theorem TopDom.breakStep {D : Nat → Prop} {stk : List BCtx} {env : BEnv} {brk : Option BCond} {bs bs' : BSt} {s s' : St}
    (hd : TopDom D stk bs) (h : breakStep env brk bs s = .ok (bs', s')) : TopDom D stk bs' := by
  unfold Pysnark.breakStep at h
  cases brk with
  | none =>
    obtain ⟨rfl, rfl⟩ := pure_ok' h
    exact hd
  | some bc =>
    obtain ⟨bcv, t4, _, h⟩ := bind_ok.mp h
    obtain ⟨cb, nc, t5, _, _, h⟩ := bBreakif_ok h
    exact hd.whileNext h

theorem TopDom.end_ {D : Nat → Prop} {stk : List BCtx} {bs bs' : BSt} {s s' : St}
    (hd : TopDom D stk bs) (h : bEndif bs s = .ok (bs', s') ∨ bEndwhile bs s = .ok (bs', s')) :
    bs'.stack = stk ∧ ∀ x, D x → bs'.bv.vals.has x = true := by
  obtain ⟨ctx0, hs0, hc⟩ := hd
  obtain ⟨ctx, rest, bv', hs, rfl, hcase⟩ := bEnd_ok h
  rw [hs0] at hs; cases hs
  refine ⟨rfl, ?_⟩
  rcases hcase with ⟨_, he⟩ | ⟨_, ctx', he⟩
  · obtain ⟨ctx1, bv1, hx, _, rfl⟩ := ifEnd_ok he
    obtain ⟨hv, _⟩ := hc.exit hx
    intro x hx'
    simp only [has_setAll, hv x hx', Bool.or_true]
  · obtain ⟨hx, _⟩ := whileExit_ok he
    exact (hc.exit hx).1

theorem TopDom.push {bs bs' : BSt} {cond : Val} {s s' : St}
    (h : bIf cond bs s = .ok (bs', s') ∨ bWhilePush cond bs s = .ok (bs', s')) :
    bs'.bv = bs.bv ∧ TopDom (fun x => bs.bv.vals.has x = true) bs.stack bs' := by
  rcases h with h | h
  · obtain ⟨c, ctx, _, hn, rfl⟩ := bIf_ok h
    obtain ⟨ic, s1, og, _, _, rfl⟩ := ifNew_ok hn
    exact ⟨rfl, _, rfl, ⟨fun x hx => hx, fun x hx => hx, fun nd h' => by cases h'⟩⟩
  · obtain ⟨c, ctx, _, hn, rfl⟩ := bWhilePush_ok h
    obtain ⟨og, _, rfl⟩ := whileNew_ok hn
    exact ⟨rfl, _, rfl, ⟨fun x hx => hx, fun x hx => hx, fun nd h' => by cases h'⟩⟩

theorem bindNew_struct {x : Nat} {v : Val} {bs bs' : BSt} {s s' : St} (h : bindNew x v bs s = .ok (bs', s')) :
    bs'.stack = bs.stack ∧ ∀ y, bs.bv.vals.has y = true → bs'.bv.vals.has y = true := by
  unfold bindNew at h
  cases v <;> first | exact (raise_ok.mp h).elim | skip
  obtain ⟨rfl, rfl⟩ := pure_ok' h
  exact ⟨rfl, fun y hy => by simp only [has_set, hy, Bool.or_true]⟩

theorem bindVar_struct {env : BEnv} {x : Nat} {e : BExpr} {v : Val} {bs bs' : BSt} {s s' : St}
    (h : bindVar env x e v bs s = .ok (bs', s')) :
    bs'.stack = bs.stack ∧ ∀ y, bs.bv.vals.has y = true → bs'.bv.vals.has y = true := by
  unfold bindVar at h
  cases hl : leafObj env bs.bv e with
  | some o =>
    simp only [hl] at h
    obtain ⟨rfl, rfl⟩ := pure_ok' h
    exact ⟨rfl, fun y hy => by simp only [has_set, hy, Bool.or_true]⟩
  | none =>
    simp only [hl] at h
    exact bindNew_struct h

mutual
theorem execStmt_struct : ∀ (st : BStmt) (env : BEnv) (bs bs' : BSt) (s s' : St),
    execStmt env st bs s = .ok (bs', s') →
    bs'.stack = bs.stack ∧ ∀ x, bs.bv.vals.has x = true → bs'.bv.vals.has x = true
  | .assign x e, env, bs, bs', s, s', h => by
    unfold execStmt at h
    obtain ⟨v, s1, _, h2⟩ := bind_ok.mp h
    exact bindVar_struct h2
  | .ite x c t f, env, bs, bs', s, s', h => by
    unfold execStmt at h
    obtain ⟨cv, s1, _, h⟩ := bind_ok.mp h
    obtain ⟨cl, s2, _, h⟩ := bind_ok.mp h
    obtain ⟨r, s3, _, h⟩ := bind_ok.mp h
    exact bindNew_struct h
  | .ifs c body rest, env, bs, bs', s, s', h => by
    unfold execStmt at h
    obtain ⟨cv, s1, _, h⟩ := bind_ok.mp h
    obtain ⟨bs1, s2, h1, h⟩ := bind_ok.mp h
    obtain ⟨bs2, s3, h2, h⟩ := bind_ok.mp h
    obtain ⟨hbv, ctx, hs1, hc⟩ := TopDom.push (Or.inl h1)
    obtain ⟨hst, hdom⟩ := execBlock_struct body env bs1 bs2 s2 s3 h2
    have htop : TopDom (fun x => bs.bv.vals.has x = true) bs.stack bs2 :=
      ⟨ctx, by rw [hst, hs1], hc.mono hdom⟩
    exact execIfRest_struct rest env bs2 bs' s3 s' _ _ htop h
  | .forr lv bound mx body, env, bs, bs', s, s', h => by
    unfold execStmt at h
    obtain ⟨stop, s1, _, h⟩ := bind_ok.mp h
    cases stop <;> first | exact (raise_ok.mp h).elim | skip
    dsimp only at h
    obtain ⟨c0, s2, _, h⟩ := bind_ok.mp h
    obtain ⟨bs1, s3, h1, h⟩ := bind_ok.mp h
    obtain ⟨bs2, s4, h2, h⟩ := bind_ok.mp h
    obtain ⟨bs3, s5, h3, h⟩ := bind_ok.mp h
    obtain ⟨hbv, ctx, hs1, hc⟩ := TopDom.push (Or.inr h1)
    obtain ⟨hst, hdom⟩ := execBlock_struct body _ bs1 bs2 s3 s4 h2
    have htop : TopDom (fun x => bs.bv.vals.has x = true) bs.stack bs2 :=
      ⟨ctx, by rw [hst, hs1], hc.mono hdom⟩
    have htop3 : TopDom (fun x => bs.bv.vals.has x = true) bs.stack bs3 := by
      refine iterM_inv (fun b _ => TopDom (fun x => bs.bv.vals.has x = true) bs.stack b) _ ?_ _ _ _ _ _ _ htop h3
      intro i b t b' t' hp hstep
      unfold forRound at hstep
      obtain ⟨cc, t1, _, hstep⟩ := bind_ok.mp hstep
      obtain ⟨b1, t2, hw, hstep⟩ := bind_ok.mp hstep
      obtain ⟨ctx1, hs', hc'⟩ := hp.whileNext hw
      obtain ⟨hst', hdom'⟩ := execBlock_struct body _ b1 b' t2 t' hstep
      exact ⟨ctx1, by rw [hst', hs'], hc'.mono hdom'⟩
    exact htop3.end_ (Or.inr h)
  | .whil c mx body brk, env, bs, bs', s, s', h => by
    unfold execStmt at h
    obtain ⟨c0, s1, _, h⟩ := bind_ok.mp h
    obtain ⟨bs1, s2, h1, h⟩ := bind_ok.mp h
    obtain ⟨bs2, s3, h2, h⟩ := bind_ok.mp h
    obtain ⟨hbv, htop⟩ := TopDom.push (Or.inr h1)
    have htop2 : TopDom (fun x => bs.bv.vals.has x = true) bs.stack bs2 := by
      refine iterM_inv (fun b _ => TopDom (fun x => bs.bv.vals.has x = true) bs.stack b) _ ?_ _ _ _ _ _ _ htop h2
      intro i b t b' t' hp hstep
      unfold whileRound at hstep
      obtain ⟨b1, t1, hb, hstep⟩ := bind_ok.mp hstep
      obtain ⟨b2, t2, hbr, hstep⟩ := bind_ok.mp hstep
      obtain ⟨cn, t3, _, hstep⟩ := bind_ok.mp hstep
      obtain ⟨ctx1, hs', hc'⟩ := hp
      obtain ⟨hst', hdom'⟩ := execBlock_struct body env b b1 t t1 hb
      have hp1 : TopDom (fun x => bs.bv.vals.has x = true) bs.stack b1 := ⟨ctx1, by rw [hst', hs'], hc'.mono hdom'⟩
      exact (hp1.breakStep hbr).whileNext hstep
    exact htop2.end_ (Or.inr h)

theorem execBlock_struct : ∀ (b : BBlock) (env : BEnv) (bs bs' : BSt) (s s' : St),
    execBlock env b bs s = .ok (bs', s') →
    bs'.stack = bs.stack ∧ ∀ x, bs.bv.vals.has x = true → bs'.bv.vals.has x = true
  | .nil, env, bs, bs', s, s', h => by
    unfold execBlock at h
    obtain ⟨rfl, rfl⟩ := pure_ok' h
    exact ⟨rfl, fun _ hx => hx⟩
  | .cons st rest, env, bs, bs', s, s', h => by
    unfold execBlock at h
    obtain ⟨bs1, s1, h1, h2⟩ := bind_ok.mp h
    obtain ⟨a1, b1⟩ := execStmt_struct st env bs bs1 s s1 h1
    obtain ⟨a2, b2⟩ := execBlock_struct rest env bs1 bs' s1 s' h2
    exact ⟨a2.trans a1, fun x hx => b2 x (b1 x hx)⟩

theorem execIfRest_struct : ∀ (rest : BIfRest) (env : BEnv) (bs bs' : BSt) (s s' : St) (D : Nat → Prop)
    (stk : List BCtx), TopDom D stk bs → execIfRest env rest bs s = .ok (bs', s') →
    bs'.stack = stk ∧ ∀ x, D x → bs'.bv.vals.has x = true
  | .endif, env, bs, bs', s, s', D, stk, hd, h => by
    unfold execIfRest at h
    exact hd.end_ (Or.inl h)
  | .els b, env, bs, bs', s, s', D, stk, hd, h => by
    unfold execIfRest at h
    obtain ⟨bs1, s1, h1, h3⟩ := bind_ok.mp h
    obtain ⟨bs2, s2, h2, h4⟩ := bind_ok.mp h3
    clear h h3
    obtain ⟨ctx0, hs0, hc⟩ := hd
    obtain ⟨ctx, rest, ctx', bv', hs, _, he, rfl⟩ := bElse_ok h1
    rw [hs0] at hs; cases hs
    obtain ⟨ctx1, t1, ic, ctx2, hx, _, hen, rfl⟩ := ifElse_ok he
    obtain ⟨hv, hn⟩ := hc.exit hx
    have hc2 := ChainDom.enter hv hn hen
    obtain ⟨hst, hdom⟩ := execBlock_struct b env _ bs2 s1 s2 h2
    have htop : TopDom D stk bs2 := ⟨_, hst, ⟨(hc2.mono hdom).vals, hc2.bak, hc2.nd⟩⟩
    exact htop.end_ (Or.inl h4)
  | .elif c b rest, env, bs, bs', s, s', D, stk, hd, h => by
    unfold execIfRest at h
    obtain ⟨bs1, s1, h1, h3⟩ := bind_ok.mp h
    obtain ⟨bs2, s2, h2, h4⟩ := bind_ok.mp h3
    clear h h3
    obtain ⟨ctx0, hs0, hc⟩ := hd
    obtain ⟨ctx, rest', ctx', bv', hs, _, he, rfl⟩ := bElif_ok h1
    rw [hs0] at hs; cases hs
    obtain ⟨ctx1, t1, nw, t2, ic, nn, t3, nwic, t4, cc, t5, ctx2, hx, _, _, _, _, _, hen, rfl⟩ := ifElif_ok he
    obtain ⟨hv, hn⟩ := hc.exit hx
    have hc2 := ChainDom.enter hv hn hen
    obtain ⟨hst, hdom⟩ := execBlock_struct b env _ bs2 s1 s2 h2
    have htop : TopDom D stk bs2 := ⟨_, hst, ⟨(hc2.mono hdom).vals, hc2.bak, hc2.nd⟩⟩
    exact execIfRest_struct rest env bs2 bs' s2 s' D stk htop h4
end

end Pysnark
