import PysnarkModel.Lemmas.BranchLive
/-!
# Block branching: what holds for every completed run, live or under a false guard

After each statement the stack of open contexts is what it was before, every variable that was
bound is still bound, and the resolution of the tracer is what it was.  (Needed to reason about the
parts of a program that run under a false guard, where nothing can be said about values.)
-/
namespace Pysnark

theorem iterM_inv {β : Type} (P : β → St → Prop) (f : Nat → β → M β)
    (hf : ∀ i b s b' s', P b s → f i b s = .ok (b', s') → P b' s') :
    ∀ (n i : Nat) (b : β) (s : St) (b' : β) (s' : St), P b s → iterM n f i b s = .ok (b', s') → P b' s'
  | 0, i, b, s, b', s', hp, h => by
    unfold iterM at h
    obtain ⟨rfl, rfl⟩ := pure_ok' h
    exact hp
  | n+1, i, b, s, b', s', hp, h => by
    unfold iterM at h
    obtain ⟨b1, s1, h1, h2⟩ := bind_ok.mp h
    exact iterM_inv P f hf n (i+1) b1 s1 b' s' (hf i b s b1 s1 hp h1) h2

/-! ## keys are preserved by the merges -/
theorem mergeBak_has {c : LinComb} {bak : Vals} : ∀ {vals rs : Vals} {n n' : Nat} {s s' : St},
    mergeBak c bak vals n s = .ok ((rs, n'), s') → ∀ x, rs.has x = vals.has x
  | [], rs, n, n', s, s', h, x => by
    unfold mergeBak at h
    obtain ⟨h1, _⟩ := pure_ok' h
    simp only [Prod.mk.injEq] at h1
    rw [← h1.1]
  | (y, t) :: rest, rs, n, n', s, s', h, x => by
    obtain ⟨f, r, n1, s1, rs', _, _, h3, rfl⟩ := mergeBak_cons_ok h
    have ih := mergeBak_has h3 x
    simp only [Vals.has, Vals.get?] at ih ⊢
    by_cases hy : y = x
    · simp [hy]
    · simp only [hy, if_false]; exact ih

theorem mergeNodef_has {c : LinComb} {vals : Vals} : ∀ {nd rs : Vals} {n n' : Nat} {s s' : St},
    mergeNodef c vals nd n s = .ok ((rs, n'), s') → ∀ x, rs.has x = nd.has x
  | [], rs, n, n', s, s', h, x => by
    unfold mergeNodef at h
    obtain ⟨h1, _⟩ := pure_ok' h
    simp only [Prod.mk.injEq] at h1
    rw [← h1.1]
  | (y, t) :: rest, rs, n, n', s, s', h, x => by
    obtain ⟨f, r, n1, s1, rs', _, _, h3, rfl⟩ := mergeNodef_cons_ok h
    have ih := mergeNodef_has h3 x
    simp only [Vals.has, Vals.get?] at ih ⊢
    by_cases hy : y = x
    · simp [hy]
    · simp only [hy, if_false]; exact ih

theorem has_filter_bak (vals bak : Vals) (x : Nat) :
    Vals.has (vals.filter (fun kv => !bak.has kv.1)) x = (vals.has x && !bak.has x) := by
  have := Vals.get?_filter (fun k => !Vals.has bak k) vals x
  unfold Vals.has at this ⊢
  rw [this]
  cases (bak.get? x).isSome <;> simp

theorem has_removeAll (vals nd : Vals) (x : Nat) : (vals.removeAll nd).has x = (vals.has x && !nd.has x) := by
  unfold Vals.has
  rw [Vals.get?_removeAll]
  unfold Vals.has
  cases (nd.get? x).isSome <;> simp

theorem has_setAll (vals nd : Vals) (x : Nat) : (vals.setAll nd).has x = (nd.has x || vals.has x) := by
  unfold Vals.has
  rw [Vals.get?_setAll]
  unfold Vals.has
  cases h : (nd.get? x).isSome <;> simp [h]

theorem has_set (vals : Vals) (x y : Nat) (o : TVal) : (vals.set x o).has y = (decide (x = y) || vals.has y) := by
  unfold Vals.has
  rw [Vals.get?_set]
  by_cases h : x = y <;> simp [h]

/-- what `exit` does to the fields of the context and to the sets of bound names -/
theorem exit_struct {ctx ctx' : BCtx} {bv bv' : BV} {s s' : St} (h : ctx.exit bv s = .ok ((ctx', bv'), s')) :
    ctx'.isIf = ctx.isIf ∧ ctx'.bak = ctx.bak ∧ ctx'.cond = ctx.cond ∧ ctx'.icond = ctx.icond ∧
    ctx'.origguard = ctx.origguard ∧
    ∃ nd, ctx'.nodefvals = some nd ∧
      (ctx.nodefvals = none → ∀ x, nd.has x = (bv.vals.has x && !ctx.bak.has x)) ∧
      (∀ nd0, ctx.nodefvals = some nd0 → ∀ x, nd.has x = nd0.has x) ∧
      ∀ x, bv'.vals.has x = (bv.vals.has x && !nd.has x) := by
  obtain ⟨s1, nd, n1, s2, vals, n2, _, hnd, hb, rfl, rfl⟩ := exit_ok h
  refine ⟨rfl, rfl, rfl, rfl, rfl, nd, rfl, ?_, ?_, ?_⟩
  · intro hn x
    rcases hnd with ⟨_, rfl, _, _⟩ | ⟨nd0, hn0, _⟩
    · exact has_filter_bak _ _ x
    · rw [hn] at hn0; cases hn0
  · intro nd0 hn x
    rcases hnd with ⟨hn0, _, _, _⟩ | ⟨nd1, hn1, hm⟩
    · rw [hn] at hn0; cases hn0
    · rw [hn] at hn1; cases hn1
      exact mergeNodef_has hm x
  · intro x
    rw [mergeBak_has hb x, has_removeAll]

theorem enter_struct {ctx ctx' : BCtx} {c : LinComb} {bv : BV} {s s' : St} (h : ctx.enter c bv s = .ok (ctx', s')) :
    ctx'.isIf = ctx.isIf ∧ ctx'.bak = bv.vals.backup ∧ ctx'.cond = c ∧ ctx'.icond = ctx.icond ∧
    ctx'.nodefvals = ctx.nodefvals := by
  obtain ⟨og, _, rfl⟩ := enter_ok h
  exact ⟨rfl, rfl, rfl, rfl, rfl⟩

/-- the names bound when the statement started (`D`) are bound, were bound at the last `enter`,
and are not among the names first bound inside the statement -/
structure ChainDom (D : Nat → Prop) (ctx : BCtx) (vals : Vals) : Prop where
  vals : ∀ x, D x → vals.has x = true
  bak : ∀ x, D x → ctx.bak.has x = true
  nd : ∀ nd, ctx.nodefvals = some nd → ∀ x, D x → nd.has x = false

theorem ChainDom.exit {D : Nat → Prop} {ctx ctx' : BCtx} {bv bv' : BV} {s s' : St} (hd : ChainDom D ctx bv.vals)
    (h : ctx.exit bv s = .ok ((ctx', bv'), s')) :
    (∀ x, D x → bv'.vals.has x = true) ∧ (∀ nd, ctx'.nodefvals = some nd → ∀ x, D x → nd.has x = false) := by
  obtain ⟨_, _, _, _, _, nd, hnd, h1, h2, h3⟩ := exit_struct h
  have hndD : ∀ x, D x → nd.has x = false := by
    intro x hx
    cases hn : ctx.nodefvals with
    | none => rw [h1 hn x, hd.bak x hx]; simp
    | some nd0 => rw [h2 nd0 hn x]; exact hd.nd nd0 hn x hx
  refine ⟨fun x hx => ?_, fun nd' hn' x hx => ?_⟩
  · rw [h3 x, hd.vals x hx, hndD x hx]; rfl
  · rw [hnd] at hn'; cases hn'; exact hndD x hx

theorem ChainDom.enter {D : Nat → Prop} {ctx ctx' : BCtx} {c : LinComb} {bv : BV} {s s' : St}
    (hv : ∀ x, D x → bv.vals.has x = true) (hn : ∀ nd, ctx.nodefvals = some nd → ∀ x, D x → nd.has x = false)
    (h : ctx.enter c bv s = .ok (ctx', s')) : ChainDom D ctx' bv.vals := by
  obtain ⟨_, hb, _, _, hnd⟩ := enter_struct h
  exact ⟨hv, fun x hx => by rw [hb, Vals.has_backup]; exact hv x hx, fun nd h' => hn nd (hnd ▸ h')⟩

theorem ChainDom.mono {D : Nat → Prop} {ctx : BCtx} {vals vals' : Vals} (hd : ChainDom D ctx vals)
    (h : ∀ x, vals.has x = true → vals'.has x = true) : ChainDom D ctx vals' :=
  ⟨fun x hx => h x (hd.vals x hx), hd.bak, hd.nd⟩

/-- state between the rounds of a loop / the arms of a chain: the context on top of the stack -/
def TopDom (D : Nat → Prop) (stk : List BCtx) (bs : BSt) : Prop :=
  ∃ ctx, bs.stack = ctx :: stk ∧ ChainDom D ctx bs.bv.vals

theorem TopDom.whileNext {D : Nat → Prop} {stk : List BCtx} {bs bs' : BSt} {cond : Val} {s s' : St}
    (hd : TopDom D stk bs) (h : bWhileNext cond bs s = .ok (bs', s')) : TopDom D stk bs' := by
  obtain ⟨ctx0, hs0, hc⟩ := hd
  obtain ⟨ctx, rest, c, ctx', bv', hs, _, _, hw, rfl⟩ := bWhileNext_ok h
  rw [hs0] at hs; cases hs
  obtain ⟨ctx1, s1, c1, s2, he, _, hen⟩ := whileNext_ok hw
  obtain ⟨hx, _⟩ := whileExit_ok he
  obtain ⟨hv, hn⟩ := hc.exit hx
  exact ⟨ctx', rfl, ChainDom.enter hv hn hen⟩

theorem TopDom.breakStep {D : Nat → Prop} {stk : List BCtx} {env : BEnv} {brk : Option BCond} {bs bs' : BSt} {s s' : St}
    (hd : TopDom D stk bs) (h : breakStep env brk bs s = .ok (bs', s')) : TopDom D stk bs' := by
  unfold Pysnark.breakStep at h
  cases brk with
  | none =>
    obtain ⟨rfl, rfl⟩ := pure_ok' h
    exact hd
  | some bc =>
    obtain ⟨bcv, t4, _, h⟩ := bind_ok.mp h
    obtain ⟨cb, nc, t5, _, _, h⟩ := bBreakif_ok h
    exact hd.whileNext h

theorem TopDom.end_ {D : Nat → Prop} {stk : List BCtx} {bs bs' : BSt} {s s' : St}
    (hd : TopDom D stk bs) (h : bEndif bs s = .ok (bs', s') ∨ bEndwhile bs s = .ok (bs', s')) :
    bs'.stack = stk ∧ ∀ x, D x → bs'.bv.vals.has x = true := by
  obtain ⟨ctx0, hs0, hc⟩ := hd
  obtain ⟨ctx, rest, bv', hs, rfl, hcase⟩ := bEnd_ok h
  rw [hs0] at hs; cases hs
  refine ⟨rfl, ?_⟩
  rcases hcase with ⟨_, he⟩ | ⟨_, ctx', he⟩
  · obtain ⟨ctx1, bv1, hx, _, rfl⟩ := ifEnd_ok he
    obtain ⟨hv, _⟩ := hc.exit hx
    intro x hx'
    simp only [has_setAll, hv x hx', Bool.or_true]
  · obtain ⟨hx, _⟩ := whileExit_ok he
    exact (hc.exit hx).1

theorem TopDom.push {bs bs' : BSt} {cond : Val} {s s' : St}
    (h : bIf cond bs s = .ok (bs', s') ∨ bWhilePush cond bs s = .ok (bs', s')) :
    bs'.bv = bs.bv ∧ TopDom (fun x => bs.bv.vals.has x = true) bs.stack bs' := by
  rcases h with h | h
  · obtain ⟨c, ctx, _, hn, rfl⟩ := bIf_ok h
    obtain ⟨ic, s1, og, _, _, rfl⟩ := ifNew_ok hn
    exact ⟨rfl, _, rfl, ⟨fun x hx => hx, fun x hx => by simp only [Vals.has_backup]; exact hx, fun nd h' => by cases h'⟩⟩
  · obtain ⟨c, ctx, _, hn, rfl⟩ := bWhilePush_ok h
    obtain ⟨og, _, rfl⟩ := whileNew_ok hn
    exact ⟨rfl, _, rfl, ⟨fun x hx => hx, fun x hx => by simp only [Vals.has_backup]; exact hx, fun nd h' => by cases h'⟩⟩


/-! ## the configuration part of the state (resolution) is never touched -/

theorem mergeS_same {c : LinComb} {t f r : SVal} {n n' : Nat} {s s' : St}
    (h : mergeS c t f n s = .ok ((r, n'), s')) : Same s s' := by
  rcases mergeS_ok h with ⟨_, _, _, _, rfl⟩ | ⟨_, v, hv, _, _⟩
  · exact Same.refl _
  · exact (iteScalar_rep t.toVal_isS f.toVal_isS hv).1

mutual
theorem mergeT_same {c : LinComb} : ∀ {t f r : TVal} {n n' : Nat} {s s' : St},
    mergeT c t f n s = .ok ((r, n'), s') → Same s s'
  | .leaf a, .leaf b, r, n, n', s, s', h => by
    obtain ⟨o, ho, _⟩ := mergeT_leaf_ok h
    exact mergeS_same ho
  | .node ts, .node fs, r, n, n', s, s', h => by
    obtain ⟨rs, hrs, _⟩ := mergeT_node_ok h
    exact mergeTL_same hrs
  | .node ts, .leaf b, r, n, n', s, s', h => by unfold mergeT at h; exact (raise_ok.mp h).elim
  | .leaf a, .node fs, r, n, n', s, s', h => by unfold mergeT at h; exact (raise_ok.mp h).elim
theorem mergeTL_same {c : LinComb} : ∀ {ts fs rs : List TVal} {n n' : Nat} {s s' : St},
    mergeTL c ts fs n s = .ok ((rs, n'), s') → Same s s'
  | [], [], rs, n, n', s, s', h => by
    obtain ⟨_, _, rfl⟩ := mergeTL_nil_ok h
    exact Same.refl _
  | t :: ts, f :: fs, rs, n, n', s, s', h => by
    obtain ⟨r, n1, s1, rs', h1, h2, _⟩ := mergeTL_cons_ok h
    exact (mergeT_same h1).trans (mergeTL_same h2)
  | [], _ :: _, rs, n, n', s, s', h => by unfold mergeTL at h; exact (raise_ok.mp h).elim
  | _ :: _, [], rs, n, n', s, s', h => by unfold mergeTL at h; exact (raise_ok.mp h).elim
end

theorem mergeBak_same {c : LinComb} {bak : Vals} : ∀ {vals rs : Vals} {n n' : Nat} {s s' : St},
    mergeBak c bak vals n s = .ok ((rs, n'), s') → Same s s'
  | [], rs, n, n', s, s', h => by
    unfold mergeBak at h
    obtain ⟨_, rfl⟩ := pure_ok' h
    exact Same.refl _
  | (y, t) :: rest, rs, n, n', s, s', h => by
    obtain ⟨f, r, n1, s1, rs', _, hm, h3, _⟩ := mergeBak_cons_ok h
    exact (mergeT_same hm).trans (mergeBak_same h3)

theorem mergeNodef_same {c : LinComb} {vals : Vals} : ∀ {nd rs : Vals} {n n' : Nat} {s s' : St},
    mergeNodef c vals nd n s = .ok ((rs, n'), s') → Same s s'
  | [], rs, n, n', s, s', h => by
    unfold mergeNodef at h
    obtain ⟨_, rfl⟩ := pure_ok' h
    exact Same.refl _
  | (y, o) :: rest, rs, n, n', s, s', h => by
    obtain ⟨t, r, n1, s1, rs', _, hm, h3, _⟩ := mergeNodef_cons_ok h
    exact (mergeT_same hm).trans (mergeNodef_same h3)

theorem exit_res {ctx ctx' : BCtx} {bv bv' : BV} {s s' : St} (h : ctx.exit bv s = .ok ((ctx', bv'), s')) :
    s'.resolution = s.resolution := by
  obtain ⟨s1, nd, n1, s2, vals, n2, hr, hnd, hb, _, _⟩ := exit_ok h
  have r1 := restoreGuard_res hr
  have r2 : s2.resolution = s1.resolution := by
    rcases hnd with ⟨_, _, _, rfl⟩ | ⟨nd0, _, hm⟩
    · rfl
    · exact (mergeNodef_same hm).res
  rw [(mergeBak_same hb).res, r2, r1]

theorem enter_res {ctx ctx' : BCtx} {c : LinComb} {bv : BV} {s s' : St} (h : ctx.enter c bv s = .ok (ctx', s')) :
    s'.resolution = s.resolution := by
  obtain ⟨og, hg, _⟩ := enter_ok h
  exact addGuard_res hg

theorem ifNew_res {c : LinComb} {bv : BV} {ctx : BCtx} {s s' : St} (h : ifNew c bv s = .ok (ctx, s')) :
    s'.resolution = s.resolution := by
  obtain ⟨ic, s1, og, hn, hg, _⟩ := ifNew_ok h
  rw [addGuard_res hg, (boolNot_val hn).1.res]

theorem whileNew_res {c : LinComb} {bv : BV} {ctx : BCtx} {s s' : St} (h : whileNew c bv s = .ok (ctx, s')) :
    s'.resolution = s.resolution := by
  obtain ⟨og, hg, _⟩ := whileNew_ok h
  exact addGuard_res hg

theorem whileNext_res {ctx ctx' : BCtx} {nw : LinComb} {bv bv' : BV} {s s' : St}
    (h : whileNext ctx nw bv s = .ok ((ctx', bv'), s')) : s'.resolution = s.resolution := by
  obtain ⟨ctx1, s1, c, s2, he, ha, hen⟩ := whileNext_ok h
  rw [enter_res hen, (andBB_val ha).1.res, exit_res (whileExit_ok he).1]

theorem bWhileNext_res {cond : Val} {bs bs' : BSt} {s s' : St} (h : bWhileNext cond bs s = .ok (bs', s')) :
    s'.resolution = s.resolution := by
  obtain ⟨ctx, rest, c, ctx', bv', _, _, _, hw, _⟩ := bWhileNext_ok h
  exact whileNext_res hw

theorem bBreakif_res {cond : Val} {bs bs' : BSt} {s s' : St} (h : bBreakif cond bs s = .ok (bs', s')) :
    s'.resolution = s.resolution := by
  obtain ⟨c, nc, s1, _, hn, hw⟩ := bBreakif_ok h
  rw [bWhileNext_res hw, (boolNot_val hn).1.res]

theorem bEnd_res {bs bs' : BSt} {s s' : St} (h : bEndif bs s = .ok (bs', s') ∨ bEndwhile bs s = .ok (bs', s')) :
    s'.resolution = s.resolution := by
  obtain ⟨ctx, rest, bv', _, _, hcase⟩ := bEnd_ok h
  rcases hcase with ⟨_, he⟩ | ⟨_, ctx', he⟩
  · obtain ⟨ctx1, bv1, hx, _, _⟩ := ifEnd_ok he
    exact exit_res hx
  · exact exit_res (whileExit_ok he).1

theorem bPush_res {cond : Val} {bs bs' : BSt} {s s' : St}
    (h : bIf cond bs s = .ok (bs', s') ∨ bWhilePush cond bs s = .ok (bs', s')) : s'.resolution = s.resolution := by
  rcases h with h | h
  · obtain ⟨c, ctx, _, hn, _⟩ := bIf_ok h
    exact ifNew_res hn
  · obtain ⟨c, ctx, _, hn, _⟩ := bWhilePush_ok h
    exact whileNew_res hn

theorem bElse_res {bs bs' : BSt} {s s' : St} (h : bElse bs s = .ok (bs', s')) : s'.resolution = s.resolution := by
  obtain ⟨ctx, rest, ctx', bv', _, _, he, _⟩ := bElse_ok h
  obtain ⟨ctx1, s1, ic, ctx2, hx, _, hen, _⟩ := ifElse_ok he
  rw [enter_res hen, exit_res hx]

theorem bElif_res {thunk : BV → M Val} {bs bs' : BSt} {s s' : St}
    (hth : ∀ bv t v t', thunk bv t = .ok (v, t') → t'.resolution = t.resolution)
    (h : bElif thunk bs s = .ok (bs', s')) : s'.resolution = s.resolution := by
  obtain ⟨ctx, rest, ctx', bv', _, _, he, _⟩ := bElif_ok h
  obtain ⟨ctx1, s1, nw, s2, ic, nn, s3, nwic, s4, cc, s5, ctx2, hx, ht, _, hnn, hnwic, hcc, hen, _⟩ := ifElif_ok he
  rw [enter_res hen, (andBB_val hcc).1.res, (andBB_val hnwic).1.res, (boolNot_val hnn).1.res, hth _ _ _ _ ht, exit_res hx]

/-! ## expressions -/

theorem binS_ok {op : Val → Val → M Val} {ok : Val → Val → Bool} {x y t : TVal} {n n' : Nat} {s s' : St}
    (h : binS op ok x y n s = .ok ((t, n'), s')) :
    ∃ a b v o, x = .leaf a ∧ y = .leaf b ∧ ok a.toVal b.toVal = true ∧ op a.toVal b.toVal s = .ok (v, s') ∧
      SVal.ofVal v n = some o ∧ t = .leaf o ∧ n' = n + 1 := by
  unfold binS at h
  split at h
  · rename_i a b
    split at h
    · rename_i hok
      obtain ⟨v, s1, h1, h2⟩ := bind_ok.mp h
      obtain ⟨⟨o, n1⟩, s2, h3, h4⟩ := bind_ok.mp h2
      obtain ⟨h5, rfl⟩ := pure_ok' h4
      simp only [Prod.mk.injEq] at h5
      obtain ⟨rfl, rfl⟩ := h5
      obtain ⟨h6, h7, rfl⟩ := freshS_ok h3
      exact ⟨a, b, v, o, rfl, rfl, hok, h1, h6, rfl, h7⟩
    · exact (raise_ok.mp h).elim
  · exact (raise_ok.mp h).elim

theorem notS_ok {x t : TVal} {n n' : Nat} {s s' : St} (h : notS x n s = .ok ((t, n'), s')) :
    ∃ l id r, x = .leaf (.sc .bool l id) ∧ boolNot l s = .ok (r, s') ∧ t = .leaf (.sc .bool r (some n)) ∧ n' = n + 1 := by
  unfold notS at h
  split at h
  · rename_i l id
    obtain ⟨r, s1, h1, h2⟩ := bind_ok.mp h
    obtain ⟨h3, rfl⟩ := pure_ok' h2
    simp only [Prod.mk.injEq] at h3
    exact ⟨l, id, r, rfl, h1, h3.1.symm, h3.2.symm⟩
  · exact (raise_ok.mp h).elim

theorem bothBool_ok {a b : Val} (h : bothBool a b = true) : ∃ x y, a = .lcb x ∧ b = .lcb y := by
  cases a <;> cases b <;> first | exact (Bool.false_ne_true h).elim | exact ⟨_, _, rfl, rfl⟩

mutual
theorem evalE_same {env : BEnv} {vals : Vals} : ∀ (e : BExpr) {n n' : Nat} {t : TVal} {s s' : St},
    evalE env vals e n s = .ok ((t, n'), s') → Same s s'
  | .var x, n, n', t, s, s', h => by
    unfold evalE at h
    cases hg : vals.get? x with
    | none => simp only [hg] at h; exact (raise_ok.mp h).elim
    | some o => simp only [hg] at h; obtain ⟨_, rfl⟩ := pure_ok' h; exact Same.refl _
  | .inp i, n, n', t, s, s', h => by
    unfold evalE at h
    cases hg : env.inputs[i]? with
    | none => simp only [hg] at h; exact (raise_ok.mp h).elim
    | some o => simp only [hg] at h; obtain ⟨_, rfl⟩ := pure_ok' h; exact Same.refl _
  | .finp i, n, n', t, s, s', h => by
    unfold evalE at h
    cases hg : env.finputs[i]? with
    | none => simp only [hg] at h; exact (raise_ok.mp h).elim
    | some o => simp only [hg] at h; obtain ⟨_, rfl⟩ := pure_ok' h; exact Same.refl _
  | .const c, n, n', t, s, s', h => by
    unfold evalE at h
    obtain ⟨_, rfl⟩ := pure_ok' h; exact Same.refl _
  | .loopvar v, n, n', t, s, s', h => by
    unfold evalE at h
    cases hg : lookupLv env.lvs v with
    | none => simp only [hg] at h; exact (raise_ok.mp h).elim
    | some o => simp only [hg] at h; obtain ⟨_, rfl⟩ := pure_ok' h; exact Same.refl _
  | .add a b, n, n', t, s, s', h => by
    unfold evalE at h
    obtain ⟨⟨x, n1⟩, s1, h1, h⟩ := bind_ok.mp h
    obtain ⟨⟨y, n2⟩, s2, h2, h⟩ := bind_ok.mp h
    obtain ⟨p, q, v, o, _, _, _, hop, _, _, _⟩ := binS_ok h
    obtain ⟨rfl, _⟩ := addV_rep p.toVal_isS q.toVal_isS hop
    exact (evalE_same a h1).trans (evalE_same b h2)
  | .sub a b, n, n', t, s, s', h => by
    unfold evalE at h
    obtain ⟨⟨x, n1⟩, s1, h1, h⟩ := bind_ok.mp h
    obtain ⟨⟨y, n2⟩, s2, h2, h⟩ := bind_ok.mp h
    obtain ⟨p, q, v, o, _, _, _, hop, _, _, _⟩ := binS_ok h
    obtain ⟨rfl, _⟩ := subV_rep p.toVal_isS q.toVal_isS hop
    exact (evalE_same a h1).trans (evalE_same b h2)
  | .mul a b, n, n', t, s, s', h => by
    unfold evalE at h
    obtain ⟨⟨x, n1⟩, s1, h1, h⟩ := bind_ok.mp h
    obtain ⟨⟨y, n2⟩, s2, h2, h⟩ := bind_ok.mp h
    obtain ⟨p, q, v, o, _, _, hok, hop, _, _, _⟩ := binS_ok h
    exact ((evalE_same a h1).trans (evalE_same b h2)).trans (mulV_rep p.toVal_isS q.toVal_isS hok hop).1
  | .cmp op a b, n, n', t, s, s', h => by
    unfold evalE at h
    obtain ⟨⟨x, n1⟩, s1, h1, h⟩ := bind_ok.mp h
    obtain ⟨⟨y, n2⟩, s2, h2, h⟩ := bind_ok.mp h
    obtain ⟨p, q, v, o, _, _, hok, hop, _, _, _⟩ := binS_ok h
    exact ((evalE_same a h1).trans (evalE_same b h2)).trans (cmpV_rep hok hop).1
  | .not a, n, n', t, s, s', h => by
    unfold evalE at h
    obtain ⟨⟨x, n1⟩, s1, h1, h⟩ := bind_ok.mp h
    obtain ⟨l, id, r, _, hn, _, _⟩ := notS_ok h
    exact (evalE_same a h1).trans (boolNot_val hn).1
  | .and a b, n, n', t, s, s', h => by
    unfold evalE at h
    obtain ⟨⟨x, n1⟩, s1, h1, h⟩ := bind_ok.mp h
    obtain ⟨⟨y, n2⟩, s2, h2, h⟩ := bind_ok.mp h
    obtain ⟨p, q, v, o, _, _, hok, hop, _, _, _⟩ := binS_ok h
    obtain ⟨x', y', hx', hy'⟩ := bothBool_ok hok
    rw [hx', hy'] at hop
    exact ((evalE_same a h1).trans (evalE_same b h2)).trans (bwV_bool (Or.inl rfl) hop).1
  | .or a b, n, n', t, s, s', h => by
    unfold evalE at h
    obtain ⟨⟨x, n1⟩, s1, h1, h⟩ := bind_ok.mp h
    obtain ⟨⟨y, n2⟩, s2, h2, h⟩ := bind_ok.mp h
    obtain ⟨p, q, v, o, _, _, hok, hop, _, _, _⟩ := binS_ok h
    obtain ⟨x', y', hx', hy'⟩ := bothBool_ok hok
    rw [hx', hy'] at hop
    exact ((evalE_same a h1).trans (evalE_same b h2)).trans (bwV_bool (Or.inr rfl) hop).1
  | .list es, n, n', t, s, s', h => by
    unfold evalE at h
    obtain ⟨⟨ts, n1⟩, s1, h1, h⟩ := bind_ok.mp h
    obtain ⟨_, rfl⟩ := pure_ok' h
    exact evalEs_same es h1
  | .item e i, n, n', t, s, s', h => by
    unfold evalE at h
    obtain ⟨⟨u, n1⟩, s1, h1, h⟩ := bind_ok.mp h
    have : s' = s1 := by
      cases u with
      | leaf a => exact (raise_ok.mp h).elim
      | node ts =>
        dsimp only at h
        cases hg : ts[i]? with
        | none => simp only [hg] at h; exact (raise_ok.mp h).elim
        | some w => simp only [hg] at h; obtain ⟨_, rfl⟩ := pure_ok' h; rfl
    rw [this]
    exact evalE_same e h1
theorem evalEs_same {env : BEnv} {vals : Vals} : ∀ (es : BExprs) {n n' : Nat} {ts : List TVal} {s s' : St},
    evalEs env vals es n s = .ok ((ts, n'), s') → Same s s'
  | .nil, n, n', ts, s, s', h => by
    unfold evalEs at h
    obtain ⟨_, rfl⟩ := pure_ok' h; exact Same.refl _
  | .cons e es, n, n', ts, s, s', h => by
    unfold evalEs at h
    obtain ⟨⟨u, n1⟩, s1, h1, h⟩ := bind_ok.mp h
    obtain ⟨⟨us, n2⟩, s2, h2, h⟩ := bind_ok.mp h
    obtain ⟨_, rfl⟩ := pure_ok' h
    exact (evalE_same e h1).trans (evalEs_same es h2)
end

theorem evalC_ok {env : BEnv} {bv : BV} {c : BCond} {v : Val} {s s' : St} (h : evalC env bv c s = .ok (v, s')) :
    ∃ o n', evalE env bv.vals c bv.next s = .ok ((.leaf o, n'), s') ∧ v = o.toVal := by
  unfold evalC at h
  obtain ⟨⟨t, n1⟩, s1, h1, h⟩ := bind_ok.mp h
  cases t with
  | leaf o =>
    obtain ⟨rfl, rfl⟩ := pure_ok' h
    exact ⟨o, n1, h1, rfl⟩
  | node ts => exact (raise_ok.mp h).elim

theorem evalC_same {env : BEnv} {bv : BV} {c : BCond} {v : Val} {s s' : St} (h : evalC env bv c s = .ok (v, s')) :
    Same s s' := by
  obtain ⟨o, n', he, _⟩ := evalC_ok h
  exact evalE_same c he

theorem guardedM_res {α : Type} {c : LinComb} {m : M α} {a : α} {s s' : St}
    (hm : ∀ t b t', m t = .ok (b, t') → t'.resolution = t.resolution)
    (h : guardedM c m s = .ok (a, s')) : s'.resolution = s.resolution := by
  unfold guardedM at h
  obtain ⟨bak, s1, h1, h⟩ := bind_ok.mp h
  obtain ⟨b, s2, h2, h⟩ := bind_ok.mp h
  obtain ⟨u, s3, h3, h⟩ := bind_ok.mp h
  obtain ⟨_, rfl⟩ := pure_ok' h
  rw [restoreGuard_res h3, hm _ _ _ h2, addGuard_res h1]

theorem iteVals_same {c : LinComb} {tv fv r : TVal} {n n' : Nat} {s s' : St}
    (h : iteVals c tv fv n s = .ok ((r, n'), s')) : Same s s' := by
  unfold iteVals at h
  split at h
  · rename_i a b
    obtain ⟨v, s1, h1, h⟩ := bind_ok.mp h
    obtain ⟨⟨o, n1⟩, s2, h2, h⟩ := bind_ok.mp h
    obtain ⟨_, rfl⟩ := pure_ok' h
    obtain ⟨_, _, rfl⟩ := freshS_ok h2
    exact (iteScalar_rep a.toVal_isS b.toVal_isS h1).1
  · exact mergeT_same h

theorem iteThunks_res {env : BEnv} {vals : Vals} {c : LinComb} {t f : BExpr} {n n' : Nat} {r : TVal} {s s' : St}
    (h : iteThunks c (evalE env vals t) (evalE env vals f) n s = .ok ((r, n'), s')) :
    s'.resolution = s.resolution := by
  unfold iteThunks at h
  obtain ⟨⟨tv, n1⟩, s1, h1, h⟩ := bind_ok.mp h
  obtain ⟨nc, s2, h2, h⟩ := bind_ok.mp h
  obtain ⟨⟨fv, n2⟩, s3, h3, h⟩ := bind_ok.mp h
  rw [(iteVals_same h).res, guardedM_res (fun _ _ _ hh => (evalE_same f hh).res) h3, (boolNot_val h2).1.res,
    guardedM_res (fun _ _ _ hh => (evalE_same t hh).res) h1]

theorem bindT_ok {x : Nat} {t : TVal} {n : Nat} {bs bs' : BSt} {s s' : St} (h : bindT x t n bs s = .ok (bs', s')) :
    t.isSecret = true ∧ bs' = { bs with bv := { vals := bs.bv.vals.set x t, next := n } } ∧ s' = s := by
  unfold bindT at h
  split at h
  · rename_i hs
    obtain ⟨rfl, rfl⟩ := pure_ok' h
    exact ⟨hs, rfl, rfl⟩
  · exact (raise_ok.mp h).elim

theorem bindT_struct {x : Nat} {t : TVal} {n : Nat} {bs bs' : BSt} {s s' : St} (h : bindT x t n bs s = .ok (bs', s')) :
    (bs'.stack = bs.stack ∧ ∀ y, bs.bv.vals.has y = true → bs'.bv.vals.has y = true) ∧ s' = s := by
  obtain ⟨_, rfl, rfl⟩ := bindT_ok h
  exact ⟨⟨rfl, fun y hy => by simp only [has_set, hy, Bool.or_true]⟩, rfl⟩

/-- what every completed statement leaves as it was: the stack, the bound names, the resolution -/
def Struct (bs bs' : BSt) (s s' : St) : Prop :=
  (bs'.stack = bs.stack ∧ ∀ x, bs.bv.vals.has x = true → bs'.bv.vals.has x = true) ∧ s'.resolution = s.resolution

theorem breakStep_res {env : BEnv} {brk : Option BCond} {bs bs' : BSt} {s s' : St}
    (h : breakStep env brk bs s = .ok (bs', s')) : s'.resolution = s.resolution := by
  unfold Pysnark.breakStep at h
  cases brk with
  | none => obtain ⟨_, rfl⟩ := pure_ok' h; rfl
  | some bc =>
    obtain ⟨bcv, t4, h1, h⟩ := bind_ok.mp h
    rw [bBreakif_res h, (evalC_same h1).res]

mutual
theorem execStmt_struct : ∀ (st : BStmt) (env : BEnv) (bs bs' : BSt) (s s' : St),
    execStmt env st bs s = .ok (bs', s') → Struct bs bs' s s'
  | .assign x e, env, bs, bs', s, s', h => by
    unfold execStmt at h
    obtain ⟨⟨t, n⟩, s1, h1, h2⟩ := bind_ok.mp h
    obtain ⟨hst, rfl⟩ := bindT_struct h2
    exact ⟨hst, (evalE_same e h1).res⟩
  | .setitem x path e, env, bs, bs', s, s', h => by
    unfold execStmt at h
    obtain ⟨⟨t, n⟩, s1, h1, h2⟩ := bind_ok.mp h
    dsimp only at h2
    cases hg : bs.bv.vals.get? x with
    | none => simp only [hg] at h2; exact (raise_ok.mp h2).elim
    | some old =>
      simp only [hg] at h2
      cases hs : old.set path t with
      | none => simp only [hs] at h2; exact (raise_ok.mp h2).elim
      | some new =>
        simp only [hs] at h2
        obtain ⟨hst, rfl⟩ := bindT_struct h2
        exact ⟨hst, (evalE_same e h1).res⟩
  | .sel x c t f, env, bs, bs', s, s', h => by
    unfold execStmt at h
    obind h with cv, s1, h1
    obind h with ⟨tv, n1⟩, s2, h2
    obind h with ⟨fv, n2⟩, s3, h3
    obind h with cl, s4, h4
    obtain ⟨_, rfl⟩ := condLC_ok h4
    obind h with ⟨r, n3⟩, s5, h5
    obtain ⟨hst, rfl⟩ := bindT_struct h
    exact ⟨hst, by rw [(mergeT_same h5).res, (evalE_same f h3).res, (evalE_same t h2).res, (evalC_same h1).res]⟩
  | .ite x c t f, env, bs, bs', s, s', h => by
    unfold execStmt at h
    obind h with cv, s1, h1
    obind h with cl, s2, h2
    obtain ⟨_, rfl⟩ := condLC_ok h2
    obind h with ⟨r, n3⟩, s3, h3
    obtain ⟨hst, rfl⟩ := bindT_struct h
    exact ⟨hst, by rw [iteThunks_res h3, (evalC_same h1).res]⟩
  | .ifs c body rest, env, bs, bs', s, s', h => by
    unfold execStmt at h
    obtain ⟨cv, s1, h0, h⟩ := bind_ok.mp h
    obtain ⟨bs1, s2, h1, h⟩ := bind_ok.mp h
    obtain ⟨bs2, s3, h2, h⟩ := bind_ok.mp h
    obtain ⟨hbv, ctx, hs1, hc⟩ := TopDom.push (Or.inl h1)
    obtain ⟨⟨hst, hdom⟩, hr2⟩ := execBlock_struct body env bs1 bs2 s2 s3 h2
    have htop : TopDom (fun x => bs.bv.vals.has x = true) bs.stack bs2 :=
      ⟨ctx, by rw [hst, hs1], hc.mono hdom⟩
    obtain ⟨hst3, hr3⟩ := execIfRest_struct rest env bs2 bs' s3 s' _ _ htop h
    exact ⟨hst3, by rw [hr3, hr2, bPush_res (Or.inl h1), (evalC_same h0).res]⟩
  | .forr lv bound mx body, env, bs, bs', s, s', h => by
    unfold execStmt at h
    obtain ⟨stop, s1, h0, h⟩ := bind_ok.mp h
    cases stop <;> first | exact (raise_ok.mp h).elim | skip
    dsimp only at h
    obtain ⟨c0, s2, hc0, h⟩ := bind_ok.mp h
    obtain ⟨bs1, s3, h1, h⟩ := bind_ok.mp h
    obtain ⟨bs2, s4, h2, h⟩ := bind_ok.mp h
    obtain ⟨bs3, s5, h3, h⟩ := bind_ok.mp h
    obtain ⟨hbv, ctx, hs1, hc⟩ := TopDom.push (Or.inr h1)
    obtain ⟨⟨hst, hdom⟩, hr2⟩ := execBlock_struct body _ bs1 bs2 s3 s4 h2
    have hrc0 : s2.resolution = s1.resolution := (cmpV_int_all (x := .int 0) (y := .lc _) trivial trivial hc0).1.res
    have htop : TopDom (fun x => bs.bv.vals.has x = true) bs.stack bs2 ∧ s4.resolution = s.resolution :=
      ⟨⟨ctx, by rw [hst, hs1], hc.mono hdom⟩, by rw [hr2, bPush_res (Or.inr h1), hrc0, (evalC_same h0).res]⟩
    have htop3 : TopDom (fun x => bs.bv.vals.has x = true) bs.stack bs3 ∧ s5.resolution = s.resolution := by
      refine iterM_inv (fun b t => TopDom (fun x => bs.bv.vals.has x = true) bs.stack b ∧ t.resolution = s.resolution)
        _ ?_ _ _ _ _ _ _ htop h3
      intro i b t b' t' hp hstep
      unfold forRound at hstep
      obtain ⟨cc, t1, hcc, hstep⟩ := bind_ok.mp hstep
      obtain ⟨b1, t2, hw, hstep⟩ := bind_ok.mp hstep
      obtain ⟨ctx1, hs', hc'⟩ := hp.1.whileNext hw
      obtain ⟨⟨hst', hdom'⟩, hr'⟩ := execBlock_struct body _ b1 b' t2 t' hstep
      exact ⟨⟨ctx1, by rw [hst', hs'], hc'.mono hdom'⟩,
        by rw [hr', bWhileNext_res hw, (cmpV_int_all (x := .int _) (y := .lc _) trivial trivial hcc).1.res, hp.2]⟩
    exact ⟨htop3.1.end_ (Or.inr h), by rw [bEnd_res (Or.inr h), htop3.2]⟩
  | .whil c mx body brk, env, bs, bs', s, s', h => by
    unfold execStmt at h
    obtain ⟨c0, s1, h0, h⟩ := bind_ok.mp h
    obtain ⟨bs1, s2, h1, h⟩ := bind_ok.mp h
    obtain ⟨bs2, s3, h2, h⟩ := bind_ok.mp h
    obtain ⟨hbv, htop⟩ := TopDom.push (Or.inr h1)
    have htop1 : TopDom (fun x => bs.bv.vals.has x = true) bs.stack bs1 ∧ s2.resolution = s.resolution :=
      ⟨htop, by rw [bPush_res (Or.inr h1), (evalC_same h0).res]⟩
    have htop2 : TopDom (fun x => bs.bv.vals.has x = true) bs.stack bs2 ∧ s3.resolution = s.resolution := by
      refine iterM_inv (fun b t => TopDom (fun x => bs.bv.vals.has x = true) bs.stack b ∧ t.resolution = s.resolution)
        _ ?_ _ _ _ _ _ _ htop1 h2
      intro i b t b' t' hp hstep
      unfold whileRound at hstep
      obtain ⟨b1, t1, hb, hstep⟩ := bind_ok.mp hstep
      obtain ⟨b2, t2, hbr, hstep⟩ := bind_ok.mp hstep
      obtain ⟨cn, t3, hcn, hstep⟩ := bind_ok.mp hstep
      obtain ⟨ctx1, hs', hc'⟩ := hp.1
      obtain ⟨⟨hst', hdom'⟩, hr'⟩ := execBlock_struct body env b b1 t t1 hb
      have hp1 : TopDom (fun x => bs.bv.vals.has x = true) bs.stack b1 := ⟨ctx1, by rw [hst', hs'], hc'.mono hdom'⟩
      exact ⟨(hp1.breakStep hbr).whileNext hstep,
        by rw [bWhileNext_res hstep, (evalC_same hcn).res, breakStep_res hbr, hr', hp.2]⟩
    exact ⟨htop2.1.end_ (Or.inr h), by rw [bEnd_res (Or.inr h), htop2.2]⟩

theorem execBlock_struct : ∀ (b : BBlock) (env : BEnv) (bs bs' : BSt) (s s' : St),
    execBlock env b bs s = .ok (bs', s') → Struct bs bs' s s'
  | .nil, env, bs, bs', s, s', h => by
    unfold execBlock at h
    obtain ⟨rfl, rfl⟩ := pure_ok' h
    exact ⟨⟨rfl, fun _ hx => hx⟩, rfl⟩
  | .cons st rest, env, bs, bs', s, s', h => by
    unfold execBlock at h
    obtain ⟨bs1, s1, h1, h2⟩ := bind_ok.mp h
    obtain ⟨⟨a1, b1⟩, r1⟩ := execStmt_struct st env bs bs1 s s1 h1
    obtain ⟨⟨a2, b2⟩, r2⟩ := execBlock_struct rest env bs1 bs' s1 s' h2
    exact ⟨⟨a2.trans a1, fun x hx => b2 x (b1 x hx)⟩, r2.trans r1⟩

theorem execIfRest_struct : ∀ (rest : BIfRest) (env : BEnv) (bs bs' : BSt) (s s' : St) (D : Nat → Prop)
    (stk : List BCtx), TopDom D stk bs → execIfRest env rest bs s = .ok (bs', s') →
    (bs'.stack = stk ∧ ∀ x, D x → bs'.bv.vals.has x = true) ∧ s'.resolution = s.resolution
  | .endif, env, bs, bs', s, s', D, stk, hd, h => by
    unfold execIfRest at h
    exact ⟨hd.end_ (Or.inl h), bEnd_res (Or.inl h)⟩
  | .els b, env, bs, bs', s, s', D, stk, hd, h => by
    unfold execIfRest at h
    obtain ⟨bs1, s1, h1, h3⟩ := bind_ok.mp h
    obtain ⟨bs2, s2, h2, h4⟩ := bind_ok.mp h3
    clear h h3
    have hres1 := bElse_res h1
    obtain ⟨ctx0, hs0, hc⟩ := hd
    obtain ⟨ctx, rest, ctx', bv', hs, _, he, rfl⟩ := bElse_ok h1
    rw [hs0] at hs; cases hs
    obtain ⟨ctx1, t1, ic, ctx2, hx, _, hen, rfl⟩ := ifElse_ok he
    obtain ⟨hv, hn⟩ := hc.exit hx
    have hc2 := ChainDom.enter hv hn hen
    obtain ⟨⟨hst, hdom⟩, hr2⟩ := execBlock_struct b env _ bs2 s1 s2 h2
    have htop : TopDom D stk bs2 := ⟨_, hst, ⟨(hc2.mono hdom).vals, hc2.bak, hc2.nd⟩⟩
    exact ⟨htop.end_ (Or.inl h4), by rw [bEnd_res (Or.inl h4), hr2, hres1]⟩
  | .elif c b rest, env, bs, bs', s, s', D, stk, hd, h => by
    unfold execIfRest at h
    obtain ⟨bs1, s1, h1, h3⟩ := bind_ok.mp h
    obtain ⟨bs2, s2, h2, h4⟩ := bind_ok.mp h3
    clear h h3
    have hres1 := bElif_res (fun bv t v t' ht => (evalC_same ht).res) h1
    obtain ⟨ctx0, hs0, hc⟩ := hd
    obtain ⟨ctx, rest', ctx', bv', hs, _, he, rfl⟩ := bElif_ok h1
    rw [hs0] at hs; cases hs
    obtain ⟨ctx1, t1, nw, t2, ic, nn, t3, nwic, t4, cc, t5, ctx2, hx, _, _, _, _, _, hen, rfl⟩ := ifElif_ok he
    obtain ⟨hv, hn⟩ := hc.exit hx
    have hc2 := ChainDom.enter hv hn hen
    obtain ⟨⟨hst, hdom⟩, hr2⟩ := execBlock_struct b env _ bs2 s1 s2 h2
    have htop : TopDom D stk bs2 := ⟨_, hst, ⟨(hc2.mono hdom).vals, hc2.bak, hc2.nd⟩⟩
    obtain ⟨hst3, hr3⟩ := execIfRest_struct rest env bs2 bs' s2 s' D stk htop h4
    exact ⟨hst3, by rw [hr3, hr2, hres1]⟩
end

end Pysnark
