import PysnarkModel.Lemmas.BranchStruct
/-!
# Block branching: nested lists (`PTree`) — mapping, indexing, element assignment
-/
namespace Pysnark
namespace PTree
variable {α β : Type}

theorem mapL_eq_map (f : α → β) : ∀ ts : List (PTree α), mapL f ts = ts.map (map f)
  | [] => rfl
  | t :: ts => by simp only [mapL, List.map_cons, mapL_eq_map f ts]

theorem allL_eq_all (p : α → Bool) : ∀ ts : List (PTree α), allL p ts = ts.all (all p)
  | [] => rfl
  | t :: ts => by simp only [allL, List.all_cons, allL_eq_all p ts]

@[simp] theorem map_leaf (f : α → β) (a : α) : map f (.leaf a) = .leaf (f a) := by simp only [map]
@[simp] theorem map_node (f : α → β) (ts : List (PTree α)) : map f (.node ts) = .node (ts.map (map f)) := by
  simp only [map, mapL_eq_map]
@[simp] theorem all_leaf (p : α → Bool) (a : α) : all p (.leaf a) = p a := by simp only [all]
@[simp] theorem all_node (p : α → Bool) (ts : List (PTree α)) : all p (.node ts) = ts.all (all p) := by
  simp only [all, allL_eq_all]

theorem map_leaf_inv {f : α → β} {t : PTree α} {m : β} (h : map f t = .leaf m) : ∃ a, t = .leaf a ∧ f a = m := by
  cases t with
  | leaf a => simp only [map_leaf, leaf.injEq] at h; exact ⟨a, rfl, h⟩
  | node ts => simp only [map_node] at h; cases h

theorem map_node_inv {f : α → β} {t : PTree α} {ms : List (PTree β)} (h : map f t = .node ms) :
    ∃ ts, t = .node ts ∧ ts.map (map f) = ms := by
  cases t with
  | leaf a => simp only [map_leaf] at h; cases h
  | node ts => simp only [map_node, node.injEq] at h; exact ⟨ts, rfl, h⟩

theorem all_getElem? {p : α → Bool} {ts : List (PTree α)} {i : Nat} {u : PTree α} (h : ts.all (all p) = true)
    (hi : ts[i]? = some u) : all p u = true :=
  List.all_eq_true.mp h u (List.mem_of_getElem? hi)

theorem all_set {p : α → Bool} {ts : List (PTree α)} {i : Nat} {u : PTree α} (h : ts.all (all p) = true)
    (hu : all p u = true) : (ts.set i u).all (all p) = true := by
  rw [List.all_eq_true] at h ⊢
  intro x hx
  rcases List.mem_or_eq_of_mem_set hx with hx | rfl
  · exact h x hx
  · exact hu

/-- element assignment commutes with mapping the leaves -/
theorem map_set (f : α → β) : ∀ (path : List Nat) (t v : PTree α),
    (t.set path v).map (map f) = (t.map f).set path (v.map f)
  | [], t, v => by simp only [set, Option.map_some]
  | i :: p, .leaf a, v => by simp only [set, map_leaf, Option.map_none]
  | i :: p, .node ts, v => by
    simp only [set, map_node, List.getElem?_map]
    cases hi : ts[i]? with
    | none => simp only [Option.map_none]
    | some u =>
      simp only [Option.map_some]
      rw [← map_set f p u v]
      cases hs : u.set p v with
      | none => simp only [Option.map_none]
      | some u' => simp only [Option.map_some, map_node, List.map_set]

theorem all_of_set {p : α → Bool} : ∀ (path : List Nat) {t v r : PTree α}, t.set path v = some r →
    all p t = true → all p v = true → all p r = true
  | [], t, v, r, h, _, hv => by
    simp only [set, Option.some.injEq] at h
    rw [← h]; exact hv
  | i :: q, .leaf a, v, r, h, _, _ => by simp only [set] at h; cases h
  | i :: q, .node ts, v, r, h, ht, hv => by
    simp only [set] at h
    cases hi : ts[i]? with
    | none => simp only [hi] at h; cases h
    | some u =>
      simp only [hi] at h
      cases hs : u.set q v with
      | none => simp only [hs, Option.map_none] at h; cases h
      | some u' =>
        simp only [hs, Option.map_some, Option.some.injEq] at h
        rw [← h]
        simp only [all_node] at ht ⊢
        exact all_set ht (all_of_set q hs (all_getElem? ht hi) hv)

theorem AllPL_iff {P : α → Prop} : ∀ {ts : List (PTree α)}, AllPL P ts ↔ ∀ t ∈ ts, AllP P t
  | [] => by simp [AllPL]
  | t :: ts => by simp only [AllPL, List.mem_cons, forall_eq_or_imp, AllPL_iff (ts := ts)]

@[simp] theorem AllP_leaf {P : α → Prop} (a : α) : AllP P (.leaf a) ↔ P a := by simp only [AllP]
@[simp] theorem AllP_node {P : α → Prop} (ts : List (PTree α)) : AllP P (.node ts) ↔ ∀ t ∈ ts, AllP P t := by
  simp only [AllP, AllPL_iff]

mutual
theorem AllP.mono {P Q : α → Prop} (h : ∀ a, P a → Q a) : ∀ {t : PTree α}, AllP P t → AllP Q t
  | .leaf a, ht => by simp only [AllP] at ht ⊢; exact h a ht
  | .node ts, ht => by simp only [AllP] at ht ⊢; exact AllPL.mono h ht
theorem AllPL.mono {P Q : α → Prop} (h : ∀ a, P a → Q a) : ∀ {ts : List (PTree α)}, AllPL P ts → AllPL Q ts
  | [], _ => by simp only [AllPL]
  | t :: ts, ht => by simp only [AllPL] at ht ⊢; exact ⟨AllP.mono h ht.1, AllPL.mono h ht.2⟩
end

mutual
theorem AllP.map {P : α → Prop} {Q : β → Prop} {f : α → β} (h : ∀ a, P a → Q (f a)) :
    ∀ {t : PTree α}, AllP P t → AllP Q (t.map f)
  | .leaf a, ht => by simp only [AllP, PTree.map] at ht ⊢; exact h a ht
  | .node ts, ht => by simp only [AllP, PTree.map] at ht ⊢; exact AllPL.map h ht
theorem AllPL.map {P : α → Prop} {Q : β → Prop} {f : α → β} (h : ∀ a, P a → Q (f a)) :
    ∀ {ts : List (PTree α)}, AllPL P ts → AllPL Q (mapL f ts)
  | [], _ => by simp only [AllPL, mapL]
  | t :: ts, ht => by simp only [AllPL, mapL] at ht ⊢; exact ⟨AllP.map h ht.1, AllPL.map h ht.2⟩
end

theorem AllP_of_set {P : α → Prop} : ∀ (path : List Nat) {t v r : PTree α}, t.set path v = some r →
    AllP P t → AllP P v → AllP P r
  | [], t, v, r, h, _, hv => by
    simp only [set, Option.some.injEq] at h
    rw [← h]; exact hv
  | i :: q, .leaf a, v, r, h, _, _ => by simp only [set] at h; cases h
  | i :: q, .node ts, v, r, h, ht, hv => by
    simp only [set] at h
    cases hi : ts[i]? with
    | none => simp only [hi] at h; cases h
    | some u =>
      simp only [hi] at h
      cases hs : u.set q v with
      | none => simp only [hs, Option.map_none] at h; cases h
      | some u' =>
        simp only [hs, Option.map_some, Option.some.injEq] at h
        rw [← h]
        simp only [AllP_node] at ht ⊢
        intro x hx
        rcases List.mem_or_eq_of_mem_set hx with hx | rfl
        · exact ht x hx
        · exact AllP_of_set q hs (ht u (List.mem_of_getElem? hi)) hv

end PTree

/-! ## scalars: objects created by operators, their numbers -/

theorem SVal.ofVal_toVal {v : Val} {n : Nat} {o : SVal} (h : SVal.ofVal v n = some o) : o.toVal = v := by
  cases v <;> simp only [SVal.ofVal, Option.some.injEq] at h <;> first | (rw [← h]; rfl) | cases h

theorem SVal.ofVal_den {v : Val} {n : Nat} {o : SVal} (h : SVal.ofVal v n = some o) (r : Nat) : o.den r = rep r v := by
  rw [SVal.den_eq_rep, SVal.ofVal_toVal h]

/-- an object that is not a `LinCombBool` -/
theorem SVal.bok_of_not_lcb {o : SVal} (h : ∀ l, o.toVal ≠ .lcb l) : o.bok = true := by
  cases o with
  | pub c => rfl
  | sc k l id =>
    cases k
    · rfl
    · exact (h l rfl).elim
    · rfl

/-- an object that, when it is a `LinCombBool`, holds 0 or 1 -/
theorem SVal.bok_of_lcb_bool {o : SVal} (h : ∀ l, o.toVal = .lcb l → BoolLC l) : o.bok = true := by
  cases o with
  | pub c => rfl
  | sc k l id =>
    cases k
    · rfl
    · have := h l rfl
      unfold BoolLC at this
      simp only [SVal.bok, Bool.or_eq_true, beq_iff_eq]
      exact this
    · rfl

theorem SVal.bok_bool {l : LinComb} {id : Option Nat} (h : BoolLC l) : (SVal.sc .bool l id).bok = true := by
  unfold BoolLC at h
  simp only [SVal.bok, Bool.or_eq_true, beq_iff_eq]
  exact h

theorem SVal.boolLC_of_bok {l : LinComb} {id : Option Nat} (h : (SVal.sc .bool l id).bok = true) : BoolLC l := by
  unfold BoolLC
  simpa only [SVal.bok, Bool.or_eq_true, beq_iff_eq] using h

theorem SVal.toVal_lcb {o : SVal} {l : LinComb} (h : o.toVal = .lcb l) : ∃ id, o = .sc .bool l id := by
  cases o with
  | pub c => cases h
  | sc k l' id =>
    cases k <;> first | (injection h with h'; exact ⟨id, by rw [h']⟩) | cases h

theorem SVal.toVal_lc {o : SVal} {l : LinComb} (h : o.toVal = .lc l) : ∃ id, o = .sc .int l id := by
  cases o with
  | pub c => cases h
  | sc k l' id =>
    cases k <;> first | (injection h with h'; exact ⟨id, by rw [h']⟩) | cases h

theorem denT_leaf (r : Nat) (o : SVal) : denT r (.leaf o) = .leaf (o.den r) := by simp only [denT, PTree.map_leaf]
theorem denT_node (r : Nat) (ts : List TVal) : denT r (.node ts) = .node (ts.map (denT r)) := by
  simp only [denT, PTree.map_node]; rfl
theorem denN_leaf (r : Nat) (a : NLeaf) : denN r (.leaf a) = .leaf (a.norm r) := by simp only [denN, PTree.map_leaf]
theorem denN_node (r : Nat) (vs : List NVal) : denN r (.node vs) = .node (vs.map (denN r)) := by
  simp only [denN, PTree.map_node]; rfl

theorem TVal.bok_leaf (o : SVal) : TVal.bok (.leaf o) = o.bok := by simp only [TVal.bok, PTree.all_leaf]
theorem TVal.bok_node (ts : List TVal) : TVal.bok (.node ts) = ts.all TVal.bok := by
  simp only [TVal.bok, PTree.all_node]; rfl

/-- a native value with the number of a leaf is a number -/
theorem denN_eq_leaf {r : Nat} {v : NVal} {m : Int} (h : denN r v = .leaf m) : ∃ p, v = .leaf p ∧ p.norm r = m :=
  PTree.map_leaf_inv h

theorem denN_eq_node {r : Nat} {v : NVal} {ms : List DVal} (h : denN r v = .node ms) :
    ∃ vs, v = .node vs ∧ vs.map (denN r) = ms := PTree.map_node_inv h

theorem pow2_ne_zero (r : Nat) : (2 : Int) ^ r ≠ 0 := by positivity

end Pysnark
