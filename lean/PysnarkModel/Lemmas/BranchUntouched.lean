import PysnarkModel.Lemmas.BranchStruct
/-!
# Block branching: a variable that a statement does not assign keeps its object

(the same `LinComb`: value and wire expression, and the same identity, so no constraint is spent
on it), whatever the conditions are and whichever way the guards go.
-/
namespace Pysnark

mutual
/-- the tracked variables a statement may bind (syntactically) -/
def BStmt.assigns : BStmt → Nat → Bool
  | .assign y _, x => y == x
  | .ite y _ _ _, x => y == x
  | .ifs _ body rest, x => body.assigns x || rest.assigns x
  | .forr _ _ _ body, x => body.assigns x
  | .whil _ _ body _, x => body.assigns x
def BBlock.assigns : BBlock → Nat → Bool
  | .nil, _ => false
  | .cons s rest, x => s.assigns x || rest.assigns x
def BIfRest.assigns : BIfRest → Nat → Bool
  | .endif, _ => false
  | .els b, x => b.assigns x
  | .elif _ b rest, x => b.assigns x || rest.assigns x
end

theorem mergeObj_same {c : LinComb} {t r : Obj} {n n' : Nat} {s s' : St}
    (h : mergeObj c t t n s = .ok ((r, n'), s')) : r = t := by
  rcases mergeObj_ok h with ⟨_, _, hr, _, _⟩ | ⟨hne, _⟩
  · exact hr
  · exact (hne rfl).elim

theorem mergeBak_untouched {c : LinComb} {bak : Vals} {x : Nat} : ∀ {vals rs : Vals} {n n' : Nat} {s s' : St},
    mergeBak c bak vals n s = .ok ((rs, n'), s') → vals.get? x = bak.get? x → rs.get? x = vals.get? x
  | [], rs, n, n', s, s', h, _ => by
    unfold mergeBak at h
    obtain ⟨h1, _⟩ := pure_ok' h
    simp only [Prod.mk.injEq] at h1
    rw [← h1.1]
  | (y, t) :: rest, rs, n, n', s, s', h, hx => by
    obtain ⟨f, r, n1, s1, rs', hf, hm, h3, rfl⟩ := mergeBak_cons_ok h
    simp only [Vals.get?] at hx ⊢
    by_cases hy : y = x
    · subst hy
      simp only [if_true] at hx ⊢
      rw [hf] at hx
      cases hx
      rw [mergeObj_same hm]
    · simp only [hy, if_false] at hx ⊢
      exact mergeBak_untouched h3 hx

/-- the variable `x` holds `o` (or is unbound), held it at the last `enter`, and is not among the
names first bound inside the statement -/
structure ChainU (x : Nat) (o : Option Obj) (ctx : BCtx) (vals : Vals) : Prop where
  vals : vals.get? x = o
  bak : ctx.bak.get? x = o
  nd : ∀ nd, ctx.nodefvals = some nd → nd.has x = false

theorem ChainU.exit {x : Nat} {o : Option Obj} {ctx ctx' : BCtx} {bv bv' : BV} {s s' : St}
    (hd : ChainU x o ctx bv.vals) (h : ctx.exit bv s = .ok ((ctx', bv'), s')) :
    bv'.vals.get? x = o ∧ ∀ nd, ctx'.nodefvals = some nd → nd.has x = false := by
  obtain ⟨s1, nd, n1, s2, vals, n2, _, hnd, hb, rfl, rfl⟩ := exit_ok h
  have hndx : nd.has x = false := by
    rcases hnd with ⟨_, rfl, _, _⟩ | ⟨nd0, hn0, hm⟩
    · rw [has_filter_bak]
      unfold Vals.has
      rw [hd.vals, hd.bak]
      cases o <;> rfl
    · rw [mergeNodef_has hm x]; exact hd.nd nd0 hn0
  refine ⟨?_, fun nd' hn' => by cases hn'; exact hndx⟩
  have hrm : (bv.vals.removeAll nd).get? x = o := by rw [Vals.get?_removeAll, hndx]; exact hd.vals
  rw [mergeBak_untouched hb (by rw [hrm, hd.bak]), hrm]

theorem ChainU.enter {x : Nat} {o : Option Obj} {ctx ctx' : BCtx} {c : LinComb} {bv : BV} {s s' : St}
    (hv : bv.vals.get? x = o) (hn : ∀ nd, ctx.nodefvals = some nd → nd.has x = false)
    (h : ctx.enter c bv s = .ok (ctx', s')) : ChainU x o ctx' bv.vals := by
  obtain ⟨_, hb, _, _, hnd⟩ := enter_struct h
  exact ⟨hv, by rw [hb]; exact hv, fun nd h' => hn nd (hnd ▸ h')⟩

def TopU (x : Nat) (o : Option Obj) (stk : List BCtx) (bs : BSt) : Prop :=
  ∃ ctx, bs.stack = ctx :: stk ∧ ChainU x o ctx bs.bv.vals

theorem TopU.whileNext {x : Nat} {o : Option Obj} {stk : List BCtx} {bs bs' : BSt} {cond : Val} {s s' : St}
    (hd : TopU x o stk bs) (h : bWhileNext cond bs s = .ok (bs', s')) : TopU x o stk bs' := by
  obtain ⟨ctx0, hs0, hc⟩ := hd
  obtain ⟨ctx, rest, c, ctx', bv', hs, _, _, hw, rfl⟩ := bWhileNext_ok h
  rw [hs0] at hs; cases hs
  obtain ⟨ctx1, s1, c1, s2, he, _, hen⟩ := whileNext_ok hw
  obtain ⟨hx, _⟩ := whileExit_ok he
  obtain ⟨hv, hn⟩ := hc.exit hx
  exact ⟨ctx', rfl, ChainU.enter hv hn hen⟩

theorem TopU.breakStep {x : Nat} {o : Option Obj} {stk : List BCtx} {env : BEnv} {brk : Option BCond}
    {bs bs' : BSt} {s s' : St} (hd : TopU x o stk bs) (h : breakStep env brk bs s = .ok (bs', s')) :
    TopU x o stk bs' := by
  unfold Pysnark.breakStep at h
  cases brk with
  | none =>
    obtain ⟨rfl, rfl⟩ := pure_ok' h
    exact hd
  | some bc =>
    obtain ⟨bcv, t4, _, h⟩ := bind_ok.mp h
    obtain ⟨cb, nc, t5, _, _, h⟩ := bBreakif_ok h
    exact hd.whileNext h

theorem TopU.end_ {x : Nat} {o : Option Obj} {stk : List BCtx} {bs bs' : BSt} {s s' : St}
    (hd : TopU x o stk bs) (h : bEndif bs s = .ok (bs', s') ∨ bEndwhile bs s = .ok (bs', s')) :
    bs'.bv.vals.get? x = o := by
  obtain ⟨ctx0, hs0, hc⟩ := hd
  obtain ⟨ctx, rest, bv', hs, rfl, hcase⟩ := bEnd_ok h
  rw [hs0] at hs; cases hs
  rcases hcase with ⟨_, he⟩ | ⟨_, ctx', he⟩
  · obtain ⟨ctx1, bv1, hx, _, rfl⟩ := ifEnd_ok he
    obtain ⟨hv, hn⟩ := hc.exit hx
    obtain ⟨_, _, _, _, _, nd, hnd, _⟩ := exit_struct hx
    simp only [hnd, Option.getD_some]
    rw [Vals.get?_setAll, hn nd hnd]
    exact hv
  · obtain ⟨hx, _⟩ := whileExit_ok he
    exact (hc.exit hx).1

theorem TopU.push {x : Nat} {bs bs' : BSt} {cond : Val} {s s' : St}
    (h : bIf cond bs s = .ok (bs', s') ∨ bWhilePush cond bs s = .ok (bs', s')) :
    TopU x (bs.bv.vals.get? x) bs.stack bs' := by
  rcases h with h | h
  · obtain ⟨c, ctx, _, hn, rfl⟩ := bIf_ok h
    obtain ⟨ic, s1, og, _, _, rfl⟩ := ifNew_ok hn
    exact ⟨_, rfl, ⟨rfl, rfl, fun nd h' => by cases h'⟩⟩
  · obtain ⟨c, ctx, _, hn, rfl⟩ := bWhilePush_ok h
    obtain ⟨og, _, rfl⟩ := whileNew_ok hn
    exact ⟨_, rfl, ⟨rfl, rfl, fun nd h' => by cases h'⟩⟩

theorem bindNew_untouched {x y : Nat} {v : Val} {bs bs' : BSt} {s s' : St} (hxy : (y == x) = false)
    (h : bindNew y v bs s = .ok (bs', s')) : bs'.bv.vals.get? x = bs.bv.vals.get? x := by
  unfold bindNew at h
  cases v <;> first | exact (raise_ok.mp h).elim | skip
  obtain ⟨rfl, rfl⟩ := pure_ok' h
  have : ¬ y = x := by simpa using hxy
  simp only [Vals.get?_set, this, if_false]

theorem bindVar_untouched {env : BEnv} {x y : Nat} {e : BExpr} {v : Val} {bs bs' : BSt} {s s' : St}
    (hxy : (y == x) = false) (h : bindVar env y e v bs s = .ok (bs', s')) :
    bs'.bv.vals.get? x = bs.bv.vals.get? x := by
  unfold bindVar at h
  cases hl : leafObj env bs.bv e with
  | some o =>
    simp only [hl] at h
    obtain ⟨rfl, rfl⟩ := pure_ok' h
    have : ¬ y = x := by simpa using hxy
    simp only [Vals.get?_set, this, if_false]
  | none =>
    simp only [hl] at h
    exact bindNew_untouched hxy h

mutual
theorem execStmt_untouched : ∀ (st : BStmt) (x : Nat) (env : BEnv) (bs bs' : BSt) (s s' : St),
    st.assigns x = false → execStmt env st bs s = .ok (bs', s') → bs'.bv.vals.get? x = bs.bv.vals.get? x
  | .assign y e, x, env, bs, bs', s, s', hx, h => by
    unfold execStmt at h
    obtain ⟨v, s1, _, h2⟩ := bind_ok.mp h
    exact bindVar_untouched (by simpa [BStmt.assigns] using hx) h2
  | .ite y c t f, x, env, bs, bs', s, s', hx, h => by
    unfold execStmt at h
    obtain ⟨cv, s1, _, h⟩ := bind_ok.mp h
    obtain ⟨cl, s2, _, h⟩ := bind_ok.mp h
    obtain ⟨r, s3, _, h⟩ := bind_ok.mp h
    exact bindNew_untouched (by simpa [BStmt.assigns] using hx) h
  | .ifs c body rest, x, env, bs, bs', s, s', hx, h => by
    unfold execStmt at h
    simp only [BStmt.assigns, Bool.or_eq_false_iff] at hx
    obtain ⟨cv, s1, _, h⟩ := bind_ok.mp h
    obtain ⟨bs1, s2, h1, h⟩ := bind_ok.mp h
    obtain ⟨bs2, s3, h2, h⟩ := bind_ok.mp h
    obtain ⟨ctx, hs1, hc⟩ := TopU.push (x := x) (Or.inl h1)
    obtain ⟨hst, _⟩ := execBlock_struct body env bs1 bs2 s2 s3 h2
    have hb := execBlock_untouched body x env bs1 bs2 s2 s3 hx.1 h2
    have htop : TopU x (bs.bv.vals.get? x) bs.stack bs2 := ⟨ctx, by rw [hst, hs1], ⟨hb.trans hc.vals, hc.bak, hc.nd⟩⟩
    exact execIfRest_untouched rest x env bs2 bs' s3 s' _ _ hx.2 htop h
  | .forr lv bound mx body, x, env, bs, bs', s, s', hx, h => by
    unfold execStmt at h
    simp only [BStmt.assigns] at hx
    obtain ⟨stop, s1, _, h⟩ := bind_ok.mp h
    cases stop <;> first | exact (raise_ok.mp h).elim | skip
    dsimp only at h
    obtain ⟨c0, s2, _, h⟩ := bind_ok.mp h
    obtain ⟨bs1, s3, h1, h⟩ := bind_ok.mp h
    obtain ⟨bs2, s4, h2, h⟩ := bind_ok.mp h
    obtain ⟨bs3, s5, h3, h⟩ := bind_ok.mp h
    obtain ⟨ctx, hs1, hc⟩ := TopU.push (x := x) (Or.inr h1)
    obtain ⟨hst, _⟩ := execBlock_struct body _ bs1 bs2 s3 s4 h2
    have hb := execBlock_untouched body x _ bs1 bs2 s3 s4 hx h2
    have htop : TopU x (bs.bv.vals.get? x) bs.stack bs2 := ⟨ctx, by rw [hst, hs1], ⟨hb.trans hc.vals, hc.bak, hc.nd⟩⟩
    have htop3 : TopU x (bs.bv.vals.get? x) bs.stack bs3 := by
      refine iterM_inv (fun b _ => TopU x (bs.bv.vals.get? x) bs.stack b) _ ?_ _ _ _ _ _ _ htop h3
      intro i b t b' t' hp hstep
      unfold forRound at hstep
      obtain ⟨cc, t1, _, hstep⟩ := bind_ok.mp hstep
      obtain ⟨b1, t2, hw, hstep⟩ := bind_ok.mp hstep
      obtain ⟨ctx1, hs', hc'⟩ := hp.whileNext hw
      obtain ⟨hst', _⟩ := execBlock_struct body _ b1 b' t2 t' hstep
      have hb' := execBlock_untouched body x _ b1 b' t2 t' hx hstep
      exact ⟨ctx1, by rw [hst', hs'], ⟨hb'.trans hc'.vals, hc'.bak, hc'.nd⟩⟩
    exact htop3.end_ (Or.inr h)
  | .whil c mx body brk, x, env, bs, bs', s, s', hx, h => by
    unfold execStmt at h
    simp only [BStmt.assigns] at hx
    obtain ⟨c0, s1, _, h⟩ := bind_ok.mp h
    obtain ⟨bs1, s2, h1, h⟩ := bind_ok.mp h
    obtain ⟨bs2, s3, h2, h⟩ := bind_ok.mp h
    have htop := TopU.push (x := x) (Or.inr h1)
    have htop2 : TopU x (bs.bv.vals.get? x) bs.stack bs2 := by
      refine iterM_inv (fun b _ => TopU x (bs.bv.vals.get? x) bs.stack b) _ ?_ _ _ _ _ _ _ htop h2
      intro i b t b' t' hp hstep
      unfold whileRound at hstep
      obtain ⟨b1, t1, hb, hstep⟩ := bind_ok.mp hstep
      obtain ⟨b2, t2, hbr, hstep⟩ := bind_ok.mp hstep
      obtain ⟨cn, t3, _, hstep⟩ := bind_ok.mp hstep
      obtain ⟨ctx1, hs', hc'⟩ := hp
      obtain ⟨hst', _⟩ := execBlock_struct body env b b1 t t1 hb
      have hb' := execBlock_untouched body x env b b1 t t1 hx hb
      have hp1 : TopU x (bs.bv.vals.get? x) bs.stack b1 := ⟨ctx1, by rw [hst', hs'], ⟨hb'.trans hc'.vals, hc'.bak, hc'.nd⟩⟩
      exact (hp1.breakStep hbr).whileNext hstep
    exact htop2.end_ (Or.inr h)

theorem execBlock_untouched : ∀ (b : BBlock) (x : Nat) (env : BEnv) (bs bs' : BSt) (s s' : St),
    b.assigns x = false → execBlock env b bs s = .ok (bs', s') → bs'.bv.vals.get? x = bs.bv.vals.get? x
  | .nil, x, env, bs, bs', s, s', _, h => by
    unfold execBlock at h
    obtain ⟨rfl, rfl⟩ := pure_ok' h
    rfl
  | .cons st rest, x, env, bs, bs', s, s', hx, h => by
    unfold execBlock at h
    simp only [BBlock.assigns, Bool.or_eq_false_iff] at hx
    obtain ⟨bs1, s1, h1, h2⟩ := bind_ok.mp h
    rw [execBlock_untouched rest x env bs1 bs' s1 s' hx.2 h2, execStmt_untouched st x env bs bs1 s s1 hx.1 h1]

theorem execIfRest_untouched : ∀ (rest : BIfRest) (x : Nat) (env : BEnv) (bs bs' : BSt) (s s' : St)
    (o : Option Obj) (stk : List BCtx), rest.assigns x = false → TopU x o stk bs →
    execIfRest env rest bs s = .ok (bs', s') → bs'.bv.vals.get? x = o
  | .endif, x, env, bs, bs', s, s', o, stk, _, hd, h => by
    unfold execIfRest at h
    exact hd.end_ (Or.inl h)
  | .els b, x, env, bs, bs', s, s', o, stk, hx, hd, h => by
    unfold execIfRest at h
    simp only [BIfRest.assigns] at hx
    obtain ⟨bs1, s1, h1, h3⟩ := bind_ok.mp h
    obtain ⟨bs2, s2, h2, h4⟩ := bind_ok.mp h3
    clear h h3
    obtain ⟨ctx0, hs0, hc⟩ := hd
    obtain ⟨ctx, rest, ctx', bv', hs, _, he, rfl⟩ := bElse_ok h1
    rw [hs0] at hs; cases hs
    obtain ⟨ctx1, t1, ic, ctx2, hx', _, hen, rfl⟩ := ifElse_ok he
    obtain ⟨hv, hn⟩ := hc.exit hx'
    have hc2 := ChainU.enter hv hn hen
    obtain ⟨hst, _⟩ := execBlock_struct b env _ bs2 s1 s2 h2
    have hb := execBlock_untouched b x env _ bs2 s1 s2 hx h2
    have htop : TopU x o stk bs2 := ⟨_, hst, ⟨hb.trans hc2.vals, hc2.bak, hc2.nd⟩⟩
    exact htop.end_ (Or.inl h4)
  | .elif c b rest, x, env, bs, bs', s, s', o, stk, hx, hd, h => by
    unfold execIfRest at h
    simp only [BIfRest.assigns, Bool.or_eq_false_iff] at hx
    obtain ⟨bs1, s1, h1, h3⟩ := bind_ok.mp h
    obtain ⟨bs2, s2, h2, h4⟩ := bind_ok.mp h3
    clear h h3
    obtain ⟨ctx0, hs0, hc⟩ := hd
    obtain ⟨ctx, rest', ctx', bv', hs, _, he, rfl⟩ := bElif_ok h1
    rw [hs0] at hs; cases hs
    obtain ⟨ctx1, t1, nw, t2, ic, nn, t3, nwic, t4, cc, t5, ctx2, hx', _, _, _, _, _, hen, rfl⟩ := ifElif_ok he
    obtain ⟨hv, hn⟩ := hc.exit hx'
    have hc2 := ChainU.enter hv hn hen
    obtain ⟨hst, _⟩ := execBlock_struct b env _ bs2 s1 s2 h2
    have hb := execBlock_untouched b x env _ bs2 s1 s2 hx.1 h2
    have htop : TopU x o stk bs2 := ⟨_, hst, ⟨hb.trans hc2.vals, hc2.bak, hc2.nd⟩⟩
    exact execIfRest_untouched rest x env bs2 bs' s2 s' o stk hx.2 htop h4
end

end Pysnark
