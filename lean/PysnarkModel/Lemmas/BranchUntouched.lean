import PysnarkModel.Lemmas.BranchTree
/-!
# Block branching: a variable that a statement does not assign keeps its object

when it holds secret integers (`LinComb`s, or nested lists of them): the same `LinComb`s (value and
wire expression) with the same identities, so no constraint is spent on it, whatever the
conditions are and whichever way the guards go.  (Booleans and fixed-point numbers are re-created by
the snapshot `copy.deepcopy` takes when a block is entered, so an untouched one comes out of the
merge as a NEW object with the same number: `execStmt_ref` + `nStmt_untouched`.)
-/
namespace Pysnark

mutual
/-- the tracked variables a statement may bind (syntactically) -/
def BStmt.assigns : BStmt → Nat → Bool
  | .assign y _, x => y == x
  | .setitem y _ _, x => y == x
  | .sel y _ _ _, x => y == x
  | .ite y _ _ _, x => y == x
  | .ifs _ body rest, x => body.assigns x || rest.assigns x
  | .forr _ _ _ body, x => body.assigns x
  | .whil _ _ body _, x => body.assigns x
def BBlock.assigns : BBlock → Nat → Bool
  | .nil, _ => false
  | .cons s rest, x => s.assigns x || rest.assigns x
def BIfRest.assigns : BIfRest → Nat → Bool
  | .endif, _ => false
  | .els b, x => b.assigns x
  | .elif _ b rest, x => b.assigns x || rest.assigns x
end

theorem SVal.dcopy_stable {o : SVal} (h : o.stable = true) : o.dcopy = o := by
  cases o with
  | pub c => cases h
  | sc k l id => cases k <;> cases id <;> first | rfl | cases h

theorem TVal.dcopy_stable : ∀ {t : TVal}, t.stable = true → t.dcopy = t := by
  intro t
  unfold TVal.stable TVal.dcopy
  induction t using PTree.rec (motive_2 := fun ts => ts.all (PTree.all SVal.stable) = true → ts.map (PTree.map SVal.dcopy) = ts) with
  | leaf a => intro h; simp only [PTree.all_leaf] at h; simp only [PTree.map_leaf, SVal.dcopy_stable h]
  | node ts ih => intro h; simp only [PTree.all_node] at h; simp only [PTree.map_node, ih h]
  | nil => rfl
  | cons t ts iht ihts =>
    rename_i h
    simp only [List.all_cons, Bool.and_eq_true] at h
    simp only [List.map_cons, iht h.1, ihts h.2]

theorem mergeS_stable {c : LinComb} {t r : SVal} {n n' : Nat} {s s' : St} (hs : t.stable = true)
    (h : mergeS c t t n s = .ok ((r, n'), s')) : r = t ∧ n' = n ∧ s' = s := by
  rcases mergeS_ok h with ⟨_, _, hr, hn, hs'⟩ | ⟨hne, _⟩
  · exact ⟨hr, hn, hs'⟩
  · cases t with
    | pub c => cases hs
    | sc k l id =>
      cases k <;> cases id <;> first | cases hs | skip
      simp [SVal.sameObj] at hne

mutual
/-- merging a value of secret integers with itself (with its snapshot): the identity shortcut at
every leaf, nothing is emitted -/
theorem mergeT_stable {c : LinComb} : ∀ {t r : TVal} {n n' : Nat} {s s' : St}, t.stable = true →
    mergeT c t t n s = .ok ((r, n'), s') → r = t ∧ n' = n ∧ s' = s
  | .leaf a, r, n, n', s, s', hs, h => by
    obtain ⟨o, ho, rfl⟩ := mergeT_leaf_ok h
    simp only [TVal.stable, PTree.all_leaf] at hs
    obtain ⟨rfl, h2, h3⟩ := mergeS_stable hs ho
    exact ⟨rfl, h2, h3⟩
  | .node ts, r, n, n', s, s', hs, h => by
    obtain ⟨rs, hrs, rfl⟩ := mergeT_node_ok h
    simp only [TVal.stable, PTree.all_node] at hs
    obtain ⟨rfl, h2, h3⟩ := mergeTL_stable hs hrs
    exact ⟨rfl, h2, h3⟩
theorem mergeTL_stable {c : LinComb} : ∀ {ts rs : List TVal} {n n' : Nat} {s s' : St},
    ts.all (PTree.all SVal.stable) = true → mergeTL c ts ts n s = .ok ((rs, n'), s') → rs = ts ∧ n' = n ∧ s' = s
  | [], rs, n, n', s, s', _, h => mergeTL_nil_ok h
  | t :: ts, rs, n, n', s, s', hs, h => by
    obtain ⟨r, n1, s1, rs', h1, h2, rfl⟩ := mergeTL_cons_ok h
    simp only [List.all_cons, Bool.and_eq_true] at hs
    obtain ⟨rfl, rfl, rfl⟩ := mergeT_stable (t := t) hs.1 h1
    obtain ⟨rfl, h3, h4⟩ := mergeTL_stable hs.2 h2
    exact ⟨rfl, h3, h4⟩
end

theorem mergeBak_untouched {c : LinComb} {bak : Vals} {x : Nat} : ∀ {vals rs : Vals} {n n' : Nat} {s s' : St},
    mergeBak c bak vals n s = .ok ((rs, n'), s') → vals.get? x = bak.get? x →
    (∀ t, vals.get? x = some t → t.stable = true) → rs.get? x = vals.get? x
  | [], rs, n, n', s, s', h, _, _ => by
    unfold mergeBak at h
    obtain ⟨h1, _⟩ := pure_ok' h
    simp only [Prod.mk.injEq] at h1
    rw [← h1.1]
  | (y, t) :: rest, rs, n, n', s, s', h, hx, hst => by
    obtain ⟨f, r, n1, s1, rs', hf, hm, h3, rfl⟩ := mergeBak_cons_ok h
    simp only [Vals.get?] at hx hst ⊢
    by_cases hy : y = x
    · subst hy
      simp only [if_true] at hx hst ⊢
      rw [hf] at hx
      cases hx
      rw [(mergeT_stable (hst t rfl) hm).1]
    · simp only [hy, if_false] at hx hst ⊢
      exact mergeBak_untouched h3 hx hst

/-- the variable `x` holds `o` (or is unbound), held it at the last `enter`, and is not among the
names first bound inside the statement -/
structure ChainU (x : Nat) (o : Option TVal) (ctx : BCtx) (vals : Vals) : Prop where
  vals : vals.get? x = o
  bak : ctx.bak.get? x = o
  nd : ∀ nd, ctx.nodefvals = some nd → nd.has x = false
  stab : ∀ t, o = some t → t.stable = true

theorem ChainU.exit {x : Nat} {o : Option TVal} {ctx ctx' : BCtx} {bv bv' : BV} {s s' : St}
    (hd : ChainU x o ctx bv.vals) (h : ctx.exit bv s = .ok ((ctx', bv'), s')) :
    bv'.vals.get? x = o ∧ ∀ nd, ctx'.nodefvals = some nd → nd.has x = false := by
  obtain ⟨s1, nd, n1, s2, vals, n2, _, hnd, hb, rfl, rfl⟩ := exit_ok h
  have hndx : nd.has x = false := by
    rcases hnd with ⟨_, rfl, _, _⟩ | ⟨nd0, hn0, hm⟩
    · rw [has_filter_bak]
      unfold Vals.has
      rw [hd.vals, hd.bak]
      cases o <;> rfl
    · rw [mergeNodef_has hm x]; exact hd.nd nd0 hn0
  refine ⟨?_, fun nd' hn' => by cases hn'; exact hndx⟩
  have hrm : (bv.vals.removeAll nd).get? x = o := by rw [Vals.get?_removeAll, hndx]; exact hd.vals
  rw [mergeBak_untouched hb (by rw [hrm, hd.bak]) (by rw [hrm]; exact hd.stab), hrm]

theorem ChainU.enter {x : Nat} {o : Option TVal} {ctx ctx' : BCtx} {c : LinComb} {bv : BV} {s s' : St}
    (hv : bv.vals.get? x = o) (hn : ∀ nd, ctx.nodefvals = some nd → nd.has x = false)
    (hst : ∀ t, o = some t → t.stable = true)
    (h : ctx.enter c bv s = .ok (ctx', s')) : ChainU x o ctx' bv.vals := by
  obtain ⟨_, hb, _, _, hnd⟩ := enter_struct h
  refine ⟨hv, ?_, fun nd h' => hn nd (hnd ▸ h'), hst⟩
  rw [hb, Vals.get?_backup, hv]
  cases o with
  | none => rfl
  | some t => simp only [Option.map_some, TVal.dcopy_stable (hst t rfl)]

def TopU (x : Nat) (o : Option TVal) (stk : List BCtx) (bs : BSt) : Prop :=
  ∃ ctx, bs.stack = ctx :: stk ∧ ChainU x o ctx bs.bv.vals

theorem TopU.whileNext {x : Nat} {o : Option TVal} {stk : List BCtx} {bs bs' : BSt} {cond : Val} {s s' : St}
    (hd : TopU x o stk bs) (h : bWhileNext cond bs s = .ok (bs', s')) : TopU x o stk bs' := by
  obtain ⟨ctx0, hs0, hc⟩ := hd
  obtain ⟨ctx, rest, c, ctx', bv', hs, _, _, hw, rfl⟩ := bWhileNext_ok h
  rw [hs0] at hs; cases hs
  obtain ⟨ctx1, s1, c1, s2, he, _, hen⟩ := whileNext_ok hw
  obtain ⟨hx, _⟩ := whileExit_ok he
  obtain ⟨hv, hn⟩ := hc.exit hx
  exact ⟨ctx', rfl, ChainU.enter hv hn hc.stab hen⟩

theorem TopU.breakStep {x : Nat} {o : Option TVal} {stk : List BCtx} {env : BEnv} {brk : Option BCond}
    {bs bs' : BSt} {s s' : St} (hd : TopU x o stk bs) (h : breakStep env brk bs s = .ok (bs', s')) :
    TopU x o stk bs' := by
  unfold Pysnark.breakStep at h
  cases brk with
  | none =>
    obtain ⟨rfl, rfl⟩ := pure_ok' h
    exact hd
  | some bc =>
    obtain ⟨bcv, t4, _, h⟩ := bind_ok.mp h
    obtain ⟨cb, nc, t5, _, _, h⟩ := bBreakif_ok h
    exact hd.whileNext h

theorem TopU.end_ {x : Nat} {o : Option TVal} {stk : List BCtx} {bs bs' : BSt} {s s' : St}
    (hd : TopU x o stk bs) (h : bEndif bs s = .ok (bs', s') ∨ bEndwhile bs s = .ok (bs', s')) :
    bs'.bv.vals.get? x = o := by
  obtain ⟨ctx0, hs0, hc⟩ := hd
  obtain ⟨ctx, rest, bv', hs, rfl, hcase⟩ := bEnd_ok h
  rw [hs0] at hs; cases hs
  rcases hcase with ⟨_, he⟩ | ⟨_, ctx', he⟩
  · obtain ⟨ctx1, bv1, hx, _, rfl⟩ := ifEnd_ok he
    obtain ⟨hv, hn⟩ := hc.exit hx
    obtain ⟨_, _, _, _, _, nd, hnd, _⟩ := exit_struct hx
    simp only [hnd, Option.getD_some]
    rw [Vals.get?_setAll, hn nd hnd]
    exact hv
  · obtain ⟨hx, _⟩ := whileExit_ok he
    exact (hc.exit hx).1

theorem get?_backup_stable {vs : Vals} {x : Nat} (hst : ∀ t, vs.get? x = some t → t.stable = true) :
    vs.backup.get? x = vs.get? x := by
  rw [Vals.get?_backup]
  cases hg : vs.get? x with
  | none => rfl
  | some t => simp only [Option.map_some, TVal.dcopy_stable (hst t hg)]

theorem TopU.push {x : Nat} {bs bs' : BSt} {cond : Val} {s s' : St}
    (hst : ∀ t, bs.bv.vals.get? x = some t → t.stable = true)
    (h : bIf cond bs s = .ok (bs', s') ∨ bWhilePush cond bs s = .ok (bs', s')) :
    TopU x (bs.bv.vals.get? x) bs.stack bs' := by
  rcases h with h | h
  · obtain ⟨c, ctx, _, hn, rfl⟩ := bIf_ok h
    obtain ⟨ic, s1, og, _, _, rfl⟩ := ifNew_ok hn
    exact ⟨_, rfl, ⟨rfl, get?_backup_stable hst, (fun nd h' => by cases h'), hst⟩⟩
  · obtain ⟨c, ctx, _, hn, rfl⟩ := bWhilePush_ok h
    obtain ⟨og, _, rfl⟩ := whileNew_ok hn
    exact ⟨_, rfl, ⟨rfl, get?_backup_stable hst, (fun nd h' => by cases h'), hst⟩⟩

theorem bindT_untouched {x y : Nat} {t : TVal} {n : Nat} {bs bs' : BSt} {s s' : St} (hxy : (y == x) = false)
    (h : bindT y t n bs s = .ok (bs', s')) : bs'.bv.vals.get? x = bs.bv.vals.get? x := by
  obtain ⟨_, rfl, _⟩ := bindT_ok h
  have : ¬ y = x := by simpa using hxy
  simp only [Vals.get?_set, this, if_false]

mutual
theorem execStmt_untouched : ∀ (st : BStmt) (x : Nat) (env : BEnv) (bs bs' : BSt) (s s' : St),
    st.assigns x = false → (∀ t, bs.bv.vals.get? x = some t → t.stable = true) →
    execStmt env st bs s = .ok (bs', s') → bs'.bv.vals.get? x = bs.bv.vals.get? x
  | .assign y e, x, env, bs, bs', s, s', hx, _, h => by
    unfold execStmt at h
    obtain ⟨⟨t, n⟩, s1, _, h2⟩ := bind_ok.mp h
    exact bindT_untouched (by simpa [BStmt.assigns] using hx) h2
  | .setitem y path e, x, env, bs, bs', s, s', hx, _, h => by
    unfold execStmt at h
    obtain ⟨⟨t, n⟩, s1, _, h2⟩ := bind_ok.mp h
    dsimp only at h2
    cases hg : bs.bv.vals.get? y with
    | none => simp only [hg] at h2; exact (raise_ok.mp h2).elim
    | some old =>
      simp only [hg] at h2
      cases hs : old.set path t with
      | none => simp only [hs] at h2; exact (raise_ok.mp h2).elim
      | some new =>
        simp only [hs] at h2
        exact bindT_untouched (by simpa [BStmt.assigns] using hx) h2
  | .sel y c t f, x, env, bs, bs', s, s', hx, _, h => by
    unfold execStmt at h
    obtain ⟨cv, s1, _, h⟩ := bind_ok.mp h
    obtain ⟨⟨tv, n1⟩, s2, _, h⟩ := bind_ok.mp h
    obtain ⟨⟨fv, n2⟩, s3, _, h⟩ := bind_ok.mp h
    obtain ⟨cl, s4, _, h⟩ := bind_ok.mp h
    obtain ⟨⟨r, n3⟩, s5, _, h⟩ := bind_ok.mp h
    exact bindT_untouched (by simpa [BStmt.assigns] using hx) h
  | .ite y c t f, x, env, bs, bs', s, s', hx, _, h => by
    unfold execStmt at h
    obtain ⟨cv, s1, _, h⟩ := bind_ok.mp h
    obtain ⟨cl, s2, _, h⟩ := bind_ok.mp h
    obtain ⟨⟨r, n3⟩, s3, _, h⟩ := bind_ok.mp h
    exact bindT_untouched (by simpa [BStmt.assigns] using hx) h
  | .ifs c body rest, x, env, bs, bs', s, s', hx, hstab, h => by
    unfold execStmt at h
    simp only [BStmt.assigns, Bool.or_eq_false_iff] at hx
    obtain ⟨cv, s1, _, h⟩ := bind_ok.mp h
    obtain ⟨bs1, s2, h1, h⟩ := bind_ok.mp h
    obtain ⟨bs2, s3, h2, h⟩ := bind_ok.mp h
    obtain ⟨ctx, hs1, hc⟩ := TopU.push (x := x) hstab (Or.inl h1)
    obtain ⟨⟨hst, _⟩, _⟩ := execBlock_struct body env bs1 bs2 s2 s3 h2
    have hb := execBlock_untouched body x env bs1 bs2 s2 s3 hx.1 (by rw [hc.vals]; exact hstab) h2
    have htop : TopU x (bs.bv.vals.get? x) bs.stack bs2 := ⟨ctx, by rw [hst, hs1], ⟨hb.trans hc.vals, hc.bak, hc.nd, hc.stab⟩⟩
    exact execIfRest_untouched rest x env bs2 bs' s3 s' _ _ hx.2 htop h
  | .forr lv bound mx body, x, env, bs, bs', s, s', hx, hstab, h => by
    unfold execStmt at h
    simp only [BStmt.assigns] at hx
    obtain ⟨stop, s1, _, h⟩ := bind_ok.mp h
    cases stop <;> first | exact (raise_ok.mp h).elim | skip
    dsimp only at h
    obtain ⟨c0, s2, _, h⟩ := bind_ok.mp h
    obtain ⟨bs1, s3, h1, h⟩ := bind_ok.mp h
    obtain ⟨bs2, s4, h2, h⟩ := bind_ok.mp h
    obtain ⟨bs3, s5, h3, h⟩ := bind_ok.mp h
    obtain ⟨ctx, hs1, hc⟩ := TopU.push (x := x) hstab (Or.inr h1)
    obtain ⟨⟨hst, _⟩, _⟩ := execBlock_struct body _ bs1 bs2 s3 s4 h2
    have hb := execBlock_untouched body x _ bs1 bs2 s3 s4 hx (by rw [hc.vals]; exact hstab) h2
    have htop : TopU x (bs.bv.vals.get? x) bs.stack bs2 := ⟨ctx, by rw [hst, hs1], ⟨hb.trans hc.vals, hc.bak, hc.nd, hc.stab⟩⟩
    have htop3 : TopU x (bs.bv.vals.get? x) bs.stack bs3 := by
      refine iterM_inv (fun b _ => TopU x (bs.bv.vals.get? x) bs.stack b) _ ?_ _ _ _ _ _ _ htop h3
      intro i b t b' t' hp hstep
      unfold forRound at hstep
      obtain ⟨cc, t1, _, hstep⟩ := bind_ok.mp hstep
      obtain ⟨b1, t2, hw, hstep⟩ := bind_ok.mp hstep
      obtain ⟨ctx1, hs', hc'⟩ := hp.whileNext hw
      obtain ⟨⟨hst', _⟩, _⟩ := execBlock_struct body _ b1 b' t2 t' hstep
      have hb' := execBlock_untouched body x _ b1 b' t2 t' hx (by rw [hc'.vals]; exact hstab) hstep
      exact ⟨ctx1, by rw [hst', hs'], ⟨hb'.trans hc'.vals, hc'.bak, hc'.nd, hc'.stab⟩⟩
    exact htop3.end_ (Or.inr h)
  | .whil c mx body brk, x, env, bs, bs', s, s', hx, hstab, h => by
    unfold execStmt at h
    simp only [BStmt.assigns] at hx
    obtain ⟨c0, s1, _, h⟩ := bind_ok.mp h
    obtain ⟨bs1, s2, h1, h⟩ := bind_ok.mp h
    obtain ⟨bs2, s3, h2, h⟩ := bind_ok.mp h
    have htop := TopU.push (x := x) hstab (Or.inr h1)
    have htop2 : TopU x (bs.bv.vals.get? x) bs.stack bs2 := by
      refine iterM_inv (fun b _ => TopU x (bs.bv.vals.get? x) bs.stack b) _ ?_ _ _ _ _ _ _ htop h2
      intro i b t b' t' hp hstep
      unfold whileRound at hstep
      obtain ⟨b1, t1, hb, hstep⟩ := bind_ok.mp hstep
      obtain ⟨b2, t2, hbr, hstep⟩ := bind_ok.mp hstep
      obtain ⟨cn, t3, _, hstep⟩ := bind_ok.mp hstep
      obtain ⟨ctx1, hs', hc'⟩ := hp
      obtain ⟨⟨hst', _⟩, _⟩ := execBlock_struct body env b b1 t t1 hb
      have hb' := execBlock_untouched body x env b b1 t t1 hx (by rw [hc'.vals]; exact hstab) hb
      have hp1 : TopU x (bs.bv.vals.get? x) bs.stack b1 := ⟨ctx1, by rw [hst', hs'], ⟨hb'.trans hc'.vals, hc'.bak, hc'.nd, hc'.stab⟩⟩
      exact (hp1.breakStep hbr).whileNext hstep
    exact htop2.end_ (Or.inr h)

theorem execBlock_untouched : ∀ (b : BBlock) (x : Nat) (env : BEnv) (bs bs' : BSt) (s s' : St),
    b.assigns x = false → (∀ t, bs.bv.vals.get? x = some t → t.stable = true) →
    execBlock env b bs s = .ok (bs', s') → bs'.bv.vals.get? x = bs.bv.vals.get? x
  | .nil, x, env, bs, bs', s, s', _, _, h => by
    unfold execBlock at h
    obtain ⟨rfl, rfl⟩ := pure_ok' h
    rfl
  | .cons st rest, x, env, bs, bs', s, s', hx, hstab, h => by
    unfold execBlock at h
    simp only [BBlock.assigns, Bool.or_eq_false_iff] at hx
    obtain ⟨bs1, s1, h1, h2⟩ := bind_ok.mp h
    have e1 := execStmt_untouched st x env bs bs1 s s1 hx.1 hstab h1
    rw [execBlock_untouched rest x env bs1 bs' s1 s' hx.2 (by rw [e1]; exact hstab) h2, e1]

theorem execIfRest_untouched : ∀ (rest : BIfRest) (x : Nat) (env : BEnv) (bs bs' : BSt) (s s' : St)
    (o : Option TVal) (stk : List BCtx), rest.assigns x = false → TopU x o stk bs →
    execIfRest env rest bs s = .ok (bs', s') → bs'.bv.vals.get? x = o
  | .endif, x, env, bs, bs', s, s', o, stk, _, hd, h => by
    unfold execIfRest at h
    exact hd.end_ (Or.inl h)
  | .els b, x, env, bs, bs', s, s', o, stk, hx, hd, h => by
    unfold execIfRest at h
    simp only [BIfRest.assigns] at hx
    obtain ⟨bs1, s1, h1, h3⟩ := bind_ok.mp h
    obtain ⟨bs2, s2, h2, h4⟩ := bind_ok.mp h3
    clear h h3
    obtain ⟨ctx0, hs0, hc⟩ := hd
    obtain ⟨ctx, rest, ctx', bv', hs, _, he, rfl⟩ := bElse_ok h1
    rw [hs0] at hs; cases hs
    obtain ⟨ctx1, t1, ic, ctx2, hx', _, hen, rfl⟩ := ifElse_ok he
    obtain ⟨hv, hn⟩ := hc.exit hx'
    have hc2 := ChainU.enter hv hn hc.stab hen
    obtain ⟨⟨hst, _⟩, _⟩ := execBlock_struct b env _ bs2 s1 s2 h2
    have hb := execBlock_untouched b x env _ bs2 s1 s2 hx (by rw [hc2.vals]; exact hc.stab) h2
    have htop : TopU x o stk bs2 := ⟨_, hst, ⟨hb.trans hc2.vals, hc2.bak, hc2.nd, hc2.stab⟩⟩
    exact htop.end_ (Or.inl h4)
  | .elif c b rest, x, env, bs, bs', s, s', o, stk, hx, hd, h => by
    unfold execIfRest at h
    simp only [BIfRest.assigns, Bool.or_eq_false_iff] at hx
    obtain ⟨bs1, s1, h1, h3⟩ := bind_ok.mp h
    obtain ⟨bs2, s2, h2, h4⟩ := bind_ok.mp h3
    clear h h3
    obtain ⟨ctx0, hs0, hc⟩ := hd
    obtain ⟨ctx, rest', ctx', bv', hs, _, he, rfl⟩ := bElif_ok h1
    rw [hs0] at hs; cases hs
    obtain ⟨ctx1, t1, nw, t2, ic, nn, t3, nwic, t4, cc, t5, ctx2, hx', _, _, _, _, _, hen, rfl⟩ := ifElif_ok he
    obtain ⟨hv, hn⟩ := hc.exit hx'
    have hc2 := ChainU.enter hv hn hc.stab hen
    obtain ⟨⟨hst, _⟩, _⟩ := execBlock_struct b env _ bs2 s1 s2 h2
    have hb := execBlock_untouched b x env _ bs2 s1 s2 hx.1 (by rw [hc2.vals]; exact hc.stab) h2
    have htop : TopU x o stk bs2 := ⟨_, hst, ⟨hb.trans hc2.vals, hc2.bak, hc2.nd, hc2.stab⟩⟩
    exact execIfRest_untouched rest x env bs2 bs' s2 s' o stk hx.2 htop h4
end

end Pysnark
