import PysnarkModel.Lemmas.BranchTree
/-!
# Block branching: the traced program computes what the native program computes (values)

Simulation of `Spec/Native.lean` by `Model/Branching.lean`.  `RefV r vals E` (`Spec/Native.lean`):
the tracked variables are exactly the native variables and stand for the same numbers (in units of
`2^-r`; lists element-wise), and every tracked boolean holds 0 or 1.
-/
namespace Pysnark

structure RefI (r : Nat) (env : BEnv) (nc : NCtx) : Prop where
  res : nc.res = r
  lvs : env.lvs = nc.lvs
  inputs : ∀ i : Nat, Option.map (SVal.den r) env.inputs[i]? = Option.map (NLeaf.norm r) nc.inputs[i]?
  finputs : ∀ i : Nat, Option.map (SVal.den r) env.finputs[i]? = Option.map (NLeaf.norm r) nc.finputs[i]?
  ibok : ∀ o ∈ env.inputs, o.bok = true
  fbok : ∀ o ∈ env.finputs, o.bok = true

/-- a native run that failed: only "outside the cap" is compatible with a completed traced run -/
def ErrOk (x : NErr) : Prop :=
  match x with
  | .uncapped => True
  | _ => False

/-- what a completed traced run says about the native run -/
def Post (r : Nat) (res : NM NEnv) (vals : Vals) (s : St) : Prop :=
  match res with
  | .ok E => Live r s ∧ RefV r vals E
  | .error x => ErrOk x

theorem Post.ok {r : Nat} {E : NEnv} {vals : Vals} {s : St} (hl : Live r s) (hr : RefV r vals E) :
    Post r (.ok E) vals s := ⟨hl, hr⟩

/-! ## the native dictionary -/
theorem NEnv.get?_set (E : NEnv) (x y : Nat) (v : NVal) :
    (E.set x v).get? y = if x = y then some v else E.get? y := by
  induction E with
  | nil => simp [NEnv.set, NEnv.get?]
  | cons kv t ih =>
    obtain ⟨k, w⟩ := kv
    simp only [NEnv.set]
    by_cases hk : k = x
    · subst hk
      simp only [if_true, NEnv.get?]
      by_cases hy : k = y <;> simp [hy]
    · simp only [hk, if_false, NEnv.get?, ih]
      by_cases hy : k = y
      · subst hy
        have : ¬ x = k := fun h => hk h.symm
        simp [this]
      · simp [hy]

/-! ## booleans hold 0 or 1 -/
theorem Vals.bok.get? : ∀ {vs : Vals}, vs.bok → ∀ {x : Nat} {t : TVal}, vs.get? x = some t → t.bok = true
  | [], _, x, t, h => by simp [Vals.get?] at h
  | (k, p) :: rest, hb, x, t, h => by
    simp only [Vals.get?] at h
    by_cases hk : k = x
    · simp only [hk, if_true, Option.some.injEq] at h
      subst h
      exact hb (k, p) (by simp)
    · simp only [hk, if_false] at h
      exact Vals.bok.get? (fun kv hkv => hb kv (List.mem_cons_of_mem _ hkv)) h

theorem Vals.bok.set : ∀ {vs : Vals}, vs.bok → ∀ (x : Nat) {t : TVal}, t.bok = true → Vals.bok (vs.set x t)
  | [], _, x, t, ht => by
    intro kv hkv
    simp only [Vals.set, List.mem_singleton] at hkv
    subst hkv; exact ht
  | (k, p) :: rest, hb, x, t, ht => by
    simp only [Vals.set]
    by_cases hk : k = x
    · simp only [hk, if_true]
      intro kv hkv
      rcases List.mem_cons.mp hkv with rfl | hkv
      · exact ht
      · exact hb kv (List.mem_cons_of_mem _ hkv)
    · simp only [hk, if_false]
      intro kv hkv
      rcases List.mem_cons.mp hkv with rfl | hkv
      · exact hb (k, p) (by simp)
      · exact Vals.bok.set (fun kv' hkv' => hb kv' (List.mem_cons_of_mem _ hkv')) x ht kv hkv

theorem Vals.bok.filter {vs : Vals} (h : vs.bok) (p : Nat × TVal → Bool) : Vals.bok (vs.filter p) :=
  fun kv hkv => h kv (List.mem_filter.mp hkv).1

theorem Vals.bok.removeAll {vs : Vals} (h : vs.bok) (other : Vals) : Vals.bok (vs.removeAll other) := h.filter _

theorem Vals.bok.setAll_aux {other : Vals} (ho : other.bok) : ∀ (l : Vals) {acc : Vals},
    acc.bok → Vals.bok (l.foldl (Vals.setFrom other) acc)
  | [], acc, ha => ha
  | kv :: l, acc, ha => by
    simp only [List.foldl_cons]
    refine Vals.bok.setAll_aux ho l ?_
    unfold Vals.setFrom
    cases hg : other.get? kv.1 with
    | none => exact ha
    | some o => exact ha.set _ (ho.get? hg)

theorem Vals.bok.setAll {vs other : Vals} (hv : vs.bok) (ho : other.bok) : Vals.bok (vs.setAll other) :=
  Vals.bok.setAll_aux ho other hv

theorem Vals.bok_nil : Vals.bok [] := fun kv h => by cases h

theorem valOf_set (r : Nat) (vs : Vals) (x y : Nat) (t : TVal) :
    (vs.set x t).valOf r y = if x = y then some (denT r t) else vs.valOf r y := by
  unfold Vals.valOf
  rw [Vals.get?_set]
  by_cases hy : x = y <;> simp [hy]

theorem nvalOf_set (r : Nat) (E : NEnv) (x y : Nat) (v : NVal) :
    (E.set x v).valOf r y = if x = y then some (denN r v) else E.valOf r y := by
  unfold NEnv.valOf
  rw [NEnv.get?_set]
  by_cases hy : x = y <;> simp [hy]

theorem RefV.set {r : Nat} {vals : Vals} {E : NEnv} (h : RefV r vals E) (x : Nat) {t : TVal} {v : NVal}
    (hd : denN r v = denT r t) (hb : t.bok = true) : RefV r (vals.set x t) (E.set x v) := by
  refine ⟨fun y => ?_, h.bok.set x hb⟩
  rw [valOf_set, nvalOf_set, hd, h.eq y]

/-! ## native arithmetic on the numbers -/
theorem norm_nAdd (r : Nat) (p q : NLeaf) : (nAdd r p q).norm r = p.norm r + q.norm r := by
  cases p <;> cases q <;> simp only [nAdd, NLeaf.norm] <;> ring

theorem norm_nSub (r : Nat) (p q : NLeaf) : (nSub r p q).norm r = p.norm r - q.norm r := by
  cases p <;> cases q <;> simp only [nSub, NLeaf.norm] <;> ring

theorem nMul_ok {r : Nat} {p q : NLeaf} {m : Int} (h : m * 2 ^ r = p.norm r * q.norm r) :
    ∃ w, nMul r p q = .ok w ∧ w.norm r = m := by
  have h2 := pow2_ne_zero r
  have hgen : (p.norm r * q.norm r) % 2 ^ r = 0 ∧ (p.norm r * q.norm r) / 2 ^ r = m := by
    rw [← h]
    exact ⟨Int.mul_emod_left _ _, Int.mul_ediv_cancel _ h2⟩
  cases p with
  | int x =>
    cases q with
    | int y =>
      refine ⟨.int (x * y), rfl, ?_⟩
      simp only [NLeaf.norm] at h ⊢
      have : m * 2 ^ r = (x * y * 2 ^ r) * 2 ^ r := by rw [h]; ring
      exact (Int.eq_of_mul_eq_mul_right h2 this).symm
    | fx y =>
      refine ⟨.fx (((NLeaf.int x).norm r * (NLeaf.fx y).norm r) / 2 ^ r), ?_, hgen.2⟩
      simp only [nMul, hgen.1, if_true]
  | fx x =>
    refine ⟨.fx (((NLeaf.fx x).norm r * q.norm r) / 2 ^ r), ?_, hgen.2⟩
    cases q <;> simp only [nMul, hgen.1, if_true]

theorem truthy_iff (r : Nat) (p : NLeaf) (l : Int) (h : p.norm r = l * 2 ^ r) : p.truthy r = decide (l ≠ 0) := by
  unfold NLeaf.truthy
  rw [h]
  have h2 := pow2_ne_zero r
  by_cases hl : l = 0
  · simp [hl]
  · have : l * 2 ^ r ≠ 0 := mul_ne_zero hl h2
    simp [hl, this]

theorem norm_nBool (r : Nat) (b : Bool) : (nBool b).norm r = (if b then 1 else 0) * 2 ^ r := rfl

theorem ok_bind {ε α β : Type} (a : α) (f : α → Except ε β) : (Except.ok a >>= f) = f a := rfl

theorem nBin_leaf {f : NLeaf → NLeaf → NM NLeaf} {p q w : NLeaf} (h : f p q = .ok w) :
    nBin f (.leaf p) (.leaf q) = .ok (.leaf w) := by
  simp only [nBin, nScalar, ok_bind, h]; rfl

theorem den_bool (r : Nat) (l : LinComb) (id : Option Nat) : (SVal.sc .bool l id).den r = l.value * 2 ^ r := rfl
theorem den_int (r : Nat) (l : LinComb) (id : Option Nat) : (SVal.sc .int l id).den r = l.value * 2 ^ r := rfl

/-! ## expressions and conditions -/

/-- operands of a binary operator: two scalars on both sides -/
theorem binS_leaves {r : Nat} {op : Val → Val → M Val} {ok : Val → Val → Bool} {x y t : TVal} {n n' : Nat}
    {s s' : St} {vx vy : NVal} (h : binS op ok x y n s = .ok ((t, n'), s'))
    (hx : denN r vx = denT r x) (hy : denN r vy = denT r y) :
    ∃ a b v o p q, x = .leaf a ∧ y = .leaf b ∧ vx = .leaf p ∧ vy = .leaf q ∧ p.norm r = a.den r ∧
      q.norm r = b.den r ∧ ok a.toVal b.toVal = true ∧ op a.toVal b.toVal s = .ok (v, s') ∧
      SVal.ofVal v n = some o ∧ t = .leaf o := by
  obtain ⟨a, b, v, o, rfl, rfl, hok, hop, ho, rfl, _⟩ := binS_ok h
  rw [denT_leaf] at hx hy
  obtain ⟨p, rfl, hp⟩ := denN_eq_leaf hx
  obtain ⟨q, rfl, hq⟩ := denN_eq_leaf hy
  exact ⟨a, b, v, o, p, q, rfl, rfl, rfl, rfl, hp, hq, hok, hop, ho, rfl⟩

theorem mem_of_get? {α : Type} {l : List α} {i : Nat} {a : α} (h : l[i]? = some a) : a ∈ l :=
  List.mem_of_getElem? h

mutual
theorem evalE_val {r : Nat} {env : BEnv} {nc : NCtx} {vals : Vals} {E : NEnv} (hi : RefI r env nc)
    (hv : RefV r vals E) : ∀ (e : BExpr) {n n' : Nat} {t : TVal} {s s' : St}, Live r s →
      evalE env vals e n s = .ok ((t, n'), s') →
      Same s s' ∧ t.bok = true ∧ ∃ v, nEvalE nc E e = .ok v ∧ denN r v = denT r t
  | .var x, n, n', t, s, s', _, h => by
    unfold evalE at h
    have hx := hv.eq x
    unfold Vals.valOf NEnv.valOf at hx
    cases hg : vals.get? x with
    | none => simp only [hg] at h; exact (raise_ok.mp h).elim
    | some o =>
      simp only [hg] at h
      obtain ⟨h1, rfl⟩ := pure_ok' h
      simp only [Prod.mk.injEq] at h1
      obtain ⟨rfl, _⟩ := h1
      rw [hg] at hx
      cases hE : E.get? x with
      | none => rw [hE] at hx; cases hx
      | some v =>
        rw [hE] at hx
        simp only [Option.map_some, Option.some.injEq] at hx
        exact ⟨Same.refl _, hv.bok.get? hg, v, by simp only [nEvalE, hE, nGet], hx.symm⟩
  | .inp i, n, n', t, s, s', _, h => by
    unfold evalE at h
    have hx := hi.inputs i
    cases hg : env.inputs[i]? with
    | none => simp only [hg] at h; exact (raise_ok.mp h).elim
    | some o =>
      simp only [hg] at h
      obtain ⟨h1, rfl⟩ := pure_ok' h
      simp only [Prod.mk.injEq] at h1
      obtain ⟨rfl, _⟩ := h1
      rw [hg] at hx
      cases hE : nc.inputs[i]? with
      | none => rw [hE] at hx; cases hx
      | some p =>
        rw [hE] at hx
        simp only [Option.map_some, Option.some.injEq] at hx
        refine ⟨Same.refl _, ?_, .leaf p, by simp only [nEvalE, hE, nGet]; rfl, ?_⟩
        · rw [TVal.bok_leaf]; exact hi.ibok o (mem_of_get? hg)
        · rw [denN_leaf, denT_leaf, hx]
  | .finp i, n, n', t, s, s', _, h => by
    unfold evalE at h
    have hx := hi.finputs i
    cases hg : env.finputs[i]? with
    | none => simp only [hg] at h; exact (raise_ok.mp h).elim
    | some o =>
      simp only [hg] at h
      obtain ⟨h1, rfl⟩ := pure_ok' h
      simp only [Prod.mk.injEq] at h1
      obtain ⟨rfl, _⟩ := h1
      rw [hg] at hx
      cases hE : nc.finputs[i]? with
      | none => rw [hE] at hx; cases hx
      | some p =>
        rw [hE] at hx
        simp only [Option.map_some, Option.some.injEq] at hx
        refine ⟨Same.refl _, ?_, .leaf p, by simp only [nEvalE, hE, nGet]; rfl, ?_⟩
        · rw [TVal.bok_leaf]; exact hi.fbok o (mem_of_get? hg)
        · rw [denN_leaf, denT_leaf, hx]
  | .const c, n, n', t, s, s', _, h => by
    unfold evalE at h
    obtain ⟨h1, rfl⟩ := pure_ok' h
    simp only [Prod.mk.injEq] at h1
    obtain ⟨rfl, _⟩ := h1
    exact ⟨Same.refl _, rfl, .leaf (.int c), by simp only [nEvalE], by rw [denN_leaf, denT_leaf]; rfl⟩
  | .loopvar w, n, n', t, s, s', _, h => by
    unfold evalE at h
    cases hg : lookupLv env.lvs w with
    | none => simp only [hg] at h; exact (raise_ok.mp h).elim
    | some k =>
      simp only [hg] at h
      obtain ⟨h1, rfl⟩ := pure_ok' h
      simp only [Prod.mk.injEq] at h1
      obtain ⟨rfl, _⟩ := h1
      refine ⟨Same.refl _, rfl, .leaf (.int k), ?_, by rw [denN_leaf, denT_leaf]; rfl⟩
      simp only [nEvalE, ← hi.lvs, hg, nGet]; rfl
  | .add a b, n, n', t, s, s', hl, h => by
    unfold evalE at h
    obind h with ⟨x, n1⟩, s1, h1
    obind h with ⟨y, n2⟩, s2, h2
    obtain ⟨sm1, _, vx, nx, dx⟩ := evalE_val hi hv a hl h1
    obtain ⟨sm2, _, vy, ny, dy⟩ := evalE_val hi hv b (hl.same sm1) h2
    have hl2 := (hl.same sm1).same sm2
    obtain ⟨p, q, v, o, pn, qn, rfl, rfl, rfl, rfl, hp, hq, _, hop, ho, rfl⟩ := binS_leaves h dx dy
    obtain ⟨rfl, _, hk, vr⟩ := addV_rep p.toVal_isS q.toVal_isS hop
    refine ⟨sm1.trans sm2, ?_, .leaf (nAdd r pn qn), ?_, ?_⟩
    · rw [TVal.bok_leaf]; exact SVal.bok_of_not_lcb (fun l hl' => hk l (by rw [← SVal.ofVal_toVal ho]; exact hl'))
    · simp only [nEvalE, nx, ny, hi.res, ok_bind]; exact nBin_leaf rfl
    · rw [denN_leaf, denT_leaf, norm_nAdd, hp, hq, SVal.ofVal_den ho, ← hl2.res, vr, SVal.den_eq_rep, SVal.den_eq_rep]
  | .sub a b, n, n', t, s, s', hl, h => by
    unfold evalE at h
    obind h with ⟨x, n1⟩, s1, h1
    obind h with ⟨y, n2⟩, s2, h2
    obtain ⟨sm1, _, vx, nx, dx⟩ := evalE_val hi hv a hl h1
    obtain ⟨sm2, _, vy, ny, dy⟩ := evalE_val hi hv b (hl.same sm1) h2
    have hl2 := (hl.same sm1).same sm2
    obtain ⟨p, q, v, o, pn, qn, rfl, rfl, rfl, rfl, hp, hq, _, hop, ho, rfl⟩ := binS_leaves h dx dy
    obtain ⟨rfl, _, hk, vr⟩ := subV_rep p.toVal_isS q.toVal_isS hop
    refine ⟨sm1.trans sm2, ?_, .leaf (nSub r pn qn), ?_, ?_⟩
    · rw [TVal.bok_leaf]; exact SVal.bok_of_not_lcb (fun l hl' => hk l (by rw [← SVal.ofVal_toVal ho]; exact hl'))
    · simp only [nEvalE, nx, ny, hi.res, ok_bind]; exact nBin_leaf rfl
    · rw [denN_leaf, denT_leaf, norm_nSub, hp, hq, SVal.ofVal_den ho, ← hl2.res, vr, SVal.den_eq_rep, SVal.den_eq_rep]
  | .mul a b, n, n', t, s, s', hl, h => by
    unfold evalE at h
    obind h with ⟨x, n1⟩, s1, h1
    obind h with ⟨y, n2⟩, s2, h2
    obtain ⟨sm1, _, vx, nx, dx⟩ := evalE_val hi hv a hl h1
    obtain ⟨sm2, _, vy, ny, dy⟩ := evalE_val hi hv b (hl.same sm1) h2
    obtain ⟨p, q, v, o, pn, qn, rfl, rfl, rfl, rfl, hp, hq, hok, hop, ho, rfl⟩ := binS_leaves h dx dy
    obtain ⟨sm3, _, hk, vr⟩ := mulV_rep p.toVal_isS q.toVal_isS hok hop
    have hm : o.den r * 2 ^ r = pn.norm r * qn.norm r := by
      rw [hp, hq, SVal.ofVal_den ho, vr r, SVal.den_eq_rep, SVal.den_eq_rep]
    obtain ⟨w, hw, vw⟩ := nMul_ok hm
    refine ⟨(sm1.trans sm2).trans sm3, ?_, .leaf w, ?_, ?_⟩
    · rw [TVal.bok_leaf]; exact SVal.bok_of_not_lcb (fun l hl' => hk l (by rw [← SVal.ofVal_toVal ho]; exact hl'))
    · simp only [nEvalE, nx, ny, hi.res, ok_bind]; exact nBin_leaf hw
    · rw [denN_leaf, denT_leaf, vw]
  | .cmp op a b, n, n', t, s, s', hl, h => by
    unfold evalE at h
    obind h with ⟨x, n1⟩, s1, h1
    obind h with ⟨y, n2⟩, s2, h2
    obtain ⟨sm1, _, vx, nx, dx⟩ := evalE_val hi hv a hl h1
    obtain ⟨sm2, _, vy, ny, dy⟩ := evalE_val hi hv b (hl.same sm1) h2
    have hl2 := (hl.same sm1).same sm2
    obtain ⟨p, q, v, o, pn, qn, rfl, rfl, rfl, rfl, hp, hq, hok, hop, ho, rfl⟩ := binS_leaves h dx dy
    obtain ⟨sm3, l, rfl, hb, vl⟩ := cmpV_rep hok hop
    simp only [SVal.ofVal, Option.some.injEq] at ho
    subst ho
    refine ⟨(sm1.trans sm2).trans sm3, ?_, .leaf (nBool (cmpB op (pn.norm r) (qn.norm r))), ?_, ?_⟩
    · rw [TVal.bok_leaf]; exact SVal.bok_bool hb
    · simp only [nEvalE, nx, ny, hi.res, ok_bind]; exact nBin_leaf rfl
    · rw [denN_leaf, denT_leaf, norm_nBool, hp, hq, den_bool, vl hl2, cmpSem_cmpB, SVal.den_eq_rep, SVal.den_eq_rep]
  | .not a, n, n', t, s, s', hl, h => by
    unfold evalE at h
    obind h with ⟨x, n1⟩, s1, h1
    obtain ⟨sm1, _, vx, nx, dx⟩ := evalE_val hi hv a hl h1
    obtain ⟨l, id, rr, rfl, hn, rfl, _⟩ := notS_ok h
    obtain ⟨sm2, vr, hb⟩ := boolNot_val hn
    rw [denT_leaf] at dx
    obtain ⟨p, rfl, hp⟩ := denN_eq_leaf dx
    rw [den_bool] at hp
    have hbr : BoolLC rr := by unfold BoolLC; rw [vr]; rcases hb with h0 | h1 <;> simp [*]
    refine ⟨sm1.trans sm2, ?_, .leaf (nBool (!p.truthy r)), ?_, ?_⟩
    · rw [TVal.bok_leaf]; exact SVal.bok_bool hbr
    · simp only [nEvalE, nx, hi.res, ok_bind, nScalar]; rfl
    · rw [denN_leaf, denT_leaf, norm_nBool, truthy_iff r p _ hp, den_bool, vr]
      rcases hb with h0 | h1 <;> simp [*]
  | .and a b, n, n', t, s, s', hl, h => by
    unfold evalE at h
    obind h with ⟨x, n1⟩, s1, h1
    obind h with ⟨y, n2⟩, s2, h2
    obtain ⟨sm1, bx, vx, nx, dx⟩ := evalE_val hi hv a hl h1
    obtain ⟨sm2, by', vy, ny, dy⟩ := evalE_val hi hv b (hl.same sm1) h2
    obtain ⟨p, q, v, o, pn, qn, rfl, rfl, rfl, rfl, hp, hq, hok, hop, ho, rfl⟩ := binS_leaves h dx dy
    obtain ⟨lx, ly, hx', hy'⟩ := bothBool_ok hok
    obtain ⟨idx, rfl⟩ := SVal.toVal_lcb hx'
    obtain ⟨idy, rfl⟩ := SVal.toVal_lcb hy'
    obtain ⟨sm3, l, rfl, hb, vl⟩ := bwV_bool (Or.inl rfl) hop
    simp only [SVal.ofVal, Option.some.injEq] at ho
    subst ho
    rw [TVal.bok_leaf] at bx by'
    have hbx := SVal.boolLC_of_bok bx
    rw [den_bool] at hp hq
    refine ⟨(sm1.trans sm2).trans sm3, ?_, .leaf (if pn.truthy r then qn else pn), ?_, ?_⟩
    · rw [TVal.bok_leaf]; exact SVal.bok_bool hb
    · simp only [nEvalE, nx, ny, hi.res, ok_bind]; exact nBin_leaf rfl
    · rw [denN_leaf, denT_leaf, truthy_iff r pn _ hp, den_bool, vl]
      rcases hbx with h0 | h1
      · simp [h0, hp]
      · simp [h1, hq]
  | .or a b, n, n', t, s, s', hl, h => by
    unfold evalE at h
    obind h with ⟨x, n1⟩, s1, h1
    obind h with ⟨y, n2⟩, s2, h2
    obtain ⟨sm1, bx, vx, nx, dx⟩ := evalE_val hi hv a hl h1
    obtain ⟨sm2, by', vy, ny, dy⟩ := evalE_val hi hv b (hl.same sm1) h2
    obtain ⟨p, q, v, o, pn, qn, rfl, rfl, rfl, rfl, hp, hq, hok, hop, ho, rfl⟩ := binS_leaves h dx dy
    obtain ⟨lx, ly, hx', hy'⟩ := bothBool_ok hok
    obtain ⟨idx, rfl⟩ := SVal.toVal_lcb hx'
    obtain ⟨idy, rfl⟩ := SVal.toVal_lcb hy'
    obtain ⟨sm3, l, rfl, hb, vl⟩ := bwV_bool (Or.inr rfl) hop
    simp only [SVal.ofVal, Option.some.injEq] at ho
    subst ho
    rw [TVal.bok_leaf] at bx by'
    have hbx := SVal.boolLC_of_bok bx
    rw [den_bool] at hp hq
    refine ⟨(sm1.trans sm2).trans sm3, ?_, .leaf (if pn.truthy r then pn else qn), ?_, ?_⟩
    · rw [TVal.bok_leaf]; exact SVal.bok_bool hb
    · simp only [nEvalE, nx, ny, hi.res, ok_bind]; exact nBin_leaf rfl
    · rw [denN_leaf, denT_leaf, truthy_iff r pn _ hp, den_bool, vl]
      rcases hbx with h0 | h1
      · simp [h0, hq]
      · simp [h1, hp]
  | .list es, n, n', t, s, s', hl, h => by
    unfold evalE at h
    obind h with ⟨ts, n1⟩, s1, h1
    obtain ⟨h2, rfl⟩ := pure_ok' h
    simp only [Prod.mk.injEq] at h2
    obtain ⟨rfl, _⟩ := h2
    obtain ⟨sm, hb, vs, nvs, dvs⟩ := evalEs_val hi hv es hl h1
    refine ⟨sm, by rw [TVal.bok_node]; exact hb, .node vs, by simp only [nEvalE, nvs, ok_bind]; rfl, ?_⟩
    rw [denN_node, denT_node, dvs]
  | .item e i, n, n', t, s, s', hl, h => by
    unfold evalE at h
    obind h with ⟨u, n1⟩, s1, h1
    obtain ⟨sm, hb, v, nv, dv⟩ := evalE_val hi hv e hl h1
    cases u with
    | leaf a => exact (raise_ok.mp h).elim
    | node ts =>
      dsimp only at h
      cases hg : ts[i]? with
      | none => simp only [hg] at h; exact (raise_ok.mp h).elim
      | some w =>
        simp only [hg] at h
        obtain ⟨h2, rfl⟩ := pure_ok' h
        simp only [Prod.mk.injEq] at h2
        obtain ⟨rfl, _⟩ := h2
        rw [denT_node] at dv
        obtain ⟨vs, rfl, hvs⟩ := denN_eq_node dv
        have hidx : (vs.map (denN r))[i]? = (ts.map (denT r))[i]? := by rw [hvs]
        simp only [List.getElem?_map, hg, Option.map_some] at hidx
        cases hw : vs[i]? with
        | none => rw [hw] at hidx; cases hidx
        | some w' =>
          rw [hw] at hidx
          simp only [Option.map_some, Option.some.injEq] at hidx
          rw [TVal.bok_node] at hb
          exact ⟨sm, List.all_eq_true.mp hb w (mem_of_get? hg), w', by simp only [nEvalE, nv, ok_bind, hw, nGet], hidx⟩
theorem evalEs_val {r : Nat} {env : BEnv} {nc : NCtx} {vals : Vals} {E : NEnv} (hi : RefI r env nc)
    (hv : RefV r vals E) : ∀ (es : BExprs) {n n' : Nat} {ts : List TVal} {s s' : St}, Live r s →
      evalEs env vals es n s = .ok ((ts, n'), s') →
      Same s s' ∧ ts.all TVal.bok = true ∧ ∃ vs, nEvalEs nc E es = .ok vs ∧ vs.map (denN r) = ts.map (denT r)
  | .nil, n, n', ts, s, s', _, h => by
    unfold evalEs at h
    obtain ⟨h1, rfl⟩ := pure_ok' h
    simp only [Prod.mk.injEq] at h1
    obtain ⟨rfl, _⟩ := h1
    exact ⟨Same.refl _, rfl, [], by simp only [nEvalEs], rfl⟩
  | .cons e es, n, n', ts, s, s', hl, h => by
    unfold evalEs at h
    obind h with ⟨u, n1⟩, s1, h1
    obind h with ⟨us, n2⟩, s2, h2
    obtain ⟨h3, rfl⟩ := pure_ok' h
    simp only [Prod.mk.injEq] at h3
    obtain ⟨rfl, _⟩ := h3
    obtain ⟨sm1, hb1, v, nv, dv⟩ := evalE_val hi hv e hl h1
    obtain ⟨sm2, hb2, vs, nvs, dvs⟩ := evalEs_val hi hv es (hl.same sm1) h2
    refine ⟨sm1.trans sm2, by simp only [List.all_cons, hb1, hb2, Bool.and_self], v :: vs, by simp only [nEvalEs, nv, nvs, ok_bind]; rfl, ?_⟩
    simp only [List.map_cons, dv, dvs]
end

/-- a condition evaluated while the guard is true: its truth value is the native one -/
theorem evalC_live {r : Nat} {env : BEnv} {nc : NCtx} {bv : BV} {E : NEnv} (hi : RefI r env nc) (hv : RefV r bv.vals E)
    {c : BCond} {s s' : St} {v : Val} (hl : Live r s) (h : evalC env bv c s = .ok (v, s')) :
    Same s s' ∧ ∃ (b : Bool), nEvalC nc E c = .ok b ∧ ∀ l, v = .lcb l → l.value = if b then 1 else 0 := by
  obtain ⟨o, n', he, rfl⟩ := evalC_ok h
  obtain ⟨sm, hb, w, nw, dw⟩ := evalE_val hi hv c hl he
  rw [denT_leaf] at dw
  obtain ⟨p, rfl, hp⟩ := denN_eq_leaf dw
  refine ⟨sm, p.truthy r, by simp only [nEvalC, nw, hi.res, ok_bind, nScalar]; rfl, ?_⟩
  intro l hlv
  obtain ⟨id, rfl⟩ := SVal.toVal_lcb hlv
  rw [TVal.bok_leaf] at hb
  have hbl := SVal.boolLC_of_bok hb
  rw [den_bool] at hp
  rw [truthy_iff r p _ hp]
  rcases hbl with h0 | h1 <;> simp [*]

/-- a loop bound evaluated while the guard is true: a secret integer, the native bound -/
theorem evalC_bound {r : Nat} {env : BEnv} {nc : NCtx} {bv : BV} {E : NEnv} (hi : RefI r env nc) (hv : RefV r bv.vals E)
    {c : BExpr} {s s' : St} {st : LinComb} (hl : Live r s) (h : evalC env bv c s = .ok (.lc st, s')) :
    Same s s' ∧ ∃ w, nEvalE nc E c = .ok w ∧ nBound nc.res w = .ok st.value := by
  obtain ⟨o, n', he, ho⟩ := evalC_ok h
  obtain ⟨sm, hb, w, nw, dw⟩ := evalE_val hi hv c hl he
  rw [denT_leaf] at dw
  obtain ⟨p, rfl, hp⟩ := denN_eq_leaf dw
  obtain ⟨id, rfl⟩ := SVal.toVal_lc ho.symm
  rw [den_int] at hp
  refine ⟨sm, .leaf p, nw, ?_⟩
  have h2 := pow2_ne_zero r
  simp only [nBound, nScalar, ok_bind, hi.res, hp, Int.mul_emod_left, if_true, Int.mul_ediv_cancel _ h2]
  rfl

/-! ## `if_then_else` on values: the number selected -/

/-- what a merge selects -/
def dsel (cv : Int) (t f : DVal) : DVal := if cv = 1 then t else f

theorem mergeS_val {r : Nat} {c : LinComb} {t f o : SVal} {n n' : Nat} {s s' : St} (hr : s.resolution = r)
    (hc : BoolLC c) (h : mergeS c t f n s = .ok ((o, n'), s')) :
    o.den r = (if c.value = 1 then t.den r else f.den r) ∧ ((t.bok = true ∨ f.bok = true) → o.bok = true) := by
  rcases mergeS_ok h with ⟨_, hv, rfl, _, rfl⟩ | ⟨_, v, hv, ho, _⟩
  · refine ⟨by rw [hv]; split <;> rfl, fun hb => ?_⟩
    rcases hb with hb | hb
    · exact hb
    · rw [hv]; exact hb
  · obtain ⟨_, _, hk, vr, _⟩ := iteScalar_rep t.toVal_isS f.toVal_isS hv
    refine ⟨?_, fun _ => SVal.bok_of_lcb_bool (fun l hl' => hk l (by rw [← SVal.ofVal_toVal ho]; exact hl'))⟩
    rw [SVal.ofVal_den ho, ← hr, vr, SVal.den_eq_rep, SVal.den_eq_rep]
    rcases hc with h0 | h1
    · simp [h0]
    · simp [h1]

mutual
theorem mergeT_val {r : Nat} {c : LinComb} (hc : BoolLC c) : ∀ {t f o : TVal} {n n' : Nat} {s s' : St},
    s.resolution = r → mergeT c t f n s = .ok ((o, n'), s') →
    denT r o = dsel c.value (denT r t) (denT r f) ∧ ((t.bok = true ∨ f.bok = true) → o.bok = true)
  | .leaf a, .leaf b, o, n, n', s, s', hr, h => by
    obtain ⟨w, hw, rfl⟩ := mergeT_leaf_ok h
    obtain ⟨hd, hb⟩ := mergeS_val hr hc hw
    refine ⟨?_, fun hbb => ?_⟩
    · simp only [denT_leaf, dsel, hd]
      split <;> rfl
    · simp only [TVal.bok_leaf] at hbb ⊢
      exact hb hbb
  | .node ts, .node fs, o, n, n', s, s', hr, h => by
    obtain ⟨rs, hrs, rfl⟩ := mergeT_node_ok h
    obtain ⟨hd, hb⟩ := mergeTL_val hc hr hrs
    refine ⟨?_, fun hbb => ?_⟩
    · simp only [denT_node, dsel, hd]
      split <;> rfl
    · simp only [TVal.bok_node] at hbb ⊢
      exact hb hbb
  | .node ts, .leaf b, o, n, n', s, s', _, h => by unfold mergeT at h; exact (raise_ok.mp h).elim
  | .leaf a, .node fs, o, n, n', s, s', _, h => by unfold mergeT at h; exact (raise_ok.mp h).elim
theorem mergeTL_val {r : Nat} {c : LinComb} (hc : BoolLC c) : ∀ {ts fs os : List TVal} {n n' : Nat} {s s' : St},
    s.resolution = r → mergeTL c ts fs n s = .ok ((os, n'), s') →
    os.map (denT r) = (if c.value = 1 then ts.map (denT r) else fs.map (denT r)) ∧
      ((ts.all TVal.bok = true ∨ fs.all TVal.bok = true) → os.all TVal.bok = true)
  | [], [], os, n, n', s, s', _, h => by
    obtain ⟨rfl, _, _⟩ := mergeTL_nil_ok h
    exact ⟨by split <;> rfl, fun _ => rfl⟩
  | t :: ts, f :: fs, os, n, n', s, s', hr, h => by
    obtain ⟨o, n1, s1, os', h1, h2, rfl⟩ := mergeTL_cons_ok h
    obtain ⟨hd1, hb1⟩ := mergeT_val hc hr h1
    obtain ⟨hd2, hb2⟩ := mergeTL_val hc ((mergeT_same h1).res.trans hr) h2
    refine ⟨?_, fun hbb => ?_⟩
    · simp only [List.map_cons, hd1, hd2, dsel]
      split <;> rfl
    · simp only [List.all_cons, Bool.and_eq_true] at hbb ⊢
      rcases hbb with ⟨ha, hb⟩ | ⟨ha, hb⟩
      · exact ⟨hb1 (Or.inl ha), hb2 (Or.inl hb)⟩
      · exact ⟨hb1 (Or.inr ha), hb2 (Or.inr hb)⟩
  | [], _ :: _, os, n, n', s, s', _, h => by unfold mergeTL at h; exact (raise_ok.mp h).elim
  | _ :: _, [], os, n, n', s, s', _, h => by unfold mergeTL at h; exact (raise_ok.mp h).elim
end

/-! ## the merges of `BranchContext.exit` on values -/
theorem valOf_cons (r : Nat) (k : Nat) (o : TVal) (t : Vals) (x : Nat) :
    Vals.valOf r ((k, o) :: t) x = if k = x then some (denT r o) else Vals.valOf r t x := by
  unfold Vals.valOf
  simp only [Vals.get?]
  by_cases hk : k = x <;> simp [hk]

theorem has_cons (k : Nat) (o : TVal) (t : Vals) (x : Nat) :
    Vals.has ((k, o) :: t) x = (decide (k = x) || Vals.has t x) := by
  unfold Vals.has
  simp only [Vals.get?]
  by_cases hk : k = x <;> simp [hk]

theorem valOf_eq_none {r : Nat} {vs : Vals} {x : Nat} : vs.valOf r x = none ↔ vs.has x = false := by
  unfold Vals.valOf Vals.has
  cases vs.get? x <;> simp

theorem valOf_some_has {r : Nat} {vs : Vals} {x : Nat} {v : DVal} (h : vs.valOf r x = some v) : vs.has x = true := by
  unfold Vals.valOf at h; unfold Vals.has
  cases hg : vs.get? x <;> simp [hg] at h ⊢

theorem has_valOf (r : Nat) {vs : Vals} {x : Nat} (h : vs.has x = true) : ∃ v, vs.valOf r x = some v := by
  unfold Vals.valOf; unfold Vals.has at h
  cases hg : vs.get? x with
  | none => simp [hg] at h
  | some o => exact ⟨_, rfl⟩

theorem bok_cons {k : Nat} {o : TVal} {t : Vals} : Vals.bok ((k, o) :: t) ↔ o.bok = true ∧ Vals.bok t := by
  unfold Vals.bok
  simp only [List.mem_cons, forall_eq_or_imp]

theorem mergeBak_val {r : Nat} {c : LinComb} (hc : BoolLC c) {bak : Vals} : ∀ {vals rs : Vals} {n n' : Nat} {s s' : St},
    s.resolution = r → mergeBak c bak vals n s = .ok ((rs, n'), s') →
    Same s s' ∧ (∀ x, vals.has x = true → bak.has x = true) ∧
    (∀ x, rs.valOf r x = (vals.valOf r x).bind (fun t => (bak.valOf r x).map (fun f => dsel c.value t f))) ∧
    ((vals.bok ∨ bak.bok) → rs.bok)
  | [], rs, n, n', s, s', _, h => by
    unfold mergeBak at h
    obtain ⟨h1, rfl⟩ := pure_ok' h
    simp only [Prod.mk.injEq] at h1
    rw [← h1.1]
    exact ⟨Same.refl _, fun x hx => by simp [Vals.has, Vals.get?] at hx, fun x => rfl, fun _ => Vals.bok_nil⟩
  | (y, t) :: rest, rs, n, n', s, s', hr, h => by
    obtain ⟨f, o, n1, s1, rs', hf, hm, h3, rfl⟩ := mergeBak_cons_ok h
    have sm1 := mergeT_same hm
    obtain ⟨vr, hbo⟩ := mergeT_val hc hr hm
    obtain ⟨sm2, hd, ih, hbr⟩ := mergeBak_val hc (sm1.res.trans hr) h3
    refine ⟨sm1.trans sm2, ?_, ?_, ?_⟩
    · intro x hx
      rw [has_cons] at hx
      by_cases hy : y = x
      · subst hy; unfold Vals.has; rw [hf]; rfl
      · simp only [hy, decide_false, Bool.false_or] at hx; exact hd x hx
    · intro x
      rw [valOf_cons, valOf_cons]
      by_cases hy : y = x
      · subst hy
        have : bak.valOf r y = some (denT r f) := by unfold Vals.valOf; rw [hf]; rfl
        simp [this, vr]
      · simp only [hy, if_false]; exact ih x
    · intro hb
      rw [bok_cons]
      rcases hb with hb | hb
      · rw [bok_cons] at hb
        exact ⟨hbo (Or.inl hb.1), hbr (Or.inl hb.2)⟩
      · exact ⟨hbo (Or.inr (hb.get? hf)), hbr (Or.inr hb)⟩

theorem mergeNodef_val {r : Nat} {c : LinComb} (hc : BoolLC c) {vals : Vals} : ∀ {nd rs : Vals} {n n' : Nat} {s s' : St},
    s.resolution = r → mergeNodef c vals nd n s = .ok ((rs, n'), s') →
    Same s s' ∧ (∀ x, nd.has x = true → vals.has x = true) ∧
    (∀ x, rs.valOf r x = (nd.valOf r x).bind (fun f => (vals.valOf r x).map (fun t => dsel c.value t f))) ∧
    ((vals.bok ∨ nd.bok) → rs.bok)
  | [], rs, n, n', s, s', _, h => by
    unfold mergeNodef at h
    obtain ⟨h1, rfl⟩ := pure_ok' h
    simp only [Prod.mk.injEq] at h1
    rw [← h1.1]
    exact ⟨Same.refl _, fun x hx => by simp [Vals.has, Vals.get?] at hx, fun x => rfl, fun _ => Vals.bok_nil⟩
  | (y, o) :: rest, rs, n, n', s, s', hr, h => by
    obtain ⟨t, w, n1, s1, rs', ht, hm, h3, rfl⟩ := mergeNodef_cons_ok h
    have sm1 := mergeT_same hm
    obtain ⟨vr, hbo⟩ := mergeT_val hc hr hm
    obtain ⟨sm2, hd, ih, hbr⟩ := mergeNodef_val hc (sm1.res.trans hr) h3
    refine ⟨sm1.trans sm2, ?_, ?_, ?_⟩
    · intro x hx
      rw [has_cons] at hx
      by_cases hy : y = x
      · subst hy; unfold Vals.has; rw [ht]; rfl
      · simp only [hy, decide_false, Bool.false_or] at hx; exact hd x hx
    · intro x
      rw [valOf_cons, valOf_cons]
      by_cases hy : y = x
      · subst hy
        have : vals.valOf r y = some (denT r t) := by unfold Vals.valOf; rw [ht]; rfl
        simp [this, vr]
      · simp only [hy, if_false]; exact ih x
    · intro hb
      rw [bok_cons]
      rcases hb with hb | hb
      · exact ⟨hbo (Or.inl (hb.get? ht)), hbr (Or.inl hb)⟩
      · rw [bok_cons] at hb
        exact ⟨hbo (Or.inr hb.1), hbr (Or.inr hb.2)⟩

/-- the variables of an `if` in progress: those first bound inside it shadow nothing (disjoint) -/
def view (r : Nat) (nd vals : Vals) (x : Nat) : Option DVal :=
  match nd.valOf r x with
  | some v => some v
  | none => vals.valOf r x

def Disj (nd vals : Vals) : Prop := ∀ x, nd.has x = true → vals.has x = false

theorem valOf_filter_bak (r : Nat) (vals bak : Vals) (x : Nat) :
    Vals.valOf r (vals.filter (fun kv => !bak.has kv.1)) x = if bak.has x then none else vals.valOf r x := by
  have := Vals.get?_filter (fun k => !Vals.has bak k) vals x
  unfold Vals.valOf
  rw [this]
  cases bak.has x <;> simp

theorem valOf_removeAll (r : Nat) (vals nd : Vals) (x : Nat) :
    (vals.removeAll nd).valOf r x = if nd.has x then none else vals.valOf r x := by
  unfold Vals.valOf
  rw [Vals.get?_removeAll]
  cases nd.has x <;> simp

theorem valOf_setAll (r : Nat) (vals nd : Vals) (x : Nat) : (vals.setAll nd).valOf r x = view r nd vals x := by
  unfold view Vals.valOf
  rw [Vals.get?_setAll]
  unfold Vals.has
  cases h : nd.get? x <;> simp

theorem valOf_backup (r : Nat) (vs : Vals) (x : Nat) : vs.backup.valOf r x = vs.valOf r x := by
  unfold Vals.valOf
  rw [Vals.get?_backup]
  cases vs.get? x with
  | none => rfl
  | some t =>
    simp only [Option.map_some, Option.some.injEq]
    have key : ∀ o : SVal, (SVal.dcopy o).den r = o.den r := by
      intro o
      cases o with
      | pub c => rfl
      | sc k l id => cases k <;> rfl
    have : ∀ u : TVal, denT r u.dcopy = denT r u := by
      intro u
      -- both sides map the leaves; the copies stand for the same numbers
      have h1 : ∀ (u : TVal), PTree.map (SVal.den r) (PTree.map SVal.dcopy u) = PTree.map (SVal.den r) u := by
        intro u
        induction u using PTree.rec (motive_2 := fun ts => (ts.map (fun u => PTree.map (SVal.den r) (PTree.map SVal.dcopy u))) = ts.map (PTree.map (SVal.den r))) with
        | leaf a => simp only [PTree.map_leaf, key]
        | node ts ih => simp only [PTree.map_node, List.map_map]; congr 1
        | nil => rfl
        | cons t ts iht ihts => simp only [List.map_cons, iht, ihts]
      exact h1 u
    exact this t

theorem bok_backup {vs : Vals} (h : vs.bok) : vs.backup.bok := by
  have key : ∀ o : SVal, (SVal.dcopy o).bok = o.bok := by
    intro o
    cases o with
    | pub c => rfl
    | sc k l id => cases k <;> rfl
  have h1 : ∀ (u : TVal), PTree.all SVal.bok (PTree.map SVal.dcopy u) = PTree.all SVal.bok u := by
    intro u
    induction u using PTree.rec (motive_2 := fun ts => (ts.map (PTree.map SVal.dcopy)).all (PTree.all SVal.bok) = ts.all (PTree.all SVal.bok)) with
    | leaf a => simp only [PTree.map_leaf, PTree.all_leaf, key]
    | node ts ih => simp only [PTree.map_node, PTree.all_node]; exact ih
    | nil => rfl
    | cons t ts iht ihts => simp only [List.map_cons, List.all_cons, iht, ihts]
  induction vs with
  | nil => exact Vals.bok_nil
  | cons kv rest ih =>
    obtain ⟨k, o⟩ := kv
    simp only [Vals.backup]
    rw [bok_cons] at h ⊢
    exact ⟨by unfold TVal.bok TVal.dcopy; rw [h1]; exact h.1, ih h.2⟩

/-- leaving a segment whose condition is true: the variables are what the body left -/
theorem exit_live {r : Nat} {ctx ctx' : BCtx} {bv bv' : BV} {s s' : St} (hc : ctx.cond.value = 1)
    (hlt : LiveT ctx.origguard) (hres : s.resolution = r) (h : ctx.exit bv s = .ok ((ctx', bv'), s')) :
    Live r s' ∧ ∃ nd, ctx'.nodefvals = some nd ∧ (∀ x, view r nd bv'.vals x = bv.vals.valOf r x) ∧ Disj nd bv'.vals ∧
      (∀ nd0, ctx.nodefvals = some nd0 → ∀ x, nd.has x = nd0.has x) ∧
      (bv.vals.bok → nd.bok ∧ bv'.vals.bok) := by
  obtain ⟨s1, nd, n1, s2, vals, n2, hr, hnd, hb, rfl, rfl⟩ := exit_ok h
  have l1 := Live.of_restore hlt hres hr
  have hcb : BoolLC ctx.cond := Or.inr hc
  -- the names first bound inside: same values as in the body's result
  have hndv : Same s1 s2 ∧ (∀ x, nd.has x = true → nd.valOf r x = bv.vals.valOf r x) ∧
      (∀ nd0, ctx.nodefvals = some nd0 → ∀ x, nd.has x = nd0.has x) ∧ (bv.vals.bok → nd.bok) := by
    rcases hnd with ⟨hn, rfl, _, rfl⟩ | ⟨nd0, hn, hm⟩
    · refine ⟨Same.refl _, ?_, (fun nd0 h0 => by rw [hn] at h0; cases h0), fun hb' => hb'.filter _⟩
      intro x hx
      rw [valOf_filter_bak]
      rw [has_filter_bak] at hx
      cases hb' : ctx.bak.has x <;> simp [hb'] at hx ⊢
    · obtain ⟨smn, hnd', hnv, hnb⟩ := mergeNodef_val hcb l1.res hm
      refine ⟨smn, ?_, (fun nd1 h1 x => by rw [hn] at h1; cases h1; exact mergeNodef_has hm x), fun hb' => hnb (Or.inl hb')⟩
      intro x hx
      rw [mergeNodef_has hm x] at hx
      obtain ⟨t, ht⟩ := has_valOf r (hnd' x hx)
      obtain ⟨f, hf⟩ := has_valOf r hx
      rw [hnv x, hf, ht]
      simp [hc, dsel]
  obtain ⟨smn, hndv, hkeys, hndb⟩ := hndv
  obtain ⟨smb, hbd, hbv, hbb⟩ := mergeBak_val hcb ((l1.same smn).res) hb
  refine ⟨(l1.same smn).same smb, nd, rfl, ?_, ?_, hkeys, fun hb' => ⟨hndb hb', hbb (Or.inl (hb'.removeAll nd))⟩⟩
  · intro x
    unfold view
    cases hx : nd.has x with
    | true =>
      obtain ⟨v, hv⟩ := has_valOf r hx
      rw [hv, ← hndv x hx, hv]
    | false =>
      rw [valOf_eq_none.mpr hx]
      simp only
      rw [hbv x, valOf_removeAll, hx]
      simp only [Bool.false_eq_true, if_false]
      cases ht : bv.vals.valOf r x with
      | none => rfl
      | some t =>
        have : (bv.vals.removeAll nd).has x = true := by rw [has_removeAll, valOf_some_has ht, hx]; rfl
        obtain ⟨f, hf⟩ := has_valOf r (hbd x this)
        simp [hf, hc, dsel]
  · intro x hx
    rw [mergeBak_has hb x, has_removeAll, hx]; simp

/-- leaving a segment whose condition is false: the variables are what they were when it was entered -/
theorem exit_dead {r : Nat} {ctx ctx' : BCtx} {bv bv' : BV} {s s' : St} (hc : ctx.cond.value = 0)
    (hlt : LiveT ctx.origguard) (hres : s.resolution = r) (hmono : ∀ x, ctx.bak.has x = true → bv.vals.has x = true)
    (hdisj : ∀ nd0, ctx.nodefvals = some nd0 → Disj nd0 ctx.bak)
    (h : ctx.exit bv s = .ok ((ctx', bv'), s')) :
    Live r s' ∧ ∃ nd, ctx'.nodefvals = some nd ∧ (∀ x, bv'.vals.valOf r x = ctx.bak.valOf r x) ∧ Disj nd bv'.vals ∧
      (∀ nd0, ctx.nodefvals = some nd0 → (∀ x, nd.valOf r x = nd0.valOf r x) ∧ (nd0.bok → nd.bok)) ∧
      (ctx.bak.bok → bv'.vals.bok) := by
  obtain ⟨s1, nd, n1, s2, vals, n2, hr, hnd, hb, rfl, rfl⟩ := exit_ok h
  have l1 := Live.of_restore hlt hres hr
  have hcb : BoolLC ctx.cond := Or.inl hc
  have hndv : Same s1 s2 ∧ (∀ x, ctx.bak.has x = true → nd.has x = false) ∧
      (∀ nd0, ctx.nodefvals = some nd0 → (∀ x, nd.valOf r x = nd0.valOf r x) ∧ (nd0.bok → nd.bok)) := by
    rcases hnd with ⟨hn, rfl, _, rfl⟩ | ⟨nd0, hn, hm⟩
    · refine ⟨Same.refl _, ?_, fun nd0 h0 => by rw [hn] at h0; cases h0⟩
      intro x hx
      rw [has_filter_bak, hx]; simp
    · obtain ⟨smn, hnd', hnv, hnb⟩ := mergeNodef_val hcb l1.res hm
      refine ⟨smn, ?_, ?_⟩
      · intro x hx
        rw [mergeNodef_has hm x]
        cases hh : nd0.has x with
        | false => rfl
        | true => have := hdisj nd0 hn x hh; rw [hx] at this; cases this
      · intro nd1 h1
        rw [hn] at h1; cases h1
        refine ⟨fun x => ?_, fun hb' => hnb (Or.inr hb')⟩
        rw [hnv x]
        cases hf : nd0.valOf r x with
        | none => rfl
        | some f =>
          obtain ⟨t, ht⟩ := has_valOf r (hnd' x (valOf_some_has hf))
          simp [ht, hc, dsel]
  obtain ⟨smn, hbn, hnv⟩ := hndv
  obtain ⟨smb, hbd, hbv, hbb⟩ := mergeBak_val hcb ((l1.same smn).res) hb
  refine ⟨(l1.same smn).same smb, nd, rfl, ?_, ?_, hnv, fun hb' => hbb (Or.inr hb')⟩
  · intro x
    rw [hbv x, valOf_removeAll]
    cases hbx : ctx.bak.has x with
    | true =>
      rw [hbn x hbx]
      simp only [Bool.false_eq_true, if_false]
      obtain ⟨t, ht⟩ := has_valOf r (hmono x hbx)
      obtain ⟨f, hf⟩ := has_valOf r hbx
      simp [ht, hf, hc, dsel]
    | false =>
      rw [valOf_eq_none.mpr hbx]
      cases hnx : nd.has x with
      | true => simp
      | false =>
        simp only [Bool.false_eq_true, if_false]
        cases ht : bv.vals.valOf r x with
        | none => rfl
        | some t =>
          have : (bv.vals.removeAll nd).has x = true := by rw [has_removeAll, valOf_some_has ht, hnx]; rfl
          have := hbd x this
          rw [hbx] at this; cases this
  · intro x hx
    rw [mergeBak_has hb x, has_removeAll, hx]; simp

end Pysnark
