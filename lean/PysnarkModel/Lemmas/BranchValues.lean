import PysnarkModel.Lemmas.BranchLive
/-!
# Block branching: the traced program computes what the native program computes (values)

Simulation of `Spec/Native.lean` by `Model/Branching.lean`.  `RefV vals E`: the tracked variables
are exactly the native variables and hold their values.
-/
namespace Pysnark

/-- the tracked variables are the native variables, with the same integer values -/
def RefV (vals : Vals) (E : NEnv) : Prop := ∀ x, vals.valOf x = E.get? x

structure RefI (env : BEnv) (nc : NCtx) : Prop where
  lvs : env.lvs = nc.lvs
  inputs : ∀ i : Nat, Option.map (fun (o : Obj) => o.v.value) env.inputs[i]? = nc.inputs[i]?

/-- what a completed traced run says about the native run -/
def Post (r : NM NEnv) (vals : Vals) (s : St) : Prop :=
  match r with
  | .ok E => Live s ∧ RefV vals E
  | .error .uncapped => True
  | .error .name => False

theorem Post.ok {E : NEnv} {vals : Vals} {s : St} (hl : Live s) (hr : RefV vals E) : Post (.ok E) vals s := ⟨hl, hr⟩

/-! ## the native dictionary -/
theorem NEnv.get?_set (E : NEnv) (x y : Nat) (v : Int) :
    (E.set x v).get? y = if x = y then some v else E.get? y := by
  induction E with
  | nil => simp [NEnv.set, NEnv.get?]
  | cons kv t ih =>
    obtain ⟨k, w⟩ := kv
    simp only [NEnv.set]
    by_cases hk : k = x
    · subst hk
      simp only [if_true, NEnv.get?]
      by_cases hy : k = y <;> simp [hy]
    · simp only [hk, if_false, NEnv.get?, ih]
      by_cases hy : k = y
      · subst hy
        have : ¬ x = k := fun h => hk h.symm
        simp [this]
      · simp [hy]

theorem RefV.set {vals : Vals} {E : NEnv} (h : RefV vals E) (x : Nat) (o : Obj) :
    RefV (vals.set x o) (E.set x o.v.value) := by
  intro y
  unfold Vals.valOf
  rw [Vals.get?_set, NEnv.get?_set]
  by_cases hy : x = y
  · simp [hy]
  · simp only [hy, if_false]; exact h y

/-- the tracked variables seen as a native dictionary -/
def Vals.toNEnv (vs : Vals) : NEnv := vs.map (fun kv => (kv.1, kv.2.v.value))

theorem Vals.refV_toNEnv : ∀ (vs : Vals), RefV vs vs.toNEnv
  | [], x => rfl
  | (k, o) :: t, x => by
    have ih := Vals.refV_toNEnv t x
    unfold Vals.valOf at ih ⊢
    simp only [Vals.toNEnv, List.map_cons, Vals.get?, NEnv.get?]
    by_cases hk : k = x
    · simp [hk]
    · simp only [hk, if_false]; exact ih

/-! ## expressions and conditions -/
theorem evalE_val {env : BEnv} {nc : NCtx} {bv : BV} {E : NEnv} (hi : RefI env nc) (hv : RefV bv.vals E) :
    ∀ (e : BExpr) {s s' : St} {v : Val}, evalE env bv e s = .ok (v, s') →
      Same s s' ∧ IsIntV v ∧ nEvalE nc E e = .ok (ival v)
  | .var x, s, s', v, h => by
    unfold evalE at h
    have hx := hv x
    unfold Vals.valOf at hx
    cases hg : bv.vals.get? x with
    | none => simp only [hg] at h; exact (raise_ok.mp h).elim
    | some o =>
      simp only [hg] at h
      obtain ⟨rfl, rfl⟩ := pure_ok' h
      rw [hg] at hx
      refine ⟨Same.refl _, trivial, ?_⟩
      simp only [nEvalE, ← hx, Option.map_some, nGet, ival]
  | .inp i, s, s', v, h => by
    unfold evalE at h
    have hx := hi.inputs i
    cases hg : env.inputs[i]? with
    | none => simp only [hg] at h; exact (raise_ok.mp h).elim
    | some o =>
      simp only [hg] at h
      obtain ⟨rfl, rfl⟩ := pure_ok' h
      rw [hg] at hx
      refine ⟨Same.refl _, trivial, ?_⟩
      simp only [nEvalE, ← hx, Option.map_some, nGet, ival]
  | .const c, s, s', v, h => by
    unfold evalE at h
    obtain ⟨rfl, rfl⟩ := pure_ok' h
    exact ⟨Same.refl _, trivial, rfl⟩
  | .loopvar w, s, s', v, h => by
    unfold evalE at h
    cases hg : lookupLv env.lvs w with
    | none => simp only [hg] at h; exact (raise_ok.mp h).elim
    | some k =>
      simp only [hg] at h
      obtain ⟨rfl, rfl⟩ := pure_ok' h
      refine ⟨Same.refl _, trivial, ?_⟩
      simp only [nEvalE, ← hi.lvs, hg, nGet, ival]
  | .add a b, s, s', v, h => by
    unfold evalE at h
    obtain ⟨x, s1, h1, h⟩ := bind_ok.mp h
    obtain ⟨y, s2, h2, h⟩ := bind_ok.mp h
    obtain ⟨sm1, kx, nx⟩ := evalE_val hi hv a h1
    obtain ⟨sm2, ky, ny⟩ := evalE_val hi hv b h2
    obtain ⟨rfl, kr, vr⟩ := addV_int_val kx ky h
    refine ⟨sm1.trans sm2, kr, ?_⟩
    rw [nEvalE, nx, ny, vr]; rfl
  | .sub a b, s, s', v, h => by
    unfold evalE at h
    obtain ⟨x, s1, h1, h⟩ := bind_ok.mp h
    obtain ⟨y, s2, h2, h⟩ := bind_ok.mp h
    obtain ⟨sm1, kx, nx⟩ := evalE_val hi hv a h1
    obtain ⟨sm2, ky, ny⟩ := evalE_val hi hv b h2
    obtain ⟨rfl, kr, vr⟩ := subV_int_val kx ky h
    refine ⟨sm1.trans sm2, kr, ?_⟩
    rw [nEvalE, nx, ny, vr]; rfl
  | .mul a b, s, s', v, h => by
    unfold evalE at h
    obtain ⟨x, s1, h1, h⟩ := bind_ok.mp h
    obtain ⟨y, s2, h2, h⟩ := bind_ok.mp h
    obtain ⟨sm1, kx, nx⟩ := evalE_val hi hv a h1
    obtain ⟨sm2, ky, ny⟩ := evalE_val hi hv b h2
    obtain ⟨sm3, kr, vr⟩ := mulV_int_val kx ky h
    refine ⟨(sm1.trans sm2).trans sm3, kr, ?_⟩
    rw [nEvalE, nx, ny, vr]; rfl

/-- a comparison evaluated while the guard is true is the native comparison -/
theorem evalC_live {env : BEnv} {nc : NCtx} {bv : BV} {E : NEnv} (hi : RefI env nc) (hv : RefV bv.vals E)
    {c : BCond} {s s' : St} {v : Val} (hl : Live s) (h : evalC env bv c s = .ok (v, s')) :
    Same s s' ∧ ∃ (b : Bool) (r : LinComb), nEvalC nc E c = .ok b ∧ v = .lcb r ∧ r.value = if b then 1 else 0 := by
  unfold evalC at h
  obtain ⟨x, s1, h1, h⟩ := bind_ok.mp h
  obtain ⟨y, s2, h2, h⟩ := bind_ok.mp h
  obtain ⟨sm1, kx, nx⟩ := evalE_val hi hv c.lhs h1
  obtain ⟨sm2, ky, ny⟩ := evalE_val hi hv c.rhs h2
  obtain ⟨sm3, r, rfl, vr⟩ := cmpV_int_live ((hl.same sm1).same sm2) kx ky h
  refine ⟨(sm1.trans sm2).trans sm3, cmpB c.op (ival x) (ival y), r, ?_, rfl, by rw [vr, cmpSem_cmpB]⟩
  rw [nEvalC, nx, ny]; rfl

/-- the same on whatever values the tracked variables hold: the result is a boolean and the guard
state is not touched -/
theorem evalC_live_any {env : BEnv} {nc : NCtx} {bv : BV} (hi : RefI env nc)
    {c : BCond} {s s' : St} {v : Val} (hl : Live s) (h : evalC env bv c s = .ok (v, s')) :
    Same s s' ∧ ∃ r, v = .lcb r ∧ (r.value = 0 ∨ r.value = 1) := by
  obtain ⟨sm, b, r, _, rfl, vr⟩ := evalC_live hi (Vals.refV_toNEnv bv.vals) hl h
  exact ⟨sm, r, rfl, by cases b <;> simp [vr]⟩

/-! ## the merges of `BranchContext.exit` on values -/
theorem valOf_cons (k : Nat) (o : Obj) (t : Vals) (x : Nat) :
    Vals.valOf ((k, o) :: t) x = if k = x then some o.v.value else Vals.valOf t x := by
  unfold Vals.valOf
  simp only [Vals.get?]
  by_cases hk : k = x <;> simp [hk]

theorem has_cons (k : Nat) (o : Obj) (t : Vals) (x : Nat) :
    Vals.has ((k, o) :: t) x = (decide (k = x) || Vals.has t x) := by
  unfold Vals.has
  simp only [Vals.get?]
  by_cases hk : k = x <;> simp [hk]

theorem valOf_eq_none {vs : Vals} {x : Nat} : vs.valOf x = none ↔ vs.has x = false := by
  unfold Vals.valOf Vals.has
  cases vs.get? x <;> simp

theorem valOf_some_has {vs : Vals} {x : Nat} {v : Int} (h : vs.valOf x = some v) : vs.has x = true := by
  unfold Vals.valOf at h; unfold Vals.has
  cases hg : vs.get? x <;> simp [hg] at h ⊢

theorem has_valOf {vs : Vals} {x : Nat} (h : vs.has x = true) : ∃ v, vs.valOf x = some v := by
  unfold Vals.valOf; unfold Vals.has at h
  cases hg : vs.get? x with
  | none => simp [hg] at h
  | some o => exact ⟨_, rfl⟩

theorem mergeBak_val {c : LinComb} {bak : Vals} : ∀ {vals rs : Vals} {n n' : Nat} {s s' : St},
    mergeBak c bak vals n s = .ok ((rs, n'), s') →
    Same s s' ∧ (∀ x, vals.has x = true → bak.has x = true) ∧
    ∀ x, rs.valOf x = (vals.valOf x).bind (fun t => (bak.valOf x).map (fun f => f + c.value * (t - f)))
  | [], rs, n, n', s, s', h => by
    unfold mergeBak at h
    obtain ⟨h1, rfl⟩ := pure_ok' h
    simp only [Prod.mk.injEq] at h1
    rw [← h1.1]
    exact ⟨Same.refl _, fun x hx => by simp [Vals.has, Vals.get?] at hx, fun x => rfl⟩
  | (y, t) :: rest, rs, n, n', s, s', h => by
    obtain ⟨f, r, n1, s1, rs', hf, hm, h3, rfl⟩ := mergeBak_cons_ok h
    obtain ⟨sm1, vr⟩ := mergeObj_val hm
    obtain ⟨sm2, hd, ih⟩ := mergeBak_val h3
    refine ⟨sm1.trans sm2, ?_, ?_⟩
    · intro x hx
      rw [has_cons] at hx
      by_cases hy : y = x
      · subst hy; unfold Vals.has; rw [hf]; rfl
      · simp only [hy, decide_false, Bool.false_or] at hx; exact hd x hx
    · intro x
      rw [valOf_cons, valOf_cons]
      by_cases hy : y = x
      · subst hy
        have : bak.valOf y = some f.v.value := by unfold Vals.valOf; rw [hf]; rfl
        simp [this, vr]
      · simp only [hy, if_false]; exact ih x

theorem mergeNodef_val {c : LinComb} {vals : Vals} : ∀ {nd rs : Vals} {n n' : Nat} {s s' : St},
    mergeNodef c vals nd n s = .ok ((rs, n'), s') →
    Same s s' ∧ (∀ x, nd.has x = true → vals.has x = true) ∧
    ∀ x, rs.valOf x = (nd.valOf x).bind (fun f => (vals.valOf x).map (fun t => f + c.value * (t - f)))
  | [], rs, n, n', s, s', h => by
    unfold mergeNodef at h
    obtain ⟨h1, rfl⟩ := pure_ok' h
    simp only [Prod.mk.injEq] at h1
    rw [← h1.1]
    exact ⟨Same.refl _, fun x hx => by simp [Vals.has, Vals.get?] at hx, fun x => rfl⟩
  | (y, o) :: rest, rs, n, n', s, s', h => by
    obtain ⟨t, r, n1, s1, rs', ht, hm, h3, rfl⟩ := mergeNodef_cons_ok h
    obtain ⟨sm1, vr⟩ := mergeObj_val hm
    obtain ⟨sm2, hd, ih⟩ := mergeNodef_val h3
    refine ⟨sm1.trans sm2, ?_, ?_⟩
    · intro x hx
      rw [has_cons] at hx
      by_cases hy : y = x
      · subst hy; unfold Vals.has; rw [ht]; rfl
      · simp only [hy, decide_false, Bool.false_or] at hx; exact hd x hx
    · intro x
      rw [valOf_cons, valOf_cons]
      by_cases hy : y = x
      · subst hy
        have : vals.valOf y = some t.v.value := by unfold Vals.valOf; rw [ht]; rfl
        simp [this, vr]
      · simp only [hy, if_false]; exact ih x

/-- the variables of an `if` in progress: those first bound inside it shadow nothing (disjoint) -/
def view (nd vals : Vals) (x : Nat) : Option Int :=
  match nd.valOf x with
  | some v => some v
  | none => vals.valOf x

def Disj (nd vals : Vals) : Prop := ∀ x, nd.has x = true → vals.has x = false

theorem valOf_filter_bak (vals bak : Vals) (x : Nat) :
    Vals.valOf (vals.filter (fun kv => !bak.has kv.1)) x = if bak.has x then none else vals.valOf x := by
  have := Vals.get?_filter (fun k => !Vals.has bak k) vals x
  unfold Vals.valOf
  rw [this]
  cases bak.has x <;> simp

theorem valOf_removeAll (vals nd : Vals) (x : Nat) :
    (vals.removeAll nd).valOf x = if nd.has x then none else vals.valOf x := by
  unfold Vals.valOf
  rw [Vals.get?_removeAll]
  cases nd.has x <;> simp

theorem valOf_setAll (vals nd : Vals) (x : Nat) : (vals.setAll nd).valOf x = view nd vals x := by
  unfold view Vals.valOf
  rw [Vals.get?_setAll]
  unfold Vals.has
  cases h : nd.get? x <;> simp

/-- leaving a segment whose condition is true: the variables are what the body left -/
theorem exit_live {ctx ctx' : BCtx} {bv bv' : BV} {s s' : St} (hc : ctx.cond.value = 1)
    (hlt : LiveT ctx.origguard) (h : ctx.exit bv s = .ok ((ctx', bv'), s')) :
    Live s' ∧ ∃ nd, ctx'.nodefvals = some nd ∧ (∀ x, view nd bv'.vals x = bv.vals.valOf x) ∧ Disj nd bv'.vals ∧
      (∀ nd0, ctx.nodefvals = some nd0 → ∀ x, nd.has x = nd0.has x) := by
  obtain ⟨s1, nd, n1, s2, vals, n2, hr, hnd, hb, rfl, rfl⟩ := exit_ok h
  have l1 := Live.of_restore hlt hr
  obtain ⟨smb, hbd, hbv⟩ := mergeBak_val hb
  -- the names first bound inside: same values as in the body's result
  have hndv : Same s1 s2 ∧ (∀ x, nd.has x = true → nd.valOf x = bv.vals.valOf x) ∧
      (∀ nd0, ctx.nodefvals = some nd0 → ∀ x, nd.has x = nd0.has x) := by
    rcases hnd with ⟨hn, rfl, _, rfl⟩ | ⟨nd0, hn, hm⟩
    · refine ⟨Same.refl _, ?_, fun nd0 h0 => by rw [hn] at h0; cases h0⟩
      intro x hx
      rw [valOf_filter_bak]
      rw [has_filter_bak] at hx
      cases hb' : ctx.bak.has x <;> simp [hb'] at hx ⊢
    · obtain ⟨smn, hnd', hnv⟩ := mergeNodef_val hm
      refine ⟨smn, ?_, fun nd1 h1 x => by rw [hn] at h1; cases h1; exact mergeNodef_has hm x⟩
      intro x hx
      rw [mergeNodef_has hm x] at hx
      obtain ⟨t, ht⟩ := has_valOf (hnd' x hx)
      obtain ⟨f, hf⟩ := has_valOf hx
      rw [hnv x, hf, ht]
      simp [hc]
  obtain ⟨smn, hndv, hkeys⟩ := hndv
  refine ⟨(l1.same smn).same smb, nd, rfl, ?_, ?_, hkeys⟩
  · intro x
    unfold view
    cases hx : nd.has x with
    | true =>
      obtain ⟨v, hv⟩ := has_valOf hx
      rw [hv, ← hndv x hx, hv]
    | false =>
      rw [valOf_eq_none.mpr hx]
      simp only
      rw [hbv x, valOf_removeAll, hx]
      simp only [Bool.false_eq_true, if_false]
      cases ht : bv.vals.valOf x with
      | none => rfl
      | some t =>
        have : (bv.vals.removeAll nd).has x = true := by rw [has_removeAll, valOf_some_has ht, hx]; rfl
        obtain ⟨f, hf⟩ := has_valOf (hbd x this)
        simp [hf, hc]
  · intro x hx
    rw [mergeBak_has hb x, has_removeAll, hx]; simp

/-- leaving a segment whose condition is false: the variables are what they were when it was entered -/
theorem exit_dead {ctx ctx' : BCtx} {bv bv' : BV} {s s' : St} (hc : ctx.cond.value = 0)
    (hlt : LiveT ctx.origguard) (hmono : ∀ x, ctx.bak.has x = true → bv.vals.has x = true)
    (hdisj : ∀ nd0, ctx.nodefvals = some nd0 → Disj nd0 ctx.bak)
    (h : ctx.exit bv s = .ok ((ctx', bv'), s')) :
    Live s' ∧ ∃ nd, ctx'.nodefvals = some nd ∧ (∀ x, bv'.vals.valOf x = ctx.bak.valOf x) ∧ Disj nd bv'.vals ∧
      (∀ nd0, ctx.nodefvals = some nd0 → ∀ x, nd.valOf x = nd0.valOf x) := by
  obtain ⟨s1, nd, n1, s2, vals, n2, hr, hnd, hb, rfl, rfl⟩ := exit_ok h
  have l1 := Live.of_restore hlt hr
  obtain ⟨smb, hbd, hbv⟩ := mergeBak_val hb
  have hndv : Same s1 s2 ∧ (∀ x, ctx.bak.has x = true → nd.has x = false) ∧
      (∀ nd0, ctx.nodefvals = some nd0 → ∀ x, nd.valOf x = nd0.valOf x) := by
    rcases hnd with ⟨hn, rfl, _, rfl⟩ | ⟨nd0, hn, hm⟩
    · refine ⟨Same.refl _, ?_, fun nd0 h0 => by rw [hn] at h0; cases h0⟩
      intro x hx
      rw [has_filter_bak, hx]; simp
    · obtain ⟨smn, hnd', hnv⟩ := mergeNodef_val hm
      refine ⟨smn, ?_, ?_⟩
      · intro x hx
        rw [mergeNodef_has hm x]
        cases hh : nd0.has x with
        | false => rfl
        | true => have := hdisj nd0 hn x hh; rw [hx] at this; cases this
      · intro nd1 h1 x
        rw [hn] at h1; cases h1
        rw [hnv x]
        cases hf : nd0.valOf x with
        | none => rfl
        | some f =>
          obtain ⟨t, ht⟩ := has_valOf (hnd' x (valOf_some_has hf))
          simp [ht, hc]
  obtain ⟨smn, hbn, hnv⟩ := hndv
  refine ⟨(l1.same smn).same smb, nd, rfl, ?_, ?_, hnv⟩
  · intro x
    rw [hbv x, valOf_removeAll]
    cases hbx : ctx.bak.has x with
    | true =>
      rw [hbn x hbx]
      simp only [Bool.false_eq_true, if_false]
      obtain ⟨t, ht⟩ := has_valOf (hmono x hbx)
      obtain ⟨f, hf⟩ := has_valOf hbx
      simp [ht, hf, hc]
    | false =>
      rw [valOf_eq_none.mpr hbx]
      cases hnx : nd.has x with
      | true => simp
      | false =>
        simp only [Bool.false_eq_true, if_false]
        cases ht : bv.vals.valOf x with
        | none => rfl
        | some t =>
          have : (bv.vals.removeAll nd).has x = true := by rw [has_removeAll, valOf_some_has ht, hnx]; rfl
          have := hbd x this
          rw [hbx] at this; cases this
  · intro x hx
    rw [mergeBak_has hb x, has_removeAll, hx]; simp

end Pysnark
