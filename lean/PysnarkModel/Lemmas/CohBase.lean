import PysnarkModel.Lemmas.InvGadgets
/-!
# Coherence in EVERY mode (C04 with user-selected ignore-errors mode): foundations

`Inv` ties error suppression to a false guard, which is false once the user has executed
`ignore_errors(True)`; and in that mode constraints may be unsatisfied by design.  Coherence
(value ≡ wire expression on the recorded witness) does not depend on either: every result of the
library is a fresh wire (coherent by construction), a linear combination of coherent operands, or
`LinComb.ONE`/the guard.  The weak invariant `Wk` (Spec/R1CS.lean) says just that the last two are
coherent.  The lemmas of this file and of `CohGadgets`/`CohVal`/`CohRun` have the shape of the `Inv`
lemmas (`s.le s' ∧ Frame s s' ∧ Wk s' ∧ Good s' r`) and live in the namespace `Pysnark.W` under
the same names, so that the compositional proofs of `InvVal`/`InvRun` carry over verbatim.
-/
namespace Pysnark

theorem Wk.mono {s s' : St} (h : Wk s) (hle : s.le s') (hf : Frame s s') : Wk s' :=
  ⟨hf.one ▸ h.one.mono hle, fun g hg => (h.guard g (hf.guard ▸ hg)).mono hle⟩

theorem Inv.wk {s : St} (h : Inv s) : Wk s := ⟨h.oneGood, fun g hg => (h.guardGood g hg).1⟩

theorem BakWk.mono {s s' : St} {b : GuardBak} (h : BakWk s b) (hle : s.le s') : BakWk s' b :=
  ⟨h.one.mono hle, fun g hg => (h.guard g hg).mono hle⟩

theorem Wk.bakWk {s : St} (h : Wk s) : BakWk s ⟨s.guard, s.ignoreErrors, s.one⟩ := ⟨h.one, h.guard⟩

namespace W

/-! ## primitives -/
theorem privVal_spec {s s' : St} {v : Int} {r : LinComb} (hinv : Wk s) (h : privVal v s = .ok (r, s')) :
    s.le s' ∧ Frame s s' ∧ Wk s' ∧ Good s' r ∧ r.value = v := by
  unfold privVal at h
  simp only [Except.ok.injEq, Prod.mk.injEq] at h
  obtain ⟨rfl, rfl⟩ := h
  have hle : s.le { s with priv := s.priv ++ [v] } :=
    ⟨List.prefix_refl _, List.prefix_append _ _, List.prefix_refl _, rfl⟩
  have hf : Frame s { s with priv := s.priv ++ [v] } := ⟨rfl, rfl, rfl, rfl, rfl⟩
  refine ⟨hle, hf, hinv.mono hle hf, ⟨⟨LC.WF_single _ _, ?_⟩, ?_⟩, rfl⟩
  · intro k hk; simp [LC.keys] at hk; subst hk; simp [Wire.allocated]
  · simp [Coh, LC.eval, St.assign, List.getD_eq_getElem?_getD]

theorem pubVal_spec {s s' : St} {v : Int} {r : LinComb} (hinv : Wk s) (h : pubVal v s = .ok (r, s')) :
    s.le s' ∧ Frame s s' ∧ Wk s' ∧ Good s' r ∧ r.value = v := by
  unfold pubVal at h
  simp only [Except.ok.injEq, Prod.mk.injEq] at h
  obtain ⟨rfl, rfl⟩ := h
  have hle : s.le { s with pub := s.pub ++ [v] } :=
    ⟨List.prefix_append _ _, List.prefix_refl _, List.prefix_refl _, rfl⟩
  have hf : Frame s { s with pub := s.pub ++ [v] } := ⟨rfl, rfl, rfl, rfl, rfl⟩
  refine ⟨hle, hf, hinv.mono hle hf, ⟨⟨LC.WF_single _ _, ?_⟩, ?_⟩, rfl⟩
  · intro k hk; simp [LC.keys] at hk; subst hk; simp [Wire.allocated]
  · simp [Coh, LC.eval, St.assign, List.getD_eq_getElem?_getD]

/-- `add_constraint_unsafe` records a constraint; nothing else changes -/
theorem addConstraintUnsafe_spec {s s' : St} {v w y : LinComb} {u : Unit} (hinv : Wk s)
    (h : addConstraintUnsafe v w y s = .ok (u, s')) : s.le s' ∧ Frame s s' ∧ Wk s' := by
  unfold addConstraintUnsafe at h
  simp only [Except.ok.injEq, Prod.mk.injEq] at h
  obtain ⟨-, rfl⟩ := h
  have hle : s.le { s with cons := s.cons ++ [(v.lc, w.lc, y.lc)] } :=
    ⟨List.prefix_refl _, List.prefix_refl _, List.prefix_append _ _, rfl⟩
  exact ⟨hle, ⟨rfl, rfl, rfl, rfl, rfl⟩, hinv.mono hle ⟨rfl, rfl, rfl, rfl, rfl⟩⟩

/-- `__mul__` of two `LinComb`s: the product is a fresh wire -/
theorem mulLL_spec {s s' : St} {a b r : LinComb} (hinv : Wk s) (_ha : Good s a) (_hb : Good s b)
    (h : mulLL a b s = .ok (r, s')) :
    s.le s' ∧ Frame s s' ∧ Wk s' ∧ Good s' r ∧ r.value = a.value * b.value := by
  unfold mulLL at h
  obtain ⟨r1, s1, h1, h2⟩ := bind_ok.mp h
  obtain ⟨u, s2, h3, h4⟩ := bind_ok.mp h2
  obtain ⟨hr, hs⟩ := pure_ok.mp h4
  subst hr; subst hs
  obtain ⟨le1, f1, inv1, g1, v1⟩ := privVal_spec hinv h1
  obtain ⟨le2, f2, inv2⟩ := addConstraintUnsafe_spec inv1 h3
  exact ⟨le1.trans le2, f1.trans f2, inv2, g1.mono le2, v1⟩

/-- `add_constraint(v, w, y, check)` when it returns (guarded: one fresh wire and two constraints;
unguarded: one constraint) -/
theorem addConstraint_spec {s s' : St} {v w y : LinComb} {check : Bool} {u : Unit} (hinv : Wk s)
    (h : addConstraint v w y check s = .ok (u, s')) : s.le s' ∧ Frame s s' ∧ Wk s' := by
  unfold addConstraint at h
  cases hg : s.guard with
  | none =>
    simp only [hg] at h
    split at h
    · cases h
    · exact addConstraintUnsafe_spec hinv h
  | some g =>
    simp only [hg] at h
    obtain ⟨dummy, s1, h1, h2⟩ := bind_ok.mp h
    obtain ⟨u1, s2, h3, h4⟩ := bind_ok.mp h2
    obtain ⟨le1, f1, inv1, -, -⟩ := privVal_spec hinv h1
    obtain ⟨le2, f2, inv2⟩ := addConstraintUnsafe_spec inv1 h3
    obtain ⟨le3, f3, inv3⟩ := addConstraintUnsafe_spec inv2 h4
    exact ⟨(le1.trans le2).trans le3, (f1.trans f2).trans f3, inv3⟩

/-- `LinCombBool(x, constrain)` -/
theorem mkBool_spec {s s' : St} {x r : LinComb} {constrain : Bool} (hinv : Wk s) (_hx : Good s x)
    (h : mkBool x constrain s = .ok (r, s')) :
    s.le s' ∧ Frame s s' ∧ Wk s' ∧ r = x ∧ (x.value = 0 ∨ x.value = 1) := by
  unfold mkBool at h
  split at h
  · cases h
  · rename_i hb
    have hbv : x.value = 0 ∨ x.value = 1 := by
      simp only [isBooleanValue, Bool.not_eq_true, Bool.not_eq_false', Bool.or_eq_true, beq_iff_eq] at hb
      simpa using hb
    split at h
    · obtain ⟨u, s1, h1, h2⟩ := bind_ok.mp h
      obtain ⟨hr, hs⟩ := pure_ok.mp h2
      subst hr; subst hs
      obtain ⟨le1, f1, inv1⟩ := addConstraint_spec hinv h1
      exact ⟨le1, f1, inv1, rfl, hbv⟩
    · simp only [Except.ok.injEq, Prod.mk.injEq] at h
      obtain ⟨rfl, rfl⟩ := h
      exact ⟨St.le.refl _, Frame.refl _, hinv, rfl, hbv⟩

theorem privValBool_spec {s s' : St} {v : Int} {r : LinComb} (hinv : Wk s)
    (h : privValBool v s = .ok (r, s')) :
    s.le s' ∧ Frame s s' ∧ Wk s' ∧ Good s' r ∧ r.value = v ∧ (v = 0 ∨ v = 1) := by
  unfold privValBool at h
  split at h
  · cases h
  · obtain ⟨x, s1, h1, h2⟩ := bind_ok.mp h
    obtain ⟨le1, f1, inv1, g1, v1⟩ := privVal_spec hinv h1
    obtain ⟨le2, f2, inv2, rfl, hb⟩ := mkBool_spec inv1 g1 h2
    exact ⟨le1.trans le2, f1.trans f2, inv2, g1.mono le2, v1, v1 ▸ hb⟩

end W
end Pysnark
