import PysnarkModel.Spec.Sound
import PysnarkModel.Lemmas.Monad
import PysnarkModel.Lemmas.LC
/-!
# Emission lemmas (C02/C03, layer 1)

For every gadget run without a guard: exactly which constraints and which private wires a
successful run appends, and the wire expression of the result, in closed form in terms of the
fresh wires `Wire.priv (s.priv.length + k)`.  No field algebra here.
-/
namespace Pysnark

/-! ## state extension in closed form -/

/-- `s` with private hints `hs` and constraints `cs` appended; nothing else changes -/
def St.ext (s : St) (hs : List Int) (cs : List Constraint) : St :=
  { s with priv := s.priv ++ hs, cons := s.cons ++ cs }

namespace St
variable (s : St) (hs hs' : List Int) (cs cs' : List Constraint)
@[simp] theorem ext_guard : (s.ext hs cs).guard = s.guard := rfl
@[simp] theorem ext_ign : (s.ext hs cs).ignoreErrors = s.ignoreErrors := rfl
@[simp] theorem ext_one : (s.ext hs cs).one = s.one := rfl
@[simp] theorem ext_bl : (s.ext hs cs).bitlength = s.bitlength := rfl
@[simp] theorem ext_res : (s.ext hs cs).resolution = s.resolution := rfl
@[simp] theorem ext_p : (s.ext hs cs).p = s.p := rfl
@[simp] theorem ext_pub : (s.ext hs cs).pub = s.pub := rfl
@[simp] theorem ext_priv : (s.ext hs cs).priv = s.priv ++ hs := rfl
@[simp] theorem ext_cons : (s.ext hs cs).cons = s.cons ++ cs := rfl
@[simp] theorem ext_nil : s.ext [] [] = s := by simp [ext]
@[simp] theorem ext_ext : (s.ext hs cs).ext hs' cs' = s.ext (hs ++ hs') (cs ++ cs') := by
  simp [ext, List.append_assoc]
theorem ext_isGuard (h : s.guard = none) : (s.ext hs cs).isGuard = true := by
  simp [St.isGuard, h]
end St

theorem isGuard_none {s : St} (h : s.guard = none) : s.isGuard = true := by simp [St.isGuard, h]

/-- the constraints added by an extension are exactly the appended ones -/
@[simp] theorem newCons_ext (s : St) (hs : List Int) (cs : List Constraint) :
    newCons s (s.ext hs cs) = cs := by simp [newCons]

theorem NewSat_ext {s : St} {hs : List Int} {cs : List Constraint} {w : Wire → Int} :
    NewSat s (s.ext hs cs) w ↔ ∀ c ∈ cs, Sat s.p w c := by simp [NewSat]

/-- the fresh private wire number `k` carrying hint `v` -/
def fw (k : Nat) (v : Int) : LinComb := ⟨v, [(Wire.priv k, 1)]⟩

@[simp] theorem fw_value (k : Nat) (v : Int) : (fw k v).value = v := rfl
@[simp] theorem fw_lc (k : Nat) (v : Int) : (fw k v).lc = [(Wire.priv k, 1)] := rfl

/-- booleanity constraint `x * (1 - x) = 0` as `LinCombBool.__init__` emits it -/
def boolC (x : LinComb) : Constraint := (x.lc, (x.rsubI 1).lc, LC.zero)

/-- closed form of `1 - x` for a fresh wire -/
theorem rsubI_fw (k : Nat) (v : Int) :
    ((fw k v).rsubI 1).lc = [(Wire.priv k, -1), (Wire.one, 1)] := by
  simp [fw, LinComb.rsubI, LinComb.addI, LinComb.add, LinComb.neg, LinComb.const, LC.neg, LC.scale,
    LC.add, LC.one, LC.get?]

/-- the booleanity constraint of a fresh wire, fully explicit -/
theorem boolC_fw (k : Nat) (v : Int) :
    boolC (fw k v) = ([(Wire.priv k, 1)], [(Wire.priv k, -1), (Wire.one, 1)], []) := by
  simp [boolC, rsubI_fw, LC.zero]

/-- the wires `PrivValBool` allocates for a list of hints, starting at private index `k` -/
def bitWires : Nat → List Int → List LinComb
  | _, [] => []
  | k, v :: vs => fw k v :: bitWires (k+1) vs

/-- their booleanity constraints -/
def bitCons (k : Nat) (vs : List Int) : List Constraint := (bitWires k vs).map boolC

@[simp] theorem bitWires_length : ∀ (k : Nat) (vs : List Int), (bitWires k vs).length = vs.length
  | _, [] => rfl
  | k, _ :: vs => by simp [bitWires, bitWires_length (k+1) vs]

theorem bitWires_get : ∀ (k : Nat) (vs : List Int) (i : Nat) (h : i < vs.length),
    (bitWires k vs)[i]'(by simpa using h) = fw (k + i) vs[i]
  | _, [], _, h => by simp at h
  | k, v :: vs, 0, _ => by simp [bitWires]
  | k, v :: vs, i+1, h => by
    simp only [bitWires, List.getElem_cons_succ]
    rw [bitWires_get (k+1) vs i (by simpa using h)]
    congr 1; omega

theorem bitWires_lc_mem {k : Nat} {vs : List Int} {b : LinComb} (h : b ∈ bitWires k vs) :
    ∃ i v, i < vs.length ∧ b = fw (k + i) v := by
  obtain ⟨i, hi, rfl⟩ := List.mem_iff_getElem.mp h
  have hi' : i < vs.length := by simpa using hi
  exact ⟨i, vs[i], hi', bitWires_get k vs i hi'⟩

/-! ## primitives -/

theorem privVal_emit (v : Int) (s : St) :
    privVal v s = .ok (fw s.priv.length v, s.ext [v] []) := by
  simp [privVal, St.ext, fw]

theorem privVal_ok {v : Int} {s s' : St} {r : LinComb} (h : privVal v s = .ok (r, s')) :
    r = fw s.priv.length v ∧ s' = s.ext [v] [] := by
  rw [privVal_emit] at h
  simp only [Except.ok.injEq, Prod.mk.injEq] at h
  exact ⟨h.1.symm, h.2.symm⟩

theorem pubVal_ok {v : Int} {s s' : St} {r : LinComb} (h : pubVal v s = .ok (r, s')) :
    r = ⟨v, [(Wire.pub s.pub.length, 1)]⟩ ∧ s' = { s with pub := s.pub ++ [v] } ∧
    newCons s s' = [] := by
  unfold pubVal at h
  simp only [Except.ok.injEq, Prod.mk.injEq] at h
  obtain ⟨rfl, rfl⟩ := h
  exact ⟨rfl, rfl, by simp [newCons]⟩

theorem addConstraintUnsafe_emit (v w y : LinComb) (s : St) :
    addConstraintUnsafe v w y s = .ok ((), s.ext [] [(v.lc, w.lc, y.lc)]) := by
  simp [addConstraintUnsafe, St.ext]

theorem addConstraintUnsafe_ok {v w y : LinComb} {s s' : St} {u : Unit}
    (h : addConstraintUnsafe v w y s = .ok (u, s')) : s' = s.ext [] [(v.lc, w.lc, y.lc)] := by
  rw [addConstraintUnsafe_emit] at h
  simp only [Except.ok.injEq, Prod.mk.injEq] at h
  exact h.2.symm

/-- without a guard `add_constraint` either raises or is `add_constraint_unsafe` -/
theorem addConstraint_none {v w y : LinComb} {check : Bool} {s : St} (hg : s.guard = none) :
    addConstraint v w y check s = .error .assertion ∨
    addConstraint v w y check s = addConstraintUnsafe v w y s := by
  unfold addConstraint
  simp only [hg]
  split
  · exact Or.inl rfl
  · exact Or.inr rfl

theorem addConstraint_ok {v w y : LinComb} {check : Bool} {s s' : St} {u : Unit}
    (hg : s.guard = none) (h : addConstraint v w y check s = .ok (u, s')) :
    s' = s.ext [] [(v.lc, w.lc, y.lc)] := by
  rcases addConstraint_none (v := v) (w := w) (y := y) (check := check) hg with e | e
  · rw [e] at h; cases h
  · rw [e] at h; exact addConstraintUnsafe_ok h


/-! ## booleans -/

theorem mkBool_true_ok {x r : LinComb} {s s' : St} (hg : s.guard = none)
    (h : mkBool x true s = .ok (r, s')) : r = x ∧ s' = s.ext [] [boolC x] := by
  unfold mkBool at h
  split at h
  · cases h
  · simp only [if_true] at h
    obtain ⟨u, s1, h1, h2⟩ := bind_ok.mp h
    obtain ⟨rfl, rfl⟩ := pure_ok.mp h2
    exact ⟨rfl, addConstraint_ok hg h1⟩

theorem mkBool_false_ok {x r : LinComb} {s s' : St}
    (h : mkBool x false s = .ok (r, s')) : r = x ∧ s' = s := by
  unfold mkBool at h
  split at h
  · cases h
  · simp only [Bool.false_eq_true, if_false, Except.ok.injEq, Prod.mk.injEq] at h
    exact ⟨h.1.symm, h.2.symm⟩

theorem privValBool_ok {v : Int} {r : LinComb} {s s' : St} (hg : s.guard = none)
    (h : privValBool v s = .ok (r, s')) :
    r = fw s.priv.length v ∧ s' = s.ext [v] [boolC (fw s.priv.length v)] := by
  unfold privValBool at h
  split at h
  · cases h
  · obtain ⟨x, s1, h1, h2⟩ := bind_ok.mp h
    obtain ⟨rfl, rfl⟩ := privVal_ok h1
    obtain ⟨rfl, rfl⟩ := mkBool_true_ok (by simpa using hg) h2
    exact ⟨rfl, by simp⟩

theorem mapM_privValBool_ok : ∀ (vs : List Int) {s s' : St} {bs : List LinComb}, s.guard = none →
    mapM' privValBool vs s = .ok (bs, s') →
    bs = bitWires s.priv.length vs ∧ s' = s.ext vs (bitCons s.priv.length vs)
  | [], s, s', bs, _, h => by
    unfold mapM' at h
    obtain ⟨rfl, rfl⟩ := pure_ok.mp h
    simp [bitWires, bitCons]
  | v :: vs, s, s', bs, hg, h => by
    unfold mapM' at h
    obtain ⟨y, s1, h1, h2⟩ := bind_ok.mp h
    obtain ⟨ys, s2, h3, h4⟩ := bind_ok.mp h2
    obtain ⟨rfl, rfl⟩ := pure_ok.mp h4
    obtain ⟨rfl, rfl⟩ := privValBool_ok hg h1
    obtain ⟨rfl, rfl⟩ := mapM_privValBool_ok vs (by simpa using hg) h3
    simp [bitWires, bitCons]

/-! ## assertions and bit decomposition -/

theorem assertZero_ok {x : LinComb} {s s' : St} {u : Unit} (hg : s.guard = none)
    (h : assertZero x s = .ok (u, s')) : s' = s.ext [] [(LC.zero, LC.zero, x.lc)] := by
  unfold assertZero at h
  split at h
  · cases h
  · exact addConstraint_ok hg h

/-- what `to_bits` appends: booleanity of the bit wires and `x - Σ bitᵢ 2ⁱ = 0` -/
def toBitsCons (k : Nat) (x : LinComb) (vs : List Int) : List Constraint :=
  bitCons k vs ++ [(LC.zero, LC.zero, (x.subFB (fromBits (bitWires k vs))).lc)]

theorem bitsOf_length (v : Int) (n : Nat) : (Py.bitsOf v n).length = n := by simp [Py.bitsOf]

theorem toBits_ok {x : LinComb} {bits : Option Nat} {bs : List LinComb} {s s' : St}
    (hg : s.guard = none) (h : toBits x bits s = .ok (bs, s')) :
    ∃ vs : List Int, vs.length = bits.getD s.bitlength ∧
      bs = bitWires s.priv.length vs ∧ s' = s.ext vs (toBitsCons s.priv.length x vs) := by
  unfold toBits at h
  simp only at h
  split at h
  · cases h
  · obtain ⟨bs1, s1, h1, h2⟩ := bind_ok.mp h
    obtain ⟨u, s2, h3, h4⟩ := bind_ok.mp h2
    obtain ⟨rfl, rfl⟩ := pure_ok.mp h4
    obtain ⟨rfl, rfl⟩ := mapM_privValBool_ok _ hg h1
    have := assertZero_ok (by simpa using hg) h3
    subst this
    exact ⟨_, bitsOf_length _ _, rfl, by simp [toBitsCons]⟩

theorem assertPositive_ok {x : LinComb} {bits : Option Nat} {s s' : St} {u : Unit}
    (hg : s.guard = none) (h : assertPositive x bits s = .ok (u, s')) :
    ∃ vs : List Int, vs.length = bits.getD s.bitlength ∧
      s' = s.ext vs (toBitsCons s.priv.length x vs) := by
  unfold assertPositive at h
  simp only at h
  split at h
  · cases h
  · obtain ⟨bs1, s1, h1, h2⟩ := bind_ok.mp h
    obtain ⟨-, rfl⟩ := pure_ok.mp h2
    obtain ⟨vs, hl, -, rfl⟩ := toBits_ok hg h1
    exact ⟨vs, by simpa using hl, rfl⟩

/-! ## `check_positive` -/

theorem checkPositiveHint_len {s : St} {v : Int} {n : Nat} {rv : Int} {vs : List Int}
    (h : checkPositiveHint s v n = .ok (rv, vs)) : vs.length = n := by
  unfold checkPositiveHint at h
  split at h
  · simp only [Except.ok.injEq, Prod.mk.injEq] at h
    rw [← h.2]; exact bitsOf_length _ _
  · split at h
    · simp only [Except.ok.injEq, Prod.mk.injEq] at h
      rw [← h.2]; simp
    · cases h

/-- what `check_positive` appends: booleanity of the result wire `k` and of the bit wires
`k+1 …`, and `2·r·x = x + Σ bitᵢ 2ⁱ + (1 - r)` -/
def cpCons (k : Nat) (x : LinComb) (rv : Int) (vs : List Int) : List Constraint :=
  boolC (fw k rv) :: bitCons (k+1) vs ++
    [(((fw k rv).mulI 2).lc, x.lc,
      ((x.addFB (fromBits (bitWires (k+1) vs))).add ((fw k rv).rsubI 1)).lc)]

theorem checkPositive_ok {x : LinComb} {bits : Option Nat} {r : LinComb} {s s' : St}
    (hg : s.guard = none) (h : checkPositive x bits s = .ok (r, s')) :
    ∃ (rv : Int) (vs : List Int), vs.length = bits.getD s.bitlength ∧
      r = fw s.priv.length rv ∧ s' = s.ext (rv :: vs) (cpCons s.priv.length x rv vs) := by
  unfold checkPositive at h
  obtain ⟨s0, s1, h1, h2⟩ := bind_ok.mp h
  obtain ⟨rfl, rfl⟩ := getSt_ok.mp h1
  obtain ⟨⟨rv, vs⟩, s1, h3, h4⟩ := bind_ok.mp h2
  obtain ⟨h3, rfl⟩ := liftE_ok.mp h3
  simp only at h4
  obtain ⟨ret, s2, h5, h6⟩ := bind_ok.mp h4
  obtain ⟨bs, s3, h7, h8⟩ := bind_ok.mp h6
  obtain ⟨u, s4, h9, h10⟩ := bind_ok.mp h8
  obtain ⟨rfl, rfl⟩ := pure_ok.mp h10
  obtain ⟨rfl, rfl⟩ := privValBool_ok hg h5
  obtain ⟨rfl, rfl⟩ := mapM_privValBool_ok _ (by simpa using hg) h7
  have := addConstraint_ok (by simpa using hg) h9
  subst this
  exact ⟨rv, vs, checkPositiveHint_len h3, rfl, by simp [cpCons]⟩

/-! ## zero tests -/

theorem fieldInverse_okE {x y : Int} {s s' : St} (h : fieldInverse x s = .ok (y, s')) : s' = s := by
  unfold fieldInverse at h
  split at h
  · simp only [Except.ok.injEq, Prod.mk.injEq] at h; exact h.2.symm
  · cases h

/-- what `check_zero` appends (`k` result wire, `k+1` inverse witness): `x·wit = 1 - r`, `x·r = 0` -/
def czCons (k : Nat) (x : LinComb) (rv : Int) : List Constraint :=
  [(x.lc, [(Wire.priv (k+1), 1)], (oneSafe.sub (fw k rv)).lc), (x.lc, [(Wire.priv k, 1)], LC.zero)]

theorem checkZero_ok {x r : LinComb} {s s' : St} (h : checkZero x s = .ok (r, s')) :
    ∃ rv wv : Int, r = fw s.priv.length rv ∧ s' = s.ext [rv, wv] (czCons s.priv.length x rv) := by
  unfold checkZero at h
  obtain ⟨ret, s1, h1, h2⟩ := bind_ok.mp h
  obtain ⟨w, s2, h3, h4⟩ := bind_ok.mp h2
  obtain ⟨wit, s3, h5, h6⟩ := bind_ok.mp h4
  obtain ⟨u1, s4, h7, h8⟩ := bind_ok.mp h6
  obtain ⟨u2, s5, h9, h10⟩ := bind_ok.mp h8
  obtain ⟨rfl, rfl⟩ := privVal_ok h1
  have := fieldInverse_okE h3; subst this
  obtain ⟨rfl, rfl⟩ := privVal_ok h5
  have := addConstraintUnsafe_ok h7; subst this
  have := addConstraintUnsafe_ok h9; subst this
  obtain ⟨rfl, rfl⟩ := mkBool_false_ok h10
  exact ⟨_, w, rfl, by simp [czCons, LinComb.zero]⟩

theorem boolNot_ok {b r : LinComb} {s s' : St} (h : boolNot b s = .ok (r, s')) :
    r = b.rsubI 1 ∧ s' = s := mkBool_false_ok h

theorem checkNonzero_ok {x r : LinComb} {s s' : St} (h : checkNonzero x s = .ok (r, s')) :
    ∃ rv wv : Int, r = (fw s.priv.length rv).rsubI 1 ∧
      s' = s.ext [rv, wv] (czCons s.priv.length x rv) := by
  unfold checkNonzero at h
  obtain ⟨z, s1, h1, h2⟩ := bind_ok.mp h
  obtain ⟨rv, wv, rfl, rfl⟩ := checkZero_ok h1
  obtain ⟨rfl, rfl⟩ := boolNot_ok h2
  exact ⟨rv, wv, rfl, rfl⟩

theorem assertNonzero_ok {x : LinComb} {s s' : St} {u : Unit} (hg : s.guard = none)
    (h : assertNonzero x s = .ok (u, s')) :
    ∃ wv : Int, s' = s.ext [wv] [(x.lc, [(Wire.priv s.priv.length, 1)], s.one.lc)] := by
  unfold assertNonzero at h
  obtain ⟨s0, s1, h1, h2⟩ := bind_ok.mp h
  obtain ⟨rfl, rfl⟩ := getSt_ok.mp h1
  obtain ⟨wv, s1, h3, h4⟩ := bind_ok.mp h2
  obtain ⟨-, rfl⟩ := liftE_ok.mp h3
  obtain ⟨wit, s2, h5, h6⟩ := bind_ok.mp h4
  obtain ⟨rfl, rfl⟩ := privVal_ok h5
  have := addConstraint_ok (by simpa using hg) h6
  subst this
  exact ⟨wv, by simp⟩

/-! ## arithmetic -/

theorem mulLL_ok {a b r : LinComb} {s s' : St} (h : mulLL a b s = .ok (r, s')) :
    r = fw s.priv.length (a.value * b.value) ∧
    s' = s.ext [a.value * b.value] [(a.lc, b.lc, [(Wire.priv s.priv.length, 1)])] := by
  unfold mulLL at h
  obtain ⟨r1, s1, h1, h2⟩ := bind_ok.mp h
  obtain ⟨u, s2, h3, h4⟩ := bind_ok.mp h2
  obtain ⟨rfl, rfl⟩ := pure_ok.mp h4
  obtain ⟨rfl, rfl⟩ := privVal_ok h1
  have := addConstraintUnsafe_ok h3; subst this
  exact ⟨rfl, by simp⟩

theorem mulBB_ok {x y r : LinComb} {s s' : St} (h : mulBB x y s = .ok (r, s')) :
    r = fw s.priv.length (y.value * x.value) ∧
    s' = s.ext [y.value * x.value] [(y.lc, x.lc, [(Wire.priv s.priv.length, 1)])] := mulLL_ok h

theorem truedivLL_ok {a b r : LinComb} {s s' : St} (hg : s.guard = none)
    (h : truedivLL a b s = .ok (r, s')) :
    ∃ q : Int, r = fw s.priv.length q ∧
      s' = s.ext [q] [(b.lc, [(Wire.priv s.priv.length, 1)], a.lc)] := by
  unfold truedivLL at h
  obtain ⟨s0, s1, h1, h2⟩ := bind_ok.mp h
  obtain ⟨rfl, rfl⟩ := getSt_ok.mp h1
  obtain ⟨q, s1, h3, h4⟩ := bind_ok.mp h2
  obtain ⟨-, rfl⟩ := liftE_ok.mp h3
  obtain ⟨res, s2, h5, h6⟩ := bind_ok.mp h4
  obtain ⟨u, s3, h7, h8⟩ := bind_ok.mp h6
  obtain ⟨rfl, rfl⟩ := pure_ok.mp h8
  obtain ⟨rfl, rfl⟩ := privVal_ok h5
  have := addConstraint_ok (by simpa using hg) h7
  subst this
  exact ⟨q, rfl, by simp⟩

theorem iteLLL_ok {c t f r : LinComb} {s s' : St} (h : iteLLL c t f s = .ok (r, s')) :
    r = f.add (fw s.priv.length (c.value * (t.sub f).value)) ∧
    s' = s.ext [c.value * (t.sub f).value]
      [(c.lc, (t.sub f).lc, [(Wire.priv s.priv.length, 1)])] := by
  unfold iteLLL at h
  obtain ⟨pr, s1, h1, h2⟩ := bind_ok.mp h
  obtain ⟨rfl, rfl⟩ := pure_ok.mp h2
  obtain ⟨rfl, rfl⟩ := mulLL_ok h1
  exact ⟨rfl, rfl⟩


/-! ## comparisons (typed `LinComb × LinComb` and `LinComb × int`) -/
section comparisons
variable {a b r : LinComb} {c : Int} {s s' : St}

/-- shape of the emission of a comparison that reduces to `check_positive` of `x` -/
def CPEmit (s s' : St) (x r : LinComb) : Prop :=
  ∃ (rv : Int) (vs : List Int), vs.length = s.bitlength ∧
    r = fw s.priv.length rv ∧ s' = s.ext (rv :: vs) (cpCons s.priv.length x rv vs)

theorem checkPositive_none_ok {x : LinComb} (hg : s.guard = none)
    (h : checkPositive x none s = .ok (r, s')) : CPEmit s s' x r := by
  simpa [CPEmit] using checkPositive_ok hg h

theorem ltLL_ok (hg : s.guard = none) (h : ltLL a b s = .ok (r, s')) :
    CPEmit s s' ((b.sub a).subI 1) r := checkPositive_none_ok hg h
theorem leLL_ok (hg : s.guard = none) (h : leLL a b s = .ok (r, s')) :
    CPEmit s s' (b.sub a) r := checkPositive_none_ok hg h
theorem gtLL_ok (hg : s.guard = none) (h : gtLL a b s = .ok (r, s')) :
    CPEmit s s' ((a.sub b).subI 1) r := checkPositive_none_ok hg h
theorem geLL_ok (hg : s.guard = none) (h : geLL a b s = .ok (r, s')) :
    CPEmit s s' (a.sub b) r := checkPositive_none_ok hg h
theorem ltLI_ok (hg : s.guard = none) (h : ltLI a c s = .ok (r, s')) :
    CPEmit s s' ((a.rsubI c).subI 1) r := checkPositive_none_ok hg h
theorem leLI_ok (hg : s.guard = none) (h : leLI a c s = .ok (r, s')) :
    CPEmit s s' (a.rsubI c) r := checkPositive_none_ok hg h
theorem gtLI_ok (hg : s.guard = none) (h : gtLI a c s = .ok (r, s')) :
    CPEmit s s' ((a.subI c).subI 1) r := checkPositive_none_ok hg h
theorem geLI_ok (hg : s.guard = none) (h : geLI a c s = .ok (r, s')) :
    CPEmit s s' (a.subI c) r := checkPositive_none_ok hg h

theorem eqLL_ok (h : eqLL a b s = .ok (r, s')) :
    ∃ rv wv : Int, r = fw s.priv.length rv ∧
      s' = s.ext [rv, wv] (czCons s.priv.length (a.sub b) rv) := checkZero_ok h
theorem eqLI_ok (h : eqLI a c s = .ok (r, s')) :
    ∃ rv wv : Int, r = fw s.priv.length rv ∧
      s' = s.ext [rv, wv] (czCons s.priv.length (a.subI c) rv) := checkZero_ok h
theorem neLL_ok (h : neLL a b s = .ok (r, s')) :
    ∃ rv wv : Int, r = (fw s.priv.length rv).rsubI 1 ∧
      s' = s.ext [rv, wv] (czCons s.priv.length (a.sub b) rv) := checkNonzero_ok h
theorem neLI_ok (h : neLI a c s = .ok (r, s')) :
    ∃ rv wv : Int, r = (fw s.priv.length rv).rsubI 1 ∧
      s' = s.ext [rv, wv] (czCons s.priv.length (a.subI c) rv) := checkNonzero_ok h
end comparisons

/-! ## assertions -/
section asserts
variable {a b : LinComb} {s s' : St} {u : Unit}

/-- shape of the emission of an assertion that reduces to `assert_positive` of `x`
(global bit length!) -/
def APEmit (s s' : St) (x : LinComb) : Prop :=
  ∃ vs : List Int, vs.length = s.bitlength ∧ s' = s.ext vs (toBitsCons s.priv.length x vs)

theorem assertLt_ok (hg : s.guard = none) (h : assertLt a b s = .ok (u, s')) :
    APEmit s s' ((b.sub a).subI 1) := by
  unfold assertLt at h; split at h
  · cases h
  · exact assertPositive_ok hg h
theorem assertLe_ok (hg : s.guard = none) (h : assertLe a b s = .ok (u, s')) :
    APEmit s s' (b.sub a) := by
  unfold assertLe at h; split at h
  · cases h
  · exact assertPositive_ok hg h
theorem assertGt_ok (hg : s.guard = none) (h : assertGt a b s = .ok (u, s')) :
    APEmit s s' ((a.sub b).subI 1) := by
  unfold assertGt at h; split at h
  · cases h
  · exact assertPositive_ok hg h
theorem assertGe_ok (hg : s.guard = none) (h : assertGe a b s = .ok (u, s')) :
    APEmit s s' (a.sub b) := by
  unfold assertGe at h; split at h
  · cases h
  · exact assertPositive_ok hg h
theorem assertEq_ok (hg : s.guard = none) (h : assertEq a b s = .ok (u, s')) :
    s' = s.ext [] [(LC.zero, LC.zero, (a.sub b).lc)] := by
  unfold assertEq at h; split at h
  · cases h
  · exact assertZero_ok hg h
theorem assertNe_ok (hg : s.guard = none) (h : assertNe a b s = .ok (u, s')) :
    ∃ wv : Int, s' = s.ext [wv] [((a.sub b).lc, [(Wire.priv s.priv.length, 1)], s.one.lc)] := by
  unfold assertNe at h; split at h
  · cases h
  · exact assertNonzero_ok hg h

theorem assertRange_ok {x lo hi : LinComb} (hg : s.guard = none)
    (h : assertRange x lo hi s = .ok (u, s')) :
    ∃ vs1 vs2 : List Int, vs1.length = s.bitlength ∧ vs2.length = s.bitlength ∧
      s' = s.ext (vs1 ++ vs2)
        (toBitsCons s.priv.length (x.sub lo) vs1 ++
         toBitsCons (s.priv.length + s.bitlength) ((hi.sub x).subI 1) vs2) := by
  unfold assertRange at h; split at h
  · cases h
  · obtain ⟨u1, s1, h1, h2⟩ := bind_ok.mp h
    obtain ⟨vs1, hl1, rfl⟩ := assertPositive_ok hg h1
    obtain ⟨vs2, hl2, rfl⟩ := assertPositive_ok (by simpa using hg) h2
    refine ⟨vs1, vs2, hl1, by simpa using hl2, ?_⟩
    simp [hl1]
end asserts

/-! ## `divmod` -/

/-- what `divmod` appends (`k` quotient, `k+1` product, `k+2` remainder, then the bit wires of
`d - rem - 1` and of `rem`).  NB: nothing bounds the quotient wire `k`. -/
def dmCons (k bl : Nat) (a d : LinComb) (rv : Int) (vs1 vs2 : List Int) : List Constraint :=
  [([(Wire.priv k, 1)], d.lc, [(Wire.priv (k+1), 1)]),
   ([(Wire.priv k, 1)], d.lc, (a.sub (fw (k+2) rv)).lc)] ++
  toBitsCons (k+3) ((d.sub (fw (k+2) rv)).subI 1) vs1 ++
  toBitsCons (k+3+bl) (fw (k+2) rv) vs2

theorem divmodLL_ok {a d quo rem : LinComb} {s s' : St} (hg : s.guard = none)
    (h : divmodLL a d s = .ok ((quo, rem), s')) :
    ∃ (qv pv rv : Int) (vs1 vs2 : List Int), vs1.length = s.bitlength ∧ vs2.length = s.bitlength ∧
      quo = fw s.priv.length qv ∧ rem = fw (s.priv.length + 2) rv ∧
      s' = s.ext ([qv, pv, rv] ++ vs1 ++ vs2) (dmCons s.priv.length s.bitlength a d rv vs1 vs2) := by
  unfold divmodLL at h; split at h
  · cases h
  · obtain ⟨q, s1, h1, h2⟩ := bind_ok.mp h
    obtain ⟨res, s2, h3, h4⟩ := bind_ok.mp h2
    obtain ⟨rm, s3, h5, h6⟩ := bind_ok.mp h4
    obtain ⟨u1, s4, h7, h8⟩ := bind_ok.mp h6
    obtain ⟨u2, s5, h9, h10⟩ := bind_ok.mp h8
    obtain ⟨u3, s6, h11, h12⟩ := bind_ok.mp h10
    obtain ⟨hr, rfl⟩ := pure_ok.mp h12
    obtain ⟨rfl, rfl⟩ := privVal_ok h1
    obtain ⟨rfl, rfl⟩ := mulLL_ok h3
    obtain ⟨rfl, rfl⟩ := privVal_ok h5
    have := addConstraint_ok (by simpa using hg) h7; subst this
    obtain ⟨vs1, hl1, rfl⟩ := assertLt_ok (by simpa using hg) h9
    obtain ⟨vs2, hl2, rfl⟩ := assertPositive_ok (by simpa using hg) h11
    simp only [Prod.mk.injEq] at hr
    obtain ⟨rfl, rfl⟩ := hr
    refine ⟨Py.floordiv a.value d.value, Py.floordiv a.value d.value * d.value,
      a.value - Py.floordiv a.value d.value * d.value, vs1, vs2,
      by simpa using hl1, by simpa using hl2, rfl, by simp, ?_⟩
    have e1 : vs1.length = s.bitlength := by simpa using hl1
    simp [dmCons, e1, Nat.add_assoc, Nat.add_comm 3]

/-! ## maps that allocate one wire and one constraint per element -/

def mapWires {α : Type} (R : Nat → α → LinComb) : Nat → List α → List LinComb
  | _, [] => []
  | k, x :: xs => R k x :: mapWires R (k+1) xs

def mapCons {α : Type} (C : Nat → α → Constraint) : Nat → List α → List Constraint
  | _, [] => []
  | k, x :: xs => C k x :: mapCons C (k+1) xs

@[simp] theorem mapWires_length {α : Type} (R : Nat → α → LinComb) :
    ∀ (k : Nat) (xs : List α), (mapWires R k xs).length = xs.length
  | _, [] => rfl
  | k, _ :: xs => by simp [mapWires, mapWires_length R (k+1) xs]

theorem mapM_one_ok {α : Type} (f : α → M LinComb) (R : Nat → α → LinComb) (H : α → Int)
    (C : Nat → α → Constraint)
    (hf : ∀ x s r s', f x s = .ok (r, s') →
      r = R s.priv.length x ∧ s' = s.ext [H x] [C s.priv.length x]) :
    ∀ (xs : List α) (s : St) (rs : List LinComb) (s' : St), mapM' f xs s = .ok (rs, s') →
      rs = mapWires R s.priv.length xs ∧ s' = s.ext (xs.map H) (mapCons C s.priv.length xs)
  | [], s, rs, s', h => by
    unfold mapM' at h
    obtain ⟨rfl, rfl⟩ := pure_ok.mp h
    simp [mapWires, mapCons]
  | x :: xs, s, rs, s', h => by
    unfold mapM' at h
    obtain ⟨y, s1, h1, h2⟩ := bind_ok.mp h
    obtain ⟨ys, s2, h3, h4⟩ := bind_ok.mp h2
    obtain ⟨rfl, rfl⟩ := pure_ok.mp h4
    obtain ⟨rfl, rfl⟩ := hf _ _ _ _ h1
    obtain ⟨rfl, rfl⟩ := mapM_one_ok f R H C hf xs _ _ _ h3
    simp [mapWires, mapCons]

/-! ## bitwise operations on two `LinComb`s -/

/-- per-bit result wire / constraint of `&`, `|`, `^` -/
def andR (k : Nat) (xy : LinComb × LinComb) : LinComb := fw k (xy.2.value * xy.1.value)
def andC (k : Nat) (xy : LinComb × LinComb) : Constraint := (xy.2.lc, xy.1.lc, [(Wire.priv k, 1)])
def orR (k : Nat) (xy : LinComb × LinComb) : LinComb :=
  (xy.2.add xy.1).sub (fw k (xy.2.value * xy.1.value))
def xorR (k : Nat) (xy : LinComb × LinComb) : LinComb :=
  (xy.2.add xy.1).sub (fw k (xy.2.value * (xy.1.mulI 2).value))
def xorC (k : Nat) (xy : LinComb × LinComb) : Constraint :=
  (xy.2.lc, (xy.1.mulI 2).lc, [(Wire.priv k, 1)])

/-- shape of the emission of a bitwise operation: two bit decompositions (wires `k …` and
`k+bl …`), then one product wire and one product constraint per bit position -/
def BitwiseEmit (R : Nat → LinComb × LinComb → LinComb) (C : Nat → LinComb × LinComb → Constraint)
    (s s' : St) (a b : LinComb) (r : Option LinComb) : Prop :=
  ∃ va vb hs : List Int, va.length = s.bitlength ∧ vb.length = s.bitlength ∧
    hs.length = s.bitlength ∧
    r = fromBits (mapWires R (s.priv.length + s.bitlength + s.bitlength)
          ((bitWires s.priv.length va).zip (bitWires (s.priv.length + s.bitlength) vb))) ∧
    s' = s.ext (va ++ vb ++ hs)
      (toBitsCons s.priv.length a va ++ toBitsCons (s.priv.length + s.bitlength) b vb ++
       mapCons C (s.priv.length + s.bitlength + s.bitlength)
          ((bitWires s.priv.length va).zip (bitWires (s.priv.length + s.bitlength) vb)))

theorem bitwise_ok (f : LinComb × LinComb → M LinComb) (R : Nat → LinComb × LinComb → LinComb)
    (H : LinComb × LinComb → Int) (C : Nat → LinComb × LinComb → Constraint)
    (hf : ∀ x s r s', f x s = .ok (r, s') →
      r = R s.priv.length x ∧ s' = s.ext [H x] [C s.priv.length x])
    {a b : LinComb} {r : Option LinComb} {s s' : St} (hg : s.guard = none)
    (h : (do let ab ← toBits a none
             let bb ← toBits b none
             let res ← mapM' f (ab.zip bb)
             pure (fromBits res) : M (Option LinComb)) s = .ok (r, s')) :
    BitwiseEmit R C s s' a b r := by
  obtain ⟨ab, s1, h1, h2⟩ := bind_ok.mp h
  obtain ⟨bb, s2, h3, h4⟩ := bind_ok.mp h2
  obtain ⟨res, s3, h5, h6⟩ := bind_ok.mp h4
  obtain ⟨rfl, rfl⟩ := pure_ok.mp h6
  obtain ⟨va, hla, rfl, rfl⟩ := toBits_ok hg h1
  obtain ⟨vb, hlb, rfl, rfl⟩ := toBits_ok (by simpa using hg) h3
  obtain ⟨rfl, rfl⟩ := mapM_one_ok f R H C hf _ _ _ _ h5
  have ea : va.length = s.bitlength := by simpa using hla
  have eb : vb.length = s.bitlength := by simpa using hlb
  unfold BitwiseEmit
  refine ⟨va, vb, List.map H ((bitWires s.priv.length va).zip
    (bitWires (s.priv.length + s.bitlength) vb)), ea, eb, ?_, ?_, ?_⟩
  · simp [ea, eb]
  · simp [ea, eb, Nat.add_assoc]
  · simp [ea, eb, Nat.add_assoc]

theorem andLL_ok {a b : LinComb} {r : Option LinComb} {s s' : St} (hg : s.guard = none)
    (h : andLL a b s = .ok (r, s')) : BitwiseEmit andR andC s s' a b r :=
  bitwise_ok _ andR (fun xy => xy.2.value * xy.1.value) andC
    (fun _ _ _ _ h => mulBB_ok h) hg h

theorem orLL_ok {a b : LinComb} {r : Option LinComb} {s s' : St} (hg : s.guard = none)
    (h : orLL a b s = .ok (r, s')) : BitwiseEmit orR andC s s' a b r := by
  refine bitwise_ok _ orR (fun xy => xy.2.value * xy.1.value) andC ?_ hg h
  intro x s r s' h
  obtain ⟨pr, s1, h1, h2⟩ := bind_ok.mp h
  obtain ⟨rfl, rfl⟩ := pure_ok.mp h2
  obtain ⟨rfl, rfl⟩ := mulBB_ok h1
  exact ⟨rfl, rfl⟩

theorem xorLL_ok {a b : LinComb} {r : Option LinComb} {s s' : St} (hg : s.guard = none)
    (h : xorLL a b s = .ok (r, s')) : BitwiseEmit xorR xorC s s' a b r := by
  refine bitwise_ok _ xorR (fun xy => xy.2.value * (xy.1.mulI 2).value) xorC ?_ hg h
  intro x s r s' h
  obtain ⟨pr, s1, h1, h2⟩ := bind_ok.mp h
  obtain ⟨rfl, rfl⟩ := pure_ok.mp h2
  obtain ⟨rfl, rfl⟩ := mulLL_ok h1
  exact ⟨rfl, rfl⟩

/-! ## `~x`, `abs`, bitwise operations with a python int -/

theorem mapM_boolNot_ok : ∀ (bs : List LinComb) {s s' : St} {rs : List LinComb},
    mapM' boolNot bs s = .ok (rs, s') → rs = bs.map (fun b => b.rsubI 1) ∧ s' = s
  | [], s, s', rs, h => by
    unfold mapM' at h
    obtain ⟨rfl, rfl⟩ := pure_ok.mp h
    simp
  | b :: bs, s, s', rs, h => by
    unfold mapM' at h
    obtain ⟨y, s1, h1, h2⟩ := bind_ok.mp h
    obtain ⟨ys, s2, h3, h4⟩ := bind_ok.mp h2
    obtain ⟨rfl, rfl⟩ := pure_ok.mp h4
    obtain ⟨rfl, rfl⟩ := boolNot_ok h1
    obtain ⟨rfl, rfl⟩ := mapM_boolNot_ok bs h3
    simp

theorem invertL_ok {a : LinComb} {r : Option LinComb} {s s' : St} (hg : s.guard = none)
    (h : invertL a s = .ok (r, s')) :
    ∃ vs : List Int, vs.length = s.bitlength ∧
      r = fromBits ((bitWires s.priv.length vs).map (fun b => b.rsubI 1)) ∧
      s' = s.ext vs (toBitsCons s.priv.length a vs) := by
  unfold invertL at h
  obtain ⟨bits, s1, h1, h2⟩ := bind_ok.mp h
  obtain ⟨inv, s2, h3, h4⟩ := bind_ok.mp h2
  obtain ⟨rfl, rfl⟩ := pure_ok.mp h4
  obtain ⟨vs, hl, rfl, rfl⟩ := toBits_ok hg h1
  obtain ⟨rfl, rfl⟩ := mapM_boolNot_ok _ h3
  exact ⟨vs, by simpa using hl, rfl, rfl⟩

theorem absL_ok {a r : LinComb} {s s' : St} (hg : s.guard = none)
    (h : absL a s = .ok (r, s')) :
    ∃ (rv hv : Int) (vs : List Int), vs.length = s.bitlength ∧
      r = a.neg.add (fw (s.priv.length + 1 + s.bitlength) hv) ∧
      s' = s.ext (rv :: vs ++ [hv])
        (cpCons s.priv.length (a.subI 0) rv vs ++
         [([(Wire.priv s.priv.length, 1)], (a.sub a.neg).lc,
           [(Wire.priv (s.priv.length + 1 + s.bitlength), 1)])]) := by
  unfold absL at h
  obtain ⟨c, s1, h1, h2⟩ := bind_ok.mp h
  obtain ⟨rv, vs, hl, rfl, rfl⟩ := geLI_ok hg h1
  obtain ⟨rfl, rfl⟩ := iteLLL_ok h2
  refine ⟨rv, rv * (a.sub a.neg).value, vs, hl, ?_, ?_⟩
  · simp [hl, Nat.add_assoc, Nat.add_comm 1]
  · simp [hl, Nat.add_assoc, Nat.add_comm 1]

/-- `x & c`, `x ^ c`, `x | c` for a python int `c`: a fresh wire and NO constraint -/
theorem andLI_ok {a r : LinComb} {c : Int} {s s' : St} (h : andLI a c s = .ok (r, s')) :
    r = fw s.priv.length (Py.land a.value c) ∧ s' = s.ext [Py.land a.value c] [] := privVal_ok h
theorem xorLI_ok {a r : LinComb} {c : Int} {s s' : St} (h : xorLI a c s = .ok (r, s')) :
    r = fw s.priv.length (Py.lxor a.value c) ∧ s' = s.ext [Py.lxor a.value c] [] := privVal_ok h
theorem orLI_ok {a r : LinComb} {c : Int} {s s' : St} (h : orLI a c s = .ok (r, s')) :
    r = fw s.priv.length (Py.lor a.value c) ∧ s' = s.ext [Py.lor a.value c] [] := privVal_ok h

end Pysnark
