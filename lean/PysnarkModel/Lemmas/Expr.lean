import PysnarkModel.Lemmas.LC
import PysnarkModel.Model.Sig
/-!
# Expression trees over backend linear combinations (C13's quantifier)
-/
namespace Pysnark

/-- expression trees over variables, the two constants and integer scalars -/
inductive LExpr
  | zero | one
  | var (k : Wire)
  | add (a b : LExpr) | sub (a b : LExpr) | neg (a : LExpr)
  | scale (a : LExpr) (c : Int)

namespace LExpr
/-- what the backend's operators build -/
def build : LExpr → LC
  | zero => LC.zero
  | one => LC.one
  | var k => [(k, 1)]
  | add a b => (build a).add (build b)
  | sub a b => (build a).sub (build b)
  | neg a => (build a).neg
  | scale a c => (build a).scale c

/-- the field expression it should denote (over the integers; reduce mod p for the field) -/
def denote (w : Wire → Int) : LExpr → Int
  | zero => 0
  | one => w .one
  | var k => w k
  | add a b => denote w a + denote w b
  | sub a b => denote w a - denote w b
  | neg a => - denote w a
  | scale a c => c * denote w a

theorem build_WF : ∀ e : LExpr, (build e).WF
  | zero => LC.WF_zero
  | one => LC.WF_one
  | var k => LC.WF_single k 1
  | add a b => LC.WF_add _ _ (build_WF a) (build_WF b)
  | sub a b => LC.WF_sub _ _ (build_WF a) (build_WF b)
  | neg a => LC.WF_neg _ (build_WF a)
  | scale a c => LC.WF_scale _ c (build_WF a)

theorem eval_build (w : Wire → Int) : ∀ e : LExpr, LC.eval w (build e) = denote w e
  | zero => rfl
  | one => by simp [build, denote, LC.one, LC.eval]
  | var k => by simp [build, denote, LC.eval]
  | add a b => by
      simp only [build, denote]
      rw [LC.eval_add w _ _ (build_WF a) (build_WF b), eval_build w a, eval_build w b]
  | sub a b => by
      simp only [build, denote]
      rw [LC.eval_sub w _ _ (build_WF a) (build_WF b), eval_build w a, eval_build w b]
  | neg a => by simp only [build, denote]; rw [LC.eval_neg, eval_build w a]
  | scale a c => by simp only [build, denote]; rw [LC.eval_scale, eval_build w a]
end LExpr

namespace SigLC
theorem eval_add (w : String → Int) (a b : SigLC) : eval w (add a b) = eval w a + eval w b := by
  unfold add
  induction a with
  | nil => simp [eval]
  | cons x xs ih => obtain ⟨c, v⟩ := x; simp only [List.cons_append, eval, ih]; ring

theorem eval_scale_mod (p : Int) (w : String → Int) (a : SigLC) (c : Int) :
    (eval w (scale p a c) - c * eval w a) % p = 0 := by
  induction a with
  | nil => simp [scale, eval]
  | cons x xs ih =>
    obtain ⟨k, v⟩ := x
    simp only [scale, List.map_cons, eval] at ih ⊢
    have h1 : (k * c % p * w v - k * c * w v) % p = 0 := by
      have : k * c % p * w v - k * c * w v = (k * c % p - k * c) * w v := by ring
      rw [this]
      have h2 : (k * c % p - k * c) % p = 0 := by
        rw [Int.sub_emod, Int.emod_emod_of_dvd _ (dvd_refl _), Int.sub_self, Int.zero_emod]
      exact Int.emod_eq_zero_of_dvd (Dvd.dvd.mul_right (Int.dvd_of_emod_eq_zero h2) _)
    have e : k * c % p * w v + eval w (List.map (fun cv => (cv.1 * c % p, cv.2)) xs) - c * (k * w v + eval w xs)
        = (k * c % p * w v - k * c * w v) + (eval w (List.map (fun cv => (cv.1 * c % p, cv.2)) xs) - c * eval w xs) := by ring
    rw [e, Int.add_emod, h1, ih]; simp

theorem eval_neg_mod (p : Int) (w : String → Int) (a : SigLC) :
    (eval w (neg p a) + eval w a) % p = 0 := by
  induction a with
  | nil => simp [neg, eval]
  | cons x xs ih =>
    obtain ⟨k, v⟩ := x
    simp only [neg, List.map_cons, eval] at ih ⊢
    have h1 : (-k % p * w v + k * w v) % p = 0 := by
      have : -k % p * w v + k * w v = (-k % p + k) * w v := by ring
      rw [this]
      have h2 : (-k % p + k) % p = 0 := by
        rw [Int.add_emod, Int.emod_emod_of_dvd _ (dvd_refl _), ← Int.add_emod]; simp
      exact Int.emod_eq_zero_of_dvd (Dvd.dvd.mul_right (Int.dvd_of_emod_eq_zero h2) _)
    have e : -k % p * w v + eval w (List.map (fun cv => (-cv.1 % p, cv.2)) xs) + (k * w v + eval w xs)
        = (-k % p * w v + k * w v) + (eval w (List.map (fun cv => (-cv.1 % p, cv.2)) xs) + eval w xs) := by ring
    rw [e, Int.add_emod, h1, ih]; simp
end SigLC

/-- expression trees over named qaptools wires -/
inductive SExpr
  | zero
  | var (v : String)
  | add (a b : SExpr) | sub (a b : SExpr) | neg (a : SExpr)
  | scale (a : SExpr) (c : Int)

namespace SExpr
def build (p : Int) : SExpr → SigLC
  | zero => SigLC.zero
  | var v => [(1, v)]
  | add a b => SigLC.add (build p a) (build p b)
  | sub a b => SigLC.sub p (build p a) (build p b)
  | neg a => SigLC.neg p (build p a)
  | scale a c => SigLC.scale p (build p a) c

def denote (w : String → Int) : SExpr → Int
  | zero => 0
  | var v => w v
  | add a b => denote w a + denote w b
  | sub a b => denote w a - denote w b
  | neg a => - denote w a
  | scale a c => c * denote w a

theorem eval_build_mod (p : Int) (w : String → Int) : ∀ e : SExpr,
    (SigLC.eval w (build p e) - denote w e) % p = 0
  | zero => by simp [build, denote, SigLC.zero, SigLC.eval]
  | var v => by simp [build, denote, SigLC.eval]
  | add a b => by
      simp only [build, denote, SigLC.eval_add]
      have ha := eval_build_mod p w a; have hb := eval_build_mod p w b
      have e : SigLC.eval w (build p a) + SigLC.eval w (build p b) - (denote w a + denote w b)
          = (SigLC.eval w (build p a) - denote w a) + (SigLC.eval w (build p b) - denote w b) := by ring
      rw [e, Int.add_emod, ha, hb]; simp
  | sub a b => by
      simp only [build, denote, SigLC.sub, SigLC.eval_add]
      have ha := eval_build_mod p w a; have hb := eval_build_mod p w b
      have hn := SigLC.eval_neg_mod p w (build p b)
      have e : SigLC.eval w (build p a) + SigLC.eval w (SigLC.neg p (build p b)) - (denote w a - denote w b)
          = (SigLC.eval w (build p a) - denote w a) + ((SigLC.eval w (SigLC.neg p (build p b)) + SigLC.eval w (build p b))
             - (SigLC.eval w (build p b) - denote w b)) := by ring
      rw [e, Int.add_emod, ha, Int.sub_emod, hn, hb]; simp
  | neg a => by
      simp only [build, denote]
      have ha := eval_build_mod p w a
      have hn := SigLC.eval_neg_mod p w (build p a)
      have e : SigLC.eval w (SigLC.neg p (build p a)) - -denote w a
          = (SigLC.eval w (SigLC.neg p (build p a)) + SigLC.eval w (build p a)) - (SigLC.eval w (build p a) - denote w a) := by ring
      rw [e, Int.sub_emod, hn, ha]; simp
  | scale a c => by
      simp only [build, denote]
      have ha := eval_build_mod p w a
      have hs := SigLC.eval_scale_mod p w (build p a) c
      have e : SigLC.eval w (SigLC.scale p (build p a) c) - c * denote w a
          = (SigLC.eval w (SigLC.scale p (build p a) c) - c * SigLC.eval w (build p a)) + c * (SigLC.eval w (build p a) - denote w a) := by ring
      rw [e, Int.add_emod, hs, Int.mul_emod, ha]; simp
end SExpr

end Pysnark
