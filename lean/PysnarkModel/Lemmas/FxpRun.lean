import PysnarkModel.Lemmas.FxpRunOps
import PysnarkModel.Lemmas.FxpRunQ
/-!
# C14 at program level, layer 2: the register relation is preserved by every dispatch function

`fxRel r v w`: the model value `v` and the reference value `w` (`Spec/FxpProg.lean`) stand for the
same thing at resolution `r`.  One lemma per dispatch function (`binopV`, `unV`, `mkVal`,
`wrapBool`, `wrapFxp`, `callMeth`, `ifThenElse`): if the operands are related, the instruction is
not excluded (`fxExcl…`), and the model returns a value, then the reference returns a value (not
`raises`, not `unspec`) and the two results are related.
-/
namespace Pysnark

set_option linter.unusedSimpArgs false
set_option linter.unnecessarySeqFocus false

/-! ## the relation, constructor by constructor -/
section rel
variable {r : ℕ}

theorem fxIsBool_iff {v : Int} : fxIsBool v = true ↔ v = 0 ∨ v = 1 := by
  simp [fxIsBool]

theorem fxRel_none_iff {w : FxV} : fxRel r .none w = true ↔ w = .none := by
  cases w <;> simp [fxRel]

theorem fxRel_int_iff {c : Int} {w : FxV} : fxRel r (.int c) w = true ↔ w = .int c := by
  cases w <;> simp [fxRel] <;> exact eq_comm

theorem fxRel_flt_iff {m : Int} {e : Nat} {w : FxV} :
    fxRel r (.flt m e) w = true ↔ w = .flt ((m : ℚ) / 2 ^ e) := by
  cases w <;> simp [fxRel] <;> exact eq_comm

theorem fxRel_lc_iff {x : LinComb} {w : FxV} : fxRel r (.lc x) w = true ↔ w = .sint x.value := by
  cases w <;> simp [fxRel] <;> exact eq_comm

theorem fxRel_lcb_iff {x : LinComb} {w : FxV} :
    fxRel r (.lcb x) w = true ↔ w = .sbool x.value ∧ (x.value = 0 ∨ x.value = 1) := by
  cases w <;> simp [fxRel, fxIsBool]
  rename_i v
  constructor
  · rintro ⟨rfl, h⟩; exact ⟨rfl, h⟩
  · rintro ⟨rfl, h⟩; exact ⟨rfl, h⟩

theorem fxRel_fxp_iff {x : LinComb} {w : FxV} :
    fxRel r (.fxp x) w = true ↔ ∃ q, w = .fx q ∧ (x.value : ℚ) = q * 2 ^ r := by
  cases w <;> simp [fxRel]

theorem fxRel_list_iff {xs : List Val} {w : FxV} :
    fxRel r (.list xs) w = true ↔ ∃ ws, w = .list ws ∧ fxRelL r xs ws = true := by
  cases w <;> simp [fxRel]

theorem fxRel_tuple_iff {xs : List Val} {w : FxV} :
    fxRel r (.tuple xs) w = true ↔ ∃ ws, w = .tuple ws ∧ fxRelL r xs ws = true := by
  cases w <;> simp [fxRel]

theorem fxRelL_cons {x : Val} {xs : List Val} {w : FxV} {ws : List FxV} :
    fxRelL r (x :: xs) (w :: ws) = true ↔ fxRel r x w = true ∧ fxRelL r xs ws = true := by
  simp [fxRelL]

theorem fxRelL_length : ∀ {xs : List Val} {ws : List FxV}, fxRelL r xs ws = true → xs.length = ws.length
  | [], [], _ => rfl
  | _ :: xs, _ :: ws, h => by
    simp only [List.length_cons, Nat.add_right_cancel_iff]
    exact fxRelL_length (fxRelL_cons.mp h).2
  | [], _ :: _, h => by simp [fxRelL] at h
  | _ :: _, [], h => by simp [fxRelL] at h

theorem fxRelL_get : ∀ {xs : List Val} {ws : List FxV} (i : Nat) {x : Val}, fxRelL r xs ws = true →
    xs[i]? = some x → ∃ w, ws[i]? = some w ∧ fxRel r x w = true
  | [], _, _, _, _, hx => by simp at hx
  | _ :: _, [], _, _, h, _ => by simp [fxRelL] at h
  | y :: xs, w :: ws, 0, x, h, hx => by
    simp only [List.getElem?_cons_zero, Option.some.injEq] at hx ⊢
    subst hx
    exact ⟨w, rfl, (fxRelL_cons.mp h).1⟩
  | y :: xs, w :: ws, i+1, x, h, hx => by
    simp only [List.getElem?_cons_succ] at hx ⊢
    exact fxRelL_get i (fxRelL_cons.mp h).2 hx

theorem fxRelL_append : ∀ {xs : List Val} {ws : List FxV} {v : Val} {w : FxV}, fxRelL r xs ws = true →
    fxRel r v w = true → fxRelL r (xs ++ [v]) (ws ++ [w]) = true
  | [], [], _, _, _, hv => by simp [fxRelL, hv]
  | _ :: xs, _ :: ws, _, _, h, hv => by
    simp only [List.cons_append, fxRelL_cons]
    exact ⟨(fxRelL_cons.mp h).1, fxRelL_append (fxRelL_cons.mp h).2 hv⟩
  | [], _ :: _, _, _, h, _ => by simp [fxRelL] at h
  | _ :: _, [], _, _, h, _ => by simp [fxRelL] at h

theorem fxRelL_set : ∀ {xs : List Val} {ws : List FxV} (i : Nat) {v : Val} {w : FxV},
    fxRelL r xs ws = true → fxRel r v w = true → fxRelL r (xs.set i v) (ws.set i w) = true
  | [], [], _, _, _, _, _ => by simp [fxRelL]
  | _ :: xs, _ :: ws, 0, _, _, h, hv => by
    simp only [List.set_cons_zero, fxRelL_cons]
    exact ⟨hv, (fxRelL_cons.mp h).2⟩
  | _ :: xs, _ :: ws, i+1, _, _, h, hv => by
    simp only [List.set_cons_succ, fxRelL_cons]
    exact ⟨(fxRelL_cons.mp h).1, fxRelL_set i (fxRelL_cons.mp h).2 hv⟩
  | [], _ :: _, _, _, _, h, _ => by simp [fxRelL] at h
  | _ :: _, [], _, _, _, h, _ => by simp [fxRelL] at h

-- a value without fixed-point secrets stands for the same thing at every resolution
mutual
theorem fxRel_res (r r' : Nat) : ∀ (v : Val) (w : FxV), v.fxHasFxp = false →
    fxRel r v w = true → fxRel r' v w = true
  | .list xs, w, hn, h => by
    cases w <;> simp only [fxRel, Val.fxHasFxp, Bool.false_eq_true] at h hn ⊢
    exact fxRelL_res r r' xs _ hn h
  | .tuple xs, w, hn, h => by
    cases w <;> simp only [fxRel, Val.fxHasFxp, Bool.false_eq_true] at h hn ⊢
    exact fxRelL_res r r' xs _ hn h
  | .fxp x, w, hn, h => by simp [Val.fxHasFxp] at hn
  | .none, w, _, h => by cases w <;> simp_all [fxRel]
  | .int _, w, _, h => by cases w <;> simp_all [fxRel]
  | .flt _ _, w, _, h => by cases w <;> simp_all [fxRel]
  | .lc _, w, _, h => by cases w <;> simp_all [fxRel]
  | .lcb _, w, _, h => by cases w <;> simp_all [fxRel]
theorem fxRelL_res (r r' : Nat) : ∀ (xs : List Val) (ws : List FxV), Val.fxHasFxpL xs = false →
    fxRelL r xs ws = true → fxRelL r' xs ws = true
  | [], [], _, _ => by simp [fxRelL]
  | x :: xs, w :: ws, hn, h => by
    simp only [fxRelL, Val.fxHasFxpL, Bool.or_eq_false_iff, Bool.and_eq_true] at h hn ⊢
    exact ⟨fxRel_res r r' x w hn.1 h.1, fxRelL_res r r' xs ws hn.2 h.2⟩
  | [], _ :: _, _, h => by simp [fxRelL] at h
  | _ :: _, [], _, h => by simp [fxRelL] at h
end

-- a plain literal is related to its reference reading
mutual
theorem fxRel_ofVal (r : Nat) : ∀ (v : Val), v.plain = true → fxRel r v (fxOfVal v) = true
  | .none, _ => by simp [fxRel, fxOfVal]
  | .int _, _ => by simp [fxRel, fxOfVal]
  | .flt _ _, _ => by simp [fxRel, fxOfVal]
  | .lc _, h => by simp [Val.plain] at h
  | .lcb _, h => by simp [Val.plain] at h
  | .fxp _, h => by simp [Val.plain] at h
  | .list xs, h => by
    simp only [Val.plain] at h
    simp only [fxRel, fxOfVal]
    exact fxRelL_ofVal r xs h
  | .tuple xs, h => by
    simp only [Val.plain] at h
    simp only [fxRel, fxOfVal]
    exact fxRelL_ofVal r xs h
theorem fxRelL_ofVal (r : Nat) : ∀ (xs : List Val), Val.plainL xs = true →
    fxRelL r xs (fxOfValL xs) = true
  | [], _ => by simp [fxRelL, fxOfValL]
  | x :: xs, h => by
    simp only [Val.plainL, Bool.and_eq_true] at h
    simp only [fxRelL, fxOfValL, Bool.and_eq_true]
    exact ⟨fxRel_ofVal r x h.1, fxRelL_ofVal r xs h.2⟩
end

/-- related values have the same kind -/
theorem fxRel_flags {a : Val} {wa : FxV} (h : fxRel r a wa = true) :
    wa.isFx = a.isFxp ∧ wa.int?.isSome = a.fxIntK ∧ wa.isPlainInt = a.isInt := by
  cases a <;> cases wa <;> simp [fxRel] at h <;>
    simp [FxV.isFx, Val.isFxp, FxV.int?, Val.fxIntK, FxV.isPlainInt, Val.isInt]

/-- **operand bridging**: the representation `rep r a` of an operand `_ensurefxp` accepts is
(the number the reference operand stands for)·2^r -/
theorem fxRel_rep {a : Val} {wa : FxV} (hk : a.fxNumK = true) (h : fxRel r a wa = true) :
    ∃ q, wa.num? r = some q ∧ ((rep r a : ℤ) : ℚ) = q * 2 ^ r := by
  cases a <;> simp only [Val.fxNumK, Bool.false_eq_true] at hk
  · rw [fxRel_int_iff] at h; subst h
    exact ⟨_, rfl, by simp only [rep]; push_cast; ring⟩
  · rw [fxRel_flt_iff] at h; subst h
    exact ⟨_, rfl, by simp only [rep]; exact fx_scaleFlt _ _ _⟩
  · rw [fxRel_lc_iff] at h; subst h
    exact ⟨_, rfl, by simp only [rep]; push_cast; ring⟩
  · rw [fxRel_lcb_iff] at h; obtain ⟨rfl, -⟩ := h
    exact ⟨_, rfl, by simp only [rep]; push_cast; ring⟩
  · rw [fxRel_fxp_iff] at h; obtain ⟨q, rfl, hq⟩ := h
    exact ⟨q, rfl, hq⟩

/-- an integer-kind operand carries the reference integer -/
theorem fxRel_num {a : Val} {wa : FxV} (hk : a.fxIntK = true) (h : fxRel r a wa = true) :
    wa.int? = some a.num := by
  cases a <;> simp only [Val.fxIntK, Bool.false_eq_true] at hk
  · rw [fxRel_int_iff] at h; subst h; rfl
  · rw [fxRel_lc_iff] at h; subst h; rfl
  · rw [fxRel_lcb_iff] at h; obtain ⟨rfl, -⟩ := h; rfl

theorem fx_rep_of_intK {a : Val} (hk : a.fxIntK = true) : rep r a = a.num * 2 ^ r := by
  cases a <;> simp only [Val.fxIntK, Bool.false_eq_true] at hk <;> rfl

theorem fxNumK_of_intK {a : Val} (hk : a.fxIntK = true) : a.fxNumK = true := by
  cases a <;> simp only [Val.fxIntK, Bool.false_eq_true] at hk <;> rfl

theorem fxNumK_of_fxp {a : Val} (hk : a.isFxp = true) : a.fxNumK = true := by
  cases a <;> simp only [Val.isFxp, Bool.false_eq_true] at hk <;> rfl

theorem fxIntK_not_fxp {a : Val} (hk : a.fxIntK = true) : a.isFxp = false := by
  cases a <;> simp only [Val.fxIntK, Bool.false_eq_true] at hk <;> rfl

/-- the representation of a product, on the numbers the factors stand for -/
theorem fxMulSem_q {a b : Val} {qa qb : ℚ} (hka : a.fxNumK = true) (hkb : b.fxNumK = true)
    (hf : (a.isFxp || b.isFxp) = true)
    (ea : ((rep r a : ℤ) : ℚ) = qa * 2 ^ r) (eb : ((rep r b : ℤ) : ℚ) = qb * 2 ^ r) :
    ((fxMulSem r a b : ℤ) : ℚ) =
      (if (a.fxIntK || b.fxIntK) = true then qa * qb else fxFloor r (qa * qb)) * 2 ^ r := by
  have hg := fx_pow_ne r
  have cancel : ∀ (c : ℤ) (q : ℚ), ((c * 2 ^ r : ℤ) : ℚ) = q * 2 ^ r → (c : ℚ) = q := by
    intro c q hc
    push_cast at hc
    exact mul_right_cancel₀ hg hc
  cases a <;> simp only [Val.fxNumK, Bool.false_eq_true] at hka <;>
    cases b <;> simp only [Val.fxNumK, Bool.false_eq_true] at hkb <;>
    simp only [Val.isFxp, Bool.or_self, Bool.false_eq_true] at hf <;>
    simp only [fxMulSem, mulXSem, Val.fxIntK, Bool.or_self, Bool.or_true, Bool.true_or,
      Bool.or_false, Bool.false_eq_true, if_true, if_false, rep] at ea eb ⊢
  -- (int, fxp)
  · have := cancel _ _ ea; push_cast; rw [eb, this]; ring
  -- (flt, fxp)
  · rw [mul_comm qa qb]; exact fx_mul_grid eb ea
  -- (lc, fxp)
  · have := cancel _ _ ea; push_cast; rw [eb, this]; ring
  -- (lcb, fxp)
  · have := cancel _ _ ea; push_cast; rw [eb, this]; ring
  -- (fxp, int)
  · have := cancel _ _ eb; push_cast; rw [ea, this]; ring
  -- (fxp, flt)
  · exact fx_mul_grid ea eb
  -- (fxp, lc)
  · have := cancel _ _ eb; push_cast; rw [ea, this]; ring
  -- (fxp, lcb)
  · have := cancel _ _ eb; push_cast; rw [ea, this]; ring
  -- (fxp, fxp)
  · exact fx_mul_grid ea eb

end rel


/-! ## binary operators -/
section bin
variable {s s' : St} {a b v : Val} {wa wb : FxV}

theorem fxRel_sbool {c : LinComb} {k : Int} (hv : c.value = k) (hk : fxIsBool k = true) :
    fxRel s.resolution (.lcb c) (.sbool k) = true := by
  rw [fxRel_lcb_iff]; subst hv; exact ⟨rfl, fxIsBool_iff.mp hk⟩

/-- at least one operand is fixed-point -/
theorem fx_binopV_fx_rel {op : BinOp} (hp : Plain s) (ha : fxRel s.resolution a wa = true)
    (hb : fxRel s.resolution b wb = true) (hf : (a.isFxp || b.isFxp) = true)
    (hex : fxExclBin op a b = none) (h : binopV op a b s = .ok (v, s')) :
    Same s s' ∧ ∃ w, fxBinFx s.resolution op wa wb = .val w ∧ fxRel s.resolution v w = true := by
  simp only [fxExclBin, hf, if_true] at hex
  have fa := fxRel_flags ha
  have fb := fxRel_flags hb
  -- the generic arithmetic / comparison case: both operands are numbers
  have gen : a.fxNumK = true → b.fxNumK = true → ∃ qa qb, wa.num? s.resolution = some qa ∧
      wb.num? s.resolution = some qb ∧ ((rep s.resolution a : ℤ) : ℚ) = qa * 2 ^ s.resolution ∧
      ((rep s.resolution b : ℤ) : ℚ) = qb * 2 ^ s.resolution := by
    intro ka kb
    obtain ⟨qa, na, ea⟩ := fxRel_rep ka ha
    obtain ⟨qb, nb, eb⟩ := fxRel_rep kb hb
    exact ⟨qa, qb, na, nb, ea, eb⟩
  have numK : ((if (a.fxNumK && b.fxNumK) = true then none else some FxExcl.operandKind) = none) →
      a.fxNumK = true ∧ b.fxNumK = true := by
    intro hh
    by_cases hk : (a.fxNumK && b.fxNumK) = true
    · simpa using hk
    · simp [hk] at hh
  have cmpCase : ∀ (c : Cmp), a.fxNumK = true → b.fxNumK = true →
      cmpV c a b s = .ok (v, s') →
      ∀ qa qb, wa.num? s.resolution = some qa → wb.num? s.resolution = some qb →
      Same s s' ∧ ∃ w, FxRes.val (FxV.sbool (fxCmpQ c qa qb)) = .val w ∧ fxRel s.resolution v w = true := by
    intro c ka kb hc qa qb na nb
    obtain ⟨qa', qb', na', nb', ea, eb⟩ := gen ka kb
    rw [na] at na'; rw [nb] at nb'; cases na'; cases nb'
    obtain ⟨sm, r, rfl, vr⟩ := fx_cmpV_fxp_val hp hf hc
    exact ⟨sm, _, rfl, fxRel_sbool (by rw [vr, fx_cmp c ea eb]) (fxCmpQ_01 _ _ _)⟩
  cases op
  case add =>
    simp only at hex
    obtain ⟨ka, kb⟩ := numK hex
    obtain ⟨qa, qb, na, nb, ea, eb⟩ := gen ka kb
    obtain ⟨rfl, z, rfl, vz⟩ := fx_addV_fxp_val hf h
    refine ⟨Same.refl _, .fx (qa + qb), by simp only [fxBinFx, na, nb, fxArithQ], ?_⟩
    rw [fxRel_fxp_iff]; exact ⟨_, rfl, by rw [vz]; push_cast; rw [ea, eb]; ring⟩
  case sub =>
    simp only at hex
    obtain ⟨ka, kb⟩ := numK hex
    obtain ⟨qa, qb, na, nb, ea, eb⟩ := gen ka kb
    obtain ⟨rfl, z, rfl, vz⟩ := fx_subV_fxp_val hf h
    refine ⟨Same.refl _, .fx (qa - qb), by simp only [fxBinFx, na, nb, fxArithQ], ?_⟩
    rw [fxRel_fxp_iff]; exact ⟨_, rfl, by rw [vz]; push_cast; rw [ea, eb]; ring⟩
  case mul =>
    simp only at hex
    obtain ⟨ka, kb⟩ := numK hex
    obtain ⟨qa, qb, na, nb, ea, eb⟩ := gen ka kb
    obtain ⟨sm, z, rfl, vz⟩ := fx_mulV_fxp_val hf h
    have key := fxMulSem_q ka kb hf ea eb
    refine ⟨sm, .fx (if (a.fxIntK || b.fxIntK) = true then qa * qb else fxFloor s.resolution (qa * qb)),
      ?_, ?_⟩
    · simp only [fxBinFx, na, nb, fxArithQ, fa.2.1, fb.2.1]
      split <;> rfl
    · rw [fxRel_fxp_iff]; exact ⟨_, rfl, by rw [vz]; exact key⟩
  case truediv =>
    simp only at hex
    obtain ⟨ka, kb⟩ := numK hex
    obtain ⟨qa, qb, na, nb, ea, eb⟩ := gen ka kb
    obtain ⟨sm, z, rfl, vz, hpos⟩ := fx_truedivV_fxp_val hp.ign hf h
    have hq := fx_qb_ne eb hpos
    refine ⟨sm, .fx (fxFloor s.resolution (qa / qb)), by simp only [fxBinFx, na, nb, fxArithQ, hq, if_false], ?_⟩
    rw [fxRel_fxp_iff]; refine ⟨_, rfl, ?_⟩
    rw [vz]
    have ea' : (((rep s.resolution a : ℤ)) : ℚ) = qa * 2 ^ s.resolution := ea
    exact fx_div_grid ea eb hpos
  case floordiv =>
    simp only at hex
    obtain ⟨ka, kb⟩ := numK hex
    obtain ⟨qa, qb, na, nb, ea, eb⟩ := gen ka kb
    obtain ⟨sm, qr, rfl, v1, -, hpos, -⟩ := fx_divmodV_fxp_val hp.ign hf h
    have hq := fx_qb_ne eb hpos
    refine ⟨sm, .fx ((qa / qb).floor : ℚ), by simp only [fxBinFx, na, nb, fxArithQ, hq, if_false], ?_⟩
    simp only [pickX]
    rw [fxRel_fxp_iff]; exact ⟨_, rfl, by rw [v1]; exact fx_floordiv ea eb hpos⟩
  case mod =>
    simp only at hex
    obtain ⟨ka, kb⟩ := numK hex
    obtain ⟨qa, qb, na, nb, ea, eb⟩ := gen ka kb
    obtain ⟨sm, qr, rfl, -, v2, hpos, -⟩ := fx_divmodV_fxp_val hp.ign hf h
    have hq := fx_qb_ne eb hpos
    refine ⟨sm, .fx (qa - qb * ((qa / qb).floor : ℚ)), by simp only [fxBinFx, na, nb, fxArithQ, hq, if_false], ?_⟩
    simp only [pickX]
    rw [fxRel_fxp_iff]; exact ⟨_, rfl, by rw [v2]; exact fx_mod ea eb hpos⟩
  case divmod =>
    simp only at hex
    obtain ⟨ka, kb⟩ := numK hex
    obtain ⟨qa, qb, na, nb, ea, eb⟩ := gen ka kb
    obtain ⟨sm, qr, rfl, v1, v2, hpos, -⟩ := fx_divmodV_fxp_val hp.ign hf h
    have hq := fx_qb_ne eb hpos
    refine ⟨sm, .tuple [.fx ((qa / qb).floor : ℚ), .fx (qa - qb * ((qa / qb).floor : ℚ))],
      by simp only [fxBinFx, na, nb, fxArithQ, hq, if_false], ?_⟩
    simp only [pickX, fxRel, fxRelL, Bool.and_true, Bool.and_eq_true, beq_iff_eq]
    exact ⟨by rw [v1]; exact fx_floordiv ea eb hpos, by rw [v2]; exact fx_mod ea eb hpos⟩
  case lt =>
    simp only at hex
    obtain ⟨ka, kb⟩ := numK hex
    obtain ⟨qa, qb, na, nb, -, -⟩ := gen ka kb
    have := cmpCase .lt ka kb h qa qb na nb
    simpa only [fxBinFx, na, nb, fxArithQ] using this
  case gt =>
    simp only at hex
    obtain ⟨ka, kb⟩ := numK hex
    obtain ⟨qa, qb, na, nb, -, -⟩ := gen ka kb
    have := cmpCase .gt ka kb h qa qb na nb
    simpa only [fxBinFx, na, nb, fxArithQ] using this
  case le =>
    simp only at hex
    obtain ⟨ka, kb⟩ := numK hex
    obtain ⟨qa, qb, na, nb, -, -⟩ := gen ka kb
    have := cmpCase .le ka kb h qa qb na nb
    simpa only [fxBinFx, na, nb, fxArithQ] using this
  case ge =>
    simp only at hex
    obtain ⟨ka, kb⟩ := numK hex
    obtain ⟨qa, qb, na, nb, -, -⟩ := gen ka kb
    have := cmpCase .ge ka kb h qa qb na nb
    simpa only [fxBinFx, na, nb, fxArithQ] using this
  case eq =>
    simp only at hex
    obtain ⟨ka, kb⟩ := numK hex
    obtain ⟨qa, qb, na, nb, -, -⟩ := gen ka kb
    have := cmpCase .eq ka kb h qa qb na nb
    simpa only [fxBinFx, na, nb, fxArithQ] using this
  case ne =>
    simp only at hex
    obtain ⟨ka, kb⟩ := numK hex
    obtain ⟨qa, qb, na, nb, -, -⟩ := gen ka kb
    have := cmpCase .ne ka kb h qa qb na nb
    simpa only [fxBinFx, na, nb, fxArithQ] using this
  case lshift =>
    cases a <;> cases b <;> simp only [reduceCtorEq] at hex
    rename_i x n
    rw [fxRel_fxp_iff] at ha; obtain ⟨q, rfl, hq⟩ := ha
    rw [fxRel_int_iff] at hb; subst hb
    obtain ⟨rfl, hn, z, rfl, vz⟩ := fx_lshiftV_fxp_val h
    have hn' : ¬ n < 0 := by omega
    refine ⟨Same.refl _, .fx (q * 2 ^ n.toNat), by simp only [fxBinFx, hn', if_false], ?_⟩
    rw [fxRel_fxp_iff]; exact ⟨_, rfl, by rw [vz]; push_cast; rw [hq]; ring⟩
  case rshift =>
    cases a <;> cases b <;> simp only [reduceCtorEq] at hex
    rename_i x n
    rw [fxRel_fxp_iff] at ha; obtain ⟨q, rfl, hq⟩ := ha
    rw [fxRel_int_iff] at hb; subst hb
    obtain ⟨sm, hn, z, rfl, vz⟩ := fx_rshiftV_fxp_val hp.ign h
    have hn' : ¬ n < 0 := by omega
    refine ⟨sm, .fx (fxFloor s.resolution (q / 2 ^ n.toNat)), by simp only [fxBinFx, hn', if_false], ?_⟩
    rw [fxRel_fxp_iff]; exact ⟨_, rfl, by rw [vz]; exact fx_rshift _ hq⟩
  case pow => simp at hex
  case band => simp at hex
  case bxor => simp at hex
  case bor => simp at hex


theorem fxRel_intRes {k : Int} (ha : fxRel s.resolution a wa = true) (hb : fxRel s.resolution b wb = true)
    (hr : fxIntRes a b k v) : fxRel s.resolution v (fxMkInt wa wb k) = true := by
  have fa := fxRel_flags ha
  have fb := fxRel_flags hb
  unfold fxIntRes at hr
  unfold fxMkInt
  rw [fa.2.2, fb.2.2]
  split at hr
  · rename_i hh; subst hr; rw [if_pos hh, fxRel_int_iff]
  · rename_i hh; obtain ⟨z, rfl, vz⟩ := hr
    rw [if_neg hh, fxRel_lc_iff, vz]

theorem fxLI_of {x : Val} (hk : x.fxIntK = true) (hl : x.fxIsLcb = false) : x.fxLI = true := by
  cases x <;> simp_all [Val.fxIntK, Val.fxIsLcb, Val.fxLI]

/-- both operands of integer kind -/
theorem fx_binopV_int_rel {op : BinOp} (hp : Plain s) (ha : fxRel s.resolution a wa = true)
    (hb : fxRel s.resolution b wb = true) (hf : (a.isFxp || b.isFxp) = false)
    (hex : fxExclBin op a b = none) (h : binopV op a b s = .ok (v, s')) :
    Same s s' ∧ ∃ w, fxBinInt op wa wb = .val w ∧ fxRel s.resolution v w = true := by
  simp only [fxExclBin, hf, Bool.false_eq_true, if_false] at hex
  have hk : a.fxIntK = true ∧ b.fxIntK = true := by
    by_cases hk : (a.fxIntK && b.fxIntK) = true
    · simpa using hk
    · simp [hk] at hex
  simp only [hk.1, hk.2, Bool.and_self, if_true] at hex
  have fa := fxRel_flags ha
  have fb := fxRel_flags hb
  have na := fxRel_num hk.1 ha
  have nb := fxRel_num hk.2 hb
  -- for the operators beyond + - *: no boolean operand, and at least one secret
  have nolcb : ((if (a.fxIsLcb || b.fxIsLcb) = true then some FxExcl.boolOperand else none) = none) →
      a.fxLI = true ∧ b.fxLI = true := by
    intro hh
    by_cases hl : (a.fxIsLcb || b.fxIsLcb) = true
    · simp [hl] at hh
    · simp only [Bool.or_eq_true, not_or, Bool.not_eq_true] at hl
      exact ⟨fxLI_of hk.1 hl.1, fxLI_of hk.2 hl.2⟩
  have secret : ∀ {α} {m : Val → Val → M α} {r : α}, (∀ c d, m (.int c) (.int d) = raise .unmodelled) →
      m a b s = .ok (r, s') → (a.isInt && b.isInt) = false := by
    intro α m r hm hh
    by_cases hi : (a.isInt && b.isInt) = true
    · cases a <;> cases b <;> simp [Val.isInt] at hi
      rw [hm] at hh; exact (raise_ok.mp hh).elim
    · simpa using hi
  have cmpCase : ∀ (c : Cmp), a.fxLI = true → b.fxLI = true → cmpV c a b s = .ok (v, s') →
      (wa.isPlainInt && wb.isPlainInt) = false ∧
      (Same s s' ∧ ∃ w, FxRes.val (FxV.sbool (fxCmpZ c a.num b.num)) = .val w ∧
        fxRel s.resolution v w = true) := by
    intro c la lb hc
    have hs := secret (m := cmpV c) (fun _ _ => rfl) hc
    obtain ⟨sm, r, rfl, vr⟩ := fx_cmpV_intK_val hp la lb hs hc
    refine ⟨by rw [fa.2.2, fb.2.2]; exact hs, sm, _, rfl, ?_⟩
    exact fxRel_sbool (by rw [vr, fxCmpZ_eq]) (by rw [fxCmpZ_eq]; exact fx_cmpSem_01 _ _ _)
  cases op
  case add =>
    obtain ⟨rfl, hr⟩ := fx_addV_int_val hk.1 hk.2 h
    exact ⟨Same.refl _, _, by simp only [fxBinInt, na, nb], fxRel_intRes ha hb hr⟩
  case sub =>
    obtain ⟨rfl, hr⟩ := fx_subV_int_val hk.1 hk.2 h
    exact ⟨Same.refl _, _, by simp only [fxBinInt, na, nb], fxRel_intRes ha hb hr⟩
  case mul =>
    obtain ⟨sm, hr⟩ := fx_mulV_int_val hk.1 hk.2 h
    exact ⟨sm, _, by simp only [fxBinInt, na, nb], fxRel_intRes ha hb hr⟩
  case truediv =>
    simp only at hex
    obtain ⟨la, lb⟩ := nolcb hex
    have hs := secret (m := truedivV) (fun _ _ => rfl) h
    obtain ⟨sm, z, rfl, h0, hm, vz⟩ := fx_truedivV_intK_val hp la lb hs h
    have hs' : (wa.isPlainInt && wb.isPlainInt) = false := by rw [fa.2.2, fb.2.2]; exact hs
    refine ⟨sm, .sint (Int.fdiv a.num b.num), ?_, by rw [fxRel_lc_iff, vz]⟩
    simp only [fxBinInt, na, nb, hs', Bool.false_eq_true, if_false, h0, hm, ne_eq, not_true_eq_false]
  case floordiv =>
    simp only at hex
    obtain ⟨la, lb⟩ := nolcb hex
    have hs := secret (m := divmodV .quo) (fun _ _ => rfl) h
    obtain ⟨sm, qr, rfl, h0, v1, -⟩ := fx_divmodV_intK_val la lb hs h
    have hs' : (wa.isPlainInt && wb.isPlainInt) = false := by rw [fa.2.2, fb.2.2]; exact hs
    refine ⟨sm, .sint (Int.fdiv a.num b.num), ?_, by simp only [pickL]; rw [fxRel_lc_iff, v1]⟩
    simp only [fxBinInt, na, nb, hs', Bool.false_eq_true, if_false, h0]
  case mod =>
    simp only at hex
    obtain ⟨la, lb⟩ := nolcb hex
    have hs := secret (m := divmodV .rem) (fun _ _ => rfl) h
    obtain ⟨sm, qr, rfl, h0, -, v2⟩ := fx_divmodV_intK_val la lb hs h
    have hs' : (wa.isPlainInt && wb.isPlainInt) = false := by rw [fa.2.2, fb.2.2]; exact hs
    refine ⟨sm, .sint (Int.fmod a.num b.num), ?_, by simp only [pickL]; rw [fxRel_lc_iff, v2]⟩
    simp only [fxBinInt, na, nb, hs', Bool.false_eq_true, if_false, h0]
  case divmod =>
    simp only at hex
    obtain ⟨la, lb⟩ := nolcb hex
    have hs := secret (m := divmodV .both) (fun _ _ => rfl) h
    obtain ⟨sm, qr, rfl, h0, v1, v2⟩ := fx_divmodV_intK_val la lb hs h
    have hs' : (wa.isPlainInt && wb.isPlainInt) = false := by rw [fa.2.2, fb.2.2]; exact hs
    refine ⟨sm, .tuple [.sint (Int.fdiv a.num b.num), .sint (Int.fmod a.num b.num)], ?_, ?_⟩
    · simp only [fxBinInt, na, nb, hs', Bool.false_eq_true, if_false, h0]
    · simp only [pickL, fxRel, fxRelL, Bool.and_true, Bool.and_eq_true, beq_iff_eq]
      exact ⟨v1, v2⟩
  case lt =>
    simp only at hex
    obtain ⟨la, lb⟩ := nolcb hex
    obtain ⟨hs', this⟩ := cmpCase .lt la lb h
    simpa only [fxBinInt, na, nb, hs', Bool.false_eq_true, if_false] using this
  case le =>
    simp only at hex
    obtain ⟨la, lb⟩ := nolcb hex
    obtain ⟨hs', this⟩ := cmpCase .le la lb h
    simpa only [fxBinInt, na, nb, hs', Bool.false_eq_true, if_false] using this
  case eq =>
    simp only at hex
    obtain ⟨la, lb⟩ := nolcb hex
    obtain ⟨hs', this⟩ := cmpCase .eq la lb h
    simpa only [fxBinInt, na, nb, hs', Bool.false_eq_true, if_false] using this
  case ne =>
    simp only at hex
    obtain ⟨la, lb⟩ := nolcb hex
    obtain ⟨hs', this⟩ := cmpCase .ne la lb h
    simpa only [fxBinInt, na, nb, hs', Bool.false_eq_true, if_false] using this
  case gt =>
    simp only at hex
    obtain ⟨la, lb⟩ := nolcb hex
    obtain ⟨hs', this⟩ := cmpCase .gt la lb h
    simpa only [fxBinInt, na, nb, hs', Bool.false_eq_true, if_false] using this
  case ge =>
    simp only at hex
    obtain ⟨la, lb⟩ := nolcb hex
    obtain ⟨hs', this⟩ := cmpCase .ge la lb h
    simpa only [fxBinInt, na, nb, hs', Bool.false_eq_true, if_false] using this
  case pow => simp at hex
  case lshift => simp at hex
  case rshift => simp at hex
  case band => simp at hex
  case bxor => simp at hex
  case bor => simp at hex

/-- **every binary operator of the fragment** -/
theorem fx_binopV_rel {op : BinOp} (hp : Plain s) (ha : fxRel s.resolution a wa = true)
    (hb : fxRel s.resolution b wb = true) (hex : fxExclBin op a b = none)
    (h : binopV op a b s = .ok (v, s')) :
    Same s s' ∧ ∃ w, fxBin s.resolution op wa wb = .val w ∧ fxRel s.resolution v w = true := by
  unfold fxBin
  rw [(fxRel_flags ha).1, (fxRel_flags hb).1]
  by_cases hf : (a.isFxp || b.isFxp) = true
  · rw [if_pos hf]; exact fx_binopV_fx_rel hp ha hb hf hex h
  · rw [if_neg hf]; exact fx_binopV_int_rel hp ha hb (by simpa using hf) hex h

end bin


/-! ## unary operators, constructors, methods, selection -/
section other
variable {s s' : St} {a v : Val} {wa : FxV}

theorem fx_unV_rel {op : Un} (hp : Plain s) (ha : fxRel s.resolution a wa = true)
    (hex : fxExclUn op a = none) (h : unV op a s = .ok (v, s')) :
    Same s s' ∧ ∃ w, fxUn op wa = .val w ∧ fxRel s.resolution v w = true := by
  cases op
  case neg =>
    unfold unV at h; simp only at h
    cases a
    case none => exact (tyErr_ok.mp h).elim
    case list => exact (tyErr_ok.mp h).elim
    case tuple => exact (tyErr_ok.mp h).elim
    case int c =>
      obtain ⟨rfl, rfl⟩ := pure_ok' h
      rw [fxRel_int_iff] at ha; subst ha
      exact ⟨Same.refl _, _, rfl, by rw [fxRel_int_iff]⟩
    case flt m e =>
      obtain ⟨rfl, rfl⟩ := pure_ok' h
      rw [fxRel_flt_iff] at ha; subst ha
      refine ⟨Same.refl _, _, rfl, ?_⟩
      rw [fxRel_flt_iff]; congr 1; push_cast; ring
    case lc x =>
      obtain ⟨rfl, rfl⟩ := pure_ok' h
      rw [fxRel_lc_iff] at ha; subst ha
      exact ⟨Same.refl _, _, rfl, by rw [fxRel_lc_iff]; rfl⟩
    case lcb x =>
      obtain ⟨rfl, rfl⟩ := pure_ok' h
      rw [fxRel_lcb_iff] at ha; obtain ⟨rfl, -⟩ := ha
      exact ⟨Same.refl _, _, rfl, by rw [fxRel_lc_iff]; rfl⟩
    case fxp x =>
      obtain ⟨rfl, rfl⟩ := pure_ok' h
      rw [fxRel_fxp_iff] at ha; obtain ⟨q, rfl, hq⟩ := ha
      refine ⟨Same.refl _, _, rfl, ?_⟩
      rw [fxRel_fxp_iff]; exact ⟨_, rfl, by rw [neg_value]; push_cast; rw [hq]; ring⟩
  case pos =>
    unfold unV at h
    cases a <;> simp only at h
    case lc x =>
      obtain ⟨rfl, rfl⟩ := pure_ok' h
      rw [fxRel_lc_iff] at ha; subst ha
      exact ⟨Same.refl _, _, rfl, by rw [fxRel_lc_iff]⟩
    case lcb x =>
      obtain ⟨rfl, rfl⟩ := pure_ok' h
      have ha' := ha
      rw [fxRel_lcb_iff] at ha; obtain ⟨rfl, -⟩ := ha
      exact ⟨Same.refl _, _, rfl, ha'⟩
    case fxp x =>
      obtain ⟨rfl, rfl⟩ := pure_ok' h
      have ha' := ha
      rw [fxRel_fxp_iff] at ha; obtain ⟨q, rfl, hq⟩ := ha
      exact ⟨Same.refl _, _, rfl, ha'⟩
    all_goals exact (raise_ok.mp h).elim
  case abs =>
    cases a
    case lc x =>
      obtain ⟨sm, z, rfl, vz⟩ := absV_val hp h
      rw [fxRel_lc_iff] at ha; subst ha
      refine ⟨sm, _, rfl, ?_⟩
      rw [fxRel_lc_iff, vz]; congr 1
      split
      · rename_i hn; exact (abs_of_neg hn).symm
      · rename_i hn; exact (abs_of_nonneg (not_lt.mp hn)).symm
    case fxp x =>
      obtain ⟨sm, z, rfl, vz⟩ := fx_absV_fxp_val hp h
      rw [fxRel_fxp_iff] at ha; obtain ⟨q, rfl, hq⟩ := ha
      refine ⟨sm, _, rfl, ?_⟩
      rw [fxRel_fxp_iff]; refine ⟨_, rfl, ?_⟩
      have hg := fx_pow_pos s.resolution
      have hiff : x.value < 0 ↔ q < 0 := by
        rw [← Int.cast_lt (R := ℚ), hq, Int.cast_zero]
        constructor
        · intro hh; by_contra hc; exact absurd hh (not_lt.mpr (mul_nonneg (not_lt.mp hc) hg.le))
        · intro hh; exact mul_neg_of_neg_of_pos hh hg
      rw [vz]
      by_cases hn : x.value < 0
      · rw [if_pos hn, if_pos (hiff.mp hn)]; push_cast; rw [hq]; ring
      · rw [if_neg hn, if_neg (fun hh => hn (hiff.mpr hh))]; exact hq
    case lcb x => simp [fxExclUn, Val.fxIsLcb] at hex
    all_goals (unfold unV at h; simp only at h; exact (raise_ok.mp h).elim)
  case invert => simp [fxExclUn] at hex

theorem fx_pubValBool_val {c : Int} {x : LinComb} (h1 : pubValBool c s = .ok (x, s')) :
    Same s s' ∧ x.value = c ∧ (c = 0 ∨ c = 1) := by
  unfold pubValBool at h1
  split at h1
  · cases h1
  · obtain ⟨y, s2, h2, h3⟩ := bind_ok.mp h1
    obtain ⟨sm1, v1⟩ := pubVal_val h2
    obtain ⟨sm2, rfl, hb⟩ := mkBool_val h3
    exact ⟨sm1.trans sm2, v1, v1 ▸ hb⟩

theorem fx_mkVal_rel {k : Kind} (ha : fxRel s.resolution a wa = true) (h : mkVal k a s = .ok (v, s')) :
    Same s s' ∧ ∃ w, fxMk s.resolution k wa = .val w ∧ fxRel s.resolution v w = true := by
  unfold mkVal at h
  cases k <;> cases a <;> simp only at h
  all_goals try exact (raise_ok.mp h).elim
  -- priv, pub, const on an int
  · obtain ⟨x, s1, h1, h⟩ := bind_ok.mp h
    obtain ⟨rfl, rfl⟩ := pure_ok' h
    obtain ⟨sm, vx⟩ := privVal_val h1
    rw [fxRel_int_iff] at ha; subst ha
    exact ⟨sm, _, rfl, by rw [fxRel_lc_iff, vx]⟩
  · obtain ⟨x, s1, h1, h⟩ := bind_ok.mp h
    obtain ⟨rfl, rfl⟩ := pure_ok' h
    obtain ⟨sm, vx⟩ := pubVal_val h1
    rw [fxRel_int_iff] at ha; subst ha
    exact ⟨sm, _, rfl, by rw [fxRel_lc_iff, vx]⟩
  · obtain ⟨rfl, rfl⟩ := pure_ok' h
    rw [fxRel_int_iff] at ha; subst ha
    exact ⟨Same.refl _, _, rfl, by rw [fxRel_lc_iff]; rfl⟩
  -- privb, pubb
  · obtain ⟨x, s1, h1, h⟩ := bind_ok.mp h
    obtain ⟨rfl, rfl⟩ := pure_ok' h
    obtain ⟨sm, vx, hb⟩ := privValBool_val h1
    rw [fxRel_int_iff] at ha; subst ha
    refine ⟨sm, _, by simp only [fxMk, fxIsBool_iff.mpr hb, if_true]; rfl, ?_⟩
    rw [fxRel_lcb_iff, vx]; exact ⟨rfl, hb⟩
  · obtain ⟨x, s1, h1, h⟩ := bind_ok.mp h
    obtain ⟨rfl, rfl⟩ := pure_ok' h
    obtain ⟨sm, vx, hb⟩ := fx_pubValBool_val h1
    rw [fxRel_int_iff] at ha; subst ha
    refine ⟨sm, _, by simp only [fxMk, fxIsBool_iff.mpr hb, if_true]; rfl, ?_⟩
    rw [fxRel_lcb_iff, vx]; exact ⟨rfl, hb⟩
  -- privx on int, flt
  · rw [getRes_bind] at h
    obtain ⟨x, s1, h1, h⟩ := bind_ok.mp h
    obtain ⟨rfl, rfl⟩ := pure_ok' h
    obtain ⟨sm, vx⟩ := privVal_val h1
    rw [fxRel_int_iff] at ha; subst ha
    refine ⟨sm, _, rfl, ?_⟩
    rw [fxRel_fxp_iff]; exact ⟨_, rfl, by rw [vx]; push_cast; ring⟩
  · rw [getRes_bind] at h
    obtain ⟨x, s1, h1, h⟩ := bind_ok.mp h
    obtain ⟨rfl, rfl⟩ := pure_ok' h
    obtain ⟨sm, vx⟩ := privVal_val h1
    rw [fxRel_flt_iff] at ha; subst ha
    refine ⟨sm, _, rfl, ?_⟩
    rw [fxRel_fxp_iff]; exact ⟨_, rfl, by rw [vx]; exact fx_scaleFlt _ _ _⟩
  -- pubx on int, flt
  · rw [getRes_bind] at h
    obtain ⟨x, s1, h1, h⟩ := bind_ok.mp h
    obtain ⟨rfl, rfl⟩ := pure_ok' h
    obtain ⟨sm, vx⟩ := pubVal_val h1
    rw [fxRel_int_iff] at ha; subst ha
    refine ⟨sm, _, rfl, ?_⟩
    rw [fxRel_fxp_iff]; exact ⟨_, rfl, by rw [vx]; push_cast; ring⟩
  · rw [getRes_bind] at h
    obtain ⟨x, s1, h1, h⟩ := bind_ok.mp h
    obtain ⟨rfl, rfl⟩ := pure_ok' h
    obtain ⟨sm, vx⟩ := pubVal_val h1
    rw [fxRel_flt_iff] at ha; subst ha
    refine ⟨sm, _, rfl, ?_⟩
    rw [fxRel_fxp_iff]; exact ⟨_, rfl, by rw [vx]; exact fx_scaleFlt _ _ _⟩

theorem fx_wrapBool_rel (ha : fxRel s.resolution a wa = true) (h : wrapBool a s = .ok (v, s')) :
    Same s s' ∧ ∃ w, fxWrapb wa = .val w ∧ fxRel s.resolution v w = true := by
  unfold wrapBool at h
  cases a <;> simp only at h
  all_goals try exact (raise_ok.mp h).elim
  obtain ⟨x, s1, h1, h⟩ := bind_ok.mp h
  obtain ⟨rfl, rfl⟩ := pure_ok' h
  obtain ⟨sm, rfl, hb⟩ := mkBool_val h1
  rw [fxRel_lc_iff] at ha; subst ha
  refine ⟨sm, _, by simp only [fxWrapb, fxIsBool_iff.mpr hb, if_true]; rfl, ?_⟩
  rw [fxRel_lcb_iff]; exact ⟨rfl, hb⟩

theorem fx_wrapFxp_rel (ha : fxRel s.resolution a wa = true) (h : wrapFxp a s = .ok (v, s')) :
    s' = s ∧ ∃ w, fxWrapx wa = .val w ∧ fxRel s.resolution v w = true := by
  unfold wrapFxp at h
  cases a <;> simp only at h
  all_goals try exact (raise_ok.mp h).elim
  rw [getRes_bind] at h
  obtain ⟨rfl, rfl⟩ := pure_ok' h
  rw [fxRel_lc_iff] at ha; subst ha
  refine ⟨rfl, _, rfl, ?_⟩
  rw [fxRel_fxp_iff]; exact ⟨_, rfl, by rw [mulI_value]; push_cast; ring⟩

theorem fx_zero_iff {r : ℕ} {x : ℤ} {q : ℚ} (hq : (x : ℚ) = q * 2 ^ r) : x = 0 ↔ q = 0 := by
  have hg := fx_pow_ne r
  constructor
  · intro hx; rw [hx, Int.cast_zero] at hq
    exact (mul_eq_zero.mp hq.symm).resolve_right hg
  · intro h0; rw [h0, zero_mul] at hq; exact_mod_cast hq

theorem fx_nonneg_iff {r : ℕ} {x : ℤ} {q : ℚ} (hq : (x : ℚ) = q * 2 ^ r) : x ≥ 0 ↔ 0 ≤ q := by
  have hg := fx_pow_pos r
  have hc : (0 : ℚ) ≤ (x : ℚ) ↔ 0 ≤ x := by exact_mod_cast Iff.rfl
  rw [ge_iff_le, ← hc, hq]
  constructor
  · intro hh; by_contra hc
    exact absurd hh (not_le.mpr (mul_neg_of_neg_of_pos (not_le.mp hc) hg))
  · intro hh; exact mul_nonneg hh hg.le

theorem fx_callMeth_rel {m : Meth} {args : List Val} (hp : Plain s) (ha : fxRel s.resolution a wa = true)
    (hex : fxExclCall m args = none) (h : callMeth m a args s = .ok (v, s')) :
    Same s s' ∧ ∃ w, fxCall m wa = .val w ∧ fxRel s.resolution v w = true := by
  have b01 : ∀ (P : Prop) [Decidable P], fxIsBool (if P then 1 else 0) = true := by
    intro P _; split <;> rfl
  have b10 : ∀ (P : Prop) [Decidable P], fxIsBool (if P then 0 else 1) = true := by
    intro P _; split <;> rfl
  cases a
  case lc x =>
    rw [fxRel_lc_iff] at ha; subst ha
    unfold callMeth at h
    cases m <;> simp only [fxExclCall, reduceCtorEq] at hex <;> simp only at h
    · -- val
      obtain ⟨k, s1, h1, h⟩ := bind_ok.mp h
      obtain ⟨rfl, rfl⟩ := pure_ok' h
      obtain ⟨sm, rfl⟩ := valL_val h1
      exact ⟨sm, _, rfl, by rw [fxRel_int_iff]⟩
    · -- checkPositive
      have hargs : args = [] := by
        cases args
        · rfl
        · simp at hex
      subst hargs
      unfold argNat? at h
      obtain ⟨n, s1, h1, h⟩ := bind_ok.mp h
      obtain ⟨rfl, rfl⟩ := pure_ok' h1
      obtain ⟨r, s2, h2, h⟩ := bind_ok.mp h
      obtain ⟨rfl, rfl⟩ := pure_ok' h
      obtain ⟨sm, vr, -⟩ := checkPositive_val hp.guard hp.ign h2
      exact ⟨sm, _, rfl, fxRel_sbool vr (b01 _)⟩
    · -- checkZero
      obtain ⟨r, s2, h2, h⟩ := bind_ok.mp h
      obtain ⟨rfl, rfl⟩ := pure_ok' h
      obtain ⟨sm, vr⟩ := checkZero_val h2
      exact ⟨sm, _, rfl, fxRel_sbool vr (b01 _)⟩
    · -- checkNonzero
      obtain ⟨r, s2, h2, h⟩ := bind_ok.mp h
      obtain ⟨rfl, rfl⟩ := pure_ok' h
      obtain ⟨sm, vr⟩ := checkNonzero_val h2
      exact ⟨sm, _, rfl, fxRel_sbool vr (b10 _)⟩
  case lcb x =>
    rw [fxRel_lcb_iff] at ha; obtain ⟨rfl, -⟩ := ha
    unfold callMeth at h
    cases m <;> simp only [fxExclCall, reduceCtorEq] at hex <;> simp only at h
    · obtain ⟨k, s1, h1, h⟩ := bind_ok.mp h
      obtain ⟨rfl, rfl⟩ := pure_ok' h
      obtain ⟨sm, rfl⟩ := valL_val h1
      exact ⟨sm, _, rfl, by rw [fxRel_int_iff]⟩
    · split at h
      · obtain ⟨r, s2, h2, h⟩ := bind_ok.mp h
        obtain ⟨rfl, rfl⟩ := pure_ok' h
        obtain ⟨sm, vr, -⟩ := checkPositive_val hp.guard hp.ign h2
        exact ⟨sm, _, rfl, fxRel_sbool vr (b01 _)⟩
      · exact (tyErr_ok.mp h).elim
    · obtain ⟨r, s2, h2, h⟩ := bind_ok.mp h
      obtain ⟨rfl, rfl⟩ := pure_ok' h
      obtain ⟨sm, vr⟩ := checkZero_val h2
      exact ⟨sm, _, rfl, fxRel_sbool vr (b01 _)⟩
    · exact (raise_ok.mp h).elim
  case fxp x =>
    rw [fxRel_fxp_iff] at ha; obtain ⟨q, rfl, hq⟩ := ha
    cases m <;> simp only [fxExclCall, reduceCtorEq] at hex
    · obtain ⟨sm, rfl, -⟩ := valX_val h
      refine ⟨sm, _, rfl, ?_⟩
      rw [fxRel_flt_iff]; congr 1
      rw [hq]; exact (mul_div_cancel_right₀ _ (fx_pow_ne _)).symm
    · unfold callMeth at h; simp only at h
      split at h
      · obtain ⟨r, s2, h2, h⟩ := bind_ok.mp h
        obtain ⟨rfl, rfl⟩ := pure_ok' h
        obtain ⟨sm, vr, -⟩ := checkPositive_val hp.guard hp.ign h2
        refine ⟨sm, _, rfl, fxRel_sbool ?_ (b01 _)⟩
        rw [vr]; simp only [fx_nonneg_iff hq]
      · exact (tyErr_ok.mp h).elim
    · unfold callMeth at h; simp only at h
      obtain ⟨r, s2, h2, h⟩ := bind_ok.mp h
      obtain ⟨rfl, rfl⟩ := pure_ok' h
      obtain ⟨sm, vr⟩ := checkZero_val h2
      refine ⟨sm, _, rfl, fxRel_sbool ?_ (b01 _)⟩
      rw [vr]; simp only [fx_zero_iff hq]
    · unfold callMeth at h; simp only at h
      obtain ⟨r, s2, h2, h⟩ := bind_ok.mp h
      obtain ⟨rfl, rfl⟩ := pure_ok' h
      obtain ⟨sm, vr⟩ := checkNonzero_val h2
      refine ⟨sm, _, rfl, fxRel_sbool ?_ (b10 _)⟩
      rw [vr]; simp only [fx_zero_iff hq]
  all_goals
    unfold callMeth at h
    cases m <;> simp only [fxExclCall, reduceCtorEq] at hex <;> simp only at h <;>
      exact (raise_ok.mp h).elim

theorem fxSmallSame_rel {r : ℕ} {t f : Val} {wt wf : FxV} (ht : fxRel r t wt = true)
    (hf : fxRel r f wf = true) : fxSmallSame wt wf = smallIntSame t f := by
  cases t <;> cases wt <;> simp [fxRel] at ht <;>
    cases f <;> cases wf <;> simp [fxRel] at hf <;> simp_all [fxSmallSame, smallIntSame]

theorem fx_ifThenElse_rel {same : Bool} {c t f : Val} {wc wt wf : FxV} (hc : fxRel s.resolution c wc = true)
    (ht : fxRel s.resolution t wt = true) (hf : fxRel s.resolution f wf = true)
    (hex : same = false → fxExclIte c t f = none)
    (h : ifThenElse c same t f s = .ok (v, s')) :
    Same s s' ∧ ∃ w, fxIte s.resolution same wc wt wf = .val w ∧ fxRel s.resolution v w = true := by
  unfold fxIte
  rw [fxSmallSame_rel ht hf]
  by_cases hsame : (same || smallIntSame t f) = true
  · unfold ifThenElse at h
    rw [if_pos hsame] at h
    obtain ⟨rfl, rfl⟩ := pure_ok' h
    rw [if_pos hsame]
    exact ⟨Same.refl _, _, rfl, ht⟩
  · rw [if_neg hsame]
    simp only [Bool.or_eq_true, not_or, Bool.not_eq_true] at hsame
    obtain ⟨rfl, hsm⟩ := hsame
    have hex := hex rfl
    cases c
    case int k =>
      rw [fxRel_int_iff] at hc; subst hc
      unfold ifThenElse at h
      simp only [hsm, Bool.or_self, Bool.false_eq_true, if_false] at h
      split at h
      · exact (raise_ok.mp h).elim
      · rename_i hk
        obtain ⟨rfl, rfl⟩ := pure_ok' h
        simp only [hk, if_false]
        refine ⟨Same.refl _, _, rfl, ?_⟩
        split <;> assumption
    case lcb x =>
      rw [fxRel_lcb_iff] at hc; obtain ⟨rfl, hb⟩ := hc
      simp only [fxExclIte] at hex
      have ft := fxRel_flags ht
      have ff := fxRel_flags hf
      simp only [fxSel, ft.1, ff.1]
      by_cases hfx : (t.isFxp || f.isFxp) = true
      · rw [if_pos hfx] at hex ⊢
        have hk : t.fxNumK = true ∧ f.fxNumK = true := by
          by_cases hk : (t.fxNumK && f.fxNumK) = true
          · simpa using hk
          · simp [hk] at hex
        obtain ⟨qt, nt, et⟩ := fxRel_rep hk.1 ht
        obtain ⟨qf, nf, ef⟩ := fxRel_rep hk.2 hf
        obtain ⟨sm, z, rfl, vz⟩ := fx_ite_fxp_val hb hfx hk.1 h
        refine ⟨sm, _, by simp only [nt, nf]; rfl, ?_⟩
        rw [fxRel_fxp_iff]; refine ⟨_, rfl, ?_⟩
        rw [vz]; split <;> assumption
      · rw [if_neg hfx] at hex ⊢
        have hk : t.fxIntK = true ∧ f.fxIntK = true := by
          by_cases hk : (t.fxIntK && f.fxIntK) = true
          · simpa using hk
          · simp [hk] at hex
        have nt := fxRel_num hk.1 ht
        have nf := fxRel_num hk.2 hf
        obtain ⟨sm, z, rfl, vz, hzb⟩ := fx_ite_int_val hb hk.1 hk.2 hsm h
        have hsb : (wt.isSBool && wf.isSBool) = bothLcb t f := by
          cases t <;> cases wt <;> simp [fxRel] at ht <;>
            cases f <;> cases wf <;> simp [fxRel] at hf <;> rfl
        simp only [nt, nf, hsb]
        by_cases hbb : bothLcb t f = true
        · simp only [hbb, if_true]
          refine ⟨sm, _, rfl, ?_⟩
          rw [fxRel_lcb_iff, vz]
          exact ⟨rfl, vz ▸ hzb hbb⟩
        · simp only [hbb, Bool.false_eq_true, if_false]
          refine ⟨sm, _, rfl, ?_⟩
          rw [fxRel_lc_iff, vz]
    all_goals
      unfold ifThenElse at h
      simp only [hsm, Bool.or_self, Bool.false_eq_true, if_false] at h
      exact (raise_ok.mp h).elim

end other

end Pysnark
