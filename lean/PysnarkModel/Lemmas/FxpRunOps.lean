import PysnarkModel.Spec.FxpProg
import PysnarkModel.Lemmas.FxpValues
import PysnarkModel.Lemmas.ValuesDispatch
import PysnarkModel.Lemmas.IteTag
/-!
# C14 at program level, layer 1: what every dispatch function returns, on representations

`Lemmas/FxpValues.lean` states what the methods of `LinCombFxp` compute when the fixed-point value
is the LEFT operand.  Here the statements are lifted to the operator dispatch (`addV`, `mulV`,
`truedivV`, `divmodV`, `cmpV`, shifts, `abs`, `if_then_else`) for every operand order and kind:
whichever operand is the fixed-point one, the result is the stated integer function of the
representations `rep r a`, `rep r b` of the two operands.  The integer-only cases (`int`, integer
secret, boolean secret) needed by the program-level theorem are collected at the end.
-/
namespace Pysnark

set_option linter.unusedSimpArgs false

section
variable {s s' : St} {a b v : Val}

theorem fx_isFxp_iff {a : Val} : a.isFxp = true ↔ ∃ x, a = .fxp x := by
  cases a <;> simp [Val.isFxp]

/-! ## `+`, `-` -/
theorem fx_addV_fxp_val (hf : (a.isFxp || b.isFxp) = true) (h : addV a b s = .ok (v, s')) :
    s' = s ∧ ∃ z, v = .fxp z ∧ z.value = rep s.resolution a + rep s.resolution b := by
  cases a with
  | fxp x =>
    unfold addV at h; simp only at h
    obtain ⟨e, z, hz, hv⟩ := addXV_val h
    exact ⟨e, z, hz, by rw [hv]; rfl⟩
  | lc x =>
    cases b with
    | fxp y =>
      unfold addV addLV at h; simp only at h; rw [getRes_bind] at h
      obtain ⟨rfl, rfl⟩ := pure_ok' h
      exact ⟨rfl, _, rfl, by simp only [rep, add_value, mulI_value]; ring⟩
    | _ => simp [Val.isFxp] at hf
  | lcb x =>
    cases b with
    | fxp y =>
      unfold addV addLV at h; simp only at h; rw [getRes_bind] at h
      obtain ⟨rfl, rfl⟩ := pure_ok' h
      exact ⟨rfl, _, rfl, by simp only [rep, add_value, mulI_value]; ring⟩
    | _ => simp [Val.isFxp] at hf
  | int c =>
    cases b with
    | fxp y =>
      unfold addV at h; simp only at h
      obtain ⟨e, z, hz, hv⟩ := addXV_val h
      exact ⟨e, z, hz, by rw [hv]; simp only [rep]; ring⟩
    | _ => simp [Val.isFxp] at hf
  | flt m e =>
    cases b with
    | fxp y =>
      unfold addV at h; simp only at h
      obtain ⟨e, z, hz, hv⟩ := addXV_val h
      exact ⟨e, z, hz, by rw [hv]; simp only [rep]; ring⟩
    | _ => simp [Val.isFxp] at hf
  | none =>
    cases b with
    | fxp y => unfold addV at h; simp only at h; exact (tyErr_ok.mp h).elim
    | _ => simp [Val.isFxp] at hf
  | list l =>
    cases b with
    | fxp y => unfold addV at h; simp only at h; exact (tyErr_ok.mp h).elim
    | _ => simp [Val.isFxp] at hf
  | tuple l =>
    cases b with
    | fxp y => unfold addV at h; simp only at h; exact (tyErr_ok.mp h).elim
    | _ => simp [Val.isFxp] at hf

theorem fx_negV_isFxp {nb : Val} (h : negV b s = .ok (nb, s')) : nb.isFxp = b.isFxp := by
  unfold negV at h
  split at h
  all_goals first
    | exact (tyErr_ok.mp h).elim
    | (obtain ⟨rfl, -⟩ := pure_ok' h; rfl)

theorem fx_subV_fxp_val (hf : (a.isFxp || b.isFxp) = true) (h : subV a b s = .ok (v, s')) :
    s' = s ∧ ∃ z, v = .fxp z ∧ z.value = rep s.resolution a - rep s.resolution b := by
  unfold subV at h
  split at h
  · simp [Val.isFxp] at hf
  · obtain ⟨nb, s1, h1, h2⟩ := bind_ok.mp h
    obtain ⟨e1, hn⟩ := negV_val h1 s.resolution
    subst e1
    have hf' : (a.isFxp || nb.isFxp) = true := by rw [fx_negV_isFxp h1]; exact hf
    obtain ⟨e2, z, rfl, hz⟩ := fx_addV_fxp_val hf' h2
    exact ⟨e2, z, rfl, by rw [hz, hn]; ring⟩

/-! ## `*` -/
/-- the representation of a product with at least one fixed-point factor -/
def fxMulSem (r : Nat) : Val → Val → Int
  | .fxp x, b => mulXSem r x.value b
  | a, .fxp y => mulXSem r y.value a
  | _, _ => 0

theorem fx_mulV_fxp_val (hf : (a.isFxp || b.isFxp) = true) (h : mulV a b s = .ok (v, s')) :
    Same s s' ∧ ∃ z, v = .fxp z ∧ z.value = fxMulSem s.resolution a b := by
  cases a with
  | fxp x =>
    unfold mulV at h; simp only at h
    exact mulXV_val h
  | lc x =>
    cases b with
    | fxp y =>
      unfold mulV mulLV at h; simp only at h
      obtain ⟨z, s1, h1, h⟩ := bind_ok.mp h
      obtain ⟨rfl, rfl⟩ := pure_ok' h
      obtain ⟨sm, v1⟩ := mulLL_val h1
      exact ⟨sm, _, rfl, v1⟩
    | _ => simp [Val.isFxp] at hf
  | lcb x =>
    cases b with
    | fxp y =>
      unfold mulV mulLV at h; simp only at h
      obtain ⟨z, s1, h1, h⟩ := bind_ok.mp h
      obtain ⟨rfl, rfl⟩ := pure_ok' h
      obtain ⟨sm, v1⟩ := mulLL_val h1
      exact ⟨sm, _, rfl, v1⟩
    | _ => simp [Val.isFxp] at hf
  | int c =>
    cases b with
    | fxp y => unfold mulV at h; simp only at h; exact mulXV_val h
    | _ => simp [Val.isFxp] at hf
  | flt m e =>
    cases b with
    | fxp y => unfold mulV at h; simp only at h; exact mulXV_val h
    | _ => simp [Val.isFxp] at hf
  | none =>
    cases b with
    | fxp y => unfold mulV at h; simp only at h; exact (tyErr_ok.mp h).elim
    | _ => simp [Val.isFxp] at hf
  | list l =>
    cases b with
    | fxp y => unfold mulV at h; simp only at h; exact (tyErr_ok.mp h).elim
    | _ => simp [Val.isFxp] at hf
  | tuple l =>
    cases b with
    | fxp y => unfold mulV at h; simp only at h; exact (tyErr_ok.mp h).elim
    | _ => simp [Val.isFxp] at hf


/-! ## `/` -/
theorem fx_floordivLL_val' {x y q : LinComb} (hi : s.ignoreErrors = false)
    (h : floordivLL x y s = .ok (q, s')) :
    Same s s' ∧ q.value = Int.fdiv x.value y.value ∧ 0 < y.value := by
  unfold floordivLL at h
  obtain ⟨qr, s1, h1, h⟩ := bind_ok.mp h
  obtain ⟨rfl, rfl⟩ := pure_ok' h
  obtain ⟨sm, -, v1, -, hr⟩ := divmodLL_val h1
  exact ⟨sm, v1, by have := hr hi; omega⟩

theorem fx_floordivLI_val' {x q : LinComb} {c : Int} (hi : s.ignoreErrors = false)
    (h : floordivLI x c s = .ok (q, s')) :
    Same s s' ∧ q.value = Int.fdiv x.value c ∧ 0 < c := by
  unfold floordivLI at h
  obtain ⟨qr, s1, h1, h⟩ := bind_ok.mp h
  obtain ⟨rfl, rfl⟩ := pure_ok' h
  obtain ⟨sm, -, v1, -, hr⟩ := divmodLL_val h1
  exact ⟨sm, v1, by have := hr hi; simp only [const_value] at this; omega⟩

/-- `LinCombFxp.__truediv__`: `⌊a·2^r / rep b⌋`, and the divisor's representation is positive
(a zero divisor raises ValueError, a negative one AssertionError) -/
theorem fx_truedivXV_val' {x q : LinComb} {o : Val} (hi : s.ignoreErrors = false)
    (h : truedivXV x o s = .ok (some q, s')) :
    Same s s' ∧ q.value = Int.fdiv (x.value * 2 ^ s.resolution) (rep s.resolution o) ∧
      0 < rep s.resolution o := by
  have hp : (0 : Int) < 2 ^ s.resolution := by positivity
  unfold truedivXV at h
  rw [getRes_bind] at h
  split at h
  · obtain ⟨q1, s1, h1, h⟩ := bind_ok.mp h
    obtain ⟨he, rfl⟩ := pure_ok' h
    cases he
    obtain ⟨sm, v1, hc⟩ := fx_floordivLI_val' hi h1
    exact ⟨sm, by rw [v1]; simp only [rep]; rw [fdiv_mul_pow], by simp only [rep]; positivity⟩
  · obtain ⟨q1, s1, h1, h⟩ := bind_ok.mp h
    obtain ⟨he, rfl⟩ := pure_ok' h
    cases he
    obtain ⟨sm, v1, hc⟩ := fx_floordivLI_val' hi h1
    exact ⟨sm, v1, hc⟩
  · obtain ⟨q1, s1, h1, h⟩ := bind_ok.mp h
    obtain ⟨he, rfl⟩ := pure_ok' h
    cases he
    obtain ⟨sm, v1, hc⟩ := fx_floordivLL_val' hi h1
    exact ⟨sm, v1, hc⟩
  · obtain ⟨q1, s1, h1, h⟩ := bind_ok.mp h
    obtain ⟨he, rfl⟩ := pure_ok' h
    cases he
    obtain ⟨sm, v1, hc⟩ := fx_floordivLL_val' hi h1
    exact ⟨sm, v1, hc⟩
  · obtain ⟨he, -⟩ := pure_ok' h
    cases he

/-- the reflected cases: `other / x` converts `other` with `_ensurefxp` first -/
theorem fx_rtruediv_fxp_val {y : LinComb} (hi : s.ignoreErrors = false)
    (h : (do let xs ← ensurefxp a
             match ← truedivXV xs (.fxp y) with
             | some q => pure (Val.fxp q)
             | Option.none => tyErr) s = .ok (v, s')) :
    Same s s' ∧ ∃ z, v = .fxp z ∧
      z.value = Int.fdiv (rep s.resolution a * 2 ^ s.resolution) y.value ∧ 0 < y.value := by
  obtain ⟨xs, s1, h1, k⟩ := bind_ok.mp h
  clear h
  obtain ⟨rfl, vx⟩ := ensurefxp_val h1
  obtain ⟨oq, s2, h2, k⟩ := bind_ok.mp k
  cases oq with
  | none => exact (tyErr_ok.mp k).elim
  | some q =>
    obtain ⟨rfl, rfl⟩ := pure_ok' k
    obtain ⟨sm, vq, hc⟩ := fx_truedivXV_val' hi h2
    exact ⟨sm, q, rfl, by rw [vq, vx]; rfl, hc⟩

theorem fx_truedivV_fxp_val (hi : s.ignoreErrors = false) (hf : (a.isFxp || b.isFxp) = true)
    (h : truedivV a b s = .ok (v, s')) :
    Same s s' ∧ ∃ z, v = .fxp z ∧
      z.value = Int.fdiv (rep s.resolution a * 2 ^ s.resolution) (rep s.resolution b) ∧
      0 < rep s.resolution b := by
  cases a with
  | fxp x =>
    unfold truedivV at h; simp only at h
    obtain ⟨oq, s1, h1, h⟩ := bind_ok.mp h
    cases oq with
    | none => exact (tyErr_ok.mp h).elim
    | some q =>
      obtain ⟨rfl, rfl⟩ := pure_ok' h
      obtain ⟨sm, vq, hc⟩ := fx_truedivXV_val' hi h1
      exact ⟨sm, q, rfl, vq, hc⟩
  | lc x =>
    cases b with
    | fxp y => unfold truedivV at h; simp only at h; exact fx_rtruediv_fxp_val hi h
    | _ => simp [Val.isFxp] at hf
  | lcb x =>
    cases b with
    | fxp y => unfold truedivV at h; simp only at h; exact fx_rtruediv_fxp_val hi h
    | _ => simp [Val.isFxp] at hf
  | int c =>
    cases b with
    | fxp y => unfold truedivV at h; simp only at h; exact fx_rtruediv_fxp_val hi h
    | _ => simp [Val.isFxp] at hf
  | flt m e =>
    cases b with
    | fxp y => unfold truedivV at h; simp only at h; exact fx_rtruediv_fxp_val hi h
    | _ => simp [Val.isFxp] at hf
  | none =>
    cases b with
    | fxp y => unfold truedivV at h; simp only at h; exact (raise_ok.mp h).elim
    | _ => simp [Val.isFxp] at hf
  | list l =>
    cases b with
    | fxp y => unfold truedivV at h; simp only at h; exact (raise_ok.mp h).elim
    | _ => simp [Val.isFxp] at hf
  | tuple l =>
    cases b with
    | fxp y => unfold truedivV at h; simp only at h; exact (raise_ok.mp h).elim
    | _ => simp [Val.isFxp] at hf

/-! ## `//`, `%`, `divmod` -/
theorem fx_divmodXV_val' {x : LinComb} {o : Val} {qr : LinComb × LinComb} (hi : s.ignoreErrors = false)
    (h : divmodXV x o s = .ok (some qr, s')) :
    Same s s' ∧ qr.1.value = Int.fdiv x.value (rep s.resolution o) * 2 ^ s.resolution ∧
      qr.2.value = Int.fmod x.value (rep s.resolution o) ∧ 0 < rep s.resolution o := by
  obtain ⟨sm, v1, v2⟩ := divmodXV_val h
  refine ⟨sm, v1, v2, ?_⟩
  unfold divmodXV at h
  rw [getRes_bind] at h
  dsimp only at h
  split at h
  all_goals first
    | (obtain ⟨qr1, s1, h1, h⟩ := bind_ok.mp h
       obtain ⟨-, -, -, -, hr⟩ := divmodLL_val h1
       have := hr hi
       simp only [rep, const_value, mulI_value] at this ⊢
       omega)
    | (obtain ⟨he, -⟩ := pure_ok' h; cases he)

theorem fx_rdivmod_fxp_val {w : DM} {y : LinComb} (hi : s.ignoreErrors = false)
    (h : (do let xs ← ensurefxp a
             match ← divmodXV xs (.fxp y) with
             | some qr => pure (pickX w qr)
             | Option.none => tyErr) s = .ok (v, s')) :
    Same s s' ∧ ∃ qr : LinComb × LinComb, v = pickX w qr ∧
      qr.1.value = Int.fdiv (rep s.resolution a) y.value * 2 ^ s.resolution ∧
      qr.2.value = Int.fmod (rep s.resolution a) y.value ∧ 0 < y.value := by
  obtain ⟨xs, s1, h1, k⟩ := bind_ok.mp h
  clear h
  obtain ⟨rfl, vx⟩ := ensurefxp_val h1
  obtain ⟨oq, s2, h2, k⟩ := bind_ok.mp k
  cases oq with
  | none => exact (tyErr_ok.mp k).elim
  | some qr =>
    obtain ⟨rfl, rfl⟩ := pure_ok' k
    obtain ⟨sm, v1, v2, hc⟩ := fx_divmodXV_val' hi h2
    exact ⟨sm, qr, rfl, by rw [v1, vx]; rfl, by rw [v2, vx]; rfl, hc⟩

theorem fx_divmodV_fxp_val {w : DM} (hi : s.ignoreErrors = false) (hf : (a.isFxp || b.isFxp) = true)
    (h : divmodV w a b s = .ok (v, s')) :
    Same s s' ∧ ∃ qr : LinComb × LinComb, v = pickX w qr ∧
      qr.1.value = Int.fdiv (rep s.resolution a) (rep s.resolution b) * 2 ^ s.resolution ∧
      qr.2.value = Int.fmod (rep s.resolution a) (rep s.resolution b) ∧
      0 < rep s.resolution b ∧ (w = .both → a.isFxp = true) := by
  cases a with
  | fxp x =>
    unfold divmodV at h; simp only at h
    obtain ⟨oq, s1, h1, h⟩ := bind_ok.mp h
    cases oq with
    | none => exact (tyErr_ok.mp h).elim
    | some qr =>
      obtain ⟨rfl, rfl⟩ := pure_ok' h
      obtain ⟨sm, v1, v2, hc⟩ := fx_divmodXV_val' hi h1
      exact ⟨sm, qr, rfl, v1, v2, hc, fun _ => rfl⟩
  | lc x =>
    cases b with
    | fxp y =>
      unfold divmodV at h; simp only at h
      obtain ⟨oq, s1, h1, h⟩ := bind_ok.mp h
      unfold divmodLV at h1
      obtain ⟨rfl, rfl⟩ := pure_ok' h1
      simp only at h
      split at h
      · exact (tyErr_ok.mp h).elim
      · rename_i hw
        obtain ⟨sm, qr, e, v1, v2, hc⟩ := fx_rdivmod_fxp_val hi h
        exact ⟨sm, qr, e, v1, v2, hc, fun hb => by simp [hb] at hw⟩
    | _ => simp [Val.isFxp] at hf
  | lcb x =>
    cases b with
    | fxp y =>
      unfold divmodV at h; simp only at h
      split at h
      · exact (tyErr_ok.mp h).elim
      · rename_i hw
        obtain ⟨sm, qr, e, v1, v2, hc⟩ := fx_rdivmod_fxp_val hi h
        exact ⟨sm, qr, e, v1, v2, hc, fun hb => by simp [hb] at hw⟩
    | _ => simp [Val.isFxp] at hf
  | int c =>
    cases b with
    | fxp y =>
      unfold divmodV at h; simp only at h
      split at h
      · exact (tyErr_ok.mp h).elim
      · rename_i hw
        obtain ⟨sm, qr, e, v1, v2, hc⟩ := fx_rdivmod_fxp_val hi h
        exact ⟨sm, qr, e, v1, v2, hc, fun hb => by simp [hb] at hw⟩
    | _ => simp [Val.isFxp] at hf
  | flt m e =>
    cases b with
    | fxp y =>
      unfold divmodV at h; simp only at h
      split at h
      · exact (tyErr_ok.mp h).elim
      · rename_i hw
        obtain ⟨sm, qr, e, v1, v2, hc⟩ := fx_rdivmod_fxp_val hi h
        exact ⟨sm, qr, e, v1, v2, hc, fun hb => by simp [hb] at hw⟩
    | _ => simp [Val.isFxp] at hf
  | none =>
    cases b with
    | fxp y =>
      unfold divmodV at h; simp only at h
      split at h
      · exact (tyErr_ok.mp h).elim
      · exact (raise_ok.mp h).elim
    | _ => simp [Val.isFxp] at hf
  | list l =>
    cases b with
    | fxp y =>
      unfold divmodV at h; simp only at h
      split at h
      · exact (tyErr_ok.mp h).elim
      · exact (raise_ok.mp h).elim
    | _ => simp [Val.isFxp] at hf
  | tuple l =>
    cases b with
    | fxp y =>
      unfold divmodV at h; simp only at h
      split at h
      · exact (tyErr_ok.mp h).elim
      · exact (raise_ok.mp h).elim
    | _ => simp [Val.isFxp] at hf


/-! ## comparisons -/
theorem fx_checkPositiveV_fxp_val {d : LinComb} (hp : Plain s) (h : checkPositiveV (.fxp d) s = .ok (v, s')) :
    Same s s' ∧ ∃ r, v = .lcb r ∧ r.value = if d.value ≥ 0 then 1 else 0 := by
  unfold checkPositiveV at h
  obtain ⟨r, s1, h1, h⟩ := bind_ok.mp h
  obtain ⟨rfl, rfl⟩ := pure_ok' h
  obtain ⟨sm, vr, -⟩ := checkPositive_val hp.guard hp.ign h1
  exact ⟨sm, r, rfl, vr⟩

theorem fx_checkZeroV_fxp_val {d : LinComb} (h : checkZeroV (.fxp d) s = .ok (v, s')) :
    Same s s' ∧ ∃ r, v = .lcb r ∧ r.value = if d.value = 0 then 1 else 0 := by
  unfold checkZeroV at h
  obtain ⟨r, s1, h1, h⟩ := bind_ok.mp h
  obtain ⟨rfl, rfl⟩ := pure_ok' h
  obtain ⟨sm, vr⟩ := checkZero_val h1
  exact ⟨sm, r, rfl, vr⟩

theorem fx_checkNonzeroV_fxp_val {d : LinComb} (h : checkNonzeroV (.fxp d) s = .ok (v, s')) :
    Same s s' ∧ ∃ r, v = .lcb r ∧ r.value = if d.value = 0 then 0 else 1 := by
  unfold checkNonzeroV at h
  obtain ⟨r, s1, h1, h⟩ := bind_ok.mp h
  obtain ⟨rfl, rfl⟩ := pure_ok' h
  obtain ⟨sm, vr⟩ := checkNonzero_val h1
  exact ⟨sm, r, rfl, vr⟩

/-- an integer secret on the LEFT of `<=`, `>=`, `==`, `!=` against a fixed-point value: the method
body of `LinComb.__le__` etc. (for the strict comparisons the method returns `NotImplemented` and
the reflected method answers: `cmpV_lc_fxp_strict_val`) -/
theorem fx_cmpLV_fxp_val {op : Cmp} {x y : LinComb} (hp : Plain s) (hx : op ≠ .lt ∧ op ≠ .gt)
    (h : cmpLV op x (.fxp y) s = .ok (v, s')) :
    Same s s' ∧ ∃ c, v = .lcb c ∧ c.value = cmpSem op (x.value * 2 ^ s.resolution) y.value := by
  unfold cmpLV at h
  cases op <;> simp only at h
  · exact (hx.1 rfl).elim
  · obtain ⟨d, s1, h1, h⟩ := bind_ok.mp h
    obtain ⟨rfl, d1, rfl, vd1⟩ := subXV_val h1
    obtain ⟨sm, r, rfl, vr⟩ := fx_checkPositiveV_fxp_val hp h
    refine ⟨sm, r, rfl, ?_⟩
    simp only [rep] at vd1
    rw [vr, vd1]; simp only [cmpSem]
    split <;> split <;> first | rfl | (exfalso; linarith)
  · obtain ⟨d, s1, h1, h⟩ := bind_ok.mp h
    obtain ⟨rfl, d1, rfl, vd1⟩ := fx_subV_fxp_val (a := .lc x) (b := .fxp y) rfl h1
    obtain ⟨sm, r, rfl, vr⟩ := fx_checkZeroV_fxp_val h
    refine ⟨sm, r, rfl, ?_⟩
    simp only [rep] at vd1
    rw [vr, vd1]; simp only [cmpSem]
    split <;> split <;> first | rfl | (exfalso; omega)
  · obtain ⟨d, s1, h1, h⟩ := bind_ok.mp h
    obtain ⟨rfl, d1, rfl, vd1⟩ := fx_subV_fxp_val (a := .lc x) (b := .fxp y) rfl h1
    obtain ⟨sm, r, rfl, vr⟩ := fx_checkNonzeroV_fxp_val h
    refine ⟨sm, r, rfl, ?_⟩
    simp only [rep] at vd1
    rw [vr, vd1]; simp only [cmpSem]
    split <;> split <;> first | rfl | (exfalso; omega)
  · exact (hx.2 rfl).elim
  · obtain ⟨d, s1, h1, h⟩ := bind_ok.mp h
    obtain ⟨rfl, d1, rfl, vd1⟩ := fx_subV_fxp_val (a := .lc x) (b := .fxp y) rfl h1
    obtain ⟨sm, r, rfl, vr⟩ := fx_checkPositiveV_fxp_val hp h
    refine ⟨sm, r, rfl, ?_⟩
    simp only [rep] at vd1
    rw [vr, vd1]; simp only [cmpSem]
    split <;> split <;> first | rfl | (exfalso; linarith)

/-- the reflected comparison of a plain number: `_ensurefxp` on the left operand, mirrored method -/
theorem fx_rcmp_fxp_val {op : Cmp} {y : LinComb} (hp : Plain s)
    (h : (do let z ← ensurefxp a; let r ← cmpLL op.mirror y z; pure (Val.lcb r)) s = .ok (v, s')) :
    Same s s' ∧ ∃ c, v = .lcb c ∧ c.value = cmpSem op (rep s.resolution a) y.value := by
  obtain ⟨z, s1, h1, k⟩ := bind_ok.mp h
  clear h
  obtain ⟨rfl, vz⟩ := ensurefxp_val h1
  obtain ⟨r, s2, h2, k⟩ := bind_ok.mp k
  obtain ⟨rfl, rfl⟩ := pure_ok' k
  obtain ⟨sm, vr⟩ := cmpLL_val hp.guard hp.ign h2
  exact ⟨sm, r, rfl, by rw [vr, vz, cmpSem_mirror]⟩

theorem fx_cmpV_fxp_val {op : Cmp} (hp : Plain s) (hf : (a.isFxp || b.isFxp) = true)
    (h : cmpV op a b s = .ok (v, s')) :
    Same s s' ∧ ∃ c, v = .lcb c ∧
      c.value = cmpSem op (rep s.resolution a) (rep s.resolution b) := by
  cases a with
  | fxp x => exact cmpXV_val hp.guard hp.ign h
  | lc x =>
    cases b with
    | fxp y =>
      by_cases hs : op.strict = true
      · exact cmpV_lc_fxp_strict_val hs hp.guard hp.ign h
      · unfold cmpV at h; simp only [hs, if_false] at h
        refine fx_cmpLV_fxp_val hp ⟨?_, ?_⟩ h <;> (rintro rfl; exact hs rfl)
    | _ => simp [Val.isFxp] at hf
  | lcb x =>
    cases b with
    | fxp y =>
      unfold cmpV at h; simp only at h
      obtain ⟨z, s1, h1, -⟩ := bind_ok.mp h
      unfold ensurebool at h1
      exact (raise_ok.mp h1).elim
    | _ => simp [Val.isFxp] at hf
  | int c =>
    cases b with
    | fxp y => unfold cmpV at h; simp only at h; exact fx_rcmp_fxp_val hp h
    | _ => simp [Val.isFxp] at hf
  | flt m e =>
    cases b with
    | fxp y => unfold cmpV at h; simp only at h; exact fx_rcmp_fxp_val hp h
    | _ => simp [Val.isFxp] at hf
  | none =>
    cases b with
    | fxp y => unfold cmpV at h; simp only at h; exact fx_rcmp_fxp_val hp h
    | _ => simp [Val.isFxp] at hf
  | list l =>
    cases b with
    | fxp y => unfold cmpV at h; simp only at h; exact fx_rcmp_fxp_val hp h
    | _ => simp [Val.isFxp] at hf
  | tuple l =>
    cases b with
    | fxp y => unfold cmpV at h; simp only at h; exact fx_rcmp_fxp_val hp h
    | _ => simp [Val.isFxp] at hf

/-! ## shifts -/
theorem fx_lshiftV_fxp_val {x : LinComb} {n : Int} (h : lshiftV (.fxp x) (.int n) s = .ok (v, s')) :
    s' = s ∧ 0 ≤ n ∧ ∃ z, v = .fxp z ∧ z.value = x.value * 2 ^ n.toNat := by
  unfold lshiftV at h; simp only at h
  obtain ⟨r, s1, h1, h⟩ := bind_ok.mp h
  obtain ⟨rfl, hn, z, rfl, vz⟩ := lshiftLV_int_val h1
  unfold mkFxpNoScale at h
  obtain ⟨rfl, rfl⟩ := pure_ok' h
  exact ⟨rfl, hn, z, rfl, vz⟩

/-- `x >> n` on a fixed-point value: a completed shift had `n ≥ 0` (a negative public count raises
`ValueError`, as for `<<`) and shifted the representation -/
theorem fx_rshiftV_fxp_val {x : LinComb} {n : Int} (hi : s.ignoreErrors = false)
    (h : rshiftV (.fxp x) (.int n) s = .ok (v, s')) :
    Same s s' ∧ 0 ≤ n ∧ ∃ z, v = .fxp z ∧ z.value = x.value >>> n.toNat := by
  unfold rshiftV at h; simp only at h
  obtain ⟨r, s1, h1, h⟩ := bind_ok.mp h
  have hn : 0 ≤ n := rshiftLV_int_nonneg h1
  obtain ⟨sm, vr⟩ := rshiftLV_int_val hn hi h1
  unfold mkFxpNoScale at h
  split at h
  · obtain ⟨rfl, rfl⟩ := pure_ok' h
    exact ⟨sm, hn, _, rfl, vr⟩
  · exact (raise_ok.mp h).elim

/-! ## unary -/
theorem fx_absV_fxp_val {x : LinComb} (hp : Plain s) (h : unV .abs (.fxp x) s = .ok (v, s')) :
    Same s s' ∧ ∃ z, v = .fxp z ∧ z.value = if x.value < 0 then -x.value else x.value := by
  unfold unV at h; simp only at h
  obtain ⟨z0, s1, h1, k⟩ := bind_ok.mp h
  clear h
  obtain ⟨rfl, vz⟩ := ensurefxp_val h1
  obtain ⟨c, s2, h2, k⟩ := bind_ok.mp k
  obtain ⟨sm1, vc⟩ := geLL_val hp.guard hp.ign h2
  obtain ⟨pr, s3, h3, k⟩ := bind_ok.mp k
  obtain ⟨rfl, rfl⟩ := pure_ok' k
  obtain ⟨sm2, vp⟩ := mulLL_val h3
  refine ⟨sm1.trans sm2, _, rfl, ?_⟩
  simp only [rep, zero_mul] at vz
  rw [add_value, neg_value, vp, vc, vz, sub_value, neg_value]
  split <;> split <;> omega

end

/-! ## integer-kind operands (`int`, integer secret, boolean secret) -/
section
variable {s s' : St} {a b v : Val}

/-- the result of integer arithmetic: a plain `int` when both operands are, else an integer secret -/
def fxIntRes (a b : Val) (k : Int) (v : Val) : Prop :=
  if (a.isInt && b.isInt) = true then v = .int k else ∃ z, v = .lc z ∧ z.value = k

theorem fx_addV_int_val (ha : a.fxIntK = true) (hb : b.fxIntK = true) (h : addV a b s = .ok (v, s')) :
    s' = s ∧ fxIntRes a b (a.num + b.num) v := by
  cases a <;> cases b <;> simp only [Val.fxIntK, Bool.false_eq_true] at ha hb <;>
    (unfold addV addLV at h; simp only at h; obtain ⟨rfl, rfl⟩ := pure_ok' h
     refine ⟨rfl, ?_⟩
     simp only [fxIntRes, Val.isInt, Val.num, Bool.and_self, Bool.and_false, Bool.false_and,
       Bool.false_eq_true, if_true, if_false]
     try exact ⟨_, rfl, by first | (simp only [add_value, addI_value]; ring) | simp only [add_value, addI_value]⟩)

theorem fx_negV_int_val (hb : b.fxIntK = true) {nb : Val} (h : negV b s = .ok (nb, s')) :
    s' = s ∧ nb.fxIntK = true ∧ nb.num = -b.num ∧ nb.isInt = b.isInt := by
  cases b <;> simp only [Val.fxIntK, Bool.false_eq_true] at hb <;>
    (unfold negV at h; obtain ⟨rfl, rfl⟩ := pure_ok' h; exact ⟨rfl, rfl, rfl, rfl⟩)

theorem fx_subV_int_val (ha : a.fxIntK = true) (hb : b.fxIntK = true) (h : subV a b s = .ok (v, s')) :
    s' = s ∧ fxIntRes a b (a.num - b.num) v := by
  unfold subV at h
  split at h
  · obtain ⟨rfl, rfl⟩ := pure_ok' h
    exact ⟨rfl, by simp [fxIntRes, Val.isInt, Val.num]⟩
  · obtain ⟨nb, s1, h1, h2⟩ := bind_ok.mp h
    obtain ⟨rfl, hk, hn, hi⟩ := fx_negV_int_val hb h1
    obtain ⟨rfl, hr⟩ := fx_addV_int_val ha hk h2
    refine ⟨rfl, ?_⟩
    unfold fxIntRes at hr ⊢
    rw [hi, hn] at hr
    rw [sub_eq_add_neg]; exact hr

theorem fx_mulV_int_val (ha : a.fxIntK = true) (hb : b.fxIntK = true) (h : mulV a b s = .ok (v, s')) :
    Same s s' ∧ fxIntRes a b (a.num * b.num) v := by
  cases a <;> cases b <;> simp only [Val.fxIntK, Bool.false_eq_true] at ha hb <;>
    (unfold mulV mulLV at h; simp only at h) <;>
    first
    | (obtain ⟨rfl, rfl⟩ := pure_ok' h
       refine ⟨Same.refl _, ?_⟩
       simp only [fxIntRes, Val.isInt, Val.num, Bool.and_self, Bool.and_false, Bool.false_and,
         Bool.false_eq_true, if_true, if_false]
       try exact ⟨_, rfl, by first | (simp only [mulI_value]; ring) | simp only [mulI_value]⟩)
    | (obtain ⟨r, s1, h1, h⟩ := bind_ok.mp h
       obtain ⟨rfl, rfl⟩ := pure_ok' h
       obtain ⟨sm, v1⟩ := mulLL_val h1
       refine ⟨sm, ?_⟩
       simp only [fxIntRes, Val.isInt, Val.num, Bool.and_self, Bool.and_false, Bool.false_and,
         Bool.false_eq_true, if_true, if_false]
       exact ⟨_, rfl, by first | (rw [v1]; ring) | rw [v1]⟩)


/-- a secret integer or a plain `int`, as a Boolean -/
def Val.fxLI : Val → Bool | .lc _ | .int _ => true | _ => false

theorem fx_truedivV_intK_val (hp : Plain s) (ha : a.fxLI = true) (hb : b.fxLI = true)
    (hs : (a.isInt && b.isInt) = false) (h : truedivV a b s = .ok (v, s')) :
    Same s s' ∧ ∃ z, v = .lc z ∧ b.num ≠ 0 ∧ Int.fmod a.num b.num = 0 ∧
      z.value = Int.fdiv a.num b.num := by
  cases a <;> simp only [Val.fxLI, Bool.false_eq_true] at ha
  · -- int / secret
    cases b <;> simp only [Val.fxLI, Bool.false_eq_true] at hb
    · simp [Val.isInt] at hs
    · unfold truedivV at h; simp only at h
      obtain ⟨r, s1, h1, h⟩ := bind_ok.mp h
      obtain ⟨rfl, rfl⟩ := pure_ok' h
      obtain ⟨sm, h0, hm, hv, -⟩ := truedivLL_val hp.guard hp.ign h1
      exact ⟨sm, r, rfl, h0, hm, hv⟩
  · -- secret / (secret | int)
    have hb' : IsIntV b := by cases b <;> simp_all [Val.fxLI, IsIntV]
    obtain ⟨sm, z, rfl, h0, hm, hv, -⟩ := truedivV_int_val hp hb' h
    have e : ival b = b.num := by cases b <;> simp_all [Val.fxLI, ival, Val.num]
    rw [e] at h0 hm hv
    exact ⟨sm, z, rfl, h0, hm, hv⟩

theorem fx_divmodV_intK_val {w : DM} (ha : a.fxLI = true) (hb : b.fxLI = true)
    (hs : (a.isInt && b.isInt) = false) (h : divmodV w a b s = .ok (v, s')) :
    Same s s' ∧ ∃ qr : LinComb × LinComb, v = pickL w qr ∧ b.num ≠ 0 ∧
      qr.1.value = Int.fdiv a.num b.num ∧ qr.2.value = Int.fmod a.num b.num := by
  cases a <;> simp only [Val.fxLI, Bool.false_eq_true] at ha
  · cases b <;> simp only [Val.fxLI, Bool.false_eq_true] at hb
    · simp [Val.isInt] at hs
    · unfold divmodV at h; simp only at h
      obtain ⟨qr, s1, h1, h⟩ := bind_ok.mp h
      obtain ⟨rfl, rfl⟩ := pure_ok' h
      obtain ⟨sm, h0, v1, v2, -⟩ := divmodLL_val h1
      exact ⟨sm, qr, rfl, h0, v1, v2⟩
  · unfold divmodV at h
    simp only at h
    obtain ⟨oqr, s1, h1, h⟩ := bind_ok.mp h
    unfold divmodLV at h1
    cases b <;> simp only [Val.fxLI, Bool.false_eq_true] at hb <;> simp only at h1
    all_goals
      obtain ⟨qr, s2, h2, h1⟩ := bind_ok.mp h1
      obtain ⟨rfl, rfl⟩ := pure_ok' h1
      simp only at h
      obtain ⟨rfl, rfl⟩ := pure_ok' h
      obtain ⟨sm, h0, v1, v2, -⟩ := divmodLL_val h2
      exact ⟨sm, qr, rfl, h0, v1, v2⟩

theorem fx_cmpV_intK_val {op : Cmp} (hp : Plain s) (ha : a.fxLI = true) (hb : b.fxLI = true)
    (hs : (a.isInt && b.isInt) = false) (h : cmpV op a b s = .ok (v, s')) :
    Same s s' ∧ ∃ r, v = .lcb r ∧ r.value = cmpSem op a.num b.num := by
  have ha' : IsIntV a := by cases a <;> simp_all [Val.fxLI, IsIntV]
  have hb' : IsIntV b := by cases b <;> simp_all [Val.fxLI, IsIntV]
  have ea : ival a = a.num := by cases a <;> simp_all [Val.fxLI, ival, Val.num]
  have eb : ival b = b.num := by cases b <;> simp_all [Val.fxLI, ival, Val.num]
  have hsec : (∃ x, a = .lc x) ∨ ∃ y, b = .lc y := by
    cases a <;> cases b <;> simp_all [Val.fxLI, Val.isInt]
  obtain ⟨sm, r, rfl, vr⟩ := cmpV_int_val hp ha' hb' hsec h
  exact ⟨sm, r, rfl, by rw [vr, ea, eb]⟩

/-! ## selection -/
theorem fx_smallIntSame_fxp {t f : Val} (hf : (t.isFxp || f.isFxp) = true) : smallIntSame t f = false := by
  cases t <;> cases f <;> simp [Val.isFxp] at hf <;> rfl

/-- `falsev + cond * d` with both already fixed-point -/
theorem fx_ite_tail_fxp {c y d1 : LinComb}
    (h : (do let prod ← mulLV c (.fxp d1); addV (.fxp y) prod) s = .ok (v, s')) :
    Same s s' ∧ ∃ z, v = .fxp z ∧ z.value = y.value + d1.value * c.value := by
  obtain ⟨prod, s1, h1, k⟩ := bind_ok.mp h
  clear h
  unfold mulLV at h1; simp only at h1
  obtain ⟨p, s2, h2, h1⟩ := bind_ok.mp h1
  obtain ⟨rfl, rfl⟩ := pure_ok' h1
  obtain ⟨sm, vp⟩ := mulLL_val h2
  obtain ⟨rfl, z, rfl, vz⟩ := fx_addV_fxp_val (a := .fxp y) (b := .fxp p) rfl k
  exact ⟨sm, z, rfl, by rw [vz]; simp only [rep]; rw [vp]⟩

/-- `if_then_else(c, t, f)` with a fixed-point branch: the other branch is converted, the result is
fixed-point, its representation is that of the selected branch -/
theorem fx_ite_fxp_val {c : LinComb} {t f : Val} (hc : c.value = 0 ∨ c.value = 1)
    (hf : (t.isFxp || f.isFxp) = true) (ht : t.fxNumK = true)
    (h : ifThenElse (.lcb c) false t f s = .ok (v, s')) :
    Same s s' ∧ ∃ z, v = .fxp z ∧
      z.value = if c.value = 1 then rep s.resolution t else rep s.resolution f := by
  have key : ∀ (a b : Int), a + (b - a) * c.value = if c.value = 1 then b else a := by
    intro a b
    rcases hc with h0 | h1
    · simp [h0]
    · simp [h1]
  unfold ifThenElse at h
  simp only [fx_smallIntSame_fxp hf, Bool.or_self, Bool.false_eq_true, if_false] at h
  cases t <;> simp only [Val.fxNumK, Bool.false_eq_true] at ht
  case fxp xt =>
    simp only [Val.depth] at h
    unfold iteAux at h
    simp only [fx_smallIntSame_fxp (t := .fxp xt) (f := f) rfl, Bool.false_eq_true, if_false] at h
    obtain ⟨f', s1, h1, k⟩ := bind_ok.mp h
    clear h
    obtain ⟨y, s2, h2, h1⟩ := bind_ok.mp h1
    obtain ⟨rfl, rfl⟩ := pure_ok' h1
    obtain ⟨rfl, vy⟩ := ensurefxp_val h2
    obtain ⟨d, s3, h3, k⟩ := bind_ok.mp k
    obtain ⟨rfl, d1, rfl, vd1⟩ := subXV_val h3
    obtain ⟨sm, z, rfl, vz⟩ := fx_ite_tail_fxp k
    refine ⟨sm, z, rfl, ?_⟩
    rw [vz, vd1]
    show y.value + (xt.value - y.value) * c.value = _
    rw [vy]; exact key _ _
  all_goals
    obtain ⟨yf, rfl⟩ := fx_isFxp_iff.mp (by simpa [Val.isFxp] using hf)
    simp only [Val.depth] at h
    unfold iteAux at h
    simp only [smallIntSame, Bool.false_eq_true, if_false] at h
    obtain ⟨f', s1, h1, k⟩ := bind_ok.mp h
    clear h
    obtain ⟨rfl, rfl⟩ := pure_ok' h1
    obtain ⟨d, s3, h3, k⟩ := bind_ok.mp k
    obtain ⟨rfl, d1, rfl, vd1⟩ := fx_subV_fxp_val (by rfl) h3
    obtain ⟨sm, z, rfl, vz⟩ := fx_ite_tail_fxp k
    refine ⟨sm, z, rfl, ?_⟩
    rw [vz, vd1]; simp only [rep]; exact key _ _

/-- `if_then_else(c, t, f)` on integer-kind branches: a secret carrying the selected value, a boolean
(`LinCombBool(ret, False)`) when both branches are booleans, else an integer -/
theorem fx_ite_int_val {c : LinComb} {t f : Val} (hc : c.value = 0 ∨ c.value = 1)
    (ht : t.fxIntK = true) (hf : f.fxIntK = true) (hs : smallIntSame t f = false)
    (h : ifThenElse (.lcb c) false t f s = .ok (v, s')) :
    Same s s' ∧ ∃ z, v = (if bothLcb t f = true then .lcb z else .lc z) ∧
      z.value = (if c.value = 1 then t.num else f.num) ∧
      (bothLcb t f = true → z.value = 0 ∨ z.value = 1) := by
  have key : ∀ (a b : Int), a + c.value * (b - a) = if c.value = 1 then b else a := by
    intro a b
    rcases hc with h0 | h1
    · simp [h0]
    · simp [h1]
  unfold ifThenElse at h
  simp only [hs, Bool.or_self, Bool.false_eq_true, if_false] at h
  have hd : t.depth = 1 := by cases t <;> simp_all [Val.fxIntK, Val.depth]
  rw [hd] at h
  unfold iteAux at h
  simp only [hs, Bool.false_eq_true, if_false] at h
  have h' : (do let d ← subV t f; let prod ← mulLV c d; let ret ← addV f prod; iteTag t f ret) s = .ok (v, s') := by
    cases t <;> simp only [Val.fxIntK, Bool.false_eq_true] at ht <;> exact h
  clear h
  obtain ⟨d, s1, h1, k⟩ := bind_ok.mp h'
  clear h'
  obtain ⟨rfl, hd1⟩ := fx_subV_int_val ht hf h1
  obtain ⟨prod, s2, h2, k⟩ := bind_ok.mp k
  have hprod : Same s1 s2 ∧ ∃ p, prod = .lc p ∧ p.value = c.value * (t.num - f.num) := by
    unfold fxIntRes at hd1
    split at hd1
    · subst hd1
      unfold mulLV at h2; simp only at h2
      obtain ⟨rfl, rfl⟩ := pure_ok' h2
      exact ⟨Same.refl _, _, rfl, rfl⟩
    · obtain ⟨z, rfl, vz⟩ := hd1
      unfold mulLV at h2; simp only at h2
      obtain ⟨p, s3, h3, h2⟩ := bind_ok.mp h2
      obtain ⟨rfl, rfl⟩ := pure_ok' h2
      obtain ⟨sm, vp⟩ := mulLL_val h3
      exact ⟨sm, p, rfl, by rw [vp, vz]⟩
  obtain ⟨sm, p, rfl, vp⟩ := hprod
  obtain ⟨ret, s3, h3, k⟩ := bind_ok.mp k
  obtain ⟨rfl, hr⟩ := fx_addV_int_val hf (b := .lc p) rfl h3
  unfold fxIntRes at hr
  simp only [Val.isInt, Bool.and_false, Bool.false_eq_true, if_false] at hr
  obtain ⟨z, rfl, vz⟩ := hr
  have vz' : z.value = if c.value = 1 then t.num else f.num := by
    rw [vz]; simp only [Val.num]; rw [vp]; exact key _ _
  by_cases hbb : bothLcb t f = true
  · -- two booleans: `LinCombBool(ret, False)`, which tests the value and adds no constraint
    cases t <;> cases f <;> simp only [bothLcb, reduceCtorEq] at hbb
    rw [iteTag_bb] at k
    obtain ⟨b, s4, h4, k⟩ := bind_ok.mp k
    obtain ⟨rfl, rfl⟩ := pure_ok' k
    obtain ⟨sm2, rfl, hb⟩ := mkBool_val h4
    exact ⟨sm.trans sm2, _, rfl, vz', fun _ => hb⟩
  · rw [iteTag_other _ (by simpa using hbb)] at k
    obtain ⟨rfl, rfl⟩ := pure_ok' k
    exact ⟨sm, z, by rw [if_neg hbb], vz', fun h => absurd h hbb⟩

end

end Pysnark
