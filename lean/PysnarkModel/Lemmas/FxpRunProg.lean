import PysnarkModel.Lemmas.FxpRun
/-!
# C14 at program level, layer 3: instructions and runs

`fx_step_fx`: one instruction of the fragment keeps the register file related to the reference
register file (and the tracer unguarded, error checking on, the reference resolution equal to the
tracer's).  `fx_runAux_fx`: induction over the instruction list.  `fx_run_fx`: the statement from the
initial state.
-/
namespace Pysnark

set_option linter.unusedSimpArgs false

/-- the run invariant: no guard, error checking on, registers related at the current resolution -/
structure FxInv (st : St) (regs : List Val) (ws : List FxV) : Prop where
  plain : Plain st
  rel : fxRelL st.resolution regs ws = true

theorem FxInv.push {st st' : St} {regs : List Val} {ws : List FxV} {v : Val} {w : FxV}
    (hI : FxInv st regs ws) (sm : Same st st') (hv : fxRel st.resolution v w = true) :
    FxInv st' (regs ++ [v]) (ws ++ [w]) :=
  ⟨hI.plain.same sm, by rw [sm.res]; exact fxRelL_append hI.rel hv⟩

section
variable {r : ℕ} {regs : List Val} {ws : List FxV} {s s1 : St}

theorem fx_getReg_fx {i : Nat} {x : Val} (hrel : fxRelL r regs ws = true)
    (h : getReg regs i s = .ok (x, s1)) :
    s = s1 ∧ getReg regs i s = .ok (x, s) ∧ ∃ w, fxGet ws i = .val w ∧ fxRel r x w = true := by
  unfold getReg at h
  cases hv : regs[i]? with
  | none => simp only [hv] at h; exact (raise_ok.mp h).elim
  | some y =>
    simp only [hv] at h
    obtain ⟨rfl, rfl⟩ := pure_ok' h
    obtain ⟨w, hw, hr⟩ := fxRelL_get i hrel hv
    refine ⟨rfl, ?_, w, by simp only [fxGet, hw], hr⟩
    unfold getReg; simp only [hv]; rfl

theorem fx_getRegs_fx (hrel : fxRelL r regs ws = true) : ∀ {is : List Nat} {vs : List Val} {s s1 : St},
    getRegs regs is s = .ok (vs, s1) →
    s = s1 ∧ getRegs regs is s = .ok (vs, s) ∧ ∃ wl, fxGets ws is = .val wl ∧ fxRelL r vs wl = true
  | [], vs, s, s1, h => by
    unfold getRegs at h
    obtain ⟨rfl, rfl⟩ := pure_ok' h
    exact ⟨rfl, rfl, [], rfl, by simp [fxRelL]⟩
  | i :: is, vs, s, s1, h => by
    have h0 := h
    unfold getRegs at h
    obtain ⟨v, s2, h1, h⟩ := bind_ok.mp h
    obtain ⟨vs', s3, h2, h⟩ := bind_ok.mp h
    obtain ⟨rfl, rfl⟩ := pure_ok' h
    obtain ⟨rfl, -, w, hw, hr⟩ := fx_getReg_fx hrel h1
    obtain ⟨rfl, -, wl, hwl, hrl⟩ := fx_getRegs_fx hrel h2
    exact ⟨rfl, h0, w :: wl, by simp only [fxGets, hw, hwl], fxRelL_cons.mpr ⟨hr, hrl⟩⟩
end

-- the final `pure (r, regs, frames)` of an arm of `step`
set_option hygiene false in
macro "fxstep_fin" : tactic => `(tactic|
  (obtain ⟨e, rfl⟩ := pure_ok' h
   simp only [Prod.mk.injEq] at e
   obtain ⟨rfl, rfl, rfl⟩ := e))

theorem fx_step_fx {st st' : St} {regs regs' : List Val} {frames frames' : List GuardBak}
    {i : Instr} {v : Val} {ws : List FxV} (hI : FxInv st regs ws)
    (hex : i.fxExcl st regs = none)
    (h : step regs frames i st = .ok ((v, regs', frames'), st')) :
    ∃ w ws', fxStep st.resolution ws i = .val (w, st'.resolution, ws') ∧
      FxInv st' (regs' ++ [v]) (ws' ++ [w]) := by
  have hp := hI.plain
  have hrel := hI.rel
  cases i
  case lit lv =>
    unfold step at h; simp only at h
    fxstep_fin
    have hpl : lv.plain = true := by
      simp only [Instr.fxExcl, ite_eq_left_iff, reduceCtorEq, imp_false, Bool.not_eq_true,
        Bool.not_eq_false] at hex
      exact hex
    exact ⟨_, _, rfl, hI.push (Same.refl _) (fxRel_ofVal _ _ hpl)⟩
  case mk k a =>
    unfold step at h; simp only at h
    obtain ⟨x, s1, h1, h⟩ := bind_ok.mp h
    obtain ⟨rfl, -, wx, gx, rx⟩ := fx_getReg_fx hrel h1
    obtain ⟨r, s2, h2, h⟩ := bind_ok.mp h
    fxstep_fin
    obtain ⟨sm, w, hw, hr⟩ := fx_mkVal_rel rx h2
    exact ⟨w, ws, by simp only [fxStep, gx, hw, sm.res], hI.push sm hr⟩
  case wrapb a =>
    unfold step at h; simp only at h
    obtain ⟨x, s1, h1, h⟩ := bind_ok.mp h
    obtain ⟨rfl, -, wx, gx, rx⟩ := fx_getReg_fx hrel h1
    obtain ⟨r, s2, h2, h⟩ := bind_ok.mp h
    fxstep_fin
    obtain ⟨sm, w, hw, hr⟩ := fx_wrapBool_rel rx h2
    exact ⟨w, ws, by simp only [fxStep, gx, hw, sm.res], hI.push sm hr⟩
  case wrapx a =>
    unfold step at h; simp only at h
    obtain ⟨x, s1, h1, h⟩ := bind_ok.mp h
    obtain ⟨rfl, -, wx, gx, rx⟩ := fx_getReg_fx hrel h1
    obtain ⟨r, s2, h2, h⟩ := bind_ok.mp h
    fxstep_fin
    obtain ⟨rfl, w, hw, hr⟩ := fx_wrapFxp_rel rx h2
    exact ⟨w, ws, by simp only [fxStep, gx, hw], hI.push (Same.refl _) hr⟩
  case bin op a b =>
    unfold step at h; simp only at h
    obtain ⟨x, s1, h1, h⟩ := bind_ok.mp h
    obtain ⟨rfl, h1', wx, gx, rx⟩ := fx_getReg_fx hrel h1
    obtain ⟨y, s1, h2, h⟩ := bind_ok.mp h
    obtain ⟨rfl, h2', wy, gy, ry⟩ := fx_getReg_fx hrel h2
    obtain ⟨r, s2, h3, h⟩ := bind_ok.mp h
    fxstep_fin
    simp only [Instr.fxExcl, h1', h2'] at hex
    obtain ⟨sm, w, hw, hr⟩ := fx_binopV_rel hp rx ry hex h3
    exact ⟨w, ws, by simp only [fxStep, gx, gy, hw, sm.res], hI.push sm hr⟩
  case un op a =>
    unfold step at h; simp only at h
    obtain ⟨x, s1, h1, h⟩ := bind_ok.mp h
    obtain ⟨rfl, h1', wx, gx, rx⟩ := fx_getReg_fx hrel h1
    obtain ⟨r, s2, h2, h⟩ := bind_ok.mp h
    fxstep_fin
    simp only [Instr.fxExcl, h1'] at hex
    obtain ⟨sm, w, hw, hr⟩ := fx_unV_rel hp rx hex h2
    exact ⟨w, ws, by simp only [fxStep, gx, hw, sm.res], hI.push sm hr⟩
  case call m self args =>
    unfold step at h; simp only at h
    obtain ⟨x, s1, h1, h⟩ := bind_ok.mp h
    obtain ⟨rfl, h1', wx, gx, rx⟩ := fx_getReg_fx hrel h1
    obtain ⟨as, s1, h2, h⟩ := bind_ok.mp h
    obtain ⟨rfl, h2', -⟩ := fx_getRegs_fx hrel h2
    obtain ⟨r, s2, h3, h⟩ := bind_ok.mp h
    fxstep_fin
    simp only [Instr.fxExcl, h2'] at hex
    obtain ⟨sm, w, hw, hr⟩ := fx_callMeth_rel hp rx hex h3
    exact ⟨w, ws, by simp only [fxStep, gx, hw, sm.res], hI.push sm hr⟩
  case ite c t f =>
    unfold step at h; simp only at h
    obtain ⟨cv, s1, h1, h⟩ := bind_ok.mp h
    obtain ⟨rfl, h1', wc, gc, rc⟩ := fx_getReg_fx hrel h1
    obtain ⟨tv, s1, h2, h⟩ := bind_ok.mp h
    obtain ⟨rfl, h2', wt, gt, rt⟩ := fx_getReg_fx hrel h2
    obtain ⟨fv, s1, h3, h⟩ := bind_ok.mp h
    obtain ⟨rfl, h3', wf, gf, rf⟩ := fx_getReg_fx hrel h3
    obtain ⟨r, s2, h4, h⟩ := bind_ok.mp h
    fxstep_fin
    simp only [Instr.fxExcl, h1', h2', h3'] at hex
    have hex' : (t == f) = false → fxExclIte cv tv fv = none := by
      intro hh; simpa [hh] using hex
    obtain ⟨sm, w, hw, hr⟩ := fx_ifThenElse_rel rc rt rf hex' h4
    exact ⟨w, ws, by simp only [fxStep, gc, gt, gf, hw, sm.res], hI.push sm hr⟩
  case list xs =>
    unfold step at h; simp only at h
    obtain ⟨vs, s1, h1, h⟩ := bind_ok.mp h
    obtain ⟨rfl, -, wl, gl, rl⟩ := fx_getRegs_fx hrel h1
    fxstep_fin
    exact ⟨.list wl, ws, by simp only [fxStep, gl], hI.push (Same.refl _) (by simp only [fxRel]; exact rl)⟩
  case arr xs =>
    unfold step at h; simp only at h
    obtain ⟨vs, s1, h1, h⟩ := bind_ok.mp h
    obtain ⟨rfl, -, wl, gl, rl⟩ := fx_getRegs_fx hrel h1
    fxstep_fin
    exact ⟨.list wl, ws, by simp only [fxStep, gl], hI.push (Same.refl _) (by simp only [fxRel]; exact rl)⟩
  case idx a k =>
    unfold step at h; simp only at h
    obtain ⟨x, s1, h1, h⟩ := bind_ok.mp h
    obtain ⟨rfl, -, wx, gx, rx⟩ := fx_getReg_fx hrel h1
    have key : ∀ (xs : List Val) (wl : List FxV), fxRelL st.resolution xs wl = true →
        (match pyIndex xs.length k with
          | some j => match xs[j]? with
            | some y => pure (y, regs, frames)
            | Option.none => raise .index
          | Option.none => raise .index : M (Val × List Val × List GuardBak)) st
          = .ok ((v, regs', frames'), st') →
        ∃ w, (match pyIndex wl.length k with
          | some j => match wl[j]? with
            | some y => FxRes.val (y, st.resolution, ws)
            | Option.none => .raises
          | Option.none => .raises : FxRes (FxV × Nat × List FxV)) = .val (w, st'.resolution, ws) ∧
          FxInv st' (regs' ++ [v]) (ws ++ [w]) := by
      intro xs wl hl h
      rw [← fxRelL_length hl]
      cases hk : pyIndex xs.length k with
      | none => simp only [hk] at h; exact (raise_ok.mp h).elim
      | some j =>
        simp only [hk] at h ⊢
        cases hv : xs[j]? with
        | none => simp only [hv] at h; exact (raise_ok.mp h).elim
        | some y =>
          simp only [hv] at h
          fxstep_fin
          obtain ⟨w, hw, hr⟩ := fxRelL_get j hl hv
          exact ⟨w, by simp only [hw], hI.push (Same.refl _) hr⟩
    cases x
    case list xs =>
      obtain ⟨wl, rfl, hl⟩ := fxRel_list_iff.mp rx
      obtain ⟨w, hw, hi⟩ := key xs wl hl h
      exact ⟨w, ws, by simp only [fxStep, gx]; exact hw, hi⟩
    case tuple xs =>
      obtain ⟨wl, rfl, hl⟩ := fxRel_tuple_iff.mp rx
      obtain ⟨w, hw, hi⟩ := key xs wl hl h
      exact ⟨w, ws, by simp only [fxStep, gx]; exact hw, hi⟩
    all_goals exact (raise_ok.mp h).elim
  case genter c => simp [Instr.fxExcl] at hex
  case gleave => simp [Instr.fxExcl] at hex
  case setIgn b => simp [Instr.fxExcl] at hex
  case setBl n =>
    unfold step at h; simp only at h
    obtain ⟨u, s2, h2, h⟩ := bind_ok.mp h
    fxstep_fin
    unfold modifySt at h2
    simp only [Except.ok.injEq, Prod.mk.injEq] at h2
    obtain ⟨-, rfl⟩ := h2
    exact ⟨.none, ws, rfl, ⟨⟨hp.guard, hp.ign⟩, fxRelL_append hrel (by simp [fxRel])⟩⟩
  case setRes n =>
    unfold step at h; simp only at h
    obtain ⟨u, s2, h2, h⟩ := bind_ok.mp h
    fxstep_fin
    unfold modifySt at h2
    simp only [Except.ok.injEq, Prod.mk.injEq] at h2
    obtain ⟨-, rfl⟩ := h2
    have hn : Val.fxHasFxpL regs = false := by
      simp only [Instr.fxExcl, ite_eq_right_iff, reduceCtorEq, imp_false, Bool.not_eq_true] at hex
      exact hex
    refine ⟨.none, ws, rfl, ⟨⟨hp.guard, hp.ign⟩, ?_⟩⟩
    exact fxRelL_append (fxRelL_res _ _ _ _ hn hrel) (by simp [fxRel])
  case aget a k =>
    unfold step at h; simp only at h
    obtain ⟨av, s1, h1, h⟩ := bind_ok.mp h
    obtain ⟨rfl, -, wa, ga, ra⟩ := fx_getReg_fx hrel h1
    obtain ⟨iv, s1, h2, h⟩ := bind_ok.mp h
    obtain ⟨rfl, h2', wi, gi, ri⟩ := fx_getReg_fx hrel h2
    simp only [Instr.fxExcl, h2'] at hex
    cases av with
    | list xs =>
      simp only at h
      obtain ⟨r, s2, h3, h⟩ := bind_ok.mp h
      fxstep_fin
      obtain ⟨wl, rfl, hl⟩ := fxRel_list_iff.mp ra
      obtain ⟨j, rfl⟩ : ∃ j, iv = .int j := by
        cases iv <;> simp only [reduceCtorEq] at hex
        exact ⟨_, rfl⟩
      rw [fxRel_int_iff] at ri; subst ri
      unfold arrayGet at h3; simp only at h3
      cases hk : pyIndex xs.length j with
      | none => simp only [hk] at h3; exact (raise_ok.mp h3).elim
      | some kk =>
        simp only [hk] at h3
        cases hv : xs[kk]? with
        | none => simp only [hv] at h3; exact (raise_ok.mp h3).elim
        | some y =>
          simp only [hv] at h3
          obtain ⟨rfl, rfl⟩ := pure_ok' h3
          obtain ⟨w, hw, hr⟩ := fxRelL_get kk hl hv
          refine ⟨w, ws, ?_, hI.push (Same.refl _) hr⟩
          simp only [fxStep, ga, gi, ← fxRelL_length hl, hk, hw]
    | _ => exact (raise_ok.mp h).elim
  case aset a k vv =>
    unfold step at h; simp only at h
    obtain ⟨av, s1, h1, h⟩ := bind_ok.mp h
    obtain ⟨rfl, -, wa, ga, ra⟩ := fx_getReg_fx hrel h1
    obtain ⟨iv, s1, h2, h⟩ := bind_ok.mp h
    obtain ⟨rfl, h2', wi, gi, ri⟩ := fx_getReg_fx hrel h2
    obtain ⟨xv, s1, h3, h⟩ := bind_ok.mp h
    obtain ⟨rfl, -, wv, gv, rv⟩ := fx_getReg_fx hrel h3
    simp only [Instr.fxExcl, h2'] at hex
    cases av with
    | list xs =>
      simp only at h
      obtain ⟨xs', s2, h4, h⟩ := bind_ok.mp h
      fxstep_fin
      obtain ⟨wl, rfl, hl⟩ := fxRel_list_iff.mp ra
      obtain ⟨j, rfl⟩ : ∃ j, iv = .int j := by
        cases iv <;> simp only [reduceCtorEq] at hex
        exact ⟨_, rfl⟩
      rw [fxRel_int_iff] at ri; subst ri
      unfold arraySet at h4; simp only at h4
      cases hk : pyIndex xs.length j with
      | none => simp only [hk] at h4; exact (raise_ok.mp h4).elim
      | some kk =>
        simp only [hk] at h4
        obtain ⟨rfl, rfl⟩ := pure_ok' h4
        refine ⟨.none, ws.set a (.list (wl.set kk wv)), ?_, ⟨hp, ?_⟩⟩
        · simp only [fxStep, ga, gi, gv, ← fxRelL_length hl, hk]
        · refine fxRelL_append (fxRelL_set a hrel ?_) (by simp [fxRel])
          simp only [fxRel]; exact fxRelL_set kk hl rv
    | _ => exact (raise_ok.mp h).elim

/-- induction over the program -/
theorem fx_runAux_fx : ∀ (is : List Instr) (k : Nat) (regs : List Val) (frames : List GuardBak)
    (st : St) (ws : List FxV), FxInv st regs ws → fxFragAux is regs frames st = true →
    ∀ out, runAux is k regs frames st = out → out.err = none →
    ∃ wsF, fxRunAux is st.resolution ws = .val wsF ∧ FxInv out.st out.regs wsF
  | [], k, regs, frames, st, ws, hI, _, out, hout, _ => by
    unfold runAux at hout
    subst hout
    exact ⟨ws, rfl, hI⟩
  | i :: is, k, regs, frames, st, ws, hI, hs, out, hout, herr => by
    unfold runAux at hout
    unfold fxFragAux at hs
    cases hstep : step regs frames i st with
    | error e =>
      rw [hstep] at hout
      subst hout
      simp at herr
    | ok r =>
      obtain ⟨⟨v, regs', frames'⟩, st'⟩ := r
      rw [hstep] at hout hs
      simp only [Bool.and_eq_true, Option.isNone_iff_eq_none] at hs
      simp only at hout
      obtain ⟨w, ws', hw, hI'⟩ := fx_step_fx hI hs.1 hstep
      obtain ⟨wsF, hrun, hF⟩ := fx_runAux_fx is (k+1) _ _ _ _ hI' hs.2 out hout herr
      exact ⟨wsF, by unfold fxRunAux; simp only [hw]; exact hrun, hF⟩

/-- **Program-level statement of C14.**  See `C14_program` in `Props/C14.lean` for the reading. -/
theorem fx_run_fx (p : Int) (bl res : ℕ) (prog : List Instr)
    (hfrag : FxpFragment (St.init p bl res) prog)
    (out : Out) (hout : run (St.init p bl res) prog = out) (herr : out.err = none) :
    ∃ refs, fxRun res prog = .val refs ∧ fxRelL out.st.resolution out.regs refs = true := by
  unfold run at hout
  unfold FxpFragment at hfrag
  have h0 : FxInv (St.init p bl res) [] [] := ⟨⟨rfl, rfl⟩, by simp [fxRelL]⟩
  obtain ⟨wsF, hrun, hF⟩ := fx_runAux_fx prog 0 [] [] _ [] h0 hfrag out hout herr
  exact ⟨wsF, hrun, hF.rel⟩

/-- reading the relation at one register -/
theorem fxRelL_at {r : ℕ} {regs : List Val} {refs : List FxV} (h : fxRelL r regs refs = true)
    {i : Nat} {v : Val} (hv : regs[i]? = some v) : ∃ w, refs[i]? = some w ∧ fxRel r v w = true :=
  fxRelL_get i h hv

end Pysnark
