import PysnarkModel.Spec.FxpProg
import PysnarkModel.Lemmas.FxpValues
import Mathlib.Data.Rat.Floor
/-!
# C14 at program level, layer 0: from scaled integers to the represented rationals

The model computes on representations (`Int.fdiv`, `Int.fmod`, `Int.tdiv`, `>>>` on `v·2^r`); the
reference (`Spec/FxpProg.lean`) computes on the represented rationals (`Rat.floor`, `/`).  Each
lemma here turns one integer formula of `Lemmas/FxpValues.lean` into the rational formula of the
reference.  `a = qa·2^r` is written `(a : ℚ) = qa * 2 ^ r`.
-/
namespace Pysnark

theorem fx_pow_pos (r : ℕ) : (0 : ℚ) < 2 ^ r := by positivity
theorem fx_pow_ne (r : ℕ) : (2 : ℚ) ^ r ≠ 0 := (fx_pow_pos r).ne'

/-- floor of a quotient of integers with a positive divisor is `Int.fdiv` (Python's `//`) -/
theorem fx_floor_div (a b : ℤ) (hb : 0 < b) : ((a : ℚ) / (b : ℚ)).floor = Int.fdiv a b := by
  rw [Int.fdiv_eq_ediv_of_nonneg _ hb.le]
  have hbq : (0 : ℚ) < (b : ℚ) := by exact_mod_cast hb
  show ⌊(a : ℚ) / (b : ℚ)⌋ = a / b
  rw [Int.floor_eq_iff]
  constructor
  · rw [le_div_iff₀ hbq]
    exact_mod_cast Int.ediv_mul_le a hb.ne'
  · rw [div_lt_iff₀ hbq]
    exact_mod_cast Int.lt_ediv_add_one_mul_self a hb

theorem fx_floor_intCast (z : ℤ) : ((z : ℚ)).floor = z := by
  show ⌊(z : ℚ)⌋ = z
  exact Int.floor_intCast z

/-- `int(m/2^e · 2^r)` is `Int.tdiv (m·2^r) (2^e)` -/
theorem fx_trunc_scale (m : ℤ) (e r : ℕ) :
    fxTrunc ((m : ℚ) / 2 ^ e * 2 ^ r) = scaleFlt m e r := by
  unfold fxTrunc scaleFlt
  have he : (0 : ℤ) < 2 ^ e := by positivity
  have hq : (m : ℚ) / 2 ^ e * 2 ^ r = ((m * 2 ^ r : ℤ) : ℚ) / ((2 ^ e : ℤ) : ℚ) := by
    push_cast; ring
  have hpos : (0 : ℚ) < 2 ^ r / 2 ^ e := by positivity
  by_cases hm : 0 ≤ m
  · have h0 : (0 : ℚ) ≤ (m : ℚ) / 2 ^ e * 2 ^ r := by
      have : (0 : ℚ) ≤ (m : ℚ) := by exact_mod_cast hm
      positivity
    rw [if_pos h0, hq, fx_floor_div _ _ he, Int.fdiv_eq_ediv_of_nonneg _ he.le,
      Int.tdiv_eq_ediv_of_nonneg (by positivity)]
  · have hm' : m < 0 := not_le.mp hm
    have h0 : ¬ (0 : ℚ) ≤ (m : ℚ) / 2 ^ e * 2 ^ r := by
      have : (m : ℚ) < 0 := by exact_mod_cast hm'
      have h1 : (m : ℚ) / 2 ^ e * 2 ^ r = (m : ℚ) * (2 ^ r / 2 ^ e) := by ring
      rw [h1, not_le]
      exact mul_neg_of_neg_of_pos this hpos
    rw [if_neg h0]
    have hq' : -((m : ℚ) / 2 ^ e * 2 ^ r) = (((-m) * 2 ^ r : ℤ) : ℚ) / ((2 ^ e : ℤ) : ℚ) := by
      push_cast; ring
    rw [hq', fx_floor_div _ _ he, Int.fdiv_eq_ediv_of_nonneg _ he.le,
      ← Int.tdiv_eq_ediv_of_nonneg (by have : 0 < -m := by omega
                                       positivity),
      neg_mul, Int.neg_tdiv, neg_neg]

/-- the representation of a float literal is (its `add_scaling` conversion)·2^r -/
theorem fx_scaleFlt (m : ℤ) (e r : ℕ) :
    ((scaleFlt m e r : ℤ) : ℚ) = fxOfFlt r ((m : ℚ) / 2 ^ e) * 2 ^ r := by
  unfold fxOfFlt
  rw [fx_trunc_scale, div_mul_cancel₀ _ (fx_pow_ne r)]

section
variable {r : ℕ} {a b : ℤ} {qa qb : ℚ}

/-- fixed-point × fixed-point: `⌊a·b / 2^r⌋` on representations is `⌊qa·qb·2^r⌋/2^r` -/
theorem fx_mul_grid (ha : (a : ℚ) = qa * 2 ^ r) (hb : (b : ℚ) = qb * 2 ^ r) :
    ((Int.fdiv (a * b) (2 ^ r) : ℤ) : ℚ) = fxFloor r (qa * qb) * 2 ^ r := by
  unfold fxFloor
  rw [div_mul_cancel₀ _ (fx_pow_ne r)]
  have : qa * qb * 2 ^ r = ((a * b : ℤ) : ℚ) / ((2 ^ r : ℤ) : ℚ) := by
    push_cast; rw [ha, hb]; field_simp
  rw [this, fx_floor_div _ _ (by positivity)]

/-- fixed-point / number: `⌊a·2^r / b⌋` on representations is `⌊qa/qb·2^r⌋/2^r` -/
theorem fx_div_grid (ha : (a : ℚ) = qa * 2 ^ r) (hb : (b : ℚ) = qb * 2 ^ r) (hpos : 0 < b) :
    ((Int.fdiv (a * 2 ^ r) b : ℤ) : ℚ) = fxFloor r (qa / qb) * 2 ^ r := by
  unfold fxFloor
  rw [div_mul_cancel₀ _ (fx_pow_ne r)]
  have hb0 : (b : ℚ) ≠ 0 := by exact_mod_cast hpos.ne'
  have hqb : qb ≠ 0 := by
    intro h; rw [h, zero_mul] at hb; exact hb0 hb
  have : qa / qb * 2 ^ r = ((a * 2 ^ r : ℤ) : ℚ) / ((b : ℤ) : ℚ) := by
    push_cast; rw [ha, hb]; field_simp
  rw [this, fx_floor_div _ _ hpos]

theorem fx_qb_ne (hb : (b : ℚ) = qb * 2 ^ r) (hpos : 0 < b) : qb ≠ 0 := by
  have hb0 : (b : ℚ) ≠ 0 := by exact_mod_cast hpos.ne'
  intro h; rw [h, zero_mul] at hb; exact hb0 hb

/-- `//`: the floor quotient of the representations is the floor quotient of the numbers -/
theorem fx_floordiv (ha : (a : ℚ) = qa * 2 ^ r) (hb : (b : ℚ) = qb * 2 ^ r) (hpos : 0 < b) :
    ((Int.fdiv a b * 2 ^ r : ℤ) : ℚ) = ((qa / qb).floor : ℚ) * 2 ^ r := by
  have hqb := fx_qb_ne hb hpos
  have : qa / qb = (a : ℚ) / (b : ℚ) := by rw [ha, hb]; field_simp
  rw [this, fx_floor_div _ _ hpos]
  push_cast; ring

/-- `%` -/
theorem fx_mod (ha : (a : ℚ) = qa * 2 ^ r) (hb : (b : ℚ) = qb * 2 ^ r) (hpos : 0 < b) :
    ((Int.fmod a b : ℤ) : ℚ) = (qa - qb * ((qa / qb).floor : ℚ)) * 2 ^ r := by
  have hqb := fx_qb_ne hb hpos
  have : qa / qb = (a : ℚ) / (b : ℚ) := by rw [ha, hb]; field_simp
  rw [this, fx_floor_div _ _ hpos, Int.fmod_def]
  push_cast; rw [ha, hb]; ring

/-- comparisons of the representations are those of the numbers -/
theorem fx_cmp (op : Cmp) (ha : (a : ℚ) = qa * 2 ^ r) (hb : (b : ℚ) = qb * 2 ^ r) :
    cmpSem op a b = fxCmpQ op qa qb := by
  have hp := fx_pow_pos r
  have hlt : a < b ↔ qa < qb := by
    rw [← Int.cast_lt (R := ℚ), ha, hb]; exact mul_lt_mul_iff_of_pos_right hp
  have hle : a ≤ b ↔ qa ≤ qb := by
    rw [← Int.cast_le (R := ℚ), ha, hb]; exact mul_le_mul_iff_of_pos_right hp
  have hlt' : b < a ↔ qb < qa := by
    rw [← Int.cast_lt (R := ℚ), ha, hb]; exact mul_lt_mul_iff_of_pos_right hp
  have hle' : b ≤ a ↔ qb ≤ qa := by
    rw [← Int.cast_le (R := ℚ), ha, hb]; exact mul_le_mul_iff_of_pos_right hp
  have heq : a = b ↔ qa = qb := by
    rw [← Int.cast_inj (α := ℚ), ha, hb]; exact mul_left_inj' hp.ne'
  cases op <;> simp only [cmpSem, fxCmpQ, gt_iff_lt, ge_iff_le, ne_eq, hlt, hle, hlt', hle', heq,
    ite_not]

/-- `x >> n`: `⌊a / 2^n⌋` on the representation is `⌊(qa / 2^n)·2^r⌋/2^r` -/
theorem fx_rshift (n : ℕ) (ha : (a : ℚ) = qa * 2 ^ r) :
    ((a >>> n : ℤ) : ℚ) = fxFloor r (qa / 2 ^ n) * 2 ^ r := by
  unfold fxFloor
  rw [div_mul_cancel₀ _ (fx_pow_ne r), Int.shiftRight_eq_div_pow]
  have : qa / 2 ^ n * 2 ^ r = ((a : ℤ) : ℚ) / (((2 ^ n : ℕ) : ℤ) : ℚ) := by
    push_cast; rw [ha]; ring
  rw [this, fx_floor_div _ _ (by positivity), Int.fdiv_eq_ediv_of_nonneg _ (by positivity)]
end

theorem fxCmpZ_eq (op : Cmp) (a b : ℤ) : fxCmpZ op a b = cmpSem op a b := by
  cases op <;> simp only [cmpSem, fxCmpZ, gt_iff_lt, ge_iff_le, ne_eq, ite_not]

theorem fxCmpQ_01 (op : Cmp) (a b : ℚ) : fxIsBool (fxCmpQ op a b) = true := by
  cases op <;> simp only [fxCmpQ] <;> split <;> rfl

theorem fx_cmpSem_01 (op : Cmp) (a b : ℤ) : fxIsBool (cmpSem op a b) = true := by
  cases op <;> simp only [cmpSem] <;> split <;> rfl

end Pysnark
