import PysnarkModel.Lemmas.Values
import PysnarkModel.Lemmas.InvVal
/-!
# Value lemmas for the fixed-point class (`LinCombFxp`, `Val.fxp`)

A fixed-point number `v` at resolution `r` is represented by the integer `v·2^r`; `Val.fxp x`
wraps the `LinComb` `x` whose `value` is that representation.
-/
namespace Pysnark

/-- the representation, at resolution `r`, of a value that `_ensurefxp` accepts -/
def rep (r : Nat) : Val → Int
  | .int c => c * 2 ^ r
  | .flt m e => scaleFlt m e r
  | .lc y => y.value * 2 ^ r
  | .lcb y => y.value * 2 ^ r
  | .fxp y => y.value
  | _ => 0

theorem ensurefxp_val {s s' : St} {v : Val} {y : LinComb} (h : ensurefxp v s = .ok (y, s')) :
    s' = s ∧ y.value = rep s.resolution v := by
  unfold ensurefxp at h
  rw [getRes_bind] at h
  split at h
  all_goals first
    | exact (raise_ok.mp h).elim
    | (obtain ⟨rfl, rfl⟩ := pure_ok' h; exact ⟨rfl, rfl⟩)

theorem scaleFlt_neg (m : Int) (e r : Nat) : scaleFlt (-m) e r = -scaleFlt m e r := by
  unfold scaleFlt
  rw [neg_mul, Int.neg_tdiv]

theorem negV_val {s s' : St} {b nb : Val} (h : negV b s = .ok (nb, s')) (r : Nat) :
    s' = s ∧ rep r nb = -rep r b := by
  unfold negV at h
  split at h
  all_goals first
    | exact (raise_ok.mp h).elim
    | (obtain ⟨rfl, rfl⟩ := pure_ok' h
       refine ⟨rfl, ?_⟩
       simp only [rep, neg_value, scaleFlt_neg]
       try ring)

/-! ## addition, subtraction, negation -/
theorem addXV_val {s s' : St} {x : LinComb} {o v : Val} (h : addXV x o s = .ok (v, s')) :
    s' = s ∧ ∃ z, v = .fxp z ∧ z.value = x.value + rep s.resolution o := by
  unfold addXV at h
  rw [getRes_bind] at h
  split at h
  all_goals first
    | exact (raise_ok.mp h).elim
    | (obtain ⟨rfl, rfl⟩ := pure_ok' h; exact ⟨rfl, _, rfl, rfl⟩)

theorem subXV_val {s s' : St} {x : LinComb} {o v : Val} (h : subV (.fxp x) o s = .ok (v, s')) :
    s' = s ∧ ∃ z, v = .fxp z ∧ z.value = x.value - rep s.resolution o := by
  unfold subV at h
  simp only at h
  obtain ⟨nb, s1, h1, h2⟩ := bind_ok.mp h
  obtain ⟨e1, hn⟩ := negV_val h1 s.resolution
  subst e1
  obtain ⟨e2, z, rfl, hz⟩ := addXV_val h2
  exact ⟨e2, z, rfl, by rw [hz, hn]; ring⟩

theorem negXV_val {s s' : St} {x : LinComb} {v : Val} (h : negV (.fxp x) s = .ok (v, s')) :
    s' = s ∧ ∃ z, v = .fxp z ∧ z.value = -x.value := by
  unfold negV at h
  obtain ⟨rfl, rfl⟩ := pure_ok' h
  exact ⟨rfl, _, rfl, rfl⟩

/-! ## multiplication -/
theorem floordivLI_val {s s' : St} {x q : LinComb} {c : Int} (h : floordivLI x c s = .ok (q, s')) :
    Same s s' ∧ q.value = Int.fdiv x.value c := by
  unfold floordivLI at h
  obtain ⟨qr, s1, h1, h⟩ := bind_ok.mp h
  obtain ⟨rfl, rfl⟩ := pure_ok' h
  obtain ⟨sm, -, v1, -⟩ := divmodLL_val h1
  exact ⟨sm, v1⟩

theorem floordivLL_val {s s' : St} {x y q : LinComb} (h : floordivLL x y s = .ok (q, s')) :
    Same s s' ∧ q.value = Int.fdiv x.value y.value := by
  unfold floordivLL at h
  obtain ⟨qr, s1, h1, h⟩ := bind_ok.mp h
  obtain ⟨rfl, rfl⟩ := pure_ok' h
  obtain ⟨sm, -, v1, -⟩ := divmodLL_val h1
  exact ⟨sm, v1⟩

/-- the integer that `LinCombFxp.__mul__` computes for each kind of right operand -/
def mulXSem (r : Nat) (a : Int) : Val → Int
  | .int c => a * c
  | .lc y => a * y.value
  | .lcb y => a * y.value
  | .fxp y => Int.fdiv (a * y.value) (2 ^ r)
  | .flt m e => Int.fdiv (a * scaleFlt m e r) (2 ^ r)
  | _ => 0

theorem mulXV_val {s s' : St} {x : LinComb} {o v : Val} (h : mulXV x o s = .ok (v, s')) :
    Same s s' ∧ ∃ z, v = .fxp z ∧ z.value = mulXSem s.resolution x.value o := by
  unfold mulXV at h
  rw [getRes_bind] at h
  split at h
  · obtain ⟨rfl, rfl⟩ := pure_ok' h
    exact ⟨Same.refl _, _, rfl, rfl⟩
  · obtain ⟨q, s1, h1, h⟩ := bind_ok.mp h
    obtain ⟨rfl, rfl⟩ := pure_ok' h
    obtain ⟨sm, v1⟩ := floordivLI_val h1
    exact ⟨sm, _, rfl, v1⟩
  · obtain ⟨z, s1, h1, h⟩ := bind_ok.mp h
    obtain ⟨rfl, rfl⟩ := pure_ok' h
    obtain ⟨sm, v1⟩ := mulLL_val h1
    exact ⟨sm, _, rfl, v1⟩
  · obtain ⟨z, s1, h1, h⟩ := bind_ok.mp h
    obtain ⟨q, s2, h2, h⟩ := bind_ok.mp h
    obtain ⟨rfl, rfl⟩ := pure_ok' h
    obtain ⟨sm1, v1⟩ := mulLL_val h1
    obtain ⟨sm2, v2⟩ := floordivLI_val h2
    exact ⟨sm1.trans sm2, _, rfl, by rw [v2, v1]; rfl⟩
  · obtain ⟨z, s1, h1, h⟩ := bind_ok.mp h
    obtain ⟨rfl, rfl⟩ := pure_ok' h
    obtain ⟨sm, v1⟩ := mulLL_val h1
    exact ⟨sm, _, rfl, v1⟩
  · exact (raise_ok.mp h).elim

/-! ## true division -/
/-- the integer that `LinCombFxp.__truediv__` computes for each kind of right operand -/
def truedivXSem (r : Nat) (a : Int) : Val → Int
  | .int c => Int.fdiv a c
  | .flt m e => Int.fdiv (a * 2 ^ r) (scaleFlt m e r)
  | .lc y => Int.fdiv (a * 2 ^ r) (y.value * 2 ^ r)
  | .fxp y => Int.fdiv (a * 2 ^ r) y.value
  | _ => 0

theorem truedivXV_val {s s' : St} {x q : LinComb} {o : Val} (h : truedivXV x o s = .ok (some q, s')) :
    Same s s' ∧ q.value = truedivXSem s.resolution x.value o := by
  unfold truedivXV at h
  rw [getRes_bind] at h
  split at h
  · obtain ⟨q1, s1, h1, h⟩ := bind_ok.mp h
    obtain ⟨he, rfl⟩ := pure_ok' h
    cases he
    exact floordivLI_val h1
  · obtain ⟨q1, s1, h1, h⟩ := bind_ok.mp h
    obtain ⟨he, rfl⟩ := pure_ok' h
    cases he
    exact floordivLI_val h1
  · obtain ⟨q1, s1, h1, h⟩ := bind_ok.mp h
    obtain ⟨he, rfl⟩ := pure_ok' h
    cases he
    exact floordivLL_val h1
  · obtain ⟨q1, s1, h1, h⟩ := bind_ok.mp h
    obtain ⟨he, rfl⟩ := pure_ok' h
    cases he
    exact floordivLL_val h1
  · obtain ⟨he, -⟩ := pure_ok' h
    cases he

/-- dividing by the integer `c` is the same as dividing the scaled dividend by the scaled `c` -/
theorem fdiv_mul_pow (a c : Int) (r : Nat) : Int.fdiv (a * 2 ^ r) (c * 2 ^ r) = Int.fdiv a c := by
  have hpos : (0 : Int) < 2 ^ r := by positivity
  rw [Int.fdiv_eq_ediv, Int.fdiv_eq_ediv]
  rcases lt_trichotomy c 0 with hc | hc | hc
  · have hc' : c * 2 ^ r < 0 := Int.mul_neg_of_neg_of_pos hc hpos
    have e1 : ¬ (0 ≤ c * 2 ^ r) := not_le.mpr hc'
    have e2 : ¬ (0 ≤ c) := not_le.mpr hc
    simp only [e1, e2, false_or]
    rw [Int.mul_ediv_mul_of_pos_left _ _ hpos]
    have : (c * 2 ^ r ∣ a * 2 ^ r) ↔ (c ∣ a) := Int.mul_dvd_mul_iff_right (by positivity)
    simp only [this]
  · subst hc; simp
  · have hc' : 0 ≤ c * 2 ^ r := by positivity
    simp only [hc', hc.le, true_or, if_true]
    rw [Int.mul_ediv_mul_of_pos_left _ _ hpos]

/-- uniformly: the quotient of the represented numbers, rescaled and floored -/
theorem truedivXSem_eq (r : Nat) (a : Int) (o : Val) (ho : ∀ y, o ≠ .lcb y) (hn : o ≠ .none)
    (hl : ∀ l, o ≠ .list l) (ht : ∀ l, o ≠ .tuple l) :
    truedivXSem r a o = Int.fdiv (a * 2 ^ r) (rep r o) := by
  cases o with
  | int c => simp only [truedivXSem, rep, fdiv_mul_pow]
  | lcb y => exact (ho y rfl).elim
  | none => exact (hn rfl).elim
  | list l => exact (hl l rfl).elim
  | tuple l => exact (ht l rfl).elim
  | _ => rfl

/-! ## floor division and modulo -/
theorem divmodXV_val {s s' : St} {x : LinComb} {o : Val} {qr : LinComb × LinComb}
    (h : divmodXV x o s = .ok (some qr, s')) :
    Same s s' ∧ qr.1.value = Int.fdiv x.value (rep s.resolution o) * 2 ^ s.resolution ∧
      qr.2.value = Int.fmod x.value (rep s.resolution o) := by
  unfold divmodXV at h
  rw [getRes_bind] at h
  dsimp only at h
  split at h
  all_goals first
    | (obtain ⟨qr1, s1, h1, h⟩ := bind_ok.mp h
       obtain ⟨he, rfl⟩ := pure_ok' h
       cases he
       obtain ⟨sm, -, v1, v2, -⟩ := divmodLL_val h1
       exact ⟨sm, by rw [mulI_value, v1]; rfl, by rw [v2]; rfl⟩)
    | (obtain ⟨he, -⟩ := pure_ok' h; cases he)

/-! ## comparisons -/
theorem cmpXV_val {s s' : St} {op : Cmp} {x : LinComb} {b v : Val} (hg : s.guard = none)
    (hi : s.ignoreErrors = false) (h : cmpV op (.fxp x) b s = .ok (v, s')) :
    Same s s' ∧ ∃ r, v = .lcb r ∧ r.value = cmpSem op x.value (rep s.resolution b) := by
  unfold cmpV at h
  obtain ⟨y, s1, h1, h⟩ := bind_ok.mp h
  obtain ⟨r, s2, h2, h⟩ := bind_ok.mp h
  obtain ⟨rfl, rfl⟩ := pure_ok' h
  obtain ⟨rfl, vy⟩ := ensurefxp_val h1
  obtain ⟨sm, vr⟩ := cmpLL_val hg hi h2
  exact ⟨sm, r, rfl, by rw [vr, vy]⟩

/-- the order of the representations is the order of the represented numbers -/
theorem cmp_rep_iff (r : Nat) (a b : Int) :
    (a < b ↔ (a : ℚ) / 2 ^ r < (b : ℚ) / 2 ^ r) ∧ (a ≤ b ↔ (a : ℚ) / 2 ^ r ≤ (b : ℚ) / 2 ^ r) ∧
    (a = b ↔ (a : ℚ) / 2 ^ r = (b : ℚ) / 2 ^ r) := by
  have hpos : (0 : ℚ) < 2 ^ r := by positivity
  refine ⟨?_, ?_, ?_⟩
  · rw [div_lt_div_iff_of_pos_right hpos]; exact Int.cast_lt.symm
  · rw [div_le_div_iff_of_pos_right hpos]; exact Int.cast_le.symm
  · rw [div_left_inj' hpos.ne']; exact Int.cast_inj.symm

/-- what the METHOD BODY of `LinComb.__lt__` computes on a `LinCombFxp` operand — the slip behind
the repaired finding C14-lincomb-strict-compare-fxp, kept as the reason why `__lt__` / `__gt__` now
return `NotImplemented` there: `other - self - 1` is fixed-point arithmetic, so the `1` is `2^r`
units of the representation where one unit is meant, and `a < x` would come out as
`(a + 1)·2^r ≤ x` instead of `a·2^r < x`.  `cmpV` no longer reaches this body (`cmpV_lc_fxp_strict`). -/
theorem cmpLV_lt_fxp_val {s s' : St} {a x : LinComb} {v : Val} (hg : s.guard = none)
    (hi : s.ignoreErrors = false) (h : cmpLV .lt a (.fxp x) s = .ok (v, s')) :
    ∃ r, v = .lcb r ∧
      r.value = if (a.value + 1) * 2 ^ s.resolution ≤ x.value then 1 else 0 := by
  unfold cmpLV at h
  simp only at h
  obtain ⟨d, s1, h1, h⟩ := bind_ok.mp h
  obtain ⟨rfl, d1, rfl, vd1⟩ := subXV_val h1
  obtain ⟨d', s2, h2, h⟩ := bind_ok.mp h
  obtain ⟨rfl, d2, rfl, vd2⟩ := subXV_val h2
  unfold checkPositiveV at h
  obtain ⟨r, s3, h3, h⟩ := bind_ok.mp h
  obtain ⟨rfl, rfl⟩ := pure_ok' h
  obtain ⟨-, vr, -⟩ := checkPositive_val hg hi h3
  refine ⟨r, rfl, ?_⟩
  simp only [rep] at vd1 vd2
  rw [vr, vd2, vd1]
  split <;> split <;> first | rfl | (exfalso; linarith)

/-- the dispatch of a strict comparison with an integer secret on the left and a fixed-point value
on the right: `LinComb.__lt__/__gt__` → `NotImplemented` → the reflected `LinCombFxp.__gt__/__lt__` -/
theorem cmpV_lc_fxp_strict {op : Cmp} (hs : op.strict = true) (a x : LinComb) :
    cmpV op (.lc a) (.fxp x) =
      (do let z ← ensurefxp (.lc a); let r ← cmpLL op.mirror x z; pure (Val.lcb r)) := by
  unfold cmpV
  simp only [hs, if_true]

/-- **repaired** (C14-lincomb-strict-compare-fxp): `a < x` and `a > x` with an integer secret `a` on
the LEFT of a fixed-point `x` are the order of the representations `a·2^r` and `x` -/
theorem cmpV_lc_fxp_strict_val {s s' : St} {op : Cmp} {a x : LinComb} {v : Val} (hs : op.strict = true)
    (hg : s.guard = none) (hi : s.ignoreErrors = false)
    (h : cmpV op (.lc a) (.fxp x) s = .ok (v, s')) :
    Same s s' ∧ ∃ r, v = .lcb r ∧ r.value = cmpSem op (a.value * 2 ^ s.resolution) x.value := by
  rw [cmpV_lc_fxp_strict hs] at h
  obtain ⟨z, s1, h1, h⟩ := bind_ok.mp h
  obtain ⟨r, s2, h2, h⟩ := bind_ok.mp h
  obtain ⟨rfl, rfl⟩ := pure_ok' h
  obtain ⟨rfl, vz⟩ := ensurefxp_val h1
  obtain ⟨sm, vr⟩ := cmpLL_val hg hi h2
  refine ⟨sm, r, rfl, ?_⟩
  rw [vr, vz]
  cases op <;> first
    | (simp only [Cmp.strict, Bool.false_eq_true] at hs; done)
    | (simp only [Cmp.mirror, cmpSem, rep]; done)
    | (simp only [Cmp.mirror, cmpSem, rep]; split <;> split <;> first | rfl | omega)

/-! ## opening and construction -/
theorem valL_val {s s' : St} {x : LinComb} {v : Int} (h : valL x s = .ok (v, s')) :
    Same s s' ∧ v = x.value := by
  unfold valL at h
  obtain ⟨o, s1, h1, h⟩ := bind_ok.mp h
  obtain ⟨u, s2, h2, h⟩ := bind_ok.mp h
  obtain ⟨rfl, rfl⟩ := pure_ok' h
  exact ⟨(pubVal_val h1).1.trans (assertZero_val h2).1, rfl⟩

theorem valX_val {s s' : St} {x : LinComb} {args : List Val} {v : Val}
    (h : callMeth .val (.fxp x) args s = .ok (v, s')) :
    Same s s' ∧ v = .flt x.value s.resolution ∧ x.value.natAbs < 2 ^ 53 := by
  unfold callMeth at h
  simp only at h
  obtain ⟨v1, s1, h1, h⟩ := bind_ok.mp h
  obtain ⟨sm, rfl⟩ := valL_val h1
  rw [getRes_bind] at h
  split at h
  · exact (raise_ok.mp h).elim
  · rename_i hlt
    obtain ⟨rfl, rfl⟩ := pure_ok' h
    exact ⟨sm, by rw [sm.res], by omega⟩

theorem valX_total {s : St} {x : LinComb} {args : List Val} (hg : s.guard = none)
    (hlt : x.value.natAbs < 2 ^ 53) :
    ∃ s', callMeth .val (.fxp x) args s = .ok (.flt x.value s.resolution, s') := by
  unfold callMeth
  simp only
  unfold valL
  rw [show ∀ (f : LinComb → M Int), (pubVal x.value >>= f) = fun s =>
      f ⟨x.value, [(Wire.pub s.pub.length, 1)]⟩ { s with pub := s.pub ++ [x.value] } from fun _ => rfl]
  obtain ⟨s2, h2, sm2⟩ := assertZero_total (s := { s with pub := s.pub ++ [x.value] })
    (x := x.sub ⟨x.value, [(Wire.pub s.pub.length, 1)]⟩) hg (by simp)
  refine ⟨s2, bind_ok.mpr ⟨x.value, s2, bind_ok.mpr ⟨(), s2, h2, rfl⟩, ?_⟩⟩
  rw [getRes_bind]
  have : ¬ (x.value.natAbs ≥ 2 ^ 53) := by omega
  simp only [this, if_false]
  rw [sm2.res]
  rfl

theorem mkVal_privx_val {s s' : St} {lit v : Val} (h : mkVal .privx lit s = .ok (v, s')) :
    Same s s' ∧ ∃ x, v = .fxp x ∧ x.value = rep s.resolution lit ∧
      ((∃ c, lit = .int c) ∨ ∃ m e, lit = .flt m e) := by
  unfold mkVal at h
  cases lit <;> simp only at h
  all_goals try exact (raise_ok.mp h).elim
  · rw [getRes_bind] at h
    obtain ⟨x, s1, h1, h⟩ := bind_ok.mp h
    obtain ⟨rfl, rfl⟩ := pure_ok' h
    obtain ⟨sm, vx⟩ := privVal_val h1
    exact ⟨sm, x, rfl, vx, Or.inl ⟨_, rfl⟩⟩
  · rw [getRes_bind] at h
    obtain ⟨x, s1, h1, h⟩ := bind_ok.mp h
    obtain ⟨rfl, rfl⟩ := pure_ok' h
    obtain ⟨sm, vx⟩ := privVal_val h1
    exact ⟨sm, x, rfl, vx, Or.inr ⟨_, _, rfl⟩⟩

end Pysnark
