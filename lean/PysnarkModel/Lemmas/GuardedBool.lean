import PysnarkModel.Lemmas.GuardedInertRun
/-!
# Every `LinCombBool` the library constructs carries 0 or 1 (C07, gap G1)

`LinCombBool.__init__` tests `is_boolean_value(lc.value)` BEFORE it looks at `constrain`, at the
guard or at the error mode (`Model/Gadgets.lean`, `mkBool`; `pysnark/boolean.py` l.15).  So the
result of every call that hands back a `LinCombBool` (comparisons, zero tests, `~b`, `b & c`,
`to_bits`, `PrivValBool`, ...) is 0/1-valued in EVERY state: with or without a guard, whatever the
guard value, error checking on or off.  `Ret Q m`: every result `m` returns satisfies `Q`, from any
state.  `step_boolV`: one instruction keeps "every register is `BoolV`"; no hypothesis on the state.
-/
namespace Pysnark

/-- every result the computation returns (from ANY state) satisfies `Q` -/
def Ret {α : Type} (Q : α → Prop) (m : M α) : Prop := ∀ s a s', m s = .ok (a, s') → Q a

namespace Ret
variable {α β : Type}

theorem bind {Q : α → Prop} {R : β → Prop} {m : M α} {f : α → M β}
    (hm : Ret Q m) (hf : ∀ a, Q a → Ret R (f a)) : Ret R (m >>= f) := by
  intro s b s'' h
  obtain ⟨a, s', h1, h2⟩ := bind_ok.mp h
  exact hf a (hm s a s' h1) s' b s'' h2

/-- nothing is needed about the first computation -/
theorem bind' {R : β → Prop} {m : M α} {f : α → M β} (hf : ∀ a, Ret R (f a)) : Ret R (m >>= f) := by
  intro s b s'' h
  obtain ⟨a, s', _, h2⟩ := bind_ok.mp h
  exact hf a s' b s'' h2

theorem pure {Q : α → Prop} {a : α} (h : Q a) : Ret Q (Pure.pure a : M α) := by
  intro s b s' hb
  obtain ⟨rfl, -⟩ := pure_ok.mp hb
  exact h

theorem ok {Q : α → Prop} {a : α} (h : Q a) : Ret Q (fun s => .ok (a, s)) := by
  intro s b s' hb
  cases hb
  exact h

theorem raise {Q : α → Prop} {e : Err} : Ret Q (Pysnark.raise e : M α) := by
  intro s b s' hb
  exact (raise_ok.mp hb).elim

theorem tyErr {Q : α → Prop} : Ret Q (Pysnark.tyErr : M α) := Ret.raise

/-- `if c then m else raise e`: whatever completes came from `m` -/
theorem iteElseRaise {Q : α → Prop} {c : Prop} [Decidable c] {m : M α} {e : Err} (h : Ret Q m) :
    Ret Q (if c then m else Pysnark.raise e) := by
  split
  · exact h
  · exact Ret.raise

theorem mono {Q Q' : α → Prop} {m : M α} (h : Ret Q m) (hq : ∀ a, Q a → Q' a) : Ret Q' m :=
  fun s a s' hh => hq a (h s a s' hh)

theorem triv {m : M α} : Ret (fun _ => True) m := fun _ _ _ _ => trivial

/-- a computation that reads the state first -/
theorem readSt {Q : α → Prop} {f : St → M α} (h : ∀ t, Ret Q (f t)) : Ret Q (fun s => f s s) :=
  fun s a s' hh => h s s a s' hh

theorem ite {Q : α → Prop} {c : Prop} [Decidable c] {a b : M α} (ha : Ret Q a) (hb : Ret Q b) :
    Ret Q (if c then a else b) := by
  split
  · exact ha
  · exact hb

/-- `fun s => if c s then .error e else m s` -/
theorem guardIf {Q : α → Prop} {c : St → Bool} {e : Err} {m : M α} (hm : Ret Q m) :
    Ret Q (fun s => if c s = true then .error e else m s) := by
  intro s a s' h
  by_cases hc : c s = true
  · simp [hc] at h
  · simp only [hc] at h
    exact hm s a s' h

/-- the frequent shape `do let r ← m; pure (.lcb r)` -/
theorem lcb {m : M LinComb} (h : Ret (fun r => r.value = 0 ∨ r.value = 1) m) :
    Ret BoolV (m >>= fun r => Pure.pure (Val.lcb r)) :=
  Ret.bind h (fun _ hr => Ret.pure (BoolV_lcb.mpr hr))

end Ret

abbrev RetB (m : M LinComb) : Prop := Ret (fun r => r.value = 0 ∨ r.value = 1) m
abbrev RetV (m : M Val) : Prop := Ret BoolV m

/-! ## the constructor and everything that ends in it -/
theorem mkBool_ret (x : LinComb) (c : Bool) : RetB (mkBool x c) := by
  intro s r s' h
  obtain ⟨-, rfl, hb⟩ := mkBool_val h
  exact hb

theorem privValBool_ret (v : Int) : RetB (privValBool v) := by
  intro s r s' h
  obtain ⟨-, hv, hb⟩ := privValBool_val h
  rw [hv]; exact hb

theorem pubValBool_ret (v : Int) : RetB (pubValBool v) := by
  intro s r s' h
  unfold pubValBool at h
  split at h
  · cases h
  · obtain ⟨x, s1, _, h2⟩ := bind_ok.mp h
    exact mkBool_ret _ _ _ _ _ h2

theorem ensureboolI_ret (v : Int) : RetB (ensureboolI v) := by
  intro s r s' h
  unfold ensureboolI at h
  split at h
  · cases h
  · exact mkBool_ret _ _ _ _ _ h

theorem boolNot_ret (b : LinComb) : RetB (boolNot b) := mkBool_ret _ _

theorem checkZero_ret (x : LinComb) : RetB (checkZero x) := by
  intro s r s' h
  obtain ⟨-, hv⟩ := checkZero_val h
  rw [hv]; split <;> simp

theorem checkNonzero_ret (x : LinComb) : RetB (checkNonzero x) := by
  intro s r s' h
  obtain ⟨-, hv⟩ := checkNonzero_val h
  rw [hv]; split <;> simp

theorem mapM'_ret {α β : Type} {f : α → M β} {B : β → Prop} (hf : ∀ a, Ret B (f a)) :
    ∀ l : List α, Ret (fun rs => ∀ r ∈ rs, B r) (mapM' f l)
  | [] => by unfold mapM'; exact Ret.pure (by simp)
  | x :: xs => by
    unfold mapM'
    refine Ret.bind (hf x) (fun y hy => ?_)
    refine Ret.bind (mapM'_ret hf xs) (fun ys hys => Ret.pure ?_)
    intro r hr
    rcases List.mem_cons.mp hr with rfl | hr
    · exact hy
    · exact hys r hr

/-- the same with a fact about the elements of the list -/
theorem mapM'_ret_mem {α β : Type} {f : α → M β} {A : α → Prop} {B : β → Prop} (hf : ∀ a, A a → Ret B (f a)) :
    ∀ l : List α, (∀ a ∈ l, A a) → Ret (fun rs => ∀ r ∈ rs, B r) (mapM' f l)
  | [], _ => by unfold mapM'; exact Ret.pure (by simp)
  | x :: xs, hA => by
    unfold mapM'
    refine Ret.bind (hf x (hA x (List.mem_cons_self ..))) (fun y hy => ?_)
    refine Ret.bind (mapM'_ret_mem hf xs (fun a ha => hA a (List.mem_cons_of_mem _ ha))) (fun ys hys => Ret.pure ?_)
    intro r hr
    rcases List.mem_cons.mp hr with rfl | hr
    · exact hy
    · exact hys r hr

/-- every element of `to_bits(...)` is 0/1, in every state and for every value -/
theorem toBits_ret (x : LinComb) (bits : Option Nat) :
    Ret (fun rs => ∀ r ∈ rs, r.value = 0 ∨ r.value = 1) (toBits x bits) := by
  intro s rs s' h
  unfold toBits at h
  dsimp only at h
  split at h
  · cases h
  · obtain ⟨bs, s1, h1, h2⟩ := bind_ok.mp h
    obtain ⟨u, s2, _, h3⟩ := bind_ok.mp h2
    obtain ⟨rfl, -⟩ := pure_ok.mp h3
    exact mapM'_ret privValBool_ret _ _ _ _ h1

/-- the result of `check_positive` is 0/1 in every state (the hint goes through `PrivValBool`) -/
theorem checkPositive_ret (x : LinComb) (bits : Option Nat) : RetB (checkPositive x bits) := by
  unfold checkPositive
  refine Ret.bind' (fun t => ?_)
  refine Ret.bind' (fun rb => ?_)
  refine Ret.bind (privValBool_ret _) (fun ret hret => ?_)
  refine Ret.bind' (fun _ => ?_)
  refine Ret.bind' (fun _ => ?_)
  exact Ret.pure hret

theorem cmpLL_ret (op : Cmp) (x y : LinComb) : RetB (cmpLL op x y) := by
  cases op <;> simp only [cmpLL]
  · exact checkPositive_ret _ _
  · exact checkPositive_ret _ _
  · exact checkZero_ret _
  · exact checkNonzero_ret _
  · exact checkPositive_ret _ _
  · exact checkPositive_ret _ _

theorem eqLI_ret (a : LinComb) (c : Int) : RetB (eqLI a c) := checkZero_ret _
theorem neLI_ret (a : LinComb) (c : Int) : RetB (neLI a c) := checkNonzero_ret _
theorem geLL_ret (a b : LinComb) : RetB (geLL a b) := checkPositive_ret _ _

/-- `_ensurebool` of a value whose booleans are 0/1 -/
theorem ensurebool_ret {v : Val} (hv : BoolV v) : RetB (ensurebool v) := by
  unfold ensurebool
  cases v with
  | lcb x => exact Ret.pure (BoolV_lcb.mp hv)
  | lc x =>
    intro s r s' h
    dsimp only at h
    split at h
    · cases h
    · exact mkBool_ret _ _ _ _ _ h
  | int c => exact ensureboolI_ret c
  | _ => exact Ret.raise

/-! ## tactic support -/
syntax "retq_rule" : tactic
macro_rules | `(tactic| retq_rule) => `(tactic| fail "no ret rule applies")

macro "retq_side" : tactic => `(tactic| (
  (fail_if_success (show Ret _ _))
  first
    | assumption
    | exact trivial
    | exact BoolV_lc | exact BoolV_fxp | exact BoolV_int | exact BoolV_flt | exact BoolV_none
    | exact BoolV_ofFB _
    | exact BoolV_pickL _ _ | exact BoolV_pickX _ _
    | (simp only [BoolV_lcb]; assumption)))

macro "retq_step" : tactic => `(tactic| first
  | exact Ret.raise
  | exact Ret.tyErr
  | (show ∀ _, Ret _ _; intro _)
  | dsimp only
  | (show Ret _ _; assumption)
  | retq_rule
  | (refine Ret.lcb ?_; retq_rule)
  | refine Ret.pure ?_
  | refine Ret.ok ?_
  | refine Ret.bind' ?_
  | refine Ret.ite ?_ ?_
  | retq_side
  | split)

macro "retq" : tactic => `(tactic| repeat' retq_step)

macro_rules | `(tactic| retq_rule) => `(tactic| first
  | with_reducible apply mkBool_ret | with_reducible apply privValBool_ret | with_reducible apply pubValBool_ret
  | with_reducible apply boolNot_ret | with_reducible apply checkZero_ret | with_reducible apply checkNonzero_ret
  | with_reducible apply checkPositive_ret | with_reducible apply cmpLL_ret | with_reducible apply eqLI_ret
  | with_reducible apply neLI_ret | with_reducible apply geLL_ret | with_reducible apply ensureboolI_ret)

/-! ## the dynamically typed layer: results of arithmetic never contain a `LinCombBool` -/
theorem negV_ret (v : Val) : RetV (negV v) := by
  cases v <;> simp only [negV] <;> retq
theorem addLV_ret (x : LinComb) (o : Val) : RetV (addLV x o) := by
  cases o <;> simp only [addLV] <;> retq
theorem addXV_ret (x : LinComb) (o : Val) : RetV (addXV x o) := by
  cases o <;> simp only [addXV] <;> retq
macro_rules | `(tactic| retq_rule) => `(tactic| first
  | with_reducible apply negV_ret | with_reducible apply addLV_ret | with_reducible apply addXV_ret)

theorem addV_ret (a b : Val) : RetV (addV a b) := by
  cases a <;> cases b <;> simp only [addV] <;> retq
macro_rules | `(tactic| retq_rule) => `(tactic| with_reducible apply addV_ret)

theorem subV_ret (a b : Val) : RetV (subV a b) := by
  cases a <;> cases b <;> simp only [subV] <;> retq
macro_rules | `(tactic| retq_rule) => `(tactic| with_reducible apply subV_ret)

theorem mulLV_ret (x : LinComb) (o : Val) : RetV (mulLV x o) := by
  cases o <;> simp only [mulLV] <;> retq
theorem mulXV_ret (x : LinComb) (o : Val) : RetV (mulXV x o) := by
  cases o <;> simp only [mulXV] <;> retq
macro_rules | `(tactic| retq_rule) => `(tactic| first
  | with_reducible apply mulLV_ret | with_reducible apply mulXV_ret)

theorem mulV_ret (a b : Val) : RetV (mulV a b) := by
  cases a <;> cases b <;> simp only [mulV] <;> retq
macro_rules | `(tactic| retq_rule) => `(tactic| with_reducible apply mulV_ret)

theorem divmodV_ret (w : DM) (a b : Val) : RetV (divmodV w a b) := by
  cases a <;> cases b <;> simp only [divmodV] <;> retq

theorem truedivV_ret (a b : Val) : RetV (truedivV a b) := by
  cases a <;> cases b <;> simp only [truedivV] <;> retq

theorem powV_ret (a b : Val) : RetV (powV a b) := by
  cases a <;> cases b <;> simp only [powV] <;> retq

theorem mkFxpNoScale_ret (v : Val) : RetV (mkFxpNoScale v) := by
  unfold mkFxpNoScale
  cases v <;> retq
theorem lshiftLV_ret (x : LinComb) (b : Val) : RetV (lshiftLV x b) := by
  cases b <;> simp only [lshiftLV] <;> retq
theorem rshiftLV_ret (x : LinComb) (b : Val) : RetV (rshiftLV x b) := by
  cases b <;> simp only [rshiftLV] <;> retq
macro_rules | `(tactic| retq_rule) => `(tactic| first
  | with_reducible apply mkFxpNoScale_ret | with_reducible apply lshiftLV_ret | with_reducible apply rshiftLV_ret)

theorem lshiftV_ret (a b : Val) : RetV (lshiftV a b) := by
  cases a <;> cases b <;> simp only [lshiftV] <;> retq
theorem rshiftV_ret (a b : Val) : RetV (rshiftV a b) := by
  cases a <;> cases b <;> simp only [rshiftV] <;> retq

/-! ## logical operators: every result goes through the constructor -/
theorem bwBV_ret (op : BW) (x : LinComb) (o : Val) : RetV (bwBV op x o) := by
  cases op <;> cases o <;> simp only [bwBV] <;> retq
macro_rules | `(tactic| retq_rule) => `(tactic| with_reducible apply bwBV_ret)

theorem bwLV_ret (op : BW) (x : LinComb) (o : Val) : RetV (bwLV op x o) := by
  cases op <;> cases o <;> simp only [bwLV] <;> retq
macro_rules | `(tactic| retq_rule) => `(tactic| with_reducible apply bwLV_ret)

theorem bwV_ret (op : BW) (a b : Val) : RetV (bwV op a b) := by
  cases a <;> cases b <;> simp only [bwV] <;> retq

/-! ## comparisons -/
theorem checkPositiveV_ret (v : Val) : RetV (checkPositiveV v) := by
  cases v <;> simp only [checkPositiveV] <;> retq
theorem checkZeroV_ret (v : Val) : RetV (checkZeroV v) := by
  cases v <;> simp only [checkZeroV] <;> retq
theorem checkNonzeroV_ret (v : Val) : RetV (checkNonzeroV v) := by
  cases v <;> simp only [checkNonzeroV] <;> retq
macro_rules | `(tactic| retq_rule) => `(tactic| first
  | with_reducible apply checkPositiveV_ret | with_reducible apply checkZeroV_ret
  | with_reducible apply checkNonzeroV_ret)

theorem cmpLV_ret (op : Cmp) (x : LinComb) (o : Val) : RetV (cmpLV op x o) := by
  cases op <;> simp only [cmpLV] <;> retq
macro_rules | `(tactic| retq_rule) => `(tactic| with_reducible apply cmpLV_ret)

theorem cmpV_ret (op : Cmp) (a b : Val) : RetV (cmpV op a b) := by
  cases a <;> cases b <;> simp only [cmpV] <;> retq

/-! ## selection: the result is one of the operands or the result of an addition -/
theorem zipWithM'_ret {f : Val → Val → M Val} (hf : ∀ t g, BoolV t → BoolV g → RetV (f t g)) :
    ∀ (ts gs : List Val), (∀ v ∈ ts, BoolV v) → (∀ v ∈ gs, BoolV v) →
      Ret (fun rs => ∀ r ∈ rs, BoolV r) (zipWithM' f ts gs)
  | [], _, _, _ => by simp only [zipWithM']; exact Ret.pure (by simp)
  | _ :: _, [], _, _ => by simp only [zipWithM']; exact Ret.pure (by simp)
  | t :: ts, g :: gs, ht, hg => by
    simp only [zipWithM']
    refine Ret.bind (hf t g (ht t (List.mem_cons_self ..)) (hg g (List.mem_cons_self ..))) (fun r hr => ?_)
    refine Ret.bind (zipWithM'_ret hf ts gs (fun v hv => ht v (List.mem_cons_of_mem _ hv))
      (fun v hv => hg v (List.mem_cons_of_mem _ hv))) (fun rs hrs => Ret.pure ?_)
    intro v hv
    rcases List.mem_cons.mp hv with rfl | hv
    · exact hr
    · exact hrs v hv

/-- the retagging step of a selection hands back what the constructor accepted -/
theorem iteTag_ret (t f : Val) {ret : Val} (hret : BoolV ret) : RetV (iteTag t f ret) := by
  unfold iteTag
  split
  · exact Ret.lcb (mkBool_ret _ _)
  · exact Ret.raise
  · exact Ret.pure hret

theorem iteAux_ret (cond : LinComb) : ∀ (fuel : Nat) (t f : Val), BoolV t → BoolV f → RetV (iteAux cond fuel t f) := by
  intro fuel
  induction fuel with
  | zero => intro t f _ _; simp only [iteAux]; exact Ret.raise
  | succ n ih =>
    intro t f ht hf
    simp only [iteAux]
    split
    · exact Ret.pure ht
    · rename_i hns
      have generic : ∀ f' : Val, RetV (do
          let d ← subV t f'
          let prod ← mulLV cond d
          let ret ← addV f' prod
          iteTag t f' ret) := by
        intro f'
        exact Ret.bind' (fun d => Ret.bind' (fun pr => Ret.bind (addV_ret _ _) (fun ret hret => iteTag_ret _ _ hret)))
      cases t
      case list ts =>
        cases f
        case list fs =>
          dsimp only
          exact Ret.iteElseRaise (Ret.bind (zipWithM'_ret (fun a b ha hb => ih a b ha hb) ts fs (BoolV_list.mp ht) (BoolV_list.mp hf))
            (fun rs hrs => Ret.pure (BoolV_list.mpr hrs)))
        case tuple fs =>
          dsimp only
          exact Ret.iteElseRaise (Ret.bind (zipWithM'_ret (fun a b ha hb => ih a b ha hb) ts fs (BoolV_list.mp ht) (BoolV_tuple.mp hf))
            (fun rs hrs => Ret.pure (BoolV_list.mpr hrs)))
        all_goals exact Ret.tyErr
      all_goals
        dsimp only
        exact Ret.bind' (fun f' => generic f')

theorem ifThenElse_ret (cond : Val) (same : Bool) {t f : Val} (ht : BoolV t) (hf : BoolV f) :
    RetV (ifThenElse cond same t f) := by
  unfold ifThenElse
  split
  · exact Ret.pure ht
  · cases cond
    case int c =>
      dsimp only
      split
      · exact Ret.raise
      · refine Ret.pure ?_
        split <;> assumption
    case lcb c => exact iteAux_ret c _ t f ht hf
    all_goals exact Ret.raise

/-! ## unary operators, constructors, methods, arrays -/
theorem absL_retq (x : LinComb) : Ret (fun _ => True) (absL x) := Ret.triv

theorem unV_ret (op : Un) {a : Val} (ha : BoolV a) : RetV (unV op a) := by
  cases op <;> cases a <;> simp only [unV] <;> first
    | exact negV_ret _
    | exact Ret.pure ha
    | retq

theorem mkVal_ret (k : Kind) (v : Val) : RetV (mkVal k v) := by
  cases k <;> cases v <;> simp only [mkVal] <;> retq

theorem wrapBool_ret (v : Val) : RetV (wrapBool v) := by
  unfold wrapBool
  cases v <;> retq

theorem wrapFxp_ret (v : Val) : RetV (wrapFxp v) := by
  unfold wrapFxp
  cases v <;> retq

theorem callMeth_ret (m : Meth) (self : Val) (args : List Val) : RetV (callMeth m self args) := by
  cases self
  case lc x =>
    cases m <;> simp only [callMeth]
    case toBits =>
      refine Ret.bind' (fun n => ?_)
      exact Ret.bind (toBits_ret x n) (fun bs hbs => Ret.pure (BoolV_map_lcb hbs))
    all_goals retq
  case lcb x => cases m <;> simp only [callMeth] <;> retq
  case fxp x => cases m <;> simp only [callMeth] <;> retq
  case list xs => cases m <;> simp only [callMeth] <;> retq
  all_goals (simp only [callMeth]; exact Ret.raise)

theorem oneHot_ret (item : LinComb) : ∀ (n i : Nat),
    Ret (fun rs => ∀ r ∈ rs, r.value = 0 ∨ r.value = 1) (oneHot item i n)
  | 0, i => by simp only [oneHot]; exact Ret.pure (by simp)
  | n+1, i => by
    simp only [oneHot]
    refine Ret.bind (eqLI_ret item i) (fun c hc => ?_)
    refine Ret.bind (oneHot_ret item n (i+1)) (fun rest hrest => Ret.pure ?_)
    intro r hr
    rcases List.mem_cons.mp hr with rfl | hr
    · exact hc
    · exact hrest r hr

theorem foldlM_addV_ret : ∀ (ps : List Val) (acc : Val), BoolV acc →
    RetV (ps.foldlM (fun acc x => addV acc x) acc)
  | [], acc, h => by
    simp only [List.foldlM_nil]
    exact Ret.pure h
  | x :: xs, acc, _ => by
    simp only [List.foldlM_cons]
    exact Ret.bind (addV_ret acc x) (fun r hr => foldlM_addV_ret xs r hr)

theorem linComb_ret (ixs : List LinComb) (arr : List Val) : RetV (linComb ixs arr) := by
  unfold linComb
  refine Ret.bind' (fun prods => ?_)
  cases prods with
  | nil => exact Ret.pure BoolV_int
  | cons q qs =>
    dsimp only
    exact Ret.bind (addV_ret _ _) (fun first hfirst => foldlM_addV_ret qs first hfirst)

theorem arrayGet_ret {arr : List Val} (harr : ∀ v ∈ arr, BoolV v) (item : Val) : RetV (arrayGet arr item) := by
  unfold arrayGet
  cases item
  case int i =>
    dsimp only
    cases pyIndex arr.length i with
    | none => exact Ret.raise
    | some k =>
      dsimp only
      cases hk : arr[k]? with
      | none => exact Ret.raise
      | some v => exact Ret.pure (harr v (List.mem_of_getElem? hk))
  case lc it =>
    dsimp only
    exact Ret.bind' (fun ixs => linComb_ret ixs arr)
  all_goals exact Ret.tyErr

theorem arraySet_ret {arr : List Val} (harr : ∀ v ∈ arr, BoolV v) (item : Val) {v : Val} (hv : BoolV v) :
    Ret (fun rs => ∀ r ∈ rs, BoolV r) (arraySet arr item v) := by
  unfold arraySet
  cases item
  case int i =>
    dsimp only
    cases pyIndex arr.length i with
    | none => exact Ret.raise
    | some k =>
      refine Ret.pure ?_
      intro r hr
      rcases List.mem_or_eq_of_mem_set hr with h | rfl
      · exact harr r h
      · exact hv
  case lc it =>
    dsimp only
    refine Ret.bind' (fun ixs => ?_)
    refine mapM'_ret_mem (A := fun (cv : LinComb × Val) => BoolV cv.2) (B := BoolV)
      (fun cv hcv => ifThenElse_ret _ false hv hcv) _ ?_
    intro cv hcv
    exact harr _ (List.of_mem_zip hcv).2
  all_goals exact Ret.tyErr

theorem binopV_ret (op : BinOp) (a b : Val) : RetV (binopV op a b) := by
  cases op <;> simp only [binopV]
  case add => exact addV_ret _ _
  case sub => exact subV_ret _ _
  case mul => exact mulV_ret _ _
  case truediv => exact truedivV_ret _ _
  case floordiv => exact divmodV_ret _ _ _
  case mod => exact divmodV_ret _ _ _
  case divmod => exact divmodV_ret _ _ _
  case pow => exact powV_ret _ _
  case lshift => exact lshiftV_ret _ _
  case rshift => exact rshiftV_ret _ _
  case band => exact bwV_ret _ _ _
  case bxor => exact bwV_ret _ _ _
  case bor => exact bwV_ret _ _ _
  all_goals exact cmpV_ret _ _ _

/-! ## one instruction -/
theorem getReg_ret (regs : List Val) (i : Nat) : Ret (fun v => v ∈ regs) (getReg regs i) := by
  intro s v s' h
  exact (getReg_ok h).2

theorem getRegs_ret (regs : List Val) : ∀ is : List Nat, Ret (fun vs => ∀ v ∈ vs, v ∈ regs) (getRegs regs is)
  | [] => by unfold getRegs; exact Ret.pure (by simp)
  | i :: is => by
    unfold getRegs
    refine Ret.bind (getReg_ret regs i) (fun v hv => ?_)
    refine Ret.bind (getRegs_ret regs is) (fun vs hvs => Ret.pure ?_)
    intro w hw
    rcases List.mem_cons.mp hw with rfl | hw
    · exact hv
    · exact hvs w hw

/-- **one instruction keeps every register boolean-clean, in every state** (any guard, any error
mode).  The only hypothesis: a literal is a plain Python value. -/
theorem step_boolV {regs : List Val} (frames : List GuardBak) {i : Instr}
    (hregs : ∀ v ∈ regs, BoolV v) (hlit : ∀ w, i = .lit w → w.noSecret = true) :
    Ret (fun r => BoolV r.1 ∧ ∀ w ∈ r.2.1, BoolV w) (step regs frames i) := by
  cases i
  case lit w =>
    simp only [step]
    exact Ret.pure ⟨BoolV_of_noSecret w (hlit w rfl), hregs⟩
  case mk k a =>
    simp only [step]
    refine Ret.bind' (fun v => ?_)
    exact Ret.bind (mkVal_ret k v) (fun r hr => Ret.pure ⟨hr, hregs⟩)
  case wrapb a =>
    simp only [step]
    refine Ret.bind' (fun v => ?_)
    exact Ret.bind (wrapBool_ret v) (fun r hr => Ret.pure ⟨hr, hregs⟩)
  case wrapx a =>
    simp only [step]
    refine Ret.bind' (fun v => ?_)
    exact Ret.bind (wrapFxp_ret v) (fun r hr => Ret.pure ⟨hr, hregs⟩)
  case bin op a b =>
    simp only [step]
    refine Ret.bind' (fun x => ?_)
    refine Ret.bind' (fun y => ?_)
    exact Ret.bind (binopV_ret op x y) (fun r hr => Ret.pure ⟨hr, hregs⟩)
  case un op a =>
    simp only [step]
    refine Ret.bind (getReg_ret regs a) (fun x hx => ?_)
    exact Ret.bind (unV_ret op (hregs x hx)) (fun r hr => Ret.pure ⟨hr, hregs⟩)
  case call m self args =>
    simp only [step]
    refine Ret.bind' (fun x => ?_)
    refine Ret.bind' (fun as => ?_)
    exact Ret.bind (callMeth_ret m x as) (fun r hr => Ret.pure ⟨hr, hregs⟩)
  case ite c t f =>
    simp only [step]
    refine Ret.bind' (fun cv => ?_)
    refine Ret.bind (getReg_ret regs t) (fun tv ht => ?_)
    refine Ret.bind (getReg_ret regs f) (fun fv hf => ?_)
    exact Ret.bind (ifThenElse_ret cv _ (hregs tv ht) (hregs fv hf)) (fun r hr => Ret.pure ⟨hr, hregs⟩)
  case list xs =>
    simp only [step]
    refine Ret.bind (getRegs_ret regs xs) (fun vs hvs => ?_)
    exact Ret.pure ⟨BoolV_list.mpr (fun v hv => hregs v (hvs v hv)), hregs⟩
  case arr xs =>
    simp only [step]
    refine Ret.bind (getRegs_ret regs xs) (fun vs hvs => ?_)
    exact Ret.pure ⟨BoolV_list.mpr (fun v hv => hregs v (hvs v hv)), hregs⟩
  case idx a k =>
    simp only [step]
    refine Ret.bind (getReg_ret regs a) (fun v hv => ?_)
    have key : ∀ xs : List Val, (∀ w ∈ xs, BoolV w) → Ret (fun r => BoolV r.1 ∧ ∀ w ∈ r.2.1, BoolV w)
        (match pyIndex xs.length k with
          | some j => match xs[j]? with
            | some x => pure (x, regs, frames)
            | Option.none => raise .index
          | Option.none => raise .index : M (Val × List Val × List GuardBak)) := by
      intro xs hxs
      cases pyIndex xs.length k with
      | none => exact Ret.raise
      | some j =>
        dsimp only
        cases hj : xs[j]? with
        | none => exact Ret.raise
        | some x => exact Ret.pure ⟨hxs x (List.mem_of_getElem? hj), hregs⟩
    cases v
    case list xs => exact key xs (BoolV_list.mp (hregs _ hv))
    case tuple xs => exact key xs (BoolV_tuple.mp (hregs _ hv))
    all_goals exact Ret.tyErr
  case genter c =>
    simp only [step]
    refine Ret.bind' (fun cv => ?_)
    refine Ret.bind' (fun bak => ?_)
    exact Ret.pure ⟨BoolV_none, hregs⟩
  case gleave =>
    simp only [step]
    cases frames with
    | nil => exact Ret.raise
    | cons bak rest =>
      dsimp only
      exact Ret.bind' (fun _ => Ret.pure ⟨BoolV_none, hregs⟩)
  case setBl n =>
    simp only [step]
    exact Ret.bind' (fun _ => Ret.pure ⟨BoolV_none, hregs⟩)
  case setRes n =>
    simp only [step]
    exact Ret.bind' (fun _ => Ret.pure ⟨BoolV_none, hregs⟩)
  case setIgn b =>
    simp only [step]
    exact Ret.bind' (fun _ => Ret.pure ⟨BoolV_none, hregs⟩)
  case aget a k =>
    simp only [step]
    refine Ret.bind (getReg_ret regs a) (fun av ha => ?_)
    refine Ret.bind' (fun iv => ?_)
    cases av
    case list xs =>
      exact Ret.bind (arrayGet_ret (BoolV_list.mp (hregs _ ha)) iv) (fun r hr => Ret.pure ⟨hr, hregs⟩)
    all_goals exact Ret.tyErr
  case aset a k w =>
    simp only [step]
    refine Ret.bind (getReg_ret regs a) (fun av ha => ?_)
    refine Ret.bind' (fun iv => ?_)
    refine Ret.bind (getReg_ret regs w) (fun vv hv => ?_)
    cases av
    case list xs =>
      refine Ret.bind (arraySet_ret (BoolV_list.mp (hregs _ ha)) iv (hregs _ hv)) (fun xs' hxs' => ?_)
      refine Ret.pure ⟨BoolV_none, ?_⟩
      intro z hz
      rcases List.mem_or_eq_of_mem_set hz with hz | rfl
      · exact hregs z hz
      · exact BoolV_list.mpr hxs'
    all_goals exact Ret.tyErr

end Pysnark
