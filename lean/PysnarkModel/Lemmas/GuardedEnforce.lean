import PysnarkModel.Lemmas.GuardedSound
/-!
# Same enforcement under a true guard, gadget by gadget (C07, gap G5)

Under a guard `g` every `add_constraint(v, w, y)` emits `v*w = y + dummy` and `g*dummy = 0` on a
fresh wire `dummy`.  For EVERY assignment `w'` that satisfies what a gadget emitted under the guard
and gives the guard expression the value 1, the relation the UNGUARDED gadget enforces
(Lemmas/Sound.lean) holds under `w'`: the dummy wires are forced to 0, so the guarded system is the
unguarded one up to the extra wires.  Proved here for `LinCombBool(x)`, `PrivValBool`, `assert_zero`,
`assert_eq`, `to_bits`, `assert_positive`, `assert_lt/le/gt/ge`, `/` by a secret, `assert_nonzero`;
`x * y` uses `add_constraint_unsafe` and is enforced whatever the guard (`mulLL_sound`).
-/
namespace Pysnark

/-- constraints only grow; modulus, guard and bit length stay -/
structure Grow (s s' : St) : Prop where
  cons : s.cons <+: s'.cons
  p : s'.p = s.p
  guard : s'.guard = s.guard
  bl : s'.bitlength = s.bitlength

theorem Grow.refl (s : St) : Grow s s := ⟨List.prefix_refl _, rfl, rfl, rfl⟩

theorem Grow.trans {a b c : St} (h1 : Grow a b) (h2 : Grow b c) : Grow a c :=
  ⟨h1.cons.trans h2.cons, h2.p.trans h1.p, h2.guard.trans h1.guard, h2.bl.trans h1.bl⟩

theorem Grow.ext (s : St) (hs : List Int) (cs : List Constraint) : Grow s (s.ext hs cs) :=
  ⟨by simp, rfl, rfl, rfl⟩

/-- satisfaction of the constraints added along `s → s1 → s2` splits -/
theorem NewSat.split {s s1 s2 : St} {w : Wire → Int} (h1 : Grow s s1) (h2 : Grow s1 s2) (hw : NewSat s s2 w) :
    NewSat s s1 w ∧ NewSat s1 s2 w := by
  obtain ⟨a, ha⟩ := h1.cons
  obtain ⟨b, hb⟩ := h2.cons
  have e2 : s2.cons = s.cons ++ (a ++ b) := by rw [← hb, ← ha, List.append_assoc]
  have n02 : newCons s s2 = a ++ b := by simp [newCons, e2]
  have n01 : newCons s s1 = a := by simp [newCons, ← ha]
  have n12 : newCons s1 s2 = b := by simp [newCons, ← hb]
  unfold NewSat at hw ⊢
  rw [n02] at hw
  rw [n01, n12, h1.p]
  exact ⟨fun c hc => hw c (List.mem_append_left _ hc), fun c hc => hw c (List.mem_append_right _ hc)⟩

section gadgets
variable {p : ℕ} [Fact p.Prime] {s s' : St} {w : Wire → Int} {g : LinComb}

theorem addConstraint_guarded_grow {v x y : LinComb} {check : Bool} {u : Unit} (hg : s.guard = some g)
    (h : addConstraint v x y check s = .ok (u, s')) : Grow s s' := by
  rw [addConstraint_some_ok hg h]
  exact Grow.ext _ _ _

/-- `LinCombBool(x)` under a true guard: `x ∈ {0,1}` as without the guard (`mkBool_sound`) -/
theorem mkBool_guarded_enforces {x r : LinComb} (hp : s.p = p) (hg : s.guard = some g) (hx : x.lc.WF)
    (h : mkBool x true s = .ok (r, s')) (h1 : w .one = 1) (hw : NewSat s s' w) (hg1 : ev p w g.lc = 1) :
    r = x ∧ (ev p w x.lc = 0 ∨ ev p w x.lc = 1) ∧ Grow s s' := by
  unfold mkBool at h
  split at h
  · cases h
  · simp only [if_true] at h
    obtain ⟨u, s1, h2, h3⟩ := bind_ok.mp h
    obtain ⟨rfl, rfl⟩ := pure_ok.mp h3
    have e := addConstraint_guarded_enforces hp hg (by simp [LinComb.zero, LC.zero, LC.WF, LC.keys]) h2 hw hg1
    rw [ev_rsubI h1 1 hx] at e
    have e' : ev p w r.lc * (1 - ev p w r.lc) = 0 := by simpa [LinComb.zero] using e
    exact ⟨rfl, bool_of_mul e', addConstraint_guarded_grow hg h2⟩

/-- `PrivValBool(v)` under a true guard: the fresh wire is forced to 0/1 -/
theorem privValBool_guarded_enforces {v : Int} {r : LinComb} (hp : s.p = p) (hg : s.guard = some g)
    (h : privValBool v s = .ok (r, s')) (h1 : w .one = 1) (hw : NewSat s s' w) (hg1 : ev p w g.lc = 1) :
    r.lc.WF ∧ (ev p w r.lc = 0 ∨ ev p w r.lc = 1) ∧ Grow s s' := by
  unfold privValBool at h
  split at h
  · cases h
  · obtain ⟨x, s1, h2, h3⟩ := bind_ok.mp h
    obtain ⟨rfl, rfl⟩ := privVal_ok h2
    have g01 : Grow s (s.ext [v] []) := Grow.ext _ _ _
    have hw1 : NewSat (s.ext [v] []) s' w := by
      unfold NewSat newCons at hw ⊢
      simpa using hw
    obtain ⟨rfl, hb, g12⟩ := mkBool_guarded_enforces (s := s.ext [v] []) hp (by simpa using hg) (WF_fw _ _) h3 h1 hw1 hg1
    exact ⟨WF_fw _ _, hb, g01.trans g12⟩

theorem privValBool_guarded_grow {v : Int} {r : LinComb} (hg : s.guard = some g)
    (h : privValBool v s = .ok (r, s')) : Grow s s' := by
  unfold privValBool at h
  split at h
  · cases h
  · obtain ⟨x, t1, k2, k3⟩ := bind_ok.mp h
    obtain ⟨rfl, rfl⟩ := privVal_ok k2
    unfold mkBool at k3
    split at k3
    · cases k3
    · simp only [if_true] at k3
      obtain ⟨u, t2, k4, k5⟩ := bind_ok.mp k3
      obtain ⟨rfl, rfl⟩ := pure_ok.mp k5
      exact (Grow.ext _ _ _).trans (addConstraint_guarded_grow (s := s.ext [v] []) (by simpa using hg) k4)

theorem mapM'_privValBool_guarded_grow : ∀ (us : List Int) {t t' : St} {rs : List LinComb}, t.guard = some g →
    mapM' privValBool us t = .ok (rs, t') → Grow t t'
  | [], t, t', rs, _, k => by
    unfold mapM' at k
    obtain ⟨rfl, rfl⟩ := pure_ok.mp k
    exact Grow.refl _
  | u :: us, t, t', rs, htg, k => by
    unfold mapM' at k
    obtain ⟨y1, t1, k2, k3⟩ := bind_ok.mp k
    obtain ⟨ys1, t2, k4, k5⟩ := bind_ok.mp k3
    obtain ⟨rfl, rfl⟩ := pure_ok.mp k5
    have ga : Grow t t1 := privValBool_guarded_grow htg k2
    exact ga.trans (mapM'_privValBool_guarded_grow us (ga.guard.trans htg) k4)

theorem mapM'_privValBool_guarded_enforces : ∀ (vs : List Int) {s s' : St} {bs : List LinComb}, s.p = p →
    s.guard = some g → mapM' privValBool vs s = .ok (bs, s') → w .one = 1 → NewSat s s' w → ev p w g.lc = 1 →
    bs.length = vs.length ∧ (∀ b ∈ bs, b.lc.WF ∧ (ev p w b.lc = 0 ∨ ev p w b.lc = 1)) ∧ Grow s s'
  | [], s, s', bs, _, _, h, _, _, _ => by
    unfold mapM' at h
    obtain ⟨rfl, rfl⟩ := pure_ok.mp h
    exact ⟨rfl, by simp, Grow.refl _⟩
  | v :: vs, s, s', bs, hp, hg, h, h1, hw, hg1 => by
    unfold mapM' at h
    obtain ⟨y, s1, h2, h3⟩ := bind_ok.mp h
    obtain ⟨ys, s2, h4, h5⟩ := bind_ok.mp h3
    obtain ⟨rfl, rfl⟩ := pure_ok.mp h5
    have gr1 : Grow s s1 := privValBool_guarded_grow hg h2
    have gr2 : Grow s1 s' := mapM'_privValBool_guarded_grow vs (gr1.guard.trans hg) h4
    obtain ⟨hw1, hw2⟩ := NewSat.split gr1 gr2 hw
    obtain ⟨wf1, b1, -⟩ := privValBool_guarded_enforces hp hg h2 h1 hw1 hg1
    obtain ⟨hl, hall, -⟩ := mapM'_privValBool_guarded_enforces vs (gr1.p.trans hp) (gr1.guard.trans hg) h4 h1 hw2 hg1
    refine ⟨by simp [hl], ?_, gr1.trans gr2⟩
    intro b hb
    rcases List.mem_cons.mp hb with rfl | hb
    · exact ⟨wf1, b1⟩
    · exact hall b hb

/-- `assert_zero` under a true guard: `x = 0` as without the guard (`assertZero_sound`) -/
theorem assertZero_guarded_enforces {x : LinComb} {u : Unit} (hp : s.p = p) (hg : s.guard = some g) (hx : x.lc.WF)
    (h : assertZero x s = .ok (u, s')) (hw : NewSat s s' w) (hg1 : ev p w g.lc = 1) :
    ev p w x.lc = 0 ∧ Grow s s' := by
  unfold assertZero at h
  split at h
  · cases h
  · have e := addConstraint_guarded_enforces hp hg hx h hw hg1
    refine ⟨?_, addConstraint_guarded_grow hg h⟩
    simpa [LinComb.zero] using e.symm

theorem assertZero_guarded_grow {x : LinComb} {u : Unit} (hg : s.guard = some g)
    (h : assertZero x s = .ok (u, s')) : Grow s s' := by
  unfold assertZero at h
  split at h
  · cases h
  · exact addConstraint_guarded_grow hg h

/-- `assert_eq` under a true guard -/
theorem assertEq_guarded_enforces {a b : LinComb} {u : Unit} (hp : s.p = p) (hg : s.guard = some g)
    (ha : a.lc.WF) (hb : b.lc.WF) (h : assertEq a b s = .ok (u, s')) (hw : NewSat s s' w) (hg1 : ev p w g.lc = 1) :
    ev p w a.lc = ev p w b.lc := by
  unfold assertEq at h
  split at h
  · cases h
  · have := (assertZero_guarded_enforces hp hg (LinComb.WF_sub ha hb) h hw hg1).1
    rw [ev_sub ha hb] at this
    exact sub_eq_zero.mp this

/-- **`to_bits` under a true guard**: the bits are 0/1 and `x` is their binary sum, hence the
embedding of a natural below `2^n`: exactly what the unguarded `to_bits` enforces (`toBits_sound`) -/
theorem toBits_guarded_enforces {x : LinComb} {bits : Option Nat} {bs : List LinComb} (hp : s.p = p)
    (hg : s.guard = some g) (hx : x.lc.WF) (h : toBits x bits s = .ok (bs, s'))
    (h1 : w .one = 1) (hw : NewSat s s' w) (hg1 : ev p w g.lc = 1) :
    bs.length = bits.getD s.bitlength ∧
    (∃ S : ℕ, S < 2 ^ (bits.getD s.bitlength) ∧ ev p w x.lc = (S : ZMod p) ∧
      ∀ (i : Nat) (hi : i < bs.length), ev p w bs[i].lc = ((S / 2 ^ i % 2 : ℕ) : ZMod p)) ∧ Grow s s' := by
  unfold toBits at h
  dsimp only at h
  split at h
  · cases h
  · obtain ⟨bs', s1, h2, h3⟩ := bind_ok.mp h
    obtain ⟨u, s2, h4, h5⟩ := bind_ok.mp h3
    obtain ⟨rfl, rfl⟩ := pure_ok.mp h5
    have gr1 : Grow s s1 := mapM'_privValBool_guarded_grow _ hg h2
    have gr2 : Grow s1 s' := assertZero_guarded_grow (gr1.guard.trans hg) h4
    obtain ⟨hw1, hw2⟩ := NewSat.split gr1 gr2 hw
    obtain ⟨hl, hall, -⟩ := mapM'_privValBool_guarded_enforces _ hp hg h2 h1 hw1 hg1
    have hwf : ∀ b ∈ bs, b.lc.WF := fun b hb => (hall b hb).1
    have hz := (assertZero_guarded_enforces (gr1.p.trans hp) (gr1.guard.trans hg)
      (by
        cases hfb : fromBits bs with
        | none => simp only [LinComb.subFB]; exact LinComb.WF_subI 0 hx
        | some y =>
          simp only [LinComb.subFB]
          have := fromBits_WF bs hwf
          rw [hfb] at this
          exact LinComb.WF_sub hx (this y rfl))
      h4 hw2 hg1).1
    obtain ⟨S, hS, hSe, hbit⟩ := zsum_bits (bs.map (fun b => ev p w b.lc))
      (by
        intro b hb'
        obtain ⟨b0, hb0, rfl⟩ := List.mem_map.mp hb'
        rcases (hall b0 hb0).2 with e | e <;> rw [e] <;> simp)
    have hlen : bs.length = bits.getD s.bitlength := by rw [hl]; exact bitsOf_length _ _
    refine ⟨hlen, ⟨S, by simpa [hlen] using hS, ?_, ?_⟩, gr1.trans gr2⟩
    · rw [ev_subFB hx bs hwf, hSe] at hz
      exact sub_eq_zero.mp hz
    · intro i hi
      have := hbit i (by simpa using hi)
      simpa using this

/-- **`assert_positive` under a true guard** -/
theorem assertPositive_guarded_enforces {x : LinComb} {bits : Option Nat} {u : Unit} (hp : s.p = p)
    (hg : s.guard = some g) (hx : x.lc.WF) (h : assertPositive x bits s = .ok (u, s'))
    (h1 : w .one = 1) (hw : NewSat s s' w) (hg1 : ev p w g.lc = 1) :
    InRange p (bits.getD s.bitlength) (ev p w x.lc) := by
  unfold assertPositive at h
  dsimp only at h
  split at h
  · cases h
  · obtain ⟨bs, s1, h2, h3⟩ := bind_ok.mp h
    obtain ⟨rfl, rfl⟩ := pure_ok.mp h3
    obtain ⟨-, ⟨S, hS, hSe, -⟩, -⟩ := toBits_guarded_enforces hp hg hx h2 h1 hw hg1
    exact ⟨S, hS, hSe⟩

variable {a b : LinComb} {u : Unit}

/-- **`assert_lt` under a true guard**: `b − a − 1` is the embedding of a natural below `2^bitlength`,
the relation `assertLt_sound` states for the unguarded assertion -/
theorem assertLt_guarded_enforces (hp : s.p = p) (hg : s.guard = some g) (ha : a.lc.WF) (hb : b.lc.WF)
    (h : assertLt a b s = .ok (u, s')) (h1 : w .one = 1) (hw : NewSat s s' w) (hg1 : ev p w g.lc = 1) :
    InRange p s.bitlength (ev p w b.lc - ev p w a.lc - 1) := by
  unfold assertLt at h
  split at h
  · cases h
  · have := assertPositive_guarded_enforces hp hg (LinComb.WF_subI 1 (LinComb.WF_sub hb ha)) h h1 hw hg1
    rwa [ev_subI h1 1 (LinComb.WF_sub hb ha), ev_sub hb ha, Int.cast_one] at this

theorem assertLe_guarded_enforces (hp : s.p = p) (hg : s.guard = some g) (ha : a.lc.WF) (hb : b.lc.WF)
    (h : assertLe a b s = .ok (u, s')) (h1 : w .one = 1) (hw : NewSat s s' w) (hg1 : ev p w g.lc = 1) :
    InRange p s.bitlength (ev p w b.lc - ev p w a.lc) := by
  unfold assertLe at h
  split at h
  · cases h
  · have := assertPositive_guarded_enforces hp hg (LinComb.WF_sub hb ha) h h1 hw hg1
    rwa [ev_sub hb ha] at this

theorem assertGt_guarded_enforces (hp : s.p = p) (hg : s.guard = some g) (ha : a.lc.WF) (hb : b.lc.WF)
    (h : assertGt a b s = .ok (u, s')) (h1 : w .one = 1) (hw : NewSat s s' w) (hg1 : ev p w g.lc = 1) :
    InRange p s.bitlength (ev p w a.lc - ev p w b.lc - 1) := by
  unfold assertGt at h
  split at h
  · cases h
  · have := assertPositive_guarded_enforces hp hg (LinComb.WF_subI 1 (LinComb.WF_sub ha hb)) h h1 hw hg1
    rwa [ev_subI h1 1 (LinComb.WF_sub ha hb), ev_sub ha hb, Int.cast_one] at this

theorem assertGe_guarded_enforces (hp : s.p = p) (hg : s.guard = some g) (ha : a.lc.WF) (hb : b.lc.WF)
    (h : assertGe a b s = .ok (u, s')) (h1 : w .one = 1) (hw : NewSat s s' w) (hg1 : ev p w g.lc = 1) :
    InRange p s.bitlength (ev p w a.lc - ev p w b.lc) := by
  unfold assertGe at h
  split at h
  · cases h
  · have := assertPositive_guarded_enforces hp hg (LinComb.WF_sub ha hb) h h1 hw hg1
    rwa [ev_sub ha hb] at this

/-- `a / b` for two secrets under a true guard: `b * r = a` as without the guard (`truedivLL_sound`) -/
theorem truedivLL_guarded_enforces {r : LinComb} (hp : s.p = p) (hg : s.guard = some g) (ha : a.lc.WF)
    (h : truedivLL a b s = .ok (r, s')) (hw : NewSat s s' w) (hg1 : ev p w g.lc = 1) :
    ev p w b.lc * ev p w r.lc = ev p w a.lc := by
  unfold truedivLL at h
  obtain ⟨t, s0, h0, ha1⟩ := bind_ok.mp h
  obtain ⟨rfl, rfl⟩ := getSt_ok.mp h0
  obtain ⟨q, s1, h2, ha2⟩ := bind_ok.mp ha1
  obtain ⟨-, rfl⟩ := liftE_ok.mp h2
  obtain ⟨res, s2, h3, ha3⟩ := bind_ok.mp ha2
  obtain ⟨rfl, rfl⟩ := privVal_ok h3
  obtain ⟨u', s3, h4, h5⟩ := bind_ok.mp ha3
  obtain ⟨rfl, rfl⟩ := pure_ok.mp h5
  have hw1 : NewSat (s1.ext [q] []) s' w := by
    unfold NewSat newCons at hw ⊢
    simpa using hw
  exact addConstraint_guarded_enforces (s := s1.ext [q] []) hp (by simpa using hg) ha h4 hw1 hg1

/-- `assert_nonzero` under a true guard: the constraint is `x * wit = LinComb.ONE` and `LinComb.ONE`
is the guard, so under an assignment that gives the guard the value 1, `x ≠ 0` -/
theorem assertNonzero_guarded_enforces {x : LinComb} (hp : s.p = p) (hg : s.guard = some g) (hone : s.one = g)
    (hgw : g.lc.WF) (h : assertNonzero x s = .ok (u, s')) (hw : NewSat s s' w) (hg1 : ev p w g.lc = 1) :
    ev p w x.lc ≠ 0 := by
  unfold assertNonzero at h
  obtain ⟨t, s0, h0, ha1⟩ := bind_ok.mp h
  obtain ⟨rfl, rfl⟩ := getSt_ok.mp h0
  obtain ⟨wv, s1, h2, ha2⟩ := bind_ok.mp ha1
  obtain ⟨-, rfl⟩ := liftE_ok.mp h2
  obtain ⟨wit, s2, h3, h4⟩ := bind_ok.mp ha2
  obtain ⟨rfl, rfl⟩ := privVal_ok h3
  have hw1 : NewSat (s1.ext [wv] []) s' w := by
    unfold NewSat newCons at hw ⊢
    simpa using hw
  have e := addConstraint_guarded_enforces (s := s1.ext [wv] []) hp (by simpa using hg) (by rw [hone]; exact hgw) h4 hw1 hg1
  rw [hone, hg1] at e
  intro hx
  rw [hx, zero_mul] at e
  exact zero_ne_one e

/-- **`check_positive` under a true guard** (hence `<`, `<=`, `>`, `>=`): the result is 0/1; 1 forces
`x ∈ [0, 2^n)`, 0 forces `x ∈ [-2^n, -1]` — the relation `checkPositive_sound` states for the
unguarded gadget -/
theorem checkPositive_guarded_enforces {x r : LinComb} {bits : Option Nat} (hp : s.p = p) (hg : s.guard = some g)
    (hx : x.lc.WF) (h : checkPositive x bits s = .ok (r, s')) (h1 : w .one = 1) (hw : NewSat s s' w)
    (hg1 : ev p w g.lc = 1) :
    (ev p w r.lc = 1 ∧ InRange p (bits.getD s.bitlength) (ev p w x.lc)) ∨
    (ev p w r.lc = 0 ∧ InNegRange p (bits.getD s.bitlength) (ev p w x.lc)) := by
  unfold checkPositive at h
  obtain ⟨t, s0, h0, ha1⟩ := bind_ok.mp h
  obtain ⟨e1, e2⟩ := getSt_ok.mp h0
  rw [e1, e2] at ha1
  obtain ⟨rb, s1, h2, ha2⟩ := bind_ok.mp ha1
  obtain ⟨hhint, e3⟩ := liftE_ok.mp h2
  rw [e3] at ha2
  obtain ⟨rv, vs⟩ := rb
  dsimp only at ha2
  have hlen := checkPositiveHint_len hhint
  obtain ⟨ret, s2, h3, ha3⟩ := bind_ok.mp ha2
  obtain ⟨bs, s3, h4, ha4⟩ := bind_ok.mp ha3
  obtain ⟨u, s4, h5, h6⟩ := bind_ok.mp ha4
  obtain ⟨e4, e5⟩ := pure_ok.mp h6
  subst e4; subst e5
  have gr1 : Grow s s2 := privValBool_guarded_grow hg h3
  have gr2 : Grow s2 s3 := mapM'_privValBool_guarded_grow vs (gr1.guard.trans hg) h4
  have gr3 : Grow s3 s' := addConstraint_guarded_grow ((gr1.trans gr2).guard.trans hg) h5
  obtain ⟨hw1, hw23⟩ := NewSat.split gr1 (gr2.trans gr3) hw
  obtain ⟨hw2, hw3⟩ := NewSat.split gr2 gr3 hw23
  obtain ⟨wfr, br, -⟩ := privValBool_guarded_enforces hp hg h3 h1 hw1 hg1
  obtain ⟨hl, hall, -⟩ := mapM'_privValBool_guarded_enforces vs (gr1.p.trans hp) (gr1.guard.trans hg) h4 h1 hw2 hg1
  have hwf : ∀ b ∈ bs, b.lc.WF := fun b hb => (hall b hb).1
  have hc := addConstraint_guarded_enforces ((gr1.trans gr2).p.trans hp) ((gr1.trans gr2).guard.trans hg)
    (LinComb.WF_add (addFB_WF hx bs hwf) (LinComb.WF_rsubI 1 wfr)) h5 hw3 hg1
  obtain ⟨S, hS, hSe, -⟩ := zsum_bits (bs.map (fun b => ev p w b.lc))
    (by
      intro b hb'
      obtain ⟨b0, hb0, rfl⟩ := List.mem_map.mp hb'
      rcases (hall b0 hb0).2 with e | e <;> rw [e] <;> simp)
  have hS' : S < 2 ^ (bits.getD s.bitlength) := by
    have : (bs.map (fun b => ev p w b.lc)).length = bits.getD s.bitlength := by simp [hl, hlen]
    rwa [this] at hS
  rw [ev_add (addFB_WF hx bs hwf) (LinComb.WF_rsubI 1 wfr), ev_rsubI h1 1 wfr, ev_mulI, ev_addFB hx bs hwf, hSe] at hc
  push_cast at hc
  rcases br with e | e
  · right
    refine ⟨e, S, hS', ?_⟩
    rw [e] at hc; push_cast; linear_combination -hc
  · left
    refine ⟨e, S, hS', ?_⟩
    rw [e] at hc; linear_combination hc

end gadgets

end Pysnark
