import PysnarkModel.Lemmas.Values
/-!
# Inertness under a false guard (C07, first half): calculus and the typed gadgets

`FalseGuard s`: a guard whose value is 0 is active and (as the tracer invariant says it must be)
error suppression is on.  `Inert zd p res Q m`: started in such a state over the modulus `p`, the
computation `m` either returns a result satisfying `Q` and leaves guard, error suppression,
`LinComb.ONE`, bit length, resolution and modulus as they were, or raises an exception that is
not caused by the values it met.

The value-caused exception classes are `AssertionError`, `ValueError`, `ZeroDivisionError`
(`Bad false`).  The flag `zd = true` takes `ZeroDivisionError` out of the forbidden set: it is the
class raised by `backend.fieldinverse` on a non-zero multiple of the modulus, which no guard
suppresses; the lemmas whose only such source is a field inversion carry the exact side
condition `zd = false → FieldOk p v`.
-/
namespace Pysnark

/-- the exception classes that count as "raised because of the values met" -/
def Bad (zd : Bool) : Err → Bool
  | .assertion => true
  | .value => true
  | .zerodiv => !zd
  | _ => false

/-- a guard with value 0 is active and errors are being ignored -/
structure FalseGuard (s : St) : Prop where
  ign : s.ignoreErrors = true
  guard : ∃ g, s.guard = some g ∧ g.value = 0

theorem FalseGuard.isGuard {s : St} (h : FalseGuard s) : s.isGuard = false := by
  obtain ⟨g, hg, h0⟩ := h.guard
  simp [St.isGuard, hg, h0]

theorem FalseGuard.same {s s' : St} (h : FalseGuard s) (k : Same s s') : FalseGuard s' :=
  ⟨k.ign.trans h.ign, by rw [k.guard]; exact h.guard⟩

/-- the tracer invariant gives the flag from the guard value -/
theorem FalseGuard.of_inv {s : St} (hinv : Inv s) {g : LinComb} (hg : s.guard = some g) (h0 : g.value = 0) :
    FalseGuard s := ⟨(hinv.ign_of_guard hg).mpr h0, g, hg, h0⟩

/-- what `check_zero` hands to `backend.fieldinverse` (the value, or 1 when the value is the integer
0) can be inverted in the field.  Over a prime modulus: `v = 0 ∨ ¬ p ∣ v` (`fieldOk_iff_prime`). -/
def FieldOk (p : Int) (v : Int) : Prop := (Py.invert (v + (if v == 0 then 1 else 0)) p).isSome = true

theorem invert_isSome_iff {q : Nat} (hq : q.Prime) (x : Int) :
    (Py.invert x q).isSome = true ↔ ¬ (q : Int) ∣ x := by
  by_cases hm : x % (q : Int) = 0
  · rw [Py.invert_none hq _ hm]
    simp [Int.dvd_of_emod_eq_zero hm]
  · obtain ⟨y, hy, -⟩ := Py.invert_correct hq _ hm
    rw [hy]
    simp only [Option.isSome_some, true_iff]
    intro hd; exact hm (Int.emod_eq_zero_of_dvd hd)

theorem fieldOk_iff_prime {q : Nat} (hq : q.Prime) (v : Int) :
    FieldOk q v ↔ (v = 0 ∨ ¬ (q : Int) ∣ v) := by
  unfold FieldOk
  rw [invert_isSome_iff hq]
  by_cases hz : v = 0
  · subst hz
    simp only [beq_self_eq_true, if_true, zero_add, true_or, iff_true]
    intro hd
    have h1 : (1 : Int) < q := by exact_mod_cast hq.one_lt
    have := Int.le_of_dvd (by norm_num) hd
    omega
  · have hb : (v == 0) = false := by simpa using hz
    simp [hb, hz]

def Inert {α : Type} (zd : Bool) (p : Int) (res : Nat) (Q : α → Prop) (m : M α) : Prop :=
  ∀ s, FalseGuard s → s.p = p → s.resolution = res →
    (∀ a s', m s = .ok (a, s') → Q a ∧ Same s s') ∧ (∀ e, m s = .error e → Bad zd e = false)

theorem bind_err {α β} {m : M α} {f : α → M β} {s : St} {e : Err} :
    (m >>= f) s = .error e ↔ m s = .error e ∨ ∃ a s', m s = .ok (a, s') ∧ f a s' = .error e := by
  change M.bind m f s = _ ↔ _
  unfold M.bind
  cases h : m s with
  | error e' => simp
  | ok r =>
    obtain ⟨a, s'⟩ := r
    simp only [reduceCtorEq, false_or, Except.ok.injEq, Prod.mk.injEq]
    constructor
    · intro hf; exact ⟨a, s', ⟨rfl, rfl⟩, hf⟩
    · rintro ⟨a', s1, ⟨rfl, rfl⟩, hf⟩; exact hf

namespace Inert
variable {α β : Type} {zd : Bool} {p : Int} {res : Nat}

theorem bind {Q : α → Prop} {R : β → Prop} {m : M α} {f : α → M β}
    (hm : Inert zd p res Q m) (hf : ∀ a, Q a → Inert zd p res R (f a)) : Inert zd p res R (m >>= f) := by
  intro s hs hp hres
  obtain ⟨hok, herr⟩ := hm s hs hp hres
  constructor
  · intro b s'' h
    obtain ⟨a, s', h1, h2⟩ := bind_ok.mp h
    obtain ⟨qa, k1⟩ := hok a s' h1
    obtain ⟨rb, k2⟩ := (hf a qa s' (hs.same k1) (k1.p.trans hp) (k1.res.trans hres)).1 b s'' h2
    exact ⟨rb, k1.trans k2⟩
  · intro e h
    rcases bind_err.mp h with h1 | ⟨a, s', h1, h2⟩
    · exact herr e h1
    · obtain ⟨qa, k1⟩ := hok a s' h1
      exact (hf a qa s' (hs.same k1) (k1.p.trans hp) (k1.res.trans hres)).2 e h2

theorem pure {Q : α → Prop} {a : α} (h : Q a) : Inert zd p res Q (pure a) := by
  intro s _ _ _
  constructor
  · intro b s' hb
    obtain ⟨rfl, rfl⟩ := pure_ok.mp hb
    exact ⟨h, Same.refl _⟩
  · intro e he; cases he

theorem ok {Q : α → Prop} {a : α} (h : Q a) : Inert zd p res Q (fun s => .ok (a, s)) := Inert.pure h

/-- a result read off the state -/
theorem okSt {Q : α → Prop} {f : St → α} (h : ∀ s, FalseGuard s → s.p = p → s.resolution = res → Q (f s)) :
    Inert zd p res Q (fun s => .ok (f s, s)) := by
  intro s hs hp hres
  constructor
  · intro b s' hb
    cases hb
    exact ⟨h s hs hp hres, Same.refl _⟩
  · intro e he; cases he

theorem raise {Q : α → Prop} {e : Err} (h : Bad zd e = false) : Inert zd p res Q (raise e) := by
  intro s _ _ _
  constructor
  · intro b s' hb; cases hb
  · intro e' he
    unfold Pysnark.raise at he
    cases he; exact h

theorem tyErr {Q : α → Prop} : Inert zd p res Q tyErr := Inert.raise rfl

theorem mono {Q Q' : α → Prop} {m : M α} (h : Inert zd p res Q m) (hq : ∀ a, Q a → Q' a) : Inert zd p res Q' m := by
  intro s hs hp hres
  obtain ⟨hok, herr⟩ := h s hs hp hres
  exact ⟨fun a s' h => ⟨hq a (hok a s' h).1, (hok a s' h).2⟩, herr⟩

/-- weaken to "no information about the result" -/
theorem triv {Q : α → Prop} {m : M α} (h : Inert zd p res Q m) : Inert zd p res (fun _ => True) m :=
  h.mono (fun _ _ => trivial)

/-- the computation agrees, on every false-guard state over `p`, with an inert one -/
theorem of_eq {Q : α → Prop} {m m' : M α} (h : ∀ s, FalseGuard s → s.p = p → s.resolution = res → m s = m' s)
    (h' : Inert zd p res Q m') : Inert zd p res Q m := by
  intro s hs hp hres
  rw [h s hs hp hres]
  exact h' s hs hp hres

theorem getSt : Inert zd p res (fun t => FalseGuard t ∧ t.p = p ∧ t.resolution = res) getSt := by
  intro s hs hp hres
  constructor
  · intro t s' h
    obtain ⟨rfl, rfl⟩ := getSt_ok.mp h
    exact ⟨⟨hs, hp, hres⟩, Same.refl _⟩
  · intro e he; cases he

theorem liftE {Q : α → Prop} {e : Except Err α} (hq : ∀ a, e = .ok a → Q a)
    (he : ∀ x, e = .error x → Bad zd x = false) : Inert zd p res Q (liftE e) := by
  intro s _ _ _
  constructor
  · intro a s' h
    obtain ⟨h1, rfl⟩ := liftE_ok.mp h
    exact ⟨hq a h1, Same.refl _⟩
  · intro x hx
    cases e with
    | ok a => cases hx
    | error y =>
      simp only [Pysnark.liftE, Except.error.injEq] at hx
      subst hx; exact he _ rfl

/-- `if c then a else b` on a plain condition -/
theorem ite {Q : α → Prop} {c : Prop} [Decidable c] {a b : M α}
    (ha : c → Inert zd p res Q a) (hb : ¬ c → Inert zd p res Q b) : Inert zd p res Q (if c then a else b) := by
  split
  · exact ha ‹_›
  · exact hb ‹_›

/-- a computation that reads the state first -/
theorem readSt {Q : α → Prop} {f : St → M α} (h : ∀ t, FalseGuard t → t.p = p → t.resolution = res → Inert zd p res Q (f t)) :
    Inert zd p res Q (fun s => f s s) := by
  intro s hs hp hres
  exact h s hs hp hres s hs hp hres

end Inert

/-! ## primitives -/
variable {zd : Bool} {p : Int} {res : Nat}

theorem privVal_inert (v : Int) : Inert zd p res (fun r => r.value = v) (privVal v) := by
  intro s _ _ _
  constructor
  · intro r s' h
    obtain ⟨k, hv⟩ := privVal_val h
    exact ⟨hv, k⟩
  · intro e he; cases he

theorem pubVal_inert (v : Int) : Inert zd p res (fun r => r.value = v) (pubVal v) := by
  intro s _ _ _
  constructor
  · intro r s' h
    obtain ⟨k, hv⟩ := pubVal_val h
    exact ⟨hv, k⟩
  · intro e he; cases he

theorem addConstraintUnsafe_inert (v w y : LinComb) : Inert zd p res (fun _ => True) (addConstraintUnsafe v w y) := by
  intro s _ _ _
  constructor
  · intro r s' h
    exact ⟨trivial, addConstraintUnsafe_same h⟩
  · intro e he; cases he

/-- **the guarded arm of `add_constraint` never raises**: whatever `v·w − y` is, it goes into the
dummy witness -/
theorem addConstraint_inert (v w y : LinComb) (check : Bool) :
    Inert zd p res (fun _ => True) (addConstraint v w y check) := by
  intro s hs hp hres
  obtain ⟨g, hg, _⟩ := hs.guard
  have e : addConstraint v w y check s =
      (do let dummy ← privVal (v.value * w.value - y.value)
          addConstraintUnsafe v w (y.add dummy)
          addConstraintUnsafe g dummy LinComb.zero) s := by
    unfold addConstraint; simp only [hg]
  rw [e]
  refine (Inert.bind (privVal_inert _) (fun d _ => ?_) : Inert zd p res (fun _ => True) _) s hs hp hres
  exact Inert.bind (addConstraintUnsafe_inert _ _ _) (fun _ _ => addConstraintUnsafe_inert _ _ _)

theorem ensurelcI_inert (c : Int) : Inert zd p res (fun _ => True) (ensurelcI c) := by
  unfold ensurelcI; exact Inert.okSt (fun _ _ _ _ => trivial)

/-- `backend.fieldinverse`: no guard is consulted -/
theorem fieldInverse_inert (x : Int) (hx : zd = false → (Py.invert x p).isSome = true) :
    Inert zd p res (fun _ => True) (fieldInverse x) := by
  intro s _ hp _
  unfold fieldInverse
  rw [hp]
  cases hi : Py.invert x p with
  | some y =>
    refine ⟨fun a s' h => ?_, fun e he => ?_⟩
    · cases h; exact ⟨trivial, Same.refl _⟩
    · cases he
  | none =>
    refine ⟨fun a s' h => ?_, fun e he => ?_⟩
    · cases h
    cases he
    cases zd with
    | true => rfl
    | false => have := hx rfl; rw [hi] at this; cases this


/-! ## tactic support (same architecture as `obl` in `Lemmas/Obl.lean`) -/

/-- extensible: one alternative per proved lemma -/
syntax "inert_rule" : tactic
macro_rules | `(tactic| inert_rule) => `(tactic| fail "no inert rule applies")

theorem Inert.pure_eq {α : Type} {zd : Bool} {p : Int} {res : Nat} (a : α) : Inert zd p res (fun b => b = a) (Pure.pure a) :=
  Inert.pure rfl

/-- extensible: side conditions -/
syntax "inert_side_rule" : tactic
macro_rules | `(tactic| inert_side_rule) => `(tactic| fail "no side rule applies")

macro "inert_side" : tactic => `(tactic| (
  (fail_if_success (show Inert _ _ _ _ _))
  first
    | assumption
    | exact trivial
    | rfl
    | inert_side_rule
    | (intros; simp_all; done)
    | (intros; omega)))

macro "inert_step" : tactic => `(tactic| first
  | exact Inert.raise rfl
  | exact Inert.tyErr
  | (show ∀ _, _ → Inert _ _ _ _ _; intro _ _)
  | (show ∀ _, Inert _ _ _ _ _; intro _)
  | (show _ → Inert _ _ _ _ _; intro _)
  | dsimp only
  | (show Inert _ _ _ _ _; assumption)
  | inert_rule
  | (refine Inert.mono ?_ ?_; inert_rule)
  | exact Inert.pure_eq _
  | refine Inert.pure ?_
  | refine Inert.ok ?_
  | apply Inert.bind
  | refine Inert.ite ?_ ?_
  | inert_side
  | split
  | contradiction
  | (exfalso; omega))

macro "inert" : tactic => `(tactic| repeat' inert_step)

macro_rules | `(tactic| inert_rule) => `(tactic| with_reducible apply privVal_inert)
macro_rules | `(tactic| inert_rule) => `(tactic| with_reducible apply pubVal_inert)
macro_rules | `(tactic| inert_rule) => `(tactic| with_reducible apply addConstraintUnsafe_inert)
macro_rules | `(tactic| inert_rule) => `(tactic| with_reducible apply addConstraint_inert)
macro_rules | `(tactic| inert_rule) => `(tactic| with_reducible apply ensurelcI_inert)

/-! ## booleans -/

/-- `LinCombBool(x)`: the value check is unconditional, so inertness needs a boolean value
(finding C07-boolean-declaration-under-false-guard) -/
theorem mkBool_inert {x : LinComb} (c : Bool) (hx : x.value = 0 ∨ x.value = 1) :
    Inert zd p res (fun r => r = x) (mkBool x c) := by
  have hb : isBooleanValue x.value = true := isBooleanValue_iff.mpr hx
  unfold mkBool
  simp only [hb, Bool.not_true, Bool.false_eq_true, if_false]
  cases c
  · simp only [Bool.false_eq_true, if_false]; exact Inert.ok rfl
  · simp only [if_true]
    exact Inert.bind (addConstraint_inert _ _ _ _) (fun _ _ => Inert.pure rfl)

theorem privValBool_inert {v : Int} (hv : v = 0 ∨ v = 1) : Inert zd p res (fun r => r.value = v) (privValBool v) := by
  have hb : isBooleanValue v = true := isBooleanValue_iff.mpr hv
  unfold privValBool
  simp only [hb, Bool.not_true, Bool.false_eq_true, if_false]
  refine Inert.bind (privVal_inert v) (fun x hx => ?_)
  exact (mkBool_inert true (hx ▸ hv)).mono (fun r hr => hr ▸ hx)

theorem pubValBool_inert {v : Int} (hv : v = 0 ∨ v = 1) : Inert zd p res (fun r => r.value = v) (pubValBool v) := by
  have hb : isBooleanValue v = true := isBooleanValue_iff.mpr hv
  unfold pubValBool
  simp only [hb, Bool.not_true, Bool.false_eq_true, if_false]
  refine Inert.bind (pubVal_inert v) (fun x hx => ?_)
  exact (mkBool_inert true (hx ▸ hv)).mono (fun r hr => hr ▸ hx)

theorem ensureboolI_inert {v : Int} (hv : v = 0 ∨ v = 1) : Inert zd p res (fun r => r.value = v) (ensureboolI v) := by
  have hb : isBooleanValue v = true := isBooleanValue_iff.mpr hv
  unfold ensureboolI
  simp only [hb, Bool.not_true, Bool.false_eq_true, if_false]
  exact (mkBool_inert (x := LinComb.const v) true hv).mono (fun r hr => hr ▸ rfl)

/-! ## `mapM'` -/
theorem mapM'_inert {α β : Type} {f : α → M β} {A : α → Prop} {B : β → Prop}
    (hf : ∀ a, A a → Inert zd p res B (f a)) :
    ∀ l : List α, (∀ a ∈ l, A a) → Inert zd p res (fun rs => ∀ r ∈ rs, B r) (mapM' f l)
  | [], _ => by unfold mapM'; exact Inert.pure (by simp)
  | x :: xs, hA => by
    unfold mapM'
    refine Inert.bind (hf x (hA x (List.mem_cons_self ..))) (fun y hy => ?_)
    refine Inert.bind (mapM'_inert hf xs (fun a ha => hA a (List.mem_cons_of_mem _ ha))) (fun ys hys => ?_)
    refine Inert.pure ?_
    intro r hr
    rcases List.mem_cons.mp hr with rfl | hr
    · exact hy
    · exact hys r hr

/-- `[PrivValBool(b) for b in hints]` on 0/1 hints -/
theorem mapM'_privValBool_inert : ∀ vs : List Int, (∀ v ∈ vs, v = 0 ∨ v = 1) →
    Inert zd p res (fun rs => rs.map (·.value) = vs) (mapM' privValBool vs)
  | [], _ => by unfold mapM'; exact Inert.pure rfl
  | x :: xs, hA => by
    unfold mapM'
    refine Inert.bind (privValBool_inert (hA x (List.mem_cons_self ..))) (fun y hy => ?_)
    refine Inert.bind (mapM'_privValBool_inert xs (fun a ha => hA a (List.mem_cons_of_mem _ ha))) (fun ys hys => ?_)
    exact Inert.pure (by simp [hy, hys])

/-! ## assertions and bit decomposition -/
theorem assertZero_inert (x : LinComb) : Inert zd p res (fun _ => True) (assertZero x) := by
  refine Inert.of_eq (m' := addConstraint LinComb.zero LinComb.zero x true) (fun s hs _ _ => ?_)
    (addConstraint_inert _ _ _ _)
  unfold assertZero
  simp [hs.ign]
macro_rules | `(tactic| inert_rule) => `(tactic| with_reducible apply assertZero_inert)

/-- the results of `to_bits` carry the low bits of the value, whatever the value is -/
def BitsOfVal (x : LinComb) (rs : List LinComb) : Prop := ∃ n, rs.map (·.value) = Py.bitsOf x.value n

theorem BitsOfVal.bool {x : LinComb} {rs : List LinComb} (h : BitsOfVal x rs) :
    ∀ r ∈ rs, r.value = 0 ∨ r.value = 1 := by
  obtain ⟨n, hn⟩ := h
  intro r hr
  exact bitsOf_01 x.value n r.value (hn ▸ List.mem_map.mpr ⟨r, hr, rfl⟩)

theorem toBits_inert (x : LinComb) (bits : Option Nat) : Inert zd p res (BitsOfVal x) (toBits x bits) := by
  have key : ∀ n : Nat, Inert zd p res (BitsOfVal x)
      (do let bs ← mapM' privValBool (Py.bitsOf x.value n)
          assertZero (x.subFB (fromBits bs))
          pure bs) := by
    intro n
    refine Inert.bind (mapM'_privValBool_inert _ (bitsOf_01 _ _)) (fun bs hbs => ?_)
    refine Inert.bind (assertZero_inert _) (fun _ _ => ?_)
    exact Inert.pure ⟨_, hbs⟩
  intro s hs hp hres
  have e : toBits x bits s =
      (do let bs ← mapM' privValBool (Py.bitsOf x.value (bits.getD s.bitlength))
          assertZero (x.subFB (fromBits bs))
          pure bs) s := by
    unfold toBits; simp [hs.ign]
  rw [e]
  exact key _ s hs hp hres

theorem assertPositive_inert (x : LinComb) (bits : Option Nat) :
    Inert zd p res (fun _ => True) (assertPositive x bits) := by
  refine Inert.of_eq (m' := (do let _ ← toBits x bits; pure ())) (fun s hs _ _ => ?_) ?_
  · unfold assertPositive; simp [hs.ign]
  · exact Inert.bind (toBits_inert x bits) (fun _ _ => Inert.pure trivial)
macro_rules | `(tactic| inert_rule) => `(tactic| with_reducible apply assertPositive_inert)

theorem checkPositiveHint_inert {s : St} (hs : FalseGuard s) (v : Int) (n : Nat) :
    ∃ rv bs, checkPositiveHint s v n = .ok (rv, bs) ∧ (rv = 0 ∨ rv = 1) ∧ ∀ b ∈ bs, b = 0 ∨ b = 1 := by
  unfold checkPositiveHint
  simp only [hs.isGuard, hs.ign, Bool.false_and, Bool.false_eq_true, if_false, if_true]
  exact ⟨0, _, rfl, Or.inl rfl, fun b hb => Or.inl (List.eq_of_mem_replicate hb)⟩

/-- `check_positive`: under a false guard the hints are all-zero, nothing is checked -/
theorem checkPositive_inert (x : LinComb) (bits : Option Nat) :
    Inert zd p res (fun r => r.value = 0 ∨ r.value = 1) (checkPositive x bits) := by
  unfold checkPositive
  refine Inert.bind Inert.getSt (fun t ht => ?_)
  obtain ⟨rv, bs, hh, hrv, hbs⟩ := checkPositiveHint_inert ht.1 x.value (bits.getD t.bitlength)
  dsimp only
  rw [hh]
  refine Inert.bind (Inert.liftE (Q := fun r => r = (rv, bs)) (fun a ha => by cases ha; rfl) (fun _ h => by cases h))
    (fun r hr => ?_)
  subst hr
  dsimp only
  refine Inert.bind (privValBool_inert hrv) (fun ret hret => ?_)
  refine Inert.bind (mapM'_privValBool_inert _ hbs) (fun _ _ => ?_)
  refine Inert.bind (addConstraint_inert _ _ _ _) (fun _ _ => ?_)
  exact Inert.pure (hret ▸ hrv)

/-! ## zero tests -/
/-- `check_zero`: `backend.fieldinverse` is called whatever the guard is; it raises
`ZeroDivisionError` exactly on a non-zero multiple of the modulus -/
theorem checkZero_inert (x : LinComb) (hx : zd = false → FieldOk p x.value) :
    Inert zd p res (fun r => r.value = 0 ∨ r.value = 1) (checkZero x) := by
  unfold checkZero
  refine Inert.bind (privVal_inert _) (fun ret hret => ?_)
  refine Inert.bind (fieldInverse_inert _ ?_) (fun w _ => ?_)
  · exact hx
  have hb : ret.value = 0 ∨ ret.value = 1 := by rw [hret]; split <;> simp
  refine Inert.bind (privVal_inert _) (fun wit _ => ?_)
  refine Inert.bind (addConstraintUnsafe_inert _ _ _) (fun _ _ => ?_)
  refine Inert.bind (addConstraintUnsafe_inert _ _ _) (fun _ _ => ?_)
  exact (mkBool_inert false hb).mono (fun r hr => hr ▸ hb)


/-- `ZeroDivisionError` is either tolerated (`zd = true`) or the small values 0, 1, −1 that the
gadgets zero-test internally are invertible (true over every prime modulus) -/
def SmallOk (zd : Bool) (p : Int) : Prop := zd = false → FieldOk p 0 ∧ FieldOk p 1 ∧ FieldOk p (-1)

theorem SmallOk.of_prime {q : Nat} (hq : q.Prime) (zd : Bool) : SmallOk zd q := by
  intro _
  have h1 : (1 : Int) < q := by exact_mod_cast hq.one_lt
  refine ⟨(fieldOk_iff_prime hq _).mpr (Or.inl rfl), (fieldOk_iff_prime hq _).mpr (Or.inr ?_),
    (fieldOk_iff_prime hq _).mpr (Or.inr ?_)⟩
  · intro hd; have := Int.le_of_dvd (by norm_num) hd; omega
  · intro hd
    have := Int.le_of_dvd (by norm_num) ((Int.dvd_neg).mp hd)
    omega

theorem SmallOk.true (p : Int) : SmallOk true p := fun h => by cases h

theorem boolNot_inert {b : LinComb} (hb : b.value = 0 ∨ b.value = 1) :
    Inert zd p res (fun r => r.value = 1 - b.value ∧ (r.value = 0 ∨ r.value = 1)) (boolNot b) := by
  unfold boolNot
  have h1 : (b.rsubI 1).value = 0 ∨ (b.rsubI 1).value = 1 := by
    rw [rsubI_value]; rcases hb with h | h <;> rw [h] <;> simp
  exact (mkBool_inert false h1).mono (fun r hr => by subst hr; exact ⟨rsubI_value _ _, h1⟩)

theorem checkNonzero_inert (x : LinComb) (hx : zd = false → FieldOk p x.value) :
    Inert zd p res (fun r => r.value = 0 ∨ r.value = 1) (checkNonzero x) := by
  unfold checkNonzero
  refine Inert.bind (checkZero_inert x hx) (fun z hz => ?_)
  exact (boolNot_inert hz).mono (fun r hr => hr.2)

theorem assertNonzeroHint_inert {s : St} (hs : FalseGuard s) (v : Int) : assertNonzeroHint s v = .ok 0 := by
  unfold assertNonzeroHint
  simp [hs.isGuard, hs.ign]

/-- `assert_nonzero`: under a false guard the inverse hint is 0 and `check=False` -/
theorem assertNonzero_inert (x : LinComb) : Inert zd p res (fun _ => True) (assertNonzero x) := by
  unfold assertNonzero
  refine Inert.bind Inert.getSt (fun t ht => ?_)
  rw [assertNonzeroHint_inert ht.1]
  refine Inert.bind (Inert.liftE (Q := fun _ => True) (fun _ _ => trivial) (fun _ h => by cases h)) (fun _ _ => ?_)
  refine Inert.bind (privVal_inert _) (fun _ _ => ?_)
  exact addConstraint_inert _ _ _ _
macro_rules | `(tactic| inert_rule) => `(tactic| with_reducible apply assertNonzero_inert)

/-! ## comparisons -/
section cmp
variable (a b : LinComb) (c : Int)
theorem ltLL_inert : Inert zd p res (fun r => r.value = 0 ∨ r.value = 1) (ltLL a b) := checkPositive_inert _ _
theorem leLL_inert : Inert zd p res (fun r => r.value = 0 ∨ r.value = 1) (leLL a b) := checkPositive_inert _ _
theorem gtLL_inert : Inert zd p res (fun r => r.value = 0 ∨ r.value = 1) (gtLL a b) := checkPositive_inert _ _
theorem geLL_inert : Inert zd p res (fun r => r.value = 0 ∨ r.value = 1) (geLL a b) := checkPositive_inert _ _
theorem ltLI_inert : Inert zd p res (fun r => r.value = 0 ∨ r.value = 1) (ltLI a c) := checkPositive_inert _ _
theorem leLI_inert : Inert zd p res (fun r => r.value = 0 ∨ r.value = 1) (leLI a c) := checkPositive_inert _ _
theorem gtLI_inert : Inert zd p res (fun r => r.value = 0 ∨ r.value = 1) (gtLI a c) := checkPositive_inert _ _
theorem geLI_inert : Inert zd p res (fun r => r.value = 0 ∨ r.value = 1) (geLI a c) := checkPositive_inert _ _
theorem eqLL_inert (h : zd = false → FieldOk p (a.value - b.value)) :
    Inert zd p res (fun r => r.value = 0 ∨ r.value = 1) (eqLL a b) :=
  checkZero_inert _ (by rw [sub_value]; exact h)
theorem neLL_inert (h : zd = false → FieldOk p (a.value - b.value)) :
    Inert zd p res (fun r => r.value = 0 ∨ r.value = 1) (neLL a b) :=
  checkNonzero_inert _ (by rw [sub_value]; exact h)
theorem eqLI_inert (h : zd = false → FieldOk p (a.value - c)) :
    Inert zd p res (fun r => r.value = 0 ∨ r.value = 1) (eqLI a c) :=
  checkZero_inert _ (by rw [subI_value]; exact h)
theorem neLI_inert (h : zd = false → FieldOk p (a.value - c)) :
    Inert zd p res (fun r => r.value = 0 ∨ r.value = 1) (neLI a c) :=
  checkNonzero_inert _ (by rw [subI_value]; exact h)

/-! ## assertions: every Python-level check is skipped, every constraint goes through the guard -/
theorem assertLt_inert : Inert zd p res (fun _ => True) (assertLt a b) :=
  Inert.of_eq (m' := assertPositive ((b.sub a).subI 1) none) (fun s hs _ _ => by unfold assertLt; simp [hs.ign]) (assertPositive_inert _ none)
theorem assertLe_inert : Inert zd p res (fun _ => True) (assertLe a b) :=
  Inert.of_eq (m' := assertPositive (b.sub a) none) (fun s hs _ _ => by unfold assertLe; simp [hs.ign]) (assertPositive_inert _ none)
theorem assertGt_inert : Inert zd p res (fun _ => True) (assertGt a b) :=
  Inert.of_eq (m' := assertPositive ((a.sub b).subI 1) none) (fun s hs _ _ => by unfold assertGt; simp [hs.ign]) (assertPositive_inert _ none)
theorem assertGe_inert : Inert zd p res (fun _ => True) (assertGe a b) :=
  Inert.of_eq (m' := assertPositive (a.sub b) none) (fun s hs _ _ => by unfold assertGe; simp [hs.ign]) (assertPositive_inert _ none)
theorem assertEq_inert : Inert zd p res (fun _ => True) (assertEq a b) :=
  Inert.of_eq (m' := assertZero (a.sub b)) (fun s hs _ _ => by unfold assertEq; simp [hs.ign]) (assertZero_inert _)
theorem assertNe_inert : Inert zd p res (fun _ => True) (assertNe a b) :=
  Inert.of_eq (m' := assertNonzero (a.sub b)) (fun s hs _ _ => by unfold assertNe; simp [hs.ign]) (assertNonzero_inert _)
end cmp

theorem assertRange_inert (x lo hi : LinComb) : Inert zd p res (fun _ => True) (assertRange x lo hi) := by
  refine Inert.of_eq (m' := (do assertPositive (x.sub lo) none; assertPositive ((hi.sub x).subI 1) none))
    (fun s hs _ _ => by unfold assertRange; simp [hs.ign]) ?_
  exact Inert.bind (assertPositive_inert _ _) (fun _ _ => assertPositive_inert _ _)

theorem valL_inert (x : LinComb) : Inert zd p res (fun _ => True) (valL x) := by
  unfold valL
  refine Inert.bind (pubVal_inert _) (fun _ _ => ?_)
  exact Inert.bind (assertZero_inert _) (fun _ _ => Inert.pure trivial)

macro_rules | `(tactic| inert_rule) => `(tactic| first
  | with_reducible apply assertLt_inert | with_reducible apply assertLe_inert | with_reducible apply assertEq_inert
  | with_reducible apply assertNe_inert | with_reducible apply assertGt_inert | with_reducible apply assertGe_inert
  | with_reducible apply assertRange_inert | with_reducible apply valL_inert)

/-! ## arithmetic -/
theorem mulLL_inert (a b : LinComb) : Inert zd p res (fun r => r.value = a.value * b.value) (mulLL a b) := by
  unfold mulLL
  refine Inert.bind (privVal_inert _) (fun r hr => ?_)
  exact Inert.bind (addConstraintUnsafe_inert _ _ _) (fun _ _ => Inert.pure hr)

theorem mulBB_inert (x y : LinComb) : Inert zd p res (fun r => r.value = y.value * x.value) (mulBB x y) :=
  mulLL_inert y x

/-- `LinComb / int`: the zero test of the divisor and the field inversion come before the guard is
consulted (finding C07-zero-division-under-false-guard; inversion: `zd`) -/
theorem truedivLI_inert (a : LinComb) {c : Int} (hc : c ≠ 0) (hinv : zd = false → (Py.invert c p).isSome = true) :
    Inert zd p res (fun _ => True) (truedivLI a c) := by
  intro s hs hp hres
  have hc' : (c == 0) = false := by simpa using hc
  unfold truedivLI
  simp only [hc', hs.isGuard, hs.ign, Bool.false_and, Bool.false_eq_true, if_false, if_true]
  rw [hp]
  cases hi : Py.invert c p with
  | some i =>
    refine ⟨fun r s' h => ?_, fun e he => ?_⟩
    · cases h; exact ⟨trivial, Same.refl _⟩
    · cases he
  | none =>
    refine ⟨fun r s' h => ?_, fun e he => ?_⟩
    · cases h
    · cases he
      cases zd with
      | true => rfl
      | false => have := hinv rfl; rw [hi] at this; cases this

theorem truedivHint_inert {s : St} (hs : FalseGuard s) (a : Int) {b : Int} (hb : b ≠ 0) :
    truedivHint s a b = .ok 0 := by
  have hb' : (b == 0) = false := by simpa using hb
  unfold truedivHint
  simp [hb', hs.isGuard, hs.ign]

/-- `LinComb / LinComb` with a non-zero divisor -/
theorem truedivLL_inert (a : LinComb) {b : LinComb} (hb : b.value ≠ 0) :
    Inert zd p res (fun _ => True) (truedivLL a b) := by
  unfold truedivLL
  refine Inert.bind Inert.getSt (fun t ht => ?_)
  rw [truedivHint_inert ht.1 _ hb]
  refine Inert.bind (Inert.liftE (Q := fun _ => True) (fun _ _ => trivial) (fun _ h => by cases h)) (fun _ _ => ?_)
  refine Inert.bind (privVal_inert _) (fun _ _ => ?_)
  exact Inert.bind (addConstraint_inert _ _ _ _) (fun _ _ => Inert.pure trivial)

/-- `divmod` with a non-zero divisor -/
theorem divmodLL_inert (a : LinComb) {d : LinComb} (hd : d.value ≠ 0) :
    Inert zd p res (fun _ => True) (divmodLL a d) := by
  have hd' : (d.value == 0) = false := by simpa using hd
  unfold divmodLL
  simp only [hd', Bool.false_eq_true, if_false]
  refine Inert.bind (privVal_inert _) (fun quo _ => ?_)
  refine Inert.bind (mulLL_inert _ _) (fun res _ => ?_)
  refine Inert.bind (privVal_inert _) (fun rem _ => ?_)
  refine Inert.bind (addConstraint_inert _ _ _ _) (fun _ _ => ?_)
  refine Inert.bind (assertLt_inert _ _) (fun _ _ => ?_)
  exact Inert.bind (assertPositive_inert _ _) (fun _ _ => Inert.pure trivial)

theorem powLN_inert (a : LinComb) : ∀ n : Nat, Inert zd p res (fun _ => True) (powLN a n)
  | 0 => by unfold powLN; exact Inert.okSt (fun _ _ _ _ => trivial)
  | 1 => by unfold powLN; exact Inert.pure trivial
  | n+2 => by
    unfold powLN
    exact Inert.bind (powLN_inert a (n+1)) (fun r _ => (mulLL_inert _ _).triv)

theorem iteLLL_inert (c t f : LinComb) : Inert zd p res (fun _ => True) (iteLLL c t f) := by
  unfold iteLLL
  exact Inert.bind (mulLL_inert _ _) (fun _ _ => Inert.pure trivial)

theorem powersAux_inert : ∀ (n : Nat) (curr : LinComb) (q : Int), Inert zd p res (fun _ => True) (powersAux n curr q)
  | 0, _, _ => by unfold powersAux; exact Inert.pure trivial
  | n+1, curr, q => by
    unfold powersAux
    refine Inert.bind (mulLL_inert _ _) (fun c _ => ?_)
    exact Inert.bind (powersAux_inert n _ q) (fun _ _ => Inert.pure trivial)

theorem mulAll_inert (s0 : St) : ∀ (ms : List LinComb) (acc : LinComb),
    Inert zd p res (fun _ => True) (powLL.mulAll s0 ms acc)
  | [], acc => by unfold powLL.mulAll; exact Inert.pure trivial
  | m :: ms, acc => by
    unfold powLL.mulAll
    exact Inert.bind (mulLL_inert _ _) (fun r _ => mulAll_inert s0 ms _)

/-- `x ** e` for a secret exponent: bit decomposition of the exponent, the squaring chain, one
selection per bit (`bit == 1` is a zero test of 0 or −1), the running product -/
theorem powLL_inert (a e : LinComb) (hsm : SmallOk zd p) : Inert zd p res (fun _ => True) (powLL a e) := by
  unfold powLL
  refine Inert.bind (toBits_inert e none) (fun ebits hb => ?_)
  refine Inert.bind Inert.getSt (fun t _ => ?_)
  refine Inert.bind (powersAux_inert _ _ _) (fun tail _ => ?_)
  dsimp only
  refine Inert.bind (mapM'_inert (A := fun bp => bp.1.value = 0 ∨ bp.1.value = 1) (B := fun _ => True)
    (fun bp hbp => ?_) _ ?_) (fun ms _ => ?_)
  · refine Inert.bind (ensureboolI_inert (Or.inr rfl)) (fun one hone => ?_)
    refine Inert.bind (eqLL_inert _ _ ?_) (fun c _ => ?_)
    · intro hz
      obtain ⟨h0, _, hm1⟩ := hsm hz
      rw [hone]
      rcases hbp with h | h <;> rw [h]
      · exact hm1
      · exact h0
    · refine Inert.bind Inert.getSt (fun _ _ => ?_)
      exact iteLLL_inert _ _ _
  · intro bp hbp
    exact hb.bool bp.1 (List.of_mem_zip hbp).1
  · refine Inert.bind Inert.getSt (fun t' _ => ?_)
    exact mulAll_inert _ _ _

/-- `x << n` for a public count; a negative count is Python's own `ValueError` (public operand) -/
theorem lshiftLI_inert (a : LinComb) {n : Int} (hn : 0 ≤ n) : Inert zd p res (fun _ => True) (lshiftLI a n) := by
  unfold lshiftLI
  simp only [not_lt.mpr hn, if_false]
  exact Inert.ok trivial

/-- `x >> n` for a public count; a negative count is Python's own `ValueError` (public operand) -/
theorem rshiftLI_inert (a : LinComb) {n : Int} (hn : 0 ≤ n) : Inert zd p res (fun _ => True) (rshiftLI a n) := by
  unfold rshiftLI
  simp only [not_lt.mpr hn, if_false]
  exact Inert.bind (toBits_inert a none) (fun _ _ => Inert.pure trivial)

theorem andLI_inert (a : LinComb) (c : Int) : Inert zd p res (fun _ => True) (andLI a c) := (privVal_inert _).triv
theorem xorLI_inert (a : LinComb) (c : Int) : Inert zd p res (fun _ => True) (xorLI a c) := (privVal_inert _).triv
theorem orLI_inert (a : LinComb) (c : Int) : Inert zd p res (fun _ => True) (orLI a c) := (privVal_inert _).triv

theorem andLL_inert (a b : LinComb) : Inert zd p res (fun _ => True) (andLL a b) := by
  unfold andLL
  refine Inert.bind (toBits_inert a none) (fun _ _ => ?_)
  refine Inert.bind (toBits_inert b none) (fun _ _ => ?_)
  refine Inert.bind (mapM'_inert (A := fun _ => True) (B := fun _ => True) (fun xy _ => (mulBB_inert _ _).triv) _
    (fun _ _ => trivial)) (fun _ _ => Inert.pure trivial)

theorem xorLL_inert (a b : LinComb) : Inert zd p res (fun _ => True) (xorLL a b) := by
  unfold xorLL
  refine Inert.bind (toBits_inert a none) (fun _ _ => ?_)
  refine Inert.bind (toBits_inert b none) (fun _ _ => ?_)
  refine Inert.bind (mapM'_inert (A := fun _ => True) (B := fun _ => True) (fun xy _ => ?_) _
    (fun _ _ => trivial)) (fun _ _ => Inert.pure trivial)
  exact Inert.bind (mulLL_inert _ _) (fun _ _ => Inert.pure trivial)

theorem orLL_inert (a b : LinComb) : Inert zd p res (fun _ => True) (orLL a b) := by
  unfold orLL
  refine Inert.bind (toBits_inert a none) (fun _ _ => ?_)
  refine Inert.bind (toBits_inert b none) (fun _ _ => ?_)
  refine Inert.bind (mapM'_inert (A := fun _ => True) (B := fun _ => True) (fun xy _ => ?_) _
    (fun _ _ => trivial)) (fun _ _ => Inert.pure trivial)
  exact Inert.bind (mulBB_inert _ _) (fun _ _ => Inert.pure trivial)

/-- `~x`: every bit produced by `to_bits` is 0/1, so no `LinCombBool(1 - b)` is rejected -/
theorem invertL_inert (a : LinComb) : Inert zd p res (fun _ => True) (invertL a) := by
  unfold invertL
  refine Inert.bind (toBits_inert a none) (fun bits hb => ?_)
  refine Inert.bind (mapM'_inert (A := fun b => b.value = 0 ∨ b.value = 1) (B := fun _ => True)
    (fun b hb' => (boolNot_inert hb').triv) _ hb.bool) (fun _ _ => Inert.pure trivial)

theorem absL_inert (a : LinComb) : Inert zd p res (fun _ => True) (absL a) := by
  unfold absL
  exact Inert.bind (geLI_inert _ _) (fun _ _ => iteLLL_inert _ _ _)

end Pysnark
