import PysnarkModel.Lemmas.GuardedInertOps
/-!
# Inertness under a false guard: method calls and secret-index array access
-/
namespace Pysnark

variable {p : Int} {res : Nat}

theorem argNat?_inert {zd : Bool} (args : List Val) : Inert zd p res (fun _ => True) (argNat? args) := by
  unfold argNat?
  split
  · exact Inert.pure trivial
  · split
    · exact Inert.raise rfl
    · exact Inert.pure trivial
  · exact Inert.pure trivial
  · exact Inert.raise rfl

theorem assertCmp_inert {zd : Bool} (m : Meth) (a b : LinComb) : Inert zd p res (fun _ => True) (assertCmp m a b) := by
  cases m <;> simp only [assertCmp] <;> inert

theorem unwrapBits_inert {zd : Bool} : ∀ xs : List Val, Inert zd p res (fun _ => True) (unwrapBits xs)
  | [] => by simp only [unwrapBits]; exact Inert.pure trivial
  | v :: t => by
    have ih := unwrapBits_inert (zd := zd) t
    cases v <;> simp only [unwrapBits] <;> first
      | exact Inert.raise rfl
      | exact Inert.bind ih (fun _ _ => Inert.pure trivial)

theorem toBits_inert' {zd : Bool} (x : LinComb) (b : Option Nat) : Inert zd p res (BitsOfVal x) (toBits x b) :=
  toBits_inert x b

macro_rules | `(tactic| inert_rule) => `(tactic| first
  | with_reducible apply argNat?_inert | with_reducible apply assertCmp_inert | with_reducible apply unwrapBits_inert
  | with_reducible apply mulLV_inert | with_reducible apply addV_inert | with_reducible apply subV_inert
  | with_reducible apply assertPositive_inert | with_reducible apply valL_inert)

theorem BoolV_map_lcb {bs : List LinComb} (h : ∀ b ∈ bs, b.value = 0 ∨ b.value = 1) : BoolV (.list (bs.map .lcb)) := by
  rw [BoolV_list]
  intro v hv
  obtain ⟨b, hb, rfl⟩ := List.mem_map.mp hv
  exact BoolV_lcb.mpr (h b hb)

def Meth.isAssertCmp : Meth → Bool
  | .assertLt | .assertLe | .assertEq | .assertNe | .assertGt | .assertGe => true
  | _ => false

/-- the operand condition of a method call: `b.assert_xx(o)` on a boolean turns `o` into a
`LinCombBool`, so a raw `LinComb`/`int` must be 0/1 -/
def callOk (m : Meth) (self : Val) (args : List Val) : Bool :=
  match self, args with
  | .lcb _, [o] => !m.isAssertCmp || o.boolish
  | _, _ => true

theorem callMeth_lc_inert (m : Meth) (x : LinComb) (args : List Val) : InertV p res (callMeth m (.lc x) args) := by
  cases m <;> simp only [callMeth]
  case toBits =>
    refine Inert.bind (argNat?_inert _) (fun n _ => ?_)
    exact Inert.bind (toBits_inert x n) (fun bs hbs => Inert.pure (BoolV_map_lcb hbs.bool))
  all_goals inert

theorem callMeth_fxp_inert (m : Meth) (x : LinComb) (args : List Val) : InertV p res (callMeth m (.fxp x) args) := by
  cases m <;> simp only [callMeth] <;> inert

theorem callMeth_lcb_inert (m : Meth) {x : LinComb} (hx : x.value = 0 ∨ x.value = 1) {args : List Val}
    (hargs : ∀ v ∈ args, BoolV v) (hok : callOk m (.lcb x) args = true) : InertV p res (callMeth m (.lcb x) args) := by
  have key : ∀ o : Val, BoolV o → o.boolish = true →
      InertV p res (do let y ← ensurebool o; assertCmp m x y; pure .none) := by
    intro o ho hob
    refine Inert.bind (ensurebool_inert ho hob) (fun y _ => ?_)
    exact Inert.bind (assertCmp_inert m x y) (fun _ _ => Inert.pure BoolV_none)
  rcases args with _ | ⟨o, _ | ⟨o2, rest⟩⟩
  · cases m <;> simp only [callMeth, List.isEmpty_nil, if_true] <;> inert
  · have ho : BoolV o := hargs o (by simp)
    have hkey : m.isAssertCmp = true → InertV p res (do let y ← ensurebool o; assertCmp m x y; pure .none) := by
      intro hm
      refine key o ho ?_
      simpa [callOk, hm] using hok
    cases m <;> simp only [callMeth, List.isEmpty_cons, Bool.false_eq_true, if_false]
    case assertLt => exact hkey rfl
    case assertLe => exact hkey rfl
    case assertEq => exact hkey rfl
    case assertNe => exact hkey rfl
    case assertGt => exact hkey rfl
    case assertGe => exact hkey rfl
    all_goals inert
  · cases m <;> simp only [callMeth, List.isEmpty_cons, Bool.false_eq_true, if_false] <;> inert

theorem callMeth_inert (m : Meth) {self : Val} {args : List Val} (hs : BoolV self) (hargs : ∀ v ∈ args, BoolV v)
    (hok : callOk m self args = true) : InertV p res (callMeth m self args) := by
  cases self
  case lc x => exact callMeth_lc_inert m x args
  case lcb x => exact callMeth_lcb_inert m (BoolV_lcb.mp hs) hargs hok
  case fxp x => exact callMeth_fxp_inert m x args
  case list xs => cases m <;> simp only [callMeth] <;> inert
  all_goals (simp only [callMeth]; exact Inert.raise rfl)


/-! ## arrays -/
theorem oneHot_inert (item : LinComb) : ∀ (n i : Nat),
    Inert true p res (fun rs => ∀ r ∈ rs, r.value = 0 ∨ r.value = 1) (oneHot item i n)
  | 0, i => by simp only [oneHot]; exact Inert.pure (by simp)
  | n+1, i => by
    simp only [oneHot]
    refine Inert.bind (eqLI_inert' item i) (fun c hc => ?_)
    refine Inert.bind (oneHot_inert item n (i+1)) (fun rest hrest => Inert.pure ?_)
    intro r hr
    rcases List.mem_cons.mp hr with rfl | hr
    · exact hc
    · exact hrest r hr

theorem foldlM_addV_inert : ∀ (ps : List Val) (acc : Val), BoolV acc →
    InertV p res (ps.foldlM (fun acc x => addV acc x) acc)
  | [], acc, h => by
    simp only [List.foldlM_nil]
    exact Inert.pure h
  | x :: xs, acc, _ => by
    simp only [List.foldlM_cons]
    exact Inert.bind (addV_inert acc x) (fun r hr => foldlM_addV_inert xs r hr)

theorem linComb_inert (ixs : List LinComb) (arr : List Val) : InertV p res (linComb ixs arr) := by
  unfold linComb
  refine Inert.bind (mapM'_inert (A := fun _ => True) (B := BoolV) (fun cv _ => mulLV_inert cv.1 cv.2) _
    (fun _ _ => trivial)) (fun prods hprods => ?_)
  cases prods with
  | nil => exact Inert.pure BoolV_int
  | cons q qs =>
    dsimp only
    exact Inert.bind (addV_inert _ _) (fun first hfirst => foldlM_addV_inert qs first hfirst)

theorem arrayCheck_inert {zd : Bool} (item : LinComb) (n : Nat) : Inert zd p res (fun _ => True) (arrayCheck item n) := by
  refine Inert.of_eq (m' := fun s => .ok ((), s)) (fun s hs _ _ => ?_) (Inert.ok trivial)
  unfold arrayCheck
  simp [hs.ign]

theorem arrayIxs_inert (item : LinComb) (n : Nat) :
    Inert true p res (fun rs => ∀ r ∈ rs, r.value = 0 ∨ r.value = 1) (arrayIxs item n) := by
  unfold arrayIxs
  refine Inert.bind (arrayCheck_inert _ _) (fun _ _ => ?_)
  refine Inert.bind (oneHot_inert item n 0) (fun ixs hixs => ?_)
  cases sumBools ixs with
  | none => exact Inert.raise rfl
  | some sm =>
    dsimp only
    refine Inert.bind (ensurelcI_inert 1) (fun one _ => ?_)
    exact Inert.bind (assertEq_inert sm one) (fun _ _ => Inert.pure hixs)

theorem arrayGet_inert {arr : List Val} (harr : ∀ v ∈ arr, BoolV v) (item : Val) : InertV p res (arrayGet arr item) := by
  unfold arrayGet
  cases item
  case int i =>
    dsimp only
    cases pyIndex arr.length i with
    | none => exact Inert.raise rfl
    | some k =>
      dsimp only
      cases hk : arr[k]? with
      | none => exact Inert.raise rfl
      | some v => exact Inert.pure (harr v (List.mem_of_getElem? hk))
  case lc it =>
    dsimp only
    exact Inert.bind (arrayIxs_inert it _) (fun ixs _ => linComb_inert ixs arr)
  all_goals exact Inert.tyErr

/-- the operand condition of `arr[i] = v` with a SECRET index: every element is replaced by
`if_then_else(i == k, v, arr[k])`, so `v` and every element must pass the length check of the
selection (`selOk`: public structure; scalars always do) -/
def asetOk (arr : List Val) (item v : Val) : Bool :=
  match item with
  | .lc _ => arr.all (fun x => selOk v x)
  | _ => true

theorem arraySet_inert {arr : List Val} (harr : ∀ v ∈ arr, BoolV v) (item : Val) {v : Val} (hv : BoolV v)
    (hok : asetOk arr item v = true) :
    Inert true p res (fun rs => ∀ r ∈ rs, BoolV r) (arraySet arr item v) := by
  unfold arraySet
  cases item
  case int i =>
    dsimp only
    cases pyIndex arr.length i with
    | none => exact Inert.raise rfl
    | some k =>
      refine Inert.pure ?_
      intro r hr
      rcases List.mem_or_eq_of_mem_set hr with h | rfl
      · exact harr r h
      · exact hv
  case lc it =>
    dsimp only
    refine Inert.bind (arrayIxs_inert it _) (fun ixs hixs => ?_)
    simp only [asetOk, List.all_eq_true] at hok
    refine mapM'_inert (A := fun (cv : LinComb × Val) => (cv.1.value = 0 ∨ cv.1.value = 1) ∧ BoolV cv.2 ∧ selOk v cv.2 = true) (B := BoolV)
      (fun cv hcv => ifThenElse_inert false rfl (BoolV_lcb.mpr hcv.1) hv hcv.2.1 hcv.2.2) _ ?_
    intro cv hcv
    obtain ⟨h1, h2⟩ := List.of_mem_zip hcv
    exact ⟨hixs _ h1, harr _ h2, hok _ h2⟩
  all_goals exact Inert.tyErr

end Pysnark
