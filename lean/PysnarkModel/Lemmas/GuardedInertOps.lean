import PysnarkModel.Lemmas.GuardedInertVal
import PysnarkModel.Lemmas.IteTag
/-!
# Inertness under a false guard: powers, shifts, bitwise/logical operators, comparisons, selection,
unary operators, constructors, methods, arrays
-/
namespace Pysnark

variable {p : Int} {res : Nat}

/-! ## power -/
theorem powXN_inert {zd : Bool} (x : LinComb) : ∀ n : Nat, Inert zd p res (fun _ => True) (powXN x n)
  | 0 => by simp only [powXN]; inert
  | 1 => by simp only [powXN]; exact Inert.pure trivial
  | n+2 => by
    have ih := powXN_inert (zd := zd) x (n+1)
    simp only [powXN]
    inert

theorem powLN_inert' {zd : Bool} (a : LinComb) (n : Nat) : Inert zd p res (fun _ => True) (powLN a n) :=
  powLN_inert a n
theorem powLL_inert' (a e : LinComb) : Inert true p res (fun _ => True) (powLL a e) :=
  powLL_inert a e (SmallOk.true p)
theorem neLI_inert' (a : LinComb) (c : Int) : Inert true p res (fun r => r.value = 0 ∨ r.value = 1) (neLI a c) :=
  neLI_inert a c (fun h => by cases h)
theorem eqLI_inert' (a : LinComb) (c : Int) : Inert true p res (fun r => r.value = 0 ∨ r.value = 1) (eqLI a c) :=
  eqLI_inert a c (fun h => by cases h)

macro_rules | `(tactic| inert_rule) => `(tactic| first
  | with_reducible apply powXN_inert | with_reducible apply powLN_inert' | with_reducible apply powLL_inert'
  | with_reducible apply neLI_inert' | with_reducible apply eqLI_inert')

/-- `a ** b`; a negative PUBLIC exponent is Python's own `ValueError` -/
theorem powV_inert (a : Val) {b : Val} (hn : b.negInt = false) : InertV p res (powV a b) := by
  cases a <;> cases b <;> simp only [powV] <;> (try simp only [Val.negInt, decide_eq_false_iff_not] at hn) <;> inert


macro_rules | `(tactic| inert_rule) => `(tactic| with_reducible apply powV_inert)

/-! ## shifts -/
theorem rshiftLI_inert' {zd : Bool} (a : LinComb) {n : Int} (hn : 0 ≤ n) :
    Inert zd p res (fun _ => True) (rshiftLI a n) :=
  rshiftLI_inert a hn
macro_rules | `(tactic| inert_rule) => `(tactic| first
  | with_reducible apply lshiftLI_inert | with_reducible apply rshiftLI_inert')

/-- `x << b`; a negative PUBLIC count is Python's own `ValueError` -/
theorem lshiftLV_inert (x : LinComb) {b : Val} (hn : b.negInt = false) : InertV p res (lshiftLV x b) := by
  cases b <;> simp only [lshiftLV] <;> (try simp only [Val.negInt, decide_eq_false_iff_not] at hn) <;> inert

/-- `x >> b` for a public count; a negative PUBLIC count is Python's own `ValueError`.  (For a secret count the model, like the code, computes `2**b`
starting from `LinComb.ONE`, which is the guard: under a false guard the divisor is 0 and the
zero-division deviation fires whatever the operands are: `C07_cex_rshift_secret`.) -/
theorem rshiftLV_inert (x : LinComb) {b : Val} (hb : b.isLcG = false) (hn : b.negInt = false) :
    InertV p res (rshiftLV x b) := by
  cases b <;> simp only [rshiftLV] <;> (try simp only [Val.isLcG, reduceCtorEq] at hb) <;>
    (try simp only [Val.negInt, decide_eq_false_iff_not] at hn) <;> inert

theorem mkFxpNoScale_inert (v : Val) : InertV p res (mkFxpNoScale v) := by
  unfold mkFxpNoScale
  cases v <;> inert
macro_rules | `(tactic| inert_rule) => `(tactic| first
  | with_reducible apply lshiftLV_inert | with_reducible apply rshiftLV_inert | with_reducible apply mkFxpNoScale_inert)

theorem lshiftV_inert (a : Val) {b : Val} (hn : b.negInt = false) : InertV p res (lshiftV a b) := by
  cases a <;> cases b <;> simp only [lshiftV] <;> inert

theorem rshiftV_inert (a : Val) {b : Val} (hb : b.isLcG = false) (hn : b.negInt = false) :
    InertV p res (rshiftV a b) := by
  cases a <;> cases b <;> simp only [rshiftV] <;> (try simp only [Val.isLcG, reduceCtorEq] at hb) <;> inert

/-! ## bitwise / logical -/
theorem truthy_inert {zd : Bool} (v : Val) : Inert zd p res (fun c => c = 0 ∨ c = 1) (truthy v) := by
  cases v <;> simp only [truthy] <;> first
    | exact Inert.raise rfl
    | (refine Inert.pure ?_; split <;> simp)
    | exact Inert.pure (Or.inl rfl)

theorem andLL_inert' {zd : Bool} (a b : LinComb) : Inert zd p res (fun _ => True) (andLL a b) := andLL_inert a b
theorem xorLL_inert' {zd : Bool} (a b : LinComb) : Inert zd p res (fun _ => True) (xorLL a b) := xorLL_inert a b
theorem orLL_inert' {zd : Bool} (a b : LinComb) : Inert zd p res (fun _ => True) (orLL a b) := orLL_inert a b
macro_rules | `(tactic| inert_rule) => `(tactic| first
  | with_reducible apply andLL_inert' | with_reducible apply xorLL_inert' | with_reducible apply orLL_inert'
  | with_reducible apply andLI_inert | with_reducible apply xorLI_inert | with_reducible apply orLI_inert)

theorem bool_mul {a b : Int} (ha : a = 0 ∨ a = 1) (hb : b = 0 ∨ b = 1) : a * b = 0 ∨ a * b = 1 := by
  rcases ha with rfl | rfl <;> rcases hb with rfl | rfl <;> simp
theorem bool_xor_int {a b : Int} (ha : a = 0 ∨ a = 1) (hb : b = 0 ∨ b = 1) :
    a + b - a * 2 * b = 0 ∨ a + b - a * 2 * b = 1 := by
  rcases ha with rfl | rfl <;> rcases hb with rfl | rfl <;> simp
theorem bool_or_int {a b : Int} (ha : a = 0 ∨ a = 1) (hb : b = 0 ∨ b = 1) :
    a + b - a * b = 0 ∨ a + b - a * b = 1 := by
  rcases ha with rfl | rfl <;> rcases hb with rfl | rfl <;> simp

/-- the three logical operators on two already constructed booleans -/
theorem bwAnd_key {x y : LinComb} (hx : x.value = 0 ∨ x.value = 1) (hy : y.value = 0 ∨ y.value = 1) :
    InertV p res (do let pr ← mulLL x y; let r ← mkBool pr false; pure (.lcb r)) := by
  refine Inert.bind (mulLL_inert _ _) (fun pr hpr => ?_)
  have hb : pr.value = 0 ∨ pr.value = 1 := hpr ▸ bool_mul hx hy
  refine Inert.bind (mkBool_inert false hb) (fun r hr => Inert.pure ?_)
  subst hr; exact BoolV_lcb.mpr hb

theorem bwXor_key {x y : LinComb} (hx : x.value = 0 ∨ x.value = 1) (hy : y.value = 0 ∨ y.value = 1) :
    InertV p res (do let pr ← mulLL (x.mulI 2) y; let r ← mkBool ((x.add y).sub pr) false; pure (.lcb r)) := by
  refine Inert.bind (mulLL_inert _ _) (fun pr hpr => ?_)
  have hb : ((x.add y).sub pr).value = 0 ∨ ((x.add y).sub pr).value = 1 := by
    rw [sub_value, add_value, hpr, mulI_value]; exact bool_xor_int hx hy
  refine Inert.bind (mkBool_inert false hb) (fun r hr => Inert.pure ?_)
  subst hr; exact BoolV_lcb.mpr hb

theorem bwOr_key {x y : LinComb} (hx : x.value = 0 ∨ x.value = 1) (hy : y.value = 0 ∨ y.value = 1) :
    InertV p res (do let pr ← mulLL x y; let r ← mkBool ((x.add y).sub pr) false; pure (.lcb r)) := by
  refine Inert.bind (mulLL_inert _ _) (fun pr hpr => ?_)
  have hb : ((x.add y).sub pr).value = 0 ∨ ((x.add y).sub pr).value = 1 := by
    rw [sub_value, add_value, hpr]; exact bool_or_int hx hy
  refine Inert.bind (mkBool_inert false hb) (fun r hr => Inert.pure ?_)
  subst hr; exact BoolV_lcb.mpr hb

/-- … and with a plain operand, of which only the truth value is used -/
theorem bwAnd_const {x : LinComb} (hx : x.value = 0 ∨ x.value = 1) {c : Int} (hc : c = 0 ∨ c = 1) :
    InertV p res (do let r ← mkBool (x.mulI c) false; pure (.lcb r)) := by
  have hb : (x.mulI c).value = 0 ∨ (x.mulI c).value = 1 := by rw [mulI_value]; exact bool_mul hx hc
  refine Inert.bind (mkBool_inert false hb) (fun r hr => Inert.pure ?_)
  subst hr; exact BoolV_lcb.mpr hb

theorem bwXor_const {x : LinComb} (hx : x.value = 0 ∨ x.value = 1) {c : Int} (hc : c = 0 ∨ c = 1) :
    InertV p res (do let r ← mkBool ((x.addI c).sub ((x.mulI 2).mulI c)) false; pure (.lcb r)) := by
  have hb : ((x.addI c).sub ((x.mulI 2).mulI c)).value = 0 ∨ ((x.addI c).sub ((x.mulI 2).mulI c)).value = 1 := by
    rw [sub_value, addI_value, mulI_value, mulI_value]; exact bool_xor_int hx hc
  refine Inert.bind (mkBool_inert false hb) (fun r hr => Inert.pure ?_)
  subst hr; exact BoolV_lcb.mpr hb

theorem bwOr_const {x : LinComb} (hx : x.value = 0 ∨ x.value = 1) {c : Int} (hc : c = 0 ∨ c = 1) :
    InertV p res (do let r ← mkBool ((x.addI c).sub (x.mulI c)) false; pure (.lcb r)) := by
  have hb : ((x.addI c).sub (x.mulI c)).value = 0 ∨ ((x.addI c).sub (x.mulI c)).value = 1 := by
    rw [sub_value, addI_value, mulI_value]; exact bool_or_int hx hc
  refine Inert.bind (mkBool_inert false hb) (fun r hr => Inert.pure ?_)
  subst hr; exact BoolV_lcb.mpr hb

/-- `LinCombBool.__and__/__xor__/__or__`: a raw `LinComb` operand that is not 0/1 is rejected by
`_ensurebool` whatever the guard (finding C07-boolean-declaration-under-false-guard) -/
theorem bwBV_inert (op : BW) {x : LinComb} (hx : x.value = 0 ∨ x.value = 1) {o : Val} (ho : BoolV o)
    (hb : o.boolishLC = true) : InertV p res (bwBV op x o) := by
  cases op
  · cases o
    case lc y =>
      simp only [bwBV]
      exact Inert.bind (ensurebool_inert (v := .lc y) ho hb) (fun _ hy => bwAnd_key hx hy)
    case lcb y =>
      simp only [bwBV]
      exact Inert.bind (ensurebool_inert (v := .lcb y) ho rfl) (fun _ hy => bwAnd_key hx hy)
    all_goals (simp only [bwBV]; exact Inert.bind (truthy_inert _) (fun _ hc => bwAnd_const hx hc))
  · cases o
    case lc y =>
      simp only [bwBV]
      exact Inert.bind (ensurebool_inert (v := .lc y) ho hb) (fun _ hy => bwXor_key hx hy)
    case lcb y =>
      simp only [bwBV]
      exact Inert.bind (ensurebool_inert (v := .lcb y) ho rfl) (fun _ hy => bwXor_key hx hy)
    all_goals (simp only [bwBV]; exact Inert.bind (truthy_inert _) (fun _ hc => bwXor_const hx hc))
  · cases o
    case lc y =>
      simp only [bwBV]
      exact Inert.bind (ensurebool_inert (v := .lc y) ho hb) (fun _ hy => bwOr_key hx hy)
    case lcb y =>
      simp only [bwBV]
      exact Inert.bind (ensurebool_inert (v := .lcb y) ho rfl) (fun _ hy => bwOr_key hx hy)
    all_goals (simp only [bwBV]; exact Inert.bind (truthy_inert _) (fun _ hc => bwOr_const hx hc))


theorem bwLV_inert (op : BW) (x : LinComb) {o : Val} (ho : BoolV o)
    (hx : o.isLcbG = true → isBooleanValue x.value = true) : InertV p res (bwLV op x o) := by
  cases o
  case lcb y =>
    cases op
    · simp only [bwLV]
      exact bwBV_inert .and (BoolV_lcb.mp ho) BoolV_lc (hx rfl)
    all_goals (simp only [bwLV]; exact Inert.tyErr)
  all_goals (cases op <;> simp only [bwLV] <;> inert)

/-- the operand condition of `&`, `|`, `^`: a raw `LinComb` meeting a `LinCombBool` must be 0/1 -/
def bwOk (a b : Val) : Bool := (!a.isLcbG || b.boolishLC) && (!b.isLcbG || a.boolishLC)

theorem bwV_inert (op : BW) {a b : Val} (ha : BoolV a) (hb : BoolV b) (hok : bwOk a b = true) :
    InertV p res (bwV op a b) := by
  simp only [bwOk, Bool.and_eq_true, Bool.or_eq_true, Bool.not_eq_true'] at hok
  obtain ⟨h1, h2⟩ := hok
  cases a
  case lc x =>
    simp only [bwV]
    refine bwLV_inert op x hb (fun hl => ?_)
    rcases h2 with h2 | h2
    · rw [hl] at h2; cases h2
    · exact h2
  case lcb x =>
    simp only [bwV]
    refine bwBV_inert op (BoolV_lcb.mp ha) hb ?_
    rcases h1 with h1 | h1
    · cases h1
    · exact h1
  case fxp x =>
    cases b <;> simp only [bwV] <;> first
      | exact Inert.tyErr
      | (split
         · exact bwBV_inert .and (BoolV_lcb.mp hb) BoolV_fxp rfl
         · exact Inert.tyErr)
  case int c =>
    cases b
    case lc y => simp only [bwV]; exact bwLV_inert op y BoolV_int (fun h => by cases h)
    case lcb y =>
      simp only [bwV]
      split
      · exact bwBV_inert .and (BoolV_lcb.mp hb) BoolV_int rfl
      · exact Inert.tyErr
    all_goals (simp only [bwV]; first | exact Inert.tyErr | exact Inert.raise rfl)
  all_goals
    cases b <;> simp only [bwV] <;> first
      | exact Inert.tyErr
      | exact Inert.raise rfl
      | (split
         · exact bwBV_inert .and (BoolV_lcb.mp hb) ha rfl
         · exact Inert.tyErr)

/-! ## comparisons -/
theorem checkPositive_inert' {zd : Bool} (x : LinComb) (b : Option Nat) :
    Inert zd p res (fun r => r.value = 0 ∨ r.value = 1) (checkPositive x b) := checkPositive_inert x b
theorem checkZero_inert' (x : LinComb) : Inert true p res (fun r => r.value = 0 ∨ r.value = 1) (checkZero x) :=
  checkZero_inert x (fun h => by cases h)
theorem checkNonzero_inert' (x : LinComb) : Inert true p res (fun r => r.value = 0 ∨ r.value = 1) (checkNonzero x) :=
  checkNonzero_inert x (fun h => by cases h)
macro_rules | `(tactic| inert_rule) => `(tactic| first
  | with_reducible apply checkPositive_inert' | with_reducible apply checkZero_inert'
  | with_reducible apply checkNonzero_inert')

theorem checkPositiveV_inert (v : Val) : InertV p res (checkPositiveV v) := by
  cases v <;> simp only [checkPositiveV] <;> inert
theorem checkZeroV_inert (v : Val) : InertV p res (checkZeroV v) := by
  cases v <;> simp only [checkZeroV] <;> inert
theorem checkNonzeroV_inert (v : Val) : InertV p res (checkNonzeroV v) := by
  cases v <;> simp only [checkNonzeroV] <;> inert
macro_rules | `(tactic| inert_rule) => `(tactic| first
  | with_reducible apply checkPositiveV_inert | with_reducible apply checkZeroV_inert
  | with_reducible apply checkNonzeroV_inert)

theorem cmpLV_inert (op : Cmp) (x : LinComb) (o : Val) : InertV p res (cmpLV op x o) := by
  cases op <;> simp only [cmpLV] <;> inert

theorem cmpLL_inert (op : Cmp) (x y : LinComb) :
    Inert true p res (fun r => r.value = 0 ∨ r.value = 1) (cmpLL op x y) := by
  cases op <;> simp only [cmpLL]
  · exact ltLL_inert _ _
  · exact leLL_inert _ _
  · exact eqLL_inert _ _ (fun h => by cases h)
  · exact neLL_inert _ _ (fun h => by cases h)
  · exact gtLL_inert _ _
  · exact geLL_inert _ _

/-- the operand condition of a comparison: a raw `LinComb` or `int` meeting a `LinCombBool` is
turned into one, so it must be 0/1 -/
def cmpOk (a b : Val) : Bool := (!a.isLcbG || b.boolish) && (!b.isLcbG || a.boolish)

theorem cmpV_inert (op : Cmp) {a b : Val} (ha : BoolV a) (hb : BoolV b) (hok : cmpOk a b = true) :
    InertV p res (cmpV op a b) := by
  simp only [cmpOk, Bool.and_eq_true, Bool.or_eq_true, Bool.not_eq_true'] at hok
  obtain ⟨h1, h2⟩ := hok
  have key : ∀ (o : LinComb) (v : Val), BoolV v → v.boolish = true → ∀ op' : Cmp,
      InertV p res (do let y ← ensurebool v; let r ← cmpLL op' o y; pure (.lcb r)) := by
    intro o v hv hvb op'
    refine Inert.bind (ensurebool_inert hv hvb) (fun y _ => ?_)
    exact Inert.bind (cmpLL_inert op' o y) (fun r hr => Inert.pure (BoolV_lcb.mpr hr))
  have keyx : ∀ (o : LinComb) (v : Val) (op' : Cmp),
      InertV p res (do let y ← ensurefxp v; let r ← cmpLL op' o y; pure (.lcb r)) := by
    intro o v op'
    refine Inert.bind (ensurefxp_inert v) (fun y _ => ?_)
    exact Inert.bind (cmpLL_inert op' o y) (fun r hr => Inert.pure (BoolV_lcb.mpr hr))
  cases a
  case lc x =>
    cases b
    case fxp y =>
      simp only [cmpV]
      split
      · exact keyx y _ _
      · exact cmpLV_inert _ _ _
    all_goals (simp only [cmpV]; exact cmpLV_inert _ _ _)
  case lcb x =>
    simp only [cmpV]
    refine key x b hb ?_ op
    rcases h1 with h1 | h1
    · cases h1
    · exact h1
  case fxp x => simp only [cmpV]; exact keyx x b op
  all_goals
    cases b
    case lc y => simp only [cmpV]; exact cmpLV_inert _ _ _
    case lcb y =>
      simp only [cmpV]
      refine key y _ ha ?_ _
      rcases h2 with h2 | h2
      · cases h2
      · exact h2
    case fxp y => simp only [cmpV]; exact keyx y _ _
    all_goals (simp only [cmpV]; exact Inert.raise rfl)


/-! ## `if_then_else` -/
theorem zipWithM'_inert {f : Val → Val → M Val} {P : Val → Val → Bool}
    (hf : ∀ t g, BoolV t → BoolV g → P t g = true → InertV p res (f t g)) :
    ∀ (ts gs : List Val), (∀ v ∈ ts, BoolV v) → (∀ v ∈ gs, BoolV v) → zipAllB P ts gs = true →
      Inert true p res (fun rs => ∀ r ∈ rs, BoolV r) (zipWithM' f ts gs)
  | [], _, _, _, _ => by simp only [zipWithM']; exact Inert.pure (by simp)
  | _ :: _, [], _, _, _ => by simp only [zipWithM']; exact Inert.pure (by simp)
  | t :: ts, g :: gs, ht, hg, hP => by
    simp only [zipAllB, Bool.and_eq_true] at hP
    simp only [zipWithM']
    refine Inert.bind (hf t g (ht t (List.mem_cons_self ..)) (hg g (List.mem_cons_self ..)) hP.1) (fun r hr => ?_)
    refine Inert.bind (zipWithM'_inert hf ts gs (fun v hv => ht v (List.mem_cons_of_mem _ hv))
      (fun v hv => hg v (List.mem_cons_of_mem _ hv)) hP.2) (fun rs hrs => ?_)
    refine Inert.pure ?_
    intro v hv
    rcases List.mem_cons.mp hv with rfl | hv
    · exact hr
    · exact hrs v hv

/-- a selection between two booleans under a false guard: the selected value is 0 or 1 because the
condition and both branches are, so `LinCombBool(ret, False)` accepts it -/
theorem iteBB_inert {zd : Bool} {cond x y : LinComb} (hc : cond.value = 0 ∨ cond.value = 1) (hx : x.value = 0 ∨ x.value = 1)
    (hy : y.value = 0 ∨ y.value = 1) : Inert zd p res BoolV (iteBB cond x y) := by
  unfold iteBB
  refine Inert.bind (mulLL_inert _ _) (fun pr hpr => ?_)
  have hb : (y.add pr).value = 0 ∨ (y.add pr).value = 1 := by
    rw [add_value, hpr, add_value, neg_value]; exact bool_sel hc hx hy
  refine Inert.bind (mkBool_inert false hb) (fun r hr => Inert.pure ?_)
  subst hr; exact BoolV_lcb.mpr hb

theorem iteAux_inert {cond : LinComb} (hc : cond.value = 0 ∨ cond.value = 1) : ∀ (fuel : Nat) (t f : Val), BoolV t → BoolV f →
    zipOk fuel t f = true → InertV p res (iteAux cond fuel t f) := by
  intro fuel
  induction fuel with
  | zero => intro t f _ _ _; simp only [iteAux]; exact Inert.raise rfl
  | succ n ih =>
    intro t f ht hf hz
    by_cases hbb : bothLcb t f = true
    · cases t <;> cases f <;> simp only [bothLcb, reduceCtorEq] at hbb
      rw [iteAux_bb]
      exact iteBB_inert hc (BoolV_lcb.mp ht) (BoolV_lcb.mp hf)
    simp only [iteAux]
    split
    · exact Inert.pure ht
    · rename_i hns
      have generic : ∀ f' : Val, bothLcb t f' = false → InertV p res (do
          let d ← subV t f'
          let prod ← mulLV cond d
          let ret ← addV f' prod
          iteTag t f' ret) := by
        intro f' hb'
        refine Inert.bind (subV_inert _ _) (fun d _ => ?_)
        refine Inert.bind (mulLV_inert _ _) (fun pr _ => ?_)
        refine Inert.bind (addV_inert _ _) (fun ret hret => ?_)
        rw [iteTag_other ret hb']
        exact Inert.pure hret
      cases t
      case list ts =>
        cases f
        case list fs =>
          obtain ⟨hl, hz'⟩ := zipOk_list hz
          dsimp only
          rw [if_pos hl]
          refine Inert.bind (zipWithM'_inert (fun a b ha hb hab => ih a b ha hb hab) ts fs (BoolV_list.mp ht) (BoolV_list.mp hf) hz')
            (fun rs hrs => Inert.pure (BoolV_list.mpr hrs))
        case tuple fs =>
          obtain ⟨hl, hz'⟩ := zipOk_tuple hz
          dsimp only
          rw [if_pos hl]
          refine Inert.bind (zipWithM'_inert (fun a b ha hb hab => ih a b ha hb hab) ts fs (BoolV_list.mp ht) (BoolV_tuple.mp hf) hz')
            (fun rs hrs => Inert.pure (BoolV_list.mpr hrs))
        all_goals exact Inert.tyErr
      case fxp x =>
        dsimp only
        refine Inert.bind (Inert.bind (ensurefxp_inert (zd := true) f) (fun y _ => Inert.pure (Q := fun _ => True) trivial))
          (fun f' _ => generic f' rfl)
      all_goals
        dsimp only
        exact Inert.bind (Inert.pure (Q := fun f' => f' = f) rfl) (fun f' hf' => generic f' (by subst hf'; simpa using hbb))

/-- the condition operand of `if_then_else`: a public `int` must be 0/1 (Python-level `ValueError`
on a public operand) -/
def iteOk : Val → Bool
  | .int c => isBooleanValue c
  | _ => true

theorem ifThenElse_inert {cond : Val} (same : Bool) {t f : Val} (hc : iteOk cond = true) (hcb : BoolV cond) (ht : BoolV t) (hf : BoolV f)
    (hz : selOk t f = true) : InertV p res (ifThenElse cond same t f) := by
  unfold ifThenElse
  split
  · exact Inert.pure ht
  · cases cond
    case int c =>
      have hcb : c = 0 ∨ c = 1 := isBooleanValue_iff.mp hc
      dsimp only
      have : (c != 0 && c != 1) = false := by rcases hcb with rfl | rfl <;> rfl
      simp only [this, Bool.false_eq_true, if_false]
      refine Inert.pure ?_
      split <;> assumption
    case lcb c => exact iteAux_inert (BoolV_lcb.mp hcb) _ t f ht hf hz
    all_goals exact Inert.raise rfl

/-! ## unary -/
theorem eqLL_inert' (a b : LinComb) : Inert true p res (fun r => r.value = 0 ∨ r.value = 1) (eqLL a b) :=
  eqLL_inert a b (fun h => by cases h)
theorem neLL_inert' (a b : LinComb) : Inert true p res (fun r => r.value = 0 ∨ r.value = 1) (neLL a b) :=
  neLL_inert a b (fun h => by cases h)
macro_rules | `(tactic| inert_rule) => `(tactic| first
  | with_reducible apply ltLL_inert | with_reducible apply leLL_inert | with_reducible apply gtLL_inert
  | with_reducible apply geLL_inert | with_reducible apply ltLI_inert | with_reducible apply leLI_inert
  | with_reducible apply gtLI_inert | with_reducible apply geLI_inert | with_reducible apply eqLL_inert'
  | with_reducible apply neLL_inert' | with_reducible apply iteLLL_inert | with_reducible apply absL_inert
  | with_reducible apply invertL_inert | with_reducible apply cmpLL_inert | with_reducible apply cmpLV_inert)

theorem unV_inert (op : Un) {a : Val} (ha : BoolV a) : InertV p res (unV op a) := by
  cases op <;> cases a <;> simp only [unV] <;> first
    | exact negV_inert _
    | exact Inert.pure ha
    | exact Inert.raise rfl
    | exact Inert.tyErr
    | exact Inert.bind (absL_inert _) (fun _ _ => Inert.pure BoolV_lc)
    | exact Inert.bind (invertL_inert _) (fun _ _ => Inert.pure (BoolV_ofFB _))
    | exact Inert.bind (boolNot_inert (BoolV_lcb.mp ha)) (fun _ hr => Inert.pure (BoolV_lcb.mpr hr.2))
    | inert

/-! ## constructors -/
/-- `PrivValBool(c)` / `PubValBool(c)` on a literal that is not 0/1 raise whatever the guard
(finding C07-boolean-declaration-under-false-guard) -/
def mkOk : Kind → Val → Bool
  | .privb, .int c => isBooleanValue c
  | .pubb, .int c => isBooleanValue c
  | _, _ => true

theorem mkVal_inert {k : Kind} {v : Val} (hok : mkOk k v = true) : InertV p res (mkVal k v) := by
  cases k <;> cases v <;> simp only [mkVal] <;> first
    | exact Inert.raise rfl
    | exact Inert.bind (privValBool_inert (isBooleanValue_iff.mp hok))
        (fun x hx => Inert.pure (BoolV_lcb.mpr (hx ▸ isBooleanValue_iff.mp hok)))
    | exact Inert.bind (pubValBool_inert (isBooleanValue_iff.mp hok))
        (fun x hx => Inert.pure (BoolV_lcb.mpr (hx ▸ isBooleanValue_iff.mp hok)))
    | inert

/-- `LinCombBool(x)` on a value that is not 0/1 raises whatever the guard -/
theorem wrapBool_inert {v : Val} (hb : v.boolishLC = true) : InertV p res (wrapBool v) := by
  unfold wrapBool
  cases v
  case lc x =>
    have hx : x.value = 0 ∨ x.value = 1 := isBooleanValue_iff.mp hb
    exact Inert.bind (mkBool_inert true hx) (fun r hr => Inert.pure (BoolV_lcb.mpr (hr ▸ hx)))
  all_goals exact Inert.raise rfl

theorem wrapFxp_inert (v : Val) : InertV p res (wrapFxp v) := by
  unfold wrapFxp
  cases v <;> inert

end Pysnark
