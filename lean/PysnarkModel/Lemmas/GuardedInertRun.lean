import PysnarkModel.Lemmas.GuardedInertMeth
import PysnarkModel.Lemmas.InvRun
/-!
# Inertness under a false guard: instructions and programs

`stepOk res regs i`: the instruction, on the operand values it is about to read, is none of the
listed deviations.  `okAlong`: this holds for every instruction the run reaches (a computable
check).  `runAux_inert`: from any configuration in which a false guard is active, a body that never
leaves more regions than it enters raises neither `AssertionError` nor `ValueError`.
-/
namespace Pysnark

variable {p : Int} {res : Nat}

/-- the operand conditions of the binary operators (everything not listed: no condition) -/
def binOk (r : Nat) (op : BinOp) (a b : Val) : Bool :=
  match op with
  | .truediv | .floordiv | .mod | .divmod => !b.divisorZero r
  | .pow | .lshift => !b.negInt
  | .rshift => !b.isLcG && !b.negInt
  | .band | .bxor | .bor => bwOk a b
  | .lt | .le | .eq | .ne | .gt | .ge => cmpOk a b
  | _ => true

theorem binopV_inert {op : BinOp} {a b : Val} (ha : BoolV a) (hb : BoolV b) (hok : binOk res op a b = true) :
    InertV p res (binopV op a b) := by
  cases op <;> simp only [binopV] <;> simp only [binOk, Bool.not_eq_true'] at hok
  case add => exact addV_inert _ _
  case sub => exact subV_inert _ _
  case mul => exact mulV_inert _ _
  case truediv => exact truedivV_inert _ hok
  case floordiv => exact divmodV_inert _ _ hok
  case mod => exact divmodV_inert _ _ hok
  case divmod => exact divmodV_inert _ _ hok
  case pow => exact powV_inert _ hok
  case lshift => exact lshiftV_inert _ hok
  case rshift =>
    simp only [Bool.and_eq_true, Bool.not_eq_true'] at hok
    exact rshiftV_inert _ hok.1 hok.2
  case band => exact bwV_inert _ ha hb hok
  case bxor => exact bwV_inert _ ha hb hok
  case bor => exact bwV_inert _ ha hb hok
  all_goals exact cmpV_inert _ ha hb hok

/-! ## entering a nested region under a false guard -/
theorem bitsOf_zero (n : Nat) : ∀ b ∈ Py.bitsOf 0 n, b = 0 := by
  intro b hb
  unfold Py.bitsOf at hb
  obtain ⟨i, -, rfl⟩ := List.mem_map.mp hb
  simp [Py.bit]

theorem bitsVal_zero : ∀ (bs : List Int) (i : Nat), (∀ b ∈ bs, b = 0) → bitsVal bs i = 0
  | [], _, _ => rfl
  | b :: bs, i, h => by
    rw [bitsVal, h b (List.mem_cons_self ..), bitsVal_zero bs (i+1) (fun c hc => h c (List.mem_cons_of_mem _ hc))]
    simp

/-- `outer & inner` with an outer guard of value 0 has value 0 -/
theorem andLL_zero_inert {zd : Bool} {a : LinComb} (b : LinComb) (ha : a.value = 0) :
    Inert zd p res (fun o => ∀ r, o = some r → r.value = 0) (andLL a b) := by
  unfold andLL
  refine Inert.bind (toBits_inert a none) (fun ab hab => ?_)
  refine Inert.bind (toBits_inert b none) (fun bb _ => ?_)
  have hz : ∀ x ∈ ab, x.value = 0 := by
    obtain ⟨n, hn⟩ := hab
    intro x hx
    rw [ha] at hn
    exact bitsOf_zero n x.value (hn ▸ List.mem_map.mpr ⟨x, hx, rfl⟩)
  refine Inert.bind (mapM'_inert (A := fun (xy : LinComb × LinComb) => xy.1.value = 0) (B := fun r => r.value = 0)
    (fun xy hxy => (mulBB_inert xy.1 xy.2).mono (fun r hr => by rw [hr, hxy, mul_zero])) _
    (fun xy hxy => hz _ (List.of_mem_zip hxy).1)) (fun rs hrs => Inert.pure ?_)
  intro r hr
  have := valFB_fromBits rs
  rw [hr] at this
  simp only [valFB] at this
  rw [this]
  exact bitsVal_zero _ _ (fun v hv => by
    obtain ⟨x, hx, rfl⟩ := List.mem_map.mp hv
    exact hrs x hx)

/-- what `add_guard` saved when it was called under a false guard -/
structure FalseBak (b : GuardBak) : Prop where
  ign : b.ignoreErrors = true
  guard : ∃ g, b.guard = some g ∧ g.value = 0

/-- `add_guard(cond)` called under a false guard: the conjunction is false again, and what it saved
restores a false-guard state -/
theorem addGuard_inert {cond : Val} {s : St} (hs : FalseGuard s) :
    (∀ bak s', addGuard cond s = .ok (bak, s') → FalseGuard s' ∧ FalseBak bak ∧ s'.p = s.p) ∧
    (∀ e, addGuard cond s = .error e → Bad true e = false) := by
  obtain ⟨g, hg, g0⟩ := hs.guard
  unfold addGuard addGuardCore
  generalize unwrapBoolCond cond = cv
  dsimp only
  cases cv
  case lc c =>
    simp only [hs.ign, Bool.not_true, Bool.false_and, Bool.false_eq_true, if_false, hg]
    simp only [bwLV]
    have hm : Inert true s.p s.resolution (fun v => ∀ g', v = Val.lc g' → g'.value = 0)
        (andLL g c >>= fun r => pure (ofFB r)) :=
      Inert.bind (andLL_zero_inert c g0) (fun o ho => Inert.pure (fun g' hg' => by
        cases o with
        | none => simp [ofFB] at hg'
        | some r => simp only [ofFB, Val.lc.injEq] at hg'; subst hg'; exact ho r rfl))
    obtain ⟨hok, herr⟩ := hm s hs rfl rfl
    cases hrun : (andLL g c >>= fun r => pure (ofFB r)) s with
    | error e =>
      constructor
      · intro bak s' h; cases h
      · intro e' h
        simp only [Except.error.injEq] at h
        subst h
        exact herr e hrun
    | ok r =>
      obtain ⟨v, s1⟩ := r
      obtain ⟨hv, k⟩ := hok v s1 hrun
      cases v
      case lc g' =>
        constructor
        · intro bak s' h
          simp only [Except.ok.injEq, Prod.mk.injEq] at h
          obtain ⟨rfl, rfl⟩ := h
          refine ⟨⟨?_, g', rfl, hv g' rfl⟩, ⟨rfl, g, rfl, g0⟩, k.p⟩
          simp only [k.ign, hs.ign, Bool.true_or]
        · intro e h; cases h
      all_goals
        constructor
        · intro bak s' h; cases h
        · intro e h
          simp only [Except.error.injEq] at h
          subst h; rfl
  case int c =>
    dsimp only
    constructor
    · intro bak s' h
      split at h
      · cases h
      · split at h
        · cases h
        · cases h
          exact ⟨hs, ⟨hs.ign, g, hg, g0⟩, rfl⟩
    · intro e h
      split at h
      · cases h; rfl
      · split at h
        · cases h; rfl
        · cases h
  all_goals
    constructor
    · intro bak s' h; cases h
    · intro e h; cases h; rfl


/-! ## one instruction -/
/-- a plain Python literal contains no `LinCombBool` at all -/
theorem BoolV_of_noSecret : ∀ (v : Val), v.noSecret = true → BoolV v
  | .none, _ => BoolV_none
  | .int _, _ => BoolV_int
  | .flt _ _, _ => BoolV_flt
  | .lc x, _ => BoolV_lc
  | .lcb x, h => by simp [Val.noSecret] at h
  | .fxp x, _ => BoolV_fxp
  | .list xs, h => by
    rw [Val.noSecret] at h
    simp only [List.all_eq_true, List.mem_attach, forall_const, Subtype.forall] at h
    exact BoolV_list.mpr (fun v hm => BoolV_of_noSecret v (h v hm))
  | .tuple xs, h => by
    rw [Val.noSecret] at h
    simp only [List.all_eq_true, List.mem_attach, forall_const, Subtype.forall] at h
    exact BoolV_tuple.mpr (fun v hm => BoolV_of_noSecret v (h v hm))

/-- the value register `i` holds (`None` when there is no such register: the model then stops
with its own "unmodelled" marker) -/
def regD (regs : List Val) (i : Nat) : Val := regs.getD i .none

/-- **the instruction is none of the listed deviations** on the operand values it is about to read:
boolean declarations of non-boolean values (`mk privb/pubb`, `wrapb`, mixed boolean operators and
comparisons, `b.assert_xx(o)`), zero divisors, a secret shift count for `>>`, negative public
exponents/shift counts, a non-boolean public selector, secret-containing literals; a selection
(`if_then_else`, an array write through a secret index) that meets lists of different lengths — the
`ValueError` of its length check depends on public structure only and is raised whatever the guard
is —; `set ign` is outside the property -/
def stepOk (r : Nat) (regs : List Val) : Instr → Bool
  | .lit v => v.noSecret
  | .mk k a => mkOk k (regD regs a)
  | .wrapb a => (regD regs a).boolishLC
  | .bin op a b => binOk r op (regD regs a) (regD regs b)
  | .call m self args => callOk m (regD regs self) (args.map (regD regs))
  | .ite c t f => iteOk (regD regs c) && selOk (regD regs t) (regD regs f)
  | .aset a i v => (match regD regs a with
    | .list xs => asetOk xs (regD regs i) (regD regs v)
    | _ => true)
  | .setIgn _ => false
  | _ => true

theorem getReg_inert {zd : Bool} (regs : List Val) (i : Nat) :
    Inert zd p res (fun v => v ∈ regs ∧ regD regs i = v) (getReg regs i) := by
  unfold getReg
  cases h : regs[i]? with
  | none => exact Inert.raise rfl
  | some v =>
    refine Inert.pure ⟨List.mem_of_getElem? h, ?_⟩
    simp [regD, List.getD_eq_getElem?_getD, h]

theorem getRegs_inert {zd : Bool} (regs : List Val) : ∀ is : List Nat,
    Inert zd p res (fun vs => (∀ v ∈ vs, v ∈ regs) ∧ is.map (regD regs) = vs) (getRegs regs is)
  | [] => by unfold getRegs; exact Inert.pure ⟨by simp, rfl⟩
  | i :: is => by
    unfold getRegs
    refine Inert.bind (getReg_inert regs i) (fun v hv => ?_)
    refine Inert.bind (getRegs_inert regs is) (fun vs hvs => Inert.pure ⟨?_, ?_⟩)
    · intro w hw
      rcases List.mem_cons.mp hw with rfl | hw
      · exact hv.1
      · exact hvs.1 w hw
    · simp [hv.2, hvs.2]

/-- instructions that neither touch the guard stack nor the configuration -/
def Instr.isPlainOp : Instr → Bool
  | .genter _ | .gleave | .setBl _ | .setRes _ | .setIgn _ => false
  | _ => true

/-- what a successful instruction leaves behind: a boolean-clean result, boolean-clean registers,
the same frames -/
def StepPost (frames : List GuardBak) (r : Val × List Val × List GuardBak) : Prop :=
  BoolV r.1 ∧ (∀ w ∈ r.2.1, BoolV w) ∧ r.2.2 = frames

theorem step_inert_plain {regs : List Val} {frames : List GuardBak} {i : Instr} (hplain : i.isPlainOp = true)
    (hregs : ∀ v ∈ regs, BoolV v) (hok : stepOk res regs i = true) :
    Inert true p res (StepPost frames) (step regs frames i) := by
  cases i
  case lit w =>
    simp only [step]
    exact Inert.pure ⟨BoolV_of_noSecret w hok, hregs, rfl⟩
  case mk k a =>
    simp only [step]
    refine Inert.bind (getReg_inert regs a) (fun v hv => ?_)
    simp only [stepOk, hv.2] at hok
    exact Inert.bind (mkVal_inert hok) (fun r hr => Inert.pure ⟨hr, hregs, rfl⟩)
  case wrapb a =>
    simp only [step]
    refine Inert.bind (getReg_inert regs a) (fun v hv => ?_)
    simp only [stepOk, hv.2] at hok
    exact Inert.bind (wrapBool_inert hok) (fun r hr => Inert.pure ⟨hr, hregs, rfl⟩)
  case wrapx a =>
    simp only [step]
    refine Inert.bind (getReg_inert regs a) (fun v hv => ?_)
    exact Inert.bind (wrapFxp_inert v) (fun r hr => Inert.pure ⟨hr, hregs, rfl⟩)
  case bin op a b =>
    simp only [step]
    refine Inert.bind (getReg_inert regs a) (fun x hx => ?_)
    refine Inert.bind (getReg_inert regs b) (fun y hy => ?_)
    simp only [stepOk, hx.2, hy.2] at hok
    exact Inert.bind (binopV_inert (hregs x hx.1) (hregs y hy.1) hok) (fun r hr => Inert.pure ⟨hr, hregs, rfl⟩)
  case un op a =>
    simp only [step]
    refine Inert.bind (getReg_inert regs a) (fun x hx => ?_)
    exact Inert.bind (unV_inert op (hregs x hx.1)) (fun r hr => Inert.pure ⟨hr, hregs, rfl⟩)
  case call m self args =>
    simp only [step]
    refine Inert.bind (getReg_inert regs self) (fun x hx => ?_)
    refine Inert.bind (getRegs_inert regs args) (fun as has => ?_)
    simp only [stepOk, hx.2, has.2] at hok
    exact Inert.bind (callMeth_inert m (hregs x hx.1) (fun v hv => hregs v (has.1 v hv)) hok)
      (fun r hr => Inert.pure ⟨hr, hregs, rfl⟩)
  case ite c t f =>
    simp only [step]
    refine Inert.bind (getReg_inert regs c) (fun cv hc => ?_)
    refine Inert.bind (getReg_inert regs t) (fun tv ht => ?_)
    refine Inert.bind (getReg_inert regs f) (fun fv hf => ?_)
    simp only [stepOk, hc.2, ht.2, hf.2, Bool.and_eq_true] at hok
    exact Inert.bind (ifThenElse_inert _ hok.1 (hregs cv hc.1) (hregs tv ht.1) (hregs fv hf.1) hok.2) (fun r hr => Inert.pure ⟨hr, hregs, rfl⟩)
  case list xs =>
    simp only [step]
    refine Inert.bind (getRegs_inert regs xs) (fun vs hvs => ?_)
    exact Inert.pure ⟨BoolV_list.mpr (fun v hv => hregs v (hvs.1 v hv)), hregs, rfl⟩
  case arr xs =>
    simp only [step]
    refine Inert.bind (getRegs_inert regs xs) (fun vs hvs => ?_)
    exact Inert.pure ⟨BoolV_list.mpr (fun v hv => hregs v (hvs.1 v hv)), hregs, rfl⟩
  case idx a k =>
    simp only [step]
    refine Inert.bind (getReg_inert regs a) (fun v hv => ?_)
    have key : ∀ xs : List Val, (∀ w ∈ xs, BoolV w) → Inert true p res (StepPost frames)
        (match pyIndex xs.length k with
          | some j => match xs[j]? with
            | some x => pure (x, regs, frames)
            | Option.none => raise .index
          | Option.none => raise .index : M (Val × List Val × List GuardBak)) := by
      intro xs hxs
      cases pyIndex xs.length k with
      | none => exact Inert.raise rfl
      | some j =>
        dsimp only
        cases hj : xs[j]? with
        | none => exact Inert.raise rfl
        | some x => exact Inert.pure ⟨hxs x (List.mem_of_getElem? hj), hregs, rfl⟩
    cases v
    case list xs => exact key xs (BoolV_list.mp (hregs _ hv.1))
    case tuple xs => exact key xs (BoolV_tuple.mp (hregs _ hv.1))
    all_goals exact Inert.tyErr
  case aget a k =>
    simp only [step]
    refine Inert.bind (getReg_inert regs a) (fun av ha => ?_)
    refine Inert.bind (getReg_inert regs k) (fun iv _ => ?_)
    cases av
    case list xs =>
      exact Inert.bind (arrayGet_inert (BoolV_list.mp (hregs _ ha.1)) iv) (fun r hr => Inert.pure ⟨hr, hregs, rfl⟩)
    all_goals exact Inert.tyErr
  case aset a k w =>
    simp only [step]
    refine Inert.bind (getReg_inert regs a) (fun av ha => ?_)
    refine Inert.bind (getReg_inert regs k) (fun iv hi => ?_)
    refine Inert.bind (getReg_inert regs w) (fun vv hv => ?_)
    simp only [stepOk, ha.2, hi.2, hv.2] at hok
    cases av
    case list xs =>
      refine Inert.bind (arraySet_inert (BoolV_list.mp (hregs _ ha.1)) iv (hregs _ hv.1) hok) (fun xs' hxs' => ?_)
      refine Inert.pure ⟨BoolV_none, ?_, rfl⟩
      intro z hz
      rcases List.mem_or_eq_of_mem_set hz with hz | rfl
      · exact hregs z hz
      · exact BoolV_list.mpr hxs'
    all_goals exact Inert.tyErr
  all_goals simp [Instr.isPlainOp] at hplain


/-! ## programs -/
/-- the body never leaves more regions than it has entered (second argument: current inner depth) -/
def balanced : List Instr → Nat → Bool
  | [], _ => true
  | .genter _ :: is, d => balanced is (d+1)
  | .gleave :: _, 0 => false
  | .gleave :: is, d+1 => balanced is d
  | _ :: is, d => balanced is d

/-- `stepOk` holds for every instruction the run reaches (a computable check along the run) -/
def okAlong : List Instr → List Val → List GuardBak → St → Bool
  | [], _, _, _ => true
  | i :: is, regs, frames, s =>
    stepOk s.resolution regs i &&
    match step regs frames i s with
    | .ok ((v, regs', frames'), s') => okAlong is (regs' ++ [v]) frames' s'
    | .error _ => true

/-- a configuration inside a region whose guard is false: `d` inner regions have been entered since -/
structure ICfg (d : Nat) (s : St) (regs : List Val) (frames : List GuardBak) : Prop where
  fg : FalseGuard s
  regs : ∀ v ∈ regs, BoolV v
  len : d ≤ frames.length
  frames : ∀ b ∈ frames.take d, FalseBak b

def nextD (d : Nat) : Instr → Nat
  | .genter _ => d + 1
  | .gleave => d - 1
  | _ => d

theorem ICfg.push {d : Nat} {s s' : St} {regs regs' : List Val} {frames : List GuardBak} {v : Val}
    (h : ICfg d s regs frames) (k : Same s s') (hv : BoolV v) (hr : ∀ w ∈ regs', BoolV w) :
    ICfg d s' (regs' ++ [v]) frames := by
  refine ⟨h.fg.same k, ?_, h.len, h.frames⟩
  intro w hw
  rcases List.mem_append.mp hw with hw | hw
  · exact hr w hw
  · simp only [List.mem_singleton] at hw; subst hw; exact hv

theorem step_inert {d : Nat} {s : St} {regs : List Val} {frames : List GuardBak} {i : Instr}
    (hc : ICfg d s regs frames) (hok : stepOk s.resolution regs i = true) (hbal : i = .gleave → 0 < d) :
    (∀ v regs' frames' s', step regs frames i s = .ok ((v, regs', frames'), s') →
      ICfg (nextD d i) s' (regs' ++ [v]) frames') ∧
    (∀ e, step regs frames i s = .error e → Bad true e = false) := by
  by_cases hplain : i.isPlainOp = true
  · obtain ⟨h1, h2⟩ := step_inert_plain (p := s.p) (res := s.resolution) (frames := frames) hplain hc.regs hok
      s hc.fg rfl rfl
    refine ⟨?_, h2⟩
    intro v regs' frames' s' h
    obtain ⟨⟨hv, hr, hf⟩, k⟩ := h1 _ _ h
    dsimp only at hv hr hf
    subst hf
    have : nextD d i = d := by cases i <;> simp_all [nextD, Instr.isPlainOp]
    rw [this]
    exact hc.push k hv hr
  · cases i
    case genter c =>
      simp only [step]
      constructor
      · intro v regs' frames' s' h
        obtain ⟨cv, s1, h1, h⟩ := bind_ok.mp h
        obtain ⟨rfl, _⟩ := getReg_ok h1
        obtain ⟨bak, s2, h2, h⟩ := bind_ok.mp h
        obtain ⟨e, rfl⟩ := pure_ok' h
        simp only [Prod.mk.injEq] at e
        obtain ⟨rfl, rfl, rfl⟩ := e
        obtain ⟨fg2, fb, _⟩ := (addGuard_inert hc.fg).1 _ _ h2
        refine ⟨fg2, ?_, by simp [nextD]; exact hc.len, ?_⟩
        · intro w hw
          rcases List.mem_append.mp hw with hw | hw
          · exact hc.regs w hw
          · simp only [List.mem_singleton] at hw; subst hw; exact BoolV_none
        · intro b hb
          simp only [nextD, List.take_succ_cons, List.mem_cons] at hb
          rcases hb with rfl | hb
          · exact fb
          · exact hc.frames b hb
      · intro e h
        rcases bind_err.mp h with h1 | ⟨cv, s1, h1, h⟩
        · exact ((getReg_inert (zd := true) (p := s.p) (res := s.resolution) regs c) s hc.fg rfl rfl).2 e h1
        · obtain ⟨rfl, _⟩ := getReg_ok h1
          rcases bind_err.mp h with h2 | ⟨bak, s2, _, h⟩
          · exact (addGuard_inert hc.fg).2 e h2
          · cases h
    case gleave =>
      have hd := hbal rfl
      simp only [step]
      cases hfr : frames with
      | nil =>
        have := hc.len
        rw [hfr] at this
        simp at this
        omega
      | cons bak rest =>
        have hfb : FalseBak bak := hc.frames bak (by
          rw [hfr]
          cases d with
          | zero => omega
          | succ d' => simp [List.take_succ_cons])
        dsimp only
        constructor
        · intro v regs' frames' s' h
          obtain ⟨u, s2, h2, h⟩ := bind_ok.mp h
          obtain ⟨e, rfl⟩ := pure_ok' h
          simp only [Prod.mk.injEq] at e
          obtain ⟨rfl, rfl, rfl⟩ := e
          unfold restoreGuard at h2
          simp only [Except.ok.injEq, Prod.mk.injEq] at h2
          obtain ⟨-, rfl⟩ := h2
          refine ⟨⟨hfb.ign, hfb.guard⟩, ?_, ?_, ?_⟩
          · intro w hw
            rcases List.mem_append.mp hw with hw | hw
            · exact hc.regs w hw
            · simp only [List.mem_singleton] at hw; subst hw; exact BoolV_none
          · have := hc.len
            rw [hfr] at this
            simp only [List.length_cons] at this
            simp only [nextD]; omega
          · intro b hb
            apply hc.frames b
            rw [hfr]
            cases d with
            | zero => omega
            | succ d' =>
              simp only [nextD, Nat.add_sub_cancel] at hb
              simp only [List.take_succ_cons, List.mem_cons]
              exact Or.inr hb
        · intro e h
          rcases bind_err.mp h with h2 | ⟨u, s2, _, h⟩
          · cases h2
          · cases h
    case setBl n =>
      simp only [step]
      constructor
      · intro v regs' frames' s' h
        obtain ⟨u, s2, h2, h⟩ := bind_ok.mp h
        obtain ⟨e, rfl⟩ := pure_ok' h
        simp only [Prod.mk.injEq] at e
        obtain ⟨rfl, rfl, rfl⟩ := e
        unfold modifySt at h2
        simp only [Except.ok.injEq, Prod.mk.injEq] at h2
        obtain ⟨-, rfl⟩ := h2
        refine ⟨⟨hc.fg.ign, hc.fg.guard⟩, ?_, hc.len, hc.frames⟩
        intro w hw
        rcases List.mem_append.mp hw with hw | hw
        · exact hc.regs w hw
        · simp only [List.mem_singleton] at hw; subst hw; exact BoolV_none
      · intro e h
        rcases bind_err.mp h with h2 | ⟨u, s2, _, h⟩
        · cases h2
        · cases h
    case setRes n =>
      simp only [step]
      constructor
      · intro v regs' frames' s' h
        obtain ⟨u, s2, h2, h⟩ := bind_ok.mp h
        obtain ⟨e, rfl⟩ := pure_ok' h
        simp only [Prod.mk.injEq] at e
        obtain ⟨rfl, rfl, rfl⟩ := e
        unfold modifySt at h2
        simp only [Except.ok.injEq, Prod.mk.injEq] at h2
        obtain ⟨-, rfl⟩ := h2
        refine ⟨⟨hc.fg.ign, hc.fg.guard⟩, ?_, hc.len, hc.frames⟩
        intro w hw
        rcases List.mem_append.mp hw with hw | hw
        · exact hc.regs w hw
        · simp only [List.mem_singleton] at hw; subst hw; exact BoolV_none
      · intro e h
        rcases bind_err.mp h with h2 | ⟨u, s2, _, h⟩
        · cases h2
        · cases h
    case setIgn b => simp [stepOk] at hok
    all_goals simp [Instr.isPlainOp] at hplain

theorem balanced_cons {i : Instr} {is : List Instr} {d : Nat} (h : balanced (i :: is) d = true) :
    balanced is (nextD d i) = true ∧ (i = .gleave → 0 < d) := by
  cases i <;> cases d <;> simp_all [balanced, nextD]

/-- **inertness of programs**: started in a configuration in which a false guard is active, a
balanced body whose instructions avoid the listed deviations (`okAlong`) does not end with an
`AssertionError` or a `ValueError`, at any instruction -/
theorem runAux_inert : ∀ (is : List Instr) (k : Nat) (regs : List Val) (frames : List GuardBak) (s : St) (d : Nat),
    ICfg d s regs frames → balanced is d = true → okAlong is regs frames s = true →
    ∀ e j, (runAux is k regs frames s).err = some (e, j) → Bad true e = false
  | [], k, regs, frames, s, d, _, _, _, e, j, h => by
    simp [runAux] at h
  | i :: is, k, regs, frames, s, d, hc, hbal, hok, e, j, h => by
    obtain ⟨hbal', hgl⟩ := balanced_cons hbal
    unfold okAlong at hok
    rw [Bool.and_eq_true] at hok
    obtain ⟨hok1, hok2⟩ := hok
    obtain ⟨hstep_ok, hstep_err⟩ := step_inert hc hok1 hgl
    unfold runAux at h
    cases hstep : step regs frames i s with
    | error e' =>
      rw [hstep] at h
      simp only [Option.some.injEq, Prod.mk.injEq] at h
      obtain ⟨rfl, -⟩ := h
      exact hstep_err _ hstep
    | ok r =>
      obtain ⟨⟨v, regs', frames'⟩, s'⟩ := r
      rw [hstep] at h hok2
      exact runAux_inert is (k+1) _ _ _ _ (hstep_ok _ _ _ _ hstep) hbal' hok2 e j h


/-! ## entering the region -/
/-- the value of a condition operand (0 for anything that is not a secret) -/
def condValue : Val → Int
  | .lc c => c.value
  | .lcb c => c.value
  | _ => 0

def Val.isSecretCond : Val → Bool
  | .lc _ | .lcb _ => true
  | _ => false

/-- `add_guard(cond)` outside any region with a secret condition of value 0 installs a false guard -/
theorem addGuard_enter_false {cond : Val} {s s' : St} {bak : GuardBak} (hg : s.guard = none)
    (hc : cond.isSecretCond = true) (h0 : condValue cond = 0) (h : addGuard cond s = .ok (bak, s')) :
    FalseGuard s' ∧ s'.p = s.p := by
  have key : ∀ c : LinComb, c.value = 0 → addGuardCore (.lc c) s = .ok (bak, s') → FalseGuard s' ∧ s'.p = s.p := by
    intro c hc0 h
    unfold addGuardCore at h
    simp only [hg] at h
    split at h
    · cases h
    · simp only [Except.ok.injEq, Prod.mk.injEq] at h
      obtain ⟨-, rfl⟩ := h
      exact ⟨⟨by simp [hc0], c, rfl, hc0⟩, rfl⟩
  cases cond
  case lc c => exact key c h0 h
  case lcb c => exact key c h0 h
  all_goals simp [Val.isSecretCond] at hc

theorem getReg_regD {rs : List Val} {i : Nat} {v : Val} {s s' : St} (h : getReg rs i s = .ok (v, s')) :
    s = s' ∧ v ∈ rs ∧ regD rs i = v := by
  unfold getReg at h
  cases hv : rs[i]? with
  | none => simp only [hv] at h; exact (raise_ok.mp h).elim
  | some w =>
    simp only [hv] at h
    obtain ⟨rfl, rfl⟩ := pure_ok' h
    exact ⟨rfl, List.mem_of_getElem? hv, by simp [regD, List.getD_eq_getElem?_getD, hv]⟩

/-- `add_guard(cond)` inside a region whose guard is 1, with a secret condition of value 0: the
effective guard `outer & cond` (AND gadget) has value 0, so a false guard is installed -/
theorem addGuard_enter_false_nested {cond : Val} {s s' : St} {bak : GuardBak} {g : LinComb}
    (hg : s.guard = some g) (g1 : g.value = 1) (hi : s.ignoreErrors = false)
    (hc : cond.isSecretCond = true) (h0 : condValue cond = 0) (h : addGuard cond s = .ok (bak, s')) :
    FalseGuard s' ∧ s'.p = s.p := by
  have key : ∀ c : LinComb, c.value = 0 → addGuardCore (.lc c) s = .ok (bak, s') → FalseGuard s' ∧ s'.p = s.p := by
    intro c hc0 h
    unfold addGuardCore at h
    simp only [hg] at h
    split at h
    · cases h
    · simp only [bwLV] at h
      cases hrun : (andLL g c >>= fun r => pure (ofFB r)) s with
      | error e => rw [hrun] at h; cases h
      | ok r =>
        obtain ⟨v, s1⟩ := r
        rw [hrun] at h
        obtain ⟨o, s2, h1, h2⟩ := bind_ok.mp hrun
        obtain ⟨rfl, rfl⟩ := pure_ok' h2
        obtain ⟨sm, -, -, -, -, hv⟩ := andLL_val hi h1
        cases o with
        | none => simp [ofFB] at h
        | some g' =>
          simp only [ofFB, Except.ok.injEq, Prod.mk.injEq] at h
          obtain ⟨-, rfl⟩ := h
          simp only [valFB, hc0, g1] at hv
          have hg' : g'.value = 0 := by simpa using hv
          exact ⟨⟨by simp [hc0], g', rfl, hg'⟩, sm.p⟩
  cases cond
  case lc c => exact key c h0 h
  case lcb c => exact key c h0 h
  all_goals simp [Val.isSecretCond] at hc

/-- one-instruction form: `genter c` from an unguarded configuration -/
theorem genter_false_cfg {regs regs' : List Val} {frames frames' : List GuardBak} {c : Nat} {s s' : St} {v : Val}
    (hg : s.guard = none) (hregs : ∀ w ∈ regs, BoolV w)
    (hc : (regD regs c).isSecretCond = true) (h0 : condValue (regD regs c) = 0)
    (h : step regs frames (.genter c) s = .ok ((v, regs', frames'), s')) :
    ICfg 0 s' (regs' ++ [v]) frames' ∧ s'.p = s.p := by
  simp only [step] at h
  obtain ⟨cv, s1, h1, h⟩ := bind_ok.mp h
  obtain ⟨rfl, -, hcv⟩ := getReg_regD h1
  obtain ⟨bak, s2, h2, h⟩ := bind_ok.mp h
  obtain ⟨e, rfl⟩ := pure_ok' h
  simp only [Prod.mk.injEq] at e
  obtain ⟨rfl, rfl, rfl⟩ := e
  rw [hcv] at hc h0
  obtain ⟨fg, hp⟩ := addGuard_enter_false hg hc h0 h2
  refine ⟨⟨fg, ?_, Nat.zero_le _, by simp⟩, hp⟩
  intro w hw
  rcases List.mem_append.mp hw with hw | hw
  · exact hregs w hw
  · simp only [List.mem_singleton] at hw; subst hw; exact BoolV_none

/-! ## a purely syntactic sufficient condition for `stepOk` -/
/-- instructions on which `stepOk` holds whatever the registers contain -/
def Instr.alwaysOk : Instr → Bool
  | .lit v => v.noSecret
  | .mk k _ => k != .privb && k != .pubb
  | .wrapb _ => false
  | .bin op _ _ => op == .add || op == .sub || op == .mul
  | .call m _ _ => !m.isAssertCmp
  | .ite _ _ _ => false
  | .aset _ _ _ => false
  | .setIgn _ => false
  | _ => true

theorem stepOk_of_alwaysOk {i : Instr} (h : i.alwaysOk = true) (r : Nat) (regs : List Val) : stepOk r regs i = true := by
  cases i <;> simp only [Instr.alwaysOk, Bool.false_eq_true] at h <;> simp only [stepOk]
  case lit v => exact h
  case mk k a =>
    cases k <;> simp_all [mkOk]
    all_goals (cases regD regs a <;> rfl)
  case bin op a b =>
    cases op <;> simp_all [binOk]
  case call m self args =>
    simp only [Bool.not_eq_true'] at h
    unfold callOk
    split
    · simp [h]
    · rfl

end Pysnark
