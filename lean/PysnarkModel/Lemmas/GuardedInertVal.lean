import PysnarkModel.Lemmas.GuardedInert
/-!
# Inertness under a false guard: the dynamically typed layer (`Model/Val.lean`, `Model/Methods.lean`)

At this level `ZeroDivisionError` is tolerated (`zd = true`): its only sources are field inversions
of non-zero multiples of the modulus, characterised exactly at the gadget level
(`checkZero_inert`, `truedivLI_inert`).  What is shown here: no `AssertionError`, no `ValueError`,
for every operator, method and array access on operands of every kind, outside the explicitly
listed deviations (`binOk`, `callOk`, ...).

`BoolV v`: every boolean-typed secret inside `v` has value 0 or 1.  It holds for everything the
library returns (the constructor checks it unconditionally), and is what makes `~b`, `b & c`, … of
already constructed booleans inert.
-/
namespace Pysnark

/-- every `LinCombBool` inside the value carries 0 or 1 -/
def BoolV : Val → Prop
  | .lcb x => x.value = 0 ∨ x.value = 1
  | .list xs | .tuple xs => ∀ v ∈ xs, BoolV v
  | _ => True

@[simp] theorem BoolV_lcb {x : LinComb} : BoolV (.lcb x) ↔ (x.value = 0 ∨ x.value = 1) := by rw [BoolV]
@[simp] theorem BoolV_list {xs : List Val} : BoolV (.list xs) ↔ ∀ v ∈ xs, BoolV v := by rw [BoolV]
@[simp] theorem BoolV_tuple {xs : List Val} : BoolV (.tuple xs) ↔ ∀ v ∈ xs, BoolV v := by rw [BoolV]
@[simp] theorem BoolV_lc {x : LinComb} : BoolV (.lc x) := by simp [BoolV]
@[simp] theorem BoolV_fxp {x : LinComb} : BoolV (.fxp x) := by simp [BoolV]
@[simp] theorem BoolV_int {c : Int} : BoolV (.int c) := by simp [BoolV]
@[simp] theorem BoolV_flt {m : Int} {e : Nat} : BoolV (.flt m e) := by simp [BoolV]
@[simp] theorem BoolV_none : BoolV .none := by simp [BoolV]

theorem BoolV_ofFB (o : Option LinComb) : BoolV (ofFB o) := by cases o <;> simp [ofFB]

/-! ## the operand conditions that single out the recorded deviations -/

/-- `f` on every pair that `zip` meets -/
def zipAllB (f : Val → Val → Bool) : List Val → List Val → Bool
  | t :: ts, g :: gs => f t g && zipAllB f ts gs
  | _, _ => true

/-- wherever `if_then_else` (walking down `fuel` levels) meets a list on the `truev` side and a list or
tuple on the other, the two have the same length.  Lengths are public structure, not values: a
mismatch is refused with the `ValueError` of the length check whatever the guard is (repaired finding
C09-list-length-truncated), so it is an operand condition of the selection like a public condition
that is not 0/1. -/
def zipOk : Nat → Val → Val → Bool
  | 0, _, _ => true
  | n+1, .list ts, .list fs => ts.length == fs.length && zipAllB (zipOk n) ts fs
  | n+1, .list ts, .tuple fs => ts.length == fs.length && zipAllB (zipOk n) ts fs
  | _+1, _, _ => true

/-- the same with the fuel `ifThenElse` starts from -/
def selOk (t f : Val) : Bool := zipOk (t.depth + 1) t f

theorem zipOk_list {n : Nat} {ts fs : List Val} (h : zipOk (n+1) (.list ts) (.list fs) = true) :
    ts.length = fs.length ∧ zipAllB (zipOk n) ts fs = true := by
  simpa [zipOk] using h
theorem zipOk_tuple {n : Nat} {ts fs : List Val} (h : zipOk (n+1) (.list ts) (.tuple fs) = true) :
    ts.length = fs.length ∧ zipAllB (zipOk n) ts fs = true := by
  simpa [zipOk] using h
/-- scalars on the `truev` side: nothing to compare -/
theorem selOk_of_scalar {t : Val} (h : ∀ ts, t ≠ .list ts) (f : Val) : selOk t f = true := by
  unfold selOk
  cases t <;> first | rfl | exact absurd rfl (h _)

/-- turning this value into a `LinCombBool` succeeds: a raw `LinComb` / `int` is 0 or 1 -/
def Val.boolish : Val → Bool
  | .lc x => isBooleanValue x.value
  | .int c => isBooleanValue c
  | _ => true

/-- the same, for the places where an `int` operand is only tested for truth -/
def Val.boolishLC : Val → Bool
  | .lc x => isBooleanValue x.value
  | _ => true

def Val.isLcbG : Val → Bool
  | .lcb _ => true
  | _ => false

def Val.isLcG : Val → Bool
  | .lc _ => true
  | _ => false

/-- the divisor, converted to the representation the division works on, is zero -/
def Val.divisorZero (r : Nat) : Val → Bool
  | .int c => c == 0
  | .flt m e => scaleFlt m e r == 0
  | .lc y => y.value == 0
  | .fxp y => y.value == 0
  | _ => false

/-- a negative public exponent / shift count (Python's own `ValueError`) -/
def Val.negInt : Val → Bool
  | .int n => n < 0
  | _ => false

abbrev InertV (p : Int) (res : Nat) (m : M Val) : Prop := Inert true p res BoolV m

variable {p : Int} {res : Nat}

macro_rules | `(tactic| inert_side_rule) => `(tactic| first
  | exact BoolV_lc | exact BoolV_fxp | exact BoolV_int | exact BoolV_flt | exact BoolV_none
  | exact BoolV_ofFB _
  | (simp only [BoolV_lcb]; assumption))

/-! ## state readers -/
theorem getRes_inert {zd : Bool} : Inert zd p res (fun r => r = res) getRes := Inert.okSt (fun _ _ _ h => h)
theorem getOne_inert {zd : Bool} : Inert zd p res (fun _ => True) getOne := Inert.okSt (fun _ _ _ _ => trivial)
theorem getP_inert {zd : Bool} : Inert zd p res (fun _ => True) getP := Inert.okSt (fun _ _ _ _ => trivial)
macro_rules | `(tactic| inert_rule) => `(tactic| first
  | exact getRes_inert | exact getOne_inert | exact getP_inert)

/-! ## coercions -/
theorem ensurefxp_inert {zd : Bool} (v : Val) : Inert zd p res (fun _ => True) (ensurefxp v) := by
  unfold ensurefxp
  cases v <;> inert

/-- `_ensurebool`: a raw `LinComb`/`int` that is not 0/1 is rejected whatever the guard
(finding C07-boolean-declaration-under-false-guard) -/
theorem ensurebool_inert {zd : Bool} {v : Val} (hv : BoolV v) (hb : v.boolish = true) :
    Inert zd p res (fun r => r.value = 0 ∨ r.value = 1) (ensurebool v) := by
  unfold ensurebool
  cases v with
  | lcb x => exact Inert.pure (BoolV_lcb.mp hv)
  | lc x =>
    have hb' : isBooleanValue x.value = true := hb
    have hx : x.value = 0 ∨ x.value = 1 := isBooleanValue_iff.mp hb'
    simp only [hb', Bool.not_true, Bool.false_eq_true, if_false]
    exact (mkBool_inert true hx).mono (fun r hr => hr ▸ hx)
  | int c =>
    have hc : c = 0 ∨ c = 1 := isBooleanValue_iff.mp hb
    exact (ensureboolI_inert hc).mono (fun r hr => hr ▸ hc)
  | _ => exact Inert.raise rfl

theorem ensurelc_inert {zd : Bool} (v : Val) : Inert zd p res (fun _ => True) (ensurelc v) := by
  unfold ensurelc
  cases v <;> inert

macro_rules | `(tactic| inert_rule) => `(tactic| first
  | with_reducible apply ensurefxp_inert | with_reducible apply ensurelc_inert)

/-! ## arithmetic -/
theorem negV_inert (v : Val) : InertV p res (negV v) := by
  cases v <;> simp only [negV] <;> inert
macro_rules | `(tactic| inert_rule) => `(tactic| with_reducible apply negV_inert)

theorem addLV_inert (x : LinComb) (o : Val) : InertV p res (addLV x o) := by
  cases o <;> simp only [addLV] <;> inert
theorem addXV_inert (x : LinComb) (o : Val) : InertV p res (addXV x o) := by
  cases o <;> simp only [addXV] <;> inert
macro_rules | `(tactic| inert_rule) => `(tactic| first
  | with_reducible apply addLV_inert | with_reducible apply addXV_inert)

theorem addV_inert (a b : Val) : InertV p res (addV a b) := by
  cases a <;> cases b <;> simp only [addV] <;> inert
macro_rules | `(tactic| inert_rule) => `(tactic| with_reducible apply addV_inert)

theorem subV_inert (a b : Val) : InertV p res (subV a b) := by
  cases a <;> cases b <;> simp only [subV] <;> inert
macro_rules | `(tactic| inert_rule) => `(tactic| with_reducible apply subV_inert)


theorem two_pow_ne_zero (r : Nat) : (2 : Int) ^ r ≠ 0 := pow_ne_zero r (by norm_num)

theorem floordivLI_inert {zd : Bool} (x : LinComb) {c : Int} (hc : c ≠ 0) :
    Inert zd p res (fun _ => True) (floordivLI x c) := by
  unfold floordivLI
  exact Inert.bind (divmodLL_inert x (d := LinComb.const c) hc) (fun _ _ => Inert.pure trivial)

theorem floordivLL_inert {zd : Bool} (x : LinComb) {y : LinComb} (hy : y.value ≠ 0) :
    Inert zd p res (fun _ => True) (floordivLL x y) := by
  unfold floordivLL
  exact Inert.bind (divmodLL_inert x hy) (fun _ _ => Inert.pure trivial)

macro_rules | `(tactic| inert_rule) => `(tactic| first
  | with_reducible apply mulLL_inert | with_reducible apply floordivLI_inert | with_reducible apply floordivLL_inert
  | with_reducible apply divmodLL_inert)
macro_rules | `(tactic| inert_side_rule) => `(tactic| first
  | exact two_pow_ne_zero _
  | (simp only [mulI_value, const_value, ne_eq, mul_eq_zero, not_or]; exact ⟨by assumption, two_pow_ne_zero _⟩))

theorem mulLV_inert (x : LinComb) (o : Val) : InertV p res (mulLV x o) := by
  cases o <;> simp only [mulLV] <;> inert
theorem mulXV_inert (x : LinComb) (o : Val) : InertV p res (mulXV x o) := by
  cases o <;> simp only [mulXV] <;> inert
macro_rules | `(tactic| inert_rule) => `(tactic| first
  | with_reducible apply mulLV_inert | with_reducible apply mulXV_inert)

theorem mulV_inert (a b : Val) : InertV p res (mulV a b) := by
  cases a <;> cases b <;> simp only [mulV] <;> inert
macro_rules | `(tactic| inert_rule) => `(tactic| with_reducible apply mulV_inert)


/-! ## division: the zero-divisor test comes before the guard (finding
C07-zero-division-under-false-guard), so a non-zero divisor is a hypothesis -/

macro "divz" : tactic => `(tactic| (
  intros
  simp_all [Val.divisorZero, two_pow_ne_zero]))

theorem divmodLV_inert {zd : Bool} (x : LinComb) {o : Val} (hd : o.divisorZero res = false) :
    Inert zd p res (fun _ => True) (divmodLV x o) := by
  cases o <;> simp only [divmodLV] <;> simp only [Val.divisorZero] at hd <;> inert

theorem divmodXV_inert {zd : Bool} (x : LinComb) {o : Val} (hd : o.divisorZero res = false) :
    Inert zd p res (fun _ => True) (divmodXV x o) := by
  cases o <;> simp only [divmodXV] <;> simp only [Val.divisorZero] at hd <;> inert


macro_rules | `(tactic| inert_rule) => `(tactic| first
  | with_reducible apply divmodLV_inert | with_reducible apply divmodXV_inert)

theorem BoolV_pickL (w : DM) (qr : LinComb × LinComb) : BoolV (pickL w qr) := by
  cases w <;> simp [pickL]
theorem BoolV_pickX (w : DM) (qr : LinComb × LinComb) : BoolV (pickX w qr) := by
  cases w <;> simp [pickX]
macro_rules | `(tactic| inert_side_rule) => `(tactic| first | exact BoolV_pickL _ _ | exact BoolV_pickX _ _)

/-- `a // b`, `a % b`, `divmod(a, b)` with a divisor that is not zero -/
theorem divmodV_inert (w : DM) (a : Val) {b : Val} (hd : b.divisorZero res = false) :
    InertV p res (divmodV w a b) := by
  cases a <;> cases b <;> simp only [divmodV] <;> (try simp only [Val.divisorZero] at hd) <;> inert


macro_rules | `(tactic| inert_rule) => `(tactic| with_reducible apply divmodV_inert)

theorem truedivXV_inert {zd : Bool} (x : LinComb) {o : Val} (hd : o.divisorZero res = false) :
    Inert zd p res (fun _ => True) (truedivXV x o) := by
  cases o <;> simp only [truedivXV] <;> simp only [Val.divisorZero] at hd <;> inert
macro_rules | `(tactic| inert_rule) => `(tactic| with_reducible apply truedivXV_inert)

theorem truedivLI_inert' (a : LinComb) {c : Int} (hc : c ≠ 0) :
    Inert true p res (fun _ => True) (truedivLI a c) := truedivLI_inert a hc (fun h => by cases h)
macro_rules | `(tactic| inert_rule) => `(tactic| first
  | with_reducible apply truedivLI_inert' | with_reducible apply truedivLL_inert)

/-- `a / b` with a divisor that is not zero -/
theorem truedivV_inert (a : Val) {b : Val} (hd : b.divisorZero res = false) : InertV p res (truedivV a b) := by
  cases a <;> cases b <;> simp only [truedivV] <;> (try simp only [Val.divisorZero] at hd) <;> inert

end Pysnark
