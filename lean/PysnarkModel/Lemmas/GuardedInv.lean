import PysnarkModel.Lemmas.InvRun
/-!
# The tracer invariant under a false guard (C07): `add_constraint` needs no call-site obligation

`addConstraint_spec` (Lemmas/InvPrim.lean) asks every call site for the obligation "the integer
relation holds" in exactly two situations: `check=False`, and a guard of value 1.  Under a guard of
value 0 neither the Python-level check nor the obligation is needed: whatever `v·w − y` is, it goes
into the dummy witness, `v·w = y + dummy` holds by construction and `guard·dummy = 0` holds because
the guard wire evaluates to 0.
-/
namespace Pysnark

theorem addConstraint_false_guard_spec {s s' : St} {v w y g : LinComb} {check : Bool} {u : Unit} (hinv : Inv s)
    (hv : Good s v) (hw : Good s w) (hy : Good s y) (hg : s.guard = some g) (g0 : g.value = 0)
    (h : addConstraint v w y check s = .ok (u, s')) :
    s.le s' ∧ Frame s s' ∧ Inv s' := by
  unfold addConstraint at h
  simp only [hg] at h
  obtain ⟨dummy, s1, h1, h2⟩ := bind_ok.mp h
  obtain ⟨u1, s2, h3, h4⟩ := bind_ok.mp h2
  obtain ⟨le1, f1, inv1, gd, vd⟩ := privVal_spec hinv h1
  have hv1 := hv.mono le1; have hw1 := hw.mono le1; have hy1 := hy.mono le1
  obtain ⟨gg, -⟩ := hinv.guardGood g hg
  have gg1 := gg.mono le1
  have hyd : Good s1 (y.add dummy) := hy1.add gd
  have hsat1 : Sat s1.p s1.assign (v.lc, w.lc, (y.add dummy).lc) := by
    rw [Sat.iff_dvd]
    obtain ⟨k1, e1⟩ := coh_mul hv1.2 hw1.2
    obtain ⟨k2, e2⟩ := Coh.iff_dvd.mp hyd.2
    simp only [LinComb.add] at e2
    rw [vd] at e2
    exact ⟨k2 - k1, by simp only [LinComb.add]; rw [mul_sub]; linarith⟩
  obtain ⟨le2, f2, inv2⟩ := addConstraintUnsafe_spec inv1 hv1.1 hw1.1 hyd.1 hsat1 h3
  have gg2 := gg1.mono le2; have gd2 := gd.mono le2
  have hsat2 : Sat s2.p s2.assign (g.lc, dummy.lc, LinComb.zero.lc) := by
    rw [Sat.iff_dvd]
    obtain ⟨k1, e1⟩ := Coh.iff_dvd.mp gg2.2
    simp only [LinComb.zero, LC.zero, LC.eval]
    rw [g0] at e1
    refine ⟨-(k1 * LC.eval s2.assign dummy.lc), ?_⟩
    have : LC.eval s2.assign g.lc = -(s2.p * k1) := by linarith
    rw [this]; ring
  obtain ⟨le3, f3, inv3⟩ := addConstraintUnsafe_spec inv2 gg2.1 gd2.1 (Good.zero s2).1 hsat2 h4
  exact ⟨(le1.trans le2).trans le3, (f1.trans f2).trans f3, inv3⟩

end Pysnark
