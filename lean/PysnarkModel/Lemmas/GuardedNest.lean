import PysnarkModel.Lemmas.GuardedTransparentNest
/-!
# Transparency of a true guard entered UNDER a true guard (C07, gap G4)

`region_transparent_nest` (Lemmas/GuardedTransparentNest.lean) is about a region entered outside any
region.  Here the region is entered in a state whose active (= effective) guard has value 1.  The
guard installed by `add_guard` is `outer & cond`, computed by the AND gadget; with both values 1 it
has value 1 again, so the unguarded twin (still under the outer guard) and the guarded text run in
states related by `GRel` (same observable configuration, active guards of equal VALUE) at every inner
depth: the situation is simpler than at top level, where the twin has no guard at all.
-/
namespace Pysnark

/-- the guard triple a state returns to is, value for value, the saved frame's -/
structure BaseT (u : St) (b : GuardBak) : Prop where
  guard : OptRel vEq u.guard b.guard
  ign : u.ignoreErrors = b.ignoreErrors
  one : vEq u.one b.one

/-- the guard triple after unwinding depends only on the guard triple before -/
theorem unwind_triple : ∀ (fs : List GuardBak) (s t : St), s.guard = t.guard → s.ignoreErrors = t.ignoreErrors →
    s.one = t.one →
    (unwind s fs).guard = (unwind t fs).guard ∧ (unwind s fs).ignoreErrors = (unwind t fs).ignoreErrors ∧
      (unwind s fs).one = (unwind t fs).one
  | [], _, _, h1, h2, h3 => ⟨h1, h2, h3⟩
  | _ :: fs, _, _, _, _, _ => by
    simp only [unwind]
    exact unwind_triple fs _ _ rfl rfl rfl

theorem unwind_cfg : ∀ (fs : List GuardBak) (s : St), (unwind s fs).bitlength = s.bitlength ∧
    (unwind s fs).resolution = s.resolution ∧ (unwind s fs).p = s.p
  | [], _ => ⟨rfl, rfl, rfl⟩
  | _ :: fs, _ => by simp only [unwind]; exact unwind_cfg fs _

theorem BaseT.congr {s t : St} {fs : List GuardBak} {b : GuardBak} (h : BaseT (unwind s fs) b)
    (h1 : t.guard = s.guard) (h2 : t.ignoreErrors = s.ignoreErrors) (h3 : t.one = s.one) : BaseT (unwind t fs) b := by
  obtain ⟨e1, e2, e3⟩ := unwind_triple fs t s h1 h2 h3
  exact ⟨by rw [e1]; exact h.guard, by rw [e2]; exact h.ign, by rw [e3]; exact h.one⟩

/-- what the two runs return to when the frames pushed inside the region are unwound and the guarded
run restores the region's own frame -/
theorem BaseT.grel {s1 s2 : St} {inner1 inner2 : List GuardBak} {bak0 : GuardBak} (hs : TRel s1 s2)
    (hb : BaseT (unwind s1 inner1) bak0) : GRel (unwind s1 inner1) (restoreSt bak0 (unwind s2 inner2)) := by
  obtain ⟨a1, a2, a3⟩ := unwind_cfg inner1 s1
  obtain ⟨c1, c2, c3⟩ := unwind_cfg inner2 s2
  refine ⟨⟨optRel_isGuard hb.guard rfl rfl, hb.ign, hb.one, ?_, ?_, ?_⟩, hb.guard⟩
  · simp only [restoreSt]; rw [a1, c1]; exact hs.bl
  · simp only [restoreSt]; rw [a2, c2]; exact hs.res
  · simp only [restoreSt]; rw [a3, c3]; exact hs.p

theorem forall2_bakpair_nil_left {f2 : List GuardBak} (h : Forall2 BakPair [] f2) : f2 = [] := by
  cases h; rfl

/-- **the guarded text against its unguarded twin when BOTH run under guards of equal value**
(the region's own guard included).  `inner1`/`inner2`: the frames pushed since the region was
entered; `bak0`: the frame `add_guard` saved at the region's entry (guarded run only). -/
theorem runAux_nestG {d : Nat} {is1 is2 : List Instr} (hn : Nest d is1 is2) :
    ∀ (k : Nat) (regs1 regs2 : List Val) (inner1 inner2 outer : List GuardBak) (bak0 : GuardBak) (s1 s2 : St),
    inner1.length = d → GRel s1 s2 → Forall2 BakPair inner1 inner2 → BaseT (unwind s1 inner1) bak0 →
    Forall2 VRel regs1 regs2 →
    OutRel (runAux is1 k regs1 (inner1 ++ outer) s1) (runAux is2 k regs2 (inner2 ++ bak0 :: outer) s2) := by
  induction hn with
  | done post =>
    intro k regs1 regs2 inner1 inner2 outer bak0 s1 s2 hlen hs hf hb hregs
    have h1 : inner1 = [] := List.length_eq_zero_iff.mp hlen
    subst h1
    have h2 : inner2 = [] := forall2_bakpair_nil_left hf
    subst h2
    simp only [List.nil_append]
    unfold runAux
    rw [step_lit_none, step_gleave_cons]
    dsimp only
    have hg := BaseT.grel (inner1 := []) (inner2 := []) hs.tr hb
    simp only [unwind] at hg
    exact runAux_same post (k+1) _ _ outer outer s1 (restoreSt bak0 s2) hg (forall2_snoc hregs .none)
      (forall2_refl BakPair.refl outer)
  | @enter d c is1 is2 _ ih =>
    intro k regs1 regs2 inner1 inner2 outer bak0 s1 s2 hlen hs hf hb hregs
    have herr : TRel (unwind s1 (inner1 ++ outer)) (unwind s2 (inner2 ++ bak0 :: outer)) := by
      rw [unwind_append, show inner2 ++ bak0 :: outer = (inner2 ++ [bak0]) ++ outer by simp, unwind_append,
        unwind_last]
      exact unwind_trel outer (BaseT.grel hs.tr hb).tr
    unfold runAux
    cases h1 : regs1[c]? with
    | none =>
      rw [step_genter_none h1, step_genter_none ((forall2_getElem?_none hregs c).mp h1)]
      exact ⟨rfl, hregs, herr⟩
    | some cv1 =>
      cases h2 : regs2[c]? with
      | none => rw [(forall2_getElem?_none hregs c).mpr h2] at h1; cases h1
      | some cv2 =>
        rw [step_genter_eq h1, step_genter_eq h2]
        have := addGuard_same hs (hregs.getElem? c h1 h2)
        cases ha1 : addGuard cv1 s1 with
        | error e1 =>
          cases ha2 : addGuard cv2 s2 with
          | error e2 =>
            rw [ha1, ha2] at this
            have : e1 = e2 := this
            subst this
            exact ⟨rfl, hregs, herr⟩
          | ok r2 => rw [ha1, ha2] at this; exact this.elim
        | ok r1 =>
          obtain ⟨b1, t1⟩ := r1
          cases ha2 : addGuard cv2 s2 with
          | error e2 => rw [ha1, ha2] at this; exact this.elim
          | ok r2 =>
            obtain ⟨b2, t2⟩ := r2
            rw [ha1, ha2] at this
            obtain ⟨hp, ht, -⟩ := this
            dsimp only
            refine ih (k+1) _ _ (b1 :: inner1) (b2 :: inner2) outer bak0 t1 t2 (by simp [hlen]) ht (.cons hp hf) ?_
              (forall2_snoc hregs .none)
            -- unwinding the new frame first puts the triple of `s1` back
            have hbk := addGuard_bak ha1
            simp only [St.triple, Triple.mk.injEq] at hbk
            obtain ⟨e1, e2, e3⟩ := hbk
            simp only [unwind]
            exact hb.congr e1 e2 e3
  | @leave d is1 is2 _ ih =>
    intro k regs1 regs2 inner1 inner2 outer bak0 s1 s2 hlen hs hf hb hregs
    cases hf with
    | nil => simp at hlen
    | @cons b1 b2 f1 f2 hp hrest =>
      simp only [List.cons_append]
      unfold runAux
      rw [step_gleave_cons, step_gleave_cons]
      dsimp only
      exact ih (k+1) _ _ f1 f2 outer bak0 _ _ (by simpa using hlen) (GRel.restore hs.tr hp) hrest hb
        (forall2_snoc hregs .none)
  | @op d i is1 is2 hi hbl0 _ ih =>
    intro k regs1 regs2 inner1 inner2 outer bak0 s1 s2 hlen hs hf hb hregs
    have herr : TRel (unwind s1 (inner1 ++ outer)) (unwind s2 (inner2 ++ bak0 :: outer)) := by
      rw [unwind_append, show inner2 ++ bak0 :: outer = (inner2 ++ [bak0]) ++ outer by simp, unwind_append,
        unwind_last]
      exact unwind_trel outer (BaseT.grel hs.tr hb).tr
    by_cases hpure : i.isPureOp = true
    · have h := step_body_tr hregs (inner1 ++ outer) (inner2 ++ bak0 :: outer) hpure s1 s2 hs.tr
      unfold runAux
      cases h1 : step regs1 (inner1 ++ outer) i s1 with
      | error e1 =>
        cases h2 : step regs2 (inner2 ++ bak0 :: outer) i s2 with
        | error e2 =>
          rw [h1, h2] at h
          have : e1 = e2 := h
          subst this
          exact ⟨rfl, hregs, herr⟩
        | ok r2 => rw [h1, h2] at h; exact h.elim
      | ok r1 =>
        obtain ⟨⟨v1, regs1', f1'⟩, t1⟩ := r1
        cases h2 : step regs2 (inner2 ++ bak0 :: outer) i s2 with
        | error e2 => rw [h1, h2] at h; exact h.elim
        | ok r2 =>
          obtain ⟨⟨v2, regs2', f2'⟩, t2⟩ := r2
          rw [h1, h2] at h
          obtain ⟨⟨hv, hr, hf1, hf2⟩, k1, k2⟩ := h
          dsimp only at hv hr hf1 hf2 ⊢
          subst hf1; subst hf2
          exact ih (k+1) _ _ inner1 inner2 outer bak0 t1 t2 hlen (hs.same k1 k2) hf
            (hb.congr k1.guard k1.ign k1.one) (forall2_snoc hr hv)
    · cases i
      case setBl n =>
        unfold runAux
        simp only [step, modifySt, pure, M.pure, bind, M.bind]
        exact ih (k+1) _ _ inner1 inner2 outer bak0 _ _ hlen
          ⟨⟨hs.tr.isG, hs.tr.ign, hs.tr.one, rfl, hs.tr.res, hs.tr.p⟩, hs.guard⟩ hf (hb.congr rfl rfl rfl)
          (forall2_snoc hregs .none)
      case setRes n =>
        unfold runAux
        simp only [step, modifySt, pure, M.pure, bind, M.bind]
        exact ih (k+1) _ _ inner1 inner2 outer bak0 _ _ hlen
          ⟨⟨hs.tr.isG, hs.tr.ign, hs.tr.one, hs.tr.bl, rfl, hs.tr.p⟩, hs.guard⟩ hf (hb.congr rfl rfl rfl)
          (forall2_snoc hregs .none)
      all_goals simp_all [Instr.isPureOp, Instr.isBodyOp]

/-- `add_guard(x)` with `x = 1` under an active guard of value 1, error checking on, bit length ≥ 1:
succeeds; the inner state is `GRel`-related to the outer one (the new guard `outer & x` has value 1,
error checking stays on, `LinComb.ONE` keeps the value 1) -/
theorem addGuardCore_true_in_true {s : St} {g x : LinComb} (hg : s.guard = some g) (g1 : g.value = 1)
    (hi : s.ignoreErrors = false) (hbl : 1 ≤ s.bitlength) (hone : s.one.value = 1) (hx : x.value = 1) :
    ∃ bak s', addGuardCore (.lc x) s = .ok (bak, s') ∧ GRel s s' := by
  have h0 : St0 { s with guard := none } s :=
    ⟨⟨by simp [St.isGuard, hg, g1], rfl, rfl, rfl, rfl, rfl⟩, rfl, ⟨g, hg, g1⟩, hi, hbl⟩
  have hout := addGuardCore_lc_depth0 h0 (c1 := x) (c2 := x) rfl
  have hcore : addGuardCore (.lc x) { s with guard := none } =
      .ok (⟨none, s.ignoreErrors, s.one⟩,
        { s with guard := some x, ignoreErrors := s.ignoreErrors || x.value == 0, one := x }) := by
    unfold addGuardCore
    simp [hx, hi]
  rw [hcore] at hout
  cases hrun : addGuardCore (.lc x) s with
  | error e => rw [hrun] at hout; exact hout.elim
  | ok r =>
    obtain ⟨bak, s'⟩ := r
    rw [hrun] at hout
    obtain ⟨-, hrel, -⟩ := hout
    refine ⟨bak, s', rfl, ?_⟩
    rcases hrel with hrel | hrel
    · -- the inner states of the two runs are related; the outer state is related to the twin's inner state
      have htr := hrel.tr
      have hgd := hrel.guard
      dsimp only at hgd
      cases hg' : s'.guard with
      | none => rw [hg'] at hgd; cases hgd
      | some g' =>
        rw [hg'] at hgd
        have hv : x.value = g'.value := by cases hgd with | some h => exact h
        refine ⟨⟨?_, ?_, ?_, htr.bl, htr.res, htr.p⟩, ?_⟩
        · rw [← htr.isG]; simp [St.isGuard, hg, g1, hx]
        · rw [← htr.ign]; simp [hi, hx]
        · rw [← htr.one]; simp [hone, hx]
        · rw [hg, hg']; exact .some (by show g.value = g'.value; rw [g1, ← hv, hx])
    · have := hrel.g1
      simp at this

/-- **a region whose guard is 1, entered in a state whose active guard is 1, is transparent** — for
bodies with regions of their own (guards of either value) and for everything that runs after it.
`s`: an active guard of value 1 (the effective guard of all enclosing regions), error checking on,
bit length ≥ 1, `LinComb.ONE` of value 1 (under the tracer invariant `LinComb.ONE` IS the guard);
register `c` holds a secret of value 1. -/
theorem region_transparent_nested {is1 is2 : List Instr} (hn : Nest 0 is1 is2) (k : Nat) (regs : List Val)
    (frames : List GuardBak) (s : St) (c : Nat) {g x : LinComb}
    (hg : s.guard = some g) (g1 : g.value = 1) (hi : s.ignoreErrors = false) (hbl : 1 ≤ s.bitlength)
    (hone : s.one.value = 1) (hc : ∃ cv, regs[c]? = some cv ∧ condOf cv = some x) (hx : x.value = 1) :
    OutRel (runAux (.lit .none :: is1) k regs frames s) (runAux (.genter c :: is2) k regs frames s) := by
  obtain ⟨cv, hcv, hcond⟩ := hc
  obtain ⟨bak, s', hcore, hrel⟩ := addGuardCore_true_in_true hg g1 hi hbl hone hx
  have hadd : addGuard cv s = .ok (bak, s') := by
    cases cv <;> simp only [condOf, Option.some.injEq, reduceCtorEq] at hcond
    · subst hcond; exact hcore
    · subst hcond; exact hcore
  unfold runAux
  rw [step_lit_none, step_genter_eq hcv, hadd]
  dsimp only
  have hbk := addGuard_bak hadd
  simp only [St.triple, Triple.mk.injEq] at hbk
  obtain ⟨e1, e2, e3⟩ := hbk
  have := runAux_nestG hn (k+1) (regs ++ [Val.none]) (regs ++ [Val.none]) [] [] frames bak s s' rfl hrel .nil
    ⟨by simp only [unwind]; rw [e1]; exact optRel_refl _, by simp only [unwind]; exact e2.symm,
      by simp only [unwind]; rw [e3]⟩ (forall2_refl VRel.refl _)
  simpa using this

end Pysnark
