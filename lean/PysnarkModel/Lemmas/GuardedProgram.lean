import PysnarkModel.Lemmas.GuardedBool
/-!
# Inertness under a false guard for whole programs started from the initial state (C07, gap G1)

`cfgAt prog n regs frames s`: the configuration (registers, `guarded` frames, tracer state) in which
the run started from `(regs, frames, s)` is about to execute instruction `n`, when it gets there.
`cfgAt_reach`: every configuration a program without `set ign` reaches from a configuration that
satisfies the tracer invariant satisfies it again (`step_inv`, nested regions included) and all its
registers are boolean-clean (`step_boolV`).  Hence: whenever the effective guard of the region an
instruction lies in is 0 (`s.guard = some g`, `g.value = 0`; by `addGuardCore_nested` the guard is
the product of the conditions of all enclosing regions), error suppression is on, and the one-step
inertness lemma applies with NO assumption on the registers.
-/
namespace Pysnark

/-- the configuration before instruction `n` (none: the run ended or raised earlier) -/
def cfgAt : List Instr → Nat → List Val → List GuardBak → St → Option (List Val × List GuardBak × St)
  | _, 0, regs, frames, s => some (regs, frames, s)
  | [], _+1, _, _, _ => none
  | i :: is, n+1, regs, frames, s =>
    match step regs frames i s with
    | .ok ((v, regs', frames'), s') => cfgAt is n (regs' ++ [v]) frames' s'
    | .error _ => none

/-- a run that raises at instruction `j` reached the configuration before `j`, and `j` raised there -/
theorem runAux_err_cfgAt : ∀ (is : List Instr) (k : Nat) (regs : List Val) (frames : List GuardBak) (s : St)
    (e : Err) (j : Nat), (runAux is k regs frames s).err = some (e, j) →
    ∃ n i regs' frames' s', j = k + n ∧ is[n]? = some i ∧ cfgAt is n regs frames s = some (regs', frames', s') ∧
      step regs' frames' i s' = .error e
  | [], k, regs, frames, s, e, j, h => by simp [runAux] at h
  | i :: is, k, regs, frames, s, e, j, h => by
    unfold runAux at h
    cases hstep : step regs frames i s with
    | error e' =>
      rw [hstep] at h
      simp only [Option.some.injEq, Prod.mk.injEq] at h
      obtain ⟨rfl, rfl⟩ := h
      exact ⟨0, i, regs, frames, s, rfl, rfl, rfl, hstep⟩
    | ok r =>
      obtain ⟨⟨v, regs', frames'⟩, s'⟩ := r
      rw [hstep] at h
      obtain ⟨n, i', r', f', t', hj, hi, hc, he⟩ := runAux_err_cfgAt is (k+1) _ _ _ e j h
      refine ⟨n+1, i', r', f', t', by omega, by simpa using hi, ?_, he⟩
      simp only [cfgAt, hstep]
      exact hc

/-- conversely: a reached configuration in which the instruction raises is where the run ends -/
theorem runAux_err_of_cfgAt : ∀ (is : List Instr) (k : Nat) (regs : List Val) (frames : List GuardBak) (s : St)
    (n : Nat) (i : Instr) (regs' : List Val) (frames' : List GuardBak) (s' : St) (e : Err),
    is[n]? = some i → cfgAt is n regs frames s = some (regs', frames', s') → step regs' frames' i s' = .error e →
    (runAux is k regs frames s).err = some (e, k + n)
  | [], k, regs, frames, s, n, i, _, _, _, e, hi, _, _ => by simp at hi
  | i0 :: is, k, regs, frames, s, 0, i, regs', frames', s', e, hi, hc, he => by
    simp only [List.getElem?_cons_zero, Option.some.injEq] at hi
    subst hi
    simp only [cfgAt, Option.some.injEq, Prod.mk.injEq] at hc
    obtain ⟨rfl, rfl, rfl⟩ := hc
    unfold runAux
    rw [he]
    rfl
  | i0 :: is, k, regs, frames, s, n+1, i, regs', frames', s', e, hi, hc, he => by
    simp only [List.getElem?_cons_succ] at hi
    unfold runAux
    cases hstep : step regs frames i0 s with
    | error e' => simp [cfgAt, hstep] at hc
    | ok r =>
      obtain ⟨⟨v, r1, f1⟩, s1⟩ := r
      simp only [cfgAt, hstep] at hc
      have := runAux_err_of_cfgAt is (k+1) _ _ _ n i regs' frames' s' e hi hc he
      simp only
      rw [this]
      congr 2
      omega

/-- **every reached configuration satisfies the tracer invariant and is boolean-clean** -/
theorem cfgAt_reach : ∀ (is : List Instr) (n : Nat) (regs : List Val) (frames : List GuardBak) (s : St),
    RInvN s regs frames → (∀ v ∈ regs, BoolV v) →
    (∀ i ∈ is, i.isSetIgn = false) → (∀ w, Instr.lit w ∈ is → w.noSecret = true) →
    ∀ regs' frames' s', cfgAt is n regs frames s = some (regs', frames', s') →
    RInvN s' regs' frames' ∧ ∀ v ∈ regs', BoolV v
  | _, 0, regs, frames, s, hR, hB, _, _, regs', frames', s', h => by
    simp only [cfgAt, Option.some.injEq, Prod.mk.injEq] at h
    obtain ⟨rfl, rfl, rfl⟩ := h
    exact ⟨hR, hB⟩
  | [], n+1, regs, frames, s, _, _, _, _, regs', frames', s', h => by simp [cfgAt] at h
  | i :: is, n+1, regs, frames, s, hR, hB, hset, hlit, regs', frames', s', h => by
    have hmem : i ∈ i :: is := List.mem_cons_self ..
    cases hstep : step regs frames i s with
    | error e => simp [cfgAt, hstep] at h
    | ok r =>
      obtain ⟨⟨v, r1, f1⟩, s1⟩ := r
      simp only [cfgAt, hstep] at h
      have hR' := step_inv hR (hset i hmem)
        (fun w hw _ => GoodV_of_noSecret w (hlit w (hw ▸ hmem))) hstep
      obtain ⟨hv, hr1⟩ := step_boolV frames hB (fun w hw => hlit w (hw ▸ hmem)) s _ s1 hstep
      have hB' : ∀ w ∈ r1 ++ [v], BoolV w := by
        intro w hw
        rcases List.mem_append.mp hw with hw | hw
        · exact hr1 w hw
        · simp only [List.mem_singleton] at hw; subst hw; exact hv
      exact cfgAt_reach is n _ _ _ hR' hB' (fun j hj => hset j (List.mem_cons_of_mem _ hj))
        (fun w hw => hlit w (List.mem_cons_of_mem _ hw)) regs' frames' s' h

/-- `okAlong` says `stepOk` at every configuration the run reaches -/
theorem okAlong_cfgAt : ∀ (is : List Instr) (n : Nat) (regs : List Val) (frames : List GuardBak) (s : St),
    okAlong is regs frames s = true → ∀ i regs' frames' s', is[n]? = some i →
    cfgAt is n regs frames s = some (regs', frames', s') → stepOk s'.resolution regs' i = true
  | [], n, _, _, _, _, i, _, _, _, hi, _ => by simp at hi
  | i0 :: is, 0, regs, frames, s, hok, i, regs', frames', s', hi, hc => by
    simp only [List.getElem?_cons_zero, Option.some.injEq] at hi
    subst hi
    simp only [cfgAt, Option.some.injEq, Prod.mk.injEq] at hc
    obtain ⟨rfl, rfl, rfl⟩ := hc
    unfold okAlong at hok
    exact (Bool.and_eq_true _ _ ▸ hok).1
  | i0 :: is, n+1, regs, frames, s, hok, i, regs', frames', s', hi, hc => by
    simp only [List.getElem?_cons_succ] at hi
    unfold okAlong at hok
    rw [Bool.and_eq_true] at hok
    cases hstep : step regs frames i0 s with
    | error e' => simp [cfgAt, hstep] at hc
    | ok r =>
      obtain ⟨⟨v, r1, f1⟩, s1⟩ := r
      simp only [cfgAt, hstep] at hc
      have h2 := hok.2
      rw [hstep] at h2
      exact okAlong_cfgAt is n _ _ _ h2 i regs' frames' s' hi hc

/-- one instruction under a false guard, from boolean-clean registers: neither `AssertionError` nor
`ValueError`, unless the instruction is one of the listed deviations (`stepOk`).  No hypothesis on
the frames (a `gleave` never raises a value-caused exception). -/
theorem step_err_false_guard {s : St} {regs : List Val} {frames : List GuardBak} {i : Instr} {e : Err}
    (hs : FalseGuard s) (hregs : ∀ v ∈ regs, BoolV v) (hok : stepOk s.resolution regs i = true)
    (h : step regs frames i s = .error e) : Bad true e = false := by
  by_cases hgl : i = .gleave
  · subst hgl
    cases frames with
    | nil =>
      simp only [step] at h
      cases h; rfl
    | cons b rest =>
      have hk : step regs (b :: rest) Instr.gleave s =
          .ok ((Val.none, regs, rest), { s with guard := b.guard, ignoreErrors := b.ignoreErrors, one := b.one }) := rfl
      rw [hk] at h
      cases h
  · exact (step_inert (d := 0) ⟨hs, hregs, Nat.zero_le _, by simp⟩ hok (fun h' => absurd h' hgl)).2 e h

end Pysnark

namespace Pysnark

theorem runAux_cons_ok {i : Instr} {is : List Instr} {k : Nat} {regs regs' : List Val} {frames frames' : List GuardBak}
    {s s' : St} {v : Val} (h : step regs frames i s = .ok ((v, regs', frames'), s')) :
    runAux (i :: is) k regs frames s = runAux is (k+1) (regs' ++ [v]) frames' s' := by
  rw [runAux.eq_def]
  simp only [h]

/-- running a program that starts with `pre`: either `pre` completes and the rest continues from the
configuration it reached, or `pre` raises and the rest does not matter -/
theorem runAux_append_cfgAt : ∀ (pre rest : List Instr) (k : Nat) (regs : List Val) (frames : List GuardBak) (s : St),
    (∀ r f t, cfgAt pre pre.length regs frames s = some (r, f, t) →
      runAux (pre ++ rest) k regs frames s = runAux rest (k + pre.length) r f t) ∧
    (cfgAt pre pre.length regs frames s = none →
      runAux (pre ++ rest) k regs frames s = runAux pre k regs frames s)
  | [], rest, k, regs, frames, s => by
    constructor
    · intro r f t h
      simp only [cfgAt, List.length_nil, Option.some.injEq, Prod.mk.injEq] at h
      obtain ⟨rfl, rfl, rfl⟩ := h
      rfl
    · intro h; simp [cfgAt] at h
  | i :: pre, rest, k, regs, frames, s => by
    simp only [List.cons_append, List.length_cons]
    cases hstep : step regs frames i s with
    | error e =>
      constructor
      · intro r f t h; simp [cfgAt, hstep] at h
      · intro _
        unfold runAux
        rw [hstep]
    | ok x =>
      obtain ⟨⟨v, r1, f1⟩, s1⟩ := x
      obtain ⟨ih1, ih2⟩ := runAux_append_cfgAt pre rest (k+1) (r1 ++ [v]) f1 s1
      constructor
      · intro r f t h
        simp only [cfgAt, hstep] at h
        rw [runAux_cons_ok hstep, ih1 r f t h]
        have e : k + 1 + pre.length = k + (pre.length + 1) := by omega
        rw [e]
      · intro h
        simp only [cfgAt, hstep] at h
        rw [runAux_cons_ok hstep, runAux_cons_ok hstep]
        exact ih2 h

end Pysnark

namespace Pysnark

/-- computable form of the two syntactic hypotheses: no `set ign`, literals are plain Python values -/
def plainProg (prog : List Instr) : Bool :=
  prog.all fun i => match i with
    | .lit w => w.noSecret
    | .setIgn _ => false
    | _ => true

theorem plainProg_spec {prog : List Instr} (h : plainProg prog = true) :
    NoSetIgn prog ∧ ∀ w, Instr.lit w ∈ prog → w.noSecret = true := by
  unfold plainProg at h
  rw [List.all_eq_true] at h
  constructor
  · intro i hi
    have := h i hi
    cases i <;> simp_all [Instr.isSetIgn]
  · intro w hw
    exact h _ hw

end Pysnark
