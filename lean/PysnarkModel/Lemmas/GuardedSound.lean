import PysnarkModel.Lemmas.Sound
/-!
# What a guarded `add_constraint` enforces (C07), against ANY assignment

Emission in closed form (`addConstraint_some_ok`): under a guard `g` the call allocates one private
wire `dummy` and appends `v * w = y + dummy` and `g * dummy = 0`.  Field algebra: under every
assignment that satisfies both and gives the guard expression a non-zero value (in particular 1),
`v * w = y` holds, i.e. the enforced relation is the one the unguarded call emits; under an
assignment that gives the guard expression the value 0 the two constraints can always be satisfied
by the choice of `dummy` alone, whatever the other wires carry.
-/
namespace Pysnark

/-- the two constraints and the one wire a guarded `add_constraint` adds -/
theorem addConstraint_some_ok {v w y g : LinComb} {check : Bool} {s s' : St} {u : Unit}
    (hg : s.guard = some g) (h : addConstraint v w y check s = .ok (u, s')) :
    s' = s.ext [v.value * w.value - y.value]
      [(v.lc, w.lc, (y.add (fw s.priv.length (v.value * w.value - y.value))).lc),
       (g.lc, [(Wire.priv s.priv.length, 1)], LC.zero)] := by
  unfold addConstraint at h
  simp only [hg] at h
  obtain ⟨d, s1, h1, h⟩ := bind_ok.mp h
  obtain ⟨u1, s2, h2, h⟩ := bind_ok.mp h
  obtain ⟨rfl, rfl⟩ := privVal_ok h1
  have e2 := addConstraintUnsafe_ok h2; subst e2
  have e3 := addConstraintUnsafe_ok h; subst e3
  simp [LinComb.zero]

section field
variable {p : ℕ} {s s' : St} {w' : Wire → Int}

/-- the two emitted equations, in the field -/
theorem addConstraint_guarded_eqs {v w y g : LinComb} {check : Bool} {u : Unit} (hp : s.p = p)
    (hg : s.guard = some g) (hy : y.lc.WF) (h : addConstraint v w y check s = .ok (u, s'))
    (hw : NewSat s s' w') :
    ev p w' v.lc * ev p w' w.lc = ev p w' y.lc + (w' (.priv s.priv.length) : ZMod p) ∧
    ev p w' g.lc * (w' (.priv s.priv.length) : ZMod p) = 0 := by
  have e := addConstraint_some_ok hg h
  subst e
  rw [NewSat_ext, hp] at hw
  have h1 := (sat_iff _ _ _).mp (hw _ (List.mem_cons_self ..))
  have h2 := (sat_iff _ _ _).mp (hw _ (List.mem_cons_of_mem _ (List.mem_cons_self ..)))
  rw [ev_add hy (WF_fw _ _), ev_fw] at h1
  rw [ev_wire, ev_zero] at h2
  exact ⟨h1, h2⟩

/-- **true guard: the unguarded relation is enforced.**  For every assignment that satisfies the
two emitted constraints and gives the guard expression the value 1, `v * w = y`. -/
theorem addConstraint_guarded_enforces {v w y g : LinComb} {check : Bool} {u : Unit} (hp : s.p = p)
    (hg : s.guard = some g) (hy : y.lc.WF) (h : addConstraint v w y check s = .ok (u, s'))
    (hw : NewSat s s' w') (h1 : ev p w' g.lc = 1) :
    ev p w' v.lc * ev p w' w.lc = ev p w' y.lc := by
  obtain ⟨e1, e2⟩ := addConstraint_guarded_eqs hp hg hy h hw
  rw [h1, one_mul] at e2
  rw [e1, e2, add_zero]

/-- the same for any non-zero guard value, over a prime field -/
theorem addConstraint_guarded_enforces_ne [Fact p.Prime] {v w y g : LinComb} {check : Bool} {u : Unit}
    (hp : s.p = p) (hg : s.guard = some g) (hy : y.lc.WF) (h : addConstraint v w y check s = .ok (u, s'))
    (hw : NewSat s s' w') (h1 : ev p w' g.lc ≠ 0) :
    ev p w' v.lc * ev p w' w.lc = ev p w' y.lc := by
  obtain ⟨e1, e2⟩ := addConstraint_guarded_eqs hp hg hy h hw
  rcases mul_eq_zero.mp e2 with h0 | h0
  · exact absurd h0 h1
  · rw [e1, h0, add_zero]

/-- what the unguarded call enforces: the same relation -/
theorem addConstraint_unguarded_enforces {v w y : LinComb} {check : Bool} {u : Unit} (hp : s.p = p)
    (hg : s.guard = none) (h : addConstraint v w y check s = .ok (u, s')) (hw : NewSat s s' w') :
    ev p w' v.lc * ev p w' w.lc = ev p w' y.lc := by
  have e := addConstraint_ok hg h
  subst e
  rw [NewSat_ext, hp] at hw
  exact (sat_iff _ _ _).mp (hw _ (List.mem_singleton.mpr rfl))

/-- **false guard: nothing is enforced.**  Whatever the other wires carry, if the guard expression
evaluates to 0 and the fresh wire does not occur in `v`, `w`, `y`, `g`, then giving the fresh wire the
value `v*w − y` satisfies both emitted constraints. -/
theorem addConstraint_guarded_false_free {v w y g : LinComb} {check : Bool} {u : Unit} (hp : s.p = p)
    (hg : s.guard = some g) (hy : y.lc.WF) (h : addConstraint v w y check s = .ok (u, s'))
    (h0 : ev p w' g.lc = 0)
    (hd : (w' (.priv s.priv.length) : ZMod p) = ev p w' v.lc * ev p w' w.lc - ev p w' y.lc) :
    NewSat s s' w' := by
  have e := addConstraint_some_ok hg h
  subst e
  rw [NewSat_ext, hp]
  intro c hc
  simp only [List.mem_cons, List.mem_nil_iff, or_false] at hc
  rcases hc with rfl | rfl
  · rw [sat_iff, ev_add hy (WF_fw _ _), ev_fw, hd]; ring
  · rw [sat_iff, h0, zero_mul, ev_zero]

end field

/-! ## selection: the result is determined by the condition, whatever the branches' wires carry -/
section select
variable {p : ℕ} [Fact p.Prime] {s s' : St} {w' : Wire → Int}

/-- condition 0 selects the false branch under EVERY satisfying assignment: nothing is assumed
about the value of `t` under `w'` (its wires may have been created under a false guard and be
unconstrained) -/
theorem iteLLL_selects_false {c t f r : LinComb} (hp : s.p = p) (ht : t.lc.WF) (hf : f.lc.WF)
    (h : iteLLL c t f s = .ok (r, s')) (hw : NewSat s s' w') (hc : ev p w' c.lc = 0) :
    ev p w' r.lc = ev p w' f.lc := by
  rw [iteLLL_sound hp ht hf h hw, hc, zero_mul, add_zero]

theorem iteLLL_selects_true {c t f r : LinComb} (hp : s.p = p) (ht : t.lc.WF) (hf : f.lc.WF)
    (h : iteLLL c t f s = .ok (r, s')) (hw : NewSat s s' w') (hc : ev p w' c.lc = 1) :
    ev p w' r.lc = ev p w' t.lc := by
  rw [iteLLL_sound hp ht hf h hw, hc, one_mul]; ring

/-- two satisfying assignments that agree on the condition and on the SELECTED branch agree on the
result; the other branch may differ arbitrarily -/
theorem iteLLL_determined {c t f r : LinComb} {w1 w2 : Wire → Int} (hp : s.p = p) (ht : t.lc.WF) (hf : f.lc.WF)
    (h : iteLLL c t f s = .ok (r, s')) (hw1 : NewSat s s' w1) (hw2 : NewSat s s' w2)
    (hc : ev p w1 c.lc = ev p w2 c.lc) (hb : ev p w1 c.lc = 0 ∨ ev p w1 c.lc = 1)
    (hsel : (ev p w1 c.lc = 0 → ev p w1 f.lc = ev p w2 f.lc) ∧ (ev p w1 c.lc = 1 → ev p w1 t.lc = ev p w2 t.lc)) :
    ev p w1 r.lc = ev p w2 r.lc := by
  rcases hb with h0 | h1
  · rw [iteLLL_selects_false hp ht hf h hw1 h0, iteLLL_selects_false hp ht hf h hw2 (hc ▸ h0)]
    exact hsel.1 h0
  · rw [iteLLL_selects_true hp ht hf h hw1 h1, iteLLL_selects_true hp ht hf h hw2 (hc ▸ h1)]
    exact hsel.2 h1

end select

end Pysnark
