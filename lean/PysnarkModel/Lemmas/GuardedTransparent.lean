import PysnarkModel.Lemmas.Values
import PysnarkModel.Lemmas.Obl
/-!
# Transparency of a true guard (C07, second half): two-run calculus and the typed gadgets

Two runs of the same code are compared: one from a state `s1`, one from a state `s2`, where the
two states agree on everything a hint computation or a Python-level check can observe
(`TRel`: `is_guard()`, error suppression, the VALUE of `LinComb.ONE`, bit length, resolution,
modulus) but may differ in whether a guard is installed at all.  The intended instance: `s1` has no
guard, `s2` has a guard whose value is 1.  Operands are related by "same Python-level value"
(their wire expressions differ: constants are multiples of the guard wire in `s2`).

`Tr R m1 m2`: from related states, either both runs return (results related by `R`, each run keeps
its configuration) or both raise the same exception class.
-/
namespace Pysnark

/-- what hints and Python-level checks can observe of the tracer configuration -/
structure TRel (s1 s2 : St) : Prop where
  isG : s1.isGuard = s2.isGuard
  ign : s1.ignoreErrors = s2.ignoreErrors
  one : s1.one.value = s2.one.value
  bl : s1.bitlength = s2.bitlength
  res : s1.resolution = s2.resolution
  p : s1.p = s2.p

theorem Same.isGuard {s s' : St} (h : Same s s') : s'.isGuard = s.isGuard := by
  unfold St.isGuard; rw [h.guard]

theorem TRel.same {s1 s2 t1 t2 : St} (h : TRel s1 s2) (k1 : Same s1 t1) (k2 : Same s2 t2) : TRel t1 t2 :=
  ⟨by rw [k1.isGuard, k2.isGuard]; exact h.isG, by rw [k1.ign, k2.ign]; exact h.ign,
   by rw [k1.one, k2.one]; exact h.one, by rw [k1.bl, k2.bl]; exact h.bl,
   by rw [k1.res, k2.res]; exact h.res, by rw [k1.p, k2.p]; exact h.p⟩

/-- outcome relation of two runs started in `s1`, `s2` -/
def TrOut {α β : Type} (R : α → β → Prop) (s1 s2 : St) :
    Except Err (α × St) → Except Err (β × St) → Prop
  | .ok (a, t1), .ok (b, t2) => R a b ∧ Same s1 t1 ∧ Same s2 t2
  | .error e1, .error e2 => e1 = e2
  | _, _ => False

def Tr {α β : Type} (R : α → β → Prop) (m1 : M α) (m2 : M β) : Prop :=
  ∀ s1 s2, TRel s1 s2 → TrOut R s1 s2 (m1 s1) (m2 s2)

/-- same Python-level value -/
@[reducible] def vEq (a b : LinComb) : Prop := a.value = b.value

theorem TrOut.bind {α β γ δ : Type} {R : α → β → Prop} {Q : γ → δ → Prop} {m1 : M α} {m2 : M β}
    {f1 : α → M γ} {f2 : β → M δ} {s1 s2 : St} (hm : TrOut R s1 s2 (m1 s1) (m2 s2))
    (hf : ∀ a b t1 t2, m1 s1 = .ok (a, t1) → m2 s2 = .ok (b, t2) → R a b → Same s1 t1 → Same s2 t2 →
      TrOut Q t1 t2 (f1 a t1) (f2 b t2)) :
    TrOut Q s1 s2 ((m1 >>= f1) s1) ((m2 >>= f2) s2) := by
  change TrOut Q s1 s2 (M.bind m1 f1 s1) (M.bind m2 f2 s2)
  unfold M.bind
  cases h1 : m1 s1 with
  | error e1 =>
    cases h2 : m2 s2 with
    | error e2 => rw [h1, h2] at hm; exact hm
    | ok r2 => rw [h1, h2] at hm; exact hm.elim
  | ok r1 =>
    obtain ⟨a, t1⟩ := r1
    cases h2 : m2 s2 with
    | error e2 => rw [h1, h2] at hm; exact hm.elim
    | ok r2 =>
      obtain ⟨b, t2⟩ := r2
      rw [h1, h2] at hm
      obtain ⟨hr, k1, k2⟩ := hm
      have := hf a b t1 t2 h1 h2 hr k1 k2
      dsimp only
      cases h3 : f1 a t1 with
      | error e3 =>
        cases h4 : f2 b t2 with
        | error e4 => rw [h3, h4] at this; exact this
        | ok r4 => rw [h3, h4] at this; exact this.elim
      | ok r3 =>
        obtain ⟨c, u1⟩ := r3
        cases h4 : f2 b t2 with
        | error e4 => rw [h3, h4] at this; exact this.elim
        | ok r4 =>
          obtain ⟨d, u2⟩ := r4
          rw [h3, h4] at this
          obtain ⟨hq, k3, k4⟩ := this
          exact ⟨hq, k1.trans k3, k2.trans k4⟩

theorem TrOut.mono {α β : Type} {R R' : α → β → Prop} {s1 s2 : St} {r1 : Except Err (α × St)}
    {r2 : Except Err (β × St)} (h : TrOut R s1 s2 r1 r2) (hR : ∀ a b, R a b → R' a b) : TrOut R' s1 s2 r1 r2 := by
  cases r1 with
  | error e1 => cases r2 with
    | error e2 => exact h
    | ok r => exact h.elim
  | ok r => cases r2 with
    | error e2 => exact h.elim
    | ok r' => exact ⟨hR _ _ h.1, h.2⟩

namespace Tr
variable {α β γ δ : Type}

theorem bind {R : α → β → Prop} {Q : γ → δ → Prop} {m1 : M α} {m2 : M β} {f1 : α → M γ} {f2 : β → M δ}
    (hm : Tr R m1 m2) (hf : ∀ a b, R a b → Tr Q (f1 a) (f2 b)) : Tr Q (m1 >>= f1) (m2 >>= f2) := by
  intro s1 s2 h
  exact TrOut.bind (hm s1 s2 h) (fun a b t1 t2 _ _ hr k1 k2 => hf a b hr t1 t2 (h.same k1 k2))

theorem pure {R : α → β → Prop} {a : α} {b : β} (h : R a b) : Tr R (pure a) (pure b) := by
  intro s1 s2 _
  exact ⟨h, Same.refl _, Same.refl _⟩

theorem ok {R : α → β → Prop} {a : α} {b : β} (h : R a b) :
    Tr R (fun s => .ok (a, s)) (fun s => .ok (b, s)) := Tr.pure h

/-- results read off the two states -/
theorem okSt {R : α → β → Prop} {f1 : St → α} {f2 : St → β} (h : ∀ s1 s2, TRel s1 s2 → R (f1 s1) (f2 s2)) :
    Tr R (fun s => .ok (f1 s, s)) (fun s => .ok (f2 s, s)) := by
  intro s1 s2 hs
  exact ⟨h s1 s2 hs, Same.refl _, Same.refl _⟩

theorem raise {R : α → β → Prop} (e : Err) : Tr R (raise e) (raise e) := by
  intro s1 s2 _
  exact rfl

theorem tyErr {R : α → β → Prop} : Tr R tyErr tyErr := Tr.raise _

/-- `if c then m else raise e` with the same (public) test on both sides -/
theorem iteElseRaise {R : α → β → Prop} {c1 c2 : Prop} [Decidable c1] [Decidable c2] (hc : c1 ↔ c2) {e : Err}
    {m1 : M α} {m2 : M β} (h : Tr R m1 m2) :
    Tr R (if c1 then m1 else Pysnark.raise e) (if c2 then m2 else Pysnark.raise e) := by
  by_cases h1 : c1
  · rw [if_pos h1, if_pos (hc.mp h1)]; exact h
  · rw [if_neg h1, if_neg (fun h2 => h1 (hc.mpr h2))]; exact Tr.raise _

theorem mono {R R' : α → β → Prop} {m1 : M α} {m2 : M β} (h : Tr R m1 m2) (hR : ∀ a b, R a b → R' a b) :
    Tr R' m1 m2 := fun s1 s2 hs => (h s1 s2 hs).mono hR

theorem getSt : Tr TRel getSt getSt := by
  intro s1 s2 h
  exact ⟨h, Same.refl _, Same.refl _⟩

/-- two hint computations with the same outcome -/
theorem liftE {R : α → β → Prop} {e1 : Except Err α} {e2 : Except Err β}
    (h : match e1, e2 with
      | .ok a, .ok b => R a b
      | .error x, .error y => x = y
      | _, _ => False) : Tr R (liftE e1) (liftE e2) := by
  intro s1 s2 _
  cases e1 with
  | error x => cases e2 with
    | error y => exact h
    | ok b => exact h.elim
  | ok a => cases e2 with
    | error y => exact h.elim
    | ok b => exact ⟨h, Same.refl _, Same.refl _⟩

theorem liftE_eq {e : Except Err α} : Tr Eq (Pysnark.liftE e) (Pysnark.liftE e) := by
  apply Tr.liftE
  cases e <;> rfl

/-- `fun s => if c s then .error e else m s` with conditions that agree on related states -/
theorem iteErr {R : α → β → Prop} {c1 c2 : St → Bool} {e : Err} {m1 : M α} {m2 : M β}
    (hc : ∀ s1 s2, TRel s1 s2 → c1 s1 = c2 s2) (h : Tr R m1 m2) :
    Tr R (fun s => if c1 s then .error e else m1 s) (fun s => if c2 s then .error e else m2 s) := by
  intro s1 s2 hs
  dsimp only
  rw [hc s1 s2 hs]
  split
  · exact rfl
  · exact h s1 s2 hs

/-- a computation that reads the state first -/
theorem readSt {R : α → β → Prop} {f1 : St → M α} {f2 : St → M β}
    (h : ∀ s1 s2, TRel s1 s2 → Tr R (f1 s1) (f2 s2)) : Tr R (fun s => f1 s s) (fun s => f2 s s) := by
  intro s1 s2 hs
  exact h s1 s2 hs s1 s2 hs

/-- `if c then a else b` on conditions that agree -/
theorem ite {R : α → β → Prop} {c1 c2 : Prop} [Decidable c1] [Decidable c2] {a1 b1 : M α} {a2 b2 : M β}
    (hc : c1 ↔ c2) (ha : Tr R a1 a2) (hb : Tr R b1 b2) :
    Tr R (if c1 then a1 else b1) (if c2 then a2 else b2) := by
  by_cases h : c1
  · rw [if_pos h, if_pos (hc.mp h)]; exact ha
  · rw [if_neg h, if_neg (fun h2 => h (hc.mpr h2))]; exact hb

end Tr

/-! ## primitives -/
theorem privVal_tr {v1 v2 : Int} (h : v1 = v2) : Tr vEq (privVal v1) (privVal v2) := by
  intro s1 s2 _
  exact ⟨h, ⟨rfl, rfl, rfl, rfl, rfl, rfl⟩, ⟨rfl, rfl, rfl, rfl, rfl, rfl⟩⟩

theorem pubVal_tr {v1 v2 : Int} (h : v1 = v2) : Tr vEq (pubVal v1) (pubVal v2) := by
  intro s1 s2 _
  exact ⟨h, ⟨rfl, rfl, rfl, rfl, rfl, rfl⟩, ⟨rfl, rfl, rfl, rfl, rfl, rfl⟩⟩

theorem addConstraintUnsafe_tr (v1 w1 y1 v2 w2 y2 : LinComb) :
    Tr (fun _ _ => True) (addConstraintUnsafe v1 w1 y1) (addConstraintUnsafe v2 w2 y2) := by
  intro s1 s2 _
  exact ⟨trivial, ⟨rfl, rfl, rfl, rfl, rfl, rfl⟩, ⟨rfl, rfl, rfl, rfl, rfl, rfl⟩⟩

theorem addConstraint_some {v w y g : LinComb} {check : Bool} {s : St} (hg : s.guard = some g) :
    ∃ s', addConstraint v w y check s = .ok ((), s') ∧ Same s s' := by
  unfold addConstraint
  simp only [hg]
  exact ⟨_, rfl, ⟨rfl, rfl, rfl, rfl, rfl, rfl⟩⟩

theorem isGuard_some {s : St} {g : LinComb} (hg : s.guard = some g) : s.isGuard = (g.value == 1) := by
  unfold St.isGuard; rw [hg]

/-- **`add_constraint` under a true guard vs. no guard.**  The guarded arm never raises; the
unguarded arm raises when the integer check fails.  They agree because every call site with
`check=True` has already established `v·w = y` at the Python level whenever errors are not being
ignored and `is_guard()` holds: that is the call-site obligation `hob`. -/
theorem addConstraint_trOut {v1 w1 y1 v2 w2 y2 : LinComb} {check : Bool} {s1 s2 : St} (h : TRel s1 s2)
    (hv : vEq v1 v2) (hw : vEq w1 w2) (hy : vEq y1 y2)
    (hob : check = true → s1.ignoreErrors = false → s1.isGuard = true → v1.value * w1.value = y1.value) :
    TrOut (fun _ _ => True) s1 s2 (addConstraint v1 w1 y1 check s1) (addConstraint v2 w2 y2 check s2) := by
  have hcond : ∀ s : St, s.guard = none →
      (addConstraint v1 w1 y1 check s = .error .assertion ∧
        (v1.value * w1.value != y1.value && check && !s.ignoreErrors) = true) ∨
      ((∃ s', addConstraint v1 w1 y1 check s = .ok ((), s') ∧ Same s s') ∧
        (v1.value * w1.value != y1.value && check && !s.ignoreErrors) = false) := by
    intro s hg
    unfold addConstraint
    simp only [hg]
    cases hc : (v1.value * w1.value != y1.value && check && !s.ignoreErrors)
    · right; exact ⟨⟨_, rfl, ⟨rfl, rfl, rfl, rfl, rfl, rfl⟩⟩, rfl⟩
    · left; exact ⟨rfl, rfl⟩
  have hcond2 : ∀ s : St, s.guard = none →
      (addConstraint v2 w2 y2 check s = .error .assertion ∧
        (v1.value * w1.value != y1.value && check && !s.ignoreErrors) = true) ∨
      ((∃ s', addConstraint v2 w2 y2 check s = .ok ((), s') ∧ Same s s') ∧
        (v1.value * w1.value != y1.value && check && !s.ignoreErrors) = false) := by
    intro s hg
    unfold addConstraint
    simp only [hg]
    rw [hv, hw, hy]
    cases hc : (v2.value * w2.value != y2.value && check && !s.ignoreErrors)
    · right; exact ⟨⟨_, rfl, ⟨rfl, rfl, rfl, rfl, rfl, rfl⟩⟩, rfl⟩
    · left; exact ⟨rfl, rfl⟩
  -- the integer check cannot fail when `is_guard()` holds
  have hpass : s1.isGuard = true → (v1.value * w1.value != y1.value && check && !s1.ignoreErrors) = false := by
    intro hG
    cases hch : check with
    | false => simp
    | true =>
      cases hi : s1.ignoreErrors with
      | true => simp
      | false => simp [hob hch hi hG]
  cases hg1 : s1.guard with
  | none =>
    have hG1 : s1.isGuard = true := by unfold St.isGuard; rw [hg1]
    cases hg2 : s2.guard with
    | none =>
      rcases hcond s1 hg1 with ⟨e1, c1⟩ | ⟨⟨t1, e1, k1⟩, c1⟩
      · rw [hpass hG1] at c1; cases c1
      · rcases hcond2 s2 hg2 with ⟨e2, c2⟩ | ⟨⟨t2, e2, k2⟩, c2⟩
        · rw [← h.ign, hpass hG1] at c2; cases c2
        · rw [e1, e2]; exact ⟨trivial, k1, k2⟩
    | some g2 =>
      obtain ⟨t2, e2, k2⟩ := addConstraint_some (v := v2) (w := w2) (y := y2) (check := check) hg2
      rcases hcond s1 hg1 with ⟨e1, c1⟩ | ⟨⟨t1, e1, k1⟩, c1⟩
      · rw [hpass hG1] at c1; cases c1
      · rw [e1, e2]; exact ⟨trivial, k1, k2⟩
  | some g1 =>
    obtain ⟨t1, e1, k1⟩ := addConstraint_some (v := v1) (w := w1) (y := y1) (check := check) hg1
    cases hg2 : s2.guard with
    | none =>
      have hG2 : s2.isGuard = true := by unfold St.isGuard; rw [hg2]
      rcases hcond2 s2 hg2 with ⟨e2, c2⟩ | ⟨⟨t2, e2, k2⟩, c2⟩
      · rw [← h.ign, hpass (h.isG.trans hG2)] at c2; cases c2
      · rw [e1, e2]; exact ⟨trivial, k1, k2⟩
    | some g2 =>
      obtain ⟨t2, e2, k2⟩ := addConstraint_some (v := v2) (w := w2) (y := y2) (check := check) hg2
      rw [e1, e2]; exact ⟨trivial, k1, k2⟩

/-- `add_constraint` with an obligation that holds whatever the state -/
theorem addConstraint_tr {v1 w1 y1 v2 w2 y2 : LinComb} {check : Bool}
    (hv : vEq v1 v2) (hw : vEq w1 w2) (hy : vEq y1 y2)
    (hob : check = true → v1.value * w1.value = y1.value) :
    Tr (fun _ _ => True) (addConstraint v1 w1 y1 check) (addConstraint v2 w2 y2 check) :=
  fun _ _ h => addConstraint_trOut h hv hw hy (fun hc _ _ => hob hc)


theorem Tr.err {α β : Type} {R : α → β → Prop} (e : Err) :
    Tr R (fun _ => Except.error e : M α) (fun _ => Except.error e : M β) := fun _ _ _ => rfl

/-! ## tactic support (same architecture as `obl`) -/
syntax "tr_rule" : tactic
macro_rules | `(tactic| tr_rule) => `(tactic| fail "no tr rule applies")

syntax "tr_side_rule" : tactic
macro_rules | `(tactic| tr_side_rule) => `(tactic| fail "no side rule applies")

/-- `vEq A B` / equalities and equivalences of conditions on values built from related operands -/
macro "veq" : tactic => `(tactic| (
  simp only [vEq, add_value, sub_value, neg_value, mulI_value, const_value, addI_value, subI_value,
    rsubI_value, reduceValue_value, LinComb.zero, oneSafe, *]))

macro "tr_side" : tactic => `(tactic| (
  (fail_if_success (show Tr _ _ _))
  first
    | assumption
    | exact trivial
    | rfl
    | exact Iff.rfl
    | tr_side_rule
    | (veq; done)
    | (intros; veq; done)))

macro "tr_step" : tactic => `(tactic| first
  | exact Tr.raise _
  | exact Tr.tyErr
  | exact Tr.err _
  | (show ∀ _ _, _ → Tr _ _ _; intro _ _ _)
  | dsimp only
  | (show Tr _ _ _; assumption)
  | tr_rule
  | refine Tr.pure ?_
  | refine Tr.ok ?_
  | apply Tr.bind
  | refine Tr.ite ?_ ?_ ?_
  | tr_side)

macro "tr" : tactic => `(tactic| repeat' tr_step)

macro_rules | `(tactic| tr_rule) => `(tactic| with_reducible apply privVal_tr)
macro_rules | `(tactic| tr_rule) => `(tactic| with_reducible apply pubVal_tr)
macro_rules | `(tactic| tr_rule) => `(tactic| with_reducible apply addConstraintUnsafe_tr)
macro_rules | `(tactic| tr_rule) => `(tactic| exact Tr.getSt)
macro_rules | `(tactic| tr_rule) => `(tactic| exact Tr.liftE_eq)

theorem ensurelcI_tr (c : Int) : Tr vEq (ensurelcI c) (ensurelcI c) := by
  unfold ensurelcI
  exact Tr.okSt (fun s1 s2 h => by simp only [vEq, mulI_value, h.one])
macro_rules | `(tactic| tr_rule) => `(tactic| with_reducible apply ensurelcI_tr)

theorem fieldInverse_tr {x1 x2 : Int} (h : x1 = x2) : Tr Eq (fieldInverse x1) (fieldInverse x2) := by
  subst h
  intro s1 s2 hs
  unfold fieldInverse
  rw [hs.p]
  cases Py.invert x1 s2.p with
  | none => exact rfl
  | some y => exact ⟨rfl, Same.refl _, Same.refl _⟩
macro_rules | `(tactic| tr_rule) => `(tactic| with_reducible apply fieldInverse_tr)

/-! ## booleans -/
theorem mkBool_tr {x1 x2 : LinComb} (hx : vEq x1 x2) (c : Bool) : Tr vEq (mkBool x1 c) (mkBool x2 c) := by
  have hx' : x1.value = x2.value := hx
  unfold mkBool
  rw [hx']
  cases hb : isBooleanValue x2.value with
  | false => simp only [Bool.not_false, if_true]; exact Tr.err _
  | true =>
    simp only [Bool.not_true, Bool.false_eq_true, if_false]
    cases c with
    | false => simp only [Bool.false_eq_true, if_false]; exact Tr.ok hx
    | true =>
      simp only [if_true]
      refine Tr.bind (addConstraint_tr hx (by veq) rfl (fun _ => ?_)) (fun _ _ _ => Tr.pure hx)
      rw [rsubI_value, hx']
      rcases isBooleanValue_iff.mp hb with h | h <;> rw [h] <;> rfl
macro_rules | `(tactic| tr_rule) => `(tactic| with_reducible apply mkBool_tr)

theorem privValBool_tr {v1 v2 : Int} (h : v1 = v2) : Tr vEq (privValBool v1) (privValBool v2) := by
  subst h
  unfold privValBool
  cases isBooleanValue v1 with
  | false => simp only [Bool.not_false, if_true]; exact Tr.err _
  | true =>
    simp only [Bool.not_true, Bool.false_eq_true, if_false]
    exact Tr.bind (privVal_tr rfl) (fun _ _ hx => mkBool_tr hx true)
macro_rules | `(tactic| tr_rule) => `(tactic| with_reducible apply privValBool_tr)

theorem pubValBool_tr {v1 v2 : Int} (h : v1 = v2) : Tr vEq (pubValBool v1) (pubValBool v2) := by
  subst h
  unfold pubValBool
  cases isBooleanValue v1 with
  | false => simp only [Bool.not_false, if_true]; exact Tr.err _
  | true =>
    simp only [Bool.not_true, Bool.false_eq_true, if_false]
    exact Tr.bind (pubVal_tr rfl) (fun _ _ hx => mkBool_tr hx true)
macro_rules | `(tactic| tr_rule) => `(tactic| with_reducible apply pubValBool_tr)

theorem ensureboolI_tr (v : Int) : Tr vEq (ensureboolI v) (ensureboolI v) := by
  unfold ensureboolI
  cases isBooleanValue v with
  | false => simp only [Bool.not_false, if_true]; exact Tr.err _
  | true =>
    simp only [Bool.not_true, Bool.false_eq_true, if_false]
    exact mkBool_tr rfl true
macro_rules | `(tactic| tr_rule) => `(tactic| with_reducible apply ensureboolI_tr)

/-! ## lists -/
/-- pointwise equal values -/
def vEqL (l1 l2 : List LinComb) : Prop := l1.map (·.value) = l2.map (·.value)

theorem vEqL.length {l1 l2 : List LinComb} (h : vEqL l1 l2) : l1.length = l2.length := by
  have := congrArg List.length h
  simpa using this

theorem mapM'_tr {α β : Type} {R : α → α → Prop} {f1 f2 : α → M β} {Q : β → β → Prop}
    (hf : ∀ a1 a2, R a1 a2 → Tr Q (f1 a1) (f2 a2)) :
    ∀ {l1 l2 : List α}, Forall2 R l1 l2 → Tr (Forall2 Q) (mapM' f1 l1) (mapM' f2 l2) := by
  intro l1 l2 h
  induction h with
  | nil => exact Tr.pure .nil
  | cons hab _ ih =>
    simp only [mapM']
    refine Tr.bind (hf _ _ hab) (fun y1 y2 hy => ?_)
    refine Tr.bind ih (fun ys1 ys2 hys => ?_)
    exact Tr.pure (.cons hy hys)

theorem forall2_refl {α : Type} {R : α → α → Prop} (h : ∀ a, R a a) : ∀ l : List α, Forall2 R l l
  | [] => .nil
  | x :: xs => .cons (h x) (forall2_refl h xs)

theorem forall2_vEq_iff {l1 l2 : List LinComb} : Forall2 vEq l1 l2 ↔ vEqL l1 l2 := by
  constructor
  · intro h
    induction h with
    | nil => rfl
    | cons hab _ ih => simp only [vEqL, List.map_cons] at ih ⊢; rw [hab, ih]
  · intro h
    induction l1 generalizing l2 with
    | nil =>
      cases l2 with
      | nil => exact .nil
      | cons y ys => simp [vEqL] at h
    | cons x xs ih =>
      cases l2 with
      | nil => simp [vEqL] at h
      | cons y ys =>
        simp only [vEqL, List.map_cons, List.cons.injEq] at h
        exact .cons h.1 (ih h.2)

theorem mapM'_privValBool_tr (vs : List Int) : Tr (Forall2 vEq) (mapM' privValBool vs) (mapM' privValBool vs) :=
  mapM'_tr (R := Eq) (fun _ _ h => privValBool_tr h) (forall2_refl (fun _ => rfl) vs)

/-! ## `from_bits` (pure) -/
theorem fromBitsAux_veq {bs1 bs2 : List LinComb} (h : Forall2 vEq bs1 bs2) :
    ∀ (i : Nat) (acc1 acc2 : LinComb), vEq acc1 acc2 → vEq (fromBitsAux bs1 i acc1) (fromBitsAux bs2 i acc2) := by
  induction h with
  | nil => intro i a1 a2 ha; exact ha
  | cons hab _ ih =>
    intro i a1 a2 ha
    simp only [fromBitsAux]
    refine ih _ _ _ ?_
    have ha' : a1.value = a2.value := ha
    have hab' := hab
    simp only [vEq] at hab'
    simp only [vEq, add_value, mulI_value, ha', hab']

theorem fromBits_veq {bs1 bs2 : List LinComb} (h : Forall2 vEq bs1 bs2) :
    OptRel vEq (fromBits bs1) (fromBits bs2) := by
  cases h with
  | nil => exact .none
  | cons hab ht =>
    refine .some (fromBitsAux_veq ht _ _ _ ?_)
    have hab' := hab
    simp only [vEq] at hab'
    simp only [vEq, addI_value, mulI_value, hab']

theorem vEq_subFB {x1 x2 : LinComb} {o1 o2 : Option LinComb} (hx : vEq x1 x2) (ho : OptRel vEq o1 o2) :
    vEq (x1.subFB o1) (x2.subFB o2) := by
  have hx' : x1.value = x2.value := hx
  cases ho with
  | none => simp only [LinComb.subFB, vEq, subI_value, hx']
  | some h =>
    have h' := h
    simp only [vEq] at h'
    simp only [LinComb.subFB, vEq, sub_value, hx', h']

theorem vEq_addFB {x1 x2 : LinComb} {o1 o2 : Option LinComb} (hx : vEq x1 x2) (ho : OptRel vEq o1 o2) :
    vEq (x1.addFB o1) (x2.addFB o2) := by
  have hx' : x1.value = x2.value := hx
  cases ho with
  | none => simp only [LinComb.addFB, vEq, addI_value, hx']
  | some h =>
    have h' := h
    simp only [vEq] at h'
    simp only [LinComb.addFB, vEq, add_value, hx', h']

macro_rules | `(tactic| tr_side_rule) => `(tactic| first
  | with_reducible apply vEq_subFB | with_reducible apply vEq_addFB | with_reducible apply fromBits_veq)

/-! ## assertions and bit decomposition -/
/-- `assert_zero`: the Python-level check precedes the constraint -/
theorem assertZero_tr {x1 x2 : LinComb} (hx : vEq x1 x2) : Tr (fun _ _ => True) (assertZero x1) (assertZero x2) := by
  have hx' : x1.value = x2.value := hx
  intro s1 s2 hs
  unfold assertZero
  rw [hs.ign, hx']
  cases hc : (!s2.ignoreErrors && x2.value != 0) with
  | true => simp only [if_true]; exact rfl
  | false =>
    simp only [Bool.false_eq_true, if_false]
    refine addConstraint_trOut hs rfl rfl hx (fun _ hi _ => ?_)
    rw [hs.ign] at hi
    simp only [hi, Bool.not_false, Bool.true_and, bne_eq_false_iff_eq] at hc
    simp only [LinComb.zero, hx', hc]; rfl
macro_rules | `(tactic| tr_rule) => `(tactic| with_reducible apply assertZero_tr)

theorem toBits_tr {x1 x2 : LinComb} (hx : vEq x1 x2) (bits : Option Nat) :
    Tr (Forall2 vEq) (toBits x1 bits) (toBits x2 bits) := by
  have hx' : x1.value = x2.value := hx
  have key : ∀ n : Nat, Tr (Forall2 vEq)
      (do let bs ← mapM' privValBool (Py.bitsOf x1.value n)
          assertZero (x1.subFB (fromBits bs))
          pure bs)
      (do let bs ← mapM' privValBool (Py.bitsOf x2.value n)
          assertZero (x2.subFB (fromBits bs))
          pure bs) := by
    intro n
    rw [hx']
    refine Tr.bind (mapM'_privValBool_tr _) (fun bs1 bs2 hbs => ?_)
    refine Tr.bind (assertZero_tr (vEq_subFB hx (fromBits_veq hbs))) (fun _ _ _ => ?_)
    exact Tr.pure hbs
  intro s1 s2 hs
  unfold toBits
  dsimp only
  rw [hs.ign, hs.bl, hx']
  cases hc : (!s2.ignoreErrors && !fitsNonneg x2.value (bits.getD s2.bitlength)) with
  | true => simp only [if_true]; exact rfl
  | false =>
    simp only [Bool.false_eq_true, if_false]
    have := key (bits.getD s2.bitlength) s1 s2 hs
    rw [hx'] at this
    exact this
macro_rules | `(tactic| tr_rule) => `(tactic| with_reducible apply toBits_tr)

theorem assertPositive_tr {x1 x2 : LinComb} (hx : vEq x1 x2) (bits : Option Nat) :
    Tr (fun _ _ => True) (assertPositive x1 bits) (assertPositive x2 bits) := by
  have hx' : x1.value = x2.value := hx
  have key : Tr (fun _ _ => True) (do let _ ← toBits x1 bits; pure ()) (do let _ ← toBits x2 bits; pure ()) :=
    Tr.bind (toBits_tr hx bits) (fun _ _ _ => Tr.pure trivial)
  intro s1 s2 hs
  unfold assertPositive
  dsimp only
  rw [hs.ign, hs.bl, hx']
  cases hc : (!s2.ignoreErrors && !fitsNonneg x2.value (bits.getD s2.bitlength)) with
  | true => simp only [if_true]; exact rfl
  | false =>
    simp only [Bool.false_eq_true, if_false]
    exact key s1 s2 hs
macro_rules | `(tactic| tr_rule) => `(tactic| with_reducible apply assertPositive_tr)

theorem checkPositiveHint_eq {s1 s2 : St} (hs : TRel s1 s2) (v : Int) (n : Nat) :
    checkPositiveHint s1 v n = checkPositiveHint s2 v n := by
  unfold checkPositiveHint
  rw [hs.isG, hs.ign]

/-- the hints of `check_positive` are valid whenever errors are not ignored -/
theorem checkPositiveHint_valid {s : St} {v : Int} {n : Nat} {rv : Int} {bs : List Int}
    (h : checkPositiveHint s v n = .ok (rv, bs)) (hi : s.ignoreErrors = false) :
    rv * 2 * v = v + bitsVal bs 0 + (1 - rv) := by
  unfold checkPositiveHint at h
  split at h
  · rename_i hc
    simp only [Bool.and_eq_true, decide_eq_true_eq] at hc
    simp only [Except.ok.injEq, Prod.mk.injEq] at h
    obtain ⟨rfl, rfl⟩ := h
    have hlt := natAbs_lt_pow ((bitLength_le_iff _ _).mp hc.2)
    by_cases hv : v ≥ 0
    · simp only [hv, if_true]
      rw [bitsVal_bitsOf _ _ _ hv hlt.2]; ring
    · simp only [hv, if_false]
      rw [bitsVal_bitsOf _ _ _ (by omega) (by omega)]; ring
  · simp [hi] at h

/-- `check_positive` -/
theorem checkPositive_tr {x1 x2 : LinComb} (hx : vEq x1 x2) (bits : Option Nat) :
    Tr vEq (checkPositive x1 bits) (checkPositive x2 bits) := by
  have hx' : x1.value = x2.value := hx
  intro s1 s2 hs
  unfold checkPositive
  rw [getSt_bind, getSt_bind]
  dsimp only
  rw [checkPositiveHint_eq hs, hs.bl, hx']
  cases hh : checkPositiveHint s2 x2.value (bits.getD s2.bitlength) with
  | error e => exact rfl
  | ok r =>
    obtain ⟨rv, bs⟩ := r
    rw [liftE_ok_bind, liftE_ok_bind]
    dsimp only
    refine TrOut.bind (privValBool_tr rfl s1 s2 hs) (fun ret1 ret2 t1 t2 e1 _ hret k1 k2 => ?_)
    refine TrOut.bind (mapM'_privValBool_tr bs t1 t2 (hs.same k1 k2)) (fun b1 b2 u1 u2 e3 _ hb k3 k4 => ?_)
    have hu := (hs.same k1 k2).same k3 k4
    have hret' : ret1.value = ret2.value := hret
    have v2 := (privValBool_val e1).2.1
    have v3 := (mapM'_privValBool_val _ e3).2.1
    refine TrOut.bind (addConstraint_trOut hu (by veq) hx
      (by have := vEq_addFB hx (fromBits_veq hb); simp only [vEq] at this; simp only [vEq, add_value, rsubI_value, this, hret'])
      (fun _ hi _ => ?_)) (fun _ _ _ _ _ _ _ _ _ => ?_)
    · have hi2 : s2.ignoreErrors = false := by
        rw [← hs.ign, ← k1.ign, ← k3.ign]; exact hi
      have hv := checkPositiveHint_valid hh hi2
      rw [add_value, addFB_fromBits_value, rsubI_value, mulI_value, v2, v3, hx']
      exact hv
    · exact ⟨hret, Same.refl _, Same.refl _⟩
macro_rules | `(tactic| tr_rule) => `(tactic| with_reducible apply checkPositive_tr)


/-! ## zero tests -/
theorem checkZero_tr {x1 x2 : LinComb} (hx : vEq x1 x2) : Tr vEq (checkZero x1) (checkZero x2) := by
  have hx' : x1.value = x2.value := hx
  unfold checkZero
  rw [hx']
  tr
macro_rules | `(tactic| tr_rule) => `(tactic| with_reducible apply checkZero_tr)

theorem boolNot_tr {x1 x2 : LinComb} (hx : vEq x1 x2) : Tr vEq (boolNot x1) (boolNot x2) := by
  unfold boolNot; tr
macro_rules | `(tactic| tr_rule) => `(tactic| with_reducible apply boolNot_tr)

theorem checkNonzero_tr {x1 x2 : LinComb} (hx : vEq x1 x2) : Tr vEq (checkNonzero x1) (checkNonzero x2) := by
  unfold checkNonzero; tr
macro_rules | `(tactic| tr_rule) => `(tactic| with_reducible apply checkNonzero_tr)

theorem assertNonzeroHint_eq {s1 s2 : St} (hs : TRel s1 s2) (v : Int) :
    assertNonzeroHint s1 v = assertNonzeroHint s2 v := by
  unfold assertNonzeroHint
  rw [hs.isG, hs.ign, hs.p]

/-- `assert_nonzero` (`check=False`: neither arm of `add_constraint` raises) -/
theorem assertNonzero_tr {x1 x2 : LinComb} (hx : vEq x1 x2) :
    Tr (fun _ _ => True) (assertNonzero x1) (assertNonzero x2) := by
  have hx' : x1.value = x2.value := hx
  intro s1 s2 hs
  unfold assertNonzero
  rw [getSt_bind, getSt_bind, assertNonzeroHint_eq hs, hx']
  cases hh : assertNonzeroHint s2 x2.value with
  | error e => exact rfl
  | ok w =>
    rw [liftE_ok_bind, liftE_ok_bind]
    refine TrOut.bind (privVal_tr rfl s1 s2 hs) (fun wit1 wit2 t1 t2 _ _ hw k1 k2 => ?_)
    exact addConstraint_trOut (hs.same k1 k2) hx hw hs.one (fun h => by cases h)
macro_rules | `(tactic| tr_rule) => `(tactic| with_reducible apply assertNonzero_tr)

/-! ## comparisons -/
section cmp
variable {a1 a2 b1 b2 : LinComb} (ha : vEq a1 a2) (hb : vEq b1 b2) (c : Int)
include ha
theorem ltLI_tr : Tr vEq (ltLI a1 c) (ltLI a2 c) := by unfold ltLI; tr
theorem leLI_tr : Tr vEq (leLI a1 c) (leLI a2 c) := by unfold leLI; tr
theorem eqLI_tr : Tr vEq (eqLI a1 c) (eqLI a2 c) := by unfold eqLI; tr
theorem neLI_tr : Tr vEq (neLI a1 c) (neLI a2 c) := by unfold neLI; tr
theorem gtLI_tr : Tr vEq (gtLI a1 c) (gtLI a2 c) := by unfold gtLI; tr
theorem geLI_tr : Tr vEq (geLI a1 c) (geLI a2 c) := by unfold geLI; tr
include hb
theorem ltLL_tr : Tr vEq (ltLL a1 b1) (ltLL a2 b2) := by unfold ltLL; tr
theorem leLL_tr : Tr vEq (leLL a1 b1) (leLL a2 b2) := by unfold leLL; tr
theorem eqLL_tr : Tr vEq (eqLL a1 b1) (eqLL a2 b2) := by unfold eqLL; tr
theorem neLL_tr : Tr vEq (neLL a1 b1) (neLL a2 b2) := by unfold neLL; tr
theorem gtLL_tr : Tr vEq (gtLL a1 b1) (gtLL a2 b2) := by unfold gtLL; tr
theorem geLL_tr : Tr vEq (geLL a1 b1) (geLL a2 b2) := by unfold geLL; tr

theorem assertLt_tr : Tr (fun _ _ => True) (assertLt a1 b1) (assertLt a2 b2) := by
  have ha' : a1.value = a2.value := ha
  have hb' : b1.value = b2.value := hb
  unfold assertLt
  refine Tr.iteErr (fun s1 s2 hs => by rw [hs.ign, ha', hb']) ?_
  tr
theorem assertLe_tr : Tr (fun _ _ => True) (assertLe a1 b1) (assertLe a2 b2) := by
  have ha' : a1.value = a2.value := ha
  have hb' : b1.value = b2.value := hb
  unfold assertLe
  refine Tr.iteErr (fun s1 s2 hs => by rw [hs.ign, ha', hb']) ?_
  tr
theorem assertEq_tr : Tr (fun _ _ => True) (assertEq a1 b1) (assertEq a2 b2) := by
  have ha' : a1.value = a2.value := ha
  have hb' : b1.value = b2.value := hb
  unfold assertEq
  refine Tr.iteErr (fun s1 s2 hs => by rw [hs.ign, ha', hb']) ?_
  tr
theorem assertNe_tr : Tr (fun _ _ => True) (assertNe a1 b1) (assertNe a2 b2) := by
  have ha' : a1.value = a2.value := ha
  have hb' : b1.value = b2.value := hb
  unfold assertNe
  refine Tr.iteErr (fun s1 s2 hs => by rw [hs.ign, ha', hb']) ?_
  tr
theorem assertGt_tr : Tr (fun _ _ => True) (assertGt a1 b1) (assertGt a2 b2) := by
  have ha' : a1.value = a2.value := ha
  have hb' : b1.value = b2.value := hb
  unfold assertGt
  refine Tr.iteErr (fun s1 s2 hs => by rw [hs.ign, ha', hb']) ?_
  tr
theorem assertGe_tr : Tr (fun _ _ => True) (assertGe a1 b1) (assertGe a2 b2) := by
  have ha' : a1.value = a2.value := ha
  have hb' : b1.value = b2.value := hb
  unfold assertGe
  refine Tr.iteErr (fun s1 s2 hs => by rw [hs.ign, ha', hb']) ?_
  tr
end cmp
macro_rules | `(tactic| tr_rule) => `(tactic| first
  | with_reducible apply ltLI_tr | with_reducible apply leLI_tr | with_reducible apply eqLI_tr
  | with_reducible apply neLI_tr | with_reducible apply gtLI_tr | with_reducible apply geLI_tr
  | with_reducible apply ltLL_tr | with_reducible apply leLL_tr | with_reducible apply eqLL_tr
  | with_reducible apply neLL_tr | with_reducible apply gtLL_tr | with_reducible apply geLL_tr
  | with_reducible apply assertLt_tr | with_reducible apply assertLe_tr | with_reducible apply assertEq_tr
  | with_reducible apply assertNe_tr | with_reducible apply assertGt_tr | with_reducible apply assertGe_tr)

theorem assertRange_tr {x1 x2 lo1 lo2 hi1 hi2 : LinComb} (hx : vEq x1 x2) (hlo : vEq lo1 lo2) (hhi : vEq hi1 hi2) :
    Tr (fun _ _ => True) (assertRange x1 lo1 hi1) (assertRange x2 lo2 hi2) := by
  have hx' : x1.value = x2.value := hx
  have hlo' : lo1.value = lo2.value := hlo
  have hhi' : hi1.value = hi2.value := hhi
  unfold assertRange
  refine Tr.iteErr (fun s1 s2 hs => by rw [hs.ign, hx', hlo', hhi']) ?_
  tr
macro_rules | `(tactic| tr_rule) => `(tactic| with_reducible apply assertRange_tr)

theorem valL_tr {x1 x2 : LinComb} (hx : vEq x1 x2) : Tr Eq (valL x1) (valL x2) := by
  have hx' : x1.value = x2.value := hx
  unfold valL
  rw [hx']
  tr
macro_rules | `(tactic| tr_rule) => `(tactic| with_reducible apply valL_tr)

/-! ## arithmetic -/
theorem mulLL_tr {a1 a2 b1 b2 : LinComb} (ha : vEq a1 a2) (hb : vEq b1 b2) : Tr vEq (mulLL a1 b1) (mulLL a2 b2) := by
  have ha' : a1.value = a2.value := ha
  have hb' : b1.value = b2.value := hb
  unfold mulLL
  rw [ha', hb']
  tr
macro_rules | `(tactic| tr_rule) => `(tactic| with_reducible apply mulLL_tr)

theorem truedivLI_tr {a1 a2 : LinComb} (ha : vEq a1 a2) (c : Int) : Tr vEq (truedivLI a1 c) (truedivLI a2 c) := by
  have ha' : a1.value = a2.value := ha
  intro s1 s2 hs
  unfold truedivLI
  rw [hs.isG, hs.ign, hs.p, ha']
  split
  · exact rfl
  · split
    · cases Py.invert c s2.p with
      | none => exact rfl
      | some i => exact ⟨rfl, Same.refl _, Same.refl _⟩
    · split
      · cases Py.invert c s2.p with
        | none => exact rfl
        | some i => exact ⟨rfl, Same.refl _, Same.refl _⟩
      · exact rfl
macro_rules | `(tactic| tr_rule) => `(tactic| with_reducible apply truedivLI_tr)

theorem truedivHint_eq {s1 s2 : St} (hs : TRel s1 s2) (a b : Int) : truedivHint s1 a b = truedivHint s2 a b := by
  unfold truedivHint
  rw [hs.isG, hs.ign]

/-- the quotient hint is exact whenever errors are not ignored -/
theorem truedivHint_valid {s : St} {a b q : Int} (h : truedivHint s a b = .ok q) (hi : s.ignoreErrors = false) :
    b * q = a := by
  unfold truedivHint at h
  split at h
  · cases h
  · split at h
    · rename_i hc
      simp only [Bool.and_eq_true, beq_iff_eq] at hc
      cases h
      have hm : Int.fmod a b = 0 := by simpa [Py.mod] using hc.2
      exact Int.mul_fdiv_cancel_of_fmod_eq_zero hm
    · simp [hi] at h

theorem truedivLL_tr {a1 a2 b1 b2 : LinComb} (ha : vEq a1 a2) (hb : vEq b1 b2) :
    Tr vEq (truedivLL a1 b1) (truedivLL a2 b2) := by
  have ha' : a1.value = a2.value := ha
  have hb' : b1.value = b2.value := hb
  intro s1 s2 hs
  unfold truedivLL
  rw [getSt_bind, getSt_bind, truedivHint_eq hs, ha', hb']
  cases hh : truedivHint s2 a2.value b2.value with
  | error e => exact rfl
  | ok q =>
    rw [liftE_ok_bind, liftE_ok_bind]
    refine TrOut.bind (privVal_tr rfl s1 s2 hs) (fun r1 r2 t1 t2 e1 _ hr k1 k2 => ?_)
    have v1 := (privVal_val e1).2
    refine TrOut.bind (addConstraint_trOut (hs.same k1 k2) hb hr ha (fun _ hi _ => ?_)) (fun _ _ _ _ _ _ _ _ _ => ?_)
    · have hi2 : s2.ignoreErrors = false := by rw [← hs.ign, ← k1.ign]; exact hi
      rw [v1, hb', ha']
      exact truedivHint_valid hh hi2
    · exact ⟨hr, Same.refl _, Same.refl _⟩
macro_rules | `(tactic| tr_rule) => `(tactic| with_reducible apply truedivLL_tr)

/-- related (quotient, remainder) pairs -/
def vEqP (p q : LinComb × LinComb) : Prop := vEq p.1 q.1 ∧ vEq p.2 q.2

theorem divmodLL_tr {a1 a2 d1 d2 : LinComb} (ha : vEq a1 a2) (hd : vEq d1 d2) :
    Tr vEqP (divmodLL a1 d1) (divmodLL a2 d2) := by
  have ha' : a1.value = a2.value := ha
  have hd' : d1.value = d2.value := hd
  unfold divmodLL
  rw [hd']
  cases hz : (d2.value == 0) with
  | true => simp only [if_true]; exact Tr.err _
  | false =>
    simp only [Bool.false_eq_true, if_false]
    rw [ha']
    intro s1 s2 hs
    refine TrOut.bind (privVal_tr rfl s1 s2 hs) (fun quo1 quo2 t1 t2 e1 _ hq k1 k2 => ?_)
    have hs1 := hs.same k1 k2
    refine TrOut.bind (mulLL_tr hq hd t1 t2 hs1) (fun res1 res2 u1 u2 e2 _ hres k3 k4 => ?_)
    have hs2 := hs1.same k3 k4
    have hres' : res1.value = res2.value := hres
    rw [hres']
    refine TrOut.bind (privVal_tr rfl u1 u2 hs2) (fun rem1 rem2 w1 w2 e3 _ hrem k5 k6 => ?_)
    have hs3 := hs2.same k5 k6
    have vq := (privVal_val e1).2
    have vres := (mulLL_val e2).2
    have vrem := (privVal_val e3).2
    refine TrOut.bind (addConstraint_trOut hs3 hq hd (by veq) (fun _ _ _ => ?_)) (fun _ _ x1 x2 _ _ _ k7 k8 => ?_)
    · rw [sub_value, vrem, ← hres', vres, ha']; ring
    have hs4 := hs3.same k7 k8
    refine TrOut.bind (assertLt_tr hrem hd x1 x2 hs4) (fun _ _ y1 y2 _ _ _ k9 k10 => ?_)
    refine TrOut.bind (assertPositive_tr hrem none y1 y2 (hs4.same k9 k10)) (fun _ _ _ _ _ _ _ _ _ => ?_)
    exact ⟨⟨hq, hrem⟩, Same.refl _, Same.refl _⟩
macro_rules | `(tactic| tr_rule) => `(tactic| with_reducible apply divmodLL_tr)


theorem getOne_like_tr : Tr vEq (fun s => Except.ok (s.one, s)) (fun s => Except.ok (s.one, s)) :=
  Tr.okSt (fun _ _ h => h.one)

theorem powLN_tr {a1 a2 : LinComb} (ha : vEq a1 a2) : ∀ n : Nat, Tr vEq (powLN a1 n) (powLN a2 n)
  | 0 => by unfold powLN; exact getOne_like_tr
  | 1 => by unfold powLN; exact Tr.pure ha
  | n+2 => by
    have ih := powLN_tr ha (n+1)
    simp only [powLN]
    tr
macro_rules | `(tactic| tr_rule) => `(tactic| with_reducible apply powLN_tr)

theorem iteLLL_tr {c1 c2 t1 t2 f1 f2 : LinComb} (hc : vEq c1 c2) (ht : vEq t1 t2) (hf : vEq f1 f2) :
    Tr vEq (iteLLL c1 t1 f1) (iteLLL c2 t2 f2) := by
  unfold iteLLL; tr
macro_rules | `(tactic| tr_rule) => `(tactic| with_reducible apply iteLLL_tr)

theorem vEq_reduceValue {a b : LinComb} (h : vEq a b) (p : Int) : vEq (reduceValue a p) (reduceValue b p) := by
  have h' : a.value = b.value := h
  simp only [vEq, reduceValue_value, h']

theorem powersAux_tr : ∀ (n : Nat) {c1 c2 : LinComb} (_ : vEq c1 c2) (p : Int),
    Tr (Forall2 vEq) (powersAux n c1 p) (powersAux n c2 p)
  | 0, _, _, _, _ => by unfold powersAux; exact Tr.pure .nil
  | n+1, c1, c2, hc, p => by
    unfold powersAux
    refine Tr.bind (mulLL_tr hc hc) (fun r1 r2 hr => ?_)
    refine Tr.bind (powersAux_tr n (vEq_reduceValue hr p) p) (fun l1 l2 hl => ?_)
    exact Tr.pure (.cons (vEq_reduceValue hr p) hl)

theorem mulAll_tr {s1 s2 : St} (hp : s1.p = s2.p) {ms1 ms2 : List LinComb} (hm : Forall2 vEq ms1 ms2) :
    ∀ {acc1 acc2 : LinComb}, vEq acc1 acc2 → Tr vEq (powLL.mulAll s1 ms1 acc1) (powLL.mulAll s2 ms2 acc2) := by
  induction hm with
  | nil => intro acc1 acc2 hacc; simp only [powLL.mulAll]; exact Tr.pure hacc
  | cons hab _ ih =>
    intro acc1 acc2 hacc
    simp only [powLL.mulAll]
    refine Tr.bind (mulLL_tr hacc hab) (fun r1 r2 hr => ?_)
    rw [hp]
    exact ih (vEq_reduceValue hr _)

theorem powLL_tr {a1 a2 e1 e2 : LinComb} (ha : vEq a1 a2) (he : vEq e1 e2) :
    Tr vEq (powLL a1 e1) (powLL a2 e2) := by
  unfold powLL
  refine Tr.bind (toBits_tr he none) (fun eb1 eb2 heb => ?_)
  refine Tr.bind Tr.getSt (fun s1 s2 hs => ?_)
  rw [heb.length_eq, hs.p]
  refine Tr.bind (powersAux_tr _ ha _) (fun tl1 tl2 htl => ?_)
  dsimp only
  refine Tr.bind (mapM'_tr (Q := vEq) ?_ (Forall2.zip heb (Forall2.cons ha htl))) (fun m1 m2 hm => ?_)
  · rintro p q ⟨hp1, hp2⟩
    refine Tr.bind (ensureboolI_tr 1) (fun o1 o2 ho => ?_)
    refine Tr.bind (eqLL_tr hp1 ho) (fun c1 c2 hc => ?_)
    refine Tr.bind Tr.getSt (fun u1 u2 hu => ?_)
    exact iteLLL_tr hc hp2 hu.one
  · refine Tr.bind Tr.getSt (fun u1 u2 hu => ?_)
    exact mulAll_tr hu.p hm hu.one
macro_rules | `(tactic| tr_rule) => `(tactic| with_reducible apply powLL_tr)

theorem lshiftLI_tr {a1 a2 : LinComb} (ha : vEq a1 a2) (n : Int) : Tr vEq (lshiftLI a1 n) (lshiftLI a2 n) := by
  unfold lshiftLI
  by_cases hn : n < 0
  · simp only [hn, if_true]; exact Tr.err _
  · simp only [hn, if_false]
    exact Tr.ok (by veq)
macro_rules | `(tactic| tr_rule) => `(tactic| with_reducible apply lshiftLI_tr)

theorem rshiftLI_tr {a1 a2 : LinComb} (ha : vEq a1 a2) (n : Int) :
    Tr (OptRel vEq) (rshiftLI a1 n) (rshiftLI a2 n) := by
  unfold rshiftLI
  by_cases hn : n < 0
  · simp only [hn, if_true]; exact Tr.err _
  simp only [hn, if_false]
  refine Tr.bind (toBits_tr ha none) (fun b1 b2 hb => ?_)
  exact Tr.pure (fromBits_veq (hb.drop _))
macro_rules | `(tactic| tr_rule) => `(tactic| with_reducible apply rshiftLI_tr)

theorem andLI_tr {a1 a2 : LinComb} (ha : vEq a1 a2) (c : Int) : Tr vEq (andLI a1 c) (andLI a2 c) := by
  have ha' : a1.value = a2.value := ha
  unfold andLI; rw [ha']; tr
theorem xorLI_tr {a1 a2 : LinComb} (ha : vEq a1 a2) (c : Int) : Tr vEq (xorLI a1 c) (xorLI a2 c) := by
  have ha' : a1.value = a2.value := ha
  unfold xorLI; rw [ha']; tr
theorem orLI_tr {a1 a2 : LinComb} (ha : vEq a1 a2) (c : Int) : Tr vEq (orLI a1 c) (orLI a2 c) := by
  have ha' : a1.value = a2.value := ha
  unfold orLI; rw [ha']; tr

theorem mulBB_tr {a1 a2 b1 b2 : LinComb} (ha : vEq a1 a2) (hb : vEq b1 b2) : Tr vEq (mulBB a1 b1) (mulBB a2 b2) := by
  unfold mulBB; tr
macro_rules | `(tactic| tr_rule) => `(tactic| first
  | with_reducible apply andLI_tr | with_reducible apply xorLI_tr | with_reducible apply orLI_tr
  | with_reducible apply mulBB_tr)

section bitwise
variable {a1 a2 b1 b2 : LinComb} (ha : vEq a1 a2) (hb : vEq b1 b2)
include ha hb
theorem andLL_tr : Tr (OptRel vEq) (andLL a1 b1) (andLL a2 b2) := by
  unfold andLL
  refine Tr.bind (toBits_tr ha none) (fun ab1 ab2 hab => ?_)
  refine Tr.bind (toBits_tr hb none) (fun bb1 bb2 hbb => ?_)
  refine Tr.bind (mapM'_tr (Q := vEq) ?_ (Forall2.zip hab hbb)) (fun r1 r2 hr => Tr.pure (fromBits_veq hr))
  rintro p q ⟨hp1, hp2⟩
  exact mulBB_tr hp1 hp2

theorem xorLL_tr : Tr (OptRel vEq) (xorLL a1 b1) (xorLL a2 b2) := by
  unfold xorLL
  refine Tr.bind (toBits_tr ha none) (fun ab1 ab2 hab => ?_)
  refine Tr.bind (toBits_tr hb none) (fun bb1 bb2 hbb => ?_)
  refine Tr.bind (mapM'_tr (Q := vEq) ?_ (Forall2.zip hab hbb)) (fun r1 r2 hr => Tr.pure (fromBits_veq hr))
  rintro p q ⟨hp1, hp2⟩
  tr

theorem orLL_tr : Tr (OptRel vEq) (orLL a1 b1) (orLL a2 b2) := by
  unfold orLL
  refine Tr.bind (toBits_tr ha none) (fun ab1 ab2 hab => ?_)
  refine Tr.bind (toBits_tr hb none) (fun bb1 bb2 hbb => ?_)
  refine Tr.bind (mapM'_tr (Q := vEq) ?_ (Forall2.zip hab hbb)) (fun r1 r2 hr => Tr.pure (fromBits_veq hr))
  rintro p q ⟨hp1, hp2⟩
  tr
end bitwise

theorem invertL_tr {a1 a2 : LinComb} (ha : vEq a1 a2) : Tr (OptRel vEq) (invertL a1) (invertL a2) := by
  unfold invertL
  refine Tr.bind (toBits_tr ha none) (fun b1 b2 hb => ?_)
  exact Tr.bind (mapM'_tr (fun x y hxy => boolNot_tr hxy) hb) (fun r1 r2 hr => Tr.pure (fromBits_veq hr))

theorem absL_tr {a1 a2 : LinComb} (ha : vEq a1 a2) : Tr vEq (absL a1) (absL a2) := by
  unfold absL; tr

macro_rules | `(tactic| tr_rule) => `(tactic| first
  | with_reducible apply andLL_tr | with_reducible apply xorLL_tr | with_reducible apply orLL_tr
  | with_reducible apply invertL_tr | with_reducible apply absL_tr)

end Pysnark
