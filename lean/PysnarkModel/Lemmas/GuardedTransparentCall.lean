import PysnarkModel.Lemmas.GuardedTransparentSel
/-!
# Transparency of a true guard: method calls and arrays
-/
namespace Pysnark

theorem callMeth_lc_tr0 (m : Meth) {x1 x2 : LinComb} (h : vEq x1 x2) :
    Tr VRel (callMeth m (.lc x1) []) (callMeth m (.lc x2) []) := by
  cases m <;> simp only [callMeth] <;> trv

theorem callMeth_lc_tr1 (m : Meth) {x1 x2 : LinComb} (h : vEq x1 x2) {a1 a2 : Val} (h1 : VRel a1 a2) :
    Tr VRel (callMeth m (.lc x1) [a1]) (callMeth m (.lc x2) [a2]) := by
  cases m <;> simp only [callMeth] <;> trv

theorem callMeth_lc_tr2 (m : Meth) {x1 x2 : LinComb} (h : vEq x1 x2) {a1 a2 b1 b2 : Val} (h1 : VRel a1 a2) (h2 : VRel b1 b2) :
    Tr VRel (callMeth m (.lc x1) [a1, b1]) (callMeth m (.lc x2) [a2, b2]) := by
  cases m <;> simp only [callMeth] <;> trv

theorem callMeth_lc_tr3 (m : Meth) {x1 x2 : LinComb} (h : vEq x1 x2) {a1 a2 b1 b2 c1 c2 : Val} {r1 r2 : List Val} (h1 : VRel a1 a2) (h2 : VRel b1 b2) (h3 : VRel c1 c2) (hr : Forall2 VRel r1 r2) :
    Tr VRel (callMeth m (.lc x1) (a1 :: b1 :: c1 :: r1)) (callMeth m (.lc x2) (a2 :: b2 :: c2 :: r2)) := by
  cases m <;> simp only [callMeth] <;> trv

theorem callMeth_lc_tr (m : Meth) {x1 x2 : LinComb} (h : vEq x1 x2) {as1 as2 : List Val}
    (has : Forall2 VRel as1 as2) : Tr VRel (callMeth m (.lc x1) as1) (callMeth m (.lc x2) as2) := by
  rcases has with _ | ⟨h1, _ | ⟨h2, _ | ⟨h3, hrest⟩⟩⟩
  · exact callMeth_lc_tr0 m h
  · exact callMeth_lc_tr1 m h h1
  · exact callMeth_lc_tr2 m h h1 h2
  · exact callMeth_lc_tr3 m h h1 h2 h3 hrest

theorem natAbs_veq {x1 x2 : LinComb} (h : vEq x1 x2) : x1.value.natAbs = x2.value.natAbs := by
  have h' : x1.value = x2.value := h
  rw [h']

theorem callMeth_lcb_tr0 (m : Meth) {x1 x2 : LinComb} (h : vEq x1 x2) :
    Tr VRel (callMeth m (.lcb x1) []) (callMeth m (.lcb x2) []) := by
  cases m <;> simp only [callMeth, List.isEmpty_nil, List.isEmpty_cons, if_true, Bool.false_eq_true, if_false] <;> trv

theorem callMeth_lcb_tr1 (m : Meth) {x1 x2 : LinComb} (h : vEq x1 x2) {a1 a2 : Val} (h1 : VRel a1 a2) :
    Tr VRel (callMeth m (.lcb x1) [a1]) (callMeth m (.lcb x2) [a2]) := by
  cases m <;> simp only [callMeth, List.isEmpty_nil, List.isEmpty_cons, if_true, Bool.false_eq_true, if_false] <;> trv

theorem callMeth_lcb_tr2 (m : Meth) {x1 x2 : LinComb} (h : vEq x1 x2) {a1 a2 b1 b2 : Val} (h1 : VRel a1 a2) (h2 : VRel b1 b2) :
    Tr VRel (callMeth m (.lcb x1) [a1, b1]) (callMeth m (.lcb x2) [a2, b2]) := by
  cases m <;> simp only [callMeth, List.isEmpty_nil, List.isEmpty_cons, if_true, Bool.false_eq_true, if_false] <;> trv

theorem callMeth_lcb_tr3 (m : Meth) {x1 x2 : LinComb} (h : vEq x1 x2) {a1 a2 b1 b2 c1 c2 : Val} {r1 r2 : List Val} (h1 : VRel a1 a2) (h2 : VRel b1 b2) (h3 : VRel c1 c2) (hr : Forall2 VRel r1 r2) :
    Tr VRel (callMeth m (.lcb x1) (a1 :: b1 :: c1 :: r1)) (callMeth m (.lcb x2) (a2 :: b2 :: c2 :: r2)) := by
  cases m <;> simp only [callMeth, List.isEmpty_nil, List.isEmpty_cons, if_true, Bool.false_eq_true, if_false] <;> trv

theorem callMeth_lcb_tr (m : Meth) {x1 x2 : LinComb} (h : vEq x1 x2) {as1 as2 : List Val}
    (has : Forall2 VRel as1 as2) : Tr VRel (callMeth m (.lcb x1) as1) (callMeth m (.lcb x2) as2) := by
  rcases has with _ | ⟨h1, _ | ⟨h2, _ | ⟨h3, hrest⟩⟩⟩
  · exact callMeth_lcb_tr0 m h
  · exact callMeth_lcb_tr1 m h h1
  · exact callMeth_lcb_tr2 m h h1 h2
  · exact callMeth_lcb_tr3 m h h1 h2 h3 hrest

theorem callMeth_fxp_tr0 (m : Meth) {x1 x2 : LinComb} (h : vEq x1 x2) :
    Tr VRel (callMeth m (.fxp x1) []) (callMeth m (.fxp x2) []) := by
  cases m <;> simp only [callMeth, List.isEmpty_nil, List.isEmpty_cons, if_true, Bool.false_eq_true, if_false] <;> trv

theorem callMeth_fxp_tr1 (m : Meth) {x1 x2 : LinComb} (h : vEq x1 x2) {a1 a2 : Val} (h1 : VRel a1 a2) :
    Tr VRel (callMeth m (.fxp x1) [a1]) (callMeth m (.fxp x2) [a2]) := by
  cases m <;> simp only [callMeth, List.isEmpty_nil, List.isEmpty_cons, if_true, Bool.false_eq_true, if_false] <;> trv

theorem callMeth_fxp_tr2 (m : Meth) {x1 x2 : LinComb} (h : vEq x1 x2) {a1 a2 b1 b2 : Val} (h1 : VRel a1 a2) (h2 : VRel b1 b2) :
    Tr VRel (callMeth m (.fxp x1) [a1, b1]) (callMeth m (.fxp x2) [a2, b2]) := by
  cases m <;> simp only [callMeth, List.isEmpty_nil, List.isEmpty_cons, if_true, Bool.false_eq_true, if_false] <;> trv

theorem callMeth_fxp_tr3 (m : Meth) {x1 x2 : LinComb} (h : vEq x1 x2) {a1 a2 b1 b2 c1 c2 : Val} {r1 r2 : List Val} (h1 : VRel a1 a2) (h2 : VRel b1 b2) (h3 : VRel c1 c2) (hr : Forall2 VRel r1 r2) :
    Tr VRel (callMeth m (.fxp x1) (a1 :: b1 :: c1 :: r1)) (callMeth m (.fxp x2) (a2 :: b2 :: c2 :: r2)) := by
  cases m <;> simp only [callMeth, List.isEmpty_nil, List.isEmpty_cons, if_true, Bool.false_eq_true, if_false] <;> trv

theorem callMeth_fxp_tr (m : Meth) {x1 x2 : LinComb} (h : vEq x1 x2) {as1 as2 : List Val}
    (has : Forall2 VRel as1 as2) : Tr VRel (callMeth m (.fxp x1) as1) (callMeth m (.fxp x2) as2) := by
  rcases has with _ | ⟨h1, _ | ⟨h2, _ | ⟨h3, hrest⟩⟩⟩
  · exact callMeth_fxp_tr0 m h
  · exact callMeth_fxp_tr1 m h h1
  · exact callMeth_fxp_tr2 m h h1 h2
  · exact callMeth_fxp_tr3 m h h1 h2 h3 hrest

theorem callMeth_tr (m : Meth) {x1 x2 : Val} (hx : VRel x1 x2) {as1 as2 : List Val}
    (has : Forall2 VRel as1 as2) : Tr VRel (callMeth m x1 as1) (callMeth m x2 as2) := by
  cases hx with
  | none => simp only [callMeth]; exact Tr.raise _
  | int => simp only [callMeth]; exact Tr.raise _
  | flt => simp only [callMeth]; exact Tr.raise _
  | tuple => simp only [callMeth]; exact Tr.raise _
  | list h => cases m <;> simp only [callMeth] <;> trv
  | lc h => exact callMeth_lc_tr m h has
  | lcb h => exact callMeth_lcb_tr m h has
  | fxp h => exact callMeth_fxp_tr m h has


/-! ## arrays -/
theorem sumBools_foldl_veq {l1 l2 : List LinComb} (h : Forall2 vEq l1 l2) :
    ∀ {a1 a2 : LinComb}, vEq a1 a2 →
      vEq (l1.foldl (fun acc x => x.add acc) a1) (l2.foldl (fun acc x => x.add acc) a2) := by
  induction h with
  | nil => intro a1 a2 ha; exact ha
  | cons hxy _ ih =>
    intro a1 a2 ha
    simp only [List.foldl_cons]
    refine ih ?_
    have h1 : _ = _ := hxy
    have h2 : _ = _ := ha
    simp only [vEq, add_value, h1, h2]

theorem sumBools_veq {l1 l2 : List LinComb} (h : Forall2 vEq l1 l2) : OptRel vEq (sumBools l1) (sumBools l2) := by
  cases h with
  | nil => exact .none
  | cons hxy ht =>
    refine .some (sumBools_foldl_veq ht ?_)
    have h1 : _ = _ := hxy
    simp only [vEq, addI_value, h1]

theorem oneHot_tr {it1 it2 : LinComb} (hit : vEq it1 it2) : ∀ (n i : Nat),
    Tr (Forall2 vEq) (oneHot it1 i n) (oneHot it2 i n)
  | 0, i => by simp only [oneHot]; exact Tr.pure .nil
  | n+1, i => by
    have ih := oneHot_tr hit n (i+1)
    simp only [oneHot]
    trv

theorem foldlM_addV_tr {ps1 ps2 : List Val} (h : Forall2 VRel ps1 ps2) :
    ∀ {a1 a2 : Val}, VRel a1 a2 →
      Tr VRel (ps1.foldlM (fun acc x => addV acc x) a1) (ps2.foldlM (fun acc x => addV acc x) a2) := by
  induction h with
  | nil => intro a1 a2 ha; simp only [List.foldlM_nil]; exact Tr.pure ha
  | cons hxy _ ih =>
    intro a1 a2 ha
    simp only [List.foldlM_cons]
    exact Tr.bind (addV_tr ha hxy) (fun _ _ hr => ih hr)

theorem linComb_tr {ixs1 ixs2 : List LinComb} (hix : Forall2 vEq ixs1 ixs2) {arr1 arr2 : List Val}
    (harr : Forall2 VRel arr1 arr2) : Tr VRel (linComb ixs1 arr1) (linComb ixs2 arr2) := by
  unfold linComb
  refine Tr.bind (mapM'_tr (Q := VRel) ?_ (Forall2.zip hix harr)) ?_
  · intro p q hpq
    exact mulLV_tr hpq.1 hpq.2
  · intro ps1 ps2 hps
    cases hps with
    | nil => exact Tr.pure (.int 0)
    | cons hp hps' =>
      dsimp only
      exact Tr.bind (addV_tr (.int 0) hp) (fun _ _ hr => foldlM_addV_tr hps' hr)

theorem arrayCheck_tr {it1 it2 : LinComb} (hit : vEq it1 it2) (n : Nat) :
    Tr (fun _ _ => True) (arrayCheck it1 n) (arrayCheck it2 n) := by
  have h' : it1.value = it2.value := hit
  unfold arrayCheck
  exact Tr.iteErr (fun s1 s2 hs => by rw [hs.ign, h']) (Tr.ok trivial)

theorem arrayIxs_tr {it1 it2 : LinComb} (hit : vEq it1 it2) (n : Nat) :
    Tr (Forall2 vEq) (arrayIxs it1 n) (arrayIxs it2 n) := by
  unfold arrayIxs
  refine Tr.bind (arrayCheck_tr hit _) (fun _ _ _ => ?_)
  refine Tr.bind (oneHot_tr hit n 0) (fun ixs1 ixs2 hixs => ?_)
  have h := sumBools_veq hixs
  revert h
  generalize sumBools ixs1 = o1
  generalize sumBools ixs2 = o2
  intro h
  cases h with
  | none => exact Tr.raise _
  | some hs =>
    dsimp only
    refine Tr.bind (ensurelcI_tr 1) (fun one1 one2 hone => ?_)
    exact Tr.bind (assertEq_tr hs hone) (fun _ _ _ => Tr.pure hixs)

theorem arrayGet_tr {arr1 arr2 : List Val} (harr : Forall2 VRel arr1 arr2) {it1 it2 : Val} (hit : VRel it1 it2) :
    Tr VRel (arrayGet arr1 it1) (arrayGet arr2 it2) := by
  unfold arrayGet
  cases hit with
  | int i =>
    dsimp only
    rw [harr.length_eq]
    cases pyIndex arr2.length i with
    | none => exact Tr.raise _
    | some k =>
      dsimp only
      cases h1 : arr1[k]? with
      | none =>
        have : arr2[k]? = none := by
          rw [List.getElem?_eq_none_iff] at h1 ⊢
          rw [← harr.length_eq]; exact h1
        rw [this]; exact Tr.raise _
      | some v1 =>
        cases h2 : arr2[k]? with
        | none =>
          rw [List.getElem?_eq_none_iff, ← harr.length_eq, ← List.getElem?_eq_none_iff] at h2
          rw [h2] at h1; cases h1
        | some v2 => exact Tr.pure (harr.getElem? k h1 h2)
  | lc h =>
    dsimp only
    rw [harr.length_eq]
    exact Tr.bind (arrayIxs_tr h _) (fun _ _ hix => linComb_tr hix harr)
  | _ => exact Tr.tyErr

theorem arraySet_tr {arr1 arr2 : List Val} (harr : Forall2 VRel arr1 arr2) {it1 it2 : Val} (hit : VRel it1 it2)
    {v1 v2 : Val} (hv : VRel v1 v2) :
    Tr (Forall2 VRel) (arraySet arr1 it1 v1) (arraySet arr2 it2 v2) := by
  unfold arraySet
  cases hit with
  | int i =>
    dsimp only
    rw [harr.length_eq]
    cases pyIndex arr2.length i with
    | none => exact Tr.raise _
    | some k => exact Tr.pure (harr.set k hv)
  | lc h =>
    dsimp only
    rw [harr.length_eq]
    refine Tr.bind (arrayIxs_tr h _) (fun _ _ hix => ?_)
    refine mapM'_tr ?_ (Forall2.zip hix harr)
    intro p q hpq
    exact ifThenElse_tr (.lcb hpq.1) false hv hpq.2
  | _ => exact Tr.tyErr

end Pysnark
