import PysnarkModel.Lemmas.GuardedTransparentOps
/-!
# Transparency of a true guard: powers, shifts, bitwise operators, comparisons, selection, unary
operators, constructors, methods, arrays
-/
namespace Pysnark

/-! ## power -/
theorem powXN_tr {x1 x2 : LinComb} (hx : vEq x1 x2) : ∀ n : Nat, Tr vEq (powXN x1 n) (powXN x2 n)
  | 0 => by simp only [powXN]; trv
  | 1 => by simp only [powXN]; exact Tr.pure hx
  | n+2 => by
    have ih := powXN_tr hx (n+1)
    simp only [powXN]
    trv
macro_rules | `(tactic| tr_rule) => `(tactic| with_reducible apply powXN_tr)

theorem powV_tr {a1 a2 b1 b2 : Val} (ha : VRel a1 a2) (hb : VRel b1 b2) : Tr VRel (powV a1 b1) (powV a2 b2) := by
  cases ha <;> cases hb <;> simp only [powV] <;> trv
macro_rules | `(tactic| tr_rule) => `(tactic| with_reducible apply powV_tr)

/-! ## shifts -/
theorem lshiftLV_tr {x1 x2 : LinComb} (hx : vEq x1 x2) {o1 o2 : Val} (ho : VRel o1 o2) :
    Tr VRel (lshiftLV x1 o1) (lshiftLV x2 o2) := by
  cases ho <;> simp only [lshiftLV] <;> trv

theorem rshiftLV_tr {x1 x2 : LinComb} (hx : vEq x1 x2) {o1 o2 : Val} (ho : VRel o1 o2) :
    Tr VRel (rshiftLV x1 o1) (rshiftLV x2 o2) := by
  cases ho <;> simp only [rshiftLV] <;> trv

theorem mkFxpNoScale_tr {v1 v2 : Val} (hv : VRel v1 v2) : Tr VRel (mkFxpNoScale v1) (mkFxpNoScale v2) := by
  unfold mkFxpNoScale
  cases hv <;> trv
macro_rules | `(tactic| tr_rule) => `(tactic| first
  | with_reducible apply lshiftLV_tr | with_reducible apply rshiftLV_tr | with_reducible apply mkFxpNoScale_tr)

theorem lshiftV_tr {a1 a2 b1 b2 : Val} (ha : VRel a1 a2) (hb : VRel b1 b2) :
    Tr VRel (lshiftV a1 b1) (lshiftV a2 b2) := by
  cases ha <;> cases hb <;> simp only [lshiftV] <;> trv

theorem rshiftV_tr {a1 a2 b1 b2 : Val} (ha : VRel a1 a2) (hb : VRel b1 b2) :
    Tr VRel (rshiftV a1 b1) (rshiftV a2 b2) := by
  cases ha <;> cases hb <;> simp only [rshiftV] <;> trv
macro_rules | `(tactic| tr_rule) => `(tactic| first
  | with_reducible apply lshiftV_tr | with_reducible apply rshiftV_tr)


/-! ## bitwise / logical -/
theorem Forall2.isEmpty_eq' {α β : Type} {R : α → β → Prop} {l1 : List α} {l2 : List β} (h : Forall2 R l1 l2) :
    l1.isEmpty = l2.isEmpty := by
  cases h <;> rfl

theorem truthy_tr {v1 v2 : Val} (hv : VRel v1 v2) : Tr Eq (truthy v1) (truthy v2) := by
  cases hv with
  | list h => simp only [truthy, Forall2.isEmpty_eq' h]; exact Tr.pure rfl
  | tuple h => simp only [truthy, Forall2.isEmpty_eq' h]; exact Tr.pure rfl
  | _ => simp only [truthy] <;> trv
macro_rules | `(tactic| tr_rule) => `(tactic| with_reducible apply truthy_tr)

theorem bwBV_tr (op : BW) {x1 x2 : LinComb} (hx : vEq x1 x2) {o1 o2 : Val} (ho : VRel o1 o2) :
    Tr VRel (bwBV op x1 o1) (bwBV op x2 o2) := by
  cases ho <;> cases op <;> simp only [bwBV] <;> trv
macro_rules | `(tactic| tr_rule) => `(tactic| with_reducible apply bwBV_tr)

theorem bwLV_tr (op : BW) {x1 x2 : LinComb} (hx : vEq x1 x2) {o1 o2 : Val} (ho : VRel o1 o2) :
    Tr VRel (bwLV op x1 o1) (bwLV op x2 o2) := by
  cases ho <;> cases op <;> simp only [bwLV] <;> trv
macro_rules | `(tactic| tr_rule) => `(tactic| with_reducible apply bwLV_tr)

theorem bwV_tr (op : BW) {a1 a2 b1 b2 : Val} (ha : VRel a1 a2) (hb : VRel b1 b2) :
    Tr VRel (bwV op a1 b1) (bwV op a2 b2) := by
  cases ha <;> cases hb <;> simp only [bwV] <;> trv
macro_rules | `(tactic| tr_rule) => `(tactic| with_reducible apply bwV_tr)

/-! ## comparisons -/
theorem checkPositiveV_tr {v1 v2 : Val} (hv : VRel v1 v2) : Tr VRel (checkPositiveV v1) (checkPositiveV v2) := by
  cases hv <;> simp only [checkPositiveV] <;> trv
theorem checkZeroV_tr {v1 v2 : Val} (hv : VRel v1 v2) : Tr VRel (checkZeroV v1) (checkZeroV v2) := by
  cases hv <;> simp only [checkZeroV] <;> trv
theorem checkNonzeroV_tr {v1 v2 : Val} (hv : VRel v1 v2) : Tr VRel (checkNonzeroV v1) (checkNonzeroV v2) := by
  cases hv <;> simp only [checkNonzeroV] <;> trv
macro_rules | `(tactic| tr_rule) => `(tactic| first
  | with_reducible apply checkPositiveV_tr | with_reducible apply checkZeroV_tr
  | with_reducible apply checkNonzeroV_tr)

theorem cmpLV_tr (op : Cmp) {x1 x2 : LinComb} (hx : vEq x1 x2) {o1 o2 : Val} (ho : VRel o1 o2) :
    Tr VRel (cmpLV op x1 o1) (cmpLV op x2 o2) := by
  cases op <;> simp only [cmpLV] <;> trv

theorem cmpLL_tr (op : Cmp) {x1 x2 y1 y2 : LinComb} (hx : vEq x1 x2) (hy : vEq y1 y2) :
    Tr vEq (cmpLL op x1 y1) (cmpLL op x2 y2) := by
  cases op <;> simp only [cmpLL] <;> trv
macro_rules | `(tactic| tr_rule) => `(tactic| first
  | with_reducible apply cmpLV_tr | with_reducible apply cmpLL_tr)

theorem cmpV_tr (op : Cmp) {a1 a2 b1 b2 : Val} (ha : VRel a1 a2) (hb : VRel b1 b2) :
    Tr VRel (cmpV op a1 b1) (cmpV op a2 b2) := by
  cases ha <;> cases hb <;> simp only [cmpV] <;> trv
macro_rules | `(tactic| tr_rule) => `(tactic| with_reducible apply cmpV_tr)

end Pysnark
