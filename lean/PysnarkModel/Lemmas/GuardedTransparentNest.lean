import PysnarkModel.Lemmas.GuardedTransparentRun
import PysnarkModel.Lemmas.Triple
/-!
# Transparency of a true guard: regions nested in the transparent region, and the code after it

Part 1 (`runAux_same`): the SAME program run from two configurations whose states agree on
everything observable and whose active guards (if any) have the same value: same outcome.  This is
what happens after the transparent region has been left, and inside regions nested in it.

Part 2 (`runAux_nest`): the guarded text against the text with the outer markers replaced by no-ops,
for bodies that contain regions themselves.
-/
namespace Pysnark

/-- the two states agree on everything observable and their active guards have the same value -/
structure GRel (s1 s2 : St) : Prop where
  tr : TRel s1 s2
  guard : OptRel vEq s1.guard s2.guard

/-- two saved frames that restore `GRel`-related states -/
structure BakPair (b1 b2 : GuardBak) : Prop where
  guard : OptRel vEq b1.guard b2.guard
  ign : b1.ignoreErrors = b2.ignoreErrors
  one : vEq b1.one b2.one

theorem optRel_isGuard {g1 g2 : Option LinComb} (h : OptRel vEq g1 g2) {s1 s2 : St} (h1 : s1.guard = g1)
    (h2 : s2.guard = g2) : s1.isGuard = s2.isGuard := by
  unfold St.isGuard
  rw [h1, h2]
  cases h with
  | none => rfl
  | some hv => have hv' : _ = _ := hv; simp only [hv']

theorem GRel.same {s1 s2 t1 t2 : St} (h : GRel s1 s2) (k1 : Same s1 t1) (k2 : Same s2 t2) : GRel t1 t2 :=
  ⟨h.tr.same k1 k2, by rw [k1.guard, k2.guard]; exact h.guard⟩

theorem GRel.restore {s1 s2 : St} {b1 b2 : GuardBak} (h : TRel s1 s2) (hb : BakPair b1 b2) :
    GRel (restoreSt b1 s1) (restoreSt b2 s2) :=
  ⟨⟨optRel_isGuard hb.guard rfl rfl, hb.ign, hb.one, h.bl, h.res, h.p⟩, hb.guard⟩

theorem optRel_refl : ∀ (g : Option LinComb), OptRel vEq g g
  | none => .none
  | some _ => .some rfl

theorem BakPair.refl (b : GuardBak) : BakPair b b := ⟨optRel_refl _, rfl, rfl⟩

/-! ## `add_guard` from related states -/
/-- outcome of `add_guard` in the two runs -/
def AddGuardOut (s1 : St) (r1 r2 : Except Err (GuardBak × St)) : Prop :=
  match r1, r2 with
  | .ok (b1, t1), .ok (b2, t2) => BakPair b1 b2 ∧ GRel t1 t2 ∧ t1.bitlength = s1.bitlength
  | .error e1, .error e2 => e1 = e2
  | _, _ => False

theorem addGuardCore_lc_same {s1 s2 : St} (hs : GRel s1 s2) {c1 c2 : LinComb} (hc : vEq c1 c2) :
    AddGuardOut s1 (addGuardCore (.lc c1) s1) (addGuardCore (.lc c2) s2) := by
  have hc' : c1.value = c2.value := hc
  have hbak : BakPair ⟨s1.guard, s2.ignoreErrors, s1.one⟩ ⟨s2.guard, s2.ignoreErrors, s2.one⟩ :=
    ⟨hs.guard, rfl, hs.tr.one⟩
  unfold addGuardCore
  dsimp only
  rw [hs.tr.ign, hc']
  split
  · exact rfl
  · have hg := hs.guard
    revert hg
    cases hg1 : s1.guard <;> cases hg2 : s2.guard <;> intro hg
    · -- no guard in either run
      dsimp only
      refine ⟨by rw [hg1, hg2] at hbak; exact hbak, ⟨?_, .some hc⟩, rfl⟩
      exact ⟨by simp [St.isGuard, hc'], by simp [hs.tr.ign], hc, hs.tr.bl, hs.tr.res, hs.tr.p⟩
    · cases hg
    · cases hg
    · -- a guard in both runs, same value: the AND gadget in both
      rename_i g1 g2
      have hgv : vEq g1 g2 := by cases hg with | some h => exact h
      dsimp only
      have htr := bwLV_tr .and hgv (VRel.lc hc) s1 s2 hs.tr
      cases h1 : bwLV .and g1 (.lc c1) s1 with
      | error e1 =>
        cases h2 : bwLV .and g2 (.lc c2) s2 with
        | error e2 => rw [h1, h2] at htr; exact htr
        | ok r2 => rw [h1, h2] at htr; exact htr.elim
      | ok r1 =>
        obtain ⟨v1, t1⟩ := r1
        cases h2 : bwLV .and g2 (.lc c2) s2 with
        | error e2 => rw [h1, h2] at htr; exact htr.elim
        | ok r2 =>
          obtain ⟨v2, t2⟩ := r2
          rw [h1, h2] at htr
          obtain ⟨hv, k1, k2⟩ := htr
          cases hv with
          | lc hg' =>
            dsimp only
            have hg'' : _ = _ := hg'
            refine ⟨by rw [hg1, hg2] at hbak; exact hbak, ⟨?_, .some hg'⟩, k1.bl⟩
            have ht := hs.tr.same k1 k2
            exact ⟨by simp [St.isGuard, hg''], by simp [ht.ign], hg', ht.bl, ht.res, ht.p⟩
          | _ => exact rfl

theorem addGuard_same {s1 s2 : St} (hs : GRel s1 s2) {cv1 cv2 : Val} (hc : VRel cv1 cv2) :
    AddGuardOut s1 (addGuard cv1 s1) (addGuard cv2 s2) := by
  unfold addGuard
  cases hc with
  | lc h => exact addGuardCore_lc_same hs h
  | lcb h => exact addGuardCore_lc_same hs h
  | int c =>
    simp only [unwrapBoolCond, addGuardCore]
    split
    · exact rfl
    · split
      · exact rfl
      · exact ⟨⟨hs.guard, hs.tr.ign, hs.tr.one⟩, hs, rfl⟩
  | _ => exact rfl


/-! ## one instruction, any instruction, from `GRel`-related configurations -/
def StepOut (r1 r2 : Except Err ((Val × List Val × List GuardBak) × St)) : Prop :=
  match r1, r2 with
  | .ok ((v1, rs1, f1), t1), .ok ((v2, rs2, f2), t2) =>
    VRel v1 v2 ∧ Forall2 VRel rs1 rs2 ∧ Forall2 BakPair f1 f2 ∧ GRel t1 t2
  | .error e1, .error e2 => e1 = e2
  | _, _ => False

theorem step_genter_eq {regs : List Val} {frames : List GuardBak} {c : Nat} {s : St} {cv : Val}
    (h : regs[c]? = some cv) :
    step regs frames (.genter c) s =
      (match addGuard cv s with
        | .ok (bak, s') => .ok ((.none, regs, bak :: frames), s')
        | .error e => .error e) := by
  simp only [step, getReg, h]
  change M.bind (M.pure cv) _ s = _
  simp only [M.bind, M.pure]
  change M.bind (addGuard cv) _ s = _
  simp only [M.bind]
  cases addGuard cv s with
  | error e => rfl
  | ok r => obtain ⟨bak, s'⟩ := r; rfl

theorem step_genter_none {regs : List Val} {frames : List GuardBak} {c : Nat} {s : St}
    (h : regs[c]? = none) : step regs frames (.genter c) s = .error .unmodelled := by
  simp only [step, getReg, h]
  rfl

theorem step_same {regs1 regs2 : List Val} {frames1 frames2 : List GuardBak} {s1 s2 : St} (hs : GRel s1 s2)
    (hregs : Forall2 VRel regs1 regs2) (hf : Forall2 BakPair frames1 frames2) (i : Instr) :
    StepOut (step regs1 frames1 i s1) (step regs2 frames2 i s2) := by
  by_cases hpure : i.isPureOp = true
  · have h := step_body_tr hregs frames1 frames2 hpure s1 s2 hs.tr
    cases h1 : step regs1 frames1 i s1 with
    | error e1 =>
      cases h2 : step regs2 frames2 i s2 with
      | error e2 => rw [h1, h2] at h; exact h
      | ok r2 => rw [h1, h2] at h; exact h.elim
    | ok r1 =>
      obtain ⟨⟨v1, rs1, f1⟩, t1⟩ := r1
      cases h2 : step regs2 frames2 i s2 with
      | error e2 => rw [h1, h2] at h; exact h.elim
      | ok r2 =>
        obtain ⟨⟨v2, rs2, f2⟩, t2⟩ := r2
        rw [h1, h2] at h
        obtain ⟨⟨hv, hr, hf1, hf2⟩, k1, k2⟩ := h
        dsimp only at hv hr hf1 hf2
        subst hf1; subst hf2
        exact ⟨hv, hr, hf, hs.same k1 k2⟩
  · cases i
    case genter c =>
      cases h1 : regs1[c]? with
      | none =>
        rw [step_genter_none h1, step_genter_none ((forall2_getElem?_none hregs c).mp h1)]
        exact rfl
      | some cv1 =>
        cases h2 : regs2[c]? with
        | none => rw [(forall2_getElem?_none hregs c).mpr h2] at h1; cases h1
        | some cv2 =>
          rw [step_genter_eq h1, step_genter_eq h2]
          have := addGuard_same hs (hregs.getElem? c h1 h2)
          cases ha1 : addGuard cv1 s1 with
          | error e1 =>
            cases ha2 : addGuard cv2 s2 with
            | error e2 => rw [ha1, ha2] at this; exact this
            | ok r2 => rw [ha1, ha2] at this; exact this.elim
          | ok r1 =>
            obtain ⟨b1, t1⟩ := r1
            cases ha2 : addGuard cv2 s2 with
            | error e2 => rw [ha1, ha2] at this; exact this.elim
            | ok r2 =>
              obtain ⟨b2, t2⟩ := r2
              rw [ha1, ha2] at this
              exact ⟨.none, hregs, .cons this.1 hf, this.2.1⟩
    case gleave =>
      cases hf with
      | nil => exact rfl
      | cons hb hrest =>
        simp only [step, restoreGuard, pure, M.pure, bind, M.bind]
        exact ⟨.none, hregs, hrest, GRel.restore hs.tr hb⟩
    case setBl n =>
      simp only [step, modifySt, pure, M.pure, bind, M.bind]
      exact ⟨.none, hregs, hf, ⟨⟨hs.tr.isG, hs.tr.ign, hs.tr.one, rfl, hs.tr.res, hs.tr.p⟩, hs.guard⟩⟩
    case setRes n =>
      simp only [step, modifySt, pure, M.pure, bind, M.bind]
      exact ⟨.none, hregs, hf, ⟨⟨hs.tr.isG, hs.tr.ign, hs.tr.one, hs.tr.bl, rfl, hs.tr.p⟩, hs.guard⟩⟩
    case setIgn b =>
      simp only [step, modifySt, pure, M.pure, bind, M.bind]
      exact ⟨.none, hregs, hf, ⟨⟨hs.tr.isG, rfl, hs.tr.one, hs.tr.bl, hs.tr.res, hs.tr.p⟩, hs.guard⟩⟩
    all_goals simp [Instr.isPureOp] at hpure

theorem unwind_pairs : ∀ {f1 f2 : List GuardBak}, Forall2 BakPair f1 f2 → ∀ {a b : St}, TRel a b →
    TRel (unwind a f1) (unwind b f2)
  | _, _, .nil, _, _, h => h
  | _, _, .cons hb ht, a, b, h => by
    simp only [unwind]
    exact unwind_pairs ht (GRel.restore h hb).tr

/-- **the same program from related configurations ends alike** (all instructions, including
regions and configuration changes) -/
theorem runAux_same : ∀ (is : List Instr) (k : Nat) (regs1 regs2 : List Val) (frames1 frames2 : List GuardBak)
    (s1 s2 : St), GRel s1 s2 → Forall2 VRel regs1 regs2 → Forall2 BakPair frames1 frames2 →
    OutRel (runAux is k regs1 frames1 s1) (runAux is k regs2 frames2 s2)
  | [], k, regs1, regs2, frames1, frames2, s1, s2, hs, hregs, _ => by
    simp only [runAux]
    exact ⟨rfl, hregs, hs.tr⟩
  | i :: is, k, regs1, regs2, frames1, frames2, s1, s2, hs, hregs, hf => by
    have h := step_same hs hregs hf i
    unfold runAux
    cases h1 : step regs1 frames1 i s1 with
    | error e1 =>
      cases h2 : step regs2 frames2 i s2 with
      | error e2 =>
        rw [h1, h2] at h
        have : e1 = e2 := h
        subst this
        exact ⟨rfl, hregs, unwind_pairs hf hs.tr⟩
      | ok r2 => rw [h1, h2] at h; exact h.elim
    | ok r1 =>
      obtain ⟨⟨v1, rs1, f1⟩, t1⟩ := r1
      cases h2 : step regs2 frames2 i s2 with
      | error e2 => rw [h1, h2] at h; exact h.elim
      | ok r2 =>
        obtain ⟨⟨v2, rs2, f2⟩, t2⟩ := r2
        rw [h1, h2] at h
        obtain ⟨hv, hr, hf', ht⟩ := h
        exact runAux_same is (k+1) _ _ _ _ t1 t2 ht (forall2_snoc hr hv) hf'


/-! ## entering a region nested directly in the transparent region -/
theorem mapM'_mulBB_total : ∀ (l : List (LinComb × LinComb)) (s : St),
    ∃ rs s', mapM' (fun xy => mulBB xy.1 xy.2) l s = .ok (rs, s') ∧ rs.length = l.length
  | [], s => ⟨[], s, rfl, rfl⟩
  | xy :: l, s => by
    obtain ⟨r, s1, h1⟩ := mulLL_total xy.2 xy.1 s
    obtain ⟨rs, s2, h2, hl⟩ := mapM'_mulBB_total l s1
    refine ⟨r :: rs, s2, ?_, by simp [hl]⟩
    unfold mapM'
    exact bind_ok.mpr ⟨r, s1, h1, bind_ok.mpr ⟨rs, s2, h2, rfl⟩⟩

/-- without a guard, `a & b` of two in-range values at a bit length ≥ 1 returns a `LinComb` -/
theorem andLL_total_some {s : St} {a b : LinComb} (hg : s.guard = none) (ha0 : 0 ≤ a.value)
    (hab : Py.bitLength a.value ≤ s.bitlength) (hb0 : 0 ≤ b.value) (hbb : Py.bitLength b.value ≤ s.bitlength)
    (hbl : 1 ≤ s.bitlength) : ∃ r s', andLL a b s = .ok (some r, s') := by
  obtain ⟨ab, s1, h1, sm1⟩ := toBits_total (bits := none) hg ha0 hab
  obtain ⟨bb, s2, h2, sm2⟩ := toBits_total (bits := none) (sm1.guard_none hg) hb0 (by
    simp only [Option.getD_none, sm1.bl]; exact hbb)
  have l1 : ab.length = s.bitlength := by simpa using toBits_length h1
  have l2 : bb.length = s.bitlength := by
    have := toBits_length h2
    simpa [sm1.bl] using this
  obtain ⟨rs, s3, h3, hl⟩ := mapM'_mulBB_total (ab.zip bb) s2
  have hne : rs ≠ [] := by
    intro h0
    rw [h0] at hl
    simp only [List.length_nil, List.length_zip, l1, l2] at hl
    omega
  cases rs with
  | nil => exact absurd rfl hne
  | cons r rs' =>
    refine ⟨fromBitsAux rs' 1 ((r.mulI 1).addI 0), s3, ?_⟩
    unfold andLL
    exact bind_ok.mpr ⟨ab, s1, h1, bind_ok.mpr ⟨bb, s2, h2, bind_ok.mpr ⟨_, s3, h3, rfl⟩⟩⟩

theorem bitLength_zero_one {v : Int} (h : v = 0 ∨ v = 1) {n : Nat} (hn : 1 ≤ n) : Py.bitLength v ≤ n := by
  rcases h with rfl | rfl
  · simp [Py.bitLength]
  · have : Py.bitLength 1 = 1 := by decide
    rw [this]; exact hn

/-- what the two runs hold directly inside the transparent region (inner depth 0): no guard in the
unguarded run, a guard of value 1 in the guarded run, errors not ignored, bit length ≥ 1 -/
structure St0 (s1 s2 : St) : Prop where
  tr : TRel s1 s2
  g1 : s1.guard = none
  g2 : ∃ g, s2.guard = some g ∧ g.value = 1
  ign : s1.ignoreErrors = false
  bl : 1 ≤ s1.bitlength

/-- the pair of frames saved when a region is entered from inner depth 0 -/
structure Pair0 (b1 b2 : GuardBak) : Prop where
  g1 : b1.guard = none
  g2 : ∃ g, b2.guard = some g ∧ g.value = 1
  i1 : b1.ignoreErrors = false
  i2 : b2.ignoreErrors = false
  one : b1.one.value = b2.one.value

def AddGuardOut0 (r1 r2 : Except Err (GuardBak × St)) : Prop :=
  match r1, r2 with
  | .ok (b1, t1), .ok (b2, t2) => Pair0 b1 b2 ∧ (GRel t1 t2 ∨ St0 t1 t2) ∧ 1 ≤ t1.bitlength
  | .error e1, .error e2 => e1 = e2
  | _, _ => False

theorem addGuardCore_lc_depth0 {s1 s2 : St} (hs : St0 s1 s2) {c1 c2 : LinComb} (hc : vEq c1 c2) :
    AddGuardOut0 (addGuardCore (.lc c1) s1) (addGuardCore (.lc c2) s2) := by
  have hc' : c1.value = c2.value := hc
  obtain ⟨g, hg2, gv⟩ := hs.g2
  have hi2 : s2.ignoreErrors = false := hs.tr.ign ▸ hs.ign
  unfold addGuardCore
  dsimp only
  rw [hs.ign, hi2, hc']
  by_cases hcb : (c2.value != 0 && c2.value != 1) = true
  · simp only [Bool.not_false, Bool.true_and, hcb, if_true]
    exact rfl
  · have hcb' : (c2.value != 0 && c2.value != 1) = false := by simpa using hcb
    simp only [Bool.not_false, Bool.true_and, hcb', Bool.false_eq_true, if_false, hs.g1, hg2]
    have hc01 : c2.value = 0 ∨ c2.value = 1 := by
      by_cases h0 : c2.value = 0
      · exact Or.inl h0
      · right
        simp only [Bool.and_eq_false_iff, bne_eq_false_iff_eq] at hcb'
        exact hcb'.resolve_left h0
    have hbl2 : 1 ≤ s2.bitlength := hs.tr.bl ▸ hs.bl
    -- run the AND gadget in the unguarded state too, to learn that the guarded one succeeds
    obtain ⟨r1, t1, hand1⟩ := andLL_total_some (s := s1) (a := g) (b := c1) hs.g1 (by rw [gv]; norm_num)
      (bitLength_zero_one (Or.inr gv) hs.bl) (by rw [hc']; rcases hc01 with h | h <;> rw [h] <;> norm_num)
      (bitLength_zero_one (hc' ▸ hc01) hs.bl) hs.bl
    have htr := andLL_tr (a1 := g) (a2 := g) rfl hc s1 s2 hs.tr
    rw [hand1] at htr
    cases hand2 : andLL g c2 s2 with
    | error e => rw [hand2] at htr; exact htr.elim
    | ok r2 =>
      obtain ⟨o2, t2⟩ := r2
      rw [hand2] at htr
      obtain ⟨ho, -, k2⟩ := htr
      cases ho with
      | some hr =>
        rename_i r2'
        obtain ⟨-, -, -, -, -, hv⟩ := andLL_val hi2 hand2
        simp only [valFB, gv] at hv
        have hr2 : r2'.value = c2.value := by
          rw [hv]
          rcases hc01 with h | h <;> rw [h] <;> rfl
        have hbw : bwLV .and g (.lc c2) s2 = .ok (.lc r2', t2) := by
          simp only [bwLV]
          exact bind_ok.mpr ⟨_, _, hand2, rfl⟩
        rw [hbw]
        dsimp only
        refine ⟨⟨rfl, ⟨g, rfl, gv⟩, rfl, rfl, hs.tr.one⟩, Or.inl ⟨⟨?_, ?_, ?_, ?_, ?_, ?_⟩, .some ?_⟩, hs.bl⟩
        · simp [St.isGuard, hc', hr2]
        · simp [k2.ign, hi2]
        · exact hc'.trans hr2.symm
        · exact hs.tr.bl.trans k2.bl.symm
        · exact hs.tr.res.trans k2.res.symm
        · exact hs.tr.p.trans k2.p.symm
        · exact hc'.trans hr2.symm

theorem addGuard_depth0 {s1 s2 : St} (hs : St0 s1 s2) {cv1 cv2 : Val} (hc : VRel cv1 cv2) :
    AddGuardOut0 (addGuard cv1 s1) (addGuard cv2 s2) := by
  obtain ⟨g, hg2, gv⟩ := hs.g2
  unfold addGuard
  cases hc with
  | lc h => exact addGuardCore_lc_depth0 hs h
  | lcb h => exact addGuardCore_lc_depth0 hs h
  | int c =>
    simp only [unwrapBoolCond, addGuardCore]
    split
    · exact rfl
    · split
      · exact rfl
      · exact ⟨⟨hs.g1, ⟨g, hg2, gv⟩, hs.ign, hs.tr.ign ▸ hs.ign, hs.tr.one⟩, Or.inr hs, hs.bl⟩
  | _ => exact rfl


/-! ## the guarded text against its unguarded twin, with nested regions and code after the region -/

/-- the state relation anywhere inside the transparent region -/
def NRel (s1 s2 : St) : Prop := (GRel s1 s2 ∨ St0 s1 s2) ∧ 1 ≤ s1.bitlength

theorem NRel.tr {s1 s2 : St} (h : NRel s1 s2) : TRel s1 s2 := by
  rcases h.1 with h | h
  · exact h.tr
  · exact h.tr

theorem St0.same {s1 s2 t1 t2 : St} (h : St0 s1 s2) (k1 : Same s1 t1) (k2 : Same s2 t2) : St0 t1 t2 := by
  obtain ⟨g, hg, gv⟩ := h.g2
  exact ⟨h.tr.same k1 k2, by rw [k1.guard]; exact h.g1, ⟨g, by rw [k2.guard]; exact hg, gv⟩,
    by rw [k1.ign]; exact h.ign, by rw [k1.bl]; exact h.bl⟩

theorem NRel.same {s1 s2 t1 t2 : St} (h : NRel s1 s2) (k1 : Same s1 t1) (k2 : Same s2 t2) : NRel t1 t2 := by
  refine ⟨?_, by rw [k1.bl]; exact h.2⟩
  rcases h.1 with h | h
  · exact Or.inl (h.same k1 k2)
  · exact Or.inr (h.same k1 k2)

def NPair (b1 b2 : GuardBak) : Prop := BakPair b1 b2 ∨ Pair0 b1 b2

/-- the frames pushed since the transparent region was entered: pairwise related; the bottom pair
was saved at inner depth 0 -/
def Frames2 : List GuardBak → List GuardBak → Prop
  | [], [] => True
  | b1 :: f1, b2 :: f2 => (if f1 = [] then Pair0 b1 b2 else NPair b1 b2) ∧ Frames2 f1 f2
  | _, _ => False

theorem Frames2.nil_right {f2 : List GuardBak} (h : Frames2 [] f2) : f2 = [] := by
  cases f2 with
  | nil => rfl
  | cons b f => simp [Frames2] at h

/-- the value of `LinComb.ONE` the unguarded run returns to at inner depth 0 -/
def botOne (s1 : St) (inner1 : List GuardBak) : Int :=
  match inner1.getLast? with
  | none => s1.one.value
  | some b => b.one.value

structure NCfg (s1 s2 : St) (inner1 inner2 : List GuardBak) (bak0 : GuardBak) : Prop where
  st : NRel s1 s2
  top : inner1 = [] → St0 s1 s2
  frames : Frames2 inner1 inner2
  base : botOne s1 inner1 = bak0.one.value

theorem St0.restore {s1 s2 : St} {b1 b2 : GuardBak} (h : TRel s1 s2) (hbl : 1 ≤ s1.bitlength) (hb : Pair0 b1 b2) :
    St0 (restoreSt b1 s1) (restoreSt b2 s2) := by
  obtain ⟨g, hg, gv⟩ := hb.g2
  refine ⟨⟨?_, ?_, hb.one, h.bl, h.res, h.p⟩, hb.g1, ⟨g, hg, gv⟩, hb.i1, hbl⟩
  · simp [St.isGuard, restoreSt, hb.g1, hg, gv]
  · simp [restoreSt, hb.i1, hb.i2]

theorem unwind_append (s : St) : ∀ (xs ys : List GuardBak), unwind s (xs ++ ys) = unwind (unwind s xs) ys
  | [], _ => rfl
  | x :: xs, ys => by simp only [List.cons_append, unwind]; exact unwind_append _ xs ys

theorem unwind_last (s : St) : ∀ (xs : List GuardBak) (b : GuardBak), unwind s (xs ++ [b]) = restoreSt b (unwind s xs)
  | [], b => rfl
  | x :: xs, b => by simp only [List.cons_append, unwind]; exact unwind_last _ xs b

/-- the observable part of `unwind s inner`: the bottom frame's triple, or `s`'s own -/
theorem unwind_inner_trel {s1 s2 : St} {inner1 inner2 : List GuardBak} {bak0 : GuardBak}
    (h : NCfg s1 s2 inner1 inner2 bak0) (hg0 : bak0.guard = none) (hi0 : bak0.ignoreErrors = false) :
    TRel (unwind s1 inner1) (restoreSt bak0 (unwind s2 inner2)) := by
  have key : ∀ (t2 : St), t2.bitlength = s2.bitlength → t2.resolution = s2.resolution → t2.p = s2.p →
      ∀ (i1 : List GuardBak) (t1 : St), t1.bitlength = s1.bitlength → t1.resolution = s1.resolution → t1.p = s1.p →
      (i1 = [] → t1.guard = none ∧ t1.ignoreErrors = false) →
      (∀ b ∈ i1.getLast?, b.guard = none ∧ b.ignoreErrors = false) →
      (match i1.getLast? with | none => t1.one.value | some b => b.one.value) = bak0.one.value →
      TRel (unwind t1 i1) (restoreSt bak0 t2) := by
    intro t2 e1 e2 e3 i1
    induction i1 with
    | nil =>
      intro t1 f1 f2 f3 h0 _ hone
      obtain ⟨hg, hi⟩ := h0 rfl
      simp only [List.getLast?_nil] at hone
      exact ⟨by simp [St.isGuard, unwind, restoreSt, hg, hg0], by simp [unwind, restoreSt, hi, hi0],
        by simpa [unwind, restoreSt] using hone, by simp [unwind, restoreSt, f1, e1, h.st.tr.bl],
        by simp [unwind, restoreSt, f2, e2, h.st.tr.res], by simp [unwind, restoreSt, f3, e3, h.st.tr.p]⟩
    | cons b rest ih =>
      intro t1 f1 f2 f3 _ hlast hone
      simp only [unwind]
      refine ih _ f1 f2 f3 ?_ ?_ ?_
      · intro hr
        subst hr
        exact hlast b (by simp)
      · intro c hc
        apply hlast c
        cases rest with
        | nil => simp at hc
        | cons r rs => simpa [List.getLast?_cons_cons] using hc
      · cases rest with
        | nil => simpa using hone
        | cons r rs =>
          have hl : (r :: rs).getLast? = some ((r :: rs).getLast (by simp)) :=
            List.getLast?_eq_some_getLast (by simp)
          simp only [List.getLast?_cons_cons, hl] at hone ⊢
          exact hone
  have hbot : ∀ b ∈ inner1.getLast?, b.guard = none ∧ b.ignoreErrors = false := by
    have : ∀ (i1 i2 : List GuardBak), Frames2 i1 i2 → ∀ b ∈ i1.getLast?, b.guard = none ∧ b.ignoreErrors = false := by
      intro i1
      induction i1 with
      | nil => intro _ _ b hb; simp at hb
      | cons b1 f1 ih =>
        intro i2 hf b hb
        cases i2 with
        | nil => simp [Frames2] at hf
        | cons b2 f2 =>
          simp only [Frames2] at hf
          cases f1 with
          | nil =>
            simp only [List.getLast?_singleton, Option.mem_def, Option.some.injEq] at hb
            subst hb
            simp only [if_true] at hf
            exact ⟨hf.1.g1, hf.1.i1⟩
          | cons c1 f1' =>
            exact ih f2 hf.2 b (by simpa [List.getLast?_cons_cons] using hb)
    exact this inner1 inner2 h.frames
  have hsame : ∀ (xs : List GuardBak) (t : St), (unwind t xs).bitlength = t.bitlength ∧
      (unwind t xs).resolution = t.resolution ∧ (unwind t xs).p = t.p := by
    intro xs
    induction xs with
    | nil => intro t; exact ⟨rfl, rfl, rfl⟩
    | cons x xs ih => intro t; simp only [unwind]; exact ih _
  obtain ⟨e1, e2, e3⟩ := hsame inner2 s2
  refine key (unwind s2 inner2) e1 e2 e3 inner1 s1 rfl rfl rfl ?_ hbot h.base
  intro h0
  exact ⟨(h.top h0).g1, (h.top h0).ign⟩

/-- the body of the transparent region, possibly with regions of its own (index: inner depth), then
the region's end marker / the no-op standing in for it, then the same code in both texts -/
inductive Nest : Nat → List Instr → List Instr → Prop
  | done (post : List Instr) : Nest 0 (.lit .none :: post) (.gleave :: post)
  | enter {d : Nat} (c : Nat) {is1 is2 : List Instr} : Nest (d+1) is1 is2 → Nest d (.genter c :: is1) (.genter c :: is2)
  | leave {d : Nat} {is1 is2 : List Instr} : Nest d is1 is2 → Nest (d+1) (.gleave :: is1) (.gleave :: is2)
  | op {d : Nat} {i : Instr} {is1 is2 : List Instr} (hi : i.isBodyOp = true) (hbl : i ≠ .setBl 0) :
      Nest d is1 is2 → Nest d (i :: is1) (i :: is2)


theorem step_gleave_cons {regs : List Val} {b : GuardBak} {fs : List GuardBak} {s : St} :
    step regs (b :: fs) .gleave s = .ok ((.none, regs, fs), restoreSt b s) := rfl

theorem step_lit_none {regs : List Val} {fs : List GuardBak} {s : St} :
    step regs fs (.lit .none) s = .ok ((.none, regs, fs), s) := rfl

theorem addGuard_one {cv : Val} {s s' : St} {bak : GuardBak} (h : addGuard cv s = .ok (bak, s')) :
    bak.one = s.one := by
  have := addGuard_bak h
  exact congrArg Triple.one this

theorem botOne_cons_cons (s t : St) (a b : GuardBak) (r : List GuardBak) :
    botOne s (a :: b :: r) = botOne t (b :: r) := by
  have hl : (b :: r).getLast? = some ((b :: r).getLast (by simp)) := List.getLast?_eq_some_getLast (by simp)
  simp only [botOne, List.getLast?_cons_cons, hl]

theorem runAux_nest {d : Nat} {is1 is2 : List Instr} (hn : Nest d is1 is2) :
    ∀ (k : Nat) (regs1 regs2 : List Val) (inner1 inner2 outer : List GuardBak) (bak0 : GuardBak) (s1 s2 : St),
    inner1.length = d → NCfg s1 s2 inner1 inner2 bak0 → Forall2 VRel regs1 regs2 →
    bak0.guard = none → bak0.ignoreErrors = false →
    OutRel (runAux is1 k regs1 (inner1 ++ outer) s1) (runAux is2 k regs2 (inner2 ++ bak0 :: outer) s2) := by
  induction hn with
  | done post =>
    intro k regs1 regs2 inner1 inner2 outer bak0 s1 s2 hlen hc hregs hg0 hi0
    have h1 : inner1 = [] := List.length_eq_zero_iff.mp hlen
    subst h1
    have h2 : inner2 = [] := hc.frames.nil_right
    subst h2
    simp only [List.nil_append]
    unfold runAux
    rw [step_lit_none, step_gleave_cons]
    dsimp only
    have htr := unwind_inner_trel hc hg0 hi0
    simp only [unwind] at htr
    refine runAux_same post (k+1) _ _ outer outer s1 (restoreSt bak0 s2) ⟨htr, ?_⟩ (forall2_snoc hregs .none)
      (forall2_refl BakPair.refl outer)
    rw [(hc.top rfl).g1]
    simp only [restoreSt, hg0]
    exact .none
  | @enter d c is1 is2 _ ih =>
    intro k regs1 regs2 inner1 inner2 outer bak0 s1 s2 hlen hc hregs hg0 hi0
    have herr : TRel (unwind s1 (inner1 ++ outer)) (unwind s2 (inner2 ++ bak0 :: outer)) := by
      rw [unwind_append, show inner2 ++ bak0 :: outer = (inner2 ++ [bak0]) ++ outer by simp, unwind_append,
        unwind_last]
      exact unwind_trel outer (unwind_inner_trel hc hg0 hi0)
    unfold runAux
    cases h1 : regs1[c]? with
    | none =>
      rw [step_genter_none h1, step_genter_none ((forall2_getElem?_none hregs c).mp h1)]
      exact ⟨rfl, hregs, herr⟩
    | some cv1 =>
      cases h2 : regs2[c]? with
      | none => rw [(forall2_getElem?_none hregs c).mpr h2] at h1; cases h1
      | some cv2 =>
        rw [step_genter_eq h1, step_genter_eq h2]
        have hcv := hregs.getElem? c h1 h2
        -- which of the two situations are we in?
        have hcase : (inner1 = [] ∧ St0 s1 s2) ∨ (inner1 ≠ [] ∧ (GRel s1 s2 ∨ St0 s1 s2)) := by
          by_cases h0 : inner1 = []
          · exact Or.inl ⟨h0, hc.top h0⟩
          · exact Or.inr ⟨h0, hc.st.1⟩
        have hout : ∀ (b1 b2 : GuardBak) (t1 t2 : St), addGuard cv1 s1 = .ok (b1, t1) →
            (if inner1 = [] then Pair0 b1 b2 else NPair b1 b2) → NRel t1 t2 →
            OutRel (runAux is1 (k+1) (regs1 ++ [Val.none]) (b1 :: inner1 ++ outer) t1)
              (runAux is2 (k+1) (regs2 ++ [Val.none]) (b2 :: inner2 ++ bak0 :: outer) t2) := by
          intro b1 b2 t1 t2 ha1 hp ht
          refine ih (k+1) _ _ (b1 :: inner1) (b2 :: inner2) outer bak0 t1 t2 (by simp [hlen]) ?_
            (forall2_snoc hregs .none) hg0 hi0
          refine ⟨ht, (fun h => absurd h (List.cons_ne_nil _ _)), ⟨hp, hc.frames⟩, ?_⟩
          have hb := hc.base
          cases inner1 with
          | nil =>
            simp only [botOne, List.getLast?_singleton, List.getLast?_nil] at hb ⊢
            rw [addGuard_one ha1]; exact hb
          | cons a r => rw [botOne_cons_cons t1 s1]; exact hb
        rcases hcase with ⟨h0, hs0⟩ | ⟨h0, hs⟩
        · have := addGuard_depth0 hs0 hcv
          cases ha1 : addGuard cv1 s1 with
          | error e1 =>
            cases ha2 : addGuard cv2 s2 with
            | error e2 =>
              rw [ha1, ha2] at this
              have : e1 = e2 := this
              subst this
              exact ⟨rfl, hregs, herr⟩
            | ok r2 => rw [ha1, ha2] at this; exact this.elim
          | ok r1 =>
            obtain ⟨b1, t1⟩ := r1
            cases ha2 : addGuard cv2 s2 with
            | error e2 => rw [ha1, ha2] at this; exact this.elim
            | ok r2 =>
              obtain ⟨b2, t2⟩ := r2
              rw [ha1, ha2] at this
              obtain ⟨hp, ht, hbl⟩ := this
              exact hout b1 b2 t1 t2 ha1 (by rw [if_pos h0]; exact hp) ⟨ht, hbl⟩
        · rcases hs with hs | hs
          · have := addGuard_same hs hcv
            cases ha1 : addGuard cv1 s1 with
            | error e1 =>
              cases ha2 : addGuard cv2 s2 with
              | error e2 =>
                rw [ha1, ha2] at this
                have : e1 = e2 := this
                subst this
                exact ⟨rfl, hregs, herr⟩
              | ok r2 => rw [ha1, ha2] at this; exact this.elim
            | ok r1 =>
              obtain ⟨b1, t1⟩ := r1
              cases ha2 : addGuard cv2 s2 with
              | error e2 => rw [ha1, ha2] at this; exact this.elim
              | ok r2 =>
                obtain ⟨b2, t2⟩ := r2
                rw [ha1, ha2] at this
                obtain ⟨hp, ht, hbl⟩ := this
                exact hout b1 b2 t1 t2 ha1 (by rw [if_neg h0]; exact Or.inl hp) ⟨Or.inl ht, by rw [hbl]; exact hc.st.2⟩
          · have := addGuard_depth0 hs hcv
            cases ha1 : addGuard cv1 s1 with
            | error e1 =>
              cases ha2 : addGuard cv2 s2 with
              | error e2 =>
                rw [ha1, ha2] at this
                have : e1 = e2 := this
                subst this
                exact ⟨rfl, hregs, herr⟩
              | ok r2 => rw [ha1, ha2] at this; exact this.elim
            | ok r1 =>
              obtain ⟨b1, t1⟩ := r1
              cases ha2 : addGuard cv2 s2 with
              | error e2 => rw [ha1, ha2] at this; exact this.elim
              | ok r2 =>
                obtain ⟨b2, t2⟩ := r2
                rw [ha1, ha2] at this
                obtain ⟨hp, ht, hbl⟩ := this
                exact hout b1 b2 t1 t2 ha1 (by rw [if_neg h0]; exact Or.inr hp) ⟨ht, hbl⟩
  | @leave d is1 is2 _ ih =>
    intro k regs1 regs2 inner1 inner2 outer bak0 s1 s2 hlen hc hregs hg0 hi0
    cases inner1 with
    | nil => simp at hlen
    | cons b1 f1 =>
      cases inner2 with
      | nil => exact (by simpa [Frames2] using hc.frames : False).elim
      | cons b2 f2 =>
        have hfr := hc.frames
        simp only [Frames2] at hfr
        obtain ⟨hp, hrest⟩ := hfr
        simp only [List.cons_append]
        unfold runAux
        rw [step_gleave_cons, step_gleave_cons]
        dsimp only
        refine ih (k+1) _ _ f1 f2 outer bak0 _ _ (by simpa using hlen) ?_ (forall2_snoc hregs .none) hg0 hi0
        have hbl : 1 ≤ (restoreSt b1 s1).bitlength := hc.st.2
        cases f1 with
        | nil =>
          simp only [if_true] at hp
          have h0 := St0.restore hc.st.tr hc.st.2 hp
          refine ⟨⟨Or.inr h0, hbl⟩, fun _ => h0, hrest, ?_⟩
          have hb := hc.base
          simpa [botOne, restoreSt] using hb
        | cons c1 r1 =>
          simp only [reduceCtorEq, if_false] at hp
          refine ⟨⟨?_, hbl⟩, (fun h => absurd h (List.cons_ne_nil _ _)), hrest, ?_⟩
          · rcases hp with hp | hp
            · exact Or.inl (GRel.restore hc.st.tr hp)
            · exact Or.inr (St0.restore hc.st.tr hc.st.2 hp)
          · rw [← botOne_cons_cons s1 (restoreSt b1 s1) b1 c1 r1]; exact hc.base
  | @op d i is1 is2 hi hbl0 _ ih =>
    intro k regs1 regs2 inner1 inner2 outer bak0 s1 s2 hlen hc hregs hg0 hi0
    have herr : TRel (unwind s1 (inner1 ++ outer)) (unwind s2 (inner2 ++ bak0 :: outer)) := by
      rw [unwind_append, show inner2 ++ bak0 :: outer = (inner2 ++ [bak0]) ++ outer by simp, unwind_append,
        unwind_last]
      exact unwind_trel outer (unwind_inner_trel hc hg0 hi0)
    by_cases hpure : i.isPureOp = true
    · have h := step_body_tr hregs (inner1 ++ outer) (inner2 ++ bak0 :: outer) hpure s1 s2 hc.st.tr
      unfold runAux
      cases h1 : step regs1 (inner1 ++ outer) i s1 with
      | error e1 =>
        cases h2 : step regs2 (inner2 ++ bak0 :: outer) i s2 with
        | error e2 =>
          rw [h1, h2] at h
          have : e1 = e2 := h
          subst this
          exact ⟨rfl, hregs, herr⟩
        | ok r2 => rw [h1, h2] at h; exact h.elim
      | ok r1 =>
        obtain ⟨⟨v1, regs1', f1'⟩, t1⟩ := r1
        cases h2 : step regs2 (inner2 ++ bak0 :: outer) i s2 with
        | error e2 => rw [h1, h2] at h; exact h.elim
        | ok r2 =>
          obtain ⟨⟨v2, regs2', f2'⟩, t2⟩ := r2
          rw [h1, h2] at h
          obtain ⟨⟨hv, hr, hf1, hf2⟩, k1, k2⟩ := h
          dsimp only at hv hr hf1 hf2 ⊢
          subst hf1; subst hf2
          refine ih (k+1) _ _ inner1 inner2 outer bak0 t1 t2 hlen ?_ (forall2_snoc hr hv) hg0 hi0
          refine ⟨hc.st.same k1 k2, fun h0 => (hc.top h0).same k1 k2, hc.frames, ?_⟩
          have hb := hc.base
          unfold botOne at hb ⊢
          generalize inner1.getLast? = o at hb ⊢
          cases o with
          | none => simpa [k1.one] using hb
          | some b => exact hb
    · have hcfg : ∀ (f : St → St), (∀ s, (f s).guard = s.guard ∧ (f s).ignoreErrors = s.ignoreErrors ∧
          (f s).one = s.one ∧ (f s).p = s.p) → (f s1).bitlength = (f s2).bitlength →
          (f s1).resolution = (f s2).resolution → 1 ≤ (f s1).bitlength →
          NCfg (f s1) (f s2) inner1 inner2 bak0 := by
        intro f hf hb hr hbl
        obtain ⟨a1, a2, a3, a4⟩ := hf s1
        obtain ⟨c1, c2, c3, c4⟩ := hf s2
        have htr : TRel (f s1) (f s2) :=
          ⟨by simp only [St.isGuard, a1, c1]; exact hc.st.tr.isG, by rw [a2, c2]; exact hc.st.tr.ign,
           by rw [a3, c3]; exact hc.st.tr.one, hb, hr, by rw [a4, c4]; exact hc.st.tr.p⟩
        have h0 : St0 s1 s2 → St0 (f s1) (f s2) := by
          intro h
          obtain ⟨g, hg, gv⟩ := h.g2
          exact ⟨htr, by rw [a1]; exact h.g1, ⟨g, by rw [c1]; exact hg, gv⟩, by rw [a2]; exact h.ign, hbl⟩
        refine ⟨⟨?_, hbl⟩, fun hh => h0 (hc.top hh), hc.frames, ?_⟩
        · rcases hc.st.1 with h | h
          · exact Or.inl ⟨htr, by rw [a1, c1]; exact h.guard⟩
          · exact Or.inr (h0 h)
        · have hb' := hc.base
          unfold botOne at hb' ⊢
          generalize inner1.getLast? = o at hb' ⊢
          cases o with
          | none => simpa [a3] using hb'
          | some b => exact hb'
      cases i
      case setBl n =>
        have hn : 1 ≤ n := by
          cases n with
          | zero => exact absurd rfl hbl0
          | succ m => omega
        unfold runAux
        simp only [step, modifySt, pure, M.pure, bind, M.bind]
        exact ih (k+1) _ _ inner1 inner2 outer bak0 _ _ hlen
          (hcfg (fun s => { s with bitlength := n }) (fun _ => ⟨rfl, rfl, rfl, rfl⟩) rfl hc.st.tr.res hn)
          (forall2_snoc hregs .none) hg0 hi0
      case setRes n =>
        unfold runAux
        simp only [step, modifySt, pure, M.pure, bind, M.bind]
        exact ih (k+1) _ _ inner1 inner2 outer bak0 _ _ hlen
          (hcfg (fun s => { s with resolution := n }) (fun _ => ⟨rfl, rfl, rfl, rfl⟩) hc.st.tr.bl rfl hc.st.2)
          (forall2_snoc hregs .none) hg0 hi0
      all_goals simp_all [Instr.isPureOp, Instr.isBodyOp]


/-- well-bracketed body: region markers match up and the body ends at the depth it started from
(second argument: current inner depth) -/
def bracketed : List Instr → Nat → Bool
  | [], d => d == 0
  | .genter _ :: is, d => bracketed is (d+1)
  | .gleave :: _, 0 => false
  | .gleave :: is, d+1 => bracketed is d
  | _ :: is, d => bracketed is d

/-- what a body of the transparent region may not contain: `set ign` (undone by `guarded()` at the
exit, not by the unguarded text) and `set bitlength 0` (under which `outer & inner` cannot be
computed) -/
def Instr.twinOk : Instr → Bool
  | .setIgn _ => false
  | .setBl 0 => false
  | _ => true

theorem nest_of_bracketed (post : List Instr) : ∀ (body : List Instr) (d : Nat), bracketed body d = true →
    (∀ i ∈ body, i.twinOk = true) → Nest d (body ++ .lit .none :: post) (body ++ .gleave :: post)
  | [], d, hb, _ => by
    simp only [bracketed, beq_iff_eq] at hb
    subst hb
    exact .done post
  | i :: is, d, hb, hok => by
    have hi := hok i (List.mem_cons_self ..)
    have hrest : ∀ j ∈ is, j.twinOk = true := fun j hj => hok j (List.mem_cons_of_mem _ hj)
    cases i
    case genter c => exact .enter c (nest_of_bracketed post is (d+1) (by simpa [bracketed] using hb) hrest)
    case gleave =>
      cases d with
      | zero => simp [bracketed] at hb
      | succ d' => exact .leave (nest_of_bracketed post is d' (by simpa [bracketed] using hb) hrest)
    case setIgn b => simp [Instr.twinOk] at hi
    case setBl n =>
      refine .op rfl ?_ (nest_of_bracketed post is d (by simpa [bracketed] using hb) hrest)
      intro h
      cases h
      simp [Instr.twinOk] at hi
    all_goals
      exact .op rfl (by intro h; cases h) (nest_of_bracketed post is d (by simpa [bracketed] using hb) hrest)

/-- **a region whose guard is 1 is transparent, also for bodies with regions of their own, and for
everything that runs after it.**  `s`: a state without a guard, with error checking on, bit length
≥ 1 and `LinComb.ONE` = 1; register `c` holds a secret of value 1. -/
theorem region_transparent_nest {is1 is2 : List Instr} (hn : Nest 0 is1 is2) (k : Nat) (regs : List Val)
    (frames : List GuardBak) (s : St) (c : Nat) {x : LinComb}
    (hg : s.guard = none) (hi : s.ignoreErrors = false) (hbl : 1 ≤ s.bitlength) (hone : s.one.value = 1)
    (hc : ∃ cv, regs[c]? = some cv ∧ condOf cv = some x) (hx : x.value = 1) :
    OutRel (runAux (.lit .none :: is1) k regs frames s) (runAux (.genter c :: is2) k regs frames s) := by
  obtain ⟨cv, hcv, hcond⟩ := hc
  have hcore : addGuardCore (.lc x) s =
      .ok (⟨none, s.ignoreErrors, s.one⟩, { s with guard := some x, ignoreErrors := s.ignoreErrors, one := x }) := by
    unfold addGuardCore
    simp only [hg, hx]
    simp
  have hadd : addGuard cv s =
      .ok (⟨none, s.ignoreErrors, s.one⟩, { s with guard := some x, ignoreErrors := s.ignoreErrors, one := x }) := by
    cases cv <;> simp only [condOf, Option.some.injEq, reduceCtorEq] at hcond
    · subst hcond; exact hcore
    · subst hcond; exact hcore
  unfold runAux
  rw [step_lit_none, step_genter_eq hcv, hadd]
  dsimp only
  have := runAux_nest hn (k+1) (regs ++ [Val.none]) (regs ++ [Val.none]) [] [] frames ⟨none, s.ignoreErrors, s.one⟩ s
    { s with guard := some x, ignoreErrors := s.ignoreErrors, one := x } rfl ?_
    (forall2_refl VRel.refl _) rfl hi
  · simpa using this
  · have h0 : St0 s { s with guard := some x, ignoreErrors := s.ignoreErrors, one := x } :=
      ⟨⟨by simp [St.isGuard, hg, hx], rfl, by simp [hone, hx], rfl, rfl, rfl⟩, hg, ⟨x, rfl, hx⟩, hi, hbl⟩
    exact ⟨⟨Or.inr h0, hbl⟩, fun _ => h0, trivial, rfl⟩

end Pysnark
