import PysnarkModel.Lemmas.GuardedTransparentVal
/-!
# Transparency of a true guard: multiplication, division, powers, shifts, bitwise operators, comparisons
-/
namespace Pysnark

theorem floordivLI_tr {x1 x2 : LinComb} (hx : vEq x1 x2) (c : Int) : Tr vEq (floordivLI x1 c) (floordivLI x2 c) := by
  unfold floordivLI
  exact Tr.bind (divmodLL_tr hx rfl) (fun _ _ h => Tr.pure h.1)

theorem floordivLL_tr {x1 x2 y1 y2 : LinComb} (hx : vEq x1 x2) (hy : vEq y1 y2) :
    Tr vEq (floordivLL x1 y1) (floordivLL x2 y2) := by
  unfold floordivLL
  exact Tr.bind (divmodLL_tr hx hy) (fun _ _ h => Tr.pure h.1)
macro_rules | `(tactic| tr_rule) => `(tactic| first
  | with_reducible apply floordivLI_tr | with_reducible apply floordivLL_tr)

theorem mulLV_tr {x1 x2 : LinComb} (hx : vEq x1 x2) {o1 o2 : Val} (ho : VRel o1 o2) :
    Tr VRel (mulLV x1 o1) (mulLV x2 o2) := by
  cases ho <;> simp only [mulLV] <;> trv

theorem mulXV_tr {x1 x2 : LinComb} (hx : vEq x1 x2) {o1 o2 : Val} (ho : VRel o1 o2) :
    Tr VRel (mulXV x1 o1) (mulXV x2 o2) := by
  cases ho <;> simp only [mulXV] <;> trv
macro_rules | `(tactic| tr_rule) => `(tactic| first
  | with_reducible apply mulLV_tr | with_reducible apply mulXV_tr)

theorem mulV_tr {a1 a2 b1 b2 : Val} (ha : VRel a1 a2) (hb : VRel b1 b2) : Tr VRel (mulV a1 b1) (mulV a2 b2) := by
  cases ha <;> cases hb <;> simp only [mulV] <;> trv
macro_rules | `(tactic| tr_rule) => `(tactic| with_reducible apply mulV_tr)


/-! ## division -/
theorem divmodLV_tr {x1 x2 : LinComb} (hx : vEq x1 x2) {o1 o2 : Val} (ho : VRel o1 o2) :
    Tr (OptRel vEqP) (divmodLV x1 o1) (divmodLV x2 o2) := by
  cases ho <;> simp only [divmodLV] <;> trv

theorem vEqP_wrap {q1 q2 : LinComb × LinComb} (h : vEqP q1 q2) (c : Int) :
    vEqP (q1.1.mulI c, q1.2) (q2.1.mulI c, q2.2) := by
  obtain ⟨h1, h2⟩ := h
  have h1' : q1.1.value = q2.1.value := h1
  exact ⟨by simp only [vEq, mulI_value, h1'], h2⟩
macro_rules | `(tactic| tr_side_rule) => `(tactic| with_reducible apply vEqP_wrap)

theorem divmodXV_tr {x1 x2 : LinComb} (hx : vEq x1 x2) {o1 o2 : Val} (ho : VRel o1 o2) :
    Tr (OptRel vEqP) (divmodXV x1 o1) (divmodXV x2 o2) := by
  cases ho <;> simp only [divmodXV] <;> trv
macro_rules | `(tactic| tr_rule) => `(tactic| first
  | with_reducible apply divmodLV_tr | with_reducible apply divmodXV_tr)

theorem pickL_vrel (w : DM) {p q : LinComb × LinComb} (h : vEqP p q) : VRel (pickL w p) (pickL w q) := by
  cases w <;> simp only [pickL]
  · exact .lc h.1
  · exact .lc h.2
  · exact .tuple (.cons (.lc h.1) (.cons (.lc h.2) .nil))

theorem pickX_vrel (w : DM) {p q : LinComb × LinComb} (h : vEqP p q) : VRel (pickX w p) (pickX w q) := by
  cases w <;> simp only [pickX]
  · exact .fxp h.1
  · exact .fxp h.2
  · exact .tuple (.cons (.fxp h.1) (.cons (.fxp h.2) .nil))

theorem ofFB_vrel {o1 o2 : Option LinComb} (h : OptRel vEq o1 o2) : VRel (ofFB o1) (ofFB o2) := by
  cases h with
  | none => exact .int 0
  | some h => exact .lc h

macro_rules | `(tactic| tr_side_rule) => `(tactic| first
  | with_reducible apply pickL_vrel | with_reducible apply pickX_vrel | with_reducible apply ofFB_vrel)

theorem divmodV_tr (w : DM) {a1 a2 b1 b2 : Val} (ha : VRel a1 a2) (hb : VRel b1 b2) :
    Tr VRel (divmodV w a1 b1) (divmodV w a2 b2) := by
  cases ha <;> cases hb <;> simp only [divmodV] <;> trv
macro_rules | `(tactic| tr_rule) => `(tactic| with_reducible apply divmodV_tr)

theorem truedivXV_tr {x1 x2 : LinComb} (hx : vEq x1 x2) {o1 o2 : Val} (ho : VRel o1 o2) :
    Tr (OptRel vEq) (truedivXV x1 o1) (truedivXV x2 o2) := by
  cases ho <;> simp only [truedivXV] <;> trv
macro_rules | `(tactic| tr_rule) => `(tactic| with_reducible apply truedivXV_tr)

theorem truedivV_tr {a1 a2 b1 b2 : Val} (ha : VRel a1 a2) (hb : VRel b1 b2) :
    Tr VRel (truedivV a1 b1) (truedivV a2 b2) := by
  cases ha <;> cases hb <;> simp only [truedivV] <;> trv
macro_rules | `(tactic| tr_rule) => `(tactic| with_reducible apply truedivV_tr)

end Pysnark
