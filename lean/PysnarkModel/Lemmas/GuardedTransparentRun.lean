import PysnarkModel.Lemmas.GuardedTransparentCall
/-!
# Transparency of a true guard: instructions and programs

The run of `genter c; body; gleave` with a condition of value 1 is compared with the run of the
same text in which the two region markers are replaced by no-ops (`lit None`, so that register
numbers stay aligned): same error (class and position) or same completion, registers pairwise of
the same kind with the same Python-level values, and final states that agree on everything
observable (`TRel`).
-/
namespace Pysnark

theorem binopV_tr (op : BinOp) {a1 a2 b1 b2 : Val} (ha : VRel a1 a2) (hb : VRel b1 b2) :
    Tr VRel (binopV op a1 b1) (binopV op a2 b2) := by
  cases op <;> simp only [binopV]
  case add => exact addV_tr ha hb
  case sub => exact subV_tr ha hb
  case mul => exact mulV_tr ha hb
  case truediv => exact truedivV_tr ha hb
  case floordiv => exact divmodV_tr _ ha hb
  case mod => exact divmodV_tr _ ha hb
  case divmod => exact divmodV_tr _ ha hb
  case pow => exact powV_tr ha hb
  case lshift => exact lshiftV_tr ha hb
  case rshift => exact rshiftV_tr ha hb
  case band => exact bwV_tr _ ha hb
  case bxor => exact bwV_tr _ ha hb
  case bor => exact bwV_tr _ ha hb
  all_goals exact cmpV_tr _ ha hb

/-! ## registers -/
theorem forall2_getElem?_none {α β : Type} {R : α → β → Prop} {l1 : List α} {l2 : List β} (h : Forall2 R l1 l2)
    (i : Nat) : l1[i]? = none ↔ l2[i]? = none := by
  rw [List.getElem?_eq_none_iff, List.getElem?_eq_none_iff, h.length_eq]

theorem getReg_tr {rs1 rs2 : List Val} (h : Forall2 VRel rs1 rs2) (i : Nat) :
    Tr VRel (getReg rs1 i) (getReg rs2 i) := by
  unfold getReg
  cases h1 : rs1[i]? with
  | none =>
    rw [(forall2_getElem?_none h i).mp h1]
    exact Tr.raise _
  | some v1 =>
    cases h2 : rs2[i]? with
    | none => rw [(forall2_getElem?_none h i).mpr h2] at h1; cases h1
    | some v2 => exact Tr.pure (h.getElem? i h1 h2)

theorem getRegs_tr {rs1 rs2 : List Val} (h : Forall2 VRel rs1 rs2) : ∀ is : List Nat,
    Tr (Forall2 VRel) (getRegs rs1 is) (getRegs rs2 is)
  | [] => by unfold getRegs; exact Tr.pure .nil
  | i :: is => by
    unfold getRegs
    refine Tr.bind (getReg_tr h i) (fun v1 v2 hv => ?_)
    exact Tr.bind (getRegs_tr h is) (fun vs1 vs2 hvs => Tr.pure (.cons hv hvs))

/-! ## one instruction of a region body -/
/-- the instructions of a region body whose effect on the tracer configuration is the same with and
without the guard: everything except the region markers and `set ign` (whose effect `guarded()`
undoes at the exit of the region, the unguarded code does not) -/
def Instr.isBodyOp : Instr → Bool
  | .genter _ | .gleave | .setIgn _ => false
  | _ => true

/-- result relation of one instruction: related result, related register files, frames untouched -/
def TStepRel (f1 f2 : List GuardBak) (r1 r2 : Val × List Val × List GuardBak) : Prop :=
  VRel r1.1 r2.1 ∧ Forall2 VRel r1.2.1 r2.2.1 ∧ r1.2.2 = f1 ∧ r2.2.2 = f2

theorem forall2_vrel_refl' : ∀ (v : Val), VRel v v
  | .none => .none
  | .int a => .int a
  | .flt m e => .flt m e
  | .lc _ => .lc rfl
  | .lcb _ => .lcb rfl
  | .fxp _ => .fxp rfl
  | .list xs => .list (go xs)
  | .tuple xs => .tuple (go xs)
where
  go : ∀ (xs : List Val), Forall2 VRel xs xs
  | [] => .nil
  | x :: xs => .cons (forall2_vrel_refl' x) (go xs)

theorem VRel.refl (v : Val) : VRel v v := forall2_vrel_refl' v

/-- neither a region marker nor a configuration change -/
def Instr.isPureOp : Instr → Bool
  | .genter _ | .gleave | .setIgn _ | .setBl _ | .setRes _ => false
  | _ => true

theorem step_body_tr {regs1 regs2 : List Val} (hregs : Forall2 VRel regs1 regs2) (f1 f2 : List GuardBak)
    {i : Instr} (hi : i.isPureOp = true) :
    Tr (TStepRel f1 f2) (step regs1 f1 i) (step regs2 f2 i) := by
  cases i
  case lit w =>
    simp only [step]
    exact Tr.pure ⟨VRel.refl w, hregs, rfl, rfl⟩
  case mk k a =>
    simp only [step]
    refine Tr.bind (getReg_tr hregs a) (fun v1 v2 hv => ?_)
    exact Tr.bind (mkVal_tr k hv) (fun r1 r2 hr => Tr.pure ⟨hr, hregs, rfl, rfl⟩)
  case wrapb a =>
    simp only [step]
    refine Tr.bind (getReg_tr hregs a) (fun v1 v2 hv => ?_)
    exact Tr.bind (wrapBool_tr hv) (fun r1 r2 hr => Tr.pure ⟨hr, hregs, rfl, rfl⟩)
  case wrapx a =>
    simp only [step]
    refine Tr.bind (getReg_tr hregs a) (fun v1 v2 hv => ?_)
    exact Tr.bind (wrapFxp_tr hv) (fun r1 r2 hr => Tr.pure ⟨hr, hregs, rfl, rfl⟩)
  case bin op a b =>
    simp only [step]
    refine Tr.bind (getReg_tr hregs a) (fun x1 x2 hx => ?_)
    refine Tr.bind (getReg_tr hregs b) (fun y1 y2 hy => ?_)
    exact Tr.bind (binopV_tr op hx hy) (fun r1 r2 hr => Tr.pure ⟨hr, hregs, rfl, rfl⟩)
  case un op a =>
    simp only [step]
    refine Tr.bind (getReg_tr hregs a) (fun x1 x2 hx => ?_)
    exact Tr.bind (unV_tr op hx) (fun r1 r2 hr => Tr.pure ⟨hr, hregs, rfl, rfl⟩)
  case call m self args =>
    simp only [step]
    refine Tr.bind (getReg_tr hregs self) (fun x1 x2 hx => ?_)
    refine Tr.bind (getRegs_tr hregs args) (fun as1 as2 has => ?_)
    exact Tr.bind (callMeth_tr m hx has) (fun r1 r2 hr => Tr.pure ⟨hr, hregs, rfl, rfl⟩)
  case ite c t f =>
    simp only [step]
    refine Tr.bind (getReg_tr hregs c) (fun c1 c2 hc => ?_)
    refine Tr.bind (getReg_tr hregs t) (fun t1 t2 ht => ?_)
    refine Tr.bind (getReg_tr hregs f) (fun f1' f2' hf => ?_)
    exact Tr.bind (ifThenElse_tr hc _ ht hf) (fun r1 r2 hr => Tr.pure ⟨hr, hregs, rfl, rfl⟩)
  case list xs =>
    simp only [step]
    exact Tr.bind (getRegs_tr hregs xs) (fun vs1 vs2 hvs => Tr.pure ⟨.list hvs, hregs, rfl, rfl⟩)
  case arr xs =>
    simp only [step]
    exact Tr.bind (getRegs_tr hregs xs) (fun vs1 vs2 hvs => Tr.pure ⟨.list hvs, hregs, rfl, rfl⟩)
  case idx a k =>
    simp only [step]
    refine Tr.bind (getReg_tr hregs a) (fun v1 v2 hv => ?_)
    have key : ∀ {xs ys : List Val}, Forall2 VRel xs ys → Tr (TStepRel f1 f2)
        (match pyIndex xs.length k with
          | some j => match xs[j]? with
            | some x => pure (x, regs1, f1)
            | Option.none => raise .index
          | Option.none => raise .index : M (Val × List Val × List GuardBak))
        (match pyIndex ys.length k with
          | some j => match ys[j]? with
            | some x => pure (x, regs2, f2)
            | Option.none => raise .index
          | Option.none => raise .index : M (Val × List Val × List GuardBak)) := by
      intro xs ys hxy
      rw [hxy.length_eq]
      cases pyIndex ys.length k with
      | none => exact Tr.raise _
      | some j =>
        dsimp only
        cases h1 : xs[j]? with
        | none => rw [(forall2_getElem?_none hxy j).mp h1]; exact Tr.raise _
        | some x =>
          cases h2 : ys[j]? with
          | none => rw [(forall2_getElem?_none hxy j).mpr h2] at h1; cases h1
          | some y => exact Tr.pure ⟨hxy.getElem? j h1 h2, hregs, rfl, rfl⟩
    cases hv with
    | list h => exact key h
    | tuple h => exact key h
    | _ => exact Tr.tyErr
  case aget a k =>
    simp only [step]
    refine Tr.bind (getReg_tr hregs a) (fun av1 av2 hav => ?_)
    refine Tr.bind (getReg_tr hregs k) (fun iv1 iv2 hiv => ?_)
    cases hav with
    | list h => exact Tr.bind (arrayGet_tr h hiv) (fun r1 r2 hr => Tr.pure ⟨hr, hregs, rfl, rfl⟩)
    | _ => exact Tr.tyErr
  case aset a k w =>
    simp only [step]
    refine Tr.bind (getReg_tr hregs a) (fun av1 av2 hav => ?_)
    refine Tr.bind (getReg_tr hregs k) (fun iv1 iv2 hiv => ?_)
    refine Tr.bind (getReg_tr hregs w) (fun vv1 vv2 hvv => ?_)
    cases hav with
    | list h =>
      exact Tr.bind (arraySet_tr h hiv hvv) (fun xs1 xs2 hxs =>
        Tr.pure ⟨.none, hregs.set a (.list hxs), rfl, rfl⟩)
    | _ => exact Tr.tyErr
  all_goals simp [Instr.isPureOp] at hi


/-! ## programs -/
/-- two runs end alike: same error (class and position) or both complete; registers pairwise of the
same kind with the same Python-level values; final states that agree on everything observable -/
structure OutRel (o1 o2 : Out) : Prop where
  err : o1.err = o2.err
  regs : Forall2 VRel o1.regs o2.regs
  st : TRel o1.st o2.st

/-- what `restore_guard(bak)` installs -/
def restoreSt (bak : GuardBak) (s : St) : St :=
  { s with guard := bak.guard, ignoreErrors := bak.ignoreErrors, one := bak.one }

/-- the frame saved at the entry of the transparent region describes the CURRENT state of the
unguarded run (body instructions change neither guard, nor error mode, nor `LinComb.ONE`) -/
structure BakRel (s1 : St) (bak : GuardBak) : Prop where
  isG : s1.isGuard = (restoreSt bak s1).isGuard
  ign : s1.ignoreErrors = bak.ignoreErrors
  one : s1.one.value = bak.one.value

theorem TRel.restore {s1 s2 : St} {bak : GuardBak} (h : TRel s1 s2) (hb : BakRel s1 bak) :
    TRel s1 (restoreSt bak s2) :=
  ⟨hb.isG, hb.ign, hb.one, h.bl, h.res, h.p⟩

theorem BakRel.same {s1 t1 : St} {bak : GuardBak} (hb : BakRel s1 bak) (k : Same s1 t1) : BakRel t1 bak :=
  ⟨by rw [k.isGuard]; exact hb.isG, by rw [k.ign]; exact hb.ign, by rw [k.one]; exact hb.one⟩

theorem unwind_trel : ∀ (fs : List GuardBak) {a b : St}, TRel a b → TRel (unwind a fs) (unwind b fs)
  | [], _, _, h => h
  | f :: fs, a, b, h => by
    simp only [unwind]
    exact unwind_trel fs ⟨rfl, rfl, rfl, h.bl, h.res, h.p⟩

/-- the body of the region in the two texts: the same instructions, until the region's `gleave`
(guarded text) / the no-op standing in for it (unguarded text) -/
inductive Twin : List Instr → List Instr → Prop
  | done : Twin [.lit .none] [.gleave]
  | op {i : Instr} {is1 is2 : List Instr} (hi : i.isBodyOp = true) : Twin is1 is2 → Twin (i :: is1) (i :: is2)

theorem forall2_snoc {xs ys : List Val} (h : Forall2 VRel xs ys) {a b : Val} (hab : VRel a b) :
    Forall2 VRel (xs ++ [a]) (ys ++ [b]) := h.append (.cons hab .nil)

theorem runAux_twin {is1 is2 : List Instr} (htw : Twin is1 is2) :
    ∀ (k : Nat) (regs1 regs2 : List Val) (frames : List GuardBak) (bak : GuardBak) (s1 s2 : St),
    TRel s1 s2 → Forall2 VRel regs1 regs2 → BakRel s1 bak →
    OutRel (runAux is1 k regs1 frames s1) (runAux is2 k regs2 (bak :: frames) s2) := by
  induction htw with
  | done =>
    intro k regs1 regs2 frames bak s1 s2 hs hregs hb
    simp only [runAux, step, pure, M.pure, bind, M.bind, restoreGuard]
    exact ⟨rfl, forall2_snoc hregs .none, hs.restore hb⟩
  | @op i is1 is2 hi _ ih =>
    intro k regs1 regs2 frames bak s1 s2 hs hregs hb
    have herr : TRel (unwind s1 frames) (unwind s2 (bak :: frames)) := by
      simp only [unwind]
      exact unwind_trel frames (hs.restore hb)
    by_cases hpure : i.isPureOp = true
    · have h := step_body_tr hregs frames (bak :: frames) hpure s1 s2 hs
      unfold runAux
      cases h1 : step regs1 frames i s1 with
      | error e1 =>
        cases h2 : step regs2 (bak :: frames) i s2 with
        | error e2 =>
          rw [h1, h2] at h
          have : e1 = e2 := h
          subst this
          exact ⟨rfl, hregs, herr⟩
        | ok r2 => rw [h1, h2] at h; exact h.elim
      | ok r1 =>
        obtain ⟨⟨v1, regs1', f1'⟩, t1⟩ := r1
        cases h2 : step regs2 (bak :: frames) i s2 with
        | error e2 => rw [h1, h2] at h; exact h.elim
        | ok r2 =>
          obtain ⟨⟨v2, regs2', f2'⟩, t2⟩ := r2
          rw [h1, h2] at h
          obtain ⟨⟨hv, hr, hf1, hf2⟩, k1, k2⟩ := h
          dsimp only at hv hr hf1 hf2 ⊢
          subst hf1; subst hf2
          exact ih (k+1) _ _ _ bak t1 t2 (hs.same k1 k2) (forall2_snoc hr hv) (hb.same k1)
    · cases i
      case setBl n =>
        unfold runAux
        simp only [step, modifySt, pure, M.pure, bind, M.bind]
        refine ih (k+1) _ _ _ bak _ _ ⟨hs.isG, hs.ign, hs.one, rfl, hs.res, hs.p⟩ (forall2_snoc hregs .none)
          ⟨hb.isG, hb.ign, hb.one⟩
      case setRes n =>
        unfold runAux
        simp only [step, modifySt, pure, M.pure, bind, M.bind]
        refine ih (k+1) _ _ _ bak _ _ ⟨hs.isG, hs.ign, hs.one, hs.bl, rfl, hs.p⟩ (forall2_snoc hregs .none)
          ⟨hb.isG, hb.ign, hb.one⟩
      all_goals simp_all [Instr.isPureOp, Instr.isBodyOp]


/-- the secret a region condition carries (a `LinComb` or a `LinCombBool`) -/
def condOf : Val → Option LinComb
  | .lc c => some c
  | .lcb c => some c
  | _ => none

/-- **a region whose guard is 1, entered outside any region, is transparent.**  `s` is any state
without a guard in which `LinComb.ONE` has its normal value; register `c` holds a secret of value 1.
The guarded text `genter c; body; gleave` and the text with the two markers replaced by no-ops end
alike (`OutRel`). -/
theorem region_transparent {is1 is2 : List Instr} (htw : Twin is1 is2) (k : Nat) (regs : List Val)
    (frames : List GuardBak) (s : St) (c : Nat) {x : LinComb}
    (hg : s.guard = none) (hone : s.one.value = 1)
    (hc : ∃ cv, regs[c]? = some cv ∧ condOf cv = some x) (hx : x.value = 1) :
    OutRel (runAux (.lit .none :: is1) k regs frames s) (runAux (.genter c :: is2) k regs frames s) := by
  obtain ⟨cv, hcv, hcond⟩ := hc
  have hstep1 : step regs frames (.lit .none) s = .ok ((.none, regs, frames), s) := rfl
  have hcore : addGuardCore (.lc x) s =
      .ok (⟨none, s.ignoreErrors, s.one⟩, { s with guard := some x, ignoreErrors := s.ignoreErrors, one := x }) := by
    unfold addGuardCore
    simp only [hg, hx]
    simp
  have hadd : addGuard cv s =
      .ok (⟨none, s.ignoreErrors, s.one⟩, { s with guard := some x, ignoreErrors := s.ignoreErrors, one := x }) := by
    cases cv <;> simp only [condOf, Option.some.injEq, reduceCtorEq] at hcond
    · subst hcond; exact hcore
    · subst hcond; exact hcore
  have hstep2 : step regs frames (.genter c) s =
      .ok ((.none, regs, ⟨none, s.ignoreErrors, s.one⟩ :: frames),
        { s with guard := some x, ignoreErrors := s.ignoreErrors, one := x }) := by
    simp only [step, getReg, hcv]
    change M.bind (M.pure cv) _ s = _
    simp only [M.bind, M.pure]
    change M.bind (addGuard cv) _ s = _
    simp only [M.bind, hadd]
    rfl
  unfold runAux
  rw [hstep1, hstep2]
  dsimp only
  refine runAux_twin htw (k+1) _ _ frames _ s _ ?_ (forall2_snoc (forall2_refl VRel.refl regs) .none) ?_
  · refine ⟨?_, rfl, ?_, rfl, rfl, rfl⟩
    · simp [St.isGuard, hg, hx]
    · simp [hone, hx]
  · refine ⟨?_, rfl, rfl⟩
    simp [St.isGuard, restoreSt, hg]

end Pysnark
