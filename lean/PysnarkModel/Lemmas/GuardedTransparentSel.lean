import PysnarkModel.Lemmas.GuardedTransparentMeth
import PysnarkModel.Lemmas.IteTag
/-!
# Transparency of a true guard: selection, unary operators, constructors, methods, arrays
-/
namespace Pysnark

/-! ## `if_then_else` -/
theorem zipWithM'_tr {f1 f2 : Val → Val → M Val}
    (hf : ∀ t1 t2 g1 g2, VRel t1 t2 → VRel g1 g2 → Tr VRel (f1 t1 g1) (f2 t2 g2))
    {ts1 ts2 : List Val} (ht : Forall2 VRel ts1 ts2) :
    ∀ {gs1 gs2 : List Val}, Forall2 VRel gs1 gs2 → Tr (Forall2 VRel) (zipWithM' f1 ts1 gs1) (zipWithM' f2 ts2 gs2) := by
  induction ht with
  | nil => intro gs1 gs2 _; simp only [zipWithM']; exact Tr.pure .nil
  | cons hab _ ih =>
    intro gs1 gs2 hg
    cases hg with
    | nil => simp only [zipWithM']; exact Tr.pure .nil
    | cons hcd hg' =>
      simp only [zipWithM']
      refine Tr.bind (hf _ _ _ _ hab hcd) (fun r1 r2 hr => ?_)
      refine Tr.bind (ih hg') (fun rs1 rs2 hrs => ?_)
      exact Tr.pure (.cons hr hrs)

theorem smallIntSame_veq {t1 t2 f1 f2 : Val} (ht : VRel t1 t2) (hf : VRel f1 f2) :
    smallIntSame t1 f1 = smallIntSame t2 f2 := by
  cases ht <;> cases hf <;> rfl

/-- the retagging step: which arm is taken depends on the kinds only; the constructor's test reads the value -/
theorem iteTag_tr {t1 t2 f1 f2 r1 r2 : Val} (ht : VRel t1 t2) (hf : VRel f1 f2) (hr : VRel r1 r2) :
    Tr VRel (iteTag t1 f1 r1) (iteTag t2 f2 r2) := by
  cases ht
  case lcb h1 =>
    cases hf
    case lcb h2 => cases hr <;> simp only [iteTag] <;> trv
    all_goals (rw [iteTag_other _ rfl, iteTag_other _ rfl]; exact Tr.pure hr)
  all_goals (rw [iteTag_other _ rfl, iteTag_other _ rfl]; exact Tr.pure hr)
macro_rules | `(tactic| tr_rule) => `(tactic| with_reducible apply iteTag_tr)

theorem iteAux_tr {c1 c2 : LinComb} (hc : vEq c1 c2) : ∀ (n : Nat) {t1 t2 f1 f2 : Val},
    VRel t1 t2 → VRel f1 f2 → Tr VRel (iteAux c1 n t1 f1) (iteAux c2 n t2 f2) := by
  intro n
  induction n with
  | zero => intro t1 t2 f1 f2 _ _; simp only [iteAux]; exact Tr.raise _
  | succ n ih =>
    intro t1 t2 f1 f2 ht hf
    simp only [iteAux, smallIntSame_veq ht hf]
    split
    · exact Tr.pure ht
    · cases ht with
      | list hts =>
        cases hf with
        | list hfs =>
          dsimp only
          refine Tr.iteElseRaise (by rw [hts.length_eq, hfs.length_eq]) (Tr.bind (zipWithM'_tr (fun _ _ _ _ h1 h2 => ih h1 h2) hts hfs) (fun r1 r2 hr => ?_))
          exact Tr.pure (.list hr)
        | tuple hfs =>
          dsimp only
          refine Tr.iteElseRaise (by rw [hts.length_eq, hfs.length_eq]) (Tr.bind (zipWithM'_tr (fun _ _ _ _ h1 h2 => ih h1 h2) hts hfs) (fun r1 r2 hr => ?_))
          exact Tr.pure (.list hr)
        | _ => exact Tr.tyErr
      | _ => refine Tr.bind (R := VRel) ?_ ?_ <;> trv

theorem forall2_map_eq {α β : Type} {R : α → α → Prop} {f : α → β} : ∀ {xs ys : List α}, Forall2 R xs ys →
    (∀ x ∈ xs, ∀ y, R x y → f x = f y) → xs.map f = ys.map f
  | _, _, .nil, _ => rfl
  | _, _, .cons hab ht, h => by
    simp only [List.map_cons]
    rw [h _ (List.mem_cons_self ..) _ hab, forall2_map_eq ht (fun x hx y hxy => h x (List.mem_cons_of_mem _ hx) y hxy)]

theorem depth_list (xs : List Val) : (Val.list xs).depth = 1 + (xs.map Val.depth).foldl max 0 := by
  rw [Val.depth]
  congr 2
  simp

theorem depth_tuple (xs : List Val) : (Val.tuple xs).depth = 1 + (xs.map Val.depth).foldl max 0 := by
  rw [Val.depth]
  congr 2
  simp

theorem VRel.depth_eq' : ∀ (t1 t2 : Val), VRel t1 t2 → t1.depth = t2.depth
  | .list xs, _, .list (ys := ys) hl => by
    rw [depth_list, depth_list, forall2_map_eq hl (fun x _ y hxy => VRel.depth_eq' x y hxy)]
  | .tuple xs, _, .tuple (ys := ys) hl => by
    rw [depth_tuple, depth_tuple, forall2_map_eq hl (fun x _ y hxy => VRel.depth_eq' x y hxy)]
  | _, _, .none => rfl
  | _, _, .int _ => rfl
  | _, _, .flt _ _ => rfl
  | _, _, .lc _ => by simp [Val.depth]
  | _, _, .lcb _ => by simp [Val.depth]
  | _, _, .fxp _ => by simp [Val.depth]

theorem VRel.depth_eq {t1 t2 : Val} (h : VRel t1 t2) : t1.depth = t2.depth := VRel.depth_eq' t1 t2 h

theorem ifThenElse_tr {c1 c2 : Val} (hc : VRel c1 c2) (same : Bool) {t1 t2 f1 f2 : Val}
    (ht : VRel t1 t2) (hf : VRel f1 f2) :
    Tr VRel (ifThenElse c1 same t1 f1) (ifThenElse c2 same t2 f2) := by
  unfold ifThenElse
  rw [smallIntSame_veq ht hf]
  split
  · exact Tr.pure ht
  · cases hc with
    | int c =>
      dsimp only
      refine Tr.ite Iff.rfl (Tr.raise _) (Tr.pure ?_)
      split <;> assumption
    | lcb h => rw [ht.depth_eq]; exact iteAux_tr h _ ht hf
    | _ => exact Tr.raise _
macro_rules | `(tactic| tr_rule) => `(tactic| with_reducible apply ifThenElse_tr)


/-! ## unary -/
theorem unV_tr (op : Un) {a1 a2 : Val} (ha : VRel a1 a2) : Tr VRel (unV op a1) (unV op a2) := by
  cases op <;> cases ha <;> simp only [unV] <;> trv
macro_rules | `(tactic| tr_rule) => `(tactic| with_reducible apply unV_tr)

/-! ## constructors -/
theorem mkVal_tr (k : Kind) {v1 v2 : Val} (hv : VRel v1 v2) : Tr VRel (mkVal k v1) (mkVal k v2) := by
  cases hv <;> cases k <;> simp only [mkVal] <;> trv

theorem wrapBool_tr {v1 v2 : Val} (hv : VRel v1 v2) : Tr VRel (wrapBool v1) (wrapBool v2) := by
  unfold wrapBool
  cases hv <;> trv

theorem wrapFxp_tr {v1 v2 : Val} (hv : VRel v1 v2) : Tr VRel (wrapFxp v1) (wrapFxp v2) := by
  unfold wrapFxp
  cases hv <;> trv

/-! ## methods -/
theorem argNat?_tr {as1 as2 : List Val} (h : Forall2 VRel as1 as2) : Tr Eq (argNat? as1) (argNat? as2) := by
  cases h with
  | nil => simp only [argNat?]; exact Tr.pure rfl
  | cons hv ht =>
    cases ht with
    | nil => cases hv <;> simp only [argNat?] <;> trv
    | cons _ _ => simp only [argNat?]; exact Tr.raise _
macro_rules | `(tactic| tr_rule) => `(tactic| with_reducible apply argNat?_tr)

theorem assertCmp_tr (m : Meth) {a1 a2 b1 b2 : LinComb} (ha : vEq a1 a2) (hb : vEq b1 b2) :
    Tr (fun _ _ => True) (assertCmp m a1 b1) (assertCmp m a2 b2) := by
  cases m <;> simp only [assertCmp] <;> trv
macro_rules | `(tactic| tr_rule) => `(tactic| with_reducible apply assertCmp_tr)

theorem unwrapBits_tr {l1 l2 : List Val} (h : Forall2 VRel l1 l2) :
    Tr (Forall2 vEq) (unwrapBits l1) (unwrapBits l2) := by
  induction h with
  | nil => simp only [unwrapBits]; exact Tr.pure .nil
  | cons hv _ ih => cases hv <;> simp only [unwrapBits] <;> trv
macro_rules | `(tactic| tr_rule) => `(tactic| with_reducible apply unwrapBits_tr)

theorem map_lcb_vrel {l1 l2 : List LinComb} (h : Forall2 vEq l1 l2) :
    Forall2 VRel (l1.map Val.lcb) (l2.map Val.lcb) :=
  Forall2.map (fun _ _ h => VRel.lcb h) h
macro_rules | `(tactic| tr_side_rule) => `(tactic| with_reducible apply map_lcb_vrel)

end Pysnark
