import PysnarkModel.Lemmas.GuardedTransparent
/-!
# Transparency of a true guard: the dynamically typed layer (`Model/Val.lean`, `Model/Methods.lean`)

`VRel`: the two runs hold values of the same kind with the same Python-level content (plain values
equal, secrets with equal `.value`, containers pointwise).
-/
namespace Pysnark

/-- same kind, same Python-level value -/
inductive VRel : Val → Val → Prop
  | none : VRel .none .none
  | int (a : Int) : VRel (.int a) (.int a)
  | flt (m : Int) (e : Nat) : VRel (.flt m e) (.flt m e)
  | lc {x y : LinComb} : vEq x y → VRel (.lc x) (.lc y)
  | lcb {x y : LinComb} : vEq x y → VRel (.lcb x) (.lcb y)
  | fxp {x y : LinComb} : vEq x y → VRel (.fxp x) (.fxp y)
  | list {xs ys : List Val} : Forall2 VRel xs ys → VRel (.list xs) (.list ys)
  | tuple {xs ys : List Val} : Forall2 VRel xs ys → VRel (.tuple xs) (.tuple ys)

macro_rules | `(tactic| tr_side_rule) => `(tactic| first
  | exact VRel.none
  | exact VRel.int _
  | exact VRel.flt _ _
  | refine VRel.lc ?_
  | refine VRel.lcb ?_
  | refine VRel.fxp ?_
  | refine VRel.list ?_
  | refine VRel.tuple ?_
  | exact Forall2.nil
  | refine Forall2.cons ?_ ?_
  | exact OptRel.none
  | refine OptRel.some ?_
  | exact And.left (by assumption)
  | exact And.right (by assumption))

/-- the `match` on an optional result after a bind: split both sides together -/
macro "tr_opt" : tactic => `(tactic| (
  (show ∀ _ _, OptRel _ _ _ → Tr _ _ _)
  intro _ _ h
  cases h <;> dsimp only))

macro "trv_step" : tactic => `(tactic| first
  | tr_opt
  | ((show ∀ _ _, _ = _ → Tr _ _ _); intro _ _ h; subst h)
  | tr_step)

macro "trv" : tactic => `(tactic| repeat' trv_step)

/-! ## state readers -/
theorem getRes_tr : Tr Eq getRes getRes := Tr.okSt (fun _ _ h => h.res)
theorem getOne_tr : Tr vEq getOne getOne := Tr.okSt (fun _ _ h => h.one)
theorem getP_tr : Tr Eq getP getP := Tr.okSt (fun _ _ h => h.p)
macro_rules | `(tactic| tr_rule) => `(tactic| first
  | exact getRes_tr | exact getOne_tr | exact getP_tr)

/-! ## coercions -/
theorem ensurefxp_tr {v1 v2 : Val} (hv : VRel v1 v2) : Tr vEq (ensurefxp v1) (ensurefxp v2) := by
  unfold ensurefxp
  cases hv <;> trv

theorem ensurebool_tr {v1 v2 : Val} (hv : VRel v1 v2) : Tr vEq (ensurebool v1) (ensurebool v2) := by
  unfold ensurebool
  cases hv
  case lc x y h =>
    have h' : x.value = y.value := h
    dsimp only
    rw [h']
    exact Tr.iteErr (fun _ _ _ => rfl) (mkBool_tr h true)
  all_goals trv

theorem ensurelc_tr {v1 v2 : Val} (hv : VRel v1 v2) : Tr vEq (ensurelc v1) (ensurelc v2) := by
  unfold ensurelc
  cases hv <;> trv

macro_rules | `(tactic| tr_rule) => `(tactic| first
  | with_reducible apply ensurefxp_tr | with_reducible apply ensurebool_tr | with_reducible apply ensurelc_tr)

/-! ## arithmetic -/
theorem negV_tr {v1 v2 : Val} (hv : VRel v1 v2) : Tr VRel (negV v1) (negV v2) := by
  cases hv <;> simp only [negV] <;> trv
macro_rules | `(tactic| tr_rule) => `(tactic| with_reducible apply negV_tr)

theorem addLV_tr {x1 x2 : LinComb} (hx : vEq x1 x2) {o1 o2 : Val} (ho : VRel o1 o2) :
    Tr VRel (addLV x1 o1) (addLV x2 o2) := by
  cases ho <;> simp only [addLV] <;> trv

theorem addXV_tr {x1 x2 : LinComb} (hx : vEq x1 x2) {o1 o2 : Val} (ho : VRel o1 o2) :
    Tr VRel (addXV x1 o1) (addXV x2 o2) := by
  cases ho <;> simp only [addXV] <;> trv
macro_rules | `(tactic| tr_rule) => `(tactic| first
  | with_reducible apply addLV_tr | with_reducible apply addXV_tr)

theorem addV_tr {a1 a2 b1 b2 : Val} (ha : VRel a1 a2) (hb : VRel b1 b2) : Tr VRel (addV a1 b1) (addV a2 b2) := by
  cases ha <;> cases hb <;> simp only [addV] <;> trv
macro_rules | `(tactic| tr_rule) => `(tactic| with_reducible apply addV_tr)

theorem subV_tr {a1 a2 b1 b2 : Val} (ha : VRel a1 a2) (hb : VRel b1 b2) : Tr VRel (subV a1 b1) (subV a2 b2) := by
  cases ha <;> cases hb <;> simp only [subV] <;> trv
macro_rules | `(tactic| tr_rule) => `(tactic| with_reducible apply subV_tr)

end Pysnark
