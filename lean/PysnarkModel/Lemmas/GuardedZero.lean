import PysnarkModel.Lemmas.GuardedProgram
/-!
# `ZeroDivisionError` under a false guard, lifted to instructions and programs (C07, gap G2)

`backend.fieldinverse` raises `ZeroDivisionError` on a multiple of the modulus whatever the guard
(finding C07-field-zero-under-false-guard).  It is called by `check_zero` (hence `==`, `!=`,
`check_zero()`, `check_nonzero()`, secret array indices, `bit == 1` inside `**`/`<<` with a secret
exponent) on the tested value (or on 1 when the tested value is the integer 0), and by `LinComb / int`
on the divisor.  `assert_nonzero`/`assert_ne` invert only when `is_guard()` holds.

This file re-proves the dynamically typed layer of Lemmas/GuardedInertVal/Ops/Meth.lean with the
flag `zd` GENERIC (so in particular with `ZeroDivisionError` in the forbidden set), carrying at each
zero test the exact side condition `FieldOk p v` on the tested value `v`.  `stepOkZ`: the computable
condition on the operands an instruction is about to read.  Over a prime modulus `FieldOk p v` says
`v = 0 ∨ ¬ p ∣ v` (`fieldOk_iff_prime`).
-/
namespace Pysnark

variable {zd : Bool} {p : Int} {res : Nat}

/-- `FieldOk` as a Boolean -/
def fieldOkB (p v : Int) : Bool := (Py.invert (v + (if v == 0 then 1 else 0)) p).isSome

theorem fieldOkB_iff {p v : Int} : fieldOkB p v = true ↔ FieldOk p v := Iff.rfl

/-- the secret inside a value -/
def Val.secretOf : Val → Option LinComb
  | .lc x | .lcb x | .fxp x => some x
  | _ => Option.none

/-! ## arithmetic: no zero test anywhere -/

theorem negV_inertZ (v : Val) : Inert zd p res BoolV (negV v) := by
  cases v <;> simp only [negV] <;> inert

macro_rules | `(tactic| inert_rule) => `(tactic| first
  | with_reducible apply negV_inertZ)

theorem addLV_inertZ (x : LinComb) (o : Val) : Inert zd p res BoolV (addLV x o) := by
  cases o <;> simp only [addLV] <;> inert

theorem addXV_inertZ (x : LinComb) (o : Val) : Inert zd p res BoolV (addXV x o) := by
  cases o <;> simp only [addXV] <;> inert

macro_rules | `(tactic| inert_rule) => `(tactic| first
  | with_reducible apply addLV_inertZ
  | with_reducible apply addXV_inertZ)

theorem addV_inertZ (a b : Val) : Inert zd p res BoolV (addV a b) := by
  cases a <;> cases b <;> simp only [addV] <;> inert

macro_rules | `(tactic| inert_rule) => `(tactic| first
  | with_reducible apply addV_inertZ)

theorem subV_inertZ (a b : Val) : Inert zd p res BoolV (subV a b) := by
  cases a <;> cases b <;> simp only [subV] <;> inert

macro_rules | `(tactic| inert_rule) => `(tactic| first
  | with_reducible apply subV_inertZ)

theorem mulLV_inertZ (x : LinComb) (o : Val) : Inert zd p res BoolV (mulLV x o) := by
  cases o <;> simp only [mulLV] <;> inert

theorem mulXV_inertZ (x : LinComb) (o : Val) : Inert zd p res BoolV (mulXV x o) := by
  cases o <;> simp only [mulXV] <;> inert

macro_rules | `(tactic| inert_rule) => `(tactic| first
  | with_reducible apply mulLV_inertZ
  | with_reducible apply mulXV_inertZ)

theorem mulV_inertZ (a b : Val) : Inert zd p res BoolV (mulV a b) := by
  cases a <;> cases b <;> simp only [mulV] <;> inert

macro_rules | `(tactic| inert_rule) => `(tactic| first
  | with_reducible apply mulV_inertZ)

/-- `a // b`, `a % b`, `divmod(a, b)` with a divisor that is not zero -/
theorem divmodV_inertZ (w : DM) (a : Val) {b : Val} (hd : b.divisorZero res = false) :
    Inert zd p res BoolV (divmodV w a b) := by
  cases a <;> cases b <;> simp only [divmodV] <;> (try simp only [Val.divisorZero] at hd) <;> inert

macro_rules | `(tactic| inert_rule) => `(tactic| first
  | with_reducible apply divmodV_inertZ)


/-! ## true division: `LinComb / int` inverts the divisor in the field -/
/-- the divisor of `LinComb / int` is invertible modulo `p` -/
def truedivOkZ (p : Int) : Val → Val → Bool
  | .lc _, .int c => (Py.invert c p).isSome
  | _, _ => true

theorem truedivV_inertZ (a : Val) {b : Val} (hd : b.divisorZero res = false)
    (hz : zd = false → truedivOkZ p a b = true) : Inert zd p res BoolV (truedivV a b) := by
  cases a <;> cases b <;> simp only [truedivV] <;> (try simp only [Val.divisorZero] at hd) <;>
    (try simp only [truedivOkZ] at hz)
  case lc.int x c =>
    have hc : c ≠ 0 := by simpa using hd
    exact Inert.bind (truedivLI_inert x hc hz) (fun r _ => Inert.pure BoolV_lc)
  all_goals inert

/-! ## power and shifts: the exponent bits are compared with 1 (tested values 0 and −1) -/

macro_rules | `(tactic| inert_rule) => `(tactic| first
  | with_reducible apply powLL_inert)


theorem fieldOk_bool_of_small (hsm : SmallOk zd p) {v : Int} (hv : v = 0 ∨ v = 1) : zd = false → FieldOk p v := by
  intro hz
  obtain ⟨h0, h1, -⟩ := hsm hz
  rcases hv with rfl | rfl
  · exact h0
  · exact h1

theorem fieldOk_booldiff_of_small (hsm : SmallOk zd p) {a b : Int} (ha : a = 0 ∨ a = 1) (hb : b = 0 ∨ b = 1) :
    zd = false → FieldOk p (a - b) := by
  intro hz
  obtain ⟨h0, h1, hm1⟩ := hsm hz
  rcases ha with rfl | rfl <;> rcases hb with rfl | rfl
  · simpa using h0
  · simpa using hm1
  · simpa using h1
  · simpa using h0

/-- `a ** b`: over a modulus in which 0, 1, −1 pass the zero test (every prime) no field inversion fails -/
theorem powV_inertZ (hsm : SmallOk zd p) {a : Val} (ha : BoolV a) {b : Val} (hn : b.negInt = false) :
    Inert zd p res BoolV (powV a b) := by
  cases a
  case lcb x =>
    simp only [powV]
    refine Inert.bind (neLI_inert x 0 ?_) (fun r hr => Inert.pure (BoolV_lcb.mpr hr))
    intro hz
    have := fieldOk_bool_of_small hsm (BoolV_lcb.mp ha) hz
    simpa using this
  all_goals
    cases b <;> simp only [powV] <;> (try simp only [Val.negInt, decide_eq_false_iff_not] at hn) <;> inert

theorem lshiftLV_inertZ (hsm : SmallOk zd p) (x : LinComb) {b : Val} (hn : b.negInt = false) :
    Inert zd p res BoolV (lshiftLV x b) := by
  cases b <;> simp only [lshiftLV] <;> (try simp only [Val.negInt, decide_eq_false_iff_not] at hn) <;> inert

/-- `x >> b` for a public count; a negative PUBLIC count is Python's own `ValueError`.  (For a secret count the model, like the code, computes `2**b`
starting from `LinComb.ONE`, which is the guard: under a false guard the divisor is 0 and the
zero-division deviation fires whatever the operands are: `C07_cex_rshift_secret`.) -/
theorem rshiftLV_inertZ (x : LinComb) {b : Val} (hb : b.isLcG = false) (hn : b.negInt = false) :
    Inert zd p res BoolV (rshiftLV x b) := by
  cases b <;> simp only [rshiftLV] <;> (try simp only [Val.isLcG, reduceCtorEq] at hb) <;>
    (try simp only [Val.negInt, decide_eq_false_iff_not] at hn) <;> inert

theorem mkFxpNoScale_inertZ (v : Val) : Inert zd p res BoolV (mkFxpNoScale v) := by
  unfold mkFxpNoScale
  cases v <;> inert

macro_rules | `(tactic| inert_rule) => `(tactic| first
  | with_reducible apply rshiftLV_inertZ
  | with_reducible apply mkFxpNoScale_inertZ)


theorem lshiftV_inertZ (hsm : SmallOk zd p) (a : Val) {b : Val} (hn : b.negInt = false) :
    Inert zd p res BoolV (lshiftV a b) := by
  have key : ∀ x : LinComb, Inert zd p res BoolV (lshiftLV x b) := fun x => lshiftLV_inertZ hsm x hn
  cases a <;> cases b <;> simp only [lshiftV] <;> first
    | exact key _
    | exact Inert.bind (key _) (fun r _ => mkFxpNoScale_inertZ r)
    | inert

theorem rshiftV_inertZ (a : Val) {b : Val} (hb : b.isLcG = false) (hn : b.negInt = false) :
    Inert zd p res BoolV (rshiftV a b) := by
  cases a <;> cases b <;> simp only [rshiftV] <;> (try simp only [Val.isLcG, reduceCtorEq] at hb) <;> inert

/-! ## bitwise / logical: no zero test -/

/-- the three logical operators on two already constructed booleans -/
theorem bwAnd_keyZ {x y : LinComb} (hx : x.value = 0 ∨ x.value = 1) (hy : y.value = 0 ∨ y.value = 1) :
    Inert zd p res BoolV (do let pr ← mulLL x y; let r ← mkBool pr false; pure (.lcb r)) := by
  refine Inert.bind (mulLL_inert _ _) (fun pr hpr => ?_)
  have hb : pr.value = 0 ∨ pr.value = 1 := hpr ▸ bool_mul hx hy
  refine Inert.bind (mkBool_inert false hb) (fun r hr => Inert.pure ?_)
  subst hr; exact BoolV_lcb.mpr hb

theorem bwXor_keyZ {x y : LinComb} (hx : x.value = 0 ∨ x.value = 1) (hy : y.value = 0 ∨ y.value = 1) :
    Inert zd p res BoolV (do let pr ← mulLL (x.mulI 2) y; let r ← mkBool ((x.add y).sub pr) false; pure (.lcb r)) := by
  refine Inert.bind (mulLL_inert _ _) (fun pr hpr => ?_)
  have hb : ((x.add y).sub pr).value = 0 ∨ ((x.add y).sub pr).value = 1 := by
    rw [sub_value, add_value, hpr, mulI_value]; exact bool_xor_int hx hy
  refine Inert.bind (mkBool_inert false hb) (fun r hr => Inert.pure ?_)
  subst hr; exact BoolV_lcb.mpr hb

theorem bwOr_keyZ {x y : LinComb} (hx : x.value = 0 ∨ x.value = 1) (hy : y.value = 0 ∨ y.value = 1) :
    Inert zd p res BoolV (do let pr ← mulLL x y; let r ← mkBool ((x.add y).sub pr) false; pure (.lcb r)) := by
  refine Inert.bind (mulLL_inert _ _) (fun pr hpr => ?_)
  have hb : ((x.add y).sub pr).value = 0 ∨ ((x.add y).sub pr).value = 1 := by
    rw [sub_value, add_value, hpr]; exact bool_or_int hx hy
  refine Inert.bind (mkBool_inert false hb) (fun r hr => Inert.pure ?_)
  subst hr; exact BoolV_lcb.mpr hb

/-- … and with a plain operand, of which only the truth value is used -/
theorem bwAnd_constZ {x : LinComb} (hx : x.value = 0 ∨ x.value = 1) {c : Int} (hc : c = 0 ∨ c = 1) :
    Inert zd p res BoolV (do let r ← mkBool (x.mulI c) false; pure (.lcb r)) := by
  have hb : (x.mulI c).value = 0 ∨ (x.mulI c).value = 1 := by rw [mulI_value]; exact bool_mul hx hc
  refine Inert.bind (mkBool_inert false hb) (fun r hr => Inert.pure ?_)
  subst hr; exact BoolV_lcb.mpr hb

theorem bwXor_constZ {x : LinComb} (hx : x.value = 0 ∨ x.value = 1) {c : Int} (hc : c = 0 ∨ c = 1) :
    Inert zd p res BoolV (do let r ← mkBool ((x.addI c).sub ((x.mulI 2).mulI c)) false; pure (.lcb r)) := by
  have hb : ((x.addI c).sub ((x.mulI 2).mulI c)).value = 0 ∨ ((x.addI c).sub ((x.mulI 2).mulI c)).value = 1 := by
    rw [sub_value, addI_value, mulI_value, mulI_value]; exact bool_xor_int hx hc
  refine Inert.bind (mkBool_inert false hb) (fun r hr => Inert.pure ?_)
  subst hr; exact BoolV_lcb.mpr hb

theorem bwOr_constZ {x : LinComb} (hx : x.value = 0 ∨ x.value = 1) {c : Int} (hc : c = 0 ∨ c = 1) :
    Inert zd p res BoolV (do let r ← mkBool ((x.addI c).sub (x.mulI c)) false; pure (.lcb r)) := by
  have hb : ((x.addI c).sub (x.mulI c)).value = 0 ∨ ((x.addI c).sub (x.mulI c)).value = 1 := by
    rw [sub_value, addI_value, mulI_value]; exact bool_or_int hx hc
  refine Inert.bind (mkBool_inert false hb) (fun r hr => Inert.pure ?_)
  subst hr; exact BoolV_lcb.mpr hb

/-- `LinCombBool.__and__/__xor__/__or__`: a raw `LinComb` operand that is not 0/1 is rejected by
`_ensurebool` whatever the guard (finding C07-boolean-declaration-under-false-guard) -/
theorem bwBV_inertZ (op : BW) {x : LinComb} (hx : x.value = 0 ∨ x.value = 1) {o : Val} (ho : BoolV o)
    (hb : o.boolishLC = true) : Inert zd p res BoolV (bwBV op x o) := by
  cases op
  · cases o
    case lc y =>
      simp only [bwBV]
      exact Inert.bind (ensurebool_inert (v := .lc y) ho hb) (fun _ hy => bwAnd_keyZ hx hy)
    case lcb y =>
      simp only [bwBV]
      exact Inert.bind (ensurebool_inert (v := .lcb y) ho rfl) (fun _ hy => bwAnd_keyZ hx hy)
    all_goals (simp only [bwBV]; exact Inert.bind (truthy_inert _) (fun _ hc => bwAnd_constZ hx hc))
  · cases o
    case lc y =>
      simp only [bwBV]
      exact Inert.bind (ensurebool_inert (v := .lc y) ho hb) (fun _ hy => bwXor_keyZ hx hy)
    case lcb y =>
      simp only [bwBV]
      exact Inert.bind (ensurebool_inert (v := .lcb y) ho rfl) (fun _ hy => bwXor_keyZ hx hy)
    all_goals (simp only [bwBV]; exact Inert.bind (truthy_inert _) (fun _ hc => bwXor_constZ hx hc))
  · cases o
    case lc y =>
      simp only [bwBV]
      exact Inert.bind (ensurebool_inert (v := .lc y) ho hb) (fun _ hy => bwOr_keyZ hx hy)
    case lcb y =>
      simp only [bwBV]
      exact Inert.bind (ensurebool_inert (v := .lcb y) ho rfl) (fun _ hy => bwOr_keyZ hx hy)
    all_goals (simp only [bwBV]; exact Inert.bind (truthy_inert _) (fun _ hc => bwOr_constZ hx hc))

theorem bwLV_inertZ (op : BW) (x : LinComb) {o : Val} (ho : BoolV o)
    (hx : o.isLcbG = true → isBooleanValue x.value = true) : Inert zd p res BoolV (bwLV op x o) := by
  cases o
  case lcb y =>
    cases op
    · simp only [bwLV]
      exact bwBV_inertZ .and (BoolV_lcb.mp ho) BoolV_lc (hx rfl)
    all_goals (simp only [bwLV]; exact Inert.tyErr)
  all_goals (cases op <;> simp only [bwLV] <;> inert)

theorem bwV_inertZ (op : BW) {a b : Val} (ha : BoolV a) (hb : BoolV b) (hok : bwOk a b = true) :
    Inert zd p res BoolV (bwV op a b) := by
  simp only [bwOk, Bool.and_eq_true, Bool.or_eq_true, Bool.not_eq_true'] at hok
  obtain ⟨h1, h2⟩ := hok
  cases a
  case lc x =>
    simp only [bwV]
    refine bwLV_inertZ op x hb (fun hl => ?_)
    rcases h2 with h2 | h2
    · rw [hl] at h2; cases h2
    · exact h2
  case lcb x =>
    simp only [bwV]
    refine bwBV_inertZ op (BoolV_lcb.mp ha) hb ?_
    rcases h1 with h1 | h1
    · cases h1
    · exact h1
  case fxp x =>
    cases b <;> simp only [bwV] <;> first
      | exact Inert.tyErr
      | (split
         · exact bwBV_inertZ .and (BoolV_lcb.mp hb) BoolV_fxp rfl
         · exact Inert.tyErr)
  case int c =>
    cases b
    case lc y => simp only [bwV]; exact bwLV_inertZ op y BoolV_int (fun h => by cases h)
    case lcb y =>
      simp only [bwV]
      split
      · exact bwBV_inertZ .and (BoolV_lcb.mp hb) BoolV_int rfl
      · exact Inert.tyErr
    all_goals (simp only [bwV]; first | exact Inert.tyErr | exact Inert.raise rfl)
  all_goals
    cases b <;> simp only [bwV] <;> first
      | exact Inert.tyErr
      | exact Inert.raise rfl
      | (split
         · exact bwBV_inertZ .and (BoolV_lcb.mp hb) ha rfl
         · exact Inert.tyErr)

theorem checkPositiveV_inertZ (v : Val) : Inert zd p res BoolV (checkPositiveV v) := by
  cases v <;> simp only [checkPositiveV] <;> inert

macro_rules | `(tactic| inert_rule) => `(tactic| first
  | with_reducible apply checkPositiveV_inertZ)

/-! ## zero tests and comparisons -/
/-- `check_zero` on the secret inside `v` -/
theorem checkZeroV_inertZ (v : Val) (hv : zd = false → ∀ d, v.secretOf = some d → FieldOk p d.value) :
    Inert zd p res BoolV (checkZeroV v) := by
  cases v <;> simp only [checkZeroV] <;> first
    | exact Inert.raise rfl
    | exact Inert.bind (checkZero_inert _ (fun hz => hv hz _ rfl)) (fun r hr => Inert.pure (BoolV_lcb.mpr hr))

theorem checkNonzeroV_inertZ (v : Val) (hv : zd = false → ∀ d, v.secretOf = some d → FieldOk p d.value) :
    Inert zd p res BoolV (checkNonzeroV v) := by
  cases v <;> simp only [checkNonzeroV] <;> first
    | exact Inert.raise rfl
    | exact Inert.bind (checkNonzero_inert _ (fun hz => hv hz _ rfl)) (fun r hr => Inert.pure (BoolV_lcb.mpr hr))

/-- the wire expression `x - other` that `x == other` / `x != other` hands to `check_zero`
(`r`: the fixed-point resolution) -/
def diffOf (r : Nat) (x : LinComb) : Val → Option LinComb
  | .int c => some (x.addI (-c))
  | .lc y => some (x.add y.neg)
  | .lcb y => some (x.add y.neg)
  | .fxp y => some (y.neg.add (x.mulI (2 ^ r)))
  | _ => Option.none

/-- `x - other` computes exactly `diffOf` -/
theorem subV_lc_inertZ (x : LinComb) (o : Val) :
    Inert zd p res (fun d => ∀ dl, d.secretOf = some dl → diffOf res x o = some dl) (subV (.lc x) o) := by
  cases o <;> simp only [subV, negV]
  case int c =>
    refine Inert.bind (Inert.pure_eq _) (fun nb hnb => ?_)
    subst hnb
    simp only [addV, addLV]
    exact Inert.pure (fun dl h => by simpa [Val.secretOf, diffOf] using h)
  case lc y =>
    refine Inert.bind (Inert.pure_eq _) (fun nb hnb => ?_)
    subst hnb
    simp only [addV, addLV]
    exact Inert.pure (fun dl h => by simpa [Val.secretOf, diffOf] using h)
  case lcb y =>
    refine Inert.bind (Inert.pure_eq _) (fun nb hnb => ?_)
    subst hnb
    simp only [addV, addLV]
    exact Inert.pure (fun dl h => by simpa [Val.secretOf, diffOf] using h)
  case fxp y =>
    refine Inert.bind (Inert.pure_eq _) (fun nb hnb => ?_)
    subst hnb
    simp only [addV, addLV]
    refine Inert.bind getRes_inert (fun r hr => ?_)
    subst hr
    exact Inert.pure (fun dl h => by simpa [Val.secretOf, diffOf] using h)
  case flt m e =>
    refine Inert.bind (Inert.pure_eq _) (fun nb hnb => ?_)
    subst hnb
    simp only [addV, addLV]
    exact Inert.tyErr
  all_goals exact Inert.bind Inert.tyErr (fun _ (h : False) => h.elim)

def Cmp.isZeroTest : Cmp → Bool
  | .eq | .ne => true
  | _ => false

theorem Cmp.isZeroTest_mirror (op : Cmp) : op.mirror.isZeroTest = op.isZeroTest := by cases op <;> rfl

/-- `LinComb.__eq__(x, other)` etc.: the tested value of `==`/`!=` is the value of `diffOf` -/
theorem cmpLV_inertZ (op : Cmp) (x : LinComb) (o : Val)
    (hz : zd = false → op.isZeroTest = true → ∀ dl, diffOf res x o = some dl → FieldOk p dl.value) :
    Inert zd p res BoolV (cmpLV op x o) := by
  cases op <;> simp only [cmpLV]
  case eq =>
    exact Inert.bind (subV_lc_inertZ x o) (fun d hd => checkZeroV_inertZ d (fun h dl hdl => hz h rfl dl (hd dl hdl)))
  case ne =>
    exact Inert.bind (subV_lc_inertZ x o) (fun d hd => checkNonzeroV_inertZ d (fun h dl hdl => hz h rfl dl (hd dl hdl)))
  all_goals inert

theorem cmpLL_inertZ (op : Cmp) (x y : LinComb) (hz : zd = false → op.isZeroTest = true → FieldOk p (x.value - y.value)) :
    Inert zd p res (fun r => r.value = 0 ∨ r.value = 1) (cmpLL op x y) := by
  cases op <;> simp only [cmpLL]
  · exact ltLL_inert _ _
  · exact leLL_inert _ _
  · exact eqLL_inert _ _ (fun h => hz h rfl)
  · exact neLL_inert _ _ (fun h => hz h rfl)
  · exact gtLL_inert _ _
  · exact geLL_inert _ _

/-- the `LinComb` that `_ensurefxp` returns at resolution `r` -/
def fxpOf (r : Nat) : Val → Option LinComb
  | .fxp x => some x
  | .lc x => some (x.mulI (2 ^ r))
  | .lcb x => some (x.mulI (2 ^ r))
  | .int c => some (LinComb.const (c * 2 ^ r))
  | .flt m e => some (LinComb.const (scaleFlt m e r))
  | _ => Option.none

theorem ensurefxp_inertZ (v : Val) : Inert zd p res (fun y => fxpOf res v = some y) (ensurefxp v) := by
  unfold ensurefxp
  refine Inert.bind getRes_inert (fun r hr => ?_)
  subst hr
  cases v <;> first
    | exact Inert.pure rfl
    | exact Inert.raise rfl

/-- the wire expression whose value `a == b` / `a != b` tests for zero (none: no zero test, or a
test of two booleans, whose difference is 0, 1 or −1) -/
def cmpTested (r : Nat) (a b : Val) : Option LinComb :=
  match a with
  | .lc x => diffOf r x b
  | .lcb _ => Option.none
  | .fxp x => (fxpOf r b).map (fun y => x.sub y)
  | _ =>
    match b with
    | .lc y => diffOf r y a
    | .fxp y => (fxpOf r a).map (fun z => y.sub z)
    | _ => Option.none

def cmpOkZ (p : Int) (r : Nat) (a b : Val) : Bool :=
  match cmpTested r a b with
  | some d => fieldOkB p d.value
  | Option.none => true

theorem cmpV_inertZ (hsm : SmallOk zd p) (op : Cmp) {a b : Val} (ha : BoolV a) (hb : BoolV b) (hok : cmpOk a b = true)
    (hz : zd = false → op.isZeroTest = true → cmpOkZ p res a b = true) :
    Inert zd p res BoolV (cmpV op a b) := by
  simp only [cmpOk, Bool.and_eq_true, Bool.or_eq_true, Bool.not_eq_true'] at hok
  obtain ⟨h1, h2⟩ := hok
  have key : ∀ (o : LinComb) (v : Val), (o.value = 0 ∨ o.value = 1) → BoolV v → v.boolish = true → ∀ op' : Cmp,
      Inert zd p res BoolV (do let y ← ensurebool v; let r ← cmpLL op' o y; pure (.lcb r)) := by
    intro o v ho hv hvb op'
    refine Inert.bind (ensurebool_inert hv hvb) (fun y hy => ?_)
    exact Inert.bind (cmpLL_inertZ op' o y (fun h _ => fieldOk_booldiff_of_small hsm ho hy h))
      (fun r hr => Inert.pure (BoolV_lcb.mpr hr))
  have keyx : ∀ (o : LinComb) (v : Val) (op' : Cmp),
      (zd = false → op'.isZeroTest = true → ∀ y, fxpOf res v = some y → FieldOk p (o.sub y).value) →
      Inert zd p res BoolV (do let y ← ensurefxp v; let r ← cmpLL op' o y; pure (.lcb r)) := by
    intro o v op' hh
    refine Inert.bind (ensurefxp_inertZ v) (fun y hy => ?_)
    refine Inert.bind (cmpLL_inertZ op' o y (fun h ht => ?_)) (fun r hr => Inert.pure (BoolV_lcb.mpr hr))
    have := hh h ht y hy
    rwa [sub_value] at this
  -- the hypothesis `hz`, unfolded for the shapes that occur
  have hzL : ∀ (x : LinComb) (o : Val), cmpTested res a b = diffOf res x o →
      zd = false → op.isZeroTest = true → ∀ dl, diffOf res x o = some dl → FieldOk p dl.value := by
    intro x o he h ht dl hdl
    have := hz h ht
    simp only [cmpOkZ, he, hdl] at this
    exact fieldOkB_iff.mp this
  have hzX : ∀ (x : LinComb) (v : Val), cmpTested res a b = (fxpOf res v).map (fun y => x.sub y) →
      zd = false → op.isZeroTest = true → ∀ y, fxpOf res v = some y → FieldOk p (x.sub y).value := by
    intro x v he h ht y hy
    have := hz h ht
    simp only [cmpOkZ, he, hy, Option.map_some] at this
    exact fieldOkB_iff.mp this
  cases a
  case lc x =>
    cases b
    case fxp y =>
      simp only [cmpV]
      split
      · rename_i hs
        refine keyx y _ _ (fun _ ht => ?_)
        cases op <;> simp [Cmp.strict, Cmp.mirror, Cmp.isZeroTest] at hs ht
      · exact cmpLV_inertZ op x _ (hzL x _ rfl)
    all_goals (simp only [cmpV]; exact cmpLV_inertZ op x _ (hzL x _ rfl))
  case lcb x =>
    simp only [cmpV]
    refine key x b (BoolV_lcb.mp ha) hb ?_ op
    rcases h1 with h1 | h1
    · cases h1
    · exact h1
  case fxp x => simp only [cmpV]; exact keyx x b op (hzX x b rfl)
  all_goals
    cases b
    case lc y =>
      simp only [cmpV]
      exact cmpLV_inertZ _ y _ (by rw [Cmp.isZeroTest_mirror]; exact hzL y _ rfl)
    case lcb y =>
      simp only [cmpV]
      refine key y _ (BoolV_lcb.mp hb) ha ?_ _
      rcases h2 with h2 | h2
      · cases h2
      · exact h2
    case fxp y =>
      simp only [cmpV]
      exact keyx y _ _ (by rw [Cmp.isZeroTest_mirror]; exact hzX y _ rfl)
    all_goals (simp only [cmpV]; exact Inert.raise rfl)

/-! ## selection, unary operators, constructors: no zero test -/

theorem zipWithM'_inertZ {f : Val → Val → M Val} {P : Val → Val → Bool}
    (hf : ∀ t g, BoolV t → BoolV g → P t g = true → Inert zd p res BoolV (f t g)) :
    ∀ (ts gs : List Val), (∀ v ∈ ts, BoolV v) → (∀ v ∈ gs, BoolV v) → zipAllB P ts gs = true →
      Inert zd p res (fun rs => ∀ r ∈ rs, BoolV r) (zipWithM' f ts gs)
  | [], _, _, _, _ => by simp only [zipWithM']; exact Inert.pure (by simp)
  | _ :: _, [], _, _, _ => by simp only [zipWithM']; exact Inert.pure (by simp)
  | t :: ts, g :: gs, ht, hg, hP => by
    simp only [zipAllB, Bool.and_eq_true] at hP
    simp only [zipWithM']
    refine Inert.bind (hf t g (ht t (List.mem_cons_self ..)) (hg g (List.mem_cons_self ..)) hP.1) (fun r hr => ?_)
    refine Inert.bind (zipWithM'_inertZ hf ts gs (fun v hv => ht v (List.mem_cons_of_mem _ hv))
      (fun v hv => hg v (List.mem_cons_of_mem _ hv)) hP.2) (fun rs hrs => ?_)
    refine Inert.pure ?_
    intro v hv
    rcases List.mem_cons.mp hv with rfl | hv
    · exact hr
    · exact hrs v hv

theorem iteAux_inertZ {cond : LinComb} (hc : cond.value = 0 ∨ cond.value = 1) : ∀ (fuel : Nat) (t f : Val), BoolV t → BoolV f →
    zipOk fuel t f = true → Inert zd p res BoolV (iteAux cond fuel t f) := by
  intro fuel
  induction fuel with
  | zero => intro t f _ _ _; simp only [iteAux]; exact Inert.raise rfl
  | succ n ih =>
    intro t f ht hf hzk
    by_cases hbb : bothLcb t f = true
    · cases t <;> cases f <;> simp only [bothLcb, reduceCtorEq] at hbb
      rw [iteAux_bb]
      exact iteBB_inert hc (BoolV_lcb.mp ht) (BoolV_lcb.mp hf)
    simp only [iteAux]
    split
    · exact Inert.pure ht
    · rename_i hns
      have generic : ∀ f' : Val, bothLcb t f' = false → Inert zd p res BoolV (do
          let d ← subV t f'
          let prod ← mulLV cond d
          let ret ← addV f' prod
          iteTag t f' ret) := by
        intro f' hb'
        refine Inert.bind (subV_inertZ _ _) (fun d _ => ?_)
        refine Inert.bind (mulLV_inertZ _ _) (fun pr _ => ?_)
        refine Inert.bind (addV_inertZ _ _) (fun ret hret => ?_)
        rw [iteTag_other ret hb']
        exact Inert.pure hret
      cases t
      case list ts =>
        cases f
        case list fs =>
          obtain ⟨hl, hz'⟩ := zipOk_list hzk
          dsimp only
          rw [if_pos hl]
          refine Inert.bind (zipWithM'_inertZ (fun a b ha hb hab => ih a b ha hb hab) ts fs (BoolV_list.mp ht) (BoolV_list.mp hf) hz')
            (fun rs hrs => Inert.pure (BoolV_list.mpr hrs))
        case tuple fs =>
          obtain ⟨hl, hz'⟩ := zipOk_tuple hzk
          dsimp only
          rw [if_pos hl]
          refine Inert.bind (zipWithM'_inertZ (fun a b ha hb hab => ih a b ha hb hab) ts fs (BoolV_list.mp ht) (BoolV_tuple.mp hf) hz')
            (fun rs hrs => Inert.pure (BoolV_list.mpr hrs))
        all_goals exact Inert.tyErr
      case fxp x =>
        dsimp only
        refine Inert.bind (Inert.bind (ensurefxp_inert (zd := zd) f) (fun y _ => Inert.pure (Q := fun _ => True) trivial))
          (fun f' _ => generic f' rfl)
      all_goals
        dsimp only
        exact Inert.bind (Inert.pure (Q := fun f' => f' = f) rfl) (fun f' hf' => generic f' (by subst hf'; simpa using hbb))

/-- the condition operand of `if_then_else`: a public `int` must be 0/1 (Python-level `ValueError`
on a public operand) -/
theorem ifThenElse_inertZ {cond : Val} (same : Bool) {t f : Val} (hc : iteOk cond = true) (hcb : BoolV cond) (ht : BoolV t) (hf : BoolV f)
    (hsel : selOk t f = true) : Inert zd p res BoolV (ifThenElse cond same t f) := by
  unfold ifThenElse
  split
  · exact Inert.pure ht
  · cases cond
    case int c =>
      have hcb : c = 0 ∨ c = 1 := isBooleanValue_iff.mp hc
      dsimp only
      have : (c != 0 && c != 1) = false := by rcases hcb with rfl | rfl <;> rfl
      simp only [this, Bool.false_eq_true, if_false]
      refine Inert.pure ?_
      split <;> assumption
    case lcb c => exact iteAux_inertZ (BoolV_lcb.mp hcb) _ t f ht hf hsel
    all_goals exact Inert.raise rfl

theorem unV_inertZ (op : Un) {a : Val} (ha : BoolV a) : Inert zd p res BoolV (unV op a) := by
  cases op <;> cases a <;> simp only [unV] <;> first
    | exact negV_inertZ _
    | exact Inert.pure ha
    | exact Inert.raise rfl
    | exact Inert.tyErr
    | exact Inert.bind (absL_inert _) (fun _ _ => Inert.pure BoolV_lc)
    | exact Inert.bind (invertL_inert _) (fun _ _ => Inert.pure (BoolV_ofFB _))
    | exact Inert.bind (boolNot_inert (BoolV_lcb.mp ha)) (fun _ hr => Inert.pure (BoolV_lcb.mpr hr.2))
    | inert

/-- `PrivValBool(c)` / `PubValBool(c)` on a literal that is not 0/1 raise whatever the guard
(finding C07-boolean-declaration-under-false-guard) -/
theorem mkVal_inertZ {k : Kind} {v : Val} (hok : mkOk k v = true) : Inert zd p res BoolV (mkVal k v) := by
  cases k <;> cases v <;> simp only [mkVal] <;> first
    | exact Inert.raise rfl
    | exact Inert.bind (privValBool_inert (isBooleanValue_iff.mp hok))
        (fun x hx => Inert.pure (BoolV_lcb.mpr (hx ▸ isBooleanValue_iff.mp hok)))
    | exact Inert.bind (pubValBool_inert (isBooleanValue_iff.mp hok))
        (fun x hx => Inert.pure (BoolV_lcb.mpr (hx ▸ isBooleanValue_iff.mp hok)))
    | inert

/-- `LinCombBool(x)` on a value that is not 0/1 raises whatever the guard -/
theorem wrapBool_inertZ {v : Val} (hb : v.boolishLC = true) : Inert zd p res BoolV (wrapBool v) := by
  unfold wrapBool
  cases v
  case lc x =>
    have hx : x.value = 0 ∨ x.value = 1 := isBooleanValue_iff.mp hb
    exact Inert.bind (mkBool_inert true hx) (fun r hr => Inert.pure (BoolV_lcb.mpr (hr ▸ hx)))
  all_goals exact Inert.raise rfl

theorem wrapFxp_inertZ (v : Val) : Inert zd p res BoolV (wrapFxp v) := by
  unfold wrapFxp
  cases v <;> inert


/-! ## methods -/
def Meth.isZeroTest : Meth → Bool
  | .checkZero | .checkNonzero => true
  | _ => false

/-- the operand condition of `x.check_zero()` / `x.check_nonzero()` -/
def callOkZ (p : Int) (m : Meth) (self : Val) : Bool :=
  !m.isZeroTest || match self.secretOf with
    | some d => fieldOkB p d.value
    | Option.none => true

theorem callOkZ_use {m : Meth} {self : Val} {x : LinComb} (hs : self.secretOf = some x)
    (hz : zd = false → callOkZ p m self = true) : zd = false → m.isZeroTest = true → FieldOk p x.value := by
  intro h hm
  have := hz h
  simp only [callOkZ, hm, hs, Bool.not_true, Bool.false_or] at this
  exact fieldOkB_iff.mp this

theorem callMeth_lc_inertZ (m : Meth) (x : LinComb) (args : List Val)
    (hz : zd = false → m.isZeroTest = true → FieldOk p x.value) : Inert zd p res BoolV (callMeth m (.lc x) args) := by
  cases m <;> simp only [callMeth]
  case toBits =>
    refine Inert.bind (argNat?_inert _) (fun n _ => ?_)
    exact Inert.bind (toBits_inert x n) (fun bs hbs => Inert.pure (BoolV_map_lcb hbs.bool))
  case checkZero =>
    exact Inert.bind (checkZero_inert x (fun h => hz h rfl)) (fun r hr => Inert.pure (BoolV_lcb.mpr hr))
  case checkNonzero =>
    exact Inert.bind (checkNonzero_inert x (fun h => hz h rfl)) (fun r hr => Inert.pure (BoolV_lcb.mpr hr))
  all_goals inert

theorem callMeth_fxp_inertZ (m : Meth) (x : LinComb) (args : List Val)
    (hz : zd = false → m.isZeroTest = true → FieldOk p x.value) : Inert zd p res BoolV (callMeth m (.fxp x) args) := by
  cases m <;> simp only [callMeth]
  case checkZero =>
    exact Inert.bind (checkZero_inert x (fun h => hz h rfl)) (fun r hr => Inert.pure (BoolV_lcb.mpr hr))
  case checkNonzero =>
    exact Inert.bind (checkNonzero_inert x (fun h => hz h rfl)) (fun r hr => Inert.pure (BoolV_lcb.mpr hr))
  all_goals inert

theorem callMeth_lcb_inertZ (m : Meth) {x : LinComb} (hx : x.value = 0 ∨ x.value = 1) {args : List Val}
    (hargs : ∀ v ∈ args, BoolV v) (hok : callOk m (.lcb x) args = true)
    (hz : zd = false → m.isZeroTest = true → FieldOk p x.value) : Inert zd p res BoolV (callMeth m (.lcb x) args) := by
  have key : ∀ o : Val, BoolV o → o.boolish = true →
      Inert zd p res BoolV (do let y ← ensurebool o; assertCmp m x y; pure .none) := by
    intro o ho hob
    refine Inert.bind (ensurebool_inert ho hob) (fun y _ => ?_)
    exact Inert.bind (assertCmp_inert m x y) (fun _ _ => Inert.pure BoolV_none)
  have hcz : m = .checkZero → Inert zd p res BoolV (do let r ← checkZero x; pure (.lcb r)) := by
    intro hm
    subst hm
    exact Inert.bind (checkZero_inert x (fun h => hz h rfl)) (fun r hr => Inert.pure (BoolV_lcb.mpr hr))
  rcases args with _ | ⟨o, _ | ⟨o2, rest⟩⟩
  · cases m <;> simp only [callMeth, List.isEmpty_nil, if_true]
    case checkZero => exact hcz rfl
    all_goals inert
  · have ho : BoolV o := hargs o (by simp)
    have hkey : m.isAssertCmp = true → Inert zd p res BoolV (do let y ← ensurebool o; assertCmp m x y; pure .none) := by
      intro hm
      refine key o ho ?_
      simpa [callOk, hm] using hok
    cases m <;> simp only [callMeth, List.isEmpty_cons, Bool.false_eq_true, if_false]
    case assertLt => exact hkey rfl
    case assertLe => exact hkey rfl
    case assertEq => exact hkey rfl
    case assertNe => exact hkey rfl
    case assertGt => exact hkey rfl
    case assertGe => exact hkey rfl
    case checkZero => exact hcz rfl
    all_goals inert
  · cases m <;> simp only [callMeth, List.isEmpty_cons, Bool.false_eq_true, if_false]
    case checkZero => exact hcz rfl
    all_goals inert

theorem callMeth_inertZ (m : Meth) {self : Val} {args : List Val} (hs : BoolV self) (hargs : ∀ v ∈ args, BoolV v)
    (hok : callOk m self args = true) (hz : zd = false → callOkZ p m self = true) :
    Inert zd p res BoolV (callMeth m self args) := by
  cases self
  case lc x => exact callMeth_lc_inertZ m x args (callOkZ_use rfl hz)
  case lcb x => exact callMeth_lcb_inertZ m (BoolV_lcb.mp hs) hargs hok (callOkZ_use rfl hz)
  case fxp x => exact callMeth_fxp_inertZ m x args (callOkZ_use rfl hz)
  case list xs => cases m <;> simp only [callMeth] <;> inert
  all_goals (simp only [callMeth]; exact Inert.raise rfl)

/-! ## arrays: a secret index is compared with every position -/
/-- `item == k` passes the field inversion for every position `i ≤ k < i + n` -/
def idxOkZ (p : Int) (item : LinComb) (i n : Nat) : Bool :=
  (List.range n).all fun k => fieldOkB p (item.value - ((i + k : Nat) : Int))

theorem idxOkZ_succ {item : LinComb} {i n : Nat} (h : idxOkZ p item i (n+1) = true) :
    FieldOk p (item.value - (i : Int)) ∧ idxOkZ p item (i+1) n = true := by
  unfold idxOkZ at h ⊢
  rw [List.all_eq_true] at h
  constructor
  · have := h 0 (by simp)
    simpa using fieldOkB_iff.mp this
  · rw [List.all_eq_true]
    intro k hk
    have := h (k+1) (by simp at hk ⊢; omega)
    have e : i + (k + 1) = i + 1 + k := by omega
    rw [e] at this
    exact this

theorem oneHot_inertZ (item : LinComb) : ∀ (n i : Nat), (zd = false → idxOkZ p item i n = true) →
    Inert zd p res (fun rs => ∀ r ∈ rs, r.value = 0 ∨ r.value = 1) (oneHot item i n)
  | 0, i, _ => by simp only [oneHot]; exact Inert.pure (by simp)
  | n+1, i, hz => by
    simp only [oneHot]
    refine Inert.bind (eqLI_inert item i (fun h => (idxOkZ_succ (hz h)).1)) (fun c hc => ?_)
    refine Inert.bind (oneHot_inertZ item n (i+1) (fun h => (idxOkZ_succ (hz h)).2)) (fun rest hrest => Inert.pure ?_)
    intro r hr
    rcases List.mem_cons.mp hr with rfl | hr
    · exact hc
    · exact hrest r hr

theorem foldlM_addV_inertZ : ∀ (ps : List Val) (acc : Val), BoolV acc →
    Inert zd p res BoolV (ps.foldlM (fun acc x => addV acc x) acc)
  | [], acc, h => by
    simp only [List.foldlM_nil]
    exact Inert.pure h
  | x :: xs, acc, _ => by
    simp only [List.foldlM_cons]
    exact Inert.bind (addV_inertZ acc x) (fun r hr => foldlM_addV_inertZ xs r hr)

theorem linComb_inertZ (ixs : List LinComb) (arr : List Val) : Inert zd p res BoolV (linComb ixs arr) := by
  unfold linComb
  refine Inert.bind (mapM'_inert (A := fun _ => True) (B := BoolV) (fun cv _ => mulLV_inertZ cv.1 cv.2) _
    (fun _ _ => trivial)) (fun prods hprods => ?_)
  cases prods with
  | nil => exact Inert.pure BoolV_int
  | cons q qs =>
    dsimp only
    exact Inert.bind (addV_inertZ _ _) (fun first hfirst => foldlM_addV_inertZ qs first hfirst)


theorem arrayIxs_inertZ (item : LinComb) (n : Nat) (hz : zd = false → idxOkZ p item 0 n = true) :
    Inert zd p res (fun rs => ∀ r ∈ rs, r.value = 0 ∨ r.value = 1) (arrayIxs item n) := by
  unfold arrayIxs
  refine Inert.bind (arrayCheck_inert _ _) (fun _ _ => ?_)
  refine Inert.bind (oneHot_inertZ item n 0 hz) (fun ixs hixs => ?_)
  cases sumBools ixs with
  | none => exact Inert.raise rfl
  | some sm =>
    dsimp only
    refine Inert.bind (ensurelcI_inert 1) (fun one _ => ?_)
    exact Inert.bind (assertEq_inert sm one) (fun _ _ => Inert.pure hixs)

/-- the operand condition of `arr[item]` / `arr[item] = v` for a secret index -/
def agetOkZ (p : Int) (arr item : Val) : Bool :=
  match arr, item with
  | .list xs, .lc it => idxOkZ p it 0 xs.length
  | _, _ => true

theorem arrayGet_inertZ {arr : List Val} (harr : ∀ v ∈ arr, BoolV v) (item : Val)
    (hz : zd = false → agetOkZ p (.list arr) item = true) : Inert zd p res BoolV (arrayGet arr item) := by
  unfold arrayGet
  cases item
  case int i =>
    dsimp only
    cases pyIndex arr.length i with
    | none => exact Inert.raise rfl
    | some k =>
      dsimp only
      cases hk : arr[k]? with
      | none => exact Inert.raise rfl
      | some v => exact Inert.pure (harr v (List.mem_of_getElem? hk))
  case lc it =>
    dsimp only
    exact Inert.bind (arrayIxs_inertZ it _ hz) (fun ixs _ => linComb_inertZ ixs arr)
  all_goals exact Inert.tyErr

theorem arraySet_inertZ {arr : List Val} (harr : ∀ v ∈ arr, BoolV v) (item : Val) {v : Val} (hv : BoolV v)
    (hz : zd = false → agetOkZ p (.list arr) item = true) (hok : asetOk arr item v = true) :
    Inert zd p res (fun rs => ∀ r ∈ rs, BoolV r) (arraySet arr item v) := by
  unfold arraySet
  cases item
  case int i =>
    dsimp only
    cases pyIndex arr.length i with
    | none => exact Inert.raise rfl
    | some k =>
      refine Inert.pure ?_
      intro r hr
      rcases List.mem_or_eq_of_mem_set hr with h | rfl
      · exact harr r h
      · exact hv
  case lc it =>
    dsimp only
    refine Inert.bind (arrayIxs_inertZ it _ hz) (fun ixs hixs => ?_)
    simp only [asetOk, List.all_eq_true] at hok
    refine mapM'_inert (A := fun (cv : LinComb × Val) => (cv.1.value = 0 ∨ cv.1.value = 1) ∧ BoolV cv.2 ∧ selOk v cv.2 = true) (B := BoolV)
      (fun cv hcv => ifThenElse_inertZ false rfl (BoolV_lcb.mpr hcv.1) hv hcv.2.1 hcv.2.2) _ ?_
    intro cv hcv
    obtain ⟨h1, h2⟩ := List.of_mem_zip hcv
    exact ⟨hixs _ h1, harr _ h2, hok _ h2⟩
  all_goals exact Inert.tyErr

/-! ## instructions -/
/-- the zero-test condition of a binary operator -/
def binOkZ (p : Int) (r : Nat) (op : BinOp) (a b : Val) : Bool :=
  match op with
  | .truediv => truedivOkZ p a b
  | .eq | .ne => cmpOkZ p r a b
  | _ => true

theorem binopV_inertZ (hsm : SmallOk zd p) {op : BinOp} {a b : Val} (ha : BoolV a) (hb : BoolV b)
    (hok : binOk res op a b = true) (hz : zd = false → binOkZ p res op a b = true) :
    Inert zd p res BoolV (binopV op a b) := by
  cases op <;> simp only [binopV] <;> simp only [binOk, Bool.not_eq_true'] at hok <;> simp only [binOkZ] at hz
  case add => exact addV_inertZ _ _
  case sub => exact subV_inertZ _ _
  case mul => exact mulV_inertZ _ _
  case truediv => exact truedivV_inertZ _ hok hz
  case floordiv => exact divmodV_inertZ _ _ hok
  case mod => exact divmodV_inertZ _ _ hok
  case divmod => exact divmodV_inertZ _ _ hok
  case pow => exact powV_inertZ hsm ha hok
  case lshift => exact lshiftV_inertZ hsm _ hok
  case rshift =>
    simp only [Bool.and_eq_true, Bool.not_eq_true'] at hok
    exact rshiftV_inertZ _ hok.1 hok.2
  case band => exact bwV_inertZ _ ha hb hok
  case bxor => exact bwV_inertZ _ ha hb hok
  case bor => exact bwV_inertZ _ ha hb hok
  case eq => exact cmpV_inertZ hsm _ ha hb hok (fun h _ => hz h)
  case ne => exact cmpV_inertZ hsm _ ha hb hok (fun h _ => hz h)
  all_goals exact cmpV_inertZ hsm _ ha hb hok (fun _ h => by cases h)

/-- **no field inversion of a non-zero multiple of the modulus**: the instruction, on the operands
it is about to read, performs no zero test of such a value and no division by such a public
integer (computable; everything not listed performs no data-dependent field inversion at all
under a false guard) -/
def stepOkZ (p : Int) (r : Nat) (regs : List Val) : Instr → Bool
  | .bin op a b => binOkZ p r op (regD regs a) (regD regs b)
  | .call m self _ => callOkZ p m (regD regs self)
  | .aget a i => agetOkZ p (regD regs a) (regD regs i)
  | .aset a i _ => agetOkZ p (regD regs a) (regD regs i)
  | _ => true

/-! ## entering a nested region under a false guard: the AND gadget performs no field inversion -/
theorem addGuard_inertZ (zd : Bool) {cond : Val} {s : St} (hs : FalseGuard s) :
    (∀ bak s', addGuard cond s = .ok (bak, s') → FalseGuard s' ∧ FalseBak bak ∧ s'.p = s.p) ∧
    (∀ e, addGuard cond s = .error e → Bad zd e = false) := by
  obtain ⟨g, hg, g0⟩ := hs.guard
  unfold addGuard addGuardCore
  generalize unwrapBoolCond cond = cv
  dsimp only
  cases cv
  case lc c =>
    simp only [hs.ign, Bool.not_true, Bool.false_and, Bool.false_eq_true, if_false, hg]
    simp only [bwLV]
    have hm : Inert zd s.p s.resolution (fun v => ∀ g', v = Val.lc g' → g'.value = 0)
        (andLL g c >>= fun r => pure (ofFB r)) :=
      Inert.bind (andLL_zero_inert c g0) (fun o ho => Inert.pure (fun g' hg' => by
        cases o with
        | none => simp [ofFB] at hg'
        | some r => simp only [ofFB, Val.lc.injEq] at hg'; subst hg'; exact ho r rfl))
    obtain ⟨hok, herr⟩ := hm s hs rfl rfl
    cases hrun : (andLL g c >>= fun r => pure (ofFB r)) s with
    | error e =>
      constructor
      · intro bak s' h; cases h
      · intro e' h
        simp only [Except.error.injEq] at h
        subst h
        exact herr e hrun
    | ok r =>
      obtain ⟨v, s1⟩ := r
      obtain ⟨hv, k⟩ := hok v s1 hrun
      cases v
      case lc g' =>
        constructor
        · intro bak s' h
          simp only [Except.ok.injEq, Prod.mk.injEq] at h
          obtain ⟨rfl, rfl⟩ := h
          refine ⟨⟨?_, g', rfl, hv g' rfl⟩, ⟨rfl, g, rfl, g0⟩, k.p⟩
          simp only [k.ign, hs.ign, Bool.true_or]
        · intro e h; cases h
      all_goals
        constructor
        · intro bak s' h; cases h
        · intro e h
          simp only [Except.error.injEq] at h
          subst h; rfl
  case int c =>
    dsimp only
    constructor
    · intro bak s' h
      split at h
      · cases h
      · split at h
        · cases h
        · cases h
          exact ⟨hs, ⟨hs.ign, g, hg, g0⟩, rfl⟩
    · intro e h
      split at h
      · cases h; rfl
      · split at h
        · cases h; rfl
        · cases h
  all_goals
    constructor
    · intro bak s' h; cases h
    · intro e h; cases h; rfl



/-! ## one instruction -/
theorem step_inert_plainZ (hsm : SmallOk zd p) {regs : List Val} {frames : List GuardBak} {i : Instr}
    (hplain : i.isPlainOp = true) (hregs : ∀ v ∈ regs, BoolV v) (hok : stepOk res regs i = true)
    (hz : zd = false → stepOkZ p res regs i = true) :
    Inert zd p res (StepPost frames) (step regs frames i) := by
  cases i
  case lit w =>
    simp only [step]
    exact Inert.pure ⟨BoolV_of_noSecret w hok, hregs, rfl⟩
  case mk k a =>
    simp only [step]
    refine Inert.bind (getReg_inert regs a) (fun v hv => ?_)
    simp only [stepOk, hv.2] at hok
    exact Inert.bind (mkVal_inertZ hok) (fun r hr => Inert.pure ⟨hr, hregs, rfl⟩)
  case wrapb a =>
    simp only [step]
    refine Inert.bind (getReg_inert regs a) (fun v hv => ?_)
    simp only [stepOk, hv.2] at hok
    exact Inert.bind (wrapBool_inertZ hok) (fun r hr => Inert.pure ⟨hr, hregs, rfl⟩)
  case wrapx a =>
    simp only [step]
    refine Inert.bind (getReg_inert regs a) (fun v hv => ?_)
    exact Inert.bind (wrapFxp_inertZ v) (fun r hr => Inert.pure ⟨hr, hregs, rfl⟩)
  case bin op a b =>
    simp only [step]
    refine Inert.bind (getReg_inert regs a) (fun x hx => ?_)
    refine Inert.bind (getReg_inert regs b) (fun y hy => ?_)
    simp only [stepOk, hx.2, hy.2] at hok
    simp only [stepOkZ, hx.2, hy.2] at hz
    exact Inert.bind (binopV_inertZ hsm (hregs x hx.1) (hregs y hy.1) hok hz) (fun r hr => Inert.pure ⟨hr, hregs, rfl⟩)
  case un op a =>
    simp only [step]
    refine Inert.bind (getReg_inert regs a) (fun x hx => ?_)
    exact Inert.bind (unV_inertZ op (hregs x hx.1)) (fun r hr => Inert.pure ⟨hr, hregs, rfl⟩)
  case call m self args =>
    simp only [step]
    refine Inert.bind (getReg_inert regs self) (fun x hx => ?_)
    refine Inert.bind (getRegs_inert regs args) (fun as has => ?_)
    simp only [stepOk, hx.2, has.2] at hok
    simp only [stepOkZ, hx.2] at hz
    exact Inert.bind (callMeth_inertZ m (hregs x hx.1) (fun v hv => hregs v (has.1 v hv)) hok hz)
      (fun r hr => Inert.pure ⟨hr, hregs, rfl⟩)
  case ite c t f =>
    simp only [step]
    refine Inert.bind (getReg_inert regs c) (fun cv hc => ?_)
    refine Inert.bind (getReg_inert regs t) (fun tv ht => ?_)
    refine Inert.bind (getReg_inert regs f) (fun fv hf => ?_)
    simp only [stepOk, hc.2, ht.2, hf.2, Bool.and_eq_true] at hok
    exact Inert.bind (ifThenElse_inertZ _ hok.1 (hregs cv hc.1) (hregs tv ht.1) (hregs fv hf.1) hok.2) (fun r hr => Inert.pure ⟨hr, hregs, rfl⟩)
  case list xs =>
    simp only [step]
    refine Inert.bind (getRegs_inert regs xs) (fun vs hvs => ?_)
    exact Inert.pure ⟨BoolV_list.mpr (fun v hv => hregs v (hvs.1 v hv)), hregs, rfl⟩
  case arr xs =>
    simp only [step]
    refine Inert.bind (getRegs_inert regs xs) (fun vs hvs => ?_)
    exact Inert.pure ⟨BoolV_list.mpr (fun v hv => hregs v (hvs.1 v hv)), hregs, rfl⟩
  case idx a k =>
    simp only [step]
    refine Inert.bind (getReg_inert regs a) (fun v hv => ?_)
    have key : ∀ xs : List Val, (∀ w ∈ xs, BoolV w) → Inert zd p res (StepPost frames)
        (match pyIndex xs.length k with
          | some j => match xs[j]? with
            | some x => pure (x, regs, frames)
            | Option.none => raise .index
          | Option.none => raise .index : M (Val × List Val × List GuardBak)) := by
      intro xs hxs
      cases pyIndex xs.length k with
      | none => exact Inert.raise rfl
      | some j =>
        dsimp only
        cases hj : xs[j]? with
        | none => exact Inert.raise rfl
        | some x => exact Inert.pure ⟨hxs x (List.mem_of_getElem? hj), hregs, rfl⟩
    cases v
    case list xs => exact key xs (BoolV_list.mp (hregs _ hv.1))
    case tuple xs => exact key xs (BoolV_tuple.mp (hregs _ hv.1))
    all_goals exact Inert.tyErr
  case aget a k =>
    simp only [step]
    refine Inert.bind (getReg_inert regs a) (fun av ha => ?_)
    refine Inert.bind (getReg_inert regs k) (fun iv hi => ?_)
    simp only [stepOkZ, ha.2, hi.2] at hz
    cases av
    case list xs =>
      exact Inert.bind (arrayGet_inertZ (BoolV_list.mp (hregs _ ha.1)) iv hz) (fun r hr => Inert.pure ⟨hr, hregs, rfl⟩)
    all_goals exact Inert.tyErr
  case aset a k w =>
    simp only [step]
    refine Inert.bind (getReg_inert regs a) (fun av ha => ?_)
    refine Inert.bind (getReg_inert regs k) (fun iv hi => ?_)
    refine Inert.bind (getReg_inert regs w) (fun vv hv => ?_)
    simp only [stepOkZ, ha.2, hi.2] at hz
    simp only [stepOk, ha.2, hi.2, hv.2] at hok
    cases av
    case list xs =>
      refine Inert.bind (arraySet_inertZ (BoolV_list.mp (hregs _ ha.1)) iv (hregs _ hv.1) hz hok) (fun xs' hxs' => ?_)
      refine Inert.pure ⟨BoolV_none, ?_, rfl⟩
      intro z hz
      rcases List.mem_or_eq_of_mem_set hz with hz | rfl
      · exact hregs z hz
      · exact BoolV_list.mpr hxs'
    all_goals exact Inert.tyErr
  all_goals simp [Instr.isPlainOp] at hplain



/-- **one instruction under a false guard, `ZeroDivisionError` included**: from boolean-clean
registers an instruction that is none of the listed deviations (`stepOk`) and performs no field
inversion of a non-zero multiple of the modulus (`stepOkZ`) raises no value-caused exception at all -/
theorem step_err_false_guardZ {s : St} {regs : List Val} {frames : List GuardBak} {i : Instr} {e : Err}
    (hs : FalseGuard s) (hsm : SmallOk zd s.p) (hregs : ∀ v ∈ regs, BoolV v) (hok : stepOk s.resolution regs i = true)
    (hz : zd = false → stepOkZ s.p s.resolution regs i = true)
    (h : step regs frames i s = .error e) : Bad zd e = false := by
  by_cases hplain : i.isPlainOp = true
  · exact ((step_inert_plainZ (frames := frames) hsm hplain hregs hok hz) s hs rfl rfl).2 e h
  · cases i
    case genter c =>
      simp only [step] at h
      rcases bind_err.mp h with h1 | ⟨cv, s1, h1, h⟩
      · exact ((getReg_inert (zd := zd) (p := s.p) (res := s.resolution) regs c) s hs rfl rfl).2 e h1
      · obtain ⟨rfl, _⟩ := getReg_ok h1
        rcases bind_err.mp h with h2 | ⟨bak, s2, _, h⟩
        · exact (addGuard_inertZ zd hs).2 e h2
        · cases h
    case gleave =>
      cases frames with
      | nil =>
        simp only [step] at h
        cases h; cases zd <;> rfl
      | cons b rest =>
        have hk : step regs (b :: rest) Instr.gleave s =
            .ok ((Val.none, regs, rest), { s with guard := b.guard, ignoreErrors := b.ignoreErrors, one := b.one }) := rfl
        rw [hk] at h
        cases h
    case setBl n =>
      simp only [step] at h
      rcases bind_err.mp h with h2 | ⟨u, s2, _, h⟩
      · cases h2
      · cases h
    case setRes n =>
      simp only [step] at h
      rcases bind_err.mp h with h2 | ⟨u, s2, _, h⟩
      · cases h2
      · cases h
    case setIgn b => simp [stepOk] at hok
    all_goals simp [Instr.isPlainOp] at hplain

/-- the instructions that can perform a data-dependent field inversion under a false guard: `/`,
`==`, `!=`, `check_zero()`, `check_nonzero()`, array access (secret index) -/
def Instr.zeroSite : Instr → Bool
  | .bin .truediv _ _ | .bin .eq _ _ | .bin .ne _ _ => true
  | .call m _ _ => m.isZeroTest
  | .aget _ _ | .aset _ _ _ => true
  | _ => false

theorem zeroSite_of_stepOkZ_false {p : Int} {r : Nat} {regs : List Val} {i : Instr} (h : stepOkZ p r regs i = false) :
    i.zeroSite = true := by
  cases i <;> simp only [stepOkZ, Instr.zeroSite, reduceCtorEq] at h ⊢
  case bin op a b => cases op <;> simp_all [binOkZ]
  case call m self args =>
    simp only [callOkZ, Bool.or_eq_false_iff, Bool.not_eq_false'] at h
    exact h.1

end Pysnark
