import PysnarkModel.Spec.R1CS
import PysnarkModel.Lemmas.LC
import PysnarkModel.Lemmas.Monad
import Mathlib.Tactic.Ring
import Mathlib.Tactic.Linarith
/-!
# Foundations of the invariant proofs (C01/C04/C07): state extension, coherence of the
`LinComb` arithmetic, and the primitives `PrivVal`, `PubVal`, `add_constraint(_unsafe)`.
-/
namespace Pysnark

/-! ## state extension -/
theorem St.le.refl (s : St) : s.le s := ⟨List.prefix_refl _, List.prefix_refl _, List.prefix_refl _, rfl⟩

theorem St.le.trans {a b c : St} (h1 : a.le b) (h2 : b.le c) : a.le c :=
  ⟨h1.pub.trans h2.pub, h1.priv.trans h2.priv, h1.cons.trans h2.cons, h2.p.trans h1.p⟩

theorem getD_prefix {l l' : List Int} (h : l <+: l') {i : Nat} (hi : i < l.length) : l'.getD i 0 = l.getD i 0 := by
  obtain ⟨t, rfl⟩ := h
  simp [List.getD_eq_getElem?_getD, List.getElem?_append_left hi]

theorem assign_ext {s s' : St} (h : s.le s') {k : Wire} (hk : k.allocated s) : s'.assign k = s.assign k := by
  cases k with
  | one => rfl
  | pub i => exact getD_prefix h.pub hk
  | priv i => exact getD_prefix h.priv hk

theorem allocated_mono {s s' : St} (h : s.le s') {k : Wire} (hk : k.allocated s) : k.allocated s' := by
  cases k with
  | one => trivial
  | pub i => exact Nat.lt_of_lt_of_le hk h.pub.length_le
  | priv i => exact Nat.lt_of_lt_of_le hk h.priv.length_le

theorem Scoped.mono {s s' : St} (h : s.le s') {l : LC} (hl : Scoped s l) : Scoped s' l :=
  fun k hk => allocated_mono h (hl k hk)

theorem eval_ext {s s' : St} (h : s.le s') {l : LC} (hl : Scoped s l) :
    LC.eval s'.assign l = LC.eval s.assign l := by
  induction l with
  | nil => rfl
  | cons x xs ih =>
    obtain ⟨k, c⟩ := x
    have hk : k.allocated s := hl k (by simp [LC.keys])
    have hxs : Scoped s xs := fun k' hk' => hl k' (by simp only [LC.keys, List.map_cons, List.mem_cons] at hk' ⊢; exact Or.inr hk')
    simp only [LC.eval, assign_ext h hk, ih hxs]

theorem LCok.mono {s s' : St} (h : s.le s') {l : LC} (hl : LCok s l) : LCok s' l := ⟨hl.1, hl.2.mono h⟩

theorem Coh.mono {s s' : St} (h : s.le s') {x : LinComb} (hs : Scoped s x.lc) (hc : Coh s x) : Coh s' x := by
  unfold Coh at *; rw [eval_ext h hs, h.p]; exact hc

theorem Good.mono {s s' : St} (h : s.le s') {x : LinComb} (hx : Good s x) : Good s' x :=
  ⟨hx.1.mono h, hx.2.mono h hx.1.2⟩

theorem Sat.mono {s s' : St} (h : s.le s') {c : Constraint}
    (hok : LCok s c.1 ∧ LCok s c.2.1 ∧ LCok s c.2.2) (hc : Sat s.p s.assign c) : Sat s'.p s'.assign c := by
  unfold Sat at *
  rw [eval_ext h hok.1.2, eval_ext h hok.2.1.2, eval_ext h hok.2.2.2, h.p]; exact hc

/-! ## coherence as divisibility -/
theorem Coh.iff_dvd {s : St} {x : LinComb} : Coh s x ↔ s.p ∣ (x.value - LC.eval s.assign x.lc) :=
  ⟨Int.dvd_of_emod_eq_zero, Int.emod_eq_zero_of_dvd⟩

theorem Sat.iff_dvd {p : Int} {w : Wire → Int} {c : Constraint} :
    Sat p w c ↔ p ∣ (LC.eval w c.1 * LC.eval w c.2.1 - LC.eval w c.2.2) :=
  ⟨Int.dvd_of_emod_eq_zero, Int.emod_eq_zero_of_dvd⟩

/-! ## `LinComb` arithmetic preserves `Good` -/
theorem scoped_add {s : St} {a b : LC} (ha : Scoped s a) (hb : Scoped s b) : Scoped s (a.add b) := by
  intro k hk
  rcases LC.keys_add_subset a b k hk with h | h
  · exact ha k h
  · exact hb k h

theorem scoped_scale {s : St} {a : LC} (c : Int) (ha : Scoped s a) : Scoped s (a.scale c) := by
  intro k hk; rw [LC.keys_scale] at hk; exact ha k hk

theorem Good.add {s : St} {a b : LinComb} (ha : Good s a) (hb : Good s b) : Good s (a.add b) := by
  refine ⟨⟨LC.WF_add _ _ ha.1.1 hb.1.1, scoped_add ha.1.2 hb.1.2⟩, ?_⟩
  rw [Coh.iff_dvd]
  have h1 := Coh.iff_dvd.mp ha.2; have h2 := Coh.iff_dvd.mp hb.2
  simp only [LinComb.add, LC.eval_add _ _ _ ha.1.1 hb.1.1]
  obtain ⟨k1, e1⟩ := h1; obtain ⟨k2, e2⟩ := h2
  exact ⟨k1 + k2, by rw [mul_add]; linarith⟩

theorem Good.mulI {s : St} {a : LinComb} (c : Int) (ha : Good s a) : Good s (a.mulI c) := by
  refine ⟨⟨LC.WF_scale _ c ha.1.1, scoped_scale c ha.1.2⟩, ?_⟩
  rw [Coh.iff_dvd]
  have h1 := Coh.iff_dvd.mp ha.2
  simp only [LinComb.mulI, LC.eval_scale]
  obtain ⟨k1, e1⟩ := h1
  refine ⟨k1 * c, ?_⟩
  have : a.value * c - c * LC.eval s.assign a.lc = (a.value - LC.eval s.assign a.lc) * c := by ring
  rw [this, e1]; ring

theorem Good.neg {s : St} {a : LinComb} (ha : Good s a) : Good s a.neg := by
  refine ⟨⟨LC.WF_neg _ ha.1.1, scoped_scale (-1) ha.1.2⟩, ?_⟩
  rw [Coh.iff_dvd]
  have h1 := Coh.iff_dvd.mp ha.2
  simp only [LinComb.neg, LC.eval_neg]
  obtain ⟨k1, e1⟩ := h1
  exact ⟨-k1, by rw [mul_neg]; linarith⟩

theorem Good.sub {s : St} {a b : LinComb} (ha : Good s a) (hb : Good s b) : Good s (a.sub b) :=
  Good.add ha hb.neg

theorem Good.const (s : St) (c : Int) : Good s (LinComb.const c) := by
  refine ⟨⟨LC.WF_scale _ c LC.WF_one, ?_⟩, ?_⟩
  · intro k hk
    simp only [LinComb.const] at hk
    rw [LC.keys_scale] at hk; simp [LC.one, LC.keys] at hk; subst hk; trivial
  · unfold Coh LinComb.const; simp [LC.eval_scale, LC.one, LC.eval, St.assign]

theorem Good.zero (s : St) : Good s LinComb.zero :=
  ⟨⟨LC.WF_zero, fun k hk => by simp [LinComb.zero, LC.zero, LC.keys] at hk⟩, by simp [Coh, LinComb.zero]⟩

theorem Good.oneSafe (s : St) : Good s oneSafe := by
  have := Good.const s 1
  simpa [LinComb.const, Pysnark.oneSafe, LC.scale, LC.one] using this

theorem Good.addI {s : St} {a : LinComb} (c : Int) (ha : Good s a) : Good s (a.addI c) := Good.add ha (Good.const s c)
theorem Good.subI {s : St} {a : LinComb} (c : Int) (ha : Good s a) : Good s (a.subI c) := Good.addI (-c) ha
theorem Good.rsubI {s : St} {a : LinComb} (c : Int) (ha : Good s a) : Good s (a.rsubI c) := Good.addI c ha.neg

theorem Good.reduceValue {s : St} {a : LinComb} (ha : Good s a) : Good s (reduceValue a s.p) := by
  refine ⟨ha.1, ?_⟩
  rw [Coh.iff_dvd]
  have h1 := Coh.iff_dvd.mp ha.2
  simp only [Pysnark.reduceValue]
  have h2 : s.p ∣ a.value % s.p - a.value := by
    have := Int.emod_add_mul_ediv a.value s.p
    exact ⟨-(a.value / s.p), by linarith⟩
  obtain ⟨k1, e1⟩ := h1; obtain ⟨k2, e2⟩ := h2
  exact ⟨k1 + k2, by rw [mul_add]; linarith⟩

/-! ## the invariant and `one` -/
theorem Inv.oneGood {s : St} (h : Inv s) : Good s s.one := by
  cases hg : s.guard with
  | none => rw [h.oneNone hg]; exact Good.oneSafe s
  | some g => rw [h.oneSome g hg]; exact (h.guardGood g hg).1

/-- transporting the invariant along an extension that adds no constraints -/
theorem Inv.of_le_sameCons {s s' : St} (h : Inv s) (hle : s.le s') (hc : s'.cons = s.cons) (hf : Frame s s') : Inv s' where
  sat := by intro c hc'; rw [hc] at hc'; exact (h.sat c hc').mono hle (h.consOk c hc')
  consOk := by
    intro c hc'; rw [hc] at hc'
    obtain ⟨a, b, d⟩ := h.consOk c hc'
    exact ⟨a.mono hle, b.mono hle, d.mono hle⟩
  oneNone := by intro hg; rw [hf.one]; exact h.oneNone (hf.guard ▸ hg)
  oneSome := by intro g hg; rw [hf.one]; exact h.oneSome g (hf.guard ▸ hg)
  guardGood := by
    intro g hg
    obtain ⟨a, b⟩ := h.guardGood g (hf.guard ▸ hg)
    exact ⟨a.mono hle, b⟩
  ign := by rw [hf.ign, hf.guard]; exact h.ign

/-! ## primitives -/
theorem privVal_spec {s s' : St} {v : Int} {r : LinComb} (hinv : Inv s) (h : privVal v s = .ok (r, s')) :
    s.le s' ∧ Frame s s' ∧ Inv s' ∧ Good s' r ∧ r.value = v := by
  unfold privVal at h
  simp only [Except.ok.injEq, Prod.mk.injEq] at h
  obtain ⟨rfl, rfl⟩ := h
  have hle : s.le { s with priv := s.priv ++ [v] } :=
    ⟨List.prefix_refl _, List.prefix_append _ _, List.prefix_refl _, rfl⟩
  have hf : Frame s { s with priv := s.priv ++ [v] } := ⟨rfl, rfl, rfl, rfl, rfl⟩
  refine ⟨hle, hf, hinv.of_le_sameCons hle rfl hf, ⟨⟨LC.WF_single _ _, ?_⟩, ?_⟩, rfl⟩
  · intro k hk; simp [LC.keys] at hk; subst hk; simp [Wire.allocated]
  · simp [Coh, LC.eval, St.assign, List.getD_eq_getElem?_getD]

theorem pubVal_spec {s s' : St} {v : Int} {r : LinComb} (hinv : Inv s) (h : pubVal v s = .ok (r, s')) :
    s.le s' ∧ Frame s s' ∧ Inv s' ∧ Good s' r ∧ r.value = v := by
  unfold pubVal at h
  simp only [Except.ok.injEq, Prod.mk.injEq] at h
  obtain ⟨rfl, rfl⟩ := h
  have hle : s.le { s with pub := s.pub ++ [v] } :=
    ⟨List.prefix_append _ _, List.prefix_refl _, List.prefix_refl _, rfl⟩
  have hf : Frame s { s with pub := s.pub ++ [v] } := ⟨rfl, rfl, rfl, rfl, rfl⟩
  refine ⟨hle, hf, hinv.of_le_sameCons hle rfl hf, ⟨⟨LC.WF_single _ _, ?_⟩, ?_⟩, rfl⟩
  · intro k hk; simp [LC.keys] at hk; subst hk; simp [Wire.allocated]
  · simp [Coh, LC.eval, St.assign, List.getD_eq_getElem?_getD]

/-- `add_constraint_unsafe` keeps the invariant when the new constraint holds on the recorded
witness (the obligation of each call site). -/
theorem addConstraintUnsafe_spec {s s' : St} {v w y : LinComb} {u : Unit} (hinv : Inv s)
    (hv : LCok s v.lc) (hw : LCok s w.lc) (hy : LCok s y.lc)
    (hsat : Sat s.p s.assign (v.lc, w.lc, y.lc))
    (h : addConstraintUnsafe v w y s = .ok (u, s')) :
    s.le s' ∧ Frame s s' ∧ Inv s' := by
  unfold addConstraintUnsafe at h
  simp only [Except.ok.injEq, Prod.mk.injEq] at h
  obtain ⟨-, rfl⟩ := h
  have hle : s.le { s with cons := s.cons ++ [(v.lc, w.lc, y.lc)] } :=
    ⟨List.prefix_refl _, List.prefix_refl _, List.prefix_append _ _, rfl⟩
  refine ⟨hle, ⟨rfl, rfl, rfl, rfl, rfl⟩, ?_⟩
  exact {
    sat := by
      intro c hc
      simp only [List.mem_append, List.mem_singleton] at hc
      rcases hc with hc | rfl
      · exact hinv.sat c hc
      · exact hsat
    consOk := by
      intro c hc
      simp only [List.mem_append, List.mem_singleton] at hc
      rcases hc with hc | rfl
      · exact hinv.consOk c hc
      · exact ⟨hv, hw, hy⟩
    oneNone := hinv.oneNone
    oneSome := hinv.oneSome
    guardGood := hinv.guardGood
    ign := hinv.ign }

/-- the product of two coherent values is coherent with the product of the evaluations -/
theorem coh_mul {s : St} {a b : LinComb} (ha : Coh s a) (hb : Coh s b) :
    s.p ∣ (a.value * b.value - LC.eval s.assign a.lc * LC.eval s.assign b.lc) := by
  obtain ⟨k1, h1⟩ := Coh.iff_dvd.mp ha
  obtain ⟨k2, h2⟩ := Coh.iff_dvd.mp hb
  refine ⟨k1 * b.value + LC.eval s.assign a.lc * k2, ?_⟩
  have e1 : a.value = LC.eval s.assign a.lc + s.p * k1 := by linarith
  have e2 : b.value = LC.eval s.assign b.lc + s.p * k2 := by linarith
  rw [e1, e2] ; ring

/-- `__mul__` of two `LinComb`s -/
theorem mulLL_spec {s s' : St} {a b r : LinComb} (hinv : Inv s) (ha : Good s a) (hb : Good s b)
    (h : mulLL a b s = .ok (r, s')) :
    s.le s' ∧ Frame s s' ∧ Inv s' ∧ Good s' r ∧ r.value = a.value * b.value := by
  unfold mulLL at h
  obtain ⟨r1, s1, h1, h2⟩ := bind_ok.mp h
  obtain ⟨u, s2, h3, h4⟩ := bind_ok.mp h2
  obtain ⟨hr, hs⟩ := pure_ok.mp h4
  subst hr; subst hs
  obtain ⟨le1, f1, inv1, g1, v1⟩ := privVal_spec hinv h1
  have ha1 := ha.mono le1; have hb1 := hb.mono le1
  have hsat : Sat s1.p s1.assign (a.lc, b.lc, r.lc) := by
    rw [Sat.iff_dvd]
    obtain ⟨k1, e1⟩ := coh_mul ha1.2 hb1.2
    obtain ⟨k2, e2⟩ := Coh.iff_dvd.mp g1.2
    rw [v1] at e2
    exact ⟨k2 - k1, by rw [mul_sub]; simp only; linarith⟩
  obtain ⟨le2, f2, inv2⟩ := addConstraintUnsafe_spec inv1 ha1.1 hb1.1 g1.1 hsat h3
  exact ⟨le1.trans le2, ⟨f2.guard.trans f1.guard, f2.ign.trans f1.ign, f2.one.trans f1.one, f2.bl.trans f1.bl,
    f2.res.trans f1.res⟩, inv2, g1.mono le2, v1⟩

end Pysnark
