import PysnarkModel.Lemmas.InvPrim
import PysnarkModel.Lemmas.Inverse
import Mathlib.Tactic.Ring
import Mathlib.Tactic.Linarith
/-!
# The gadgets of `Model/Gadgets.lean` preserve the tracer invariant and coherence
-/
namespace Pysnark

/-! ## small helpers -/

/-- the modulus of the state is a prime natural number -/
def PrimeP (s : St) : Prop := ∃ q : Nat, q.Prime ∧ s.p = (q : Int)

theorem PrimeP.mono {s s' : St} (h : s.le s') (hP : PrimeP s) : PrimeP s' := by
  obtain ⟨q, hq, e⟩ := hP
  exact ⟨q, hq, h.p.trans e⟩

/-- whatever `invert` returns for a prime modulus is an inverse -/
theorem invert_some {s : St} (hP : PrimeP s) {x y : Int} (h : Py.invert x s.p = some y) :
    s.p ∣ x * y - 1 := by
  obtain ⟨q, hq, e⟩ := hP
  rw [e] at h ⊢
  by_cases hx : x % (q : Int) = 0
  · rw [Py.invert_none hq x hx] at h; cases h
  · obtain ⟨y', h1, h2, -, -⟩ := Py.invert_correct hq x hx
    rw [h1] at h
    cases h
    have := Int.emod_add_mul_ediv (x * y) (q : Int)
    exact ⟨x * y / (q : Int), by linarith⟩

theorem Inv.ign_false_of_one {s : St} (h : Inv s) {g : LinComb} (hg : s.guard = some g) (h1 : g.value = 1) :
    s.ignoreErrors = false := by
  cases hi : s.ignoreErrors with
  | false => rfl
  | true => have := (h.ign_of_guard hg).mp hi; omega

/-- the value of `LinComb.ONE` is 1 unless errors are being ignored (false guard), where it is 0 -/
theorem Inv.one_value {s : St} (h : Inv s) :
    (s.ignoreErrors = false ∧ s.one.value = 1) ∨ (s.ignoreErrors = true ∧ s.one.value = 0) := by
  cases hg : s.guard with
  | none =>
    left
    exact ⟨h.ign_false_of_none hg, by rw [h.oneNone hg]; rfl⟩
  | some g =>
    rw [h.oneSome g hg]
    rcases (h.guardGood g hg).2 with g0 | g1
    · right; exact ⟨(h.ign_of_guard hg).mpr g0, g0⟩
    · left; exact ⟨h.ign_false_of_one hg g1, g1⟩

theorem Inv.isGuard_of_ign_false {s : St} (h : Inv s) (hi : s.ignoreErrors = false) : s.isGuard = true := by
  unfold St.isGuard
  cases hg : s.guard with
  | none => rfl
  | some g =>
    simp only [beq_iff_eq]
    rcases (h.guardGood g hg).2 with g0 | g1
    · have := (h.ign_of_guard hg).mpr g0; rw [hi] at this; cases this
    · exact g1

theorem Inv.isGuard_false_of_ign {s : St} (h : Inv s) (hi : s.ignoreErrors = true) : s.isGuard = false := by
  obtain ⟨g, hg, g0⟩ := h.ign.mp hi
  unfold St.isGuard
  rw [hg]
  simp [g0]

/-- In the situations where `add_constraint` has a call-site obligation with `check = true`,
errors are not being ignored. -/
theorem hob_ign {s : St} (hinv : Inv s) (hh : (true = false ∨ ∃ g, s.guard = some g ∧ g.value = 1)) :
    s.ignoreErrors = false := by
  rcases hh with h0 | ⟨g, hg, g1⟩
  · cases h0
  · exact hinv.ign_false_of_one hg g1

/-! ## `assert_zero` -/
theorem assertZero_spec {s s' : St} {x : LinComb} {u : Unit} (hinv : Inv s) (hx : Good s x)
    (h : assertZero x s = .ok (u, s')) : s.le s' ∧ Frame s s' ∧ Inv s' := by
  unfold assertZero at h
  split at h
  · cases h
  · rename_i hc
    refine addConstraint_spec hinv (Good.zero s) (Good.zero s) hx ?_ h
    intro hh
    have hi := hob_ign hinv hh
    simp only [hi, Bool.not_false, Bool.true_and, bne_iff_ne, ne_eq, Decidable.not_not] at hc
    simp [LinComb.zero, hc]

/-! ## `from_bits` -/
theorem fromBitsAux_good {s : St} : ∀ (bs : List LinComb) (i : Nat) (acc : LinComb),
    (∀ b ∈ bs, Good s b) → Good s acc → Good s (fromBitsAux bs i acc)
  | [], _, _, _, hacc => hacc
  | b :: bs, i, acc, hbs, hacc => by
    unfold fromBitsAux
    exact fromBitsAux_good bs (i+1) _ (fun b' hb' => hbs b' (List.mem_cons_of_mem _ hb'))
      (hacc.add ((hbs b (List.mem_cons_self ..)).mulI _))

theorem fromBits_good {s : St} {bs : List LinComb} (hbs : ∀ b ∈ bs, Good s b) :
    ∀ r, fromBits bs = some r → Good s r := by
  intro r hr
  cases bs with
  | nil => cases hr
  | cons b bs =>
    simp only [fromBits, Option.some.injEq] at hr
    subst hr
    exact fromBitsAux_good bs 1 _ (fun b' hb' => hbs b' (List.mem_cons_of_mem _ hb'))
      (((hbs b (List.mem_cons_self ..)).mulI 1).addI 0)

theorem Good.subFB {s : St} {x : LinComb} {o : Option LinComb} (hx : Good s x)
    (ho : ∀ r, o = some r → Good s r) : Good s (x.subFB o) := by
  cases o with
  | none => exact hx.subI 0
  | some y => exact hx.sub (ho y rfl)

theorem Good.addFB {s : St} {x : LinComb} {o : Option LinComb} (hx : Good s x)
    (ho : ∀ r, o = some r → Good s r) : Good s (x.addFB o) := by
  cases o with
  | none => exact hx.addI 0
  | some y => exact hx.add (ho y rfl)

/-- little-endian value of a list of bit values, starting at weight `2^i` -/
def bitsVal : List Int → Nat → Int
  | [], _ => 0
  | b :: bs, i => b * 2 ^ i + bitsVal bs (i+1)

theorem fromBitsAux_value : ∀ (bs : List LinComb) (i : Nat) (acc : LinComb),
    (fromBitsAux bs i acc).value = acc.value + bitsVal (bs.map (·.value)) i
  | [], _, _ => by simp [fromBitsAux, bitsVal]
  | b :: bs, i, acc => by
    unfold fromBitsAux
    rw [fromBitsAux_value bs (i+1)]
    simp only [LinComb.add, LinComb.mulI, List.map_cons, bitsVal]
    ring

theorem addFB_fromBits_value (x : LinComb) (bs : List LinComb) :
    (x.addFB (fromBits bs)).value = x.value + bitsVal (bs.map (·.value)) 0 := by
  cases bs with
  | nil => simp [fromBits, LinComb.addFB, LinComb.addI, LinComb.add, LinComb.const, bitsVal]
  | cons b bs =>
    simp only [fromBits, LinComb.addFB, LinComb.add, fromBitsAux_value, LinComb.addI, LinComb.mulI,
      LinComb.const, List.map_cons, bitsVal]
    ring

/-! ## `mapM'` -/
theorem mapM'_spec {α β : Type} (f : α → M β) (A : St → α → Prop) (B : St → β → Prop)
    (Amono : ∀ s s' a, s.le s' → Frame s s' → A s a → A s' a)
    (Bmono : ∀ s s' b, s.le s' → Frame s s' → B s b → B s' b)
    (hf : ∀ s s' a r, Inv s → A s a → f a s = .ok (r, s') → s.le s' ∧ Frame s s' ∧ Inv s' ∧ B s' r) :
    ∀ (xs : List α) (s s' : St) (rs : List β), Inv s → (∀ x ∈ xs, A s x) →
      mapM' f xs s = .ok (rs, s') →
      s.le s' ∧ Frame s s' ∧ Inv s' ∧ (∀ r ∈ rs, B s' r) ∧ rs.length = xs.length
  | [], s, s', rs, hinv, _, h => by
    unfold mapM' at h
    obtain ⟨rfl, rfl⟩ := pure_ok.mp h
    exact ⟨St.le.refl _, Frame.refl _, hinv, by simp, rfl⟩
  | x :: xs, s, s', rs, hinv, hA, h => by
    unfold mapM' at h
    obtain ⟨y, s1, h1, h2⟩ := bind_ok.mp h
    obtain ⟨ys, s2, h3, h4⟩ := bind_ok.mp h2
    obtain ⟨rfl, rfl⟩ := pure_ok.mp h4
    obtain ⟨le1, f1, inv1, b1⟩ := hf s s1 x y hinv (hA x (List.mem_cons_self ..)) h1
    obtain ⟨le2, f2, inv2, b2, len2⟩ := mapM'_spec f A B Amono Bmono hf xs s1 _ ys inv1
      (fun x' hx' => Amono _ _ _ le1 f1 (hA x' (List.mem_cons_of_mem _ hx'))) h3
    refine ⟨le1.trans le2, f1.trans f2, inv2, ?_, by simp [len2]⟩
    intro r hr
    rcases List.mem_cons.mp hr with rfl | hr
    · exact Bmono _ _ _ le2 f2 b1
    · exact b2 r hr

theorem mapM'_privValBool_spec : ∀ (vs : List Int) (s s' : St) (rs : List LinComb), Inv s →
      mapM' privValBool vs s = .ok (rs, s') →
      s.le s' ∧ Frame s s' ∧ Inv s' ∧ (∀ r ∈ rs, Good s' r) ∧ rs.map (·.value) = vs
  | [], s, s', rs, hinv, h => by
    unfold mapM' at h
    obtain ⟨rfl, rfl⟩ := pure_ok.mp h
    exact ⟨St.le.refl _, Frame.refl _, hinv, by simp, rfl⟩
  | x :: xs, s, s', rs, hinv, h => by
    unfold mapM' at h
    obtain ⟨y, s1, h1, h2⟩ := bind_ok.mp h
    obtain ⟨ys, s2, h3, h4⟩ := bind_ok.mp h2
    obtain ⟨rfl, rfl⟩ := pure_ok.mp h4
    obtain ⟨le1, f1, inv1, g1, v1, -⟩ := privValBool_spec hinv h1
    obtain ⟨le2, f2, inv2, g2, v2⟩ := mapM'_privValBool_spec xs s1 _ ys inv1 h3
    refine ⟨le1.trans le2, f1.trans f2, inv2, ?_, by simp [v1, v2]⟩
    intro r hr
    rcases List.mem_cons.mp hr with rfl | hr
    · exact g1.mono le2
    · exact g2 r hr

/-! ## bit decomposition arithmetic -/
theorem bit_succ (v : Int) (i : Nat) : Py.bit v (i+1) = Py.bit (v / 2) i := by
  unfold Py.bit
  rw [Int.shiftRight_eq_div_pow, Int.shiftRight_eq_div_pow, pow_succ, mul_comm]
  push_cast
  rw [Int.ediv_ediv_of_nonneg (by norm_num)]

theorem bitsOf_succ (v : Int) (n : Nat) : Py.bitsOf v (n+1) = v % 2 :: Py.bitsOf (v / 2) n := by
  unfold Py.bitsOf
  rw [List.range_succ_eq_map, List.map_cons, List.map_map]
  congr 1
  · simp [Py.bit]
  · apply List.map_congr_left
    intro i _
    exact bit_succ v i

theorem bitsVal_bitsOf : ∀ (n : Nat) (v : Int) (i : Nat), 0 ≤ v → v < 2 ^ n →
    bitsVal (Py.bitsOf v n) i = 2 ^ i * v
  | 0, v, i, h0, h1 => by
    have : v = 0 := by simp at h1; omega
    simp [Py.bitsOf, bitsVal, this]
  | n+1, v, i, h0, h1 => by
    rw [bitsOf_succ, bitsVal, bitsVal_bitsOf n (v / 2) (i+1) (by omega) (by rw [pow_succ] at h1; omega)]
    have := Int.emod_add_mul_ediv v 2
    rw [pow_succ]
    nth_rewrite 3 [← this]
    ring

theorem bitLength_le_iff (v : Int) (n : Nat) : Py.bitLength v ≤ n ↔ v.natAbs < 2 ^ n := by
  unfold Py.bitLength
  split
  · rename_i h; simp [h]
  · rename_i h
    rw [Nat.succ_le_iff, Nat.log2_lt h]

theorem natAbs_lt_pow {v : Int} {n : Nat} (h : v.natAbs < 2 ^ n) : -(2:Int) ^ n < v ∧ v < 2 ^ n := by
  have h' : (v.natAbs : Int) < 2 ^ n := by exact_mod_cast h
  constructor <;> omega

/-! ## oriented inversion lemmas (the fresh variables are the ones eliminated by `rfl`) -/
theorem getSt_bind {β} (f : St → M β) (s : St) : (getSt >>= f) s = f s s := rfl

theorem liftE_ok' {α} {e : Except Err α} {a : α} {s s' : St} (h : liftE e s = .ok (a, s')) :
    e = .ok a ∧ s = s' := by
  obtain ⟨h1, h2⟩ := liftE_ok.mp h
  exact ⟨h1, h2.symm⟩

theorem pure_ok' {α} {a b : α} {s s' : St} (h : (pure a : M α) s = .ok (b, s')) : a = b ∧ s = s' := by
  obtain ⟨h1, h2⟩ := pure_ok.mp h
  exact ⟨h1.symm, h2.symm⟩

/-! ## `check_positive` -/
theorem checkPositive_spec {s s' : St} {x r : LinComb} {bits : Option Nat} (hinv : Inv s) (hx : Good s x)
    (h : checkPositive x bits s = .ok (r, s')) : s.le s' ∧ Frame s s' ∧ Inv s' ∧ Good s' r := by
  unfold checkPositive at h
  rw [getSt_bind] at h
  obtain ⟨⟨retv, bitvs⟩, s1, h1, h⟩ := bind_ok.mp h
  obtain ⟨hhint, rfl⟩ := liftE_ok' h1
  dsimp only at h
  obtain ⟨ret, s2, h2, h⟩ := bind_ok.mp h
  obtain ⟨bs, s3, h3, h⟩ := bind_ok.mp h
  obtain ⟨u, s4, h4, h⟩ := bind_ok.mp h
  obtain ⟨rfl, rfl⟩ := pure_ok' h
  obtain ⟨le2, f2, inv2, g2, v2, -⟩ := privValBool_spec hinv h2
  obtain ⟨le3, f3, inv3, g3, v3⟩ := mapM'_privValBool_spec _ _ _ _ inv2 h3
  have hx3 := (hx.mono le2).mono le3
  have gr3 := g2.mono le3
  have hob : (true = false ∨ ∃ g, s3.guard = some g ∧ g.value = 1) →
      s3.p ∣ ((ret.mulI 2).value * x.value - ((x.addFB (fromBits bs)).add (ret.rsubI 1)).value) := by
    intro hh
    have hi3 := hob_ign inv3 hh
    have hi : s.ignoreErrors = false := by rw [← (f2.trans f3).ign]; exact hi3
    have hg := hinv.isGuard_of_ign_false hi
    unfold checkPositiveHint at hhint
    simp only [hg, hi, Bool.true_and, decide_eq_true_eq] at hhint
    split at hhint
    · rename_i hbl
      simp only [Except.ok.injEq, Prod.mk.injEq] at hhint
      obtain ⟨hr, hb⟩ := hhint
      have hlt := natAbs_lt_pow ((bitLength_le_iff _ _).mp hbl)
      have e : (ret.mulI 2).value * x.value - ((x.addFB (fromBits bs)).add (ret.rsubI 1)).value = 0 := by
        simp only [LinComb.add, addFB_fromBits_value, v3, v2, LinComb.mulI, LinComb.rsubI, LinComb.addI,
          LinComb.neg, LinComb.const]
        rw [← hr, ← hb]
        by_cases hv : x.value ≥ 0
        · simp only [hv, if_true]
          rw [bitsVal_bitsOf _ _ _ hv hlt.2]; ring
        · simp only [hv, if_false]
          rw [bitsVal_bitsOf _ _ _ (by omega) (by omega)]; ring
      rw [e]; exact dvd_zero _
    · simp at hhint
  obtain ⟨le4, f4, inv4⟩ := addConstraint_spec inv3 (gr3.mulI 2) hx3
    ((hx3.addFB (fromBits_good g3)).add (gr3.rsubI 1)) hob h4
  exact ⟨(le2.trans le3).trans le4, (f2.trans f3).trans f4, inv4, gr3.mono le4⟩

/-! ## `to_bits` -/
theorem toBits_spec {s s' : St} {x : LinComb} {bits : Option Nat} {rs : List LinComb} (hinv : Inv s)
    (hx : Good s x) (h : toBits x bits s = .ok (rs, s')) :
    s.le s' ∧ Frame s s' ∧ Inv s' ∧ (∀ r ∈ rs, Good s' r) := by
  unfold toBits at h
  dsimp only at h
  split at h
  · cases h
  · obtain ⟨bs, s1, h1, h2⟩ := bind_ok.mp h
    obtain ⟨u, s2, h3, h4⟩ := bind_ok.mp h2
    obtain ⟨rfl, rfl⟩ := pure_ok.mp h4
    obtain ⟨le1, f1, inv1, g1, -⟩ := mapM'_privValBool_spec _ _ _ _ hinv h1
    obtain ⟨le2, f2, inv2⟩ := assertZero_spec inv1 ((hx.mono le1).subFB (fromBits_good g1)) h3
    exact ⟨le1.trans le2, f1.trans f2, inv2, fun r hr => (g1 r hr).mono le2⟩

/-! ## `assert_positive` -/
theorem assertPositive_spec {s s' : St} {x : LinComb} {bits : Option Nat} {u : Unit} (hinv : Inv s)
    (hx : Good s x) (h : assertPositive x bits s = .ok (u, s')) : s.le s' ∧ Frame s s' ∧ Inv s' := by
  unfold assertPositive at h
  dsimp only at h
  split at h
  · cases h
  · obtain ⟨bs, s1, h1, h⟩ := bind_ok.mp h
    obtain ⟨rfl, rfl⟩ := pure_ok' h
    obtain ⟨le1, f1, inv1, -⟩ := toBits_spec hinv hx h1
    exact ⟨le1, f1, inv1⟩

/-! ## `add_constraint_unsafe` from `Good` operands -/
theorem sat_of_good {s : St} {v w y : LinComb} (hv : Good s v) (hw : Good s w) (hy : Good s y)
    (hd : s.p ∣ v.value * w.value - y.value) : Sat s.p s.assign (v.lc, w.lc, y.lc) := by
  rw [Sat.iff_dvd]
  obtain ⟨k1, e1⟩ := coh_mul hv.2 hw.2
  obtain ⟨k2, e2⟩ := Coh.iff_dvd.mp hy.2
  obtain ⟨k3, e3⟩ := hd
  exact ⟨k3 + k2 - k1, by simp only; rw [mul_sub, mul_add]; linarith⟩

theorem addConstraintUnsafe_spec' {s s' : St} {v w y : LinComb} {u : Unit} (hinv : Inv s)
    (hv : Good s v) (hw : Good s w) (hy : Good s y) (hd : s.p ∣ v.value * w.value - y.value)
    (h : addConstraintUnsafe v w y s = .ok (u, s')) : s.le s' ∧ Frame s s' ∧ Inv s' :=
  addConstraintUnsafe_spec hinv hv.1 hw.1 hy.1 (sat_of_good hv hw hy hd) h

theorem fieldInverse_ok {x y : Int} {s s' : St} (h : fieldInverse x s = .ok (y, s')) :
    Py.invert x s.p = some y ∧ s = s' := by
  unfold fieldInverse at h
  split at h
  · rename_i y' hy
    simp only [Except.ok.injEq, Prod.mk.injEq] at h
    obtain ⟨rfl, rfl⟩ := h
    exact ⟨hy, rfl⟩
  · cases h

/-! ## `check_zero`, `~b`, `check_nonzero`, `assert_nonzero` -/
theorem checkZero_spec {s s' : St} {x r : LinComb} (hinv : Inv s) (hP : PrimeP s) (hx : Good s x)
    (h : checkZero x s = .ok (r, s')) : s.le s' ∧ Frame s s' ∧ Inv s' ∧ Good s' r := by
  unfold checkZero at h
  obtain ⟨ret, s1, h1, h⟩ := bind_ok.mp h
  obtain ⟨w, s2, h2, h⟩ := bind_ok.mp h
  obtain ⟨hinvert, rfl⟩ := fieldInverse_ok h2
  obtain ⟨wit, s3, h3, h⟩ := bind_ok.mp h
  obtain ⟨u1, s4, h4, h⟩ := bind_ok.mp h
  obtain ⟨u2, s5, h5, h⟩ := bind_ok.mp h
  obtain ⟨le1, f1, inv1, g1, v1⟩ := privVal_spec hinv h1
  obtain ⟨le3, f3, inv3, g3, v3⟩ := privVal_spec inv1 h3
  have hx3 := (hx.mono le1).mono le3
  have gret3 := g1.mono le3
  have hdvd := invert_some (hP.mono le1) hinvert
  rw [← le3.p] at hdvd
  have hd1 : s3.p ∣ x.value * wit.value - (oneSafe.sub ret).value := by
    simp only [LinComb.sub, LinComb.add, LinComb.neg, oneSafe, v1, v3]
    by_cases hz : x.value = 0
    · simp [hz]
    · simp only [beq_iff_eq, hz, if_false, add_zero] at hdvd ⊢
      have e : x.value * w - (1 + -0) = x.value * w - 1 := by ring
      rw [e]; exact hdvd
  obtain ⟨le4, f4, inv4⟩ := addConstraintUnsafe_spec' inv3 hx3 g3 ((Good.oneSafe s3).sub gret3) hd1 h4
  have hd2 : s4.p ∣ x.value * ret.value - LinComb.zero.value := by
    simp only [LinComb.zero, v1]
    by_cases hz : x.value = 0
    · simp [hz]
    · simp [hz]
  obtain ⟨le5, f5, inv5⟩ := addConstraintUnsafe_spec' inv4 (hx3.mono le4) (gret3.mono le4) (Good.zero s4) hd2 h5
  obtain ⟨le6, f6, inv6, rfl, -⟩ := mkBool_spec inv5 ((gret3.mono le4).mono le5) h
  exact ⟨(((le1.trans le3).trans le4).trans le5).trans le6, (((f1.trans f3).trans f4).trans f5).trans f6,
    inv6, (((gret3.mono le4).mono le5).mono le6)⟩

theorem boolNot_spec {s s' : St} {b r : LinComb} (hinv : Inv s) (hb : Good s b)
    (h : boolNot b s = .ok (r, s')) : s.le s' ∧ Frame s s' ∧ Inv s' ∧ Good s' r := by
  unfold boolNot at h
  obtain ⟨le1, f1, inv1, rfl, -⟩ := mkBool_spec hinv (hb.rsubI 1) h
  exact ⟨le1, f1, inv1, (hb.rsubI 1).mono le1⟩

theorem checkNonzero_spec {s s' : St} {x r : LinComb} (hinv : Inv s) (hP : PrimeP s) (hx : Good s x)
    (h : checkNonzero x s = .ok (r, s')) : s.le s' ∧ Frame s s' ∧ Inv s' ∧ Good s' r := by
  unfold checkNonzero at h
  obtain ⟨z, s1, h1, h⟩ := bind_ok.mp h
  obtain ⟨le1, f1, inv1, g1⟩ := checkZero_spec hinv hP hx h1
  obtain ⟨le2, f2, inv2, g2⟩ := boolNot_spec inv1 g1 h
  exact ⟨le1.trans le2, f1.trans f2, inv2, g2⟩

theorem assertNonzero_spec {s s' : St} {x : LinComb} {u : Unit} (hinv : Inv s) (hP : PrimeP s)
    (hx : Good s x) (h : assertNonzero x s = .ok (u, s')) : s.le s' ∧ Frame s s' ∧ Inv s' := by
  unfold assertNonzero at h
  rw [getSt_bind] at h
  obtain ⟨w, s1, h1, h⟩ := bind_ok.mp h
  obtain ⟨hhint, rfl⟩ := liftE_ok' h1
  obtain ⟨wit, s2, h2, h⟩ := bind_ok.mp h
  obtain ⟨le2, f2, inv2, g2, v2⟩ := privVal_spec hinv h2
  have hob : (false = false ∨ ∃ g, s2.guard = some g ∧ g.value = 1) →
      s2.p ∣ x.value * wit.value - s.one.value := by
    intro _
    rw [le2.p, v2]
    unfold assertNonzeroHint at hhint
    rcases hinv.one_value with ⟨hi, ho⟩ | ⟨hi, ho⟩
    · have hg := hinv.isGuard_of_ign_false hi
      simp only [hg, hi, Bool.true_and] at hhint
      split at hhint
      · split at hhint
        · rename_i y hy
          simp only [Except.ok.injEq] at hhint
          subst hhint
          rw [ho]; exact invert_some hP hy
        · cases hhint
      · simp at hhint
    · have hg := hinv.isGuard_false_of_ign hi
      simp only [hg, hi, Bool.false_and, if_true] at hhint
      simp only [Bool.false_eq_true, if_false, Except.ok.injEq] at hhint
      subst hhint
      simp [ho]
  obtain ⟨le3, f3, inv3⟩ := addConstraint_spec inv2 (hx.mono le2) g2 (hinv.oneGood.mono le2) hob h
  exact ⟨le2.trans le3, f2.trans f3, inv3⟩

/-! ## comparisons -/
section cmp
variable {s s' : St} {a b r : LinComb} {c : Int}

theorem ltLL_spec (hinv : Inv s) (ha : Good s a) (hb : Good s b) (h : ltLL a b s = .ok (r, s')) :
    s.le s' ∧ Frame s s' ∧ Inv s' ∧ Good s' r := by
  unfold ltLL at h; exact checkPositive_spec hinv ((hb.sub ha).subI 1) h
theorem leLL_spec (hinv : Inv s) (ha : Good s a) (hb : Good s b) (h : leLL a b s = .ok (r, s')) :
    s.le s' ∧ Frame s s' ∧ Inv s' ∧ Good s' r := by
  unfold leLL at h; exact checkPositive_spec hinv (hb.sub ha) h
theorem eqLL_spec (hinv : Inv s) (hP : PrimeP s) (ha : Good s a) (hb : Good s b) (h : eqLL a b s = .ok (r, s')) :
    s.le s' ∧ Frame s s' ∧ Inv s' ∧ Good s' r := by
  unfold eqLL at h; exact checkZero_spec hinv hP (ha.sub hb) h
theorem neLL_spec (hinv : Inv s) (hP : PrimeP s) (ha : Good s a) (hb : Good s b) (h : neLL a b s = .ok (r, s')) :
    s.le s' ∧ Frame s s' ∧ Inv s' ∧ Good s' r := by
  unfold neLL at h; exact checkNonzero_spec hinv hP (ha.sub hb) h
theorem gtLL_spec (hinv : Inv s) (ha : Good s a) (hb : Good s b) (h : gtLL a b s = .ok (r, s')) :
    s.le s' ∧ Frame s s' ∧ Inv s' ∧ Good s' r := by
  unfold gtLL at h; exact checkPositive_spec hinv ((ha.sub hb).subI 1) h
theorem geLL_spec (hinv : Inv s) (ha : Good s a) (hb : Good s b) (h : geLL a b s = .ok (r, s')) :
    s.le s' ∧ Frame s s' ∧ Inv s' ∧ Good s' r := by
  unfold geLL at h; exact checkPositive_spec hinv (ha.sub hb) h

theorem ltLI_spec (hinv : Inv s) (ha : Good s a) (h : ltLI a c s = .ok (r, s')) :
    s.le s' ∧ Frame s s' ∧ Inv s' ∧ Good s' r := by
  unfold ltLI at h; exact checkPositive_spec hinv ((ha.rsubI c).subI 1) h
theorem leLI_spec (hinv : Inv s) (ha : Good s a) (h : leLI a c s = .ok (r, s')) :
    s.le s' ∧ Frame s s' ∧ Inv s' ∧ Good s' r := by
  unfold leLI at h; exact checkPositive_spec hinv (ha.rsubI c) h
theorem eqLI_spec (hinv : Inv s) (hP : PrimeP s) (ha : Good s a) (h : eqLI a c s = .ok (r, s')) :
    s.le s' ∧ Frame s s' ∧ Inv s' ∧ Good s' r := by
  unfold eqLI at h; exact checkZero_spec hinv hP (ha.subI c) h
theorem neLI_spec (hinv : Inv s) (hP : PrimeP s) (ha : Good s a) (h : neLI a c s = .ok (r, s')) :
    s.le s' ∧ Frame s s' ∧ Inv s' ∧ Good s' r := by
  unfold neLI at h; exact checkNonzero_spec hinv hP (ha.subI c) h
theorem gtLI_spec (hinv : Inv s) (ha : Good s a) (h : gtLI a c s = .ok (r, s')) :
    s.le s' ∧ Frame s s' ∧ Inv s' ∧ Good s' r := by
  unfold gtLI at h; exact checkPositive_spec hinv ((ha.subI c).subI 1) h
theorem geLI_spec (hinv : Inv s) (ha : Good s a) (h : geLI a c s = .ok (r, s')) :
    s.le s' ∧ Frame s s' ∧ Inv s' ∧ Good s' r := by
  unfold geLI at h; exact checkPositive_spec hinv (ha.subI c) h
end cmp

/-! ## assertions -/
section asserts
variable {s s' : St} {a b x lo hi : LinComb} {u : Unit}

theorem assertLt_spec (hinv : Inv s) (ha : Good s a) (hb : Good s b) (h : assertLt a b s = .ok (u, s')) :
    s.le s' ∧ Frame s s' ∧ Inv s' := by
  unfold assertLt at h; split at h
  · cases h
  · exact assertPositive_spec hinv ((hb.sub ha).subI 1) h
theorem assertLe_spec (hinv : Inv s) (ha : Good s a) (hb : Good s b) (h : assertLe a b s = .ok (u, s')) :
    s.le s' ∧ Frame s s' ∧ Inv s' := by
  unfold assertLe at h; split at h
  · cases h
  · exact assertPositive_spec hinv (hb.sub ha) h
theorem assertEq_spec (hinv : Inv s) (ha : Good s a) (hb : Good s b) (h : assertEq a b s = .ok (u, s')) :
    s.le s' ∧ Frame s s' ∧ Inv s' := by
  unfold assertEq at h; split at h
  · cases h
  · exact assertZero_spec hinv (ha.sub hb) h
theorem assertNe_spec (hinv : Inv s) (hP : PrimeP s) (ha : Good s a) (hb : Good s b)
    (h : assertNe a b s = .ok (u, s')) : s.le s' ∧ Frame s s' ∧ Inv s' := by
  unfold assertNe at h; split at h
  · cases h
  · exact assertNonzero_spec hinv hP (ha.sub hb) h
theorem assertGt_spec (hinv : Inv s) (ha : Good s a) (hb : Good s b) (h : assertGt a b s = .ok (u, s')) :
    s.le s' ∧ Frame s s' ∧ Inv s' := by
  unfold assertGt at h; split at h
  · cases h
  · exact assertPositive_spec hinv ((ha.sub hb).subI 1) h
theorem assertGe_spec (hinv : Inv s) (ha : Good s a) (hb : Good s b) (h : assertGe a b s = .ok (u, s')) :
    s.le s' ∧ Frame s s' ∧ Inv s' := by
  unfold assertGe at h; split at h
  · cases h
  · exact assertPositive_spec hinv (ha.sub hb) h

theorem assertRange_spec (hinv : Inv s) (hx : Good s x) (hlo : Good s lo) (hhi : Good s hi)
    (h : assertRange x lo hi s = .ok (u, s')) : s.le s' ∧ Frame s s' ∧ Inv s' := by
  unfold assertRange at h; split at h
  · cases h
  · obtain ⟨u1, s1, h1, h⟩ := bind_ok.mp h
    obtain ⟨le1, f1, inv1⟩ := assertPositive_spec hinv (hx.sub hlo) h1
    obtain ⟨le2, f2, inv2⟩ := assertPositive_spec inv1 (((hhi.sub hx).subI 1).mono le1) h
    exact ⟨le1.trans le2, f1.trans f2, inv2⟩
end asserts

/-! ## `val()` -/
theorem valL_spec {s s' : St} {x : LinComb} {v : Int} (hinv : Inv s) (hx : Good s x)
    (h : valL x s = .ok (v, s')) : s.le s' ∧ Frame s s' ∧ Inv s' := by
  unfold valL at h
  obtain ⟨o, s1, h1, h⟩ := bind_ok.mp h
  obtain ⟨u, s2, h2, h⟩ := bind_ok.mp h
  obtain ⟨rfl, rfl⟩ := pure_ok' h
  obtain ⟨le1, f1, inv1, g1, -⟩ := pubVal_spec hinv h1
  obtain ⟨le2, f2, inv2⟩ := assertZero_spec inv1 ((hx.mono le1).sub g1) h2
  exact ⟨le1.trans le2, f1.trans f2, inv2⟩

/-! ## division -/
/-- `LinComb / int` outside a false guard (the arm taken when errors are not ignored) -/
theorem truedivLI_spec' {s s' : St} {a r : LinComb} {c : Int} (hinv : Inv s) (hP : PrimeP s)
    (hi : s.ignoreErrors = false) (ha : Good s a) (h : truedivLI a c s = .ok (r, s')) :
    s.le s' ∧ Frame s s' ∧ Inv s' ∧ Good s' r := by
  unfold truedivLI at h
  have hg := hinv.isGuard_of_ign_false hi
  simp only [hg, hi, Bool.true_and] at h
  split at h
  · cases h
  · split at h
    · rename_i hm
      split at h
      · rename_i i hinvert
        simp only [Except.ok.injEq, Prod.mk.injEq] at h
        obtain ⟨rfl, rfl⟩ := h
        refine ⟨St.le.refl _, Frame.refl _, hinv, ⟨(ha.mulI i).1, ?_⟩⟩
        rw [Coh.iff_dvd]
        simp only [LC.eval_scale]
        obtain ⟨k1, e1⟩ := Coh.iff_dvd.mp ha.2
        obtain ⟨k2, e2⟩ := invert_some hP hinvert
        have hm' : Int.fmod a.value c = 0 := by simpa [Py.mod] using hm
        have e3 := Int.mul_fdiv_cancel_of_fmod_eq_zero hm'
        refine ⟨i * k1 - Py.floordiv a.value c * k2, ?_⟩
        unfold Py.floordiv
        linear_combination i * e1 - a.value.fdiv c * e2 + i * e3
      · cases h
    · simp at h

theorem truedivLI_spec {s s' : St} {a r : LinComb} {c : Int} (hinv : Inv s) (hP : PrimeP s)
    (hg : s.guard = none) (ha : Good s a) (h : truedivLI a c s = .ok (r, s')) :
    s.le s' ∧ Frame s s' ∧ Inv s' ∧ Good s' r :=
  truedivLI_spec' hinv hP (hinv.ign_false_of_none hg) ha h

theorem truedivLL_spec {s s' : St} {a b r : LinComb} (hinv : Inv s) (ha : Good s a) (hb : Good s b)
    (h : truedivLL a b s = .ok (r, s')) : s.le s' ∧ Frame s s' ∧ Inv s' ∧ Good s' r := by
  unfold truedivLL at h
  rw [getSt_bind] at h
  obtain ⟨q, s1, h1, h⟩ := bind_ok.mp h
  obtain ⟨hhint, rfl⟩ := liftE_ok' h1
  obtain ⟨res, s2, h2, h⟩ := bind_ok.mp h
  obtain ⟨u, s3, h3, h⟩ := bind_ok.mp h
  obtain ⟨rfl, rfl⟩ := pure_ok' h
  obtain ⟨le2, f2, inv2, g2, v2⟩ := privVal_spec hinv h2
  have hob : (true = false ∨ ∃ g, s2.guard = some g ∧ g.value = 1) →
      s2.p ∣ b.value * res.value - a.value := by
    intro hh
    have hi2 := hob_ign inv2 hh
    have hi : s.ignoreErrors = false := by rw [← f2.ign]; exact hi2
    have hg := hinv.isGuard_of_ign_false hi
    unfold truedivHint at hhint
    simp only [hg, hi, Bool.true_and] at hhint
    split at hhint
    · cases hhint
    · split at hhint
      · rename_i hm
        simp only [Except.ok.injEq] at hhint
        subst hhint
        have hm' : Int.fmod a.value b.value = 0 := by simpa [Py.mod] using hm
        have e3 := Int.mul_fdiv_cancel_of_fmod_eq_zero hm'
        rw [v2]; unfold Py.floordiv; rw [e3]; simp
      · simp at hhint
  obtain ⟨le3, f3, inv3⟩ := addConstraint_spec inv2 (hb.mono le2) g2 (ha.mono le2) hob h3
  exact ⟨le2.trans le3, f2.trans f3, inv3, g2.mono le3⟩

theorem divmodLL_spec {s s' : St} {a d : LinComb} {qr : LinComb × LinComb} (hinv : Inv s)
    (ha : Good s a) (hd : Good s d) (h : divmodLL a d s = .ok (qr, s')) :
    s.le s' ∧ Frame s s' ∧ Inv s' ∧ Good s' qr.1 ∧ Good s' qr.2 := by
  unfold divmodLL at h
  split at h
  · cases h
  · obtain ⟨quo, s1, h1, h⟩ := bind_ok.mp h
    obtain ⟨res, s2, h2, h⟩ := bind_ok.mp h
    obtain ⟨rem, s3, h3, h⟩ := bind_ok.mp h
    obtain ⟨u4, s4, h4, h⟩ := bind_ok.mp h
    obtain ⟨u5, s5, h5, h⟩ := bind_ok.mp h
    obtain ⟨u6, s6, h6, h⟩ := bind_ok.mp h
    obtain ⟨rfl, rfl⟩ := pure_ok' h
    obtain ⟨le1, f1, inv1, g1, v1⟩ := privVal_spec hinv h1
    obtain ⟨le2, f2, inv2, g2, v2⟩ := mulLL_spec inv1 g1 (hd.mono le1) h2
    obtain ⟨le3, f3, inv3, g3, v3⟩ := privVal_spec inv2 h3
    have l13 := (le1.trans le2).trans le3
    have hq3 := (g1.mono le2).mono le3
    have hd3 := hd.mono l13
    have ha3 := ha.mono l13
    have hob : (true = false ∨ ∃ g, s3.guard = some g ∧ g.value = 1) →
        s3.p ∣ quo.value * d.value - (a.sub rem).value := by
      intro _
      have : quo.value * d.value - (a.sub rem).value = 0 := by
        simp only [LinComb.sub, LinComb.add, LinComb.neg, v3, v2]; ring
      rw [this]; exact dvd_zero _
    obtain ⟨le4, f4, inv4⟩ := addConstraint_spec inv3 hq3 hd3 (ha3.sub g3) hob h4
    obtain ⟨le5, f5, inv5⟩ := assertLt_spec inv4 (g3.mono le4) (hd3.mono le4) h5
    obtain ⟨le6, f6, inv6⟩ := assertPositive_spec inv5 ((g3.mono le4).mono le5) h6
    have l46 := (le4.trans le5).trans le6
    exact ⟨l13.trans l46, (((((f1.trans f2).trans f3).trans f4).trans f5).trans f6), inv6,
      hq3.mono l46, g3.mono l46⟩

/-! ## powers, conditionals -/
theorem powLN_spec {a : LinComb} : ∀ (n : Nat) {s s' : St} {r : LinComb}, Inv s → Good s a →
    powLN a n s = .ok (r, s') → s.le s' ∧ Frame s s' ∧ Inv s' ∧ Good s' r
  | 0, s, s', r, hinv, _, h => by
    unfold powLN at h
    simp only [Except.ok.injEq, Prod.mk.injEq] at h
    obtain ⟨rfl, rfl⟩ := h
    exact ⟨St.le.refl _, Frame.refl _, hinv, hinv.oneGood⟩
  | 1, s, s', r, hinv, ha, h => by
    unfold powLN at h
    obtain ⟨rfl, rfl⟩ := pure_ok' h
    exact ⟨St.le.refl _, Frame.refl _, hinv, ha⟩
  | n+2, s, s', r, hinv, ha, h => by
    unfold powLN at h
    obtain ⟨r1, s1, h1, h⟩ := bind_ok.mp h
    obtain ⟨le1, f1, inv1, g1⟩ := powLN_spec (n+1) hinv ha h1
    obtain ⟨le2, f2, inv2, g2, -⟩ := mulLL_spec inv1 (ha.mono le1) g1 h
    exact ⟨le1.trans le2, f1.trans f2, inv2, g2⟩

theorem iteLLL_spec {s s' : St} {c t f r : LinComb} (hinv : Inv s) (hc : Good s c) (ht : Good s t)
    (hf : Good s f) (h : iteLLL c t f s = .ok (r, s')) : s.le s' ∧ Frame s s' ∧ Inv s' ∧ Good s' r := by
  unfold iteLLL at h
  obtain ⟨prod, s1, h1, h⟩ := bind_ok.mp h
  obtain ⟨rfl, rfl⟩ := pure_ok' h
  obtain ⟨le1, f1, inv1, g1, -⟩ := mulLL_spec hinv hc (ht.sub hf) h1
  exact ⟨le1, f1, inv1, (hf.mono le1).add g1⟩

theorem ensureboolI_spec {s s' : St} {v : Int} {r : LinComb} (hinv : Inv s)
    (h : ensureboolI v s = .ok (r, s')) : s.le s' ∧ Frame s s' ∧ Inv s' ∧ Good s' r := by
  unfold ensureboolI at h
  split at h
  · cases h
  · obtain ⟨le1, f1, inv1, rfl, -⟩ := mkBool_spec hinv (Good.const s v) h
    exact ⟨le1, f1, inv1, Good.const _ v⟩

theorem powersAux_spec : ∀ (n : Nat) {curr : LinComb} {p : Int} {s s' : St} {rs : List LinComb}, Inv s →
    Good s curr → p = s.p → powersAux n curr p s = .ok (rs, s') →
    s.le s' ∧ Frame s s' ∧ Inv s' ∧ (∀ r ∈ rs, Good s' r)
  | 0, curr, p, s, s', rs, hinv, _, _, h => by
    unfold powersAux at h
    obtain ⟨rfl, rfl⟩ := pure_ok' h
    exact ⟨St.le.refl _, Frame.refl _, hinv, by simp⟩
  | n+1, curr, p, s, s', rs, hinv, hc, hp, h => by
    unfold powersAux at h
    obtain ⟨c, s1, h1, h⟩ := bind_ok.mp h
    obtain ⟨rest, s2, h2, h⟩ := bind_ok.mp h
    obtain ⟨rfl, rfl⟩ := pure_ok' h
    obtain ⟨le1, f1, inv1, g1, -⟩ := mulLL_spec hinv hc hc h1
    have hp1 : p = s1.p := hp.trans le1.p.symm
    have gc : Good s1 (reduceValue c p) := hp1 ▸ g1.reduceValue
    obtain ⟨le2, f2, inv2, g2⟩ := powersAux_spec n inv1 gc hp1 h2
    refine ⟨le1.trans le2, f1.trans f2, inv2, ?_⟩
    intro r hr
    rcases List.mem_cons.mp hr with rfl | hr
    · exact gc.mono le2
    · exact g2 r hr

theorem mulAll_spec {s0 : St} : ∀ (ms : List LinComb) {acc : LinComb} {s s' : St} {r : LinComb}, Inv s →
    s0.p = s.p → (∀ m ∈ ms, Good s m) → Good s acc → powLL.mulAll s0 ms acc s = .ok (r, s') →
    s.le s' ∧ Frame s s' ∧ Inv s' ∧ Good s' r
  | [], acc, s, s', r, hinv, _, _, hacc, h => by
    unfold powLL.mulAll at h
    obtain ⟨rfl, rfl⟩ := pure_ok' h
    exact ⟨St.le.refl _, Frame.refl _, hinv, hacc⟩
  | m :: ms, acc, s, s', r, hinv, hp, hms, hacc, h => by
    unfold powLL.mulAll at h
    obtain ⟨r1, s1, h1, h⟩ := bind_ok.mp h
    obtain ⟨le1, f1, inv1, g1, -⟩ := mulLL_spec hinv hacc (hms m (List.mem_cons_self ..)) h1
    have hp1 : s0.p = s1.p := hp.trans le1.p.symm
    have gc : Good s1 (reduceValue r1 s0.p) := hp1 ▸ g1.reduceValue
    obtain ⟨le2, f2, inv2, g2⟩ := mulAll_spec ms inv1 hp1
      (fun m' hm' => (hms m' (List.mem_cons_of_mem _ hm')).mono le1) gc h
    exact ⟨le1.trans le2, f1.trans f2, inv2, g2⟩

theorem powLL_spec {s s' : St} {a e r : LinComb} (hinv : Inv s) (hP : PrimeP s) (ha : Good s a)
    (he : Good s e) (h : powLL a e s = .ok (r, s')) : s.le s' ∧ Frame s s' ∧ Inv s' ∧ Good s' r := by
  unfold powLL at h
  obtain ⟨ebits, s1, h1, h⟩ := bind_ok.mp h
  rw [getSt_bind] at h
  obtain ⟨tail, s2, h2, h⟩ := bind_ok.mp h
  obtain ⟨mults, s3, h3, h⟩ := bind_ok.mp h
  rw [getSt_bind] at h
  obtain ⟨le1, f1, inv1, g1⟩ := toBits_spec hinv he h1
  obtain ⟨le2, f2, inv2, g2⟩ := powersAux_spec _ inv1 (ha.mono le1) rfl h2
  have hmap := mapM'_spec (fun (bp : LinComb × LinComb) => do
      let one ← ensureboolI 1
      let c ← eqLL bp.1 one
      let s' ← getSt
      iteLLL c bp.2 s'.one)
    (fun s bp => Good s bp.1 ∧ Good s bp.2 ∧ PrimeP s) (fun s r => Good s r)
    (fun s s' a hle _ ⟨x, y, z⟩ => ⟨x.mono hle, y.mono hle, z.mono hle⟩)
    (fun s s' b hle _ x => x.mono hle)
    (by
      intro s s' bp r hinv ⟨hb1, hb2, hP⟩ h
      obtain ⟨one, s1, h1, h⟩ := bind_ok.mp h
      obtain ⟨c, s2, h2, h⟩ := bind_ok.mp h
      rw [getSt_bind] at h
      obtain ⟨le1, f1, inv1, g1⟩ := ensureboolI_spec hinv h1
      obtain ⟨le2, f2, inv2, g2⟩ := eqLL_spec inv1 (hP.mono le1) (hb1.mono le1) g1 h2
      obtain ⟨le3, f3, inv3, g3⟩ := iteLLL_spec inv2 g2 (hb2.mono (le1.trans le2)) inv2.oneGood h
      exact ⟨(le1.trans le2).trans le3, (f1.trans f2).trans f3, inv3, g3⟩)
    _ s2 s3 mults inv2 (by
      intro ⟨b, pw⟩ hmem
      obtain ⟨hb, hpw⟩ := List.of_mem_zip hmem
      refine ⟨(g1 b hb).mono le2, ?_, hP.mono (le1.trans le2)⟩
      rcases List.mem_cons.mp hpw with rfl | hpw
      · exact ha.mono (le1.trans le2)
      · exact g2 _ hpw) h3
  obtain ⟨le3, f3, inv3, g3, -⟩ := hmap
  obtain ⟨le4, f4, inv4, g4⟩ := mulAll_spec mults inv3 rfl g3 inv3.oneGood h
  exact ⟨((le1.trans le2).trans le3).trans le4, ((f1.trans f2).trans f3).trans f4, inv4, g4⟩

/-! ## shifts and bitwise operations -/
theorem lshiftLI_spec {s s' : St} {a r : LinComb} {n : Int} (hinv : Inv s) (ha : Good s a)
    (h : lshiftLI a n s = .ok (r, s')) : s.le s' ∧ Frame s s' ∧ Inv s' ∧ Good s' r := by
  unfold lshiftLI at h
  split at h
  · cases h
  · simp only [Except.ok.injEq, Prod.mk.injEq] at h
    obtain ⟨rfl, rfl⟩ := h
    exact ⟨St.le.refl _, Frame.refl _, hinv, ha.mulI _⟩

theorem rshiftLI_spec {s s' : St} {a : LinComb} {n : Int} {o : Option LinComb} (hinv : Inv s)
    (ha : Good s a) (h : rshiftLI a n s = .ok (o, s')) :
    s.le s' ∧ Frame s s' ∧ Inv s' ∧ ∀ r, o = some r → Good s' r := by
  unfold rshiftLI at h
  by_cases hn : n < 0
  · simp only [hn, if_true, reduceCtorEq] at h
  simp only [hn, if_false] at h
  obtain ⟨bits, s1, h1, h⟩ := bind_ok.mp h
  obtain ⟨rfl, rfl⟩ := pure_ok' h
  obtain ⟨le1, f1, inv1, g1⟩ := toBits_spec hinv ha h1
  exact ⟨le1, f1, inv1, fromBits_good (fun b hb => g1 b (List.mem_of_mem_drop hb))⟩

section bw
variable {s s' : St} {a b x y r : LinComb} {c : Int} {o : Option LinComb}

theorem andLI_spec (hinv : Inv s) (h : andLI a c s = .ok (r, s')) :
    s.le s' ∧ Frame s s' ∧ Inv s' ∧ Good s' r := by
  unfold andLI at h
  obtain ⟨le1, f1, inv1, g1, -⟩ := privVal_spec hinv h
  exact ⟨le1, f1, inv1, g1⟩
theorem xorLI_spec (hinv : Inv s) (h : xorLI a c s = .ok (r, s')) :
    s.le s' ∧ Frame s s' ∧ Inv s' ∧ Good s' r := by
  unfold xorLI at h
  obtain ⟨le1, f1, inv1, g1, -⟩ := privVal_spec hinv h
  exact ⟨le1, f1, inv1, g1⟩
theorem orLI_spec (hinv : Inv s) (h : orLI a c s = .ok (r, s')) :
    s.le s' ∧ Frame s s' ∧ Inv s' ∧ Good s' r := by
  unfold orLI at h
  obtain ⟨le1, f1, inv1, g1, -⟩ := privVal_spec hinv h
  exact ⟨le1, f1, inv1, g1⟩

theorem mulBB_spec (hinv : Inv s) (hx : Good s x) (hy : Good s y) (h : mulBB x y s = .ok (r, s')) :
    s.le s' ∧ Frame s s' ∧ Inv s' ∧ Good s' r := by
  unfold mulBB at h
  obtain ⟨le1, f1, inv1, g1, -⟩ := mulLL_spec hinv hy hx h
  exact ⟨le1, f1, inv1, g1⟩

/-- common skeleton of `&`, `^`, `|` on two `LinComb`s -/
theorem bitwiseLL_spec (f : LinComb × LinComb → M LinComb)
    (hf : ∀ s s' xy r, Inv s → Good s xy.1 ∧ Good s xy.2 → f xy s = .ok (r, s') →
      s.le s' ∧ Frame s s' ∧ Inv s' ∧ Good s' r)
    (hinv : Inv s) (ha : Good s a) (hb : Good s b)
    (h : (do let ab ← toBits a none
             let bb ← toBits b none
             let res ← mapM' f (ab.zip bb)
             pure (fromBits res) : M (Option LinComb)) s = .ok (o, s')) :
    s.le s' ∧ Frame s s' ∧ Inv s' ∧ ∀ r, o = some r → Good s' r := by
  obtain ⟨ab, s1, h1, h⟩ := bind_ok.mp h
  obtain ⟨bb, s2, h2, h⟩ := bind_ok.mp h
  obtain ⟨res, s3, h3, h⟩ := bind_ok.mp h
  obtain ⟨rfl, rfl⟩ := pure_ok' h
  obtain ⟨le1, f1, inv1, g1⟩ := toBits_spec hinv ha h1
  obtain ⟨le2, f2, inv2, g2⟩ := toBits_spec inv1 (hb.mono le1) h2
  obtain ⟨le3, f3, inv3, g3, -⟩ := mapM'_spec f (fun s xy => Good s xy.1 ∧ Good s xy.2) (fun s r => Good s r)
    (fun s s' a hle _ ⟨x, y⟩ => ⟨x.mono hle, y.mono hle⟩) (fun s s' b hle _ x => x.mono hle) hf
    _ s2 s3 res inv2 (by
      intro ⟨x, y⟩ hmem
      obtain ⟨hx, hy⟩ := List.of_mem_zip hmem
      exact ⟨(g1 x hx).mono le2, g2 y hy⟩) h3
  exact ⟨(le1.trans le2).trans le3, (f1.trans f2).trans f3, inv3, fromBits_good g3⟩

theorem andLL_spec (hinv : Inv s) (ha : Good s a) (hb : Good s b) (h : andLL a b s = .ok (o, s')) :
    s.le s' ∧ Frame s s' ∧ Inv s' ∧ ∀ r, o = some r → Good s' r := by
  unfold andLL at h
  refine bitwiseLL_spec _ ?_ hinv ha hb h
  intro s s' xy r hinv ⟨hx, hy⟩ h
  exact mulBB_spec hinv hx hy h

theorem xorLL_spec (hinv : Inv s) (ha : Good s a) (hb : Good s b) (h : xorLL a b s = .ok (o, s')) :
    s.le s' ∧ Frame s s' ∧ Inv s' ∧ ∀ r, o = some r → Good s' r := by
  unfold xorLL at h
  refine bitwiseLL_spec _ ?_ hinv ha hb h
  intro s s' xy r hinv ⟨hx, hy⟩ h
  obtain ⟨p, s1, h1, h⟩ := bind_ok.mp h
  obtain ⟨rfl, rfl⟩ := pure_ok' h
  obtain ⟨le1, f1, inv1, g1, -⟩ := mulLL_spec hinv hy (hx.mulI 2) h1
  exact ⟨le1, f1, inv1, ((hy.add hx).mono le1).sub g1⟩

theorem orLL_spec (hinv : Inv s) (ha : Good s a) (hb : Good s b) (h : orLL a b s = .ok (o, s')) :
    s.le s' ∧ Frame s s' ∧ Inv s' ∧ ∀ r, o = some r → Good s' r := by
  unfold orLL at h
  refine bitwiseLL_spec _ ?_ hinv ha hb h
  intro s s' xy r hinv ⟨hx, hy⟩ h
  obtain ⟨p, s1, h1, h⟩ := bind_ok.mp h
  obtain ⟨rfl, rfl⟩ := pure_ok' h
  obtain ⟨le1, f1, inv1, g1⟩ := mulBB_spec hinv hx hy h1
  exact ⟨le1, f1, inv1, ((hy.add hx).mono le1).sub g1⟩

theorem invertL_spec (hinv : Inv s) (ha : Good s a) (h : invertL a s = .ok (o, s')) :
    s.le s' ∧ Frame s s' ∧ Inv s' ∧ ∀ r, o = some r → Good s' r := by
  unfold invertL at h
  obtain ⟨bits, s1, h1, h⟩ := bind_ok.mp h
  obtain ⟨inv, s2, h2, h⟩ := bind_ok.mp h
  obtain ⟨rfl, rfl⟩ := pure_ok' h
  obtain ⟨le1, f1, inv1, g1⟩ := toBits_spec hinv ha h1
  obtain ⟨le2, f2, inv2, g2, -⟩ := mapM'_spec boolNot (fun s x => Good s x) (fun s r => Good s r)
    (fun s s' a hle _ x => x.mono hle) (fun s s' b hle _ x => x.mono hle)
    (fun s s' a r hinv ha h => boolNot_spec hinv ha h) _ s1 s2 inv inv1 g1 h2
  exact ⟨le1.trans le2, f1.trans f2, inv2, fromBits_good g2⟩

theorem absL_spec (hinv : Inv s) (ha : Good s a) (h : absL a s = .ok (r, s')) :
    s.le s' ∧ Frame s s' ∧ Inv s' ∧ Good s' r := by
  unfold absL at h
  obtain ⟨c, s1, h1, h⟩ := bind_ok.mp h
  obtain ⟨le1, f1, inv1, g1⟩ := geLI_spec hinv ha h1
  obtain ⟨le2, f2, inv2, g2⟩ := iteLLL_spec inv1 g1 (ha.mono le1) (ha.mono le1).neg h
  exact ⟨le1.trans le2, f1.trans f2, inv2, g2⟩
end bw


end Pysnark
