import PysnarkModel.Lemmas.InvVal
/-!
# Nested guarded regions and `/` under a guard

`add_guard(cond)` inside a guarded region computes the effective guard as `guard & cond` with the
bitwise-AND gadget on `LinComb`s (`to_bits` of both operands, one product per bit position,
`from_bits`), executed while the OUTER guard is still installed.  This file does the value analysis
of that call under the invariant:

* outer guard 0 (error suppression on, `cond` arbitrary): every bit of the outer guard is 0, so the
  new guard has value 0;
* outer guard 1 (error checking on, so `cond ∈ {0,1}` or `add_guard` raised): the new guard has the
  value of `cond`;

and re-establishes `Inv` for the inner state (`addGuardCore_inv`), the saved frame satisfying the
guard part of the invariant (`BakOk`), which is what `restore_guard` needs (`restoreGuard_inv`).
It also proves `LinComb / int` coherent on BOTH arms (`truedivLI_inv`), removing the hypothesis
"errors are not being ignored" of `truedivLI_spec'`.
-/
namespace Pysnark

/-! ## values of the bit-decomposition gadgets -/

/-- `to_bits` with the values of the returned bits and the run-time check it performed -/
theorem toBits_spec_val {s s' : St} {x : LinComb} {bits : Option Nat} {rs : List LinComb} (hinv : Inv s)
    (hx : Good s x) (h : toBits x bits s = .ok (rs, s')) :
    s.le s' ∧ Frame s s' ∧ Inv s' ∧ (∀ r ∈ rs, Good s' r) ∧
      rs.map (·.value) = Py.bitsOf x.value (bits.getD s.bitlength) ∧
      (s.ignoreErrors = false → fitsNonneg x.value (bits.getD s.bitlength) = true) := by
  unfold toBits at h
  dsimp only at h
  split at h
  · cases h
  · rename_i hc
    obtain ⟨bs, s1, h1, h2⟩ := bind_ok.mp h
    obtain ⟨u, s2, h3, h4⟩ := bind_ok.mp h2
    obtain ⟨rfl, rfl⟩ := pure_ok.mp h4
    obtain ⟨le1, f1, inv1, g1, v1⟩ := mapM'_privValBool_spec _ _ _ _ hinv h1
    obtain ⟨le2, f2, inv2⟩ := assertZero_spec inv1 ((hx.mono le1).subFB (fromBits_good g1)) h3
    refine ⟨le1.trans le2, f1.trans f2, inv2, fun r hr => (g1 r hr).mono le2, v1, ?_⟩
    intro hi
    simpa [hi] using hc

theorem fromBits_value {bs : List LinComb} {r : LinComb} (h : fromBits bs = some r) :
    r.value = bitsVal (bs.map (·.value)) 0 := by
  cases bs with
  | nil => cases h
  | cons b bs =>
    simp only [fromBits, Option.some.injEq] at h
    subst h
    simp only [fromBitsAux_value, LinComb.addI, LinComb.add, LinComb.mulI, LinComb.const, List.map_cons, bitsVal]
    ring

theorem zip_map_value : ∀ (as bs : List LinComb),
    (as.zip bs).map (fun xy => xy.2.value * xy.1.value) =
      List.zipWith (fun x y => y * x) (as.map (·.value)) (bs.map (·.value))
  | [], _ => by simp
  | _ :: _, [] => by simp
  | a :: as, b :: bs => by simp [zip_map_value as bs]

/-- the per-bit products of `&` with their values -/
theorem mapM'_mulBB_spec : ∀ (xys : List (LinComb × LinComb)) (s s' : St) (rs : List LinComb), Inv s →
      (∀ xy ∈ xys, Good s xy.1 ∧ Good s xy.2) →
      mapM' (fun (xy : LinComb × LinComb) => mulBB xy.1 xy.2) xys s = .ok (rs, s') →
      s.le s' ∧ Frame s s' ∧ Inv s' ∧ (∀ r ∈ rs, Good s' r) ∧
        rs.map (·.value) = xys.map (fun xy => xy.2.value * xy.1.value)
  | [], s, s', rs, hinv, _, h => by
    unfold mapM' at h
    obtain ⟨rfl, rfl⟩ := pure_ok.mp h
    exact ⟨St.le.refl _, Frame.refl _, hinv, by simp, rfl⟩
  | xy :: xys, s, s', rs, hinv, hA, h => by
    unfold mapM' at h
    obtain ⟨y, s1, h1, h2⟩ := bind_ok.mp h
    obtain ⟨ys, s2, h3, h4⟩ := bind_ok.mp h2
    obtain ⟨rfl, rfl⟩ := pure_ok.mp h4
    obtain ⟨hx1, hx2⟩ := hA xy (List.mem_cons_self ..)
    unfold mulBB at h1
    obtain ⟨le1, f1, inv1, g1, v1⟩ := mulLL_spec hinv hx2 hx1 h1
    obtain ⟨le2, f2, inv2, g2, v2⟩ := mapM'_mulBB_spec xys s1 _ ys inv1
      (fun x' hx' => by
        obtain ⟨a, b⟩ := hA x' (List.mem_cons_of_mem _ hx')
        exact ⟨a.mono le1, b.mono le1⟩) h3
    refine ⟨le1.trans le2, f1.trans f2, inv2, ?_, by simp [v1, v2]⟩
    intro r hr
    rcases List.mem_cons.mp hr with rfl | hr
    · exact g1.mono le2
    · exact g2 r hr

/-- `a & b` on two `LinComb`s with the value of the result -/
theorem andLL_spec_val {s s' : St} {a b : LinComb} {o : Option LinComb} (hinv : Inv s) (ha : Good s a)
    (hb : Good s b) (h : andLL a b s = .ok (o, s')) :
    s.le s' ∧ Frame s s' ∧ Inv s' ∧
      (∀ r, o = some r → Good s' r ∧
        r.value = bitsVal (List.zipWith (fun x y => y * x) (Py.bitsOf a.value s.bitlength)
          (Py.bitsOf b.value s.bitlength)) 0) ∧
      (s.ignoreErrors = false → fitsNonneg a.value s.bitlength = true) := by
  unfold andLL at h
  obtain ⟨ab, s1, h1, h⟩ := bind_ok.mp h
  obtain ⟨bb, s2, h2, h⟩ := bind_ok.mp h
  obtain ⟨res, s3, h3, h⟩ := bind_ok.mp h
  obtain ⟨rfl, rfl⟩ := pure_ok' h
  obtain ⟨le1, f1, inv1, g1, v1, c1⟩ := toBits_spec_val hinv ha h1
  obtain ⟨le2, f2, inv2, g2, v2, -⟩ := toBits_spec_val inv1 (hb.mono le1) h2
  obtain ⟨le3, f3, inv3, g3, v3⟩ := mapM'_mulBB_spec _ s2 s3 res inv2 (by
      intro ⟨x, y⟩ hmem
      obtain ⟨hx, hy⟩ := List.of_mem_zip hmem
      exact ⟨(g1 x hx).mono le2, g2 y hy⟩) h3
  refine ⟨(le1.trans le2).trans le3, (f1.trans f2).trans f3, inv3, ?_, c1⟩
  intro r hr
  refine ⟨fromBits_good g3 r hr, ?_⟩
  rw [fromBits_value hr, v3, zip_map_value, v1, v2]
  simp only [Option.getD_none, f1.bl]

/-! ## the arithmetic of `guard & cond` -/
theorem bitsOf_zero_mem {n : Nat} : ∀ x ∈ Py.bitsOf 0 n, x = 0 := by
  intro x hx
  simp only [Py.bitsOf, List.mem_map, List.mem_range] at hx
  obtain ⟨i, -, rfl⟩ := hx
  simp [Py.bit]

theorem bitsVal_zipWith_zero : ∀ (as bs : List Int) (i : Nat), (∀ x ∈ as, x = 0) →
    bitsVal (List.zipWith (fun x y => y * x) as bs) i = 0
  | [], _, _, _ => by simp [bitsVal]
  | _ :: _, [], _, _ => by simp [bitsVal]
  | a :: as, b :: bs, i, h => by
    have ha : a = 0 := h a (List.mem_cons_self ..)
    simp only [List.zipWith_cons_cons, bitsVal, ha, mul_zero, zero_mul, zero_add]
    exact bitsVal_zipWith_zero as bs (i+1) (fun x hx => h x (List.mem_cons_of_mem _ hx))

/-- false outer guard: `0 & c = 0` at every width, whatever `c` -/
theorem andBits_zero (c : Int) (n : Nat) :
    bitsVal (List.zipWith (fun x y => y * x) (Py.bitsOf 0 n) (Py.bitsOf c n)) 0 = 0 :=
  bitsVal_zipWith_zero _ _ _ bitsOf_zero_mem

theorem fits_one {n : Nat} (h : fitsNonneg 1 n = true) : 1 ≤ n := by
  unfold fitsNonneg at h
  simp only [Bool.not_eq_true', Bool.or_eq_false_iff, decide_eq_false_iff_not, not_lt] at h
  have h2 := (bitLength_le_iff 1 n).mp (by omega)
  rcases n with _ | n
  · simp at h2
  · omega

/-- true outer guard: `1 & c = c` for a bit `c` at every width ≥ 1 -/
theorem andBits_one {c : Int} (hc : c = 0 ∨ c = 1) {n : Nat} (hn : 1 ≤ n) :
    bitsVal (List.zipWith (fun x y => y * x) (Py.bitsOf 1 n) (Py.bitsOf c n)) 0 = c := by
  obtain ⟨m, rfl⟩ : ∃ m, n = m + 1 := ⟨n - 1, by omega⟩
  rw [bitsOf_succ, bitsOf_succ]
  have e1 : (1 : Int) % 2 = 1 := by norm_num
  have e2 : (1 : Int) / 2 = 0 := by norm_num
  rw [e1, e2]
  simp only [List.zipWith_cons_cons, bitsVal]
  rw [bitsVal_zipWith_zero _ _ _ bitsOf_zero_mem]
  rcases hc with rfl | rfl <;> norm_num

/-! ## `BakOk` -/
theorem BakOk.mono {s s' : St} {b : GuardBak} (h : BakOk s b) (hle : s.le s') : BakOk s' b :=
  ⟨h.oneNone, h.oneSome, fun g hg => ⟨(h.guardGood g hg).1.mono hle, (h.guardGood g hg).2⟩, h.ign⟩

/-- the triple `add_guard` saves is the guard part of the current invariant -/
theorem Inv.bakOk {s : St} (h : Inv s) : BakOk s ⟨s.guard, s.ignoreErrors, s.one⟩ :=
  ⟨h.oneNone, h.oneSome, h.guardGood, h.ign⟩

/-- changing only the guard triple keeps wires, constraints and modulus -/
theorem le_setGuard (s : St) (g : Option LinComb) (i : Bool) (o : LinComb) :
    s.le { s with guard := g, ignoreErrors := i, one := o } :=
  ⟨List.prefix_refl _, List.prefix_refl _, List.prefix_refl _, rfl⟩

/-- installing a guard triple that satisfies the guard part of the invariant -/
theorem Inv.setGuard {s : St} (h : Inv s) {b : GuardBak} (hb : BakOk s b) :
    Inv { s with guard := b.guard, ignoreErrors := b.ignoreErrors, one := b.one } :=
  have hle := le_setGuard s b.guard b.ignoreErrors b.one
  { sat := fun c' hc' => (h.sat c' hc').mono hle (h.consOk c' hc')
    consOk := fun c' hc' => by
      obtain ⟨a, b, d⟩ := h.consOk c' hc'
      exact ⟨a.mono hle, b.mono hle, d.mono hle⟩
    oneNone := hb.oneNone
    oneSome := hb.oneSome
    guardGood := fun g hg => ⟨(hb.guardGood g hg).1.mono hle, (hb.guardGood g hg).2⟩
    ign := hb.ign }

/-! ## `add_guard` at any depth -/
/-- **The effective guard of a nested region.**  `add_guard(c)` inside a region guarded by `g`
(under the invariant, so `g ∈ {0,1}`, and `c ∈ {0,1}` unless errors are suppressed) runs the AND
gadget under `g` and installs a coherent guard `g'` with `g'.value = g.value * c.value` — the
conjunction — which is again 0/1; error suppression in the inner state is on exactly when `g'` is 0. -/
theorem addGuardCore_nested {s s' : St} {c g : LinComb} {bak : GuardBak} (hinv : Inv s)
    (hg : s.guard = some g) (hc : Good s c) (h : addGuardCore (.lc c) s = .ok (bak, s')) :
    ∃ g' s1, s.le s1 ∧ Frame s s1 ∧ Inv s1 ∧ Good s1 g' ∧ g'.value = g.value * c.value ∧
      (g'.value = 0 ∨ g'.value = 1) ∧
      ((s.ignoreErrors || c.value == 0) = true ↔ g'.value = 0) ∧
      s' = { s1 with guard := some g', ignoreErrors := s1.ignoreErrors || c.value == 0, one := g' } ∧
      bak = ⟨some g, s.ignoreErrors, s.one⟩ := by
  obtain ⟨gg, gval⟩ := hinv.guardGood g hg
  unfold addGuardCore at h
  dsimp only at h
  split at h
  · cases h
  · rename_i hcond
    simp only [hg] at h
    cases hbw : bwLV .and g (.lc c) s with
    | error e => rw [hbw] at h; cases h
    | ok r =>
      obtain ⟨v, s1⟩ := r
      rw [hbw] at h
      unfold bwLV at hbw
      simp only at hbw
      obtain ⟨o, s2, h1, h2⟩ := bind_ok.mp hbw
      obtain ⟨rfl, rfl⟩ := pure_ok' h2
      obtain ⟨le1, f1, inv1, g1, c1⟩ := andLL_spec_val hinv gg hc h1
      cases o with
      | none => simp only [ofFB] at h; cases h
      | some g' =>
        simp only [ofFB, Except.ok.injEq, Prod.mk.injEq] at h
        obtain ⟨rfl, rfl⟩ := h
        obtain ⟨gg', gv'⟩ := g1 g' rfl
        refine ⟨g', s2, le1, f1, inv1, gg', ?_⟩
        rcases gval with g0 | g1v
        · -- false outer guard: errors suppressed, `c` arbitrary, every bit of `g` is 0
          have hi := (hinv.ign_of_guard hg).mpr g0
          have v0 : g'.value = 0 := by rw [gv', g0]; exact andBits_zero _ _
          refine ⟨by rw [v0, g0]; ring, Or.inl v0, by simp [hi, v0], rfl, rfl⟩
        · -- true outer guard: errors checked, so `c` is a bit and the width is at least 1
          have hi := hinv.ign_false_of_one hg g1v
          have hcv : c.value = 0 ∨ c.value = 1 := by
            simp only [hi, Bool.not_false, Bool.true_and, Bool.and_eq_true, bne_iff_ne, ne_eq, not_and,
              Decidable.not_not] at hcond
            by_cases h0 : c.value = 0
            · exact Or.inl h0
            · exact Or.inr (hcond h0)
          have ve : g'.value = c.value := by
            rw [gv', g1v]
            exact andBits_one hcv (fits_one (g1v ▸ c1 hi))
          refine ⟨by rw [ve, g1v]; ring, by rw [ve]; exact hcv, by simp [hi, ve], rfl, rfl⟩

/-- **`add_guard(cond)` under the invariant, inside or outside a guarded region.**  The inner state
satisfies the invariant again; the new guard is 0/1-valued, coherent, and error suppression is on
in the inner state exactly when the new guard is 0 (these are fields of `Inv s'`); the saved frame
satisfies the guard part of the invariant. -/
theorem addGuardCore_inv {s s' : St} {cond : Val} {bak : GuardBak} (hinv : Inv s)
    (hc : GoodV s cond) (h : addGuardCore cond s = .ok (bak, s')) :
    s.le s' ∧ Inv s' ∧ BakOk s' bak := by
  cases hg : s.guard with
  | none =>
    have hi := hinv.ign_false_of_none hg
    have hbak : BakOk s ⟨none, s.ignoreErrors, s.one⟩ := by
      have := hinv.bakOk
      rwa [hg] at this
    unfold addGuardCore at h
    dsimp only at h
    split at h
    · rename_i c
      gv
      split at h
      · cases h
      · rename_i hcond
        simp only [hg] at h
        simp only [Except.ok.injEq, Prod.mk.injEq] at h
        obtain ⟨rfl, rfl⟩ := h
        have hle := le_setGuard s (some c) (s.ignoreErrors || c.value == 0) c
        have hcv : c.value = 0 ∨ c.value = 1 := by
          simp only [hi, Bool.not_false, Bool.true_and, Bool.and_eq_true, bne_iff_ne, ne_eq, not_and,
            Decidable.not_not] at hcond
          by_cases h0 : c.value = 0
          · exact Or.inl h0
          · exact Or.inr (hcond h0)
        have hb' : BakOk s ⟨some c, s.ignoreErrors || c.value == 0, c⟩ := by
          refine ⟨(fun hn => by cases hn), (fun x hx => by cases hx; rfl), ?_, ?_⟩
          · intro x hx
            cases hx
            exact ⟨hc, hcv⟩
          · simp only [hi, Bool.false_or, beq_iff_eq, Option.some.injEq, exists_eq_left']
        exact ⟨hle, hinv.setGuard hb', hbak.mono hle⟩
    · split at h
      · cases h
      · split at h
        · cases h
        · simp only [Except.ok.injEq, Prod.mk.injEq] at h
          obtain ⟨rfl, rfl⟩ := h
          exact ⟨St.le.refl _, hinv, hinv.bakOk⟩
    · cases h
  | some g =>
    cases cond
    case lc c =>
      gv
      obtain ⟨g', s1, le1, f1, inv1, gg', -, gbit, hign, rfl, rfl⟩ := addGuardCore_nested hinv hg hc h
      have hle2 := le_setGuard s1 (some g') (s1.ignoreErrors || c.value == 0) g'
      have hbak : BakOk s1 ⟨s.guard, s.ignoreErrors, s.one⟩ := hinv.bakOk.mono le1
      rw [hg] at hbak
      refine ⟨le1.trans hle2, ?_, hbak.mono hle2⟩
      have hb' : BakOk s1 ⟨some g', s1.ignoreErrors || c.value == 0, g'⟩ := by
        refine ⟨(fun hn => by cases hn), (fun x hx => by cases hx; rfl), ?_, ?_⟩
        · intro x hx
          cases hx
          exact ⟨gg', gbit⟩
        · rw [f1.ign]
          simp only [Option.some.injEq, exists_eq_left']
          exact hign
      exact inv1.setGuard hb'
    case int c =>
      unfold addGuardCore at h
      dsimp only at h
      split at h
      · cases h
      · split at h
        · cases h
        · simp only [Except.ok.injEq, Prod.mk.injEq] at h
          obtain ⟨rfl, rfl⟩ := h
          exact ⟨St.le.refl _, hinv, hinv.bakOk⟩
    all_goals (unfold addGuardCore at h; cases h)

theorem GoodV_unwrapBoolCond' {s : St} {v : Val} (h : GoodV s v) : GoodV s (unwrapBoolCond v) := by
  cases v
  case lcb x => exact GoodV_lc.mpr (GoodV_lcb.mp h)
  all_goals exact h

theorem addGuard_inv {s s' : St} {cond : Val} {bak : GuardBak} (hinv : Inv s)
    (hc : GoodV s cond) (h : addGuard cond s = .ok (bak, s')) :
    s.le s' ∧ Inv s' ∧ BakOk s' bak :=
  addGuardCore_inv hinv (GoodV_unwrapBoolCond' hc) h

/-- `restore_guard(bak)` for any saved frame that satisfies the guard part of the invariant -/
theorem restoreGuard_inv {s s' : St} {bak : GuardBak} {u : Unit} (hinv : Inv s) (hb : BakOk s bak)
    (h : restoreGuard bak s = .ok (u, s')) : s.le s' ∧ Inv s' := by
  unfold restoreGuard at h
  simp only [Except.ok.injEq, Prod.mk.injEq] at h
  obtain ⟨-, rfl⟩ := h
  exact ⟨le_setGuard _ _ _ _, hinv.setGuard hb⟩

/-- the unwinding of `guarded` frames on an exception (`restore_guard` in each `except` clause,
innermost first) ends in a state that satisfies the invariant -/
theorem unwind_inv : ∀ (frames : List GuardBak) (s : St), Inv s → (∀ b ∈ frames, BakOk s b) →
    s.le (unwind s frames) ∧ Inv (unwind s frames)
  | [], s, hinv, _ => ⟨St.le.refl _, hinv⟩
  | b :: rest, s, hinv, hb => by
    unfold unwind
    have hle := le_setGuard s b.guard b.ignoreErrors b.one
    obtain ⟨le2, inv2⟩ := unwind_inv rest _ (hinv.setGuard (hb b (List.mem_cons_self ..)))
      (fun b' hb' => (hb b' (List.mem_cons_of_mem _ hb')).mono hle)
    exact ⟨hle.trans le2, inv2⟩

/-! ## `/` in every mode -/
/-- `LinComb / int` on both arms: outside a false guard the quotient is exact; under a false guard
(errors suppressed) the repaired code returns `value·c⁻¹ mod p` with wire expression `lc·c⁻¹` -/
theorem truedivLI_inv {s s' : St} {a r : LinComb} {c : Int} (hinv : Inv s) (hP : PrimeP s)
    (ha : Good s a) (h : truedivLI a c s = .ok (r, s')) :
    s.le s' ∧ Frame s s' ∧ Inv s' ∧ Good s' r := by
  cases hi : s.ignoreErrors with
  | false => exact truedivLI_spec' hinv hP hi ha h
  | true =>
    have hg := hinv.isGuard_false_of_ign hi
    unfold truedivLI at h
    simp only [hg, hi, Bool.false_and, if_true] at h
    split at h
    · cases h
    · simp only [Bool.false_eq_true, if_false] at h
      split at h
      · rename_i i hinvert
        simp only [Except.ok.injEq, Prod.mk.injEq] at h
        obtain ⟨rfl, rfl⟩ := h
        refine ⟨St.le.refl _, Frame.refl _, hinv, ⟨(ha.mulI i).1, ?_⟩⟩
        have := (ha.mulI i).reduceValue
        exact this.2
      · cases h

/-- `a / b` in every mode (no hypothesis on error suppression) -/
theorem truedivV_inv {s s' : St} {a b r : Val} (hinv : Inv s) (hP : PrimeP s)
    (ha : GoodV s a) (hb : GoodV s b)
    (h : truedivV a b s = .ok (r, s')) : s.le s' ∧ Frame s s' ∧ Inv s' ∧ GoodV s' r := by
  unfold truedivV at h
  split at h
  · split at h
    · call_arm (truedivLI_inv hinv hP ha)
    · call_arm (truedivLL_spec hinv ha hb)
    · gv; exact truedivV_fxpArm hinv (GoodV_lc.mpr ha) hb h
    · exact (raise_ok.mp h).elim
  · split at h
    · exact (raise_ok.mp h).elim
    · gv; exact truedivV_fxpArm hinv (GoodV_lcb.mpr ha) hb h
    · exact (raise_ok.mp h).elim
  · obtain ⟨o, s1, h1, h⟩ := bind_ok.mp h
    gv
    obtain ⟨le1, f1, inv1, g1⟩ := truedivXV_spec hinv ha hb h1
    split at h
    · obtain ⟨rfl, rfl⟩ := pure_ok' h
      exact ⟨le1, f1, inv1, GoodV_fxp.mpr (g1 _ rfl)⟩
    · exact (raise_ok.mp h).elim
  · split at h
    · call_arm (truedivLL_spec hinv (Good.const _ _) hb)
    · gv; exact truedivV_fxpArm hinv GoodV_int hb h
    · exact (raise_ok.mp h).elim
    · exact (raise_ok.mp h).elim
  · split at h
    · exact (raise_ok.mp h).elim
    · gv; exact truedivV_fxpArm hinv GoodV_flt hb h
    · exact (raise_ok.mp h).elim
    · exact (raise_ok.mp h).elim
  · split at h <;> exact (raise_ok.mp h).elim

end Pysnark
