import PysnarkModel.Lemmas.InvBase
/-!
# `add_constraint` (guarded and unguarded) and boolean construction preserve the invariant
-/
namespace Pysnark

theorem Frame.refl (s : St) : Frame s s := ⟨rfl, rfl, rfl, rfl, rfl⟩
theorem Frame.trans {a b c : St} (h1 : Frame a b) (h2 : Frame b c) : Frame a c :=
  ⟨h2.guard.trans h1.guard, h2.ign.trans h1.ign, h2.one.trans h1.one, h2.bl.trans h1.bl, h2.res.trans h1.res⟩

/-- no guard ⇒ errors are not ignored (the user has not switched checking off) -/
theorem Inv.ign_false_of_none {s : St} (h : Inv s) (hg : s.guard = none) : s.ignoreErrors = false := by
  cases hi : s.ignoreErrors with
  | false => rfl
  | true => obtain ⟨g, hg', _⟩ := h.ign.mp hi; rw [hg] at hg'; cases hg'

theorem Inv.ign_of_guard {s : St} (h : Inv s) {g : LinComb} (hg : s.guard = some g) :
    s.ignoreErrors = true ↔ g.value = 0 := by
  rw [h.ign]
  constructor
  · rintro ⟨g', hg', h0⟩; rw [hg] at hg'; cases hg'; exact h0
  · intro h0; exact ⟨g, hg, h0⟩

/-- `add_constraint(v, w, y, check)`.  The call-site obligation `hob` is needed exactly where the
code performs no integer check of its own: under a guard whose value is 1, and for `check=False`. -/
theorem addConstraint_spec {s s' : St} {v w y : LinComb} {check : Bool} {u : Unit} (hinv : Inv s)
    (hv : Good s v) (hw : Good s w) (hy : Good s y)
    (hob : (check = false ∨ ∃ g, s.guard = some g ∧ g.value = 1) → s.p ∣ (v.value * w.value - y.value))
    (h : addConstraint v w y check s = .ok (u, s')) :
    s.le s' ∧ Frame s s' ∧ Inv s' := by
  unfold addConstraint at h
  cases hg : s.guard with
  | none =>
    simp only [hg] at h
    have hign := hinv.ign_false_of_none hg
    split at h
    · cases h
    · rename_i hc
      have hdvd : s.p ∣ (v.value * w.value - y.value) := by
        cases check with
        | false => exact hob (Or.inl rfl)
        | true =>
          simp only [hign, Bool.not_false, Bool.and_true, bne_iff_ne, ne_eq, Decidable.not_not] at hc
          rw [hc]; simp
      have hsat : Sat s.p s.assign (v.lc, w.lc, y.lc) := by
        rw [Sat.iff_dvd]
        obtain ⟨k1, e1⟩ := coh_mul hv.2 hw.2
        obtain ⟨k2, e2⟩ := Coh.iff_dvd.mp hy.2
        obtain ⟨k3, e3⟩ := hdvd
        exact ⟨k3 + k2 - k1, by simp only; rw [mul_sub, mul_add]; linarith⟩
      exact addConstraintUnsafe_spec hinv hv.1 hw.1 hy.1 hsat h
  | some g =>
    simp only [hg] at h
    obtain ⟨dummy, s1, h1, h2⟩ := bind_ok.mp h
    obtain ⟨u1, s2, h3, h4⟩ := bind_ok.mp h2
    obtain ⟨le1, f1, inv1, gd, vd⟩ := privVal_spec hinv h1
    have hv1 := hv.mono le1; have hw1 := hw.mono le1; have hy1 := hy.mono le1
    obtain ⟨gg, gval⟩ := hinv.guardGood g hg
    have gg1 := gg.mono le1
    have hyd : Good s1 (y.add dummy) := hy1.add gd
    have hsat1 : Sat s1.p s1.assign (v.lc, w.lc, (y.add dummy).lc) := by
      rw [Sat.iff_dvd]
      obtain ⟨k1, e1⟩ := coh_mul hv1.2 hw1.2
      obtain ⟨k2, e2⟩ := Coh.iff_dvd.mp hyd.2
      simp only [LinComb.add] at e2
      rw [vd] at e2
      exact ⟨k2 - k1, by simp only [LinComb.add]; rw [mul_sub]; linarith⟩
    obtain ⟨le2, f2, inv2⟩ := addConstraintUnsafe_spec inv1 hv1.1 hw1.1 hyd.1 hsat1 h3
    have gg2 := gg1.mono le2; have gd2 := gd.mono le2
    have hsat2 : Sat s2.p s2.assign (g.lc, dummy.lc, LinComb.zero.lc) := by
      rw [Sat.iff_dvd]
      obtain ⟨k1, e1⟩ := Coh.iff_dvd.mp gg2.2
      obtain ⟨k2, e2⟩ := Coh.iff_dvd.mp gd2.2
      have hp2 : s2.p = s.p := le2.p.trans le1.p
      rw [vd] at e2
      simp only [LinComb.zero, LC.zero, LC.eval]
      rcases gval with g0 | g1
      · -- false guard: eval g ≡ 0
        rw [g0] at e1
        refine ⟨-(k1 * LC.eval s2.assign dummy.lc), ?_⟩
        have : LC.eval s2.assign g.lc = -(s2.p * k1) := by linarith
        rw [this]; ring
      · -- true guard: the call site guarantees dummy ≡ 0
        obtain ⟨k3, e3⟩ := hob (Or.inr ⟨g, hg, g1⟩)
        rw [← hp2] at e3
        have hd : LC.eval s2.assign dummy.lc = s2.p * (k3 - k2) := by rw [mul_sub]; linarith
        refine ⟨LC.eval s2.assign g.lc * (k3 - k2), ?_⟩
        rw [hd]; ring
    obtain ⟨le3, f3, inv3⟩ := addConstraintUnsafe_spec inv2 gg2.1 gd2.1 (Good.zero s2).1 hsat2 h4
    exact ⟨(le1.trans le2).trans le3, (f1.trans f2).trans f3, inv3⟩

/-- `LinCombBool(x, constrain)` -/
theorem mkBool_spec {s s' : St} {x r : LinComb} {constrain : Bool} (hinv : Inv s) (hx : Good s x)
    (h : mkBool x constrain s = .ok (r, s')) :
    s.le s' ∧ Frame s s' ∧ Inv s' ∧ r = x ∧ (x.value = 0 ∨ x.value = 1) := by
  unfold mkBool at h
  split at h
  · cases h
  · rename_i hb
    have hbv : x.value = 0 ∨ x.value = 1 := by
      simp only [isBooleanValue, Bool.not_eq_true, Bool.not_eq_false', Bool.or_eq_true, beq_iff_eq] at hb
      simpa using hb
    split at h
    · obtain ⟨u, s1, h1, h2⟩ := bind_ok.mp h
      obtain ⟨hr, hs⟩ := pure_ok.mp h2
      subst hr; subst hs
      have hob : (true = false ∨ ∃ g, s.guard = some g ∧ g.value = 1) →
          s.p ∣ (r.value * (r.rsubI 1).value - LinComb.zero.value) := by
        intro _
        have : r.value * (r.rsubI 1).value - LinComb.zero.value = 0 := by
          simp only [LinComb.rsubI, LinComb.addI, LinComb.add, LinComb.neg, LinComb.const, LinComb.zero]
          rcases hbv with h0 | h1
          · rw [h0]; ring
          · rw [h1]; ring
        rw [this]; exact dvd_zero _
      obtain ⟨le1, f1, inv1⟩ := addConstraint_spec hinv hx (hx.rsubI 1) (Good.zero s) hob h1
      exact ⟨le1, f1, inv1, rfl, hbv⟩
    · simp only [Except.ok.injEq, Prod.mk.injEq] at h
      obtain ⟨rfl, rfl⟩ := h
      exact ⟨St.le.refl _, Frame.refl _, hinv, rfl, hbv⟩

/-- `PrivValBool(v)` -/
theorem privValBool_spec {s s' : St} {v : Int} {r : LinComb} (hinv : Inv s)
    (h : privValBool v s = .ok (r, s')) :
    s.le s' ∧ Frame s s' ∧ Inv s' ∧ Good s' r ∧ r.value = v ∧ (v = 0 ∨ v = 1) := by
  unfold privValBool at h
  split at h
  · cases h
  · obtain ⟨x, s1, h1, h2⟩ := bind_ok.mp h
    obtain ⟨le1, f1, inv1, g1, v1⟩ := privVal_spec hinv h1
    obtain ⟨le2, f2, inv2, rfl, hb⟩ := mkBool_spec inv1 g1 h2
    exact ⟨le1.trans le2, f1.trans f2, inv2, g1.mono le2, v1, v1 ▸ hb⟩

end Pysnark
