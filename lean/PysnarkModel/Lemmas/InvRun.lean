import PysnarkModel.Lemmas.InvVal
import PysnarkModel.Lemmas.InvNest
/-!
# Programs: every run keeps the tracer invariant and the coherence of all register values

First part (historical, kept because other files refer to it): `run_inv`, for `Fragment` programs
(guarded regions not nested, no `/` next to a region).  Second part: `run_inv_full` — every
program without `set ign`, any nesting depth of guarded regions, `/` anywhere; `run_inv_any` — the
same without assuming that the run completes (on an exception the `guarded` frames are unwound and
the reported state still satisfies the invariant).  `run_inv`/`run_inv_plain` are corollaries.
-/
/-- `decide +kernel` that fails fast: a FAILING `decide +kernel` on a model run builds its error
message by re-evaluating the instance with the elaborator, which can take very large memory;
`first` drops that lazy message. -/
macro "kdec" : tactic =>
  `(tactic| first
    | decide +kernel
    | fail "kdec: the kernel does not evaluate this closed proposition to `true`")

namespace Pysnark

/-! ## binary operators -/
theorem binopV_spec {s s' : St} {op : BinOp} {a b r : Val} (hinv : Inv s) (hP : PrimeP s)
    (hdiv : op = .truediv → s.ignoreErrors = false) (ha : GoodV s a) (hb : GoodV s b)
    (h : binopV op a b s = .ok (r, s')) : s.le s' ∧ Frame s s' ∧ Inv s' ∧ GoodV s' r := by
  cases op
  case truediv => exact truedivV_spec hinv hP (hdiv rfl) ha hb h
  case add => exact addV_spec hinv ha hb h
  case sub => exact subV_spec hinv ha hb h
  case mul => exact mulV_spec hinv ha hb h
  case floordiv => exact divmodV_spec hinv ha hb h
  case mod => exact divmodV_spec hinv ha hb h
  case divmod => exact divmodV_spec hinv ha hb h
  case pow => exact powV_spec hinv hP ha hb h
  case lshift => exact lshiftV_spec hinv hP ha hb h
  case rshift => exact rshiftV_spec hinv hP ha hb h
  case band => exact bwV_spec hinv ha hb h
  case bxor => exact bwV_spec hinv ha hb h
  case bor => exact bwV_spec hinv ha hb h
  case lt => exact cmpV_spec hinv hP ha hb h
  case le => exact cmpV_spec hinv hP ha hb h
  case eq => exact cmpV_spec hinv hP ha hb h
  case ne => exact cmpV_spec hinv hP ha hb h
  case gt => exact cmpV_spec hinv hP ha hb h
  case ge => exact cmpV_spec hinv hP ha hb h

/-! ## guards -/
/-- `add_guard(cond)` outside any guarded region -/
theorem addGuardCore_spec {s s' : St} {cond : Val} {bak : GuardBak} (hinv : Inv s) (hg : s.guard = none)
    (hc : GoodV s cond) (h : addGuardCore cond s = .ok (bak, s')) :
    s.le s' ∧ Inv s' ∧ bak = ⟨none, false, oneSafe⟩ := by
  have hi := hinv.ign_false_of_none hg
  have ho := hinv.oneNone hg
  unfold addGuardCore at h
  dsimp only at h
  split at h
  · rename_i c
    split at h
    · cases h
    · rename_i hcond
      simp only [hg] at h
      simp only [Except.ok.injEq, Prod.mk.injEq] at h
      obtain ⟨rfl, rfl⟩ := h
      have hle : s.le { s with guard := some c, ignoreErrors := s.ignoreErrors || c.value == 0, one := c } :=
        ⟨List.prefix_refl _, List.prefix_refl _, List.prefix_refl _, rfl⟩
      have hcv : c.value = 0 ∨ c.value = 1 := by
        simp only [hi, Bool.not_false, Bool.true_and, Bool.and_eq_true, bne_iff_ne, ne_eq, not_and,
          Decidable.not_not] at hcond
        by_cases h0 : c.value = 0
        · exact Or.inl h0
        · exact Or.inr (hcond h0)
      refine ⟨hle, ?_, by rw [hi, ho]⟩
      exact {
        sat := fun c' hc' => (hinv.sat c' hc').mono hle (hinv.consOk c' hc')
        consOk := fun c' hc' => by
          obtain ⟨a, b, d⟩ := hinv.consOk c' hc'
          exact ⟨a.mono hle, b.mono hle, d.mono hle⟩
        oneNone := fun hn => by cases hn
        oneSome := fun g hg' => by
          simp only [Option.some.injEq] at hg'
          exact hg'
        guardGood := fun g hg' => by
          simp only [Option.some.injEq] at hg'
          subst hg'
          exact ⟨(GoodV_lc.mp hc).mono hle, hcv⟩
        ign := by
          simp only [hi, Bool.false_or, beq_iff_eq, Option.some.injEq, exists_eq_left'] }
  · split at h
    · cases h
    · split at h
      · cases h
      · simp only [Except.ok.injEq, Prod.mk.injEq] at h
        obtain ⟨rfl, rfl⟩ := h
        exact ⟨St.le.refl _, hinv, by rw [hg, hi, ho]⟩
  · cases h

/-- `restore_guard` of the frame saved outside any guarded region -/

theorem GoodV_unwrapBoolCond {s : St} {v : Val} (h : GoodV s v) : GoodV s (unwrapBoolCond v) := by
  cases v <;> simpa [unwrapBoolCond, GoodV] using h

theorem addGuard_spec {s s' : St} {cond : Val} {bak : GuardBak} (hinv : Inv s) (hg : s.guard = none)
    (hc : GoodV s cond) (h : addGuard cond s = .ok (bak, s')) :
    s.le s' ∧ Inv s' ∧ bak = ⟨none, false, oneSafe⟩ :=
  addGuardCore_spec hinv hg (GoodV_unwrapBoolCond hc) h

theorem restoreGuard_spec {s s' : St} {u : Unit} (hinv : Inv s)
    (h : restoreGuard ⟨none, false, oneSafe⟩ s = .ok (u, s')) :
    s.le s' ∧ Inv s' ∧ s'.guard = none := by
  unfold restoreGuard at h
  simp only [Except.ok.injEq, Prod.mk.injEq] at h
  obtain ⟨-, rfl⟩ := h
  have hle : s.le { s with guard := none, ignoreErrors := false, one := oneSafe } :=
    ⟨List.prefix_refl _, List.prefix_refl _, List.prefix_refl _, rfl⟩
  refine ⟨hle, ?_, rfl⟩
  exact {
    sat := fun c' hc' => (hinv.sat c' hc').mono hle (hinv.consOk c' hc')
    consOk := fun c' hc' => by
      obtain ⟨a, b, d⟩ := hinv.consOk c' hc'
      exact ⟨a.mono hle, b.mono hle, d.mono hle⟩
    oneNone := fun _ => rfl
    oneSome := fun g hg' => by cases hg'
    guardGood := fun g hg' => by cases hg'
    ign := by simp }

/-! ## registers -/
theorem getReg_ok {rs : List Val} {i : Nat} {v : Val} {s s' : St} (h : getReg rs i s = .ok (v, s')) :
    s = s' ∧ v ∈ rs := by
  unfold getReg at h
  cases hv : rs[i]? with
  | none => simp only [hv] at h; exact (raise_ok.mp h).elim
  | some w =>
    simp only [hv] at h
    obtain ⟨rfl, rfl⟩ := pure_ok' h
    exact ⟨rfl, List.mem_of_getElem? hv⟩

theorem getRegs_ok {rs : List Val} : ∀ {is : List Nat} {vs : List Val} {s s' : St},
    getRegs rs is s = .ok (vs, s') → s = s' ∧ ∀ v ∈ vs, v ∈ rs
  | [], vs, s, s', h => by
    unfold getRegs at h
    obtain ⟨rfl, rfl⟩ := pure_ok' h
    exact ⟨rfl, by simp⟩
  | i :: is, vs, s, s', h => by
    unfold getRegs at h
    obtain ⟨v, s1, h1, h⟩ := bind_ok.mp h
    obtain ⟨ws, s2, h2, h⟩ := bind_ok.mp h
    obtain ⟨rfl, rfl⟩ := pure_ok' h
    obtain ⟨rfl, hv⟩ := getReg_ok h1
    obtain ⟨rfl, hws⟩ := getRegs_ok h2
    refine ⟨rfl, ?_⟩
    intro w hw
    rcases List.mem_cons.mp hw with rfl | hw
    · exact hv
    · exact hws w hw

/-! ## the run invariant -/
/-- whether we are inside a guarded region after executing `i` -/
def nextG (inG : Bool) : Instr → Bool
  | .genter _ => true
  | .gleave => false
  | _ => inG

structure RInv (inG : Bool) (st : St) (regs : List Val) (frames : List GuardBak) : Prop where
  inv : Inv st
  prime : PrimeP st
  regs : ∀ v ∈ regs, GoodV st v
  frames : frames = if inG then [⟨none, false, oneSafe⟩] else []
  guard : inG = false → st.guard = none

theorem guardsFlat_cons {i : Instr} {is : List Instr} {inG : Bool} (h : guardsFlat (i :: is) inG = true) :
    guardsFlat is (nextG inG i) = true ∧ (i.isGenter = true → inG = false) ∧ (i = .gleave → inG = true) := by
  cases i <;> simp_all [guardsFlat, nextG, Instr.isGenter]

theorem RInv.push {inG : Bool} {st st' : St} {regs : List Val} {frames : List GuardBak} {v : Val}
    (hR : RInv inG st regs frames) (h : st.le st' ∧ Frame st st' ∧ Inv st' ∧ GoodV st' v) :
    RInv inG st' (regs ++ [v]) frames := by
  obtain ⟨le1, f1, inv1, g1⟩ := h
  refine ⟨inv1, hR.prime.mono le1, ?_, hR.frames, fun hg => by rw [f1.guard]; exact hR.guard hg⟩
  intro w hw
  rcases List.mem_append.mp hw with hw | hw
  · exact (hR.regs w hw).mono le1
  · simp only [List.mem_singleton] at hw; subst hw; exact g1

/-- a change of the state that keeps wires, constraints and the guard triple -/
theorem RInv.push' {inG : Bool} {st st' : St} {regs : List Val} {frames : List GuardBak} {v : Val}
    (hR : RInv inG st regs frames) (hle : st.le st') (hinv : Inv st') (hg : st'.guard = st.guard)
    (hv : GoodV st' v) : RInv inG st' (regs ++ [v]) frames := by
  refine ⟨hinv, hR.prime.mono hle, ?_, hR.frames, fun h => by rw [hg]; exact hR.guard h⟩
  intro w hw
  rcases List.mem_append.mp hw with hw | hw
  · exact (hR.regs w hw).mono hle
  · simp only [List.mem_singleton] at hw; subst hw; exact hv

-- the final `pure (r, regs, frames)` of an arm of `step`
set_option hygiene false in
macro "step_fin" : tactic => `(tactic|
  (obtain ⟨e, rfl⟩ := pure_ok' h
   simp only [Prod.mk.injEq] at e
   obtain ⟨rfl, rfl, rfl⟩ := e))

theorem Inv.setBl {s : St} (h : Inv s) (n : Nat) : Inv { s with bitlength := n } :=
  ⟨h.sat, h.consOk, h.oneNone, h.oneSome, h.guardGood, h.ign⟩
theorem Inv.setRes {s : St} (h : Inv s) (n : Nat) : Inv { s with resolution := n } :=
  ⟨h.sat, h.consOk, h.oneNone, h.oneSome, h.guardGood, h.ign⟩

theorem step_spec {inG : Bool} {st st' : St} {regs regs' : List Val} {frames frames' : List GuardBak}
    {i : Instr} {v : Val} (hR : RInv inG st regs frames) (hset : i.isSetIgn = false)
    (hlit : ∀ w, i = .lit w → ∀ s, GoodV s w)
    (hdiv : i.isTruediv = true → inG = false)
    (hgen : i.isGenter = true → inG = false) (hleave : i = .gleave → inG = true)
    (h : step regs frames i st = .ok ((v, regs', frames'), st')) :
    RInv (nextG inG i) st' (regs' ++ [v]) frames' := by
  have hinv := hR.inv
  have hP := hR.prime
  have hregs := hR.regs
  cases i
  case lit w =>
    unfold step at h; simp only at h
    step_fin
    exact hR.push (ret_spec hinv (hlit _ rfl _))
  case mk k a =>
    unfold step at h; simp only at h
    obtain ⟨x, s1, h1, h⟩ := bind_ok.mp h
    obtain ⟨rfl, hx⟩ := getReg_ok h1
    obtain ⟨r, s2, h2, h⟩ := bind_ok.mp h
    step_fin
    exact hR.push (mkVal_spec hinv h2)
  case wrapb a =>
    unfold step at h; simp only at h
    obtain ⟨x, s1, h1, h⟩ := bind_ok.mp h
    obtain ⟨rfl, hx⟩ := getReg_ok h1
    obtain ⟨r, s2, h2, h⟩ := bind_ok.mp h
    step_fin
    exact hR.push (wrapBool_spec hinv (hregs x hx) h2)
  case wrapx a =>
    unfold step at h; simp only at h
    obtain ⟨x, s1, h1, h⟩ := bind_ok.mp h
    obtain ⟨rfl, hx⟩ := getReg_ok h1
    obtain ⟨r, s2, h2, h⟩ := bind_ok.mp h
    step_fin
    exact hR.push (wrapFxp_spec hinv (hregs x hx) h2)
  case bin op a b =>
    unfold step at h; simp only at h
    obtain ⟨x, s1, h1, h⟩ := bind_ok.mp h
    obtain ⟨rfl, hx⟩ := getReg_ok h1
    obtain ⟨y, s1, h1', h⟩ := bind_ok.mp h
    obtain ⟨rfl, hy⟩ := getReg_ok h1'
    obtain ⟨r, s2, h2, h⟩ := bind_ok.mp h
    step_fin
    refine hR.push (binopV_spec hinv hP ?_ (hregs x hx) (hregs y hy) h2)
    intro hop
    subst hop
    exact hinv.ign_false_of_none (hR.guard (hdiv rfl))
  case un op a =>
    unfold step at h; simp only at h
    obtain ⟨x, s1, h1, h⟩ := bind_ok.mp h
    obtain ⟨rfl, hx⟩ := getReg_ok h1
    obtain ⟨r, s2, h2, h⟩ := bind_ok.mp h
    step_fin
    exact hR.push (unV_spec hinv (hregs x hx) h2)
  case call m self args =>
    unfold step at h; simp only at h
    obtain ⟨x, s1, h1, h⟩ := bind_ok.mp h
    obtain ⟨rfl, hx⟩ := getReg_ok h1
    obtain ⟨as, s1, h1', h⟩ := bind_ok.mp h
    obtain ⟨rfl, has⟩ := getRegs_ok h1'
    obtain ⟨r, s2, h2, h⟩ := bind_ok.mp h
    step_fin
    exact hR.push (callMeth_spec hinv hP (hregs x hx) (fun w hw => hregs w (has w hw)) h2)
  case ite c t f =>
    unfold step at h; simp only at h
    obtain ⟨cv, s1, h1, h⟩ := bind_ok.mp h
    obtain ⟨rfl, hc⟩ := getReg_ok h1
    obtain ⟨tv, s1, h1', h⟩ := bind_ok.mp h
    obtain ⟨rfl, ht⟩ := getReg_ok h1'
    obtain ⟨fv, s1, h1'', h⟩ := bind_ok.mp h
    obtain ⟨rfl, hf⟩ := getReg_ok h1''
    obtain ⟨r, s2, h2, h⟩ := bind_ok.mp h
    step_fin
    exact hR.push (ifThenElse_spec hinv (hregs _ hc) (hregs _ ht) (hregs _ hf) h2)
  case list xs =>
    unfold step at h; simp only at h
    obtain ⟨vs, s1, h1, h⟩ := bind_ok.mp h
    obtain ⟨rfl, hvs⟩ := getRegs_ok h1
    step_fin
    exact hR.push (ret_spec hinv (GoodV_list.mpr (fun w hw => hregs w (hvs w hw))))
  case arr xs =>
    unfold step at h; simp only at h
    obtain ⟨vs, s1, h1, h⟩ := bind_ok.mp h
    obtain ⟨rfl, hvs⟩ := getRegs_ok h1
    step_fin
    exact hR.push (ret_spec hinv (GoodV_list.mpr (fun w hw => hregs w (hvs w hw))))
  case idx a k =>
    unfold step at h; simp only at h
    obtain ⟨x, s1, h1, h⟩ := bind_ok.mp h
    obtain ⟨rfl, hx⟩ := getReg_ok h1
    have hxg := hregs x hx
    have key : ∀ xs : List Val, (∀ w ∈ xs, GoodV st w) →
        (match pyIndex xs.length k with
          | some j => match xs[j]? with
            | some y => pure (y, regs, frames)
            | Option.none => raise .index
          | Option.none => raise .index : M (Val × List Val × List GuardBak)) st
          = .ok ((v, regs', frames'), st') → RInv inG st' (regs' ++ [v]) frames' := by
      intro xs hxs h
      cases hk : pyIndex xs.length k with
      | none => simp only [hk] at h; exact (raise_ok.mp h).elim
      | some j =>
        simp only [hk] at h
        cases hv : xs[j]? with
        | none => simp only [hv] at h; exact (raise_ok.mp h).elim
        | some y =>
          simp only [hv] at h
          step_fin
          exact hR.push (ret_spec hinv (hxs _ (List.mem_of_getElem? hv)))
    cases x
    case list xs => exact key xs (GoodV_list.mp hxg) h
    case tuple xs => exact key xs (GoodV_tuple.mp hxg) h
    all_goals exact (raise_ok.mp h).elim
  case genter c =>
    unfold step at h; simp only at h
    obtain ⟨cv, s1, h1, h⟩ := bind_ok.mp h
    obtain ⟨rfl, hc⟩ := getReg_ok h1
    obtain ⟨bak, s2, h2, h⟩ := bind_ok.mp h
    step_fin
    have hG : inG = false := hgen rfl
    subst hG
    obtain ⟨le1, inv1, rfl⟩ := addGuard_spec hinv (hR.guard rfl) (hregs _ hc) h2
    refine ⟨inv1, hP.mono le1, ?_, by rw [hR.frames]; rfl, fun hh => by cases hh⟩
    intro w hw
    rcases List.mem_append.mp hw with hw | hw
    · exact (hregs w hw).mono le1
    · simp only [List.mem_singleton] at hw; subst hw; exact GoodV_none
  case gleave =>
    have hG : inG = true := hleave rfl
    subst hG
    have hfr := hR.frames
    simp only [if_true] at hfr
    subst hfr
    unfold step at h; simp only at h
    obtain ⟨u, s2, h2, h⟩ := bind_ok.mp h
    step_fin
    obtain ⟨le1, inv1, hg1⟩ := restoreGuard_spec hinv h2
    refine ⟨inv1, hP.mono le1, ?_, rfl, fun _ => hg1⟩
    intro w hw
    rcases List.mem_append.mp hw with hw | hw
    · exact (hregs w hw).mono le1
    · simp only [List.mem_singleton] at hw; subst hw; exact GoodV_none
  case setBl n =>
    unfold step at h; simp only at h
    obtain ⟨u, s2, h2, h⟩ := bind_ok.mp h
    step_fin
    unfold modifySt at h2
    simp only [Except.ok.injEq, Prod.mk.injEq] at h2
    obtain ⟨-, rfl⟩ := h2
    exact hR.push' ⟨List.prefix_refl _, List.prefix_refl _, List.prefix_refl _, rfl⟩ (hinv.setBl n) rfl
      GoodV_none
  case setRes n =>
    unfold step at h; simp only at h
    obtain ⟨u, s2, h2, h⟩ := bind_ok.mp h
    step_fin
    unfold modifySt at h2
    simp only [Except.ok.injEq, Prod.mk.injEq] at h2
    obtain ⟨-, rfl⟩ := h2
    exact hR.push' ⟨List.prefix_refl _, List.prefix_refl _, List.prefix_refl _, rfl⟩ (hinv.setRes n) rfl
      GoodV_none
  case setIgn b => simp [Instr.isSetIgn] at hset
  case aget a k =>
    unfold step at h; simp only at h
    obtain ⟨av, s1, h1, h⟩ := bind_ok.mp h
    obtain ⟨rfl, ha⟩ := getReg_ok h1
    obtain ⟨iv, s1, h1', h⟩ := bind_ok.mp h
    obtain ⟨rfl, hk⟩ := getReg_ok h1'
    have hag := hregs _ ha
    cases av
    case list xs =>
      simp only at h
      obtain ⟨r, s2, h2, h⟩ := bind_ok.mp h
      step_fin
      exact hR.push (arrayGet_spec hinv hP (GoodV_list.mp hag) (hregs _ hk) h2)
    all_goals exact (raise_ok.mp h).elim
  case aset a k w =>
    unfold step at h; simp only at h
    obtain ⟨av, s1, h1, h⟩ := bind_ok.mp h
    obtain ⟨rfl, ha⟩ := getReg_ok h1
    obtain ⟨iv, s1, h1', h⟩ := bind_ok.mp h
    obtain ⟨rfl, hk⟩ := getReg_ok h1'
    obtain ⟨vv, s1, h1'', h⟩ := bind_ok.mp h
    obtain ⟨rfl, hw⟩ := getReg_ok h1''
    have hag := hregs _ ha
    cases av
    case list xs =>
      simp only at h
      obtain ⟨xs', s2, h2, h⟩ := bind_ok.mp h
      step_fin
      obtain ⟨le1, f1, inv1, g1⟩ := arraySet_spec hinv hP (GoodV_list.mp hag) (hregs _ hk) (hregs _ hw) h2
      refine ⟨inv1, hP.mono le1, ?_, hR.frames, fun hg => by rw [f1.guard]; exact hR.guard hg⟩
      intro z hz
      rcases List.mem_append.mp hz with hz | hz
      · rcases List.mem_or_eq_of_mem_set hz with hz | rfl
        · exact (hregs z hz).mono le1
        · exact GoodV_list.mpr g1
      · simp only [List.mem_singleton] at hz; subst hz; exact GoodV_none
    all_goals exact (raise_ok.mp h).elim


/-! # Second part: any nesting depth, `/` anywhere -/

theorem Inv.init (p : Int) (bl res : Nat) : Inv (St.init p bl res) where
  sat := fun c hc => by simp [St.init] at hc
  consOk := fun c hc => by simp [St.init] at hc
  oneNone := fun _ => rfl
  oneSome := fun g hg => by simp [St.init] at hg
  guardGood := fun g hg => by simp [St.init] at hg
  ign := by simp [St.init]


/-- binary operators in every mode -/
theorem binopV_inv {s s' : St} {op : BinOp} {a b r : Val} (hinv : Inv s) (hP : PrimeP s)
    (ha : GoodV s a) (hb : GoodV s b)
    (h : binopV op a b s = .ok (r, s')) : s.le s' ∧ Frame s s' ∧ Inv s' ∧ GoodV s' r := by
  cases op
  case truediv => exact truedivV_inv hinv hP ha hb h
  all_goals exact binopV_spec hinv hP (fun hop => by cases hop) ha hb h

/-- the run invariant at any guard depth: the tracer invariant, every register coherent, and every
saved `guarded` frame satisfying the guard part of the invariant (so that leaving the region, or
unwinding it on an exception, re-establishes the invariant) -/
structure RInvN (st : St) (regs : List Val) (frames : List GuardBak) : Prop where
  inv : Inv st
  prime : PrimeP st
  regs : ∀ v ∈ regs, GoodV st v
  frames : ∀ b ∈ frames, BakOk st b

theorem RInvN.push {st st' : St} {regs : List Val} {frames : List GuardBak} {v : Val}
    (hR : RInvN st regs frames) (h : st.le st' ∧ Frame st st' ∧ Inv st' ∧ GoodV st' v) :
    RInvN st' (regs ++ [v]) frames := by
  obtain ⟨le1, f1, inv1, g1⟩ := h
  refine ⟨inv1, hR.prime.mono le1, ?_, fun b hb => (hR.frames b hb).mono le1⟩
  intro w hw
  rcases List.mem_append.mp hw with hw | hw
  · exact (hR.regs w hw).mono le1
  · simp only [List.mem_singleton] at hw; subst hw; exact g1

theorem RInvN.push' {st st' : St} {regs : List Val} {frames : List GuardBak} {v : Val}
    (hR : RInvN st regs frames) (hle : st.le st') (hinv : Inv st')
    (hv : GoodV st' v) : RInvN st' (regs ++ [v]) frames := by
  refine ⟨hinv, hR.prime.mono hle, ?_, fun b hb => (hR.frames b hb).mono hle⟩
  intro w hw
  rcases List.mem_append.mp hw with hw | hw
  · exact (hR.regs w hw).mono hle
  · simp only [List.mem_singleton] at hw; subst hw; exact hv

/-- one instruction, at any guard depth -/
theorem step_inv {st st' : St} {regs regs' : List Val} {frames frames' : List GuardBak}
    {i : Instr} {v : Val} (hR : RInvN st regs frames) (hset : i.isSetIgn = false)
    (hlit : ∀ w, i = .lit w → ∀ s, GoodV s w)
    (h : step regs frames i st = .ok ((v, regs', frames'), st')) :
    RInvN st' (regs' ++ [v]) frames' := by
  have hinv := hR.inv
  have hP := hR.prime
  have hregs := hR.regs
  cases i
  case lit w =>
    unfold step at h; simp only at h
    step_fin
    exact hR.push (ret_spec hinv (hlit _ rfl _))
  case mk k a =>
    unfold step at h; simp only at h
    obtain ⟨x, s1, h1, h⟩ := bind_ok.mp h
    obtain ⟨rfl, hx⟩ := getReg_ok h1
    obtain ⟨r, s2, h2, h⟩ := bind_ok.mp h
    step_fin
    exact hR.push (mkVal_spec hinv h2)
  case wrapb a =>
    unfold step at h; simp only at h
    obtain ⟨x, s1, h1, h⟩ := bind_ok.mp h
    obtain ⟨rfl, hx⟩ := getReg_ok h1
    obtain ⟨r, s2, h2, h⟩ := bind_ok.mp h
    step_fin
    exact hR.push (wrapBool_spec hinv (hregs x hx) h2)
  case wrapx a =>
    unfold step at h; simp only at h
    obtain ⟨x, s1, h1, h⟩ := bind_ok.mp h
    obtain ⟨rfl, hx⟩ := getReg_ok h1
    obtain ⟨r, s2, h2, h⟩ := bind_ok.mp h
    step_fin
    exact hR.push (wrapFxp_spec hinv (hregs x hx) h2)
  case bin op a b =>
    unfold step at h; simp only at h
    obtain ⟨x, s1, h1, h⟩ := bind_ok.mp h
    obtain ⟨rfl, hx⟩ := getReg_ok h1
    obtain ⟨y, s1, h1', h⟩ := bind_ok.mp h
    obtain ⟨rfl, hy⟩ := getReg_ok h1'
    obtain ⟨r, s2, h2, h⟩ := bind_ok.mp h
    step_fin
    exact hR.push (binopV_inv hinv hP (hregs x hx) (hregs y hy) h2)
  case un op a =>
    unfold step at h; simp only at h
    obtain ⟨x, s1, h1, h⟩ := bind_ok.mp h
    obtain ⟨rfl, hx⟩ := getReg_ok h1
    obtain ⟨r, s2, h2, h⟩ := bind_ok.mp h
    step_fin
    exact hR.push (unV_spec hinv (hregs x hx) h2)
  case call m self args =>
    unfold step at h; simp only at h
    obtain ⟨x, s1, h1, h⟩ := bind_ok.mp h
    obtain ⟨rfl, hx⟩ := getReg_ok h1
    obtain ⟨as, s1, h1', h⟩ := bind_ok.mp h
    obtain ⟨rfl, has⟩ := getRegs_ok h1'
    obtain ⟨r, s2, h2, h⟩ := bind_ok.mp h
    step_fin
    exact hR.push (callMeth_spec hinv hP (hregs x hx) (fun w hw => hregs w (has w hw)) h2)
  case ite c t f =>
    unfold step at h; simp only at h
    obtain ⟨cv, s1, h1, h⟩ := bind_ok.mp h
    obtain ⟨rfl, hc⟩ := getReg_ok h1
    obtain ⟨tv, s1, h1', h⟩ := bind_ok.mp h
    obtain ⟨rfl, ht⟩ := getReg_ok h1'
    obtain ⟨fv, s1, h1'', h⟩ := bind_ok.mp h
    obtain ⟨rfl, hf⟩ := getReg_ok h1''
    obtain ⟨r, s2, h2, h⟩ := bind_ok.mp h
    step_fin
    exact hR.push (ifThenElse_spec hinv (hregs _ hc) (hregs _ ht) (hregs _ hf) h2)
  case list xs =>
    unfold step at h; simp only at h
    obtain ⟨vs, s1, h1, h⟩ := bind_ok.mp h
    obtain ⟨rfl, hvs⟩ := getRegs_ok h1
    step_fin
    exact hR.push (ret_spec hinv (GoodV_list.mpr (fun w hw => hregs w (hvs w hw))))
  case arr xs =>
    unfold step at h; simp only at h
    obtain ⟨vs, s1, h1, h⟩ := bind_ok.mp h
    obtain ⟨rfl, hvs⟩ := getRegs_ok h1
    step_fin
    exact hR.push (ret_spec hinv (GoodV_list.mpr (fun w hw => hregs w (hvs w hw))))
  case idx a k =>
    unfold step at h; simp only at h
    obtain ⟨x, s1, h1, h⟩ := bind_ok.mp h
    obtain ⟨rfl, hx⟩ := getReg_ok h1
    have hxg := hregs x hx
    have key : ∀ xs : List Val, (∀ w ∈ xs, GoodV st w) →
        (match pyIndex xs.length k with
          | some j => match xs[j]? with
            | some y => pure (y, regs, frames)
            | Option.none => raise .index
          | Option.none => raise .index : M (Val × List Val × List GuardBak)) st
          = .ok ((v, regs', frames'), st') → RInvN st' (regs' ++ [v]) frames' := by
      intro xs hxs h
      cases hk : pyIndex xs.length k with
      | none => simp only [hk] at h; exact (raise_ok.mp h).elim
      | some j =>
        simp only [hk] at h
        cases hv : xs[j]? with
        | none => simp only [hv] at h; exact (raise_ok.mp h).elim
        | some y =>
          simp only [hv] at h
          step_fin
          exact hR.push (ret_spec hinv (hxs _ (List.mem_of_getElem? hv)))
    cases x
    case list xs => exact key xs (GoodV_list.mp hxg) h
    case tuple xs => exact key xs (GoodV_tuple.mp hxg) h
    all_goals exact (raise_ok.mp h).elim
  case genter c =>
    unfold step at h; simp only at h
    obtain ⟨cv, s1, h1, h⟩ := bind_ok.mp h
    obtain ⟨rfl, hc⟩ := getReg_ok h1
    obtain ⟨bak, s2, h2, h⟩ := bind_ok.mp h
    step_fin
    obtain ⟨le1, inv1, hb1⟩ := addGuard_inv hinv (hregs _ hc) h2
    refine ⟨inv1, hP.mono le1, ?_, ?_⟩
    · intro w hw
      rcases List.mem_append.mp hw with hw | hw
      · exact (hregs w hw).mono le1
      · simp only [List.mem_singleton] at hw; subst hw; exact GoodV_none
    · intro b hb
      rcases List.mem_cons.mp hb with rfl | hb
      · exact hb1
      · exact (hR.frames b hb).mono le1
  case gleave =>
    unfold step at h; simp only at h
    cases frames with
    | nil => exact (raise_ok.mp h).elim
    | cons bak rest =>
      simp only at h
      obtain ⟨u, s2, h2, h⟩ := bind_ok.mp h
      step_fin
      obtain ⟨le1, inv1⟩ := restoreGuard_inv hinv (hR.frames _ (List.mem_cons_self ..)) h2
      refine ⟨inv1, hP.mono le1, ?_, ?_⟩
      · intro w hw
        rcases List.mem_append.mp hw with hw | hw
        · exact (hregs w hw).mono le1
        · simp only [List.mem_singleton] at hw; subst hw; exact GoodV_none
      · intro b hb
        exact (hR.frames b (List.mem_cons_of_mem _ hb)).mono le1
  case setBl n =>
    unfold step at h; simp only at h
    obtain ⟨u, s2, h2, h⟩ := bind_ok.mp h
    step_fin
    unfold modifySt at h2
    simp only [Except.ok.injEq, Prod.mk.injEq] at h2
    obtain ⟨-, rfl⟩ := h2
    exact hR.push' ⟨List.prefix_refl _, List.prefix_refl _, List.prefix_refl _, rfl⟩ (hinv.setBl n)
      GoodV_none
  case setRes n =>
    unfold step at h; simp only at h
    obtain ⟨u, s2, h2, h⟩ := bind_ok.mp h
    step_fin
    unfold modifySt at h2
    simp only [Except.ok.injEq, Prod.mk.injEq] at h2
    obtain ⟨-, rfl⟩ := h2
    exact hR.push' ⟨List.prefix_refl _, List.prefix_refl _, List.prefix_refl _, rfl⟩ (hinv.setRes n)
      GoodV_none
  case setIgn b => simp [Instr.isSetIgn] at hset
  case aget a k =>
    unfold step at h; simp only at h
    obtain ⟨av, s1, h1, h⟩ := bind_ok.mp h
    obtain ⟨rfl, ha⟩ := getReg_ok h1
    obtain ⟨iv, s1, h1', h⟩ := bind_ok.mp h
    obtain ⟨rfl, hk⟩ := getReg_ok h1'
    have hag := hregs _ ha
    cases av
    case list xs =>
      simp only at h
      obtain ⟨r, s2, h2, h⟩ := bind_ok.mp h
      step_fin
      exact hR.push (arrayGet_spec hinv hP (GoodV_list.mp hag) (hregs _ hk) h2)
    all_goals exact (raise_ok.mp h).elim
  case aset a k w =>
    unfold step at h; simp only at h
    obtain ⟨av, s1, h1, h⟩ := bind_ok.mp h
    obtain ⟨rfl, ha⟩ := getReg_ok h1
    obtain ⟨iv, s1, h1', h⟩ := bind_ok.mp h
    obtain ⟨rfl, hk⟩ := getReg_ok h1'
    obtain ⟨vv, s1, h1'', h⟩ := bind_ok.mp h
    obtain ⟨rfl, hw⟩ := getReg_ok h1''
    have hag := hregs _ ha
    cases av
    case list xs =>
      simp only at h
      obtain ⟨xs', s2, h2, h⟩ := bind_ok.mp h
      step_fin
      obtain ⟨le1, f1, inv1, g1⟩ := arraySet_spec hinv hP (GoodV_list.mp hag) (hregs _ hk) (hregs _ hw) h2
      refine ⟨inv1, hP.mono le1, ?_, fun b hb => (hR.frames b hb).mono le1⟩
      intro z hz
      rcases List.mem_append.mp hz with hz | hz
      · rcases List.mem_or_eq_of_mem_set hz with hz | rfl
        · exact (hregs z hz).mono le1
        · exact GoodV_list.mpr g1
      · simp only [List.mem_singleton] at hz; subst hz; exact GoodV_none
    all_goals exact (raise_ok.mp h).elim



/-- the whole run, completed or not: on an exception the frames are unwound -/
theorem runAux_inv_any : ∀ (is : List Instr) (k : Nat) (regs : List Val) (frames : List GuardBak) (st : St),
    RInvN st regs frames →
    (∀ i ∈ is, i.isSetIgn = false) →
    (∀ w, Instr.lit w ∈ is → ∀ s, GoodV s w) →
    Inv (runAux is k regs frames st).st ∧ ∀ v ∈ (runAux is k regs frames st).regs, GoodV (runAux is k regs frames st).st v
  | [], k, regs, frames, st, hR, _, _ => by
    unfold runAux
    exact ⟨hR.inv, hR.regs⟩
  | i :: is, k, regs, frames, st, hR, hset, hlit => by
    unfold runAux
    cases hstep : step regs frames i st with
    | error e =>
      simp only
      obtain ⟨le1, inv1⟩ := unwind_inv frames st hR.inv hR.frames
      exact ⟨inv1, fun v hv => (hR.regs v hv).mono le1⟩
    | ok r =>
      obtain ⟨⟨v, regs', frames'⟩, st'⟩ := r
      simp only
      have hmem : i ∈ i :: is := List.mem_cons_self ..
      have hR' := step_inv hR (hset i hmem) (fun w hw => hlit w (hw ▸ hmem)) hstep
      exact runAux_inv_any is (k+1) _ _ _ hR'
        (fun j hj => hset j (List.mem_cons_of_mem _ hj))
        (fun w hw => hlit w (List.mem_cons_of_mem _ hw))

/-- **Main theorem, full strength, no assumption that the run completes.**  Every program without
`set ign`: guarded regions nested to any depth with any guard values, `/` anywhere.  When the run
raises, the reported state is the state before the failing instruction with the `guarded` frames
unwound, and it satisfies the invariant too. -/
theorem run_inv_any (p : Nat) (hp : p.Prime) (bl res : Nat) (prog : List Instr) (hset : NoSetIgn prog)
    (hlit : ∀ w, Instr.lit w ∈ prog → ∀ s, GoodV s w) :
    Inv (run (St.init p bl res) prog).st ∧
      ∀ v ∈ (run (St.init p bl res) prog).regs, GoodV (run (St.init p bl res) prog).st v := by
  unfold run
  refine runAux_inv_any prog 0 [] [] _ ?_ hset hlit
  exact ⟨Inv.init _ _ _, ⟨p, hp, rfl⟩, by simp, by simp⟩

/-- **Main theorem, full strength** (in the shape of `run_inv`) -/
theorem run_inv_full (p : Nat) (hp : p.Prime) (bl res : Nat) (prog : List Instr) (hset : NoSetIgn prog)
    (hlit : ∀ w, Instr.lit w ∈ prog → ∀ s, GoodV s w)
    (out : Out) (hout : run (St.init p bl res) prog = out) (_herr : out.err = none) :
    Inv out.st ∧ ∀ v ∈ out.regs, GoodV out.st v := by
  subst hout
  exact run_inv_any p hp bl res prog hset hlit

theorem nextG_true {inG : Bool} {i : Instr} (h : nextG inG i = true) : inG = true ∨ i.isGenter = true := by
  cases i <;> simp_all [nextG, Instr.isGenter]

theorem runAux_inv : ∀ (is : List Instr) (k : Nat) (regs : List Val) (frames : List GuardBak) (st : St)
    (inG : Bool), RInv inG st regs frames →
    (∀ i ∈ is, i.isSetIgn = false) →
    (∀ w, Instr.lit w ∈ is → ∀ s, GoodV s w) →
    guardsFlat is inG = true →
    ((inG = true ∨ ∃ i ∈ is, i.isGenter = true) → ∀ i ∈ is, i.isTruediv = false) →
    ∀ out, runAux is k regs frames st = out → out.err = none →
    Inv out.st ∧ ∀ v ∈ out.regs, GoodV out.st v
  | [], k, regs, frames, st, inG, hR, _, _, _, _, out, hout, _ => by
    unfold runAux at hout
    subst hout
    exact ⟨hR.inv, hR.regs⟩
  | i :: is, k, regs, frames, st, inG, hR, hset, hlit, hflat, hdiv, out, hout, herr => by
    unfold runAux at hout
    cases hstep : step regs frames i st with
    | error e =>
      rw [hstep] at hout
      subst hout
      simp at herr
    | ok r =>
      obtain ⟨⟨v, regs', frames'⟩, st'⟩ := r
      rw [hstep] at hout
      simp only at hout
      obtain ⟨hflat', hgen, hleave⟩ := guardsFlat_cons hflat
      have hmem : i ∈ i :: is := List.mem_cons_self ..
      have hdivI : i.isTruediv = true → inG = false := by
        intro ht
        cases hG : inG with
        | false => rfl
        | true =>
          have := hdiv (Or.inl hG) i hmem
          rw [ht] at this; cases this
      have hR' := step_spec hR (hset i hmem) (fun w hw => hlit w (hw ▸ hmem)) hdivI hgen hleave hstep
      refine runAux_inv is (k+1) _ _ _ (nextG inG i) hR'
        (fun j hj => hset j (List.mem_cons_of_mem _ hj))
        (fun w hw => hlit w (List.mem_cons_of_mem _ hw)) hflat' ?_ out hout herr
      intro hh j hj
      apply hdiv ?_ j (List.mem_cons_of_mem _ hj)
      rcases hh with hh | ⟨j', hj', hg'⟩
      · rcases nextG_true hh with h1 | h1
        · exact Or.inl h1
        · exact Or.inr ⟨i, hmem, h1⟩
      · exact Or.inr ⟨j', List.mem_cons_of_mem _ hj', hg'⟩

/-- The first form of the main theorem (for `Fragment`), now a corollary of `run_inv_full`.
`hlit` (literals contain no incoherent secret) is needed: see `run_inv_needs_hlit`. -/
theorem run_inv (p : Nat) (hp : p.Prime) (bl res : Nat) (prog : List Instr) (hfrag : Fragment prog)
    (hlit : ∀ w, Instr.lit w ∈ prog → ∀ s, GoodV s w)
    (out : Out) (hout : run (St.init p bl res) prog = out) (herr : out.err = none) :
    Inv out.st ∧ ∀ v ∈ out.regs, GoodV out.st v :=
  run_inv_full p hp bl res prog hfrag.1 hlit out hout herr

/-- Without the hypothesis on literals the statement is false: the one-instruction program
`lit (LinComb(1, {}))` puts an incoherent value (value 1, empty wire expression) in a register. -/
theorem run_inv_needs_hlit :
    ¬ (∀ (p : Nat) (_ : p.Prime) (bl res : Nat) (prog : List Instr) (_ : Fragment prog)
      (out : Out) (_ : run (St.init p bl res) prog = out) (_ : out.err = none),
      Inv out.st ∧ ∀ v ∈ out.regs, GoodV out.st v) := by
  intro hall
  have hfrag : Fragment [Instr.lit (.lc ⟨1, []⟩)] := by
    refine ⟨by simp [Instr.isSetIgn], by simp [guardsFlat], by simp [Instr.isGenter]⟩
  obtain ⟨-, hregs⟩ := hall 3 (by norm_num) 16 8 _ hfrag _ rfl rfl
  have hg := hregs (.lc ⟨1, []⟩) (by simp [run, runAux, step, pure, M.pure])
  rw [GoodV_lc] at hg
  have hc := hg.2
  simp [Coh, LC.eval, run, runAux, step, pure, M.pure, St.init] at hc


/-! ## a syntactic sufficient condition for `hlit` -/
/-- the value contains no `LinComb` (a plain Python literal) -/
def Val.noSecret : Val → Bool
  | .lc _ | .lcb _ | .fxp _ => false
  | .list xs | .tuple xs => xs.attach.all fun ⟨x, _⟩ => x.noSecret
  | _ => true

theorem GoodV_of_noSecret {s : St} : ∀ (v : Val), v.noSecret = true → GoodV s v
  | .none, _ => GoodV_none
  | .int _, _ => GoodV_int
  | .flt _ _, _ => GoodV_flt
  | .lc x, h => by simp [Val.noSecret] at h
  | .lcb x, h => by simp [Val.noSecret] at h
  | .fxp x, h => by simp [Val.noSecret] at h
  | .list xs, h => by
    rw [Val.noSecret] at h
    simp only [List.all_eq_true, List.mem_attach, forall_const, Subtype.forall] at h
    exact GoodV_list.mpr (fun v hm => GoodV_of_noSecret v (h v hm))
  | .tuple xs, h => by
    rw [Val.noSecret] at h
    simp only [List.all_eq_true, List.mem_attach, forall_const, Subtype.forall] at h
    exact GoodV_tuple.mpr (fun v hm => GoodV_of_noSecret v (h v hm))

/-- `run_inv` for programs whose literals are plain Python values -/
theorem run_inv_plain (p : Nat) (hp : p.Prime) (bl res : Nat) (prog : List Instr) (hfrag : Fragment prog)
    (hlit : ∀ w, Instr.lit w ∈ prog → w.noSecret = true)
    (out : Out) (hout : run (St.init p bl res) prog = out) (herr : out.err = none) :
    Inv out.st ∧ ∀ v ∈ out.regs, GoodV out.st v :=
  run_inv p hp bl res prog hfrag (fun w hw _ => GoodV_of_noSecret w (hlit w hw)) out hout herr

/-- `run_inv_full` for programs whose literals are plain Python values -/
theorem run_inv_plain_full (p : Nat) (hp : p.Prime) (bl res : Nat) (prog : List Instr) (hset : NoSetIgn prog)
    (hlit : ∀ w, Instr.lit w ∈ prog → w.noSecret = true)
    (out : Out) (hout : run (St.init p bl res) prog = out) (herr : out.err = none) :
    Inv out.st ∧ ∀ v ∈ out.regs, GoodV out.st v :=
  run_inv_full p hp bl res prog hset (fun w hw _ => GoodV_of_noSecret w (hlit w hw)) out hout herr

/-- the same without assuming that the run completes -/
theorem run_inv_plain_any (p : Nat) (hp : p.Prime) (bl res : Nat) (prog : List Instr) (hset : NoSetIgn prog)
    (hlit : ∀ w, Instr.lit w ∈ prog → w.noSecret = true) :
    Inv (run (St.init p bl res) prog).st ∧
      ∀ v ∈ (run (St.init p bl res) prog).regs, GoodV (run (St.init p bl res) prog).st v :=
  run_inv_any p hp bl res prog hset (fun w hw _ => GoodV_of_noSecret w (hlit w hw))

end Pysnark
