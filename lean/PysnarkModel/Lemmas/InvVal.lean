import PysnarkModel.Lemmas.InvGadgets
/-!
# Operator dispatch on dynamically typed values (`Model/Val.lean`, `Model/Methods.lean`)
preserves the tracer invariant and coherence
-/
namespace Pysnark

/-! ## `GoodV` -/
@[simp] theorem GoodV_lc {s : St} {x : LinComb} : GoodV s (.lc x) ↔ Good s x := by rw [GoodV]
@[simp] theorem GoodV_lcb {s : St} {x : LinComb} : GoodV s (.lcb x) ↔ Good s x := by rw [GoodV]
@[simp] theorem GoodV_fxp {s : St} {x : LinComb} : GoodV s (.fxp x) ↔ Good s x := by rw [GoodV]
@[simp] theorem GoodV_list {s : St} {xs : List Val} : GoodV s (.list xs) ↔ ∀ v ∈ xs, GoodV s v := by rw [GoodV]
@[simp] theorem GoodV_tuple {s : St} {xs : List Val} : GoodV s (.tuple xs) ↔ ∀ v ∈ xs, GoodV s v := by rw [GoodV]
@[simp] theorem GoodV_int {s : St} {c : Int} : GoodV s (.int c) := by simp [GoodV]
@[simp] theorem GoodV_flt {s : St} {m : Int} {e : Nat} : GoodV s (.flt m e) := by simp [GoodV]
@[simp] theorem GoodV_none {s : St} : GoodV s .none := by simp [GoodV]

theorem GoodV.mono {s s' : St} (h : s.le s') : ∀ (v : Val), GoodV s v → GoodV s' v
  | .none, _ => GoodV_none
  | .int _, _ => GoodV_int
  | .flt _ _, _ => GoodV_flt
  | .lc x, hv => GoodV_lc.mpr ((GoodV_lc.mp hv).mono h)
  | .lcb x, hv => GoodV_lcb.mpr ((GoodV_lcb.mp hv).mono h)
  | .fxp x, hv => GoodV_fxp.mpr ((GoodV_fxp.mp hv).mono h)
  | .list xs, hv => GoodV_list.mpr (fun v hm => GoodV.mono h v (GoodV_list.mp hv v hm))
  | .tuple xs, hv => GoodV_tuple.mpr (fun v hm => GoodV.mono h v (GoodV_tuple.mp hv v hm))

theorem GoodV_ofFB {s : St} {o : Option LinComb} (h : ∀ r, o = some r → Good s r) : GoodV s (ofFB o) := by
  cases o with
  | none => exact GoodV_int
  | some x => exact GoodV_lc.mpr (h x rfl)

/-! ## small tools -/
theorem getRes_bind {β} (f : Nat → M β) (s : St) : (getRes >>= f) s = f s.resolution s := rfl
theorem getOne_bind {β} (f : LinComb → M β) (s : St) : (getOne >>= f) s = f s.one s := rfl
theorem getP_bind {β} (f : Int → M β) (s : St) : (getP >>= f) s = f s.p s := rfl
theorem tyErr_ok {α} {a : α} {s s' : St} : (tyErr : M α) s = .ok (a, s') ↔ False := raise_ok

theorem ret_spec {s : St} {Q : Prop} (hinv : Inv s) (hq : Q) : s.le s ∧ Frame s s ∧ Inv s ∧ Q :=
  ⟨St.le.refl _, Frame.refl _, hinv, hq⟩

/-- normalise `GoodV` facts on constructors -/
macro "gv" : tactic => `(tactic| try simp only [GoodV_lc, GoodV_lcb, GoodV_fxp, GoodV_int, GoodV_flt,
  GoodV_none] at *)

/-- closes `Good s e` for an arithmetic expression `e` over `Good` hypotheses -/
macro "good" : tactic => `(tactic| repeat' (first
  | assumption
  | exact Good.const _ _ | exact Good.zero _ | exact Good.oneSafe _
  | apply Good.subI | apply Good.rsubI | apply Good.addI | apply Good.sub | apply Good.add
  | apply Good.neg | apply Good.mulI
  | exact Inv.oneGood (by assumption)))

-- closes goals for a pure (state-preserving) arm; refers to the hypotheses `h` and `hinv` by name
set_option hygiene false in
macro "pure_arm" : tactic => `(tactic|
  (obtain ⟨rfl, rfl⟩ := pure_ok' h
   gv
   exact ret_spec hinv (by first | trivial | good)))

/-! ## coercions -/
theorem ensurefxp_spec {s s' : St} {v : Val} {r : LinComb} (hinv : Inv s) (hv : GoodV s v)
    (h : ensurefxp v s = .ok (r, s')) : s.le s' ∧ Frame s s' ∧ Inv s' ∧ Good s' r := by
  unfold ensurefxp at h
  rw [getRes_bind] at h
  split at h
  all_goals first
    | exact (raise_ok.mp h).elim
    | pure_arm

theorem ensurebool_spec {s s' : St} {v : Val} {r : LinComb} (hinv : Inv s) (hv : GoodV s v)
    (h : ensurebool v s = .ok (r, s')) : s.le s' ∧ Frame s s' ∧ Inv s' ∧ Good s' r := by
  unfold ensurebool at h
  split at h
  · pure_arm
  · split at h
    · cases h
    · gv
      obtain ⟨le1, f1, inv1, rfl, -⟩ := mkBool_spec hinv hv h
      exact ⟨le1, f1, inv1, hv.mono le1⟩
  · exact ensureboolI_spec hinv h
  · exact (raise_ok.mp h).elim

theorem ensurelcI_spec {s s' : St} {c : Int} {r : LinComb} (hinv : Inv s)
    (h : ensurelcI c s = .ok (r, s')) : s.le s' ∧ Frame s s' ∧ Inv s' ∧ Good s' r := by
  unfold ensurelcI at h
  simp only [Except.ok.injEq, Prod.mk.injEq] at h
  obtain ⟨rfl, rfl⟩ := h
  exact ret_spec hinv (hinv.oneGood.mulI c)

theorem ensurelc_spec {s s' : St} {v : Val} {r : LinComb} (hinv : Inv s) (hv : GoodV s v)
    (h : ensurelc v s = .ok (r, s')) : s.le s' ∧ Frame s s' ∧ Inv s' ∧ Good s' r := by
  unfold ensurelc at h
  split at h
  · pure_arm
  · exact ensurelcI_spec hinv h
  · exact (raise_ok.mp h).elim

/-! ## negation, addition, subtraction -/
theorem negV_spec {s s' : St} {v r : Val} (hinv : Inv s) (hv : GoodV s v)
    (h : negV v s = .ok (r, s')) : s.le s' ∧ Frame s s' ∧ Inv s' ∧ GoodV s' r := by
  unfold negV at h
  split at h
  all_goals first
    | exact (raise_ok.mp h).elim
    | pure_arm

theorem addLV_spec {s s' : St} {x : LinComb} {o r : Val} (hinv : Inv s) (hx : Good s x) (ho : GoodV s o)
    (h : addLV x o s = .ok (r, s')) : s.le s' ∧ Frame s s' ∧ Inv s' ∧ GoodV s' r := by
  unfold addLV at h
  split at h
  all_goals try rw [getRes_bind] at h
  all_goals first
    | exact (raise_ok.mp h).elim
    | pure_arm

theorem addXV_spec {s s' : St} {x : LinComb} {o r : Val} (hinv : Inv s) (hx : Good s x) (ho : GoodV s o)
    (h : addXV x o s = .ok (r, s')) : s.le s' ∧ Frame s s' ∧ Inv s' ∧ GoodV s' r := by
  unfold addXV at h
  rw [getRes_bind] at h
  split at h
  all_goals first
    | exact (raise_ok.mp h).elim
    | pure_arm

theorem addV_spec {s s' : St} {a b r : Val} (hinv : Inv s) (ha : GoodV s a) (hb : GoodV s b)
    (h : addV a b s = .ok (r, s')) : s.le s' ∧ Frame s s' ∧ Inv s' ∧ GoodV s' r := by
  unfold addV at h
  split at h
  all_goals try split at h
  all_goals gv
  all_goals first
    | exact (raise_ok.mp h).elim
    | exact addLV_spec hinv (by assumption) (by first | assumption | simp) h
    | exact addXV_spec hinv (by assumption) (by first | assumption | simp) h
    | pure_arm

theorem subV_spec {s s' : St} {a b r : Val} (hinv : Inv s) (ha : GoodV s a) (hb : GoodV s b)
    (h : subV a b s = .ok (r, s')) : s.le s' ∧ Frame s s' ∧ Inv s' ∧ GoodV s' r := by
  unfold subV at h
  split at h
  · pure_arm
  · obtain ⟨nb, s1, h1, h⟩ := bind_ok.mp h
    obtain ⟨le1, f1, inv1, g1⟩ := negV_spec hinv hb h1
    obtain ⟨le2, f2, inv2, g2⟩ := addV_spec inv1 (ha.mono le1) g1 h
    exact ⟨le1.trans le2, f1.trans f2, inv2, g2⟩

/-! ## arm macros (unhygienic: they use the names `h`, `hinv` and introduce `r1 s1 h1 le1 f1 inv1 g1 …`) -/
theorem mulLL_spec' {s s' : St} {a b r : LinComb} (hinv : Inv s) (ha : Good s a) (hb : Good s b)
    (h : mulLL a b s = .ok (r, s')) : s.le s' ∧ Frame s s' ∧ Inv s' ∧ Good s' r := by
  obtain ⟨a, b, c, d, -⟩ := mulLL_spec hinv ha hb h
  exact ⟨a, b, c, d⟩

theorem mkBool_spec' {s s' : St} {x r : LinComb} {c : Bool} (hinv : Inv s) (hx : Good s x)
    (h : mkBool x c s = .ok (r, s')) : s.le s' ∧ Frame s s' ∧ Inv s' ∧ Good s' r := by
  obtain ⟨le1, f1, inv1, rfl, -⟩ := mkBool_spec hinv hx h
  exact ⟨le1, f1, inv1, hx.mono le1⟩

-- arm `do let r ← g …; pure (C r)`; the argument is the spec of `g` applied up to the equation
set_option hygiene false in
macro "call_arm" t:term : tactic => `(tactic|
  (obtain ⟨r1, s1, h1, h⟩ := bind_ok.mp h
   obtain ⟨rfl, rfl⟩ := pure_ok' h
   gv
   obtain ⟨le1, f1, inv1, g1⟩ := $t h1
   exact ⟨le1, f1, inv1, by gv; exact g1⟩))

-- arm `do let a ← g₁ …; let b ← g₂ …; pure (C b)`
set_option hygiene false in
macro "call2_arm" t1:term "," t2:term : tactic => `(tactic|
  (obtain ⟨r1, s1, h1, h⟩ := bind_ok.mp h
   obtain ⟨r2, s2, h2, h⟩ := bind_ok.mp h
   obtain ⟨rfl, rfl⟩ := pure_ok' h
   gv
   obtain ⟨le1, f1, inv1, g1⟩ := $t1 h1
   obtain ⟨le2, f2, inv2, g2⟩ := $t2 h2
   exact ⟨le1.trans le2, f1.trans f2, inv2, by gv; exact g2⟩))

-- arm `do let a ← g₁ …; g₂ …`
set_option hygiene false in
macro "tail2_arm" t1:term "," t2:term : tactic => `(tactic|
  (obtain ⟨r1, s1, h1, h⟩ := bind_ok.mp h
   gv
   obtain ⟨le1, f1, inv1, g1⟩ := $t1 h1
   obtain ⟨le2, f2, inv2, g2⟩ := $t2 h
   exact ⟨le1.trans le2, f1.trans f2, inv2, g2⟩))

-- arm `do let a ← g₁ …; let b ← g₂ …; g₃ …`
set_option hygiene false in
macro "tail3_arm" t1:term "," t2:term "," t3:term : tactic => `(tactic|
  (obtain ⟨r1, s1, h1, h⟩ := bind_ok.mp h
   obtain ⟨r2, s2, h2, h⟩ := bind_ok.mp h
   gv
   obtain ⟨le1, f1, inv1, g1⟩ := $t1 h1
   obtain ⟨le2, f2, inv2, g2⟩ := $t2 h2
   obtain ⟨le3, f3, inv3, g3⟩ := $t3 h
   exact ⟨(le1.trans le2).trans le3, (f1.trans f2).trans f3, inv3, g3⟩))

/-! ## multiplication -/
theorem floordivLI_spec {s s' : St} {x r : LinComb} {c : Int} (hinv : Inv s) (hx : Good s x)
    (h : floordivLI x c s = .ok (r, s')) : s.le s' ∧ Frame s s' ∧ Inv s' ∧ Good s' r := by
  unfold floordivLI at h
  obtain ⟨qr, s1, h1, h⟩ := bind_ok.mp h
  obtain ⟨rfl, rfl⟩ := pure_ok' h
  obtain ⟨le1, f1, inv1, g1, -⟩ := divmodLL_spec hinv hx (Good.const s c) h1
  exact ⟨le1, f1, inv1, g1⟩

theorem floordivLL_spec {s s' : St} {x y r : LinComb} (hinv : Inv s) (hx : Good s x) (hy : Good s y)
    (h : floordivLL x y s = .ok (r, s')) : s.le s' ∧ Frame s s' ∧ Inv s' ∧ Good s' r := by
  unfold floordivLL at h
  obtain ⟨qr, s1, h1, h⟩ := bind_ok.mp h
  obtain ⟨rfl, rfl⟩ := pure_ok' h
  obtain ⟨le1, f1, inv1, g1, -⟩ := divmodLL_spec hinv hx hy h1
  exact ⟨le1, f1, inv1, g1⟩

theorem mulLV_spec {s s' : St} {x : LinComb} {o r : Val} (hinv : Inv s) (hx : Good s x) (ho : GoodV s o)
    (h : mulLV x o s = .ok (r, s')) : s.le s' ∧ Frame s s' ∧ Inv s' ∧ GoodV s' r := by
  unfold mulLV at h
  split at h
  · pure_arm
  · call_arm (mulLL_spec' hinv hx ho)
  · call_arm (mulLL_spec' hinv ho hx)
  · call_arm (mulLL_spec' hinv ho hx)
  · exact (raise_ok.mp h).elim

theorem mulXV_spec {s s' : St} {x : LinComb} {o r : Val} (hinv : Inv s) (hx : Good s x) (ho : GoodV s o)
    (h : mulXV x o s = .ok (r, s')) : s.le s' ∧ Frame s s' ∧ Inv s' ∧ GoodV s' r := by
  unfold mulXV at h
  rw [getRes_bind] at h
  split at h
  · pure_arm
  · call_arm (floordivLI_spec hinv (hx.mulI _))
  · call_arm (mulLL_spec' hinv hx ho)
  · call2_arm (mulLL_spec' hinv hx ho), (floordivLI_spec inv1 g1)
  · call_arm (mulLL_spec' hinv hx ho)
  · exact (raise_ok.mp h).elim

theorem mulV_spec {s s' : St} {a b r : Val} (hinv : Inv s) (ha : GoodV s a) (hb : GoodV s b)
    (h : mulV a b s = .ok (r, s')) : s.le s' ∧ Frame s s' ∧ Inv s' ∧ GoodV s' r := by
  unfold mulV at h
  split at h
  all_goals try split at h
  all_goals gv
  all_goals first
    | exact (raise_ok.mp h).elim
    | exact mulLV_spec hinv (by assumption) (by first | assumption | simp) h
    | exact mulXV_spec hinv (by assumption) (by first | assumption | simp) h
    | pure_arm

/-! ## divmod -/
def GoodQR (s : St) (o : Option (LinComb × LinComb)) : Prop := ∀ qr, o = some qr → Good s qr.1 ∧ Good s qr.2

theorem GoodQR_none {s : St} : GoodQR s Option.none := fun _ h => by cases h
theorem GoodQR_some {s : St} {qr : LinComb × LinComb} (h1 : Good s qr.1) (h2 : Good s qr.2) :
    GoodQR s (some qr) := fun _ h => by cases h; exact ⟨h1, h2⟩

-- arm `do let qr ← divmodLL a d; pure (some (f qr.1, qr.2))`
set_option hygiene false in
macro "dm_arm" t:term : tactic => `(tactic|
  (obtain ⟨r1, s1, h1, h⟩ := bind_ok.mp h
   obtain ⟨rfl, rfl⟩ := pure_ok' h
   gv
   obtain ⟨le1, f1, inv1, g1, g1'⟩ := $t h1
   exact ⟨le1, f1, inv1, GoodQR_some (by good) g1'⟩))

theorem divmodLV_spec {s s' : St} {x : LinComb} {o : Val} {r : Option (LinComb × LinComb)} (hinv : Inv s)
    (hx : Good s x) (ho : GoodV s o) (h : divmodLV x o s = .ok (r, s')) :
    s.le s' ∧ Frame s s' ∧ Inv s' ∧ GoodQR s' r := by
  unfold divmodLV at h
  split at h
  · dm_arm (divmodLL_spec hinv hx (Good.const _ _))
  · dm_arm (divmodLL_spec hinv hx ho)
  · obtain ⟨rfl, rfl⟩ := pure_ok' h
    exact ret_spec hinv GoodQR_none

theorem divmodXV_spec {s s' : St} {x : LinComb} {o : Val} {r : Option (LinComb × LinComb)} (hinv : Inv s)
    (hx : Good s x) (ho : GoodV s o) (h : divmodXV x o s = .ok (r, s')) :
    s.le s' ∧ Frame s s' ∧ Inv s' ∧ GoodQR s' r := by
  unfold divmodXV at h
  rw [getRes_bind] at h
  dsimp only at h
  split at h
  · dm_arm (divmodLL_spec hinv hx (Good.const _ _))
  · dm_arm (divmodLL_spec hinv hx (Good.const _ _))
  · dm_arm (divmodLL_spec hinv hx (ho.mulI _))
  · dm_arm (divmodLL_spec hinv hx ho)
  · obtain ⟨rfl, rfl⟩ := pure_ok' h
    exact ret_spec hinv GoodQR_none

theorem GoodV_pickL {s : St} {w : DM} {qr : LinComb × LinComb} (h1 : Good s qr.1) (h2 : Good s qr.2) :
    GoodV s (pickL w qr) := by
  cases w <;> simp [pickL, h1, h2]

theorem GoodV_pickX {s : St} {w : DM} {qr : LinComb × LinComb} (h1 : Good s qr.1) (h2 : Good s qr.2) :
    GoodV s (pickX w qr) := by
  cases w <;> simp [pickX, h1, h2]

/-- the reflected arm `LinCombFxp.__rfloordiv__/__rmod__` shared by five cases of `divmodV` -/
theorem divmodV_fxpArm {s s' : St} {w : DM} {v r : Val} {y : LinComb} (hinv : Inv s) (hv : GoodV s v)
    (hy : Good s y)
    (h : (do let xs ← ensurefxp v
             match ← divmodXV xs (.fxp y) with
             | some qr => pure (pickX w qr)
             | Option.none => tyErr : M Val) s = .ok (r, s')) :
    s.le s' ∧ Frame s s' ∧ Inv s' ∧ GoodV s' r := by
  obtain ⟨xs, s1, h1, h⟩ := bind_ok.mp h
  obtain ⟨o, s2, h2, h⟩ := bind_ok.mp h
  obtain ⟨le1, f1, inv1, g1⟩ := ensurefxp_spec hinv hv h1
  obtain ⟨le2, f2, inv2, g2⟩ := divmodXV_spec inv1 g1 (GoodV_fxp.mpr (hy.mono le1)) h2
  split at h
  · obtain ⟨rfl, rfl⟩ := pure_ok' h
    obtain ⟨a, b⟩ := g2 _ rfl
    exact ⟨le1.trans le2, f1.trans f2, inv2, GoodV_pickX a b⟩
  · exact (raise_ok.mp h).elim

theorem divmodV_spec {s s' : St} {w : DM} {a b r : Val} (hinv : Inv s) (ha : GoodV s a) (hb : GoodV s b)
    (h : divmodV w a b s = .ok (r, s')) : s.le s' ∧ Frame s s' ∧ Inv s' ∧ GoodV s' r := by
  unfold divmodV at h
  split at h
  · -- .lc x
    obtain ⟨o, s1, h1, h⟩ := bind_ok.mp h
    gv
    obtain ⟨le1, f1, inv1, g1⟩ := divmodLV_spec hinv ha hb h1
    split at h
    · obtain ⟨rfl, rfl⟩ := pure_ok' h
      obtain ⟨a, b⟩ := g1 _ rfl
      exact ⟨le1, f1, inv1, GoodV_pickL a b⟩
    · split at h
      · split at h
        · exact (raise_ok.mp h).elim
        · gv
          obtain ⟨le2, f2, inv2, g2⟩ := divmodV_fxpArm inv1 (GoodV_lc.mpr (ha.mono le1)) (hb.mono le1) h
          exact ⟨le1.trans le2, f1.trans f2, inv2, g2⟩
      · exact (raise_ok.mp h).elim
  · -- .lcb x
    split at h
    · split at h
      · exact (raise_ok.mp h).elim
      · gv
        exact divmodV_fxpArm hinv (GoodV_lcb.mpr ha) hb h
    · exact (raise_ok.mp h).elim
    · exact (raise_ok.mp h).elim
  · -- .fxp x
    obtain ⟨o, s1, h1, h⟩ := bind_ok.mp h
    gv
    obtain ⟨le1, f1, inv1, g1⟩ := divmodXV_spec hinv ha hb h1
    split at h
    · obtain ⟨rfl, rfl⟩ := pure_ok' h
      obtain ⟨a, b⟩ := g1 _ rfl
      exact ⟨le1, f1, inv1, GoodV_pickX a b⟩
    · exact (raise_ok.mp h).elim
  · -- .int c
    split at h
    · obtain ⟨qr, s1, h1, h⟩ := bind_ok.mp h
      obtain ⟨rfl, rfl⟩ := pure_ok' h
      gv
      obtain ⟨le1, f1, inv1, g1, g1'⟩ := divmodLL_spec hinv (Good.const _ _) hb h1
      exact ⟨le1, f1, inv1, GoodV_pickL g1 g1'⟩
    · split at h
      · exact (raise_ok.mp h).elim
      · gv
        exact divmodV_fxpArm hinv GoodV_int hb h
    · exact (raise_ok.mp h).elim
    · exact (raise_ok.mp h).elim
  · -- .flt
    split at h
    · exact (raise_ok.mp h).elim
    · split at h
      · exact (raise_ok.mp h).elim
      · gv
        exact divmodV_fxpArm hinv GoodV_flt hb h
    · exact (raise_ok.mp h).elim
    · exact (raise_ok.mp h).elim
  · split at h
    · exact (raise_ok.mp h).elim
    · split at h <;> exact (raise_ok.mp h).elim
    · exact (raise_ok.mp h).elim
    · exact (raise_ok.mp h).elim

/-! ## true division -/
-- arm `do let q ← g …; pure (some q)`
set_option hygiene false in
macro "some_arm" t:term : tactic => `(tactic|
  (obtain ⟨r1, s1, h1, h⟩ := bind_ok.mp h
   obtain ⟨rfl, rfl⟩ := pure_ok' h
   gv
   obtain ⟨le1, f1, inv1, g1⟩ := $t h1
   exact ⟨le1, f1, inv1, fun _ hq => by cases hq; exact g1⟩))

theorem truedivXV_spec {s s' : St} {x : LinComb} {o : Val} {r : Option LinComb} (hinv : Inv s)
    (hx : Good s x) (ho : GoodV s o) (h : truedivXV x o s = .ok (r, s')) :
    s.le s' ∧ Frame s s' ∧ Inv s' ∧ ∀ q, r = some q → Good s' q := by
  unfold truedivXV at h
  rw [getRes_bind] at h
  split at h
  · some_arm (floordivLI_spec hinv hx)
  · some_arm (floordivLI_spec hinv (hx.mulI _))
  · some_arm (floordivLL_spec hinv (hx.mulI _) (ho.mulI _))
  · some_arm (floordivLL_spec hinv (hx.mulI _) ho)
  · obtain ⟨rfl, rfl⟩ := pure_ok' h
    exact ret_spec hinv (fun _ hq => by cases hq)

/-- the reflected arm `LinCombFxp.__rtruediv__` shared by five cases of `truedivV` -/
theorem truedivV_fxpArm {s s' : St} {v r : Val} {y : LinComb} (hinv : Inv s) (hv : GoodV s v)
    (hy : Good s y)
    (h : (do let xs ← ensurefxp v
             match ← truedivXV xs (.fxp y) with
             | some q => pure (.fxp q)
             | Option.none => tyErr : M Val) s = .ok (r, s')) :
    s.le s' ∧ Frame s s' ∧ Inv s' ∧ GoodV s' r := by
  obtain ⟨xs, s1, h1, h⟩ := bind_ok.mp h
  obtain ⟨o, s2, h2, h⟩ := bind_ok.mp h
  obtain ⟨le1, f1, inv1, g1⟩ := ensurefxp_spec hinv hv h1
  obtain ⟨le2, f2, inv2, g2⟩ := truedivXV_spec inv1 g1 (GoodV_fxp.mpr (hy.mono le1)) h2
  split at h
  · obtain ⟨rfl, rfl⟩ := pure_ok' h
    exact ⟨le1.trans le2, f1.trans f2, inv2, GoodV_fxp.mpr (g2 _ rfl)⟩
  · exact (raise_ok.mp h).elim

/-- `a / b`.  `hi`: errors are not being ignored (no false guard); see `truedivLI_spec'`. -/
theorem truedivV_spec {s s' : St} {a b r : Val} (hinv : Inv s) (hP : PrimeP s)
    (hi : s.ignoreErrors = false) (ha : GoodV s a) (hb : GoodV s b)
    (h : truedivV a b s = .ok (r, s')) : s.le s' ∧ Frame s s' ∧ Inv s' ∧ GoodV s' r := by
  unfold truedivV at h
  split at h
  · split at h
    · call_arm (truedivLI_spec' hinv hP hi ha)
    · call_arm (truedivLL_spec hinv ha hb)
    · gv; exact truedivV_fxpArm hinv (GoodV_lc.mpr ha) hb h
    · exact (raise_ok.mp h).elim
  · split at h
    · exact (raise_ok.mp h).elim
    · gv; exact truedivV_fxpArm hinv (GoodV_lcb.mpr ha) hb h
    · exact (raise_ok.mp h).elim
  · obtain ⟨o, s1, h1, h⟩ := bind_ok.mp h
    gv
    obtain ⟨le1, f1, inv1, g1⟩ := truedivXV_spec hinv ha hb h1
    split at h
    · obtain ⟨rfl, rfl⟩ := pure_ok' h
      exact ⟨le1, f1, inv1, GoodV_fxp.mpr (g1 _ rfl)⟩
    · exact (raise_ok.mp h).elim
  · split at h
    · call_arm (truedivLL_spec hinv (Good.const _ _) hb)
    · gv; exact truedivV_fxpArm hinv GoodV_int hb h
    · exact (raise_ok.mp h).elim
    · exact (raise_ok.mp h).elim
  · split at h
    · exact (raise_ok.mp h).elim
    · gv; exact truedivV_fxpArm hinv GoodV_flt hb h
    · exact (raise_ok.mp h).elim
    · exact (raise_ok.mp h).elim
  · split at h <;> exact (raise_ok.mp h).elim

/-! ## power -/
theorem powXN_spec {x : LinComb} : ∀ (n : Nat) {s s' : St} {r : LinComb}, Inv s → Good s x →
    powXN x n s = .ok (r, s') → s.le s' ∧ Frame s s' ∧ Inv s' ∧ Good s' r
  | 0, s, s', r, hinv, _, h => by
    unfold powXN at h
    rw [getOne_bind, getRes_bind] at h
    obtain ⟨rfl, rfl⟩ := pure_ok' h
    exact ret_spec hinv (hinv.oneGood.mulI _)
  | 1, s, s', r, hinv, hx, h => by
    unfold powXN at h
    obtain ⟨rfl, rfl⟩ := pure_ok' h
    exact ret_spec hinv hx
  | n+2, s, s', r, hinv, hx, h => by
    unfold powXN at h
    obtain ⟨rest, s1, h1, h⟩ := bind_ok.mp h
    rw [getRes_bind] at h
    obtain ⟨z, s2, h2, h⟩ := bind_ok.mp h
    obtain ⟨q, s3, h3, h⟩ := bind_ok.mp h
    rw [getP_bind] at h
    obtain ⟨rfl, rfl⟩ := pure_ok' h
    obtain ⟨le1, f1, inv1, g1⟩ := powXN_spec (n+1) hinv hx h1
    obtain ⟨le2, f2, inv2, g2⟩ := mulLL_spec' inv1 (hx.mono le1) g1 h2
    obtain ⟨le3, f3, inv3, g3⟩ := floordivLI_spec inv2 g2 h3
    exact ⟨(le1.trans le2).trans le3, (f1.trans f2).trans f3, inv3, g3.reduceValue⟩

theorem powV_spec {s s' : St} {a b r : Val} (hinv : Inv s) (hP : PrimeP s) (ha : GoodV s a) (hb : GoodV s b)
    (h : powV a b s = .ok (r, s')) : s.le s' ∧ Frame s s' ∧ Inv s' ∧ GoodV s' r := by
  unfold powV at h
  split at h
  · split at h
    · split at h
      · exact (raise_ok.mp h).elim
      · split at h
        · exact (raise_ok.mp h).elim
        · call_arm (powLN_spec _ hinv ha)
    · call_arm (powLL_spec hinv hP ha hb)
    · exact (raise_ok.mp h).elim
  · call_arm (neLI_spec hinv hP ha)
  · split at h
    · split at h
      · exact (raise_ok.mp h).elim
      · split at h
        · exact (raise_ok.mp h).elim
        · call_arm (powXN_spec _ hinv ha)
    · exact (raise_ok.mp h).elim
    · exact (raise_ok.mp h).elim
  · split at h
    · call_arm (powLL_spec hinv hP (Good.const _ _) hb)
    · exact (raise_ok.mp h).elim
    · exact (raise_ok.mp h).elim
    · exact (raise_ok.mp h).elim
  · split at h <;> exact (raise_ok.mp h).elim

/-! ## shifts -/
theorem lshiftLV_spec {s s' : St} {x : LinComb} {b r : Val} (hinv : Inv s) (hP : PrimeP s) (hx : Good s x)
    (hb : GoodV s b) (h : lshiftLV x b s = .ok (r, s')) : s.le s' ∧ Frame s s' ∧ Inv s' ∧ GoodV s' r := by
  unfold lshiftLV at h
  split at h
  · split at h
    · exact (raise_ok.mp h).elim
    · call_arm (lshiftLI_spec hinv hx)
  · call2_arm (powLL_spec hinv hP (Good.const _ _) hb), (mulLL_spec' inv1 (hx.mono le1) g1)
  · exact (raise_ok.mp h).elim

theorem rshiftLV_spec {s s' : St} {x : LinComb} {b r : Val} (hinv : Inv s) (hP : PrimeP s) (hx : Good s x)
    (hb : GoodV s b) (h : rshiftLV x b s = .ok (r, s')) : s.le s' ∧ Frame s s' ∧ Inv s' ∧ GoodV s' r := by
  unfold rshiftLV at h
  split at h
  · obtain ⟨o, s1, h1, h⟩ := bind_ok.mp h
    obtain ⟨rfl, rfl⟩ := pure_ok' h
    obtain ⟨le1, f1, inv1, g1⟩ := rshiftLI_spec hinv hx h1
    exact ⟨le1, f1, inv1, GoodV_ofFB g1⟩
  · call2_arm (powLL_spec hinv hP (Good.const _ _) hb), (floordivLL_spec inv1 (hx.mono le1) g1)
  · exact (raise_ok.mp h).elim

theorem mkFxpNoScale_spec {s s' : St} {v r : Val} (hinv : Inv s) (hv : GoodV s v)
    (h : mkFxpNoScale v s = .ok (r, s')) : s.le s' ∧ Frame s s' ∧ Inv s' ∧ GoodV s' r := by
  unfold mkFxpNoScale at h
  split at h
  · pure_arm
  · exact (raise_ok.mp h).elim

theorem lshiftV_spec {s s' : St} {a b r : Val} (hinv : Inv s) (hP : PrimeP s) (ha : GoodV s a)
    (hb : GoodV s b) (h : lshiftV a b s = .ok (r, s')) : s.le s' ∧ Frame s s' ∧ Inv s' ∧ GoodV s' r := by
  unfold lshiftV at h
  split at h
  · gv; exact lshiftLV_spec hinv hP ha hb h
  · tail2_arm (lshiftLV_spec hinv hP ha hb), (mkFxpNoScale_spec inv1 g1)
  · split at h <;> exact (raise_ok.mp h).elim
  · split at h
    · gv; exact lshiftLV_spec hinv hP (Good.const _ _) (GoodV_lc.mpr hb) h
    · exact (raise_ok.mp h).elim
    · exact (raise_ok.mp h).elim
    · exact (raise_ok.mp h).elim
  · split at h <;> exact (raise_ok.mp h).elim

theorem rshiftV_spec {s s' : St} {a b r : Val} (hinv : Inv s) (hP : PrimeP s) (ha : GoodV s a)
    (hb : GoodV s b) (h : rshiftV a b s = .ok (r, s')) : s.le s' ∧ Frame s s' ∧ Inv s' ∧ GoodV s' r := by
  unfold rshiftV at h
  split at h
  · gv; exact rshiftLV_spec hinv hP ha hb h
  · tail2_arm (rshiftLV_spec hinv hP ha hb), (mkFxpNoScale_spec inv1 g1)
  · split at h <;> exact (raise_ok.mp h).elim
  · split at h
    · gv; exact rshiftLV_spec hinv hP (Good.const _ _) (GoodV_lc.mpr hb) h
    · exact (raise_ok.mp h).elim
    · exact (raise_ok.mp h).elim
    · exact (raise_ok.mp h).elim
  · split at h <;> exact (raise_ok.mp h).elim

/-! ## bitwise / logical -/
theorem spec_trans {s s0 s' : St} {Q : Prop} (le0 : s.le s0) (f0 : Frame s s0)
    (h : s0.le s' ∧ Frame s0 s' ∧ Inv s' ∧ Q) : s.le s' ∧ Frame s s' ∧ Inv s' ∧ Q :=
  ⟨le0.trans h.1, f0.trans h.2.1, h.2.2.1, h.2.2.2⟩

theorem truthy_ok {s s' : St} {v : Val} {c : Int} (h : truthy v s = .ok (c, s')) : s = s' := by
  unfold truthy at h
  split at h
  all_goals first
    | exact (raise_ok.mp h).elim
    | exact (pure_ok' h).2

theorem bwBV_key {s0 s' : St} {op : BW} {x y : LinComb} {r : Val} (hinv : Inv s0) (hx : Good s0 x)
    (hy : Good s0 y)
    (h : (match op with
        | .and => do let p ← mulLL x y; let r ← mkBool p false; pure (Val.lcb r)
        | .xor => do let p ← mulLL (x.mulI 2) y; let r ← mkBool ((x.add y).sub p) false; pure (Val.lcb r)
        | .or => do let p ← mulLL x y; let r ← mkBool ((x.add y).sub p) false; pure (Val.lcb r) : M Val) s0
        = .ok (r, s')) : s0.le s' ∧ Frame s0 s' ∧ Inv s' ∧ GoodV s' r := by
  split at h
  · call2_arm (mulLL_spec' hinv hx hy), (mkBool_spec' inv1 g1)
  · call2_arm (mulLL_spec' hinv (hx.mulI 2) hy), (mkBool_spec' inv1 (((hx.add hy).mono le1).sub g1))
  · call2_arm (mulLL_spec' hinv hx hy), (mkBool_spec' inv1 (((hx.add hy).mono le1).sub g1))

theorem bwBV_spec {s s' : St} {op : BW} {x : LinComb} {o r : Val} (hinv : Inv s) (hx : Good s x)
    (ho : GoodV s o) (h : bwBV op x o s = .ok (r, s')) : s.le s' ∧ Frame s s' ∧ Inv s' ∧ GoodV s' r := by
  unfold bwBV at h
  split at h
  · obtain ⟨y, s0, h0, h⟩ := bind_ok.mp h
    obtain ⟨le0, f0, inv0, g0⟩ := ensurebool_spec hinv ho h0
    exact spec_trans le0 f0 (bwBV_key inv0 (hx.mono le0) g0 h)
  · obtain ⟨y, s0, h0, h⟩ := bind_ok.mp h
    obtain ⟨le0, f0, inv0, g0⟩ := ensurebool_spec hinv ho h0
    exact spec_trans le0 f0 (bwBV_key inv0 (hx.mono le0) g0 h)
  · obtain ⟨c, s0, h0, h⟩ := bind_ok.mp h
    obtain rfl := truthy_ok h0
    split at h
    · call_arm (mkBool_spec' hinv (by good))
    · call_arm (mkBool_spec' hinv (by good))
    · call_arm (mkBool_spec' hinv (by good))

-- arm `do let r ← g …; pure (ofFB r)`
set_option hygiene false in
macro "ofFB_arm" t:term : tactic => `(tactic|
  (obtain ⟨r1, s1, h1, h⟩ := bind_ok.mp h
   obtain ⟨rfl, rfl⟩ := pure_ok' h
   gv
   obtain ⟨le1, f1, inv1, g1⟩ := $t h1
   exact ⟨le1, f1, inv1, GoodV_ofFB g1⟩))

theorem bwLV_spec {s s' : St} {op : BW} {x : LinComb} {o r : Val} (hinv : Inv s) (hx : Good s x)
    (ho : GoodV s o) (h : bwLV op x o s = .ok (r, s')) : s.le s' ∧ Frame s s' ∧ Inv s' ∧ GoodV s' r := by
  unfold bwLV at h
  split at h
  · split at h
    · call_arm (andLI_spec hinv)
    · call_arm (xorLI_spec hinv)
    · call_arm (orLI_spec hinv)
  · gv
    split at h
    · ofFB_arm (andLL_spec hinv hx ho)
    · ofFB_arm (xorLL_spec hinv hx ho)
    · ofFB_arm (orLL_spec hinv hx ho)
  · gv
    split at h
    · exact bwBV_spec hinv ho (GoodV_lc.mpr hx) h
    · exact (raise_ok.mp h).elim
  · exact (raise_ok.mp h).elim

theorem bwV_spec {s s' : St} {op : BW} {a b r : Val} (hinv : Inv s) (ha : GoodV s a) (hb : GoodV s b)
    (h : bwV op a b s = .ok (r, s')) : s.le s' ∧ Frame s s' ∧ Inv s' ∧ GoodV s' r := by
  unfold bwV at h
  split at h
  · gv; exact bwLV_spec hinv ha hb h
  · gv; exact bwBV_spec hinv ha hb h
  · split at h
    · exact (raise_ok.mp h).elim
    · split at h
      · exact bwBV_spec hinv (GoodV_lcb.mp hb) ha h
      · exact (raise_ok.mp h).elim
    · exact (raise_ok.mp h).elim
  · split at h
    · gv; exact bwLV_spec hinv hb GoodV_int h
    · split at h
      · exact bwBV_spec hinv (GoodV_lcb.mp hb) GoodV_int h
      · exact (raise_ok.mp h).elim
    · exact (raise_ok.mp h).elim
    · exact (raise_ok.mp h).elim
  · split at h
    · exact (raise_ok.mp h).elim
    · split at h
      · exact bwBV_spec hinv (GoodV_lcb.mp hb) ha h
      · exact (raise_ok.mp h).elim
    · exact (raise_ok.mp h).elim
    · exact (raise_ok.mp h).elim

/-! ## comparisons -/
theorem checkPositiveV_spec {s s' : St} {v r : Val} (hinv : Inv s) (hv : GoodV s v)
    (h : checkPositiveV v s = .ok (r, s')) : s.le s' ∧ Frame s s' ∧ Inv s' ∧ GoodV s' r := by
  unfold checkPositiveV at h
  split at h
  · call_arm (checkPositive_spec hinv hv)
  · call_arm (checkPositive_spec hinv hv)
  · call_arm (checkPositive_spec hinv hv)
  · exact (raise_ok.mp h).elim

theorem checkZeroV_spec {s s' : St} {v r : Val} (hinv : Inv s) (hP : PrimeP s) (hv : GoodV s v)
    (h : checkZeroV v s = .ok (r, s')) : s.le s' ∧ Frame s s' ∧ Inv s' ∧ GoodV s' r := by
  unfold checkZeroV at h
  split at h
  · call_arm (checkZero_spec hinv hP hv)
  · call_arm (checkZero_spec hinv hP hv)
  · call_arm (checkZero_spec hinv hP hv)
  · exact (raise_ok.mp h).elim

theorem checkNonzeroV_spec {s s' : St} {v r : Val} (hinv : Inv s) (hP : PrimeP s) (hv : GoodV s v)
    (h : checkNonzeroV v s = .ok (r, s')) : s.le s' ∧ Frame s s' ∧ Inv s' ∧ GoodV s' r := by
  unfold checkNonzeroV at h
  split at h
  · call_arm (checkNonzero_spec hinv hP hv)
  · call_arm (checkNonzero_spec hinv hP hv)
  · exact (raise_ok.mp h).elim

theorem cmpLV_spec {s s' : St} {op : Cmp} {x : LinComb} {o r : Val} (hinv : Inv s) (hP : PrimeP s)
    (hx : Good s x) (ho : GoodV s o) (h : cmpLV op x o s = .ok (r, s')) :
    s.le s' ∧ Frame s s' ∧ Inv s' ∧ GoodV s' r := by
  unfold cmpLV at h
  split at h
  · tail3_arm (subV_spec hinv ho (GoodV_lc.mpr hx)), (subV_spec inv1 g1 GoodV_int), (checkPositiveV_spec inv2 g2)
  · tail2_arm (subV_spec hinv ho (GoodV_lc.mpr hx)), (checkPositiveV_spec inv1 g1)
  · tail2_arm (subV_spec hinv (GoodV_lc.mpr hx) ho), (checkZeroV_spec inv1 (hP.mono le1) g1)
  · tail2_arm (subV_spec hinv (GoodV_lc.mpr hx) ho), (checkNonzeroV_spec inv1 (hP.mono le1) g1)
  · tail3_arm (subV_spec hinv (GoodV_lc.mpr hx) ho), (subV_spec inv1 g1 GoodV_int), (checkPositiveV_spec inv2 g2)
  · tail2_arm (subV_spec hinv (GoodV_lc.mpr hx) ho), (checkPositiveV_spec inv1 g1)

theorem cmpLL_spec {s s' : St} {op : Cmp} {x y r : LinComb} (hinv : Inv s) (hP : PrimeP s)
    (hx : Good s x) (hy : Good s y) (h : cmpLL op x y s = .ok (r, s')) :
    s.le s' ∧ Frame s s' ∧ Inv s' ∧ Good s' r := by
  unfold cmpLL at h
  split at h
  · exact ltLL_spec hinv hx hy h
  · exact leLL_spec hinv hx hy h
  · exact eqLL_spec hinv hP hx hy h
  · exact neLL_spec hinv hP hx hy h
  · exact gtLL_spec hinv hx hy h
  · exact geLL_spec hinv hx hy h

theorem cmpV_spec {s s' : St} {op : Cmp} {a b r : Val} (hinv : Inv s) (hP : PrimeP s)
    (ha : GoodV s a) (hb : GoodV s b) (h : cmpV op a b s = .ok (r, s')) :
    s.le s' ∧ Frame s s' ∧ Inv s' ∧ GoodV s' r := by
  unfold cmpV at h
  split at h
  · split at h
    · split at h
      · call2_arm (ensurefxp_spec hinv (GoodV_lc.mpr ha)), (cmpLL_spec inv1 (hP.mono le1) (hb.mono le1) g1)
      · exact cmpLV_spec hinv hP (GoodV_lc.mp ha) hb h
    · gv; exact cmpLV_spec hinv hP ha hb h
  · call2_arm (ensurebool_spec hinv hb), (cmpLL_spec inv1 (hP.mono le1) (ha.mono le1) g1)
  · call2_arm (ensurefxp_spec hinv hb), (cmpLL_spec inv1 (hP.mono le1) (ha.mono le1) g1)
  all_goals
    split at h
    · exact cmpLV_spec hinv hP (GoodV_lc.mp hb) ha h
    · call2_arm (ensurebool_spec hinv (by first | assumption | simp)), (cmpLL_spec inv1 (hP.mono le1) (hb.mono le1) g1)
    · call2_arm (ensurefxp_spec hinv (by first | assumption | simp)), (cmpLL_spec inv1 (hP.mono le1) (hb.mono le1) g1)
    · exact (raise_ok.mp h).elim

/-! ## `if_then_else` -/
theorem zipWithM'_spec (f : Val → Val → M Val)
    (hf : ∀ t g s s' r, Inv s → GoodV s t → GoodV s g → f t g s = .ok (r, s') →
      s.le s' ∧ Frame s s' ∧ Inv s' ∧ GoodV s' r) :
    ∀ (ts gs : List Val) (s s' : St) (rs : List Val), Inv s → (∀ t ∈ ts, GoodV s t) →
      (∀ g ∈ gs, GoodV s g) → zipWithM' f ts gs s = .ok (rs, s') →
      s.le s' ∧ Frame s s' ∧ Inv s' ∧ ∀ r ∈ rs, GoodV s' r := by
  intro ts
  induction ts with
  | nil =>
    intro gs s s' rs hinv _ _ h
    unfold zipWithM' at h
    obtain ⟨rfl, rfl⟩ := pure_ok' h
    exact ret_spec hinv (by simp)
  | cons t ts ih =>
    intro gs s s' rs hinv hts hgs h
    cases gs with
    | nil =>
      unfold zipWithM' at h
      obtain ⟨rfl, rfl⟩ := pure_ok' h
      exact ret_spec hinv (by simp)
    | cons g gs =>
      unfold zipWithM' at h
      obtain ⟨r1, s1, h1, h⟩ := bind_ok.mp h
      obtain ⟨r2, s2, h2, h⟩ := bind_ok.mp h
      obtain ⟨rfl, rfl⟩ := pure_ok' h
      obtain ⟨le1, f1, inv1, g1⟩ := hf _ _ _ _ _ hinv (hts t (List.mem_cons_self ..)) (hgs g (List.mem_cons_self ..)) h1
      obtain ⟨le2, f2, inv2, g2⟩ := ih gs s1 _ r2 inv1
        (fun t' ht' => (hts t' (List.mem_cons_of_mem _ ht')).mono le1)
        (fun g' hg' => (hgs g' (List.mem_cons_of_mem _ hg')).mono le1) h2
      refine ⟨le1.trans le2, f1.trans f2, inv2, ?_⟩
      intro r hr
      rcases List.mem_cons.mp hr with rfl | hr
      · exact g1.mono le2
      · exact g2 r hr

/-- the retagging step of `if_then_else`: `LinCombBool(ret, False)` for two boolean branches -/
theorem iteTag_spec {s s' : St} {t f ret r : Val} (hinv : Inv s) (hret : GoodV s ret)
    (h : iteTag t f ret s = .ok (r, s')) : s.le s' ∧ Frame s s' ∧ Inv s' ∧ GoodV s' r := by
  unfold iteTag at h
  split at h
  · call_arm (mkBool_spec' hinv hret)
  · exact (raise_ok.mp h).elim
  · obtain ⟨rfl, rfl⟩ := pure_ok' h
    exact ret_spec hinv hret

theorem iteAux_spec {cond : LinComb} : ∀ (fuel : Nat) {t f r : Val} {s s' : St}, Inv s → Good s cond →
    GoodV s t → GoodV s f → iteAux cond fuel t f s = .ok (r, s') →
    s.le s' ∧ Frame s s' ∧ Inv s' ∧ GoodV s' r
  | 0, t, f, r, s, s', _, _, _, _, h => by
    unfold iteAux at h
    exact (raise_ok.mp h).elim
  | fuel+1, t, f, r, s, s', hinv, hc, ht, hf, h => by
    unfold iteAux at h
    have hz : ∀ (ts fs : List Val) (s0 s0' : St) (rs : List Val), Inv s0 → Good s0 cond →
        (∀ t ∈ ts, GoodV s0 t) → (∀ g ∈ fs, GoodV s0 g) →
        zipWithM' (iteAux cond fuel) ts fs s0 = .ok (rs, s0') →
        s0.le s0' ∧ Frame s0 s0' ∧ Inv s0' ∧ ∀ r ∈ rs, GoodV s0' r := by
      intro ts
      induction ts with
      | nil =>
        intro fs s0 s0' rs hinv _ _ _ h
        unfold zipWithM' at h
        obtain ⟨rfl, rfl⟩ := pure_ok' h
        exact ret_spec hinv (by simp)
      | cons t ts ih =>
        intro fs s0 s0' rs hinv hc hts hgs h
        cases fs with
        | nil =>
          unfold zipWithM' at h
          obtain ⟨rfl, rfl⟩ := pure_ok' h
          exact ret_spec hinv (by simp)
        | cons g gs =>
          unfold zipWithM' at h
          obtain ⟨r1, s1, h1, h⟩ := bind_ok.mp h
          obtain ⟨r2, s2, h2, h⟩ := bind_ok.mp h
          obtain ⟨rfl, rfl⟩ := pure_ok' h
          obtain ⟨le1, f1, inv1, g1⟩ := iteAux_spec fuel hinv hc (hts t (List.mem_cons_self ..))
            (hgs g (List.mem_cons_self ..)) h1
          obtain ⟨le2, f2, inv2, g2⟩ := ih gs s1 _ r2 inv1 (hc.mono le1)
            (fun t' ht' => (hts t' (List.mem_cons_of_mem _ ht')).mono le1)
            (fun g' hg' => (hgs g' (List.mem_cons_of_mem _ hg')).mono le1) h2
          refine ⟨le1.trans le2, f1.trans f2, inv2, ?_⟩
          intro r hr
          rcases List.mem_cons.mp hr with rfl | hr
          · exact g1.mono le2
          · exact g2 r hr
    split at h
    · obtain ⟨rfl, rfl⟩ := pure_ok' h
      exact ret_spec hinv ht
    · split at h
      · split at h
        · obtain ⟨_, h⟩ := ite_else_raise_ok h          -- `len(truev) == len(falsev)`
          obtain ⟨rs, s1, h1, h⟩ := bind_ok.mp h
          obtain ⟨rfl, rfl⟩ := pure_ok' h
          obtain ⟨le1, f1, inv1, g1⟩ := hz _ _ _ _ _ hinv hc (GoodV_list.mp ht) (GoodV_list.mp hf) h1
          exact ⟨le1, f1, inv1, GoodV_list.mpr g1⟩
        · obtain ⟨_, h⟩ := ite_else_raise_ok h
          obtain ⟨rs, s1, h1, h⟩ := bind_ok.mp h
          obtain ⟨rfl, rfl⟩ := pure_ok' h
          obtain ⟨le1, f1, inv1, g1⟩ := hz _ _ _ _ _ hinv hc (GoodV_list.mp ht) (GoodV_tuple.mp hf) h1
          exact ⟨le1, f1, inv1, GoodV_list.mpr g1⟩
        · exact (raise_ok.mp h).elim
      · obtain ⟨f', s1, h1, h⟩ := bind_ok.mp h
        obtain ⟨d, s2, h2, h⟩ := bind_ok.mp h
        obtain ⟨prod, s3, h3, h⟩ := bind_ok.mp h
        obtain ⟨ret, s4, h4, h⟩ := bind_ok.mp h
        have hf' : s.le s1 ∧ Frame s s1 ∧ Inv s1 ∧ GoodV s1 f' := by
          split at h1
          · obtain ⟨y, s0, h0, h1⟩ := bind_ok.mp h1
            obtain ⟨rfl, rfl⟩ := pure_ok' h1
            obtain ⟨le0, f0, inv0, g0⟩ := ensurefxp_spec hinv hf h0
            exact ⟨le0, f0, inv0, GoodV_fxp.mpr g0⟩
          · obtain ⟨rfl, rfl⟩ := pure_ok' h1
            exact ret_spec hinv hf
        obtain ⟨le1, f1, inv1, g1⟩ := hf'
        obtain ⟨le2, f2, inv2, g2⟩ := subV_spec inv1 (ht.mono le1) g1 h2
        obtain ⟨le3, f3, inv3, g3⟩ := mulLV_spec inv2 (hc.mono (le1.trans le2)) g2 h3
        obtain ⟨le4, f4, inv4, g4⟩ := addV_spec inv3 (g1.mono (le2.trans le3)) g3 h4
        obtain ⟨le5, f5, inv5, g5⟩ := iteTag_spec inv4 g4 h
        exact ⟨(((le1.trans le2).trans le3).trans le4).trans le5, (((f1.trans f2).trans f3).trans f4).trans f5, inv5, g5⟩

theorem ifThenElse_spec {s s' : St} {cond t f r : Val} {same : Bool} (hinv : Inv s) (hc : GoodV s cond)
    (ht : GoodV s t) (hf : GoodV s f) (h : ifThenElse cond same t f s = .ok (r, s')) :
    s.le s' ∧ Frame s s' ∧ Inv s' ∧ GoodV s' r := by
  unfold ifThenElse at h
  split at h
  · obtain ⟨rfl, rfl⟩ := pure_ok' h
    exact ret_spec hinv ht
  · split at h
    · split at h
      · exact (raise_ok.mp h).elim
      · obtain ⟨rfl, rfl⟩ := pure_ok' h
        refine ret_spec hinv ?_
        split <;> assumption
    · exact iteAux_spec _ hinv (GoodV_lcb.mp hc) ht hf h
    · exact (raise_ok.mp h).elim

/-! ## unary operators -/
theorem unV_spec {s s' : St} {op : Un} {a r : Val} (hinv : Inv s) (ha : GoodV s a)
    (h : unV op a s = .ok (r, s')) : s.le s' ∧ Frame s s' ∧ Inv s' ∧ GoodV s' r := by
  unfold unV at h
  split at h
  · exact negV_spec hinv ha h
  · obtain ⟨rfl, rfl⟩ := pure_ok' h; exact ret_spec hinv ha
  · obtain ⟨rfl, rfl⟩ := pure_ok' h; exact ret_spec hinv ha
  · obtain ⟨rfl, rfl⟩ := pure_ok' h; exact ret_spec hinv ha
  · call_arm (absL_spec hinv ha)
  · call_arm (absL_spec hinv ha)
  · obtain ⟨z, s1, h1, h⟩ := bind_ok.mp h
    obtain ⟨c, s2, h2, h⟩ := bind_ok.mp h
    obtain ⟨prod, s3, h3, h⟩ := bind_ok.mp h
    obtain ⟨rfl, rfl⟩ := pure_ok' h
    gv
    obtain ⟨le1, f1, inv1, g1⟩ := ensurefxp_spec hinv GoodV_int h1
    have ha1 := ha.mono le1
    obtain ⟨le2, f2, inv2, g2⟩ := geLL_spec inv1 ha1 g1 h2
    have ha2 := ha1.mono le2
    obtain ⟨le3, f3, inv3, g3⟩ := mulLL_spec' inv2 (ha2.sub ha2.neg) g2 h3
    exact ⟨(le1.trans le2).trans le3, (f1.trans f2).trans f3, inv3, (ha2.mono le3).neg.add g3⟩
  · ofFB_arm (invertL_spec hinv ha)
  · call_arm (boolNot_spec hinv ha)
  · exact (raise_ok.mp h).elim
  · exact (raise_ok.mp h).elim

/-! ## constructors (`Model/Methods.lean`) -/
theorem privVal_spec' {s s' : St} {v : Int} {r : LinComb} (hinv : Inv s) (h : privVal v s = .ok (r, s')) :
    s.le s' ∧ Frame s s' ∧ Inv s' ∧ Good s' r := by
  obtain ⟨a, b, c, d, -⟩ := privVal_spec hinv h
  exact ⟨a, b, c, d⟩

theorem pubVal_spec' {s s' : St} {v : Int} {r : LinComb} (hinv : Inv s) (h : pubVal v s = .ok (r, s')) :
    s.le s' ∧ Frame s s' ∧ Inv s' ∧ Good s' r := by
  obtain ⟨a, b, c, d, -⟩ := pubVal_spec hinv h
  exact ⟨a, b, c, d⟩

theorem privValBool_spec' {s s' : St} {v : Int} {r : LinComb} (hinv : Inv s)
    (h : privValBool v s = .ok (r, s')) : s.le s' ∧ Frame s s' ∧ Inv s' ∧ Good s' r := by
  obtain ⟨a, b, c, d, -⟩ := privValBool_spec hinv h
  exact ⟨a, b, c, d⟩

theorem pubValBool_spec' {s s' : St} {v : Int} {r : LinComb} (hinv : Inv s)
    (h : pubValBool v s = .ok (r, s')) : s.le s' ∧ Frame s s' ∧ Inv s' ∧ Good s' r := by
  unfold pubValBool at h
  split at h
  · cases h
  · obtain ⟨x, s1, h1, h2⟩ := bind_ok.mp h
    obtain ⟨le1, f1, inv1, g1⟩ := pubVal_spec' hinv h1
    obtain ⟨le2, f2, inv2, g2⟩ := mkBool_spec' inv1 g1 h2
    exact ⟨le1.trans le2, f1.trans f2, inv2, g2⟩

theorem mkVal_spec {s s' : St} {k : Kind} {v r : Val} (hinv : Inv s)
    (h : mkVal k v s = .ok (r, s')) : s.le s' ∧ Frame s s' ∧ Inv s' ∧ GoodV s' r := by
  unfold mkVal at h
  split at h
  · call_arm (privVal_spec' hinv)
  · call_arm (pubVal_spec' hinv)
  · pure_arm
  · exact (raise_ok.mp h).elim
  · exact (raise_ok.mp h).elim
  · exact (raise_ok.mp h).elim
  · call_arm (privValBool_spec' hinv)
  · call_arm (pubValBool_spec' hinv)
  · exact (raise_ok.mp h).elim
  · exact (raise_ok.mp h).elim
  · rw [getRes_bind] at h; call_arm (privVal_spec' hinv)
  · rw [getRes_bind] at h; call_arm (privVal_spec' hinv)
  · rw [getRes_bind] at h; call_arm (pubVal_spec' hinv)
  · rw [getRes_bind] at h; call_arm (pubVal_spec' hinv)
  · exact (raise_ok.mp h).elim
  · exact (raise_ok.mp h).elim

theorem wrapBool_spec {s s' : St} {v r : Val} (hinv : Inv s) (hv : GoodV s v)
    (h : wrapBool v s = .ok (r, s')) : s.le s' ∧ Frame s s' ∧ Inv s' ∧ GoodV s' r := by
  unfold wrapBool at h
  split at h
  · call_arm (mkBool_spec' hinv hv)
  · exact (raise_ok.mp h).elim

theorem wrapFxp_spec {s s' : St} {v r : Val} (hinv : Inv s) (hv : GoodV s v)
    (h : wrapFxp v s = .ok (r, s')) : s.le s' ∧ Frame s s' ∧ Inv s' ∧ GoodV s' r := by
  unfold wrapFxp at h
  split at h
  · rw [getRes_bind] at h; pure_arm
  · exact (raise_ok.mp h).elim

/-! ## method calls -/
theorem argNat?_ok {s s' : St} {args : List Val} {n : Option Nat} (h : argNat? args s = .ok (n, s')) :
    s = s' := by
  unfold argNat? at h
  split at h
  · exact (pure_ok' h).2
  · split at h
    · exact (raise_ok.mp h).elim
    · exact (pure_ok' h).2
  · exact (pure_ok' h).2
  · exact (raise_ok.mp h).elim

theorem assertCmp_spec {s s' : St} {m : Meth} {a b : LinComb} {u : Unit} (hinv : Inv s) (hP : PrimeP s)
    (ha : Good s a) (hb : Good s b) (h : assertCmp m a b s = .ok (u, s')) :
    s.le s' ∧ Frame s s' ∧ Inv s' := by
  unfold assertCmp at h
  split at h
  · exact assertLt_spec hinv ha hb h
  · exact assertLe_spec hinv ha hb h
  · exact assertEq_spec hinv ha hb h
  · exact assertNe_spec hinv hP ha hb h
  · exact assertGt_spec hinv ha hb h
  · exact assertGe_spec hinv ha hb h
  · exact (raise_ok.mp h).elim

theorem unwrapBits_ok : ∀ {xs : List Val} {s s' : St} {bs : List LinComb}, (∀ v ∈ xs, GoodV s v) →
    unwrapBits xs s = .ok (bs, s') → s = s' ∧ ∀ b ∈ bs, Good s b
  | [], s, s', bs, _, h => by
    unfold unwrapBits at h
    obtain ⟨rfl, rfl⟩ := pure_ok' h
    exact ⟨rfl, by simp⟩
  | v :: xs, s, s', bs, hxs, h => by
    have hv := hxs v (List.mem_cons_self ..)
    have hrest : ∀ v ∈ xs, GoodV s v := fun v hv => hxs v (List.mem_cons_of_mem _ hv)
    cases v
    case lcb x =>
      simp only [unwrapBits] at h
      obtain ⟨r, s1, h1, h⟩ := bind_ok.mp h
      obtain ⟨rfl, rfl⟩ := pure_ok' h
      obtain ⟨rfl, g⟩ := unwrapBits_ok hrest h1
      refine ⟨rfl, ?_⟩
      intro b hb
      rcases List.mem_cons.mp hb with rfl | hb
      · exact GoodV_lcb.mp hv
      · exact g b hb
    case lc x =>
      simp only [unwrapBits] at h
      obtain ⟨r, s1, h1, h⟩ := bind_ok.mp h
      obtain ⟨rfl, rfl⟩ := pure_ok' h
      obtain ⟨rfl, g⟩ := unwrapBits_ok hrest h1
      refine ⟨rfl, ?_⟩
      intro b hb
      rcases List.mem_cons.mp hb with rfl | hb
      · exact GoodV_lc.mp hv
      · exact g b hb
    all_goals
      simp only [unwrapBits] at h
      exact (raise_ok.mp h).elim

-- arm `do g …; pure .none`
set_option hygiene false in
macro "unit_arm" t:term : tactic => `(tactic|
  (obtain ⟨r1, s1, h1, h⟩ := bind_ok.mp h
   obtain ⟨rfl, rfl⟩ := pure_ok' h
   obtain ⟨le1, f1, inv1⟩ := $t h1
   exact ⟨le1, f1, inv1, by simp⟩))

-- arm `do let y ← coerce o; assertCmp m x y; pure .none`
set_option hygiene false in
macro "cmp_arm" t:term : tactic => `(tactic|
  (split at h
   · obtain ⟨r1, s1, h1, h⟩ := bind_ok.mp h
     obtain ⟨r2, s2, h2, h⟩ := bind_ok.mp h
     obtain ⟨rfl, rfl⟩ := pure_ok' h
     obtain ⟨le1, f1, inv1, g1⟩ := $t (hargs _ (by simp)) h1
     obtain ⟨le2, f2, inv2⟩ := assertCmp_spec inv1 (hP.mono le1) (hx.mono le1) g1 h2
     exact ⟨le1.trans le2, f1.trans f2, inv2, GoodV_none⟩
   · exact (raise_ok.mp h).elim))

-- arm `do let l ← coerce lo; let h ← coerce hi; assertRange x l h; pure .none`
set_option hygiene false in
macro "range_arm" t:term : tactic => `(tactic|
  (split at h
   · obtain ⟨r1, s1, h1, h⟩ := bind_ok.mp h
     obtain ⟨r2, s2, h2, h⟩ := bind_ok.mp h
     obtain ⟨r3, s3, h3, h⟩ := bind_ok.mp h
     obtain ⟨rfl, rfl⟩ := pure_ok' h
     obtain ⟨le1, f1, inv1, g1⟩ := $t hinv (hargs _ (by simp)) h1
     obtain ⟨le2, f2, inv2, g2⟩ := $t inv1 ((hargs _ (by simp)).mono le1) h2
     obtain ⟨le3, f3, inv3⟩ := assertRange_spec inv2 (hx.mono (le1.trans le2)) (g1.mono le2) g2 h3
     exact ⟨(le1.trans le2).trans le3, (f1.trans f2).trans f3, inv3, GoodV_none⟩
   · exact (raise_ok.mp h).elim))

-- arm `self.if_else(t, f)`
set_option hygiene false in
macro "ifelse_arm" : tactic => `(tactic|
  (split at h
   · obtain ⟨r1, s1, h1, h⟩ := bind_ok.mp h
     obtain ⟨r2, s2, h2, h⟩ := bind_ok.mp h
     obtain ⟨le1, f1, inv1, g1⟩ := subV_spec hinv (hargs _ (by simp)) (hargs _ (by simp)) h1
     obtain ⟨le2, f2, inv2, g2⟩ := mulLV_spec inv1 (hx.mono le1) g1 h2
     obtain ⟨le3, f3, inv3, g3⟩ := addV_spec inv2 ((hargs _ (by simp)).mono (le1.trans le2)) g2 h
     exact ⟨(le1.trans le2).trans le3, (f1.trans f2).trans f3, inv3, g3⟩
   · exact (raise_ok.mp h).elim))

theorem callMeth_lc {s s' : St} {m : Meth} {x : LinComb} {args : List Val} {r : Val} (hinv : Inv s)
    (hP : PrimeP s) (hx : Good s x) (hargs : ∀ v ∈ args, GoodV s v)
    (h : callMeth m (.lc x) args s = .ok (r, s')) : s.le s' ∧ Frame s s' ∧ Inv s' ∧ GoodV s' r := by
  unfold callMeth at h
  simp only at h
  split at h
  · unit_arm (valL_spec hinv hx)
  · obtain ⟨n, s0, h0, h⟩ := bind_ok.mp h
    obtain rfl := argNat?_ok h0
    obtain ⟨bs, s1, h1, h⟩ := bind_ok.mp h
    obtain ⟨rfl, rfl⟩ := pure_ok' h
    obtain ⟨le1, f1, inv1, g1⟩ := toBits_spec hinv hx h1
    refine ⟨le1, f1, inv1, GoodV_list.mpr ?_⟩
    intro v hv
    obtain ⟨b, hb, rfl⟩ := List.mem_map.mp hv
    exact GoodV_lcb.mpr (g1 b hb)
  · obtain ⟨n, s0, h0, h⟩ := bind_ok.mp h
    obtain rfl := argNat?_ok h0
    call_arm (checkPositive_spec hinv hx)
  · obtain ⟨n, s0, h0, h⟩ := bind_ok.mp h
    obtain rfl := argNat?_ok h0
    unit_arm (assertPositive_spec hinv hx)
  · call_arm (checkZero_spec hinv hP hx)
  · call_arm (checkNonzero_spec hinv hP hx)
  · unit_arm (assertZero_spec hinv hx)
  · unit_arm (assertNonzero_spec hinv hP hx)
  · cmp_arm (ensurelc_spec hinv)
  · cmp_arm (ensurelc_spec hinv)
  · cmp_arm (ensurelc_spec hinv)
  · cmp_arm (ensurelc_spec hinv)
  · cmp_arm (ensurelc_spec hinv)
  · cmp_arm (ensurelc_spec hinv)
  · range_arm ensurelc_spec
  · ifelse_arm
  · exact (raise_ok.mp h).elim

theorem callMeth_lcb {s s' : St} {m : Meth} {x : LinComb} {args : List Val} {r : Val} (hinv : Inv s)
    (hP : PrimeP s) (hx : Good s x) (hargs : ∀ v ∈ args, GoodV s v)
    (h : callMeth m (.lcb x) args s = .ok (r, s')) : s.le s' ∧ Frame s s' ∧ Inv s' ∧ GoodV s' r := by
  unfold callMeth at h
  simp only at h
  split at h
  · unit_arm (valL_spec hinv hx)
  · split at h
    · call_arm (checkPositive_spec hinv hx)
    · exact (raise_ok.mp h).elim
  · split at h
    · unit_arm (assertPositive_spec hinv hx)
    · exact (raise_ok.mp h).elim
  · call_arm (checkZero_spec hinv hP hx)
  · unit_arm (assertZero_spec hinv hx)
  · unit_arm (assertNonzero_spec hinv hP hx)
  · cmp_arm (ensurebool_spec hinv)
  · cmp_arm (ensurebool_spec hinv)
  · cmp_arm (ensurebool_spec hinv)
  · cmp_arm (ensurebool_spec hinv)
  · cmp_arm (ensurebool_spec hinv)
  · cmp_arm (ensurebool_spec hinv)
  · ifelse_arm
  all_goals exact (raise_ok.mp h).elim

theorem callMeth_fxp {s s' : St} {m : Meth} {x : LinComb} {args : List Val} {r : Val} (hinv : Inv s)
    (hP : PrimeP s) (hx : Good s x) (hargs : ∀ v ∈ args, GoodV s v)
    (h : callMeth m (.fxp x) args s = .ok (r, s')) : s.le s' ∧ Frame s s' ∧ Inv s' ∧ GoodV s' r := by
  unfold callMeth at h
  simp only at h
  split at h
  · obtain ⟨v, s1, h1, h⟩ := bind_ok.mp h
    rw [getRes_bind] at h
    obtain ⟨le1, f1, inv1⟩ := valL_spec hinv hx h1
    split at h
    · exact (raise_ok.mp h).elim
    · obtain ⟨rfl, rfl⟩ := pure_ok' h
      exact ⟨le1, f1, inv1, GoodV_flt⟩
  · split at h
    · call_arm (checkPositive_spec hinv hx)
    · exact (raise_ok.mp h).elim
  · split at h
    · unit_arm (assertPositive_spec hinv hx)
    · exact (raise_ok.mp h).elim
  · call_arm (checkZero_spec hinv hP hx)
  · call_arm (checkNonzero_spec hinv hP hx)
  · unit_arm (assertZero_spec hinv hx)
  · unit_arm (assertNonzero_spec hinv hP hx)
  · cmp_arm (ensurefxp_spec hinv)
  · cmp_arm (ensurefxp_spec hinv)
  · cmp_arm (ensurefxp_spec hinv)
  · cmp_arm (ensurefxp_spec hinv)
  · cmp_arm (ensurefxp_spec hinv)
  · cmp_arm (ensurefxp_spec hinv)
  · range_arm ensurefxp_spec
  all_goals exact (raise_ok.mp h).elim

theorem callMeth_spec {s s' : St} {m : Meth} {self : Val} {args : List Val} {r : Val} (hinv : Inv s)
    (hP : PrimeP s) (hself : GoodV s self) (hargs : ∀ v ∈ args, GoodV s v)
    (h : callMeth m self args s = .ok (r, s')) : s.le s' ∧ Frame s s' ∧ Inv s' ∧ GoodV s' r := by
  cases self
  case lc x => exact callMeth_lc hinv hP (GoodV_lc.mp hself) hargs h
  case lcb x => exact callMeth_lcb hinv hP (GoodV_lcb.mp hself) hargs h
  case fxp x => exact callMeth_fxp hinv hP (GoodV_fxp.mp hself) hargs h
  case list xs =>
    unfold callMeth at h
    simp only at h
    split at h
    · obtain ⟨bs, s1, h1, h⟩ := bind_ok.mp h
      obtain ⟨rfl, rfl⟩ := pure_ok' h
      obtain ⟨rfl, g⟩ := unwrapBits_ok (GoodV_list.mp hself) h1
      exact ret_spec hinv (GoodV_ofFB (fromBits_good g))
    · exact (raise_ok.mp h).elim
  all_goals
    unfold callMeth at h
    exact (raise_ok.mp h).elim


/-! ## arrays -/
theorem foldl_add_good {s : St} : ∀ (bs : List LinComb) (acc : LinComb), Good s acc →
    (∀ b ∈ bs, Good s b) → Good s (bs.foldl (fun acc x => x.add acc) acc)
  | [], _, hacc, _ => hacc
  | b :: bs, acc, hacc, hbs => by
    simp only [List.foldl_cons]
    exact foldl_add_good bs _ ((hbs b (List.mem_cons_self ..)).add hacc)
      (fun b' hb' => hbs b' (List.mem_cons_of_mem _ hb'))

theorem sumBools_good {s : St} {bs : List LinComb} (hbs : ∀ b ∈ bs, Good s b) :
    ∀ r, sumBools bs = some r → Good s r := by
  intro r hr
  cases bs with
  | nil => cases hr
  | cons b bs =>
    simp only [sumBools, Option.some.injEq] at hr
    subst hr
    exact foldl_add_good bs _ ((hbs b (List.mem_cons_self ..)).addI 0)
      (fun b' hb' => hbs b' (List.mem_cons_of_mem _ hb'))

theorem oneHot_spec {item : LinComb} : ∀ (n i : Nat) {s s' : St} {rs : List LinComb}, Inv s → PrimeP s →
    Good s item → oneHot item i n s = .ok (rs, s') →
    s.le s' ∧ Frame s s' ∧ Inv s' ∧ ∀ r ∈ rs, Good s' r
  | 0, i, s, s', rs, hinv, _, _, h => by
    unfold oneHot at h
    obtain ⟨rfl, rfl⟩ := pure_ok' h
    exact ret_spec hinv (by simp)
  | n+1, i, s, s', rs, hinv, hP, hit, h => by
    unfold oneHot at h
    obtain ⟨c, s1, h1, h⟩ := bind_ok.mp h
    obtain ⟨rest, s2, h2, h⟩ := bind_ok.mp h
    obtain ⟨rfl, rfl⟩ := pure_ok' h
    obtain ⟨le1, f1, inv1, g1⟩ := eqLI_spec hinv hP hit h1
    obtain ⟨le2, f2, inv2, g2⟩ := oneHot_spec n (i+1) inv1 (hP.mono le1) (hit.mono le1) h2
    refine ⟨le1.trans le2, f1.trans f2, inv2, ?_⟩
    intro r hr
    rcases List.mem_cons.mp hr with rfl | hr
    · exact g1.mono le2
    · exact g2 r hr

theorem foldlM_addV_spec : ∀ (ps : List Val) {acc r : Val} {s s' : St}, Inv s → GoodV s acc →
    (∀ p ∈ ps, GoodV s p) → ps.foldlM (fun acc x => addV acc x) acc s = .ok (r, s') →
    s.le s' ∧ Frame s s' ∧ Inv s' ∧ GoodV s' r
  | [], acc, r, s, s', hinv, hacc, _, h => by
    rw [List.foldlM_nil] at h
    obtain ⟨rfl, rfl⟩ := pure_ok' h
    exact ret_spec hinv hacc
  | p :: ps, acc, r, s, s', hinv, hacc, hps, h => by
    rw [List.foldlM_cons] at h
    obtain ⟨a1, s1, h1, h⟩ := bind_ok.mp h
    obtain ⟨le1, f1, inv1, g1⟩ := addV_spec hinv hacc (hps p (List.mem_cons_self ..)) h1
    obtain ⟨le2, f2, inv2, g2⟩ := foldlM_addV_spec ps inv1 g1
      (fun p' hp' => (hps p' (List.mem_cons_of_mem _ hp')).mono le1) h
    exact ⟨le1.trans le2, f1.trans f2, inv2, g2⟩

theorem linComb_spec {s s' : St} {ixs : List LinComb} {arr : List Val} {r : Val} (hinv : Inv s)
    (hixs : ∀ c ∈ ixs, Good s c) (harr : ∀ v ∈ arr, GoodV s v) (h : linComb ixs arr s = .ok (r, s')) :
    s.le s' ∧ Frame s s' ∧ Inv s' ∧ GoodV s' r := by
  unfold linComb at h
  obtain ⟨prods, s1, h1, h⟩ := bind_ok.mp h
  obtain ⟨le1, f1, inv1, g1, -⟩ := mapM'_spec (fun (cv : LinComb × Val) => mulLV cv.1 cv.2)
    (fun s cv => Good s cv.1 ∧ GoodV s cv.2) (fun s r => GoodV s r)
    (fun s s' a hle _ ⟨x, y⟩ => ⟨x.mono hle, y.mono hle⟩) (fun s s' b hle _ x => x.mono hle)
    (fun s s' cv r hinv ⟨hc, hv⟩ h => mulLV_spec hinv hc hv h)
    _ s s1 prods hinv (by
      intro ⟨c, v⟩ hmem
      obtain ⟨hc, hv⟩ := List.of_mem_zip hmem
      exact ⟨hixs c hc, harr v hv⟩) h1
  split at h
  · obtain ⟨rfl, rfl⟩ := pure_ok' h
    exact ⟨le1, f1, inv1, GoodV_int⟩
  · rename_i p ps
    obtain ⟨first, s2, h2, h⟩ := bind_ok.mp h
    obtain ⟨le2, f2, inv2, g2⟩ := addV_spec inv1 GoodV_int (g1 p (List.mem_cons_self ..)) h2
    obtain ⟨le3, f3, inv3, g3⟩ := foldlM_addV_spec ps inv2 g2
      (fun p' hp' => (g1 p' (List.mem_cons_of_mem _ hp')).mono le2) h
    exact ⟨(le1.trans le2).trans le3, (f1.trans f2).trans f3, inv3, g3⟩

theorem arrayCheck_ok {s s' : St} {item : LinComb} {n : Nat} {u : Unit}
    (h : arrayCheck item n s = .ok (u, s')) : s = s' := by
  unfold arrayCheck at h
  split at h
  · cases h
  · simp only [Except.ok.injEq, Prod.mk.injEq] at h
    exact h.2

theorem arrayIxs_spec {s s' : St} {item : LinComb} {n : Nat} {rs : List LinComb} (hinv : Inv s)
    (hP : PrimeP s) (hit : Good s item) (h : arrayIxs item n s = .ok (rs, s')) :
    s.le s' ∧ Frame s s' ∧ Inv s' ∧ ∀ r ∈ rs, Good s' r := by
  unfold arrayIxs at h
  obtain ⟨u, s0, h0, h⟩ := bind_ok.mp h
  obtain rfl := arrayCheck_ok h0
  obtain ⟨ixs, s1, h1, h⟩ := bind_ok.mp h
  obtain ⟨le1, f1, inv1, g1⟩ := oneHot_spec _ _ hinv hP hit h1
  cases hsm : sumBools ixs with
  | none => simp only [hsm] at h; exact (raise_ok.mp h).elim
  | some sm =>
    simp only [hsm] at h
    obtain ⟨one, s2, h2, h⟩ := bind_ok.mp h
    obtain ⟨u3, s3, h3, h⟩ := bind_ok.mp h
    obtain ⟨rfl, rfl⟩ := pure_ok' h
    obtain ⟨le2, f2, inv2, g2⟩ := ensurelcI_spec inv1 h2
    obtain ⟨le3, f3, inv3⟩ := assertEq_spec inv2 ((sumBools_good g1 sm hsm).mono le2) g2 h3
    exact ⟨(le1.trans le2).trans le3, (f1.trans f2).trans f3, inv3,
      fun r hr => (g1 r hr).mono (le2.trans le3)⟩

theorem arrayGet_spec {s s' : St} {arr : List Val} {item r : Val} (hinv : Inv s) (hP : PrimeP s)
    (harr : ∀ v ∈ arr, GoodV s v) (hit : GoodV s item) (h : arrayGet arr item s = .ok (r, s')) :
    s.le s' ∧ Frame s s' ∧ Inv s' ∧ GoodV s' r := by
  unfold arrayGet at h
  split at h
  · rename_i i
    cases hk : pyIndex arr.length i with
    | none => simp only [hk] at h; exact (raise_ok.mp h).elim
    | some k =>
      simp only [hk] at h
      cases hv : arr[k]? with
      | none => simp only [hv] at h; exact (raise_ok.mp h).elim
      | some v =>
        simp only [hv] at h
        obtain ⟨rfl, rfl⟩ := pure_ok' h
        exact ret_spec hinv (harr _ (List.mem_of_getElem? hv))
  · obtain ⟨ixs, s1, h1, h⟩ := bind_ok.mp h
    obtain ⟨le1, f1, inv1, g1⟩ := arrayIxs_spec hinv hP (GoodV_lc.mp hit) h1
    obtain ⟨le2, f2, inv2, g2⟩ := linComb_spec inv1 g1 (fun v hv => (harr v hv).mono le1) h
    exact ⟨le1.trans le2, f1.trans f2, inv2, g2⟩
  · exact (raise_ok.mp h).elim

theorem arraySet_spec {s s' : St} {arr rs : List Val} {item v : Val} (hinv : Inv s) (hP : PrimeP s)
    (harr : ∀ v ∈ arr, GoodV s v) (hit : GoodV s item) (hv : GoodV s v)
    (h : arraySet arr item v s = .ok (rs, s')) :
    s.le s' ∧ Frame s s' ∧ Inv s' ∧ ∀ r ∈ rs, GoodV s' r := by
  unfold arraySet at h
  split at h
  · rename_i i
    cases hk : pyIndex arr.length i with
    | none => simp only [hk] at h; exact (raise_ok.mp h).elim
    | some k =>
      simp only [hk] at h
      obtain ⟨rfl, rfl⟩ := pure_ok' h
      refine ret_spec hinv ?_
      intro r hr
      rcases List.mem_or_eq_of_mem_set hr with hr | rfl
      · exact harr r hr
      · exact hv
  · obtain ⟨ixs, s1, h1, h⟩ := bind_ok.mp h
    obtain ⟨le1, f1, inv1, g1⟩ := arrayIxs_spec hinv hP (GoodV_lc.mp hit) h1
    obtain ⟨le2, f2, inv2, g2, -⟩ := mapM'_spec
      (fun (cv : LinComb × Val) => ifThenElse (.lcb cv.1) false v cv.2)
      (fun s cv => Good s cv.1 ∧ GoodV s cv.2 ∧ GoodV s v) (fun s r => GoodV s r)
      (fun s s' a hle _ ⟨x, y, z⟩ => ⟨x.mono hle, y.mono hle, z.mono hle⟩)
      (fun s s' b hle _ x => x.mono hle)
      (fun s s' cv r hinv ⟨hc, hcv, hv⟩ h => ifThenElse_spec hinv (GoodV_lcb.mpr hc) hv hcv h)
      _ s1 s' rs inv1 (by
        intro ⟨c, a⟩ hmem
        obtain ⟨hc, ha⟩ := List.of_mem_zip hmem
        exact ⟨g1 c hc, (harr a ha).mono le1, hv.mono le1⟩) h
    exact ⟨le1.trans le2, f1.trans f2, inv2, g2⟩
  · exact (raise_ok.mp h).elim

end Pysnark
