import PysnarkModel.Lemmas.Pratt
import Mathlib.FieldTheory.Finite.Basic
import Mathlib.Tactic.Ring
import Mathlib.Tactic.LinearCombination
/-!
# `fieldinverse`: `gmpy.invert(x, p)` in its pure-Python form is the inverse modulo a prime
-/
namespace Pysnark.Py
open Pysnark.Pratt

theorem natCast_eq_one_mod {p : ℕ} (hp : 1 < p) (a : ℕ) (h : (a : ZMod p) = 1) : a % p = 1 := by
  have h1 : (a : ZMod p) = ((1 : ℕ) : ZMod p) := by simpa using h
  rw [ZMod.natCast_eq_natCast_iff'] at h1
  rw [h1, Nat.mod_eq_of_lt hp]

/-- core statement on naturals: for prime `p > 2` and `0 < n < p`, `n * powMod n (p-2) p ≡ 1`. -/
theorem mul_powMod_inv {p : ℕ} (hp : p.Prime) (n : ℕ) (hn : n % p ≠ 0) :
    (n * powMod n (p - 2) p) % p = 1 := by
  have : Fact p.Prime := Fact.mk hp
  have h2 : 2 ≤ p := hp.two_le
  apply natCast_eq_one_mod hp.one_lt
  push_cast
  rw [powMod_cast]
  have hx : (n : ZMod p) ≠ 0 := by
    intro h; rw [ZMod.natCast_eq_zero_iff] at h; exact hn (Nat.mod_eq_zero_of_dvd h)
  have : (n : ZMod p) ^ (p - 1) = 1 := ZMod.pow_card_sub_one_eq_one hx
  calc (n : ZMod p) * (n : ZMod p) ^ (p - 2) = (n : ZMod p) ^ (p - 2 + 1) := by ring
    _ = (n : ZMod p) ^ (p - 1) := by congr 1; omega
    _ = 1 := this

theorem powMod_pos_of_inv {p : ℕ} (hp : p.Prime) (n : ℕ) (hn : n % p ≠ 0) : powMod n (p - 2) p ≠ 0 := by
  intro h
  have := mul_powMod_inv hp n hn
  rw [h] at this; simp at this

/-- **C13, inverse (existence and correctness)**: for a prime modulus and any integer argument
not divisible by it — negative and unreduced ones included — `invert` returns `y` with
`x * y ≡ 1 (mod p)` and `0 < y < p`. -/
theorem invert_correct {p : ℕ} (hp : p.Prime) (x : Int) (hx : x % (p : Int) ≠ 0) :
    ∃ y, invert x p = some y ∧ (x * y) % (p : Int) = 1 ∧ 0 < y ∧ y < p := by
  have hp0 : (0 : Int) < p := by exact_mod_cast hp.pos
  set n := (x % (p : Int)).toNat with hn
  have hnn : (n : Int) = x % (p : Int) := Int.toNat_of_nonneg (Int.emod_nonneg _ hp0.ne')
  have hnlt : n < p := by
    have := Int.emod_lt_of_pos x hp0
    omega
  have hnp : n % p ≠ 0 := by
    rw [Nat.mod_eq_of_lt hnlt]; intro h; apply hx; rw [← hnn, h]; rfl
  by_cases h2 : p = 2
  · subst h2
    have hx1 : x % 2 = 1 := by
      have := Int.emod_two_eq x
      rcases this with h | h
      · exact absurd h hx
      · exact h
    refine ⟨1, ?_, ?_, by decide, by decide⟩
    · unfold invert; simp [hx1]
    · simpa using hx1
  · have key := mul_powMod_inv hp n hnp
    have hpos := powMod_pos_of_inv hp n hnp
    have hlt := powMod_lt n (p - 2) p hp.one_lt
    refine ⟨(powMod n (p - 2) p : ℕ), ?_, ?_, ?_, ?_⟩
    · unfold invert
      have hne : ¬ ((p : Int) = 2) := by exact_mod_cast h2
      have e1 : ((p : Int) - 2).toNat = p - 2 := by have := hp.two_le; omega
      have e2 : ((p : Int)).toNat = p := Int.toNat_natCast p
      simp only [hne, if_false, ← hn, e1, e2]
      simp [hpos]
    · have h1 : ((n * powMod n (p - 2) p : ℕ) : Int) % (p : Int) = 1 := by exact_mod_cast key
      push_cast at h1
      rw [Int.mul_emod, ← hnn]
      rw [Int.mul_emod] at h1
      have e : ((n : Int) % p) = n := Int.emod_eq_of_lt (by omega) (by exact_mod_cast hnlt)
      rw [e] at h1
      exact h1
    · exact_mod_cast Nat.pos_of_ne_zero hpos
    · exact_mod_cast hlt

/-- **C13, inverse (failure exactly on multiples of p)**: `ZeroDivisionError` iff `p ∣ x`. -/
theorem invert_none {p : ℕ} (hp : p.Prime) (x : Int) (hx : x % (p : Int) = 0) : invert x p = none := by
  unfold invert
  by_cases h2 : p = 2
  · subst h2
    have hx' : x % 2 = 0 := by simpa using hx
    simp [hx']
  · have hne : ¬ ((p : Int) = 2) := by exact_mod_cast h2
    simp only [hne, if_false, hx]
    suffices h : powMod (0 : Int).toNat ((p : Int) - 2).toNat (p : Int).toNat = 0 by
      simp only [Int.toNat_zero, Int.toNat_natCast] at h; simp [h]
    · 
      have e1 : ((p : Int) - 2).toNat = p - 2 := by have := hp.two_le; omega
      have e2 : ((p : Int)).toNat = p := Int.toNat_natCast p
      rw [e1, e2]
      simp only [Int.toNat_zero]
      have : Fact p.Prime := Fact.mk hp
      have hc := powMod_cast 0 (p - 2) p
      have hlt := powMod_lt 0 (p - 2) p hp.one_lt
      have hpos : p - 2 ≠ 0 := by have := hp.two_le; omega
      simp only [Nat.cast_zero, zero_pow hpos] at hc
      rw [ZMod.natCast_eq_zero_iff] at hc
      exact Nat.eq_zero_of_dvd_of_lt hc hlt

end Pysnark.Py
