import PysnarkModel.Model.Val
import PysnarkModel.Lemmas.Monad
/-!
# The last step of `if_then_else`: a selection between two booleans is a boolean

`if_then_else` ends with `ret = falsev + cond * (truev - falsev)` and, when both branches are
`LinCombBool`s, `return LinCombBool(ret, False)` (`Model/Val.lean`, `iteTag`).  Facts shared by all
lemma families: what the step is for every pair of kinds, and the closed form of the scalar arm on
two booleans (one multiplication, then the constructor without its constraint).
-/
namespace Pysnark

/-- both branches of a selection are `LinCombBool`s -/
def bothLcb : Val → Val → Bool
  | .lcb _, .lcb _ => true
  | _, _ => false

theorem iteTag_bb (x y z : LinComb) :
    iteTag (.lcb x) (.lcb y) (.lc z) = (do let b ← mkBool z false; pure (Val.lcb b)) := rfl

/-- any other pair of kinds: the value is returned as it is -/
theorem iteTag_other {t f : Val} (ret : Val) (h : bothLcb t f = false) : iteTag t f ret = pure ret := by
  cases t <;> cases f <;> first | rfl | (simp [bothLcb] at h)

theorem bind_assoc' {α β γ : Type} (m : M α) (g : α → M β) (k : β → M γ) :
    (m >>= g) >>= k = m >>= fun a => g a >>= k := by
  funext s
  change M.bind (M.bind m g) k s = M.bind m (fun a => M.bind (g a) k) s
  unfold M.bind
  cases m s with
  | error e => rfl
  | ok r => rfl

/-- the arithmetic of the scalar arm on two booleans followed by the retagging step -/
def iteBB (cond x y : LinComb) : M Val := do
  let pr ← mulLL cond (x.add y.neg)
  let b ← mkBool (y.add pr) false
  pure (Val.lcb b)

/-- `falsev + cond * (truev - falsev)` for two `LinCombBool`s, then `LinCombBool(ret, False)` -/
theorem iteScalarArm_bb (cond x y : LinComb) :
    (do let d ← subV (.lcb x) (.lcb y)
        let prod ← mulLV cond d
        let ret ← addV (.lcb y) prod
        iteTag (.lcb x) (.lcb y) ret) = iteBB cond x y := by
  funext s
  show M.bind (M.bind (mulLL cond (x.add y.neg)) (fun r => M.pure (Val.lc r)))
      (fun prod => M.bind (addV (.lcb y) prod) (fun ret => iteTag (.lcb x) (.lcb y) ret)) s = _
  unfold iteBB
  change _ = M.bind (mulLL cond (x.add y.neg)) (fun pr => M.bind (mkBool (y.add pr) false) (fun b => M.pure (Val.lcb b))) s
  unfold M.bind
  cases mulLL cond (x.add y.neg) s with
  | error e => rfl
  | ok r => rfl

theorem iteAux_bb (cond x y : LinComb) (fuel : Nat) :
    iteAux cond (fuel + 1) (.lcb x) (.lcb y) = iteBB cond x y := by
  rw [← iteScalarArm_bb]
  rfl

/-- inversion of `iteBB`: the product wire, then the boolean test of the selected value -/
theorem iteBB_ok {cond x y : LinComb} {r : Val} {s s' : St} (h : iteBB cond x y s = .ok (r, s')) :
    ∃ pr s1, mulLL cond (x.add y.neg) s = .ok (pr, s1) ∧ mkBool (y.add pr) false s1 = .ok (y.add pr, s') ∧
      r = .lcb (y.add pr) ∧ ((y.add pr).value = 0 ∨ (y.add pr).value = 1) := by
  unfold iteBB at h
  obtain ⟨pr, s1, h1, h⟩ := bind_ok.mp h
  obtain ⟨b, s2, h2, h⟩ := bind_ok.mp h
  obtain ⟨rfl, rfl⟩ := pure_ok.mp h
  have hb : b = y.add pr ∧ ((y.add pr).value = 0 ∨ (y.add pr).value = 1) := by
    unfold mkBool at h2
    by_cases hv : isBooleanValue (y.add pr).value = true
    · simp only [hv, Bool.not_true, Bool.false_eq_true, if_false, Except.ok.injEq, Prod.mk.injEq] at h2
      refine ⟨h2.1.symm, ?_⟩
      simpa [isBooleanValue] using hv
    · simp [hv] at h2
  obtain ⟨rfl, hv⟩ := hb
  exact ⟨pr, s1, h1, h2, rfl, hv⟩

/-- 0/1 arithmetic of a selection -/
theorem bool_sel {c t f : Int} (hc : c = 0 ∨ c = 1) (ht : t = 0 ∨ t = 1) (hf : f = 0 ∨ f = 1) :
    f + c * (t + -f) = 0 ∨ f + c * (t + -f) = 1 := by
  rcases hc with rfl | rfl <;> rcases ht with rfl | rfl <;> rcases hf with rfl | rfl <;> simp

end Pysnark
