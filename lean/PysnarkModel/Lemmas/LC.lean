import PysnarkModel.Model.Basic
import Mathlib.Tactic.Ring
import Mathlib.Tactic.Linarith
import Mathlib.Data.List.Nodup
/-!
# Algebra of the dict-based linear combinations (`snarkjsbackend`/`zkinterface` class
`LinearCombination`): evaluation is a ring homomorphism on well-formed (duplicate-free) operands,
and well-formedness is preserved.
-/
namespace Pysnark.LC

theorem get?_none_of_not_mem (a : LC) (k : Wire) (h : k ∉ a.keys) : a.get? k = none := by
  induction a with
  | nil => simp [get?]
  | cons x xs ih =>
    obtain ⟨k', v⟩ := x
    simp only [keys, List.map_cons, List.mem_cons, not_or] at h
    simp only [get?]
    rw [if_neg (fun e => h.1 e.symm)]
    exact ih (by simpa [keys] using h.2)

/-- `k in a.lc` -/
def hasKey (a : LC) (k : Wire) : Bool := (a.get? k).isSome

theorem hasKey_cons (k' : Wire) (v : Int) (xs : LC) (k : Wire) :
    hasKey ((k', v) :: xs) k = (decide (k = k') || hasKey xs k) := by
  unfold hasKey
  simp only [get?]
  by_cases h : k' = k
  · subst h; simp
  · have h' : ¬ k = k' := fun e => h e.symm
    simp [h, h']

theorem hasKey_iff_mem (a : LC) (k : Wire) : hasKey a k = true ↔ k ∈ a.keys := by
  induction a with
  | nil => simp [hasKey, get?, keys]
  | cons x xs ih =>
    obtain ⟨k', v⟩ := x
    rw [hasKey_cons]
    simp only [Bool.or_eq_true, decide_eq_true_eq, ih, keys, List.map_cons, List.mem_cons]

theorem isNone_get?_iff (a : LC) (k : Wire) : (a.get? k).isNone = !hasKey a k := by
  unfold hasKey; cases a.get? k <;> rfl

theorem mem_keys_of_get? (a : LC) (k : Wire) (v : Int) (h : a.get? k = some v) : k ∈ a.keys := by
  by_contra hn
  rw [get?_none_of_not_mem a k hn] at h
  cases h

/-- coefficient of `k` (0 if absent) -/
def coef (a : LC) (k : Wire) : Int := (a.get? k).getD 0

theorem eval_scale (w : Wire → Int) (a : LC) (c : Int) : eval w (a.scale c) = c * eval w a := by
  induction a with
  | nil => simp [scale, eval]
  | cons x xs ih =>
    obtain ⟨k, v⟩ := x
    simp only [scale, List.map_cons, eval] at ih ⊢
    rw [ih]; ring

theorem eval_neg (w : Wire → Int) (a : LC) : eval w a.neg = - eval w a := by
  unfold neg; rw [eval_scale]; ring

theorem eval_append (w : Wire → Int) (a b : LC) : eval w (a ++ b) = eval w a + eval w b := by
  induction a with
  | nil => simp [eval]
  | cons x xs ih => obtain ⟨k, v⟩ := x; simp only [List.cons_append, eval, ih]; ring

/-- sum over the entries of `b` whose key satisfies `P` -/
def evalOn (w : Wire → Int) (P : Wire → Bool) (b : LC) : Int :=
  eval w (b.filter (fun kv => P kv.1))

theorem evalOn_split (w : Wire → Int) (P : Wire → Bool) (b : LC) :
    eval w b = evalOn w P b + evalOn w (fun k => !P k) b := by
  unfold evalOn
  induction b with
  | nil => simp [eval]
  | cons x xs ih =>
    obtain ⟨k, v⟩ := x
    simp only [List.filter_cons, eval]
    cases h : P k <;> simp [eval, ih] <;> ring

theorem evalOn_eq (w : Wire → Int) (k : Wire) : ∀ b : LC, b.WF →
    evalOn w (fun k' => decide (k' = k)) b = coef b k * w k := by
  intro b
  induction b with
  | nil => intro _; simp [evalOn, coef, get?, eval]
  | cons x xs ih =>
    obtain ⟨k', v⟩ := x
    intro hb
    have hxs : WF xs := by unfold WF keys at hb ⊢; simp at hb; exact hb.2
    have hx : k' ∉ keys xs := by unfold WF keys at hb; simp at hb; simpa [keys] using hb.1
    by_cases h : k' = k
    · subst h
      have h0 : evalOn w (fun k'' => decide (k'' = k')) xs = 0 := by
        rw [ih hxs]; simp [coef, get?_none_of_not_mem xs k' hx]
      unfold evalOn at h0 ⊢
      simp only [List.filter_cons, decide_true, if_true, eval, coef, get?, Option.getD_some]
      rw [h0]; ring
    · have := ih hxs
      unfold evalOn at this ⊢
      simp only [List.filter_cons, h, decide_false, coef, get?, if_false]
      simpa [coef] using this

theorem evalOn_or (w : Wire → Int) (P Q : Wire → Bool) (hd : ∀ k, ¬ (P k = true ∧ Q k = true)) (b : LC) :
    evalOn w (fun k => P k || Q k) b = evalOn w P b + evalOn w Q b := by
  unfold evalOn
  induction b with
  | nil => simp [eval]
  | cons y ys ih =>
    obtain ⟨k, v⟩ := y
    simp only [List.filter_cons]
    cases hp : P k <;> cases hq : Q k
    · simp [ih]
    · simp [eval, ih]; ring
    · simp [eval, ih]; ring
    · exact absurd ⟨hp, hq⟩ (hd k)

theorem evalOn_congr (w : Wire → Int) (P Q : Wire → Bool) (h : ∀ k, P k = Q k) (b : LC) :
    evalOn w P b = evalOn w Q b := by
  have : P = Q := funext h
  rw [this]

/-- Σ_{kv ∈ a} coef b kv.1 * w kv.1 = Σ over entries of b whose key occurs in a -/
theorem cross (w : Wire → Int) (b : LC) (hb : b.WF) : ∀ a : LC, a.WF →
    eval w (a.map (fun kv => (kv.1, coef b kv.1)))
      = evalOn w (fun k => hasKey a k) b := by
  intro a
  induction a with
  | nil => intro _; simp [evalOn, eval, hasKey, get?]
  | cons x xs ih =>
    obtain ⟨k, v⟩ := x
    intro ha
    have hxs : WF xs := by unfold WF keys at ha ⊢; simp at ha; exact ha.2
    have hx : k ∉ keys xs := by unfold WF keys at ha; simp at ha; simpa [keys] using ha.1
    simp only [List.map_cons, eval]
    rw [ih hxs, ← evalOn_eq w k b hb]
    rw [evalOn_congr w (fun k' => hasKey ((k, v) :: xs) k')
          (fun k' => decide (k' = k) || hasKey xs k')
          (by intro k'; exact hasKey_cons k v xs k') b]
    rw [evalOn_or]
    intro k' ⟨h1, h2⟩
    simp at h1 h2
    subst h1
    exact hx ((hasKey_iff_mem xs _).mp h2)

/-- **C13, addition**: evaluation of the dict-merge sum is the sum of the evaluations. -/
theorem eval_add (w : Wire → Int) (a b : LC) (ha : a.WF) (hb : b.WF) :
    eval w (add a b) = eval w a + eval w b := by
  have h1 : eval w (add a b)
      = eval w (a.map (fun kv => (kv.1, kv.2 + coef b kv.1)))
        + evalOn w (fun k => !hasKey a k) b := by
    unfold add evalOn
    rw [eval_append]
    congr 1
    · congr 1
      apply List.map_congr_left
      intro kv _
      simp only [coef]
      cases h : get? b kv.1 <;> simp
    · congr 1
      apply List.filter_congr
      intro kv _
      rw [isNone_get?_iff]
  have h2 : ∀ a' : LC, eval w (a'.map (fun kv => (kv.1, kv.2 + coef b kv.1)))
      = eval w a' + eval w (a'.map (fun kv => (kv.1, coef b kv.1))) := by
    intro a'
    induction a' with
    | nil => simp [eval]
    | cons x xs ih =>
      obtain ⟨k, v⟩ := x
      simp only [List.map_cons, eval]
      rw [ih]; ring
  rw [h1, h2 a, cross w b hb a ha, evalOn_split w (fun k => hasKey a k) b]
  ring

/-! ## well-formedness is preserved -/
theorem keys_scale (a : LC) (c : Int) : (a.scale c).keys = a.keys := by
  simp [scale, keys, List.map_map, Function.comp_def]

theorem WF_scale (a : LC) (c : Int) (h : a.WF) : (a.scale c).WF := by
  unfold WF; rw [keys_scale]; exact h

theorem WF_neg (a : LC) (h : a.WF) : a.neg.WF := WF_scale a _ h

theorem keys_add (a b : LC) : (add a b).keys = a.keys ++ keys (b.filter (fun kv => (a.get? kv.1).isNone)) := by
  unfold add keys
  rw [List.map_append, List.map_map]
  congr 1
  apply List.map_congr_left
  intro kv _
  simp only [Function.comp]
  cases get? b kv.1 <;> rfl

theorem WF_add (a b : LC) (ha : a.WF) (hb : b.WF) : (add a b).WF := by
  unfold WF
  rw [keys_add]
  rw [List.nodup_append]
  refine ⟨ha, ?_, ?_⟩
  · unfold WF keys at hb
    exact (hb.sublist (List.Sublist.map _ List.filter_sublist))
  · intro k hk k' hk' e
    subst e
    simp only [keys, List.mem_map, List.mem_filter] at hk'
    obtain ⟨kv, ⟨_, hnone⟩, rfl⟩ := hk'
    rw [isNone_get?_iff] at hnone
    simp only [Bool.not_eq_true', ] at hnone
    have := (hasKey_iff_mem a kv.1).mpr hk
    rw [hnone] at this; cases this

theorem WF_sub (a b : LC) (ha : a.WF) (hb : b.WF) : (sub a b).WF := WF_add a _ ha (WF_neg b hb)

theorem eval_sub (w : Wire → Int) (a b : LC) (ha : a.WF) (hb : b.WF) :
    eval w (sub a b) = eval w a - eval w b := by
  unfold sub; rw [eval_add w a _ ha (WF_neg b hb), eval_neg]; ring

theorem WF_zero : WF zero := by simp [WF, zero, keys]
theorem WF_one : WF one := by simp [WF, one, keys]
theorem WF_single (k : Wire) (c : Int) : WF [(k, c)] := by simp [WF, keys]
@[simp] theorem eval_zero (w : Wire → Int) : eval w zero = 0 := rfl
@[simp] theorem eval_single (w : Wire → Int) (k : Wire) (c : Int) : eval w [(k, c)] = c * w k := by simp [eval]

/-- keys of a sum come from the operands -/
theorem keys_add_subset (a b : LC) : ∀ k ∈ (add a b).keys, k ∈ a.keys ∨ k ∈ b.keys := by
  intro k hk
  rw [keys_add, List.mem_append] at hk
  rcases hk with h | h
  · exact Or.inl h
  · right
    simp only [keys, List.mem_map, List.mem_filter] at h ⊢
    obtain ⟨kv, ⟨hm, _⟩, rfl⟩ := h
    exact ⟨kv, hm, rfl⟩

end Pysnark.LC
