import PysnarkModel.Model.Basic
/-! # Inversion lemmas for the hand-written state+exception monad -/
namespace Pysnark

theorem bind_ok {α β} {m : M α} {f : α → M β} {s : St} {b : β} {s'' : St} :
    (m >>= f) s = .ok (b, s'') ↔ ∃ a s', m s = .ok (a, s') ∧ f a s' = .ok (b, s'') := by
  change M.bind m f s = _ ↔ _
  unfold M.bind
  cases h : m s with
  | error e => simp
  | ok r =>
    obtain ⟨a, s'⟩ := r
    simp only [Except.ok.injEq, Prod.mk.injEq]
    constructor
    · intro hf; exact ⟨a, s', ⟨rfl, rfl⟩, hf⟩
    · rintro ⟨a', s1, ⟨rfl, rfl⟩, hf⟩; exact hf

theorem pure_ok {α} {a b : α} {s s' : St} : (pure a : M α) s = .ok (b, s') ↔ b = a ∧ s' = s := by
  change M.pure a s = _ ↔ _
  unfold M.pure
  simp only [Except.ok.injEq, Prod.mk.injEq]
  constructor <;> (rintro ⟨rfl, rfl⟩; exact ⟨rfl, rfl⟩)

theorem getSt_ok {s t s' : St} : getSt s = .ok (t, s') ↔ t = s ∧ s' = s := by
  unfold getSt
  simp only [Except.ok.injEq, Prod.mk.injEq]
  constructor <;> (rintro ⟨rfl, rfl⟩; exact ⟨rfl, rfl⟩)

theorem liftE_ok {α} {e : Except Err α} {a : α} {s s' : St} :
    liftE e s = .ok (a, s') ↔ e = .ok a ∧ s' = s := by
  unfold liftE
  cases e with
  | error x => simp
  | ok b =>
    simp only [Except.ok.injEq, Prod.mk.injEq]
    constructor <;> (rintro ⟨rfl, rfl⟩; exact ⟨rfl, rfl⟩)

theorem raise_ok {α} {e : Err} {a : α} {s s' : St} : (raise e : M α) s = .ok (a, s') ↔ False := by
  unfold raise; simp

/-- `if c then m else raise e` completed: `c` held and `m` completed -/
theorem ite_else_raise_ok {α} {c : Prop} [Decidable c] {m : M α} {e : Err} {a : α} {s s' : St}
    (h : (if c then m else raise e) s = .ok (a, s')) : c ∧ m s = .ok (a, s') := by
  split at h
  case isTrue hc => exact ⟨hc, h⟩
  case isFalse => exact (raise_ok.mp h).elim

end Pysnark
