import PysnarkModel.Spec.Shape
import PysnarkModel.Lemmas.Monad
/-!
# Relational ("two runs") calculus for obliviousness (C06)

`Obl R m1 m2`: two runs of `m1`, `m2` from shape-equal states, both succeeding, end in shape-equal
states with `R`-related results.
-/
namespace Pysnark

/-- two runs from shape-equal states, both succeeding, end in shape-equal states with related results -/
def Obl {α} (R : α → α → Prop) (m1 m2 : M α) : Prop :=
  ∀ s1 s2 a1 a2 t1 t2, s1.shape = s2.shape → m1 s1 = .ok (a1, t1) → m2 s2 = .ok (a2, t2) → R a1 a2 ∧ t1.shape = t2.shape

@[reducible] def lcEq (a b : LinComb) : Prop := a.lc = b.lc

/-- relation on the optional result of `from_bits` -/
inductive OptRel {α : Type} (R : α → α → Prop) : Option α → Option α → Prop
  | none : OptRel R Option.none Option.none
  | some {a b} : R a b → OptRel R (Option.some a) (Option.some b)

/-- relation on the (quotient, remainder) pairs of `divmod` -/
structure PairRel (p q : LinComb × LinComb) : Prop where
  fst : lcEq p.1 q.1
  snd : lcEq p.2 q.2

theorem shape_eq_iff {s1 s2 : St} : s1.shape = s2.shape ↔
    s1.pub.length = s2.pub.length ∧ s1.priv.length = s2.priv.length ∧ s1.cons = s2.cons ∧
    s1.guard.map (·.lc) = s2.guard.map (·.lc) ∧ s1.one.lc = s2.one.lc ∧
    s1.bitlength = s2.bitlength ∧ s1.resolution = s2.resolution ∧ s1.p = s2.p := by
  simp only [St.shape, Shape.mk.injEq]

/-! ## structural rules -/
theorem Obl.bind {α β} {ra : α → α → Prop} {rb : β → β → Prop} {m1 m2 : M α} {f1 f2 : α → M β}
    (hm : Obl ra m1 m2) (hf : ∀ a1 a2, ra a1 a2 → Obl rb (f1 a1) (f2 a2)) : Obl rb (m1 >>= f1) (m2 >>= f2) := by
  intro s1 s2 b1 b2 t1 t2 hs h1 h2
  obtain ⟨a1, u1, hm1, hf1⟩ := bind_ok.mp h1
  obtain ⟨a2, u2, hm2, hf2⟩ := bind_ok.mp h2
  obtain ⟨hra, hu⟩ := hm s1 s2 a1 a2 u1 u2 hs hm1 hm2
  exact hf a1 a2 hra u1 u2 b1 b2 t1 t2 hu hf1 hf2

theorem Obl.apply {α} {R : α → α → Prop} {m1 m2 : M α} (h : Obl R m1 m2) {s1 s2 : St} {a1 a2 : α} {t1 t2 : St}
    (hs : s1.shape = s2.shape) (h1 : m1 s1 = .ok (a1, t1)) (h2 : m2 s2 = .ok (a2, t2)) :
    R a1 a2 ∧ t1.shape = t2.shape := h s1 s2 a1 a2 t1 t2 hs h1 h2

theorem Obl.pure {α} {R : α → α → Prop} {a1 a2 : α} (h : R a1 a2) : Obl R (pure a1) (pure a2) := by
  intro s1 s2 b1 b2 t1 t2 hs h1 h2
  obtain ⟨rfl, rfl⟩ := pure_ok.mp h1
  obtain ⟨rfl, rfl⟩ := pure_ok.mp h2
  exact ⟨h, hs⟩

theorem Obl.ok {α} {R : α → α → Prop} {a1 a2 : α} (h : R a1 a2) :
    Obl R (fun s => .ok (a1, s)) (fun s => .ok (a2, s)) := Obl.pure h

theorem Obl.mono {α} {R R' : α → α → Prop} {m1 m2 : M α} (h : Obl R m1 m2)
    (hR : ∀ a b, R a b → R' a b) : Obl R' m1 m2 := by
  intro s1 s2 b1 b2 t1 t2 hs h1 h2
  obtain ⟨hr, ht⟩ := h s1 s2 b1 b2 t1 t2 hs h1 h2
  exact ⟨hR _ _ hr, ht⟩

theorem Obl.raiseL {α} {R : α → α → Prop} {e : Err} {m : M α} : Obl R (raise e) m := by
  intro s1 s2 b1 b2 t1 t2 _ h1 _
  exact (raise_ok.mp h1).elim

theorem Obl.raiseR {α} {R : α → α → Prop} {e : Err} {m : M α} : Obl R m (raise e) := by
  intro s1 s2 b1 b2 t1 t2 _ _ h2
  exact (raise_ok.mp h2).elim

theorem Obl.tyErrL {α} {R : α → α → Prop} {m : M α} : Obl R tyErr m := Obl.raiseL
theorem Obl.tyErrR {α} {R : α → α → Prop} {m : M α} : Obl R m tyErr := Obl.raiseR

theorem Obl.getSt : Obl (fun s1 s2 => s1.shape = s2.shape) getSt getSt := by
  intro s1 s2 b1 b2 t1 t2 hs h1 h2
  obtain ⟨rfl, rfl⟩ := getSt_ok.mp h1
  obtain ⟨rfl, rfl⟩ := getSt_ok.mp h2
  exact ⟨hs, hs⟩

/-- `liftE` of two hint computations: whatever relation holds between two successful hints -/
theorem Obl.liftE {α} {R : α → α → Prop} {e1 e2 : Except Err α}
    (h : ∀ a1 a2, e1 = .ok a1 → e2 = .ok a2 → R a1 a2) : Obl R (liftE e1) (liftE e2) := by
  intro s1 s2 b1 b2 t1 t2 hs h1 h2
  obtain ⟨he1, rfl⟩ := liftE_ok.mp h1
  obtain ⟨he2, rfl⟩ := liftE_ok.mp h2
  exact ⟨h _ _ he1 he2, hs⟩

theorem Obl.liftE_true {α} {e1 e2 : Except Err α} : Obl (fun _ _ => True) (Pysnark.liftE e1) (Pysnark.liftE e2) :=
  Obl.liftE (fun _ _ _ _ => trivial)

theorem Obl.modifySt {f1 f2 : St → St} (h : ∀ s1 s2, s1.shape = s2.shape → (f1 s1).shape = (f2 s2).shape) :
    Obl (fun _ _ => True) (modifySt f1) (modifySt f2) := by
  intro s1 s2 b1 b2 t1 t2 hs h1 h2
  simp only [Pysnark.modifySt, Except.ok.injEq, Prod.mk.injEq] at h1 h2
  obtain ⟨_, rfl⟩ := h1
  obtain ⟨_, rfl⟩ := h2
  exact ⟨trivial, h _ _ hs⟩

/-- functions of the form `fun s => if c s then .error e else body s` -/
theorem Obl.iteErr {α} {R : α → α → Prop} {c1 c2 : St → Prop} [∀ s, Decidable (c1 s)] [∀ s, Decidable (c2 s)]
    {e1 e2 : Err} {m1 m2 : M α} (h : Obl R m1 m2) :
    Obl R (fun s => if c1 s then .error e1 else m1 s) (fun s => if c2 s then .error e2 else m2 s) := by
  intro s1 s2 b1 b2 t1 t2 hs h1 h2
  simp only at h1 h2
  split at h1
  · cases h1
  split at h2
  · cases h2
  exact h s1 s2 b1 b2 t1 t2 hs h1 h2

/-- a computation that reads the state first -/
theorem Obl.readSt {α} {R : α → α → Prop} {f1 f2 : St → M α}
    (h : ∀ s1 s2, s1.shape = s2.shape → Obl R (f1 s1) (f2 s2)) :
    Obl R (fun s => f1 s s) (fun s => f2 s s) := by
  intro s1 s2 b1 b2 t1 t2 hs h1 h2
  exact h s1 s2 hs s1 s2 b1 b2 t1 t2 hs h1 h2

/-- `if c then a else b` with the same (plain) condition in both runs -/
theorem Obl.ite {α} {R : α → α → Prop} {c : Prop} [Decidable c] {a1 a2 b1 b2 : M α}
    (ha : Obl R a1 a2) (hb : Obl R b1 b2) : Obl R (if c then a1 else b1) (if c then a2 else b2) := by
  split
  · exact ha
  · exact hb

/-- a value-dependent `if` whose "then" arms raise -/
theorem Obl.iteRaise {α} {R : α → α → Prop} {c1 c2 : Prop} [Decidable c1] [Decidable c2] {e1 e2 : Err}
    {b1 b2 : M α} (hb : Obl R b1 b2) : Obl R (if c1 then raise e1 else b1) (if c2 then raise e2 else b2) := by
  split
  · exact Obl.raiseL
  split
  · exact Obl.raiseR
  exact hb

/-- `if c then m else raise e` with value-dependent `c`: when both runs complete, both took `m` -/
theorem Obl.iteElseRaise {α} {R : α → α → Prop} {c1 c2 : Prop} [Decidable c1] [Decidable c2] {e1 e2 : Err}
    {b1 b2 : M α} (hb : Obl R b1 b2) : Obl R (if c1 then b1 else raise e1) (if c2 then b2 else raise e2) := by
  split
  · split
    · exact hb
    · exact Obl.raiseR
  · exact Obl.raiseL

/-! ## `Forall2` -/
namespace Forall2
variable {α β : Type}

theorem length_eq {R : α → β → Prop} {l1 : List α} {l2 : List β} (h : Forall2 R l1 l2) : l1.length = l2.length := by
  induction h with
  | nil => rfl
  | cons _ _ ih => simp [ih]

theorem mono {R Q : α → β → Prop} (hRQ : ∀ a b, R a b → Q a b) {l1 : List α} {l2 : List β}
    (h : Forall2 R l1 l2) : Forall2 Q l1 l2 := by
  induction h with
  | nil => exact .nil
  | cons h _ ih => exact .cons (hRQ _ _ h) ih

theorem of_length_eq : ∀ {l1 : List α} {l2 : List β}, l1.length = l2.length → Forall2 (fun _ _ => True) l1 l2
  | [], [], _ => .nil
  | [], _ :: _, h => by simp at h
  | _ :: _, [], h => by simp at h
  | _ :: xs, _ :: ys, h => .cons trivial (of_length_eq (by simpa using h))

theorem zip {γ δ : Type} {R : α → β → Prop} {Q : γ → δ → Prop} {l1 : List α} {l2 : List β} (h : Forall2 R l1 l2) :
    ∀ {m1 : List γ} {m2 : List δ}, Forall2 Q m1 m2 →
      Forall2 (fun p q => R p.1 q.1 ∧ Q p.2 q.2) (l1.zip m1) (l2.zip m2) := by
  induction h with
  | nil => intro m1 m2 _; simp only [List.zip_nil_left]; exact .nil
  | cons hab _ ih =>
    intro m1 m2 hm
    cases hm with
    | nil => simp only [List.zip_nil_right]; exact .nil
    | cons hcd hm' => simp only [List.zip_cons_cons]; exact .cons ⟨hab, hcd⟩ (ih hm')

theorem drop {R : α → β → Prop} {l1 : List α} {l2 : List β} (h : Forall2 R l1 l2) (k : Nat) :
    Forall2 R (l1.drop k) (l2.drop k) := by
  induction h generalizing k with
  | nil => simp only [List.drop_nil]; exact .nil
  | cons hab ht ih =>
    cases k with
    | zero => simp only [List.drop_zero]; exact .cons hab ht
    | succ k => simp only [List.drop_succ_cons]; exact ih k

theorem map {γ δ : Type} {R : α → β → Prop} {Q : γ → δ → Prop} {f : α → γ} {g : β → δ}
    (hfg : ∀ a b, R a b → Q (f a) (g b)) {l1 : List α} {l2 : List β} (h : Forall2 R l1 l2) :
    Forall2 Q (l1.map f) (l2.map g) := by
  induction h with
  | nil => exact .nil
  | cons hab _ ih => exact .cons (hfg _ _ hab) ih

theorem set {R : α → β → Prop} {l1 : List α} {l2 : List β} (h : Forall2 R l1 l2) (k : Nat) {a : α} {b : β}
    (hab : R a b) : Forall2 R (l1.set k a) (l2.set k b) := by
  induction h generalizing k with
  | nil => exact .nil
  | cons hxy ht ih =>
    cases k with
    | zero => exact .cons hab ht
    | succ k => exact .cons hxy (ih k)

theorem getElem? {R : α → β → Prop} {l1 : List α} {l2 : List β} (h : Forall2 R l1 l2) (k : Nat) {a : α} {b : β}
    (h1 : l1[k]? = some a) (h2 : l2[k]? = some b) : R a b := by
  induction h generalizing k with
  | nil => simp at h1
  | cons hxy ht ih =>
    cases k with
    | zero =>
      simp only [List.getElem?_cons_zero, Option.some.injEq] at h1 h2
      subst h1; subst h2; exact hxy
    | succ k =>
      simp only [List.getElem?_cons_succ] at h1 h2
      exact ih k h1 h2

theorem append {R : α → β → Prop} {l1 : List α} {l2 : List β} (h : Forall2 R l1 l2) {m1 : List α} {m2 : List β}
    (hm : Forall2 R m1 m2) : Forall2 R (l1 ++ m1) (l2 ++ m2) := by
  induction h with
  | nil => exact hm
  | cons hxy _ ih => exact .cons hxy ih

end Forall2

/-- `mapM'` over two lists of equal length with pointwise related elements -/
theorem mapM'_obl {α β : Type} {R : α → α → Prop} {Q : β → β → Prop} {f1 f2 : α → M β}
    {l1 l2 : List α} (hl : Forall2 R l1 l2) (hf : ∀ a1 a2, R a1 a2 → Obl Q (f1 a1) (f2 a2)) :
    Obl (Forall2 Q) (mapM' f1 l1) (mapM' f2 l2) := by
  induction hl with
  | nil => exact Obl.pure .nil
  | cons hab _ ih =>
    simp only [mapM']
    refine Obl.bind (hf _ _ hab) (fun y1 y2 hy => ?_)
    refine Obl.bind ih (fun ys1 ys2 hys => ?_)
    exact Obl.pure (.cons hy hys)

/-! ## `lcEq` is a congruence for the `LinComb` arithmetic -/
theorem lcEq_add {a b c d : LinComb} (h1 : lcEq a b) (h2 : lcEq c d) : lcEq (a.add c) (b.add d) := by
  simp only [lcEq, LinComb.add, h1, h2]
theorem lcEq_neg {a b : LinComb} (h1 : lcEq a b) : lcEq a.neg b.neg := by
  simp only [lcEq, LinComb.neg, h1]
theorem lcEq_sub {a b c d : LinComb} (h1 : lcEq a b) (h2 : lcEq c d) : lcEq (a.sub c) (b.sub d) :=
  lcEq_add h1 (lcEq_neg h2)
theorem lcEq_mulI {a b : LinComb} (h1 : lcEq a b) (c : Int) : lcEq (a.mulI c) (b.mulI c) := by
  simp only [lcEq, LinComb.mulI, h1]
theorem lcEq_const (c : Int) : lcEq (LinComb.const c) (LinComb.const c) := rfl
theorem lcEq_addI {a b : LinComb} (h1 : lcEq a b) (c : Int) : lcEq (a.addI c) (b.addI c) :=
  lcEq_add h1 rfl
theorem lcEq_subI {a b : LinComb} (h1 : lcEq a b) (c : Int) : lcEq (a.subI c) (b.subI c) :=
  lcEq_addI h1 _
theorem lcEq_rsubI {a b : LinComb} (h1 : lcEq a b) (c : Int) : lcEq (a.rsubI c) (b.rsubI c) :=
  lcEq_addI (lcEq_neg h1) _
theorem lcEq_reduceValue {a b : LinComb} (h1 : lcEq a b) (p q : Int) : lcEq (reduceValue a p) (reduceValue b q) := h1
theorem lcEq_one_of_shape {s1 s2 : St} (h : s1.shape = s2.shape) : lcEq s1.one s2.one :=
  (shape_eq_iff.mp h).2.2.2.2.1

/-! ## tactics -/

/-- side goals `lcEq A B` where `A`, `B` are built by the `LinComb` arithmetic from related operands -/
macro "lceq" : tactic => `(tactic| (
  simp only [lcEq, LinComb.add, LinComb.sub, LinComb.neg, LinComb.mulI, LinComb.addI, LinComb.subI,
    LinComb.rsubI, LinComb.const, LinComb.zero, oneSafe, *]))

/-- extensible: one alternative `with_reducible apply foo_obl` per proved lemma -/
syntax "obl_rule" : tactic
macro_rules | `(tactic| obl_rule) => `(tactic| fail "no obl rule applies")

/-- extensible: side conditions -/
syntax "obl_side_rule" : tactic
macro_rules | `(tactic| obl_side_rule) => `(tactic| fail "no side rule applies")
macro_rules | `(tactic| obl_side_rule) => `(tactic| first
  | with_reducible apply lcEq_add | with_reducible apply lcEq_sub | with_reducible apply lcEq_neg
  | with_reducible apply lcEq_mulI | with_reducible apply lcEq_addI | with_reducible apply lcEq_subI
  | with_reducible apply lcEq_rsubI | with_reducible apply lcEq_reduceValue
  | with_reducible apply lcEq_one_of_shape)

macro "obl_side" : tactic => `(tactic| (
  (fail_if_success (show Obl _ _ _))
  first
    | assumption
    | exact trivial
    | with_reducible rfl
    | exact ValRel.none
    | exact ValRel.int _
    | exact ValRel.flt _ _
    | refine ValRel.lc ?_
    | refine ValRel.lcb ?_
    | refine ValRel.fxp ?_
    | refine ValRel.list ?_
    | refine ValRel.tuple ?_
    | exact Forall2.nil
    | refine Forall2.cons ?_ ?_
    | exact OptRel.none
    | refine OptRel.some ?_
    | exact PairRel.fst (by assumption)
    | exact PairRel.snd (by assumption)
    | refine PairRel.mk ?_ ?_
    | obl_side_rule
    | lceq))

macro "obl_step" : tactic => `(tactic| first
  | exact Obl.raiseL
  | exact Obl.raiseR
  | exact Obl.tyErrL
  | exact Obl.tyErrR
  | ((fail_if_success (show Obl _ _ _)); intro _ _ h;
      first | subst h | (have h' : OptRel _ _ _ := h; clear h; cases h' <;> dsimp only) | skip)
  | dsimp only
  | (show Obl _ _ _; assumption)
  | obl_rule
  | refine Obl.pure ?_
  | refine Obl.ok ?_
  | apply Obl.bind
  | refine Obl.iteErr ?_
  | refine Obl.iteRaise ?_
  | refine Obl.ite ?_ ?_
  | obl_side)

macro "obl" : tactic => `(tactic| repeat' obl_step)

macro_rules | `(tactic| obl_rule) => `(tactic| exact Obl.getSt)
macro_rules | `(tactic| obl_rule) => `(tactic| exact Obl.liftE_true)

end Pysnark
