import PysnarkModel.Lemmas.Obl
/-!
# Obliviousness of the tracer primitives and of the `LinComb` gadgets
-/
namespace Pysnark

/-! ## primitives -/
theorem privVal_obl (v1 v2 : Int) : Obl lcEq (privVal v1) (privVal v2) := by
  intro s1 s2 a1 a2 t1 t2 hs h1 h2
  obtain ⟨hpub, hpriv, hcons, hguard, hone, hbl, hres, hp⟩ := shape_eq_iff.mp hs
  simp only [privVal, Except.ok.injEq, Prod.mk.injEq] at h1 h2
  obtain ⟨rfl, rfl⟩ := h1
  obtain ⟨rfl, rfl⟩ := h2
  refine ⟨by simp only [lcEq, hpriv], ?_⟩
  simp only [shape_eq_iff, List.length_append, hpriv]
  exact ⟨hpub, rfl, hcons, hguard, hone, hbl, hres, hp⟩
macro_rules | `(tactic| obl_rule) => `(tactic| with_reducible apply privVal_obl)

theorem pubVal_obl (v1 v2 : Int) : Obl lcEq (pubVal v1) (pubVal v2) := by
  intro s1 s2 a1 a2 t1 t2 hs h1 h2
  obtain ⟨hpub, hpriv, hcons, hguard, hone, hbl, hres, hp⟩ := shape_eq_iff.mp hs
  simp only [pubVal, Except.ok.injEq, Prod.mk.injEq] at h1 h2
  obtain ⟨rfl, rfl⟩ := h1
  obtain ⟨rfl, rfl⟩ := h2
  refine ⟨by simp only [lcEq, hpub], ?_⟩
  simp only [shape_eq_iff, List.length_append, hpub]
  exact ⟨rfl, hpriv, hcons, hguard, hone, hbl, hres, hp⟩
macro_rules | `(tactic| obl_rule) => `(tactic| with_reducible apply pubVal_obl)

theorem addConstraintUnsafe_obl {v1 v2 w1 w2 y1 y2 : LinComb} (hv : lcEq v1 v2) (hw : lcEq w1 w2) (hy : lcEq y1 y2) :
    Obl (fun _ _ => True) (addConstraintUnsafe v1 w1 y1) (addConstraintUnsafe v2 w2 y2) := by
  intro s1 s2 a1 a2 t1 t2 hs h1 h2
  obtain ⟨hpub, hpriv, hcons, hguard, hone, hbl, hres, hp⟩ := shape_eq_iff.mp hs
  simp only [addConstraintUnsafe, Except.ok.injEq, Prod.mk.injEq] at h1 h2
  obtain ⟨_, rfl⟩ := h1
  obtain ⟨_, rfl⟩ := h2
  refine ⟨trivial, ?_⟩
  simp only [shape_eq_iff, hcons, hv, hw, hy]
  exact ⟨hpub, hpriv, trivial, hguard, hone, hbl, hres, hp⟩
macro_rules | `(tactic| obl_rule) => `(tactic| with_reducible apply addConstraintUnsafe_obl)

theorem guard_cases {s1 s2 : St} (hs : s1.shape = s2.shape) :
    (s1.guard = none ∧ s2.guard = none) ∨ ∃ g1 g2, s1.guard = some g1 ∧ s2.guard = some g2 ∧ lcEq g1 g2 := by
  obtain ⟨_, _, _, hguard, _⟩ := shape_eq_iff.mp hs
  cases h1 : s1.guard <;> cases h2 : s2.guard <;> simp only [h1, h2, Option.map_none, Option.map_some, Option.some.injEq, reduceCtorEq] at hguard
  · exact Or.inl ⟨rfl, rfl⟩
  · exact Or.inr ⟨_, _, rfl, rfl, hguard⟩

theorem addConstraint_obl {v1 v2 w1 w2 y1 y2 : LinComb} (hv : lcEq v1 v2) (hw : lcEq w1 w2) (hy : lcEq y1 y2)
    (c1 c2 : Bool) : Obl (fun _ _ => True) (addConstraint v1 w1 y1 c1) (addConstraint v2 w2 y2 c2) := by
  intro s1 s2 a1 a2 t1 t2 hs h1 h2
  unfold addConstraint at h1 h2
  rcases guard_cases hs with ⟨g1, g2⟩ | ⟨g1, g2, hg1, hg2, hg⟩
  · simp only [g1, g2] at h1 h2
    split at h1
    · cases h1
    split at h2
    · cases h2
    exact addConstraintUnsafe_obl hv hw hy s1 s2 a1 a2 t1 t2 hs h1 h2
  · simp only [hg1, hg2] at h1 h2
    refine Obl.apply (R := fun _ _ => True) ?_ hs h1 h2
    obl
macro_rules | `(tactic| obl_rule) => `(tactic| with_reducible apply addConstraint_obl)

set_option hygiene false in
macro "obl_intro" : tactic => `(tactic| intro s1 s2 a1 a2 t1 t2 hs h1 h2)

theorem ensurelcI_obl (c : Int) : Obl lcEq (ensurelcI c) (ensurelcI c) := by
  obl_intro
  simp only [ensurelcI, Except.ok.injEq, Prod.mk.injEq] at h1 h2
  obtain ⟨rfl, rfl⟩ := h1
  obtain ⟨rfl, rfl⟩ := h2
  exact ⟨lcEq_mulI (lcEq_one_of_shape hs) c, hs⟩
macro_rules | `(tactic| obl_rule) => `(tactic| with_reducible apply ensurelcI_obl)

theorem fieldInverse_obl (x1 x2 : Int) : Obl (fun _ _ => True) (fieldInverse x1) (fieldInverse x2) := by
  obl_intro
  unfold fieldInverse at h1 h2
  split at h1 <;> split at h2 <;> simp only [Except.ok.injEq, Prod.mk.injEq, reduceCtorEq] at h1 h2
  obtain ⟨_, rfl⟩ := h1; obtain ⟨_, rfl⟩ := h2
  exact ⟨trivial, hs⟩
macro_rules | `(tactic| obl_rule) => `(tactic| with_reducible apply fieldInverse_obl)

/-- related `add_guard` backups: same guard wire expression, same `ONE` wire expression
(NOT the same error-suppression flag) -/
def GuardBakRel (b1 b2 : GuardBak) : Prop :=
  b1.guard.map (·.lc) = b2.guard.map (·.lc) ∧ lcEq b1.one b2.one

theorem restoreGuard_obl {b1 b2 : GuardBak} (hb : GuardBakRel b1 b2) :
    Obl (fun _ _ => True) (restoreGuard b1) (restoreGuard b2) := by
  obl_intro
  obtain ⟨hpub, hpriv, hcons, hguard, hone, hbl, hres, hp⟩ := shape_eq_iff.mp hs
  simp only [restoreGuard, Except.ok.injEq, Prod.mk.injEq] at h1 h2
  obtain ⟨_, rfl⟩ := h1; obtain ⟨_, rfl⟩ := h2
  exact ⟨trivial, shape_eq_iff.mpr ⟨hpub, hpriv, hcons, hb.1, hb.2, hbl, hres, hp⟩⟩

/-! ## booleans -/
theorem mkBool_obl {x1 x2 : LinComb} (hx : lcEq x1 x2) (c : Bool) : Obl lcEq (mkBool x1 c) (mkBool x2 c) := by
  obl_intro
  unfold mkBool at h1 h2
  split at h1
  · cases h1
  split at h2
  · cases h2
  cases c
  · simp only [Bool.false_eq_true, if_false, Except.ok.injEq, Prod.mk.injEq] at h1 h2
    obtain ⟨rfl, rfl⟩ := h1; obtain ⟨rfl, rfl⟩ := h2
    exact ⟨hx, hs⟩
  · simp only [if_true] at h1 h2
    refine Obl.apply (R := lcEq) ?_ hs h1 h2
    obl
macro_rules | `(tactic| obl_rule) => `(tactic| with_reducible apply mkBool_obl)

theorem privValBool_obl (v1 v2 : Int) : Obl lcEq (privValBool v1) (privValBool v2) := by
  unfold privValBool; obl
macro_rules | `(tactic| obl_rule) => `(tactic| with_reducible apply privValBool_obl)

theorem pubValBool_obl (v1 v2 : Int) : Obl lcEq (pubValBool v1) (pubValBool v2) := by
  unfold pubValBool; obl
macro_rules | `(tactic| obl_rule) => `(tactic| with_reducible apply pubValBool_obl)

/-! ## `from_bits` (pure) -/
theorem fromBitsAux_lceq {bs1 bs2 : List LinComb} (h : Forall2 lcEq bs1 bs2) :
    ∀ (i : Nat) (acc1 acc2 : LinComb), lcEq acc1 acc2 → lcEq (fromBitsAux bs1 i acc1) (fromBitsAux bs2 i acc2) := by
  induction h with
  | nil => intro i a1 a2 ha; exact ha
  | cons hab _ ih =>
    intro i a1 a2 ha
    simp only [fromBitsAux]
    exact ih _ _ _ (lcEq_add ha (lcEq_mulI hab _))

theorem fromBits_rel {bs1 bs2 : List LinComb} (h : Forall2 lcEq bs1 bs2) :
    OptRel lcEq (fromBits bs1) (fromBits bs2) := by
  cases h with
  | nil => exact .none
  | cons hab ht => exact .some (fromBitsAux_lceq ht _ _ _ (lcEq_addI (lcEq_mulI hab _) _))

theorem lcEq_subFB {x1 x2 : LinComb} {o1 o2 : Option LinComb} (hx : lcEq x1 x2) (ho : OptRel lcEq o1 o2) :
    lcEq (x1.subFB o1) (x2.subFB o2) := by
  cases ho with
  | none => exact lcEq_subI hx _
  | some h => exact lcEq_sub hx h

theorem lcEq_addFB {x1 x2 : LinComb} {o1 o2 : Option LinComb} (hx : lcEq x1 x2) (ho : OptRel lcEq o1 o2) :
    lcEq (x1.addFB o1) (x2.addFB o2) := by
  cases ho with
  | none => exact lcEq_addI hx _
  | some h => exact lcEq_add hx h

macro_rules | `(tactic| obl_side_rule) => `(tactic| first
  | with_reducible apply lcEq_subFB | with_reducible apply lcEq_addFB | with_reducible apply fromBits_rel)

/-! ## assertions and bit decomposition -/
theorem assertZero_obl {x1 x2 : LinComb} (hx : lcEq x1 x2) : Obl (fun _ _ => True) (assertZero x1) (assertZero x2) := by
  unfold assertZero; obl
macro_rules | `(tactic| obl_rule) => `(tactic| with_reducible apply assertZero_obl)

theorem bitsOf_length (v : Int) (n : Nat) : (Py.bitsOf v n).length = n := by
  simp only [Py.bitsOf, List.length_map, List.length_range]

/-- `[PrivValBool(b) for b in hints]` for two hint lists of equal length -/
theorem mapM'_privValBool_obl {l1 l2 : List Int} (h : l1.length = l2.length) :
    Obl (Forall2 lcEq) (mapM' privValBool l1) (mapM' privValBool l2) :=
  mapM'_obl (Forall2.of_length_eq h) (fun v1 v2 _ => privValBool_obl v1 v2)

theorem toBits_obl {x1 x2 : LinComb} (hx : lcEq x1 x2) (bits : Option Nat) :
    Obl (Forall2 lcEq) (toBits x1 bits) (toBits x2 bits) := by
  obl_intro
  have hbl := (shape_eq_iff.mp hs).2.2.2.2.2.1
  unfold toBits at h1 h2
  simp only [hbl] at h1 h2
  split at h1
  · cases h1
  split at h2
  · cases h2
  refine Obl.apply (R := Forall2 lcEq) ?_ hs h1 h2
  refine Obl.bind (mapM'_privValBool_obl (by simp only [bitsOf_length])) ?_
  obl
macro_rules | `(tactic| obl_rule) => `(tactic| with_reducible apply toBits_obl)

theorem checkPositiveHint_length {s : St} {v : Int} {n : Nat} {r : Int × List Int}
    (h : checkPositiveHint s v n = .ok r) : r.2.length = n := by
  unfold checkPositiveHint at h
  split at h
  · cases h; exact bitsOf_length _ _
  split at h
  · cases h; exact List.length_replicate
  · cases h

theorem checkPositive_obl {x1 x2 : LinComb} (hx : lcEq x1 x2) (bits : Option Nat) :
    Obl lcEq (checkPositive x1 bits) (checkPositive x2 bits) := by
  unfold checkPositive
  refine Obl.bind Obl.getSt (fun s1 s2 hs => ?_)
  have hbl := (shape_eq_iff.mp hs).2.2.2.2.2.1
  simp only [hbl]
  refine Obl.bind (Obl.liftE (R := fun p q => p.2.length = q.2.length) ?_) ?_
  · intro p q hp hq
    rw [checkPositiveHint_length hp, checkPositiveHint_length hq]
  · rintro ⟨r1, b1⟩ ⟨r2, b2⟩ hlen
    simp only at hlen ⊢
    refine Obl.bind (privValBool_obl _ _) (fun ret1 ret2 hret => ?_)
    refine Obl.bind (mapM'_privValBool_obl hlen) (fun bs1 bs2 hbs => ?_)
    obl
macro_rules | `(tactic| obl_rule) => `(tactic| with_reducible apply checkPositive_obl)

theorem assertPositive_obl {x1 x2 : LinComb} (hx : lcEq x1 x2) (b : Option Nat) :
    Obl (fun _ _ => True) (assertPositive x1 b) (assertPositive x2 b) := by
  obl_intro
  unfold assertPositive at h1 h2
  simp only at h1 h2
  split at h1
  · cases h1
  split at h2
  · cases h2
  refine Obl.apply (R := fun _ _ => True) ?_ hs h1 h2
  obl
macro_rules | `(tactic| obl_rule) => `(tactic| with_reducible apply assertPositive_obl)

theorem checkZero_obl {x1 x2 : LinComb} (hx : lcEq x1 x2) : Obl lcEq (checkZero x1) (checkZero x2) := by
  unfold checkZero; obl
macro_rules | `(tactic| obl_rule) => `(tactic| with_reducible apply checkZero_obl)

theorem boolNot_obl {x1 x2 : LinComb} (hx : lcEq x1 x2) : Obl lcEq (boolNot x1) (boolNot x2) := by
  unfold boolNot; obl
macro_rules | `(tactic| obl_rule) => `(tactic| with_reducible apply boolNot_obl)

theorem checkNonzero_obl {x1 x2 : LinComb} (hx : lcEq x1 x2) : Obl lcEq (checkNonzero x1) (checkNonzero x2) := by
  unfold checkNonzero; obl
macro_rules | `(tactic| obl_rule) => `(tactic| with_reducible apply checkNonzero_obl)

theorem assertNonzero_obl {x1 x2 : LinComb} (hx : lcEq x1 x2) :
    Obl (fun _ _ => True) (assertNonzero x1) (assertNonzero x2) := by
  unfold assertNonzero; obl
macro_rules | `(tactic| obl_rule) => `(tactic| with_reducible apply assertNonzero_obl)

/-! ## comparisons -/
section cmp
variable {a1 a2 b1 b2 : LinComb} (ha : lcEq a1 a2) (hb : lcEq b1 b2) (c : Int)
include ha
theorem ltLI_obl : Obl lcEq (ltLI a1 c) (ltLI a2 c) := by unfold ltLI; obl
theorem leLI_obl : Obl lcEq (leLI a1 c) (leLI a2 c) := by unfold leLI; obl
theorem eqLI_obl : Obl lcEq (eqLI a1 c) (eqLI a2 c) := by unfold eqLI; obl
theorem neLI_obl : Obl lcEq (neLI a1 c) (neLI a2 c) := by unfold neLI; obl
theorem gtLI_obl : Obl lcEq (gtLI a1 c) (gtLI a2 c) := by unfold gtLI; obl
theorem geLI_obl : Obl lcEq (geLI a1 c) (geLI a2 c) := by unfold geLI; obl
include hb
theorem ltLL_obl : Obl lcEq (ltLL a1 b1) (ltLL a2 b2) := by unfold ltLL; obl
theorem leLL_obl : Obl lcEq (leLL a1 b1) (leLL a2 b2) := by unfold leLL; obl
theorem eqLL_obl : Obl lcEq (eqLL a1 b1) (eqLL a2 b2) := by unfold eqLL; obl
theorem neLL_obl : Obl lcEq (neLL a1 b1) (neLL a2 b2) := by unfold neLL; obl
theorem gtLL_obl : Obl lcEq (gtLL a1 b1) (gtLL a2 b2) := by unfold gtLL; obl
theorem geLL_obl : Obl lcEq (geLL a1 b1) (geLL a2 b2) := by unfold geLL; obl
theorem assertLt_obl : Obl (fun _ _ => True) (assertLt a1 b1) (assertLt a2 b2) := by unfold assertLt; obl
theorem assertLe_obl : Obl (fun _ _ => True) (assertLe a1 b1) (assertLe a2 b2) := by unfold assertLe; obl
theorem assertEq_obl : Obl (fun _ _ => True) (assertEq a1 b1) (assertEq a2 b2) := by unfold assertEq; obl
theorem assertNe_obl : Obl (fun _ _ => True) (assertNe a1 b1) (assertNe a2 b2) := by unfold assertNe; obl
theorem assertGt_obl : Obl (fun _ _ => True) (assertGt a1 b1) (assertGt a2 b2) := by unfold assertGt; obl
theorem assertGe_obl : Obl (fun _ _ => True) (assertGe a1 b1) (assertGe a2 b2) := by unfold assertGe; obl
end cmp
macro_rules | `(tactic| obl_rule) => `(tactic| first
  | with_reducible apply ltLI_obl | with_reducible apply leLI_obl | with_reducible apply eqLI_obl
  | with_reducible apply neLI_obl | with_reducible apply gtLI_obl | with_reducible apply geLI_obl
  | with_reducible apply ltLL_obl | with_reducible apply leLL_obl | with_reducible apply eqLL_obl
  | with_reducible apply neLL_obl | with_reducible apply gtLL_obl | with_reducible apply geLL_obl
  | with_reducible apply assertLt_obl | with_reducible apply assertLe_obl | with_reducible apply assertEq_obl
  | with_reducible apply assertNe_obl | with_reducible apply assertGt_obl | with_reducible apply assertGe_obl)

theorem assertRange_obl {x1 x2 lo1 lo2 hi1 hi2 : LinComb} (hx : lcEq x1 x2) (hlo : lcEq lo1 lo2) (hhi : lcEq hi1 hi2) :
    Obl (fun _ _ => True) (assertRange x1 lo1 hi1) (assertRange x2 lo2 hi2) := by
  unfold assertRange; obl
macro_rules | `(tactic| obl_rule) => `(tactic| with_reducible apply assertRange_obl)

/-- `val()`: the revealed values are unrelated -/
theorem valL_obl {x1 x2 : LinComb} (hx : lcEq x1 x2) : Obl (fun _ _ => True) (valL x1) (valL x2) := by
  unfold valL; obl
macro_rules | `(tactic| obl_rule) => `(tactic| with_reducible apply valL_obl)

/-! ## arithmetic -/
theorem mulLL_obl {a1 a2 b1 b2 : LinComb} (ha : lcEq a1 a2) (hb : lcEq b1 b2) : Obl lcEq (mulLL a1 b1) (mulLL a2 b2) := by
  unfold mulLL; obl
macro_rules | `(tactic| obl_rule) => `(tactic| with_reducible apply mulLL_obl)

theorem truedivLI_obl {a1 a2 : LinComb} (ha : lcEq a1 a2) (c : Int) : Obl lcEq (truedivLI a1 c) (truedivLI a2 c) := by
  obl_intro
  have hp := (shape_eq_iff.mp hs).2.2.2.2.2.2.2
  unfold truedivLI at h1 h2
  rw [hp] at h1
  cases hi : Py.invert c s2.p with
  | none =>
    simp only [hi] at h1
    repeat' (split at h1)
    all_goals cases h1
  | some i =>
    simp only [hi] at h1 h2
    repeat' (split at h1)
    all_goals (first | (cases h1; done) | skip)
    all_goals (repeat' (split at h2))
    all_goals (first | (cases h2; done) | skip)
    all_goals (cases h1; cases h2; exact ⟨by simp only [lcEq, ha], hs⟩)
macro_rules | `(tactic| obl_rule) => `(tactic| with_reducible apply truedivLI_obl)

theorem truedivLL_obl {a1 a2 b1 b2 : LinComb} (ha : lcEq a1 a2) (hb : lcEq b1 b2) :
    Obl lcEq (truedivLL a1 b1) (truedivLL a2 b2) := by
  unfold truedivLL; obl
macro_rules | `(tactic| obl_rule) => `(tactic| with_reducible apply truedivLL_obl)

theorem divmodLL_obl {a1 a2 d1 d2 : LinComb} (ha : lcEq a1 a2) (hd : lcEq d1 d2) :
    Obl PairRel (divmodLL a1 d1) (divmodLL a2 d2) := by
  unfold divmodLL; obl
macro_rules | `(tactic| obl_rule) => `(tactic| with_reducible apply divmodLL_obl)

theorem getOne_like_obl : Obl lcEq (fun s => Except.ok (s.one, s)) (fun s => Except.ok (s.one, s)) := by
  obl_intro
  simp only [Except.ok.injEq, Prod.mk.injEq] at h1 h2
  obtain ⟨rfl, rfl⟩ := h1; obtain ⟨rfl, rfl⟩ := h2
  exact ⟨lcEq_one_of_shape hs, hs⟩

theorem powLN_obl {a1 a2 : LinComb} (ha : lcEq a1 a2) : ∀ n : Nat, Obl lcEq (powLN a1 n) (powLN a2 n)
  | 0 => by unfold powLN; exact getOne_like_obl
  | 1 => by unfold powLN; exact Obl.pure ha
  | n+2 => by
    have ih := powLN_obl ha (n+1)
    simp only [powLN]
    obl
macro_rules | `(tactic| obl_rule) => `(tactic| with_reducible apply powLN_obl)

theorem iteLLL_obl {c1 c2 t1 t2 f1 f2 : LinComb} (hc : lcEq c1 c2) (ht : lcEq t1 t2) (hf : lcEq f1 f2) :
    Obl lcEq (iteLLL c1 t1 f1) (iteLLL c2 t2 f2) := by
  unfold iteLLL; obl
macro_rules | `(tactic| obl_rule) => `(tactic| with_reducible apply iteLLL_obl)

theorem ensureboolI_obl (v : Int) : Obl lcEq (ensureboolI v) (ensureboolI v) := by
  unfold ensureboolI; obl
macro_rules | `(tactic| obl_rule) => `(tactic| with_reducible apply ensureboolI_obl)

theorem powersAux_obl : ∀ (n : Nat) {c1 c2 : LinComb} (_ : lcEq c1 c2) (p1 p2 : Int),
    Obl (Forall2 lcEq) (powersAux n c1 p1) (powersAux n c2 p2)
  | 0, _, _, _, _, _ => by unfold powersAux; exact Obl.pure .nil
  | n+1, c1, c2, hc, p1, p2 => by
    unfold powersAux
    refine Obl.bind (mulLL_obl hc hc) (fun r1 r2 hr => ?_)
    refine Obl.bind (powersAux_obl n (lcEq_reduceValue hr p1 p2) p1 p2) (fun l1 l2 hl => ?_)
    exact Obl.pure (.cons (lcEq_reduceValue hr p1 p2) hl)

theorem mulAll_obl (s1 s2 : St) {ms1 ms2 : List LinComb} (hm : Forall2 lcEq ms1 ms2) :
    ∀ {acc1 acc2 : LinComb}, lcEq acc1 acc2 → Obl lcEq (powLL.mulAll s1 ms1 acc1) (powLL.mulAll s2 ms2 acc2) := by
  induction hm with
  | nil => intro acc1 acc2 hacc; simp only [powLL.mulAll]; exact Obl.pure hacc
  | cons hab _ ih =>
    intro acc1 acc2 hacc
    simp only [powLL.mulAll]
    refine Obl.bind (mulLL_obl hacc hab) (fun r1 r2 hr => ?_)
    exact ih (lcEq_reduceValue hr _ _)

theorem powLL_obl {a1 a2 e1 e2 : LinComb} (ha : lcEq a1 a2) (he : lcEq e1 e2) :
    Obl lcEq (powLL a1 e1) (powLL a2 e2) := by
  unfold powLL
  refine Obl.bind (toBits_obl he none) (fun eb1 eb2 heb => ?_)
  refine Obl.bind Obl.getSt (fun s1 s2 hs => ?_)
  rw [heb.length_eq]
  refine Obl.bind (powersAux_obl _ ha _ _) (fun tl1 tl2 htl => ?_)
  simp only
  refine Obl.bind (mapM'_obl (Q := lcEq) (Forall2.zip heb (Forall2.cons ha htl)) ?_) (fun m1 m2 hm => ?_)
  · rintro p q ⟨hp1, hp2⟩
    obl
  · refine Obl.bind Obl.getSt (fun s1' s2' hs' => ?_)
    exact mulAll_obl _ _ hm (lcEq_one_of_shape hs')
macro_rules | `(tactic| obl_rule) => `(tactic| with_reducible apply powLL_obl)

theorem lshiftLI_obl {a1 a2 : LinComb} (ha : lcEq a1 a2) (n : Int) : Obl lcEq (lshiftLI a1 n) (lshiftLI a2 n) := by
  unfold lshiftLI; obl
macro_rules | `(tactic| obl_rule) => `(tactic| with_reducible apply lshiftLI_obl)

theorem rshiftLI_obl {a1 a2 : LinComb} (ha : lcEq a1 a2) (n : Int) :
    Obl (OptRel lcEq) (rshiftLI a1 n) (rshiftLI a2 n) := by
  unfold rshiftLI
  by_cases hn : n < 0
  · simp only [hn, if_true]; obl
  simp only [hn, if_false]
  refine Obl.bind (toBits_obl ha none) (fun b1 b2 hb => ?_)
  exact Obl.pure (fromBits_rel (hb.drop _))
macro_rules | `(tactic| obl_rule) => `(tactic| with_reducible apply rshiftLI_obl)

theorem andLI_obl (a1 a2 : LinComb) (c1 c2 : Int) : Obl lcEq (andLI a1 c1) (andLI a2 c2) := by unfold andLI; obl
theorem xorLI_obl (a1 a2 : LinComb) (c1 c2 : Int) : Obl lcEq (xorLI a1 c1) (xorLI a2 c2) := by unfold xorLI; obl
theorem orLI_obl (a1 a2 : LinComb) (c1 c2 : Int) : Obl lcEq (orLI a1 c1) (orLI a2 c2) := by unfold orLI; obl

theorem mulBB_obl {a1 a2 b1 b2 : LinComb} (ha : lcEq a1 a2) (hb : lcEq b1 b2) : Obl lcEq (mulBB a1 b1) (mulBB a2 b2) := by
  unfold mulBB; obl
macro_rules | `(tactic| obl_rule) => `(tactic| first
  | with_reducible apply andLI_obl | with_reducible apply xorLI_obl | with_reducible apply orLI_obl
  | with_reducible apply mulBB_obl)

section bitwise
variable {a1 a2 b1 b2 : LinComb} (ha : lcEq a1 a2) (hb : lcEq b1 b2)
include ha hb
theorem andLL_obl : Obl (OptRel lcEq) (andLL a1 b1) (andLL a2 b2) := by
  unfold andLL
  refine Obl.bind (toBits_obl ha none) (fun ab1 ab2 hab => ?_)
  refine Obl.bind (toBits_obl hb none) (fun bb1 bb2 hbb => ?_)
  refine Obl.bind (mapM'_obl (Q := lcEq) (Forall2.zip hab hbb) ?_) (fun r1 r2 hr => Obl.pure (fromBits_rel hr))
  rintro p q ⟨hp1, hp2⟩
  obl

theorem xorLL_obl : Obl (OptRel lcEq) (xorLL a1 b1) (xorLL a2 b2) := by
  unfold xorLL
  refine Obl.bind (toBits_obl ha none) (fun ab1 ab2 hab => ?_)
  refine Obl.bind (toBits_obl hb none) (fun bb1 bb2 hbb => ?_)
  refine Obl.bind (mapM'_obl (Q := lcEq) (Forall2.zip hab hbb) ?_) (fun r1 r2 hr => Obl.pure (fromBits_rel hr))
  rintro p q ⟨hp1, hp2⟩
  obl

theorem orLL_obl : Obl (OptRel lcEq) (orLL a1 b1) (orLL a2 b2) := by
  unfold orLL
  refine Obl.bind (toBits_obl ha none) (fun ab1 ab2 hab => ?_)
  refine Obl.bind (toBits_obl hb none) (fun bb1 bb2 hbb => ?_)
  refine Obl.bind (mapM'_obl (Q := lcEq) (Forall2.zip hab hbb) ?_) (fun r1 r2 hr => Obl.pure (fromBits_rel hr))
  rintro p q ⟨hp1, hp2⟩
  obl
end bitwise

theorem invertL_obl {a1 a2 : LinComb} (ha : lcEq a1 a2) : Obl (OptRel lcEq) (invertL a1) (invertL a2) := by
  unfold invertL
  refine Obl.bind (toBits_obl ha none) (fun b1 b2 hb => ?_)
  refine Obl.bind (mapM'_obl hb (fun x y hxy => boolNot_obl hxy)) (fun r1 r2 hr => Obl.pure (fromBits_rel hr))

theorem absL_obl {a1 a2 : LinComb} (ha : lcEq a1 a2) : Obl lcEq (absL a1) (absL a2) := by
  unfold absL; obl

macro_rules | `(tactic| obl_rule) => `(tactic| first
  | with_reducible apply andLL_obl | with_reducible apply xorLL_obl | with_reducible apply orLL_obl
  | with_reducible apply invertL_obl | with_reducible apply absL_obl)

end Pysnark
