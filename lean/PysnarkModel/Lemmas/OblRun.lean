import PysnarkModel.Lemmas.OblVal
/-!
# Obliviousness of programs (C06): `add_guard`, `step`, `runAux`, `run`
-/
namespace Pysnark

theorem binopV_obl (op : BinOp) {a1 a2 b1 b2 : Val} (ha : ValRel a1 a2) (hb : ValRel b1 b2) :
    Obl ValRel (binopV op a1 b1) (binopV op a2 b2) := by
  cases op <;> simp only [binopV] <;> obl

/-! ## `ValRel` is reflexive -/
mutual
theorem ValRel.refl : ∀ v : Val, ValRel v v
  | .none => .none
  | .int a => .int a
  | .flt m e => .flt m e
  | .lc _ => .lc rfl
  | .lcb _ => .lcb rfl
  | .fxp _ => .fxp rfl
  | .list xs => .list (ValRel.reflList xs)
  | .tuple xs => .tuple (ValRel.reflList xs)
theorem ValRel.reflList : ∀ xs : List Val, Forall2 ValRel xs xs
  | [] => .nil
  | x :: xs => .cons (ValRel.refl x) (ValRel.reflList xs)
end

/-! ## `add_guard` -/
theorem addGuardCore_obl {c1 c2 : Val} (hc : ValRel c1 c2) : Obl GuardBakRel (addGuardCore c1) (addGuardCore c2) := by
  obl_intro
  obtain ⟨hpub, hpriv, hcons, hguard, hone, hbl, hres, hp⟩ := shape_eq_iff.mp hs
  unfold addGuardCore at h1 h2
  cases hc with
  | lc h =>
    simp only at h1 h2
    split at h1
    · cases h1
    split at h2
    · cases h2
    rcases guard_cases hs with ⟨g1, g2⟩ | ⟨g1, g2, hg1, hg2, hg⟩
    · simp only [g1, g2, Except.ok.injEq, Prod.mk.injEq] at h1 h2
      obtain ⟨rfl, rfl⟩ := h1
      obtain ⟨rfl, rfl⟩ := h2
      refine ⟨⟨rfl, hone⟩, ?_⟩
      exact shape_eq_iff.mpr ⟨hpub, hpriv, hcons, by simp only [Option.map_some, h], h, hbl, hres, hp⟩
    · simp only [hg1, hg2] at h1 h2
      rename_i x y _ _
      cases hb1 : bwLV .and g1 (.lc x) s1 with
      | error e => simp only [hb1] at h1; cases h1
      | ok r1 =>
        obtain ⟨v1, u1⟩ := r1
        cases hb2 : bwLV .and g2 (.lc y) s2 with
        | error e => simp only [hb2] at h2; cases h2
        | ok r2 =>
          obtain ⟨v2, u2⟩ := r2
          obtain ⟨hv, hu⟩ := bwLV_obl .and hg (ValRel.lc h) s1 s2 v1 v2 u1 u2 hs hb1 hb2
          obtain ⟨hpub', hpriv', hcons', hguard', hone', hbl', hres', hp'⟩ := shape_eq_iff.mp hu
          simp only [hb1, hb2] at h1 h2
          cases hv with
          | lc hv' =>
            simp only [Except.ok.injEq, Prod.mk.injEq] at h1 h2
            obtain ⟨rfl, rfl⟩ := h1
            obtain ⟨rfl, rfl⟩ := h2
            refine ⟨⟨by simp only [Option.map_some, hg], hone⟩, ?_⟩
            exact shape_eq_iff.mpr ⟨hpub', hpriv', hcons', by simp only [Option.map_some, hv'], hv', hbl', hres', hp'⟩
          | _ => cases h1
  | int c =>
    simp only at h1 h2
    repeat' (split at h1)
    all_goals (first | (cases h1; done) | skip)
    all_goals (repeat' (split at h2))
    all_goals (first | (cases h2; done) | skip)
    all_goals
      simp only [Except.ok.injEq, Prod.mk.injEq] at h1 h2
      obtain ⟨rfl, rfl⟩ := h1
      obtain ⟨rfl, rfl⟩ := h2
      exact ⟨⟨hguard, hone⟩, hs⟩
  | _ => cases h1

/-! ## register files -/

theorem ValRel_unwrapBoolCond {c1 c2 : Val} (hc : ValRel c1 c2) : ValRel (unwrapBoolCond c1) (unwrapBoolCond c2) := by
  cases hc <;> simp only [unwrapBoolCond] <;> first | exact ValRel.lc ‹_› | constructor <;> assumption | constructor

theorem addGuard_obl {c1 c2 : Val} (hc : ValRel c1 c2) : Obl GuardBakRel (addGuard c1) (addGuard c2) :=
  addGuardCore_obl (ValRel_unwrapBoolCond hc)

theorem getReg_obl {P : Val → Val → Prop} {r1 r2 : List Val} {a : Nat}
    (h : ∀ v1 v2, r1[a]? = some v1 → r2[a]? = some v2 → P v1 v2) : Obl P (getReg r1 a) (getReg r2 a) := by
  unfold getReg
  cases h1 : r1[a]? with
  | none => exact Obl.raiseL
  | some v1 =>
    cases h2 : r2[a]? with
    | none => exact Obl.raiseR
    | some v2 => exact Obl.pure (h v1 v2 h1 h2)

theorem getRegs_obl {r1 r2 : List Val} : ∀ {as : List Nat},
    (∀ a ∈ as, ∀ v1 v2, r1[a]? = some v1 → r2[a]? = some v2 → ValRel v1 v2) →
    Obl (Forall2 ValRel) (getRegs r1 as) (getRegs r2 as)
  | [], _ => by simp only [getRegs]; exact Obl.pure .nil
  | a :: as, h => by
    simp only [getRegs]
    refine Obl.bind (getReg_obl (h a (List.mem_cons_self ..))) (fun v1 v2 hv => ?_)
    refine Obl.bind (getRegs_obl (fun b hb => h b (List.mem_cons_of_mem _ hb))) (fun vs1 vs2 hvs => ?_)
    exact Obl.pure (.cons hv hvs)

/-- what `step` needs of the two register files for instruction `i`: the registers it reads hold
related values, except that a witness-creating `mk` may read two unrelated plain values -/
def ReadsRel (i : Instr) (r1 r2 : List Val) : Prop :=
  ∀ k ∈ i.reads, ∀ v1 v2, r1[k]? = some v1 → r2[k]? = some v2 →
    ValRel v1 v2 ∨ (i.isMk = true ∧ v1.isPlain = true ∧ v2.isPlain = true)

/-- result relation of `step` -/
def StepRel (i : Instr) (r1 r2 : List Val) (o1 o2 : Val × List Val × List GuardBak) : Prop :=
  RegRel i o1.1 o2.1 ∧ Forall2 GuardBakRel o1.2.2 o2.2.2 ∧
  ((o1.2.1 = r1 ∧ o2.2.1 = r2) ∨ ∃ a w1 w2, ValRel w1 w2 ∧ o1.2.1 = r1.set a w1 ∧ o2.2.1 = r2.set a w2)

theorem StepRel.same {i : Instr} {r1 r2 : List Val} {fr1 fr2 : List GuardBak} {v1 v2 : Val}
    (hv : ValRel v1 v2) (hfr : Forall2 GuardBakRel fr1 fr2) : StepRel i r1 r2 (v1, r1, fr1) (v2, r2, fr2) :=
  ⟨Or.inl hv, hfr, Or.inl ⟨rfl, rfl⟩⟩

theorem mkVal_obl' (k : Kind) (hk : k ≠ .const) {v1 v2 : Val}
    (h : ValRel v1 v2 ∨ (v1.isPlain = true ∧ v2.isPlain = true)) : Obl ValRel (mkVal k v1) (mkVal k v2) := by
  rcases h with h | ⟨h1, h2⟩
  · cases h with
    | int a => exact mkVal_obl k hk rfl rfl
    | flt m e => exact mkVal_obl k hk rfl rfl
    | _ => cases k <;> simp only [mkVal] <;> exact Obl.raiseL
  · exact mkVal_obl k hk h1 h2

theorem idx_lookup {xs ys : List Val} (h : Forall2 ValRel xs ys) (i : Int) {r1 r2 : List Val} {fr1 fr2 : List GuardBak}
    {ins : Instr} (hfr : Forall2 GuardBakRel fr1 fr2) :
    Obl (StepRel ins r1 r2)
      (match pyIndex xs.length i with
        | some k => match xs[k]? with | some x => pure (x, r1, fr1) | Option.none => raise .index
        | Option.none => raise .index)
      (match pyIndex ys.length i with
        | some k => match ys[k]? with | some x => pure (x, r2, fr2) | Option.none => raise .index
        | Option.none => raise .index) := by
  rw [h.length_eq]
  cases pyIndex ys.length i with
  | none => exact Obl.raiseL
  | some k =>
    dsimp only
    cases h1 : xs[k]? with
    | none => exact Obl.raiseL
    | some v1 =>
      cases h2 : ys[k]? with
      | none => exact Obl.raiseR
      | some v2 => exact Obl.pure (StepRel.same (h.getElem? k h1 h2) hfr)

theorem step_same_obl (i : Instr) {r1 r2 : List Val} (hr : ReadsRel i r1 r2) {fr1 fr2 : List GuardBak}
    (hfr : Forall2 GuardBakRel fr1 fr2) : Obl (StepRel i r1 r2) (step r1 fr1 i) (step r2 fr2 i) := by
  -- registers read by anything but a witness-creating `mk` hold related values
  have hval : i.isMk = false → ∀ k ∈ i.reads, ∀ v1 v2, r1[k]? = some v1 → r2[k]? = some v2 → ValRel v1 v2 := by
    intro hmk k hk v1 v2 h1 h2
    rcases hr k hk v1 v2 h1 h2 with h | ⟨h, _, _⟩
    · exact h
    · rw [hmk] at h; cases h
  cases i with
  | lit v => simp only [step]; exact Obl.pure (StepRel.same (ValRel.refl v) hfr)
  | mk k a =>
    simp only [step]
    by_cases hk : k = .const
    · subst hk
      refine Obl.bind (getReg_obl (hval rfl a (by simp [Instr.reads]))) (fun v1 v2 hv => ?_)
      refine Obl.bind (mkVal_const_obl hv) (fun w1 w2 hw => ?_)
      exact Obl.pure (StepRel.same hw hfr)
    · refine Obl.bind (getReg_obl (hr a (by simp [Instr.reads]))) (fun v1 v2 hv => ?_)
      refine Obl.bind (mkVal_obl' k hk (hv.imp id (fun h => h.2))) (fun w1 w2 hw => ?_)
      exact Obl.pure (StepRel.same hw hfr)
  | wrapb a =>
    simp only [step]
    refine Obl.bind (getReg_obl (hval rfl a (by simp [Instr.reads]))) (fun v1 v2 hv => ?_)
    refine Obl.bind (wrapBool_obl hv) (fun w1 w2 hw => ?_)
    exact Obl.pure (StepRel.same hw hfr)
  | wrapx a =>
    simp only [step]
    refine Obl.bind (getReg_obl (hval rfl a (by simp [Instr.reads]))) (fun v1 v2 hv => ?_)
    refine Obl.bind (wrapFxp_obl hv) (fun w1 w2 hw => ?_)
    exact Obl.pure (StepRel.same hw hfr)
  | bin op a b =>
    simp only [step]
    refine Obl.bind (getReg_obl (hval rfl a (by simp [Instr.reads]))) (fun x1 x2 hx => ?_)
    refine Obl.bind (getReg_obl (hval rfl b (by simp [Instr.reads]))) (fun y1 y2 hy => ?_)
    refine Obl.bind (binopV_obl op hx hy) (fun w1 w2 hw => ?_)
    exact Obl.pure (StepRel.same hw hfr)
  | un op a =>
    simp only [step]
    refine Obl.bind (getReg_obl (hval rfl a (by simp [Instr.reads]))) (fun x1 x2 hx => ?_)
    refine Obl.bind (unV_obl op hx) (fun w1 w2 hw => ?_)
    exact Obl.pure (StepRel.same hw hfr)
  | call m self args =>
    simp only [step]
    refine Obl.bind (getReg_obl (hval rfl self (by simp [Instr.reads]))) (fun x1 x2 hx => ?_)
    refine Obl.bind (getRegs_obl (fun b hb => hval rfl b (by simp [Instr.reads, hb]))) (fun as1 as2 has => ?_)
    by_cases hm : m = .val
    · subst hm
      refine Obl.bind (callMeth_val_obl hx as1 as2) (fun w1 w2 hw => ?_)
      exact Obl.pure ⟨Or.inr ⟨rfl, hw.1, hw.2⟩, hfr, Or.inl ⟨rfl, rfl⟩⟩
    · refine Obl.bind (callMeth_obl m hm hx has) (fun w1 w2 hw => ?_)
      exact Obl.pure (StepRel.same hw hfr)
  | ite c t f =>
    simp only [step]
    refine Obl.bind (getReg_obl (hval rfl c (by simp [Instr.reads]))) (fun c1 c2 hc => ?_)
    refine Obl.bind (getReg_obl (hval rfl t (by simp [Instr.reads]))) (fun t1 t2 ht => ?_)
    refine Obl.bind (getReg_obl (hval rfl f (by simp [Instr.reads]))) (fun f1 f2 hf => ?_)
    refine Obl.bind (ifThenElse_obl hc _ ht hf) (fun w1 w2 hw => ?_)
    exact Obl.pure (StepRel.same hw hfr)
  | list xs =>
    simp only [step]
    refine Obl.bind (getRegs_obl (fun b hb => hval rfl b (by simp [Instr.reads, hb]))) (fun as1 as2 has => ?_)
    exact Obl.pure (StepRel.same (.list has) hfr)
  | idx a i =>
    simp only [step]
    refine Obl.bind (getReg_obl (hval rfl a (by simp [Instr.reads]))) (fun v1 v2 hv => ?_)
    cases hv with
    | list h => exact idx_lookup h i hfr
    | tuple h => exact idx_lookup h i hfr
    | _ => exact Obl.tyErrL
  | genter c =>
    simp only [step]
    refine Obl.bind (getReg_obl (hval rfl c (by simp [Instr.reads]))) (fun c1 c2 hc => ?_)
    refine Obl.bind (addGuard_obl hc) (fun b1 b2 hb => ?_)
    exact Obl.pure (StepRel.same .none (.cons hb hfr))
  | gleave =>
    simp only [step]
    cases hfr with
    | nil => exact Obl.raiseL
    | cons hb hrest =>
      dsimp only
      refine Obl.bind (restoreGuard_obl hb) (fun _ _ _ => ?_)
      exact Obl.pure (StepRel.same .none hrest)
  | setBl n =>
    simp only [step]
    refine Obl.bind (Obl.modifySt ?_) (fun _ _ _ => Obl.pure (StepRel.same .none hfr))
    intro s1 s2 hs
    obtain ⟨hpub, hpriv, hcons, hguard, hone, hbl, hres, hp⟩ := shape_eq_iff.mp hs
    exact shape_eq_iff.mpr ⟨hpub, hpriv, hcons, hguard, hone, rfl, hres, hp⟩
  | setRes n =>
    simp only [step]
    refine Obl.bind (Obl.modifySt ?_) (fun _ _ _ => Obl.pure (StepRel.same .none hfr))
    intro s1 s2 hs
    obtain ⟨hpub, hpriv, hcons, hguard, hone, hbl, hres, hp⟩ := shape_eq_iff.mp hs
    exact shape_eq_iff.mpr ⟨hpub, hpriv, hcons, hguard, hone, hbl, rfl, hp⟩
  | setIgn b =>
    simp only [step]
    refine Obl.bind (Obl.modifySt ?_) (fun _ _ _ => Obl.pure (StepRel.same .none hfr))
    intro s1 s2 hs
    exact hs
  | arr xs =>
    simp only [step]
    refine Obl.bind (getRegs_obl (fun b hb => hval rfl b (by simp [Instr.reads, hb]))) (fun as1 as2 has => ?_)
    exact Obl.pure (StepRel.same (.list has) hfr)
  | aget a i =>
    simp only [step]
    refine Obl.bind (getReg_obl (hval rfl a (by simp [Instr.reads]))) (fun a1 a2 ha => ?_)
    refine Obl.bind (getReg_obl (hval rfl i (by simp [Instr.reads]))) (fun i1 i2 hi => ?_)
    cases ha with
    | list h =>
      dsimp only
      refine Obl.bind (arrayGet_obl h hi) (fun w1 w2 hw => ?_)
      exact Obl.pure (StepRel.same hw hfr)
    | _ => exact Obl.tyErrL
  | aset a i v =>
    simp only [step]
    refine Obl.bind (getReg_obl (hval rfl a (by simp [Instr.reads]))) (fun a1 a2 ha => ?_)
    refine Obl.bind (getReg_obl (hval rfl i (by simp [Instr.reads]))) (fun i1 i2 hi => ?_)
    refine Obl.bind (getReg_obl (hval rfl v (by simp [Instr.reads]))) (fun v1 v2 hv => ?_)
    cases ha with
    | list h =>
      dsimp only
      refine Obl.bind (arraySet_obl h hi hv) (fun w1 w2 hw => ?_)
      exact Obl.pure ⟨Or.inl .none, hfr, Or.inr ⟨a, _, _, .list hw, rfl, rfl⟩⟩
    | _ => exact Obl.tyErrL

theorem step_obl {i1 i2 : Instr} (hi : InstrRel i1 i2) {r1 r2 : List Val} (hr : ReadsRel i1 r1 r2)
    {fr1 fr2 : List GuardBak} (hfr : Forall2 GuardBakRel fr1 fr2) :
    Obl (StepRel i1 r1 r2) (step r1 fr1 i1) (step r2 fr2 i2) := by
  rcases hi with rfl | ⟨a, b, rfl, rfl⟩ | ⟨m, e, m', e', rfl, rfl⟩
  · exact step_same_obl i1 hr hfr
  · simp only [step]
    exact Obl.pure ⟨Or.inr ⟨rfl, rfl, rfl⟩, hfr, Or.inl ⟨rfl, rfl⟩⟩
  · simp only [step]
    exact Obl.pure ⟨Or.inr ⟨rfl, rfl, rfl⟩, hfr, Or.inl ⟨rfl, rfl⟩⟩

/-! ## the register-file invariant -/

/-- register files of equal length, pointwise `RegRel` w.r.t. the instruction that produced each register -/
def RegsRel (p : List Instr) (r1 r2 : List Val) : Prop :=
  r1.length = r2.length ∧
  ∀ (k : Nat) (i : Instr) (v1 v2 : Val), p[k]? = some i → r1[k]? = some v1 → r2[k]? = some v2 → RegRel i v1 v2

theorem RegsRel.set {p : List Instr} {r1 r2 : List Val} (h : RegsRel p r1 r2) (a : Nat) {w1 w2 : Val}
    (hw : ValRel w1 w2) : RegsRel p (r1.set a w1) (r2.set a w2) := by
  refine ⟨by simp only [List.length_set, h.1], ?_⟩
  intro k i v1 v2 hp h1 h2
  rw [List.getElem?_set] at h1 h2
  by_cases hak : a = k
  · simp only [hak, if_true] at h1 h2
    split at h1
    · split at h2
      · cases h1; cases h2; exact Or.inl hw
      · cases h2
    · cases h1
  · simp only [hak, if_false] at h1 h2
    exact h.2 k i v1 v2 hp h1 h2

theorem RegsRel.snoc {p : List Instr} {r1 r2 : List Val} (h : RegsRel p r1 r2) {i : Instr}
    (hi : p[r1.length]? = some i) {v1 v2 : Val} (hv : RegRel i v1 v2) : RegsRel p (r1 ++ [v1]) (r2 ++ [v2]) := by
  refine ⟨by simp only [List.length_append, List.length_cons, List.length_nil, h.1], ?_⟩
  intro k j w1 w2 hp h1 h2
  rcases Nat.lt_trichotomy k r1.length with hlt | heq | hgt
  · rw [List.getElem?_append_left hlt] at h1
    rw [List.getElem?_append_left (h.1 ▸ hlt)] at h2
    exact h.2 k j w1 w2 hp h1 h2
  · subst heq
    rw [hi] at hp
    cases hp
    rw [List.getElem?_append_right (Nat.le_refl _)] at h1
    rw [h.1, List.getElem?_append_right (Nat.le_refl _)] at h2
    simp only [Nat.sub_self, List.getElem?_cons_zero, Option.some.injEq] at h1 h2
    subst h1; subst h2
    exact hv
  · have : (r1 ++ [v1])[k]? = none := by
      apply List.getElem?_eq_none
      simp only [List.length_append, List.length_cons, List.length_nil]
      omega
    rw [this] at h1
    cases h1

/-- the registers read by the instruction at position `j` are related as `step` needs them -/
theorem readsRel_of_regsRel {p : List Instr} (hfree : FreeOnlyMk p) {r1 r2 : List Val} (h : RegsRel p r1 r2)
    {j : Nat} {i : Instr} (hj : p[j]? = some i) (hle : r1.length ≤ p.length) : ReadsRel i r1 r2 := by
  intro k hk v1 v2 h1 h2
  have hklt : k < r1.length := by
    rcases Nat.lt_or_ge k r1.length with hlt | hge
    · exact hlt
    · rw [List.getElem?_eq_none hge] at h1; cases h1
  have hkp : k < p.length := Nat.lt_of_lt_of_le hklt hle
  have hpk : p[k]? = some p[k] := List.getElem?_eq_getElem hkp
  rcases h.2 k p[k] v1 v2 hpk h1 h2 with hv | ⟨hf, hp1, hp2⟩
  · exact Or.inl hv
  · exact Or.inr ⟨hfree k j p[k] i hpk hf hj hk, hp1, hp2⟩

/-! ## `runAux` and `run` -/
theorem runAux_obl (p1 : List Instr) (hfree : FreeOnlyMk p1) {is1 is2 : List Instr} (his : Forall2 InstrRel is1 is2) :
    ∀ (d1 : List Instr) (k1 k2 : Nat) (regs1 regs2 : List Val) (fr1 fr2 : List GuardBak) (s1 s2 : St),
      p1 = d1 ++ is1 → regs1.length = d1.length → RegsRel p1 regs1 regs2 → Forall2 GuardBakRel fr1 fr2 →
      s1.shape = s2.shape →
      (runAux is1 k1 regs1 fr1 s1).err = none → (runAux is2 k2 regs2 fr2 s2).err = none →
      (runAux is1 k1 regs1 fr1 s1).st.shape = (runAux is2 k2 regs2 fr2 s2).st.shape ∧
      RegsRel p1 (runAux is1 k1 regs1 fr1 s1).regs (runAux is2 k2 regs2 fr2 s2).regs := by
  induction his with
  | nil =>
    intro d1 k1 k2 regs1 regs2 fr1 fr2 s1 s2 _ _ hregs _ hs _ _
    simp only [runAux]
    exact ⟨hs, hregs⟩
  | @cons i1 i2 is1 is2 hi _ ih =>
    intro d1 k1 k2 regs1 regs2 fr1 fr2 s1 s2 hp hlen hregs hfr hs he1 he2
    simp only [runAux] at he1 he2 ⊢
    cases hst1 : step regs1 fr1 i1 s1 with
    | error e => simp only [hst1] at he1; cases he1
    | ok o1 =>
      cases hst2 : step regs2 fr2 i2 s2 with
      | error e => simp only [hst2] at he2; cases he2
      | ok o2 =>
        obtain ⟨⟨v1, regs1', fr1'⟩, t1⟩ := o1
        obtain ⟨⟨v2, regs2', fr2'⟩, t2⟩ := o2
        simp only [hst1, hst2] at he1 he2 ⊢
        have hj : p1[d1.length]? = some i1 := by
          rw [hp, List.getElem?_append_right (Nat.le_refl _)]
          simp only [Nat.sub_self, List.getElem?_cons_zero]
        have hle : regs1.length ≤ p1.length := by
          rw [hp, hlen, List.length_append]; omega
        have hreads := readsRel_of_regsRel hfree hregs hj hle
        obtain ⟨⟨hv, hfr', hupd⟩, ht⟩ := step_obl hi hreads hfr s1 s2 _ _ t1 t2 hs hst1 hst2
        simp only at hv hfr' hupd
        have hj' : p1[regs1.length]? = some i1 := by rw [hlen]; exact hj
        have hregs' : RegsRel p1 regs1' regs2' ∧ regs1'.length = regs1.length := by
          rcases hupd with ⟨rfl, rfl⟩ | ⟨a, w1, w2, hw, rfl, rfl⟩
          · exact ⟨hregs, rfl⟩
          · exact ⟨hregs.set a hw, List.length_set⟩
        have hsn : RegsRel p1 (regs1' ++ [v1]) (regs2' ++ [v2]) :=
          hregs'.1.snoc (by rw [hregs'.2]; exact hj') hv
        refine ih (d1 ++ [i1]) (k1+1) (k2+1) _ _ _ _ t1 t2 ?_ ?_ hsn hfr' ht he1 he2
        · rw [hp, List.append_assoc]; rfl
        · simp only [List.length_append, List.length_cons, List.length_nil, hregs'.2, hlen]

theorem run_oblivious (s1 s2 : St) (hs : s1.shape = s2.shape) (p1 p2 : List Instr) (hrel : ProgRel p1 p2)
    (o1 o2 : Out) (h1 : run s1 p1 = o1) (h2 : run s2 p2 = o2) (he1 : o1.err = none) (he2 : o2.err = none) :
    o1.st.shape = o2.st.shape ∧ o1.regs.length = o2.regs.length ∧
    ∀ (k : Nat) (i : Instr) (v1 v2 : Val), p1[k]? = some i → o1.regs[k]? = some v1 → o2.regs[k]? = some v2 → RegRel i v1 v2 := by
  subst h1; subst h2
  obtain ⟨hprog, hfree1, _⟩ := hrel
  unfold run at he1 he2 ⊢
  have hregs0 : RegsRel p1 [] [] := ⟨rfl, fun k i v1 v2 _ h _ => by simp at h⟩
  obtain ⟨hst, hlen, hreg⟩ := runAux_obl p1 hfree1 hprog [] 0 0 [] [] [] [] s1 s2 rfl rfl hregs0 .nil hs he1 he2
  exact ⟨hst, hlen, hreg⟩

end Pysnark
