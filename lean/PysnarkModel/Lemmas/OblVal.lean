import PysnarkModel.Lemmas.OblGadgets
import PysnarkModel.Lemmas.IteTag
/-!
# Obliviousness of the dynamically typed layer (`Model/Val.lean`, `Model/Methods.lean`)
-/
namespace Pysnark

/-! ## state readers -/
theorem getRes_obl : Obl Eq getRes getRes := by
  obl_intro
  simp only [getRes, Except.ok.injEq, Prod.mk.injEq] at h1 h2
  obtain ⟨rfl, rfl⟩ := h1; obtain ⟨rfl, rfl⟩ := h2
  exact ⟨(shape_eq_iff.mp hs).2.2.2.2.2.2.1, hs⟩

theorem getOne_obl : Obl lcEq getOne getOne := getOne_like_obl

theorem getP_obl : Obl Eq getP getP := by
  obl_intro
  simp only [getP, Except.ok.injEq, Prod.mk.injEq] at h1 h2
  obtain ⟨rfl, rfl⟩ := h1; obtain ⟨rfl, rfl⟩ := h2
  exact ⟨(shape_eq_iff.mp hs).2.2.2.2.2.2.2, hs⟩

macro_rules | `(tactic| obl_rule) => `(tactic| first
  | exact getRes_obl | exact getOne_obl | exact getP_obl)

/-! ## coercions -/
theorem ensurefxp_obl {v1 v2 : Val} (hv : ValRel v1 v2) : Obl lcEq (ensurefxp v1) (ensurefxp v2) := by
  unfold ensurefxp
  cases hv <;> obl

theorem ensurebool_obl {v1 v2 : Val} (hv : ValRel v1 v2) : Obl lcEq (ensurebool v1) (ensurebool v2) := by
  unfold ensurebool
  cases hv <;> obl

theorem ensurelc_obl {v1 v2 : Val} (hv : ValRel v1 v2) : Obl lcEq (ensurelc v1) (ensurelc v2) := by
  unfold ensurelc
  cases hv <;> obl

macro_rules | `(tactic| obl_rule) => `(tactic| first
  | with_reducible apply ensurefxp_obl | with_reducible apply ensurebool_obl | with_reducible apply ensurelc_obl)

/-! ## arithmetic -/
theorem negV_obl {v1 v2 : Val} (hv : ValRel v1 v2) : Obl ValRel (negV v1) (negV v2) := by
  cases hv <;> simp only [negV] <;> obl
macro_rules | `(tactic| obl_rule) => `(tactic| with_reducible apply negV_obl)

theorem addLV_obl {x1 x2 : LinComb} (hx : lcEq x1 x2) {o1 o2 : Val} (ho : ValRel o1 o2) :
    Obl ValRel (addLV x1 o1) (addLV x2 o2) := by
  cases ho <;> simp only [addLV] <;> obl

theorem addXV_obl {x1 x2 : LinComb} (hx : lcEq x1 x2) {o1 o2 : Val} (ho : ValRel o1 o2) :
    Obl ValRel (addXV x1 o1) (addXV x2 o2) := by
  cases ho <;> simp only [addXV] <;> obl
macro_rules | `(tactic| obl_rule) => `(tactic| first
  | with_reducible apply addLV_obl | with_reducible apply addXV_obl)

theorem addV_obl {a1 a2 b1 b2 : Val} (ha : ValRel a1 a2) (hb : ValRel b1 b2) : Obl ValRel (addV a1 b1) (addV a2 b2) := by
  cases ha <;> cases hb <;> simp only [addV] <;> obl
macro_rules | `(tactic| obl_rule) => `(tactic| with_reducible apply addV_obl)

theorem subV_obl {a1 a2 b1 b2 : Val} (ha : ValRel a1 a2) (hb : ValRel b1 b2) : Obl ValRel (subV a1 b1) (subV a2 b2) := by
  cases ha <;> cases hb <;> simp only [subV] <;> obl
macro_rules | `(tactic| obl_rule) => `(tactic| with_reducible apply subV_obl)

theorem floordivLI_obl {x1 x2 : LinComb} (hx : lcEq x1 x2) (c : Int) : Obl lcEq (floordivLI x1 c) (floordivLI x2 c) := by
  unfold floordivLI; obl

theorem floordivLL_obl {x1 x2 y1 y2 : LinComb} (hx : lcEq x1 x2) (hy : lcEq y1 y2) :
    Obl lcEq (floordivLL x1 y1) (floordivLL x2 y2) := by
  unfold floordivLL; obl
macro_rules | `(tactic| obl_rule) => `(tactic| first
  | with_reducible apply floordivLI_obl | with_reducible apply floordivLL_obl)

theorem mulLV_obl {x1 x2 : LinComb} (hx : lcEq x1 x2) {o1 o2 : Val} (ho : ValRel o1 o2) :
    Obl ValRel (mulLV x1 o1) (mulLV x2 o2) := by
  cases ho <;> simp only [mulLV] <;> obl

theorem mulXV_obl {x1 x2 : LinComb} (hx : lcEq x1 x2) {o1 o2 : Val} (ho : ValRel o1 o2) :
    Obl ValRel (mulXV x1 o1) (mulXV x2 o2) := by
  cases ho <;> simp only [mulXV] <;> obl
macro_rules | `(tactic| obl_rule) => `(tactic| first
  | with_reducible apply mulLV_obl | with_reducible apply mulXV_obl)

theorem mulV_obl {a1 a2 b1 b2 : Val} (ha : ValRel a1 a2) (hb : ValRel b1 b2) : Obl ValRel (mulV a1 b1) (mulV a2 b2) := by
  cases ha <;> cases hb <;> simp only [mulV] <;> obl
macro_rules | `(tactic| obl_rule) => `(tactic| with_reducible apply mulV_obl)

/-! ## division -/
theorem divmodLV_obl {x1 x2 : LinComb} (hx : lcEq x1 x2) {o1 o2 : Val} (ho : ValRel o1 o2) :
    Obl (OptRel PairRel) (divmodLV x1 o1) (divmodLV x2 o2) := by
  cases ho <;> simp only [divmodLV] <;> obl

theorem divmodXV_obl {x1 x2 : LinComb} (hx : lcEq x1 x2) {o1 o2 : Val} (ho : ValRel o1 o2) :
    Obl (OptRel PairRel) (divmodXV x1 o1) (divmodXV x2 o2) := by
  cases ho <;> simp only [divmodXV] <;> obl
macro_rules | `(tactic| obl_rule) => `(tactic| first
  | with_reducible apply divmodLV_obl | with_reducible apply divmodXV_obl)

theorem pickL_rel (w : DM) {p q : LinComb × LinComb} (h : PairRel p q) : ValRel (pickL w p) (pickL w q) := by
  cases w <;> simp only [pickL]
  · exact .lc h.fst
  · exact .lc h.snd
  · exact .tuple (.cons (.lc h.fst) (.cons (.lc h.snd) .nil))

theorem pickX_rel (w : DM) {p q : LinComb × LinComb} (h : PairRel p q) : ValRel (pickX w p) (pickX w q) := by
  cases w <;> simp only [pickX]
  · exact .fxp h.fst
  · exact .fxp h.snd
  · exact .tuple (.cons (.fxp h.fst) (.cons (.fxp h.snd) .nil))

theorem ofFB_rel {o1 o2 : Option LinComb} (h : OptRel lcEq o1 o2) : ValRel (ofFB o1) (ofFB o2) := by
  cases h with
  | none => exact .int 0
  | some h => exact .lc h

macro_rules | `(tactic| obl_side_rule) => `(tactic| first
  | with_reducible apply pickL_rel | with_reducible apply pickX_rel | with_reducible apply ofFB_rel)

theorem divmodV_obl (w : DM) {a1 a2 b1 b2 : Val} (ha : ValRel a1 a2) (hb : ValRel b1 b2) :
    Obl ValRel (divmodV w a1 b1) (divmodV w a2 b2) := by
  cases ha <;> cases hb <;> simp only [divmodV] <;> obl
macro_rules | `(tactic| obl_rule) => `(tactic| with_reducible apply divmodV_obl)

theorem truedivXV_obl {x1 x2 : LinComb} (hx : lcEq x1 x2) {o1 o2 : Val} (ho : ValRel o1 o2) :
    Obl (OptRel lcEq) (truedivXV x1 o1) (truedivXV x2 o2) := by
  cases ho <;> simp only [truedivXV] <;> obl
macro_rules | `(tactic| obl_rule) => `(tactic| with_reducible apply truedivXV_obl)

theorem truedivV_obl {a1 a2 b1 b2 : Val} (ha : ValRel a1 a2) (hb : ValRel b1 b2) :
    Obl ValRel (truedivV a1 b1) (truedivV a2 b2) := by
  cases ha <;> cases hb <;> simp only [truedivV] <;> obl
macro_rules | `(tactic| obl_rule) => `(tactic| with_reducible apply truedivV_obl)

/-! ## power -/
theorem powXN_obl {x1 x2 : LinComb} (hx : lcEq x1 x2) : ∀ n : Nat, Obl lcEq (powXN x1 n) (powXN x2 n)
  | 0 => by simp only [powXN]; obl
  | 1 => by simp only [powXN]; exact Obl.pure hx
  | n+2 => by
    have ih := powXN_obl hx (n+1)
    simp only [powXN]
    obl
macro_rules | `(tactic| obl_rule) => `(tactic| with_reducible apply powXN_obl)

theorem powV_obl {a1 a2 b1 b2 : Val} (ha : ValRel a1 a2) (hb : ValRel b1 b2) : Obl ValRel (powV a1 b1) (powV a2 b2) := by
  cases ha <;> cases hb <;> simp only [powV] <;> obl
macro_rules | `(tactic| obl_rule) => `(tactic| with_reducible apply powV_obl)

/-! ## shifts -/
theorem lshiftLV_obl {x1 x2 : LinComb} (hx : lcEq x1 x2) {o1 o2 : Val} (ho : ValRel o1 o2) :
    Obl ValRel (lshiftLV x1 o1) (lshiftLV x2 o2) := by
  cases ho <;> simp only [lshiftLV] <;> obl

theorem rshiftLV_obl {x1 x2 : LinComb} (hx : lcEq x1 x2) {o1 o2 : Val} (ho : ValRel o1 o2) :
    Obl ValRel (rshiftLV x1 o1) (rshiftLV x2 o2) := by
  cases ho <;> simp only [rshiftLV] <;> obl

theorem mkFxpNoScale_obl {v1 v2 : Val} (hv : ValRel v1 v2) : Obl ValRel (mkFxpNoScale v1) (mkFxpNoScale v2) := by
  unfold mkFxpNoScale
  cases hv <;> obl
macro_rules | `(tactic| obl_rule) => `(tactic| first
  | with_reducible apply lshiftLV_obl | with_reducible apply rshiftLV_obl | with_reducible apply mkFxpNoScale_obl)

theorem lshiftV_obl {a1 a2 b1 b2 : Val} (ha : ValRel a1 a2) (hb : ValRel b1 b2) :
    Obl ValRel (lshiftV a1 b1) (lshiftV a2 b2) := by
  cases ha <;> cases hb <;> simp only [lshiftV] <;> obl

theorem rshiftV_obl {a1 a2 b1 b2 : Val} (ha : ValRel a1 a2) (hb : ValRel b1 b2) :
    Obl ValRel (rshiftV a1 b1) (rshiftV a2 b2) := by
  cases ha <;> cases hb <;> simp only [rshiftV] <;> obl
macro_rules | `(tactic| obl_rule) => `(tactic| first
  | with_reducible apply lshiftV_obl | with_reducible apply rshiftV_obl)

/-! ## bitwise / logical -/
theorem Forall2.isEmpty_eq {α β : Type} {R : α → β → Prop} {l1 : List α} {l2 : List β} (h : Forall2 R l1 l2) :
    l1.isEmpty = l2.isEmpty := by
  cases h <;> rfl

theorem truthy_obl {v1 v2 : Val} (hv : ValRel v1 v2) : Obl Eq (truthy v1) (truthy v2) := by
  cases hv with
  | list h => simp only [truthy, h.isEmpty_eq]; exact Obl.pure rfl
  | tuple h => simp only [truthy, h.isEmpty_eq]; exact Obl.pure rfl
  | _ => simp only [truthy] <;> obl
macro_rules | `(tactic| obl_rule) => `(tactic| with_reducible apply truthy_obl)

theorem bwBV_obl (op : BW) {x1 x2 : LinComb} (hx : lcEq x1 x2) {o1 o2 : Val} (ho : ValRel o1 o2) :
    Obl ValRel (bwBV op x1 o1) (bwBV op x2 o2) := by
  cases ho <;> cases op <;> simp only [bwBV] <;> obl
macro_rules | `(tactic| obl_rule) => `(tactic| with_reducible apply bwBV_obl)

theorem bwLV_obl (op : BW) {x1 x2 : LinComb} (hx : lcEq x1 x2) {o1 o2 : Val} (ho : ValRel o1 o2) :
    Obl ValRel (bwLV op x1 o1) (bwLV op x2 o2) := by
  cases ho <;> cases op <;> simp only [bwLV] <;> obl
macro_rules | `(tactic| obl_rule) => `(tactic| with_reducible apply bwLV_obl)

theorem bwV_obl (op : BW) {a1 a2 b1 b2 : Val} (ha : ValRel a1 a2) (hb : ValRel b1 b2) :
    Obl ValRel (bwV op a1 b1) (bwV op a2 b2) := by
  cases ha <;> cases hb <;> simp only [bwV] <;> obl
macro_rules | `(tactic| obl_rule) => `(tactic| with_reducible apply bwV_obl)

/-! ## comparisons -/
theorem checkPositiveV_obl {v1 v2 : Val} (hv : ValRel v1 v2) : Obl ValRel (checkPositiveV v1) (checkPositiveV v2) := by
  cases hv <;> simp only [checkPositiveV] <;> obl
theorem checkZeroV_obl {v1 v2 : Val} (hv : ValRel v1 v2) : Obl ValRel (checkZeroV v1) (checkZeroV v2) := by
  cases hv <;> simp only [checkZeroV] <;> obl
theorem checkNonzeroV_obl {v1 v2 : Val} (hv : ValRel v1 v2) : Obl ValRel (checkNonzeroV v1) (checkNonzeroV v2) := by
  cases hv <;> simp only [checkNonzeroV] <;> obl
macro_rules | `(tactic| obl_rule) => `(tactic| first
  | with_reducible apply checkPositiveV_obl | with_reducible apply checkZeroV_obl
  | with_reducible apply checkNonzeroV_obl)

theorem cmpLV_obl (op : Cmp) {x1 x2 : LinComb} (hx : lcEq x1 x2) {o1 o2 : Val} (ho : ValRel o1 o2) :
    Obl ValRel (cmpLV op x1 o1) (cmpLV op x2 o2) := by
  cases op <;> simp only [cmpLV] <;> obl

theorem cmpLL_obl (op : Cmp) {x1 x2 y1 y2 : LinComb} (hx : lcEq x1 x2) (hy : lcEq y1 y2) :
    Obl lcEq (cmpLL op x1 y1) (cmpLL op x2 y2) := by
  cases op <;> simp only [cmpLL] <;> obl
macro_rules | `(tactic| obl_rule) => `(tactic| first
  | with_reducible apply cmpLV_obl | with_reducible apply cmpLL_obl)

theorem cmpV_obl (op : Cmp) {a1 a2 b1 b2 : Val} (ha : ValRel a1 a2) (hb : ValRel b1 b2) :
    Obl ValRel (cmpV op a1 b1) (cmpV op a2 b2) := by
  cases ha <;> cases hb <;> simp only [cmpV] <;> obl
macro_rules | `(tactic| obl_rule) => `(tactic| with_reducible apply cmpV_obl)

/-! ## `if_then_else` -/
theorem zipWithM'_obl {f1 f2 : Val → Val → M Val}
    (hf : ∀ t1 t2 g1 g2, ValRel t1 t2 → ValRel g1 g2 → Obl ValRel (f1 t1 g1) (f2 t2 g2))
    {ts1 ts2 : List Val} (ht : Forall2 ValRel ts1 ts2) :
    ∀ {gs1 gs2 : List Val}, Forall2 ValRel gs1 gs2 → Obl (Forall2 ValRel) (zipWithM' f1 ts1 gs1) (zipWithM' f2 ts2 gs2) := by
  induction ht with
  | nil => intro gs1 gs2 _; simp only [zipWithM']; exact Obl.pure .nil
  | cons hab _ ih =>
    intro gs1 gs2 hg
    cases hg with
    | nil => simp only [zipWithM']; exact Obl.pure .nil
    | cons hcd hg' =>
      simp only [zipWithM']
      refine Obl.bind (hf _ _ _ _ hab hcd) (fun r1 r2 hr => ?_)
      refine Obl.bind (ih hg') (fun rs1 rs2 hrs => ?_)
      exact Obl.pure (.cons hr hrs)

theorem smallIntSame_eq {t1 t2 f1 f2 : Val} (ht : ValRel t1 t2) (hf : ValRel f1 f2) :
    smallIntSame t1 f1 = smallIntSame t2 f2 := by
  cases ht <;> cases hf <;> rfl

/-- the retagging step: which arm is taken depends on the kinds only -/
theorem iteTag_obl {t1 t2 f1 f2 r1 r2 : Val} (ht : ValRel t1 t2) (hf : ValRel f1 f2) (hr : ValRel r1 r2) :
    Obl ValRel (iteTag t1 f1 r1) (iteTag t2 f2 r2) := by
  cases ht
  case lcb h1 =>
    cases hf
    case lcb h2 => cases hr <;> simp only [iteTag] <;> obl
    all_goals (rw [iteTag_other _ rfl, iteTag_other _ rfl]; exact Obl.pure hr)
  all_goals (rw [iteTag_other _ rfl, iteTag_other _ rfl]; exact Obl.pure hr)
macro_rules | `(tactic| obl_rule) => `(tactic| with_reducible apply iteTag_obl)

/-- any two fuels: the out-of-fuel arm raises, and both runs succeed -/
theorem iteAux_obl {c1 c2 : LinComb} (hc : lcEq c1 c2) : ∀ (n1 n2 : Nat) {t1 t2 f1 f2 : Val},
    ValRel t1 t2 → ValRel f1 f2 → Obl ValRel (iteAux c1 n1 t1 f1) (iteAux c2 n2 t2 f2) := by
  intro n1
  induction n1 with
  | zero => intro n2 t1 t2 f1 f2 _ _; simp only [iteAux]; exact Obl.raiseL
  | succ n1 ih =>
    intro n2 t1 t2 f1 f2 ht hf
    cases n2 with
    | zero => simp only [iteAux]; exact Obl.raiseR
    | succ n2 =>
      simp only [iteAux, smallIntSame_eq ht hf]
      split
      · exact Obl.pure ht
      · cases ht with
        | list hts =>
          cases hf with
          | list hfs =>
            dsimp only
            refine Obl.iteElseRaise (Obl.bind (zipWithM'_obl (fun _ _ _ _ h1 h2 => ih n2 h1 h2) hts hfs) (fun r1 r2 hr => ?_))
            exact Obl.pure (.list hr)
          | tuple hfs =>
            dsimp only
            refine Obl.iteElseRaise (Obl.bind (zipWithM'_obl (fun _ _ _ _ h1 h2 => ih n2 h1 h2) hts hfs) (fun r1 r2 hr => ?_))
            exact Obl.pure (.list hr)
          | _ => exact Obl.tyErrL
        | _ => refine Obl.bind (ra := ValRel) ?_ ?_ <;> obl

theorem ifThenElse_obl {c1 c2 : Val} (hc : ValRel c1 c2) (same : Bool) {t1 t2 f1 f2 : Val}
    (ht : ValRel t1 t2) (hf : ValRel f1 f2) :
    Obl ValRel (ifThenElse c1 same t1 f1) (ifThenElse c2 same t2 f2) := by
  unfold ifThenElse
  rw [smallIntSame_eq ht hf]
  split
  · exact Obl.pure ht
  · cases hc with
    | int c =>
      dsimp only
      refine Obl.iteRaise (Obl.pure ?_)
      split <;> assumption
    | lcb h => exact iteAux_obl h _ _ ht hf
    | _ => exact Obl.raiseL
macro_rules | `(tactic| obl_rule) => `(tactic| with_reducible apply ifThenElse_obl)

/-! ## unary -/
theorem unV_obl (op : Un) {a1 a2 : Val} (ha : ValRel a1 a2) : Obl ValRel (unV op a1) (unV op a2) := by
  cases op <;> cases ha <;> simp only [unV] <;> obl
macro_rules | `(tactic| obl_rule) => `(tactic| with_reducible apply unV_obl)

/-! ## constructors (`Model/Methods.lean`) -/

/-- witness-creating constructors: the argument may be ANY two plain values -/
theorem mkVal_obl (k : Kind) (hk : k ≠ .const) {v1 v2 : Val} (h1 : v1.isPlain = true) (h2 : v2.isPlain = true) :
    Obl ValRel (mkVal k v1) (mkVal k v2) := by
  cases v1 <;> simp only [Val.isPlain, reduceCtorEq] at h1 <;>
  cases v2 <;> simp only [Val.isPlain, reduceCtorEq] at h2 <;>
  cases k <;> simp only [mkVal] <;> first | (exact absurd rfl hk) | obl

/-- `ConstVal(c)`: the argument is a coefficient of the circuit -/
theorem mkVal_const_obl {v1 v2 : Val} (hv : ValRel v1 v2) : Obl ValRel (mkVal .const v1) (mkVal .const v2) := by
  cases hv <;> simp only [mkVal] <;> obl

theorem wrapBool_obl {v1 v2 : Val} (hv : ValRel v1 v2) : Obl ValRel (wrapBool v1) (wrapBool v2) := by
  unfold wrapBool
  cases hv <;> obl

theorem wrapFxp_obl {v1 v2 : Val} (hv : ValRel v1 v2) : Obl ValRel (wrapFxp v1) (wrapFxp v2) := by
  unfold wrapFxp
  cases hv <;> obl

/-! ## methods -/
theorem argNat?_obl {as1 as2 : List Val} (h : Forall2 ValRel as1 as2) : Obl Eq (argNat? as1) (argNat? as2) := by
  cases h with
  | nil => simp only [argNat?]; exact Obl.pure rfl
  | cons hv ht =>
    cases ht with
    | nil => cases hv <;> simp only [argNat?] <;> obl
    | cons _ _ => simp only [argNat?]; exact Obl.raiseL
macro_rules | `(tactic| obl_rule) => `(tactic| with_reducible apply argNat?_obl)

theorem assertCmp_obl (m : Meth) {a1 a2 b1 b2 : LinComb} (ha : lcEq a1 a2) (hb : lcEq b1 b2) :
    Obl (fun _ _ => True) (assertCmp m a1 b1) (assertCmp m a2 b2) := by
  cases m <;> simp only [assertCmp] <;> obl
macro_rules | `(tactic| obl_rule) => `(tactic| with_reducible apply assertCmp_obl)

theorem unwrapBits_obl {l1 l2 : List Val} (h : Forall2 ValRel l1 l2) :
    Obl (Forall2 lcEq) (unwrapBits l1) (unwrapBits l2) := by
  induction h with
  | nil => simp only [unwrapBits]; exact Obl.pure .nil
  | cons hv _ ih => cases hv <;> simp only [unwrapBits] <;> obl
macro_rules | `(tactic| obl_rule) => `(tactic| with_reducible apply unwrapBits_obl)

theorem map_lcb_rel {l1 l2 : List LinComb} (h : Forall2 lcEq l1 l2) :
    Forall2 ValRel (l1.map Val.lcb) (l2.map Val.lcb) :=
  Forall2.map (fun _ _ h => ValRel.lcb h) h
macro_rules | `(tactic| obl_side_rule) => `(tactic| with_reducible apply map_lcb_rel)

/-- `x.val()` reveals the value: the two results are plain values, otherwise unrelated -/
theorem callMeth_val_obl {x1 x2 : Val} (hx : ValRel x1 x2) (as1 as2 : List Val) :
    Obl (fun r1 r2 => r1.isPlain = true ∧ r2.isPlain = true) (callMeth .val x1 as1) (callMeth .val x2 as2) := by
  cases hx <;> simp only [callMeth] <;> obl
  all_goals exact ⟨rfl, rfl⟩

theorem callMeth_lc_obl (m : Meth) (hm : m ≠ .val) {x1 x2 : LinComb} (h : lcEq x1 x2) {as1 as2 : List Val}
    (has : Forall2 ValRel as1 as2) : Obl ValRel (callMeth m (.lc x1) as1) (callMeth m (.lc x2) as2) := by
  rcases has with _ | ⟨h1, _ | ⟨h2, _ | ⟨h3, hrest⟩⟩⟩ <;> cases m <;>
    first
    | exact absurd rfl hm
    | (simp only [callMeth] <;> obl)

theorem callMeth_lcb_obl (m : Meth) (hm : m ≠ .val) {x1 x2 : LinComb} (h : lcEq x1 x2) {as1 as2 : List Val}
    (has : Forall2 ValRel as1 as2) : Obl ValRel (callMeth m (.lcb x1) as1) (callMeth m (.lcb x2) as2) := by
  rcases has with _ | ⟨h1, _ | ⟨h2, _ | ⟨h3, hrest⟩⟩⟩ <;> cases m <;>
    first
    | exact absurd rfl hm
    | (simp only [callMeth, List.isEmpty_nil, List.isEmpty_cons, if_true, Bool.false_eq_true, if_false] <;> obl)

theorem callMeth_fxp_obl (m : Meth) (hm : m ≠ .val) {x1 x2 : LinComb} (h : lcEq x1 x2) {as1 as2 : List Val}
    (has : Forall2 ValRel as1 as2) : Obl ValRel (callMeth m (.fxp x1) as1) (callMeth m (.fxp x2) as2) := by
  rcases has with _ | ⟨h1, _ | ⟨h2, _ | ⟨h3, hrest⟩⟩⟩ <;> cases m <;>
    first
    | exact absurd rfl hm
    | (simp only [callMeth, List.isEmpty_nil, List.isEmpty_cons, if_true, Bool.false_eq_true, if_false] <;> obl)

theorem callMeth_obl (m : Meth) (hm : m ≠ .val) {x1 x2 : Val} (hx : ValRel x1 x2) {as1 as2 : List Val}
    (has : Forall2 ValRel as1 as2) : Obl ValRel (callMeth m x1 as1) (callMeth m x2 as2) := by
  cases hx with
  | none => simp only [callMeth]; exact Obl.raiseL
  | int => simp only [callMeth]; exact Obl.raiseL
  | flt => simp only [callMeth]; exact Obl.raiseL
  | tuple => simp only [callMeth]; exact Obl.raiseL
  | list h => cases m <;> simp only [callMeth] <;> obl
  | lc h => exact callMeth_lc_obl m hm h has
  | lcb h => exact callMeth_lcb_obl m hm h has
  | fxp h => exact callMeth_fxp_obl m hm h has

/-! ## arrays -/
theorem sumBools_foldl_lceq {l1 l2 : List LinComb} (h : Forall2 lcEq l1 l2) :
    ∀ {a1 a2 : LinComb}, lcEq a1 a2 →
      lcEq (l1.foldl (fun acc x => x.add acc) a1) (l2.foldl (fun acc x => x.add acc) a2) := by
  induction h with
  | nil => intro a1 a2 ha; exact ha
  | cons hxy _ ih => intro a1 a2 ha; simp only [List.foldl_cons]; exact ih (lcEq_add hxy ha)

theorem sumBools_rel {l1 l2 : List LinComb} (h : Forall2 lcEq l1 l2) : OptRel lcEq (sumBools l1) (sumBools l2) := by
  cases h with
  | nil => exact .none
  | cons hxy ht => exact .some (sumBools_foldl_lceq ht (lcEq_addI hxy 0))

theorem oneHot_obl {it1 it2 : LinComb} (hit : lcEq it1 it2) : ∀ (n i : Nat),
    Obl (Forall2 lcEq) (oneHot it1 i n) (oneHot it2 i n)
  | 0, i => by simp only [oneHot]; exact Obl.pure .nil
  | n+1, i => by
    have ih := oneHot_obl hit n (i+1)
    simp only [oneHot]
    obl
macro_rules | `(tactic| obl_rule) => `(tactic| with_reducible apply oneHot_obl)

theorem foldlM_addV_obl {ps1 ps2 : List Val} (h : Forall2 ValRel ps1 ps2) :
    ∀ {a1 a2 : Val}, ValRel a1 a2 →
      Obl ValRel (ps1.foldlM (fun acc x => addV acc x) a1) (ps2.foldlM (fun acc x => addV acc x) a2) := by
  induction h with
  | nil => intro a1 a2 ha; simp only [List.foldlM_nil]; exact Obl.pure ha
  | cons hxy _ ih =>
    intro a1 a2 ha
    simp only [List.foldlM_cons]
    exact Obl.bind (addV_obl ha hxy) (fun _ _ hr => ih hr)

theorem linComb_obl {ixs1 ixs2 : List LinComb} (hix : Forall2 lcEq ixs1 ixs2) {arr1 arr2 : List Val}
    (harr : Forall2 ValRel arr1 arr2) : Obl ValRel (linComb ixs1 arr1) (linComb ixs2 arr2) := by
  unfold linComb
  refine Obl.bind (mapM'_obl (Q := ValRel) (Forall2.zip hix harr) ?_) ?_
  · intro p q hpq
    exact mulLV_obl hpq.1 hpq.2
  · intro ps1 ps2 hps
    cases hps with
    | nil => exact Obl.pure (.int 0)
    | cons hp hps' =>
      dsimp only
      exact Obl.bind (addV_obl (.int 0) hp) (fun _ _ hr => foldlM_addV_obl hps' hr)

theorem arrayCheck_obl (it1 it2 : LinComb) (n : Nat) : Obl (fun _ _ => True) (arrayCheck it1 n) (arrayCheck it2 n) := by
  unfold arrayCheck; obl
macro_rules | `(tactic| obl_rule) => `(tactic| with_reducible apply arrayCheck_obl)

theorem arrayIxs_obl {it1 it2 : LinComb} (hit : lcEq it1 it2) (n : Nat) :
    Obl (Forall2 lcEq) (arrayIxs it1 n) (arrayIxs it2 n) := by
  unfold arrayIxs
  refine Obl.bind (arrayCheck_obl _ _ _) (fun _ _ _ => ?_)
  refine Obl.bind (oneHot_obl hit n 0) (fun ixs1 ixs2 hixs => ?_)
  have h := sumBools_rel hixs
  revert h
  generalize sumBools ixs1 = o1
  generalize sumBools ixs2 = o2
  intro h
  cases h <;> dsimp only <;> obl

theorem arrayGet_obl {arr1 arr2 : List Val} (harr : Forall2 ValRel arr1 arr2) {it1 it2 : Val} (hit : ValRel it1 it2) :
    Obl ValRel (arrayGet arr1 it1) (arrayGet arr2 it2) := by
  unfold arrayGet
  cases hit with
  | int i =>
    dsimp only
    rw [harr.length_eq]
    cases pyIndex arr2.length i with
    | none => exact Obl.raiseL
    | some k =>
      dsimp only
      cases h1 : arr1[k]? with
      | none => exact Obl.raiseL
      | some v1 =>
        cases h2 : arr2[k]? with
        | none => exact Obl.raiseR
        | some v2 => exact Obl.pure (harr.getElem? k h1 h2)
  | lc h =>
    dsimp only
    rw [harr.length_eq]
    exact Obl.bind (arrayIxs_obl h _) (fun _ _ hix => linComb_obl hix harr)
  | _ => exact Obl.tyErrL

theorem arraySet_obl {arr1 arr2 : List Val} (harr : Forall2 ValRel arr1 arr2) {it1 it2 : Val} (hit : ValRel it1 it2)
    {v1 v2 : Val} (hv : ValRel v1 v2) :
    Obl (Forall2 ValRel) (arraySet arr1 it1 v1) (arraySet arr2 it2 v2) := by
  unfold arraySet
  cases hit with
  | int i =>
    dsimp only
    rw [harr.length_eq]
    cases pyIndex arr2.length i with
    | none => exact Obl.raiseL
    | some k => exact Obl.pure (harr.set k hv)
  | lc h =>
    dsimp only
    rw [harr.length_eq]
    refine Obl.bind (arrayIxs_obl h _) (fun _ _ hix => ?_)
    refine mapM'_obl (Forall2.zip hix harr) ?_
    intro p q hpq
    exact ifThenElse_obl (.lcb hpq.1) false hv hpq.2
  | _ => exact Obl.tyErrL

end Pysnark
