import PysnarkModel.Model.Pack
import PysnarkModel.Lemmas.Bits
/-!
# `pack.py`: bit length, plain round trip, rejection, secret `PackIntMod` (C16, part b)
-/
namespace Pysnark

/-! ## induction over schemas -/
theorem Schema.induct {P : Schema → Prop} (hb : P .bool) (hm : ∀ m, P (.intMod m))
    (hl : ∀ ss, (∀ s ∈ ss, P s) → P (.list ss)) (hr : ∀ s t, P s → P (.rep s t)) : ∀ s, P s :=
  @Schema.rec P (fun ss => ∀ s ∈ ss, P s) hb hm hl hr (by simp)
    (fun head tail h1 h2 s hs => by
      rcases List.mem_cons.mp hs with rfl | hs
      · exact h1
      · exact h2 s hs)

/-! ## `bitlen` -/
@[simp] theorem Schema.bitlen_bool : Schema.bool.bitlen = 1 := by simp [Schema.bitlen]
@[simp] theorem Schema.bitlen_intMod (m : Nat) : (Schema.intMod m).bitlen = modBits m := by
  simp [Schema.bitlen]
@[simp] theorem Schema.bitlen_list (ss : List Schema) : (Schema.list ss).bitlen = Schema.bitlenL ss := by
  simp [Schema.bitlen]
@[simp] theorem Schema.bitlen_rep (s : Schema) (t : Nat) : (Schema.rep s t).bitlen = s.bitlen * t := by
  simp [Schema.bitlen]
@[simp] theorem Schema.bitlenL_nil : Schema.bitlenL [] = 0 := by simp [Schema.bitlenL]
@[simp] theorem Schema.bitlenL_cons (s : Schema) (ss : List Schema) :
    Schema.bitlenL (s :: ss) = s.bitlen + Schema.bitlenL ss := by simp [Schema.bitlenL]

theorem Schema.bitlenL_eq_sum (ss : List Schema) : Schema.bitlenL ss = (ss.map Schema.bitlen).sum := by
  induction ss with
  | nil => simp
  | cons s ss ih => simp [ih]

theorem Schema.bitlenL_append (a b : List Schema) :
    Schema.bitlenL (a ++ b) = Schema.bitlenL a + Schema.bitlenL b := by
  induction a with
  | nil => simp
  | cons s ss ih => simp [ih, Nat.add_assoc]

/-- for `m ≥ 2` the bit length of `PackIntMod(m)` is at least 1 and `m ≤ 2^bitlen` -/
theorem modBits_spec {m : Nat} (hm : 2 ≤ m) : 1 ≤ modBits m ∧ (m : Int) ≤ 2 ^ modBits m := by
  have h := (bitLength_le_iff ((m : Int) - 1) (modBits m)).mp (Nat.le_refl _)
  have hn : ((m : Int) - 1).natAbs = m - 1 := by omega
  rw [hn] at h
  constructor
  · rcases Nat.eq_zero_or_pos (modBits m) with h0 | h0
    · rw [h0] at h; simp at h; omega
    · exact h0
  · have : ((m - 1 : Nat) : Int) < 2 ^ modBits m := by exact_mod_cast h
    omega

/-! ## well-typed plain values -/
mutual
/-- plain values of the shape the schema describes; the side conditions `2 ≤ m`, `ss ≠ []`,
`1 ≤ times` exclude the schemas for which `pack.py` itself breaks (see `C16_cex_…`) -/
def WellTyped : Schema → Val → Prop
  | .bool, v => v = .int 0 ∨ v = .int 1
  | .intMod m, v => 2 ≤ m ∧ ∃ c : Int, v = .int c ∧ 0 ≤ c ∧ c < m
  | .list ss, v => ss ≠ [] ∧ ∃ vs, v = .list vs ∧ WellTypedL ss vs
  | .rep s t, v => 1 ≤ t ∧ ∃ vs, v = .list vs ∧ vs.length = t ∧ ∀ x ∈ vs, WellTyped s x
def WellTypedL : List Schema → List Val → Prop
  | [], [] => True
  | s :: ss, v :: vs => WellTyped s v ∧ WellTypedL ss vs
  | _, _ => False
end

/-! ## the plain branch of `PackIntMod.unpack` -/

theorem bind_pure_ok {α β : Type} {m : M α} {f : α → M β} {s s1 : St} {a : α}
    (h : m s = .ok (a, s1)) : (m >>= f) s = f a s1 := by
  change M.bind m f s = _
  unfold M.bind
  rw [h]


/-- `[(1<<ix)*v …]` on plain bits -/
def termsOf : List Int → Nat → List Int
  | [], _ => []
  | b :: bs, i => 2 ^ i * b :: termsOf bs (i+1)

theorem unpackTerms_int : ∀ (bs : List Int) (i : Nat) (s : St),
    unpackTerms (bs.map .int) i s = .ok ((termsOf bs i).map .int, s)
  | [], _, _ => rfl
  | b :: bs, i, s => by
    simp only [List.map_cons, unpackTerms, termsOf]
    rw [bind_pure_ok (show mulV (.int (2 ^ i)) (.int b) s = .ok (.int (2 ^ i * b), s) from rfl),
      bind_pure_ok (unpackTerms_int bs (i+1) s)]
    rfl

theorem pySum_int : ∀ (ts : List Int) (a : Int) (s : St),
    pySum (ts.map .int) (.int a) s = .ok (.int (a + ts.sum), s)
  | [], a, s => by simp [pySum, pure, M.pure]
  | t :: ts, a, s => by
    simp only [List.map_cons, pySum, List.sum_cons]
    rw [bind_pure_ok (show addV (.int a) (.int t) s = .ok (.int (a + t), s) from rfl),
      pySum_int ts (a + t) s, Int.add_assoc]

theorem termsOf_sum : ∀ (bs : List Int) (i : Nat), (termsOf bs i).sum = bitsVal bs i
  | [], _ => rfl
  | b :: bs, i => by simp [termsOf, bitsVal, termsOf_sum bs (i+1)]; ring

theorem getElem?_mid {α : Type} (pre : List α) (b : α) (mid rest : List α) :
    (pre ++ (b :: mid) ++ rest)[pre.length]? = some b := by
  simp

theorem slice_mid {α : Type} (pre mid rest : List α) :
    ((pre ++ mid ++ rest).drop pre.length).take mid.length = mid := by
  simp [List.append_assoc]

/-- plain `PackIntMod` round trip -/
theorem unpackIntMod_plain {m : Nat} (hm : 2 ≤ m) {c : Int} (h0 : 0 ≤ c) (h1 : c < m)
    (pre rest : List Val) (s : St) :
    unpackIntMod m (pre ++ (Py.bitsOf c (modBits m)).map .int ++ rest) pre.length s = .ok (.int c, s) := by
  obtain ⟨hb1, hb2⟩ := modBits_spec hm
  have hlen : ((Py.bitsOf c (modBits m)).map Val.int).length = modBits m := by simp [bitsOf_length]
  obtain ⟨n, hn⟩ : ∃ n, modBits m = n + 1 := ⟨modBits m - 1, by omega⟩
  unfold unpackIntMod
  have hsl := slice_mid pre ((Py.bitsOf c (modBits m)).map Val.int) rest
  rw [hlen] at hsl
  rw [hsl]
  have hfirst : (pre ++ (Py.bitsOf c (modBits m)).map Val.int ++ rest)[pre.length]?
      = some (Val.int (c % 2)) := by
    rw [hn, bitsOf_succ]
    exact getElem?_mid _ _ _ _
  rw [hfirst]
  simp only
  change M.bind (unpackTerms _ 0) _ s = _
  unfold M.bind
  rw [unpackTerms_int]
  simp only
  rw [pySum_int, termsOf_sum, bitsVal_bitsOf _ _ _ h0 (by omega)]
  simp

/-! ## `forRange` -/
theorem forRange_shift {α : Type} (f : Nat → M α) : ∀ (n i : Nat),
    forRange f (i+1) n = forRange (fun j => f (j+1)) i n
  | 0, _ => rfl
  | n+1, i => by
    simp only [forRange]
    rw [forRange_shift f n (i+1)]

/-! ## plain round trip -/

/-- what the round trip says for one schema -/
def RoundTrip (sch : Schema) (v : Val) : Prop :=
  ∃ bits : List Val, (∀ s, packB sch v s = .ok (bits, s)) ∧ bits.length = sch.bitlen ∧
    ∀ (pre rest : List Val) (s : St), unpackV sch (pre ++ bits ++ rest) pre.length s = .ok (v, s)

theorem roundTrip_bool {v : Val} (h : WellTyped .bool v) : RoundTrip .bool v := by
  unfold WellTyped at h
  refine ⟨[v], ?_, by simp, ?_⟩
  · intro s
    rcases h with rfl | rfl <;> rfl
  · intro pre rest s
    unfold unpackV
    rw [getElem?_mid pre v [] rest]
    rfl

theorem roundTrip_intMod {m : Nat} {v : Val} (h : WellTyped (.intMod m) v) : RoundTrip (.intMod m) v := by
  unfold WellTyped at h
  obtain ⟨hm, c, rfl, h0, h1⟩ := h
  refine ⟨(Py.bitsOf c (modBits m)).map .int, ?_, by simp [bitsOf_length], ?_⟩
  · intro s
    unfold packB packIntMod
    have : (decide (c < 0) || decide (c ≥ (m : Int))) = false := by
      simp only [Bool.or_eq_false_iff, decide_eq_false_iff_not]; omega
    simp only [this, Bool.false_eq_true, if_false]
    rfl
  · intro pre rest s
    unfold unpackV
    exact unpackIntMod_plain hm h0 h1 pre rest s

theorem roundTrip_zip : ∀ (ss : List Schema), (∀ s ∈ ss, ∀ v, WellTyped s v → RoundTrip s v) →
    ∀ (vs : List Val), WellTypedL ss vs →
    ∃ bits : List Val, (∀ s, packZip ss vs s = .ok (bits, s)) ∧ bits.length = Schema.bitlenL ss ∧
      ss.length = vs.length ∧
      ∀ (pre rest : List Val) (s : St), unpackSeq ss (pre ++ bits ++ rest) pre.length s = .ok (vs, s)
  | [], _, [], _ => ⟨[], fun _ => by simp [packZip, pure, M.pure], by simp, rfl,
      fun _ _ _ => by simp [unpackSeq, pure, M.pure]⟩
  | [], _, _ :: _, h => by simp [WellTypedL] at h
  | _ :: _, _, [], h => by simp [WellTypedL] at h
  | sc :: ss, ih, v :: vs, h => by
    unfold WellTypedL at h
    obtain ⟨a, ha, hal, hau⟩ := ih sc List.mem_cons_self v h.1
    obtain ⟨b, hb, hbl, hlen, hbu⟩ := roundTrip_zip ss (fun s hs => ih s (List.mem_cons_of_mem _ hs)) vs h.2
    refine ⟨a ++ b, ?_, by simp [hal, hbl], by simp [hlen], ?_⟩
    · intro s
      unfold packZip
      rw [bind_pure_ok (ha s), bind_pure_ok (hb s)]
      rfl
    · intro pre rest s
      unfold unpackSeq
      have e1 : pre ++ (a ++ b) ++ rest = pre ++ a ++ (b ++ rest) := by simp [List.append_assoc]
      have e2 : pre ++ (a ++ b) ++ rest = (pre ++ a) ++ b ++ rest := by simp [List.append_assoc]
      rw [bind_pure_ok (by rw [e1]; exact hau pre (b ++ rest) s)]
      have e3 : pre.length + sc.bitlen = (pre ++ a).length := by simp [hal]
      rw [bind_pure_ok (by rw [e2, e3]; exact hbu (pre ++ a) rest s)]
      rfl

theorem roundTrip_rep (sc : Schema) (ih : ∀ v, WellTyped sc v → RoundTrip sc v) :
    ∀ (vs : List Val), (∀ x ∈ vs, WellTyped sc x) →
    ∃ bss : List (List Val), (∀ s, mapM' (packB sc) vs s = .ok (bss, s)) ∧
      bss.flatten.length = sc.bitlen * vs.length ∧
      ∀ (pre rest : List Val) (s : St),
        forRange (fun i => unpackV sc (pre ++ bss.flatten ++ rest) (pre.length + i * sc.bitlen)) 0 vs.length s
          = .ok (vs, s)
  | [], _ => ⟨[], fun _ => by simp [mapM', pure, M.pure], by simp,
      fun _ _ _ => by simp [forRange, pure, M.pure]⟩
  | v :: vs, h => by
    obtain ⟨a, ha, hal, hau⟩ := ih v (h v List.mem_cons_self)
    obtain ⟨bss, hb, hbl, hbu⟩ := roundTrip_rep sc ih vs (fun x hx => h x (List.mem_cons_of_mem _ hx))
    refine ⟨a :: bss, ?_, ?_, ?_⟩
    · intro s
      unfold mapM'
      rw [bind_pure_ok (ha s), bind_pure_ok (hb s)]
      rfl
    · simp [hal, hbl, Nat.mul_add, Nat.add_comm]
    · intro pre rest s
      simp only [List.length_cons, forRange, List.flatten_cons]
      have e1 : pre ++ (a ++ bss.flatten) ++ rest = pre ++ a ++ (bss.flatten ++ rest) := by
        simp [List.append_assoc]
      have e2 : pre ++ (a ++ bss.flatten) ++ rest = (pre ++ a) ++ bss.flatten ++ rest := by
        simp [List.append_assoc]
      rw [bind_pure_ok (by rw [e1]; simpa using hau pre (bss.flatten ++ rest) s)]
      rw [forRange_shift]
      have e3 : (fun j => unpackV sc (pre ++ (a ++ bss.flatten) ++ rest) (pre.length + (j + 1) * sc.bitlen))
          = (fun j => unpackV sc ((pre ++ a) ++ bss.flatten ++ rest) ((pre ++ a).length + j * sc.bitlen)) := by
        funext j
        rw [e2]
        congr 1
        simp only [List.length_append, hal]
        rw [Nat.add_mul, Nat.one_mul]; omega
      rw [e3, bind_pure_ok (hbu (pre ++ a) rest s)]
      rfl

/-- **plain round trip**: packing a well-typed plain value leaves the state alone, produces exactly
`bitlen` bits, and unpacking them (anywhere in a longer bit list) returns the value -/
theorem roundTrip_plain : ∀ (sch : Schema) (v : Val), WellTyped sch v → RoundTrip sch v := by
  intro sch
  induction sch using Schema.induct with
  | hb => exact fun v h => roundTrip_bool h
  | hm m => exact fun v h => roundTrip_intMod h
  | hl ss ih =>
    intro v h
    unfold WellTyped at h
    obtain ⟨hne, vs, rfl, hwt⟩ := h
    obtain ⟨bits, hp, hl, hlen, hu⟩ := roundTrip_zip ss ih vs hwt
    refine ⟨bits, ?_, by simp [hl], ?_⟩
    · intro s
      unfold packB
      have h1 : ss.isEmpty = false := by cases ss with
        | nil => exact (hne rfl).elim
        | cons _ _ => rfl
      have h2 : vs.isEmpty = false := by cases vs with
        | nil => cases ss with
          | nil => exact (hne rfl).elim
          | cons _ _ => simp at hlen
        | cons _ _ => rfl
      simp only [h1, h2, Bool.or_self, Bool.false_eq_true, if_false]
      exact hp s
    · intro pre rest s
      unfold unpackV
      rw [bind_pure_ok (hu pre rest s)]
      rfl
  | hr sc t ih =>
    intro v h
    unfold WellTyped at h
    obtain ⟨ht, vs, rfl, hlen, hwt⟩ := h
    obtain ⟨bss, hp, hl, hu⟩ := roundTrip_rep sc ih vs hwt
    refine ⟨bss.flatten, ?_, by simp [hl, hlen], ?_⟩
    · intro s
      unfold packB
      have h2 : vs.isEmpty = false := by cases vs with
        | nil => simp at hlen; omega
        | cons _ _ => rfl
      simp only [h2, Bool.false_eq_true, if_false]
      rw [bind_pure_ok (hp s)]
      rfl
    · intro pre rest s
      unfold unpackV
      rw [← hlen, bind_pure_ok (hu pre rest s)]
      rfl

/-- `to_bits(n)` accepted with checks on (same content as `C16_bits_roundtrip`) -/
theorem C16_bits_aux {x : LinComb} {n : Nat} {s s' : St} {bs : List LinComb}
    (hi : s.ignoreErrors = false) (h : toBits x (some n) s = .ok (bs, s')) :
    0 ≤ x.value ∧ x.value < 2 ^ n ∧ bs.length = n ∧ bs.map (·.value) = Py.bitsOf x.value n ∧
    fbValue (fromBits bs) = x.value := by
  obtain ⟨h0, h1, hv⟩ := toBits_value hi h
  simp only [Option.getD_some] at h1 hv
  have hl : bs.length = n := by
    have := congrArg List.length hv
    simpa [bitsOf_length] using this
  refine ⟨h0, h1, hl, hv, ?_⟩
  rw [fbValue_fromBits, hv, bitsVal_bitsOf n _ 0 h0 h1]; simp

/-! ## rejection of out-of-range plain values -/
theorem packIntMod_reject {m : Nat} {c : Int} (h : c < 0 ∨ c ≥ m) (s : St) :
    packV (.intMod m) (.int c) s = .error .value := by
  have : (decide (c < 0) || decide (c ≥ (m : Int))) = true := by
    simp only [Bool.or_eq_true, decide_eq_true_eq]; exact h
  unfold packV
  change M.bind (packB (.intMod m) (.int c)) _ s = _
  unfold M.bind packB packIntMod
  simp only [this, if_true]
  rfl

/-! ## `PackBool` on secrets -/
theorem packBool_lc (x : LinComb) (pre rest : List Val) (s : St) :
    packV .bool (.lc x) s = .ok (.list [.lc x], s) ∧
    unpackV .bool (pre ++ [.lc x] ++ rest) pre.length s = .ok (.lc x, s) := by
  refine ⟨rfl, ?_⟩
  unfold unpackV
  rw [getElem?_mid pre (.lc x) [] rest]
  rfl

/-- `PackBool().pack(LinCombBool)` returns the secret boolean itself, and `unpack` hands the same object
back, at any position, without touching the tracer state (repaired: `fix:` commit for C16-pack-bool);
a `LinCombFxp` still raises `NotImplementedError` (`bool(LinCombFxp)`) -/
theorem packBool_lcb (b : LinComb) (pre rest : List Val) (s : St) :
    packV .bool (.lcb b) s = .ok (.list [.lcb b], s) ∧
    unpackV .bool (pre ++ [.lcb b] ++ rest) pre.length s = .ok (.lcb b, s) ∧
    packV .bool (.fxp b) s = .error .notimpl := by
  refine ⟨rfl, ?_, rfl⟩
  unfold unpackV
  rw [getElem?_mid pre (.lcb b) [] rest]
  rfl

/-! ## `PackIntMod` on a secret: pack = `to_bits`, unpack goes through the plain branch -/

def lcTerms : List LinComb → Nat → List LinComb
  | [], _ => []
  | b :: bs, i => b.mulI (2 ^ i) :: lcTerms bs (i+1)

theorem unpackTerms_lcb : ∀ (bs : List LinComb) (i : Nat) (s : St),
    unpackTerms (bs.map .lcb) i s = .ok ((lcTerms bs i).map .lc, s)
  | [], _, _ => rfl
  | b :: bs, i, s => by
    simp only [List.map_cons, unpackTerms, lcTerms]
    rw [bind_pure_ok (show mulV (.int (2 ^ i)) (.lcb b) s = .ok (.lc (b.mulI (2 ^ i)), s) from rfl),
      bind_pure_ok (unpackTerms_lcb bs (i+1) s)]
    rfl

theorem pySum_lc : ∀ (ts : List LinComb) (a : LinComb) (s : St),
    pySum (ts.map .lc) (.lc a) s = .ok (.lc (ts.foldl LinComb.add a), s)
  | [], a, s => by simp [pySum, pure, M.pure]
  | t :: ts, a, s => by
    simp only [List.map_cons, pySum, List.foldl_cons]
    rw [bind_pure_ok (show addV (.lc a) (.lc t) s = .ok (.lc (a.add t), s) from rfl), pySum_lc ts _ s]

theorem foldl_add_value : ∀ (ts : List LinComb) (a : LinComb),
    (ts.foldl LinComb.add a).value = a.value + (ts.map (·.value)).sum
  | [], a => by simp
  | t :: ts, a => by
    simp only [List.foldl_cons, List.map_cons, List.sum_cons]
    rw [foldl_add_value ts]; simp [LinComb.add]; ring

theorem lcTerms_sum : ∀ (bs : List LinComb) (i : Nat),
    ((lcTerms bs i).map (·.value)).sum = bitsVal (bs.map (·.value)) i
  | [], _ => rfl
  | b :: bs, i => by simp [lcTerms, bitsVal, lcTerms_sum bs (i+1), LinComb.mulI]

/-- unpacking `n ≥ 1` `LinCombBool` bits with `PackIntMod`: the plain branch, a `LinComb` whose value
is the binary sum, and NO constraint (in particular no `assert_lt(mod)`): the state is unchanged -/
theorem unpackIntMod_lcb {m : Nat} {bs : List LinComb} (hl : bs.length = modBits m) (hpos : 1 ≤ modBits m)
    (pre rest : List Val) (s : St) :
    ∃ y : LinComb, unpackIntMod m (pre ++ bs.map .lcb ++ rest) pre.length s = .ok (.lc y, s) ∧
      y.value = bitsVal (bs.map (·.value)) 0 := by
  cases bs with
  | nil => simp at hl; omega
  | cons b bs =>
    unfold unpackIntMod
    have hsl := slice_mid pre ((b :: bs).map Val.lcb) rest
    rw [List.length_map, hl] at hsl
    rw [hsl]
    have hfirst : (pre ++ (b :: bs).map Val.lcb ++ rest)[pre.length]? = some (Val.lcb b) := by
      rw [List.map_cons]; exact getElem?_mid _ _ _ _
    rw [hfirst]
    simp only
    rw [bind_pure_ok (unpackTerms_lcb (b :: bs) 0 s)]
    simp only [lcTerms, List.map_cons, pySum]
    rw [bind_pure_ok (show addV (.int 0) (.lc (b.mulI (2 ^ 0))) s = .ok (.lc ((b.mulI (2 ^ 0)).addI 0), s) from rfl),
      pySum_lc]
    refine ⟨_, rfl, ?_⟩
    rw [foldl_add_value, lcTerms_sum]
    simp [bitsVal, LinComb.addI, LinComb.add, LinComb.mulI, LinComb.const]

/-- **secret `PackIntMod` round trip, value level** -/
theorem packIntMod_secret {m : Nat} (hm : 2 ≤ m) {x : LinComb} {s s' : St} {bits : List Val}
    (hi : s.ignoreErrors = false) (h : packV (.intMod m) (.lc x) s = .ok (.list bits, s')) :
    0 ≤ x.value ∧ x.value < 2 ^ modBits m ∧
    ∃ bs : List LinComb, bits = bs.map .lcb ∧ bs.length = modBits m ∧
      bs.map (·.value) = Py.bitsOf x.value (modBits m) ∧
      ∀ (pre rest : List Val) (st : St), ∃ y : LinComb,
        unpackV (.intMod m) (pre ++ bits ++ rest) pre.length st = .ok (.lc y, st) ∧ y.value = x.value := by
  unfold packV at h
  obtain ⟨bits', s1, h1, h2⟩ := bind_ok.mp h
  obtain ⟨hb, -⟩ := pure_ok.mp h2
  simp only [Val.list.injEq] at hb
  subst hb
  unfold packB packIntMod at h1
  obtain ⟨bs, s2, h3, h4⟩ := bind_ok.mp h1
  obtain ⟨rfl, -⟩ := pure_ok.mp h4
  obtain ⟨h0, hlt, hlen, hv, -⟩ := C16_bits_aux hi h3
  refine ⟨h0, hlt, bs, rfl, hlen, hv, ?_⟩
  intro pre rest st
  obtain ⟨y, hy, hyv⟩ := unpackIntMod_lcb hlen (modBits_spec hm).1 pre rest st
  refine ⟨y, ?_, ?_⟩
  · unfold unpackV; exact hy
  · rw [hyv, hv, bitsVal_bitsOf _ _ 0 h0 hlt]; simp

/-- and every `0 ≤ v < 2^bitlen` secret is accepted by `pack` (no guard) — including values `≥ mod`
when `mod` is not a power of two: "lincomb in: no boundary checking" -/
theorem packIntMod_secret_accept {m : Nat} {x : LinComb} {s : St} (hg : s.guard = none)
    (h0 : 0 ≤ x.value) (h1 : x.value < 2 ^ modBits m) :
    ∃ bits s', packV (.intMod m) (.lc x) s = .ok (.list bits, s') := by
  obtain ⟨bs, s', h⟩ := toBits_accept (bits := some (modBits m)) hg h0 h1
  refine ⟨bs.map .lcb, s', ?_⟩
  unfold packV
  rw [bind_pure_ok (show packB (.intMod m) (.lc x) s = .ok (bs.map .lcb, s') from by
    unfold packB packIntMod
    simp only
    rw [bind_pure_ok h]; rfl)]
  rfl

end Pysnark
