import PysnarkModel.Model.Hash
import PysnarkModel.Spec.Poseidon
import PysnarkModel.Lemmas.Monad
import Mathlib.Tactic.Ring
import Mathlib.Tactic.Linarith
import Mathlib.Data.Int.ModEq
/-!
# Lemmas about the hash gadgets: frame/count, values, simulation by the plain specification
-/
/-- `decide +kernel` for the closed Poseidon computations of `Props/C20.lean`.  When the kernel
does NOT evaluate the proposition to `true` (a constant of the table changed), plain
`decide +kernel` builds its error message by re-evaluating the `Decidable` instance with the
elaborator's `whnf`, which on a 68-round permutation over 254-bit numbers does not finish in any
reasonable memory (observed: 60 GB, OOM kill).  `first` drops that lazy message unevaluated, so a
failing obligation fails in seconds with the message below.  Proof terms are the same. -/
macro "kdecide" : tactic =>
  `(tactic| first
    | decide +kernel
    | fail "kdecide: the kernel does not evaluate this closed proposition to `true`")

namespace Pysnark.Hash
open Pysnark Pysnark.Gen

/-! ## what a multiplication does to the state -/

/-- `s'` is `s` after `k` multiplications: modulus, `LinComb.ONE`, guard and public values are
unchanged, `k` constraints and `k` private values were appended -/
structure Fr (s s' : St) (k : Nat) : Prop where
  p : s'.p = s.p
  one : s'.one = s.one
  guard : s'.guard = s.guard
  pub : s'.pub = s.pub
  cons : s'.cons.length = s.cons.length + k
  priv : s'.priv.length = s.priv.length + k

theorem Fr.refl (s : St) : Fr s s 0 := ⟨rfl, rfl, rfl, rfl, rfl, rfl⟩

theorem Fr.trans {s1 s2 s3 : St} {a b : Nat} (h1 : Fr s1 s2 a) (h2 : Fr s2 s3 b) :
    Fr s1 s3 (a + b) :=
  ⟨h2.p.trans h1.p, h2.one.trans h1.one, h2.guard.trans h1.guard, h2.pub.trans h1.pub,
    by rw [h2.cons, h1.cons]; omega, by rw [h2.priv, h1.priv]; omega⟩

theorem Fr.cast {s s' : St} {a b : Nat} (h : Fr s s' a) (e : a = b) : Fr s s' b := e ▸ h

/-- `mulLL` is total and deterministic -/
theorem mulLL_run (a b : LinComb) (s : St) :
    mulLL a b s = .ok (⟨a.value * b.value, [(Wire.priv s.priv.length, 1)]⟩,
      { s with priv := s.priv ++ [a.value * b.value],
               cons := s.cons ++ [(a.lc, b.lc, [(Wire.priv s.priv.length, 1)])] }) := rfl

/-- the value clause of `mulLL_spec`, without any invariant -/
theorem mulLL_value {a b r : LinComb} {s s' : St} (h : mulLL a b s = .ok (r, s')) :
    r.value = a.value * b.value := by
  rw [mulLL_run] at h
  simp only [Except.ok.injEq, Prod.mk.injEq] at h
  rw [← h.1]

theorem mulLL_fr {a b r : LinComb} {s s' : St} (h : mulLL a b s = .ok (r, s')) : Fr s s' 1 := by
  rw [mulLL_run] at h
  simp only [Except.ok.injEq, Prod.mk.injEq] at h
  rw [← h.2]
  exact ⟨rfl, rfl, rfl, rfl, by simp, by simp⟩

/-! ## value lemmas for the constraint-free operations -/

@[simp] theorem addI_value (a : LinComb) (c : Int) : (a.addI c).value = a.value + c := rfl
@[simp] theorem mulI_value (a : LinComb) (c : Int) : (a.mulI c).value = a.value * c := rfl
@[simp] theorem add_value (a b : LinComb) : (a.add b).value = a.value + b.value := rfl
@[simp] theorem reduceValue_value (a : LinComb) (p : Int) : (reduceValue a p).value = a.value % p := rfl
@[simp] theorem zero_value : LinComb.zero.value = 0 := rfl

/-! ## `x ** n` -/

/-- `powLN` is total -/
theorem powLN_total (a : LinComb) : ∀ (n : Nat) (s : St), ∃ r s', powLN a n s = .ok (r, s')
  | 0, s => ⟨_, _, rfl⟩
  | 1, s => ⟨_, _, rfl⟩
  | n + 2, s => by
    obtain ⟨r, s1, h⟩ := powLN_total a (n + 1) s
    refine ⟨⟨a.value * r.value, [(Wire.priv s1.priv.length, 1)]⟩,
      { s1 with priv := s1.priv ++ [a.value * r.value],
                cons := s1.cons ++ [(a.lc, r.lc, [(Wire.priv s1.priv.length, 1)])] }, ?_⟩
    unfold powLN
    exact bind_ok.mpr ⟨r, s1, h, mulLL_run a r s1⟩

/-- `x ** n` costs `n - 1` multiplications; its value is `x.value ^ n` (for `n = 0` the value of
`LinComb.ONE`) -/
theorem powLN_run (a : LinComb) : ∀ (n : Nat) {s s' : St} {r : LinComb},
    powLN a n s = .ok (r, s') →
    Fr s s' (n - 1) ∧ r.value = (if n = 0 then s.one.value else a.value ^ n)
  | 0, s, s', r, h => by
    unfold powLN at h
    simp only [Except.ok.injEq, Prod.mk.injEq] at h
    obtain ⟨rfl, rfl⟩ := h
    exact ⟨Fr.refl _, rfl⟩
  | 1, s, s', r, h => by
    unfold powLN at h
    obtain ⟨rfl, rfl⟩ := pure_ok.mp h
    exact ⟨Fr.refl _, by simp⟩
  | n + 2, s, s', r, h => by
    unfold powLN at h
    obtain ⟨r1, s1, h1, h2⟩ := bind_ok.mp h
    obtain ⟨f1, v1⟩ := powLN_run a (n + 1) h1
    have v2 := mulLL_value h2
    refine ⟨(f1.trans (mulLL_fr h2)).cast (by omega), ?_⟩
    rw [v2, v1]
    simp only [Nat.add_eq_zero_iff, one_ne_zero, and_false, ↓reduceIte, OfNat.ofNat_ne_zero]
    ring

/-- `powLN a n` value = `a.value ^ n` for `n ≥ 1` -/
theorem powLN_value (a : LinComb) (n : Nat) (hn : 1 ≤ n) {s s' : St} {r : LinComb}
    (h : powLN a n s = .ok (r, s')) : r.value = a.value ^ n := by
  have := (powLN_run a n h).2
  rwa [if_neg (by omega)] at this

/-! ## reduction of a value to the canonical representative -/

/-- the canonical representative modulo `q` of the value of `x` -/
def red (q : Nat) (x : LinComb) : Nat := (x.value % (q : Int)).toNat

theorem red_cast (q : Nat) (hq : 0 < q) (x : LinComb) : ((red q x : Nat) : Int) = x.value % (q : Int) :=
  Int.toNat_of_nonneg (Int.emod_nonneg _ (by omega))

theorem red_lt (q : Nat) (hq : 0 < q) (x : LinComb) : red q x < q := by
  have h1 := red_cast q hq x
  have h2 := Int.emod_lt_of_pos x.value (show (0 : Int) < q by omega)
  omega

/-- two `LinComb`s with congruent values have the same `red` -/
theorem red_congr (q : Nat) {x y : LinComb} (h : x.value ≡ y.value [ZMOD q]) : red q x = red q y := by
  unfold red; rw [h]

theorem red_eq_of (q : Nat) (hq : 0 < q) (x : LinComb) (n : Nat) (hn : n < q)
    (h : x.value ≡ (n : Int) [ZMOD q]) : red q x = n := by
  have h1 := red_cast q hq x
  have : (n : Int) % (q : Int) = n := Int.emod_eq_of_lt (by omega) (by omega)
  unfold Int.ModEq at h
  omega

theorem red_modEq (q : Nat) (hq : 0 < q) (x : LinComb) : ((red q x : Nat) : Int) ≡ x.value [ZMOD q] := by
  rw [red_cast q hq]; exact Int.mod_modEq _ _

theorem red_reduceValue (q : Nat) (x : LinComb) : red q (reduceValue x q) = red q x := by
  unfold red; simp

/-! ## the specification is reduced -/
open Spec.Poseidon in
theorem powMod_modEq (q : Nat) (x : Nat) (v : Int) (h : (x : Int) ≡ v [ZMOD q]) :
    ∀ n : Nat, ((powMod q x n : Nat) : Int) ≡ v ^ n [ZMOD q]
  | 0 => by
    simp only [powMod, pow_zero]; push_cast; exact Int.mod_modEq _ _
  | n + 1 => by
    simp only [powMod, pow_succ]; push_cast
    exact (Int.mod_modEq _ _).trans ((powMod_modEq q x v h n).mul h)

open Spec.Poseidon in
theorem powMod_lt (q : Nat) (hq : 0 < q) (x : Nat) : ∀ n : Nat, powMod q x n < q
  | 0 => Nat.mod_lt _ hq
  | _ + 1 => Nat.mod_lt _ hq

/-! ## `addRC` -/
open Spec.Poseidon in
theorem addRC_red (q : Nat) (hq : 0 < q) : ∀ (sp : List LinComb) (rc : List Nat),
    (addRC sp rc).map (red q) = addConsts q (sp.map (red q)) rc
  | [], _ => by simp [addRC, addConsts]
  | _ :: _, [] => by simp [addRC, addConsts]
  | x :: sp, c :: rc => by
    have ih := addRC_red q hq sp rc
    simp only [addRC, addConsts, List.zip_cons_cons, List.map_cons, List.zipWith_cons_cons] at ih ⊢
    rw [ih]
    congr 1
    apply red_eq_of q hq _ _ (Nat.mod_lt _ hq)
    push_cast
    rw [addI_value]
    exact ((Int.mod_modEq _ _).trans ((red_modEq q hq x).add_right _)).symm

theorem addRC_length (sp : List LinComb) (rc : List Nat) :
    (addRC sp rc).length = min sp.length rc.length := by simp [addRC]

/-! ## the S-box layer -/

open Spec.Poseidon in
theorem powLN_red (q : Nat) (hq : 0 < q) (x : LinComb) (a : Nat) {s s' : St} {r : LinComb}
    (hone : s.one.value = 1) (h : powLN x a s = .ok (r, s')) :
    red q r = powMod q (red q x) a := by
  obtain ⟨_, v⟩ := powLN_run x a h
  apply red_eq_of q hq _ _ (powMod_lt q hq _ _)
  have hv : r.value = x.value ^ a := by
    rw [v]; split
    · rename_i h0; rw [h0, hone]; simp
    · rfl
  rw [hv]
  exact (powMod_modEq q _ _ (red_modEq q hq x) a).symm

/-- the state-dependent hypotheses of the value statements: the modulus is `q` and `LinComb.ONE`
has value 1 (true outside guarded regions, where `LinComb.ONE = ONE_SAFE`) -/
def Ok (q : Nat) (s : St) : Prop := s.p = (q : Int) ∧ s.one.value = 1

theorem Ok.fr {q : Nat} {s s' : St} {k : Nat} (h : Ok q s) (f : Fr s s' k) : Ok q s' :=
  ⟨f.p.trans h.1, by rw [f.one]; exact h.2⟩

open Spec.Poseidon in
theorem sboxFull_run (q : Nat) (hq : 0 < q) (a : Nat) : ∀ (sp : List LinComb) {s s' : St}
    {out : List LinComb},
    mapM' (fun x => powLN x a) sp s = .ok (out, s') →
    Fr s s' (sp.length * (a - 1)) ∧ out.length = sp.length ∧
      (Ok q s → out.map (red q) = sboxFull q a (sp.map (red q)))
  | [], s, s', out, h => by
    unfold mapM' at h
    obtain ⟨rfl, rfl⟩ := pure_ok.mp h
    exact ⟨(Fr.refl _).cast (by simp), rfl, fun _ => rfl⟩
  | x :: sp, s, s', out, h => by
    unfold mapM' at h
    obtain ⟨y, s1, h1, h⟩ := bind_ok.mp h
    obtain ⟨ys, s2, h2, h⟩ := bind_ok.mp h
    obtain ⟨rfl, rfl⟩ := pure_ok.mp h
    obtain ⟨f1, _⟩ := powLN_run x a h1
    obtain ⟨f2, l2, r2⟩ := sboxFull_run q hq a sp h2
    refine ⟨(f1.trans f2).cast (by simp only [List.length_cons]; ring), by simp [l2], ?_⟩
    intro ok
    have r1 := powLN_red q hq x a ok.2 h1
    have r2 := r2 (ok.fr f1)
    simp only [List.map_cons, sboxFull] at r2 ⊢
    rw [r1, r2]

open Spec.Poseidon in
theorem sbox_run (q : Nat) (hq : 0 < q) (a : Nat) (full : Bool) (sp : List LinComb) {s s' : St}
    {out : List LinComb} (h : sbox a full sp s = .ok (out, s')) :
    Fr s s' ((if full then sp.length else 1) * (a - 1)) ∧ out.length = sp.length ∧
      (Ok q s → out.map (red q) =
        (if full then sboxFull q a (sp.map (red q)) else sboxPartial q a (sp.map (red q)))) := by
  unfold sbox at h
  cases full with
  | true => simpa using sboxFull_run q hq a sp h
  | false =>
    simp only [Bool.false_eq_true, ↓reduceIte] at h ⊢
    cases sp with
    | nil => exact absurd h (by simp [raise])
    | cons x xs =>
      simp only at h
      obtain ⟨y, s1, h1, h⟩ := bind_ok.mp h
      obtain ⟨rfl, rfl⟩ := pure_ok.mp h
      obtain ⟨f1, _⟩ := powLN_run x a h1
      refine ⟨f1.cast (by simp), by simp, ?_⟩
      intro ok
      simp only [List.map_cons, sboxPartial]
      rw [powLN_red q hq x a ok.2 h1]

/-! ## the mix layer -/

theorem dotRow_value_aux : ∀ (l : List (LinComb × Nat)) (acc : LinComb),
    (l.foldl (fun acc yc => acc.add (yc.1.mulI (yc.2 : Int))) acc).value =
      acc.value + (l.map fun yc => yc.1.value * (yc.2 : Int)).sum
  | [], acc => by simp
  | yc :: l, acc => by
    rw [List.foldl_cons, dotRow_value_aux l, add_value, mulI_value, List.map_cons, List.sum_cons]
    ring

theorem dotRow_value (row : List Nat) (y : List LinComb) :
    (dotRow row y).value = ((y.zip row).map fun yc => yc.1.value * (yc.2 : Int)).sum := by
  unfold dotRow; rw [dotRow_value_aux]; simp

open Spec.Poseidon in
theorem dot_lt (q : Nat) (hq : 0 < q) (row st : List Nat) : dot q row st < q ∨ dot q row st = 0 := by
  unfold dot
  cases (List.zipWith (fun c x => c * x) row st) with
  | nil => right; rfl
  | cons a l => left; exact Nat.mod_lt _ hq

open Spec.Poseidon in
theorem dot_modEq (q : Nat) (hq : 0 < q) : ∀ (y : List LinComb) (row : List Nat),
    ((dot q row (y.map (red q)) : Nat) : Int) ≡
      ((y.zip row).map fun yc => yc.1.value * (yc.2 : Int)).sum [ZMOD q]
  | [], row => by cases row <;> simp [dot]
  | _ :: _, [] => by simp [dot]
  | x :: y, c :: row => by
    have ih := dot_modEq q hq y row
    simp only [dot, List.map_cons, List.zipWith_cons_cons, List.foldr_cons, List.zip_cons_cons,
      List.sum_cons] at ih ⊢
    push_cast
    refine (Int.mod_modEq _ _).trans (Int.ModEq.add ?_ ih)
    rw [mul_comm]
    exact (red_modEq q hq x).mul_right _

open Spec.Poseidon in
theorem dotRow_red (q : Nat) (hq : 0 < q) (row : List Nat) (y : List LinComb) :
    red q (dotRow row y) = dot q row (y.map (red q)) := by
  have hlt : dot q row (y.map (red q)) < q := by
    rcases dot_lt q hq row (y.map (red q)) with h | h
    · exact h
    · rw [h]; exact hq
  apply red_eq_of q hq _ _ hlt
  rw [dotRow_value]
  exact (dot_modEq q hq y row).symm

theorem mapM'_pure_ok {α β : Type} (c : α → Bool) (g : α → β) (e : Err) : ∀ (l : List α) {s s' : St}
    {out : List β},
    mapM' (fun x => if c x then raise e else pure (g x)) l s = .ok (out, s') →
    out = l.map g ∧ s' = s ∧ ∀ x ∈ l, c x = false
  | [], s, s', out, h => by
    unfold mapM' at h
    obtain ⟨rfl, rfl⟩ := pure_ok.mp h
    exact ⟨rfl, rfl, by simp⟩
  | x :: l, s, s', out, h => by
    unfold mapM' at h
    obtain ⟨y, s1, h1, h⟩ := bind_ok.mp h
    obtain ⟨ys, s2, h2, h⟩ := bind_ok.mp h
    obtain ⟨rfl, rfl⟩ := pure_ok.mp h
    cases hc : c x with
    | true => rw [hc] at h1; exact absurd h1 (by simp [raise])
    | false =>
      rw [hc] at h1
      obtain ⟨rfl, rfl⟩ := pure_ok.mp h1
      obtain ⟨rfl, rfl, h3⟩ := mapM'_pure_ok c g e l h2
      refine ⟨rfl, rfl, ?_⟩
      intro z hz
      rcases List.mem_cons.mp hz with rfl | hz
      · exact hc
      · exact h3 z hz

/-- the first row of the matrix: its length is the state width the mix layer accepts -/
def width (P : PoseidonParams) : Nat := (P.matrix.headD []).length

open Spec.Poseidon in
theorem mix_run (q : Nat) (hq : 0 < q) (matrix : List (List Nat)) (sp : List LinComb) {s s' : St}
    {out : List LinComb} (h : mix matrix sp s = .ok (out, s')) :
    s' = s ∧ out.length = matrix.length ∧ sp.length = (matrix.headD []).length ∧
      out.map (red q) = mds q matrix (sp.map (red q)) := by
  unfold mix at h
  cases matrix with
  | nil => exact absurd h (by simp [raise])
  | cons row0 rest =>
    simp only at h
    split at h
    · exact absurd h (by simp [raise])
    · rename_i hlen
      split at h
      · exact absurd h (by simp [raise])
      · have := mapM'_pure_ok (fun row : List Nat => decide (row.length < sp.length))
          (fun row => dotRow row sp) Err.index (row0 :: rest) (s := s) (s' := s') (out := out)
          (by simpa using h)
        obtain ⟨rfl, rfl, _⟩ := this
        refine ⟨rfl, by simp, ?_, ?_⟩
        · simp only [bne_iff_ne, ne_eq, Decidable.not_not] at hlen
          simp [hlen]
        · simp only [mds, List.map_map]
          apply List.map_congr_left
          intro row _
          exact dotRow_red q hq row sp

/-! ## one round, a loop of rounds, the permutation -/

theorem getSt_bind' {β} (f : St → M β) (s : St) : (getSt >>= f) s = f s s := rfl

/-- the specification's round, selected by the same flag as the model's -/
def specRound (P : PoseidonParams) (q : Nat) (full : Bool) (st : List Nat) (r : Nat) : List Nat :=
  if full then Spec.Poseidon.fullRound P q st r else Spec.Poseidon.partialRound P q st r

/-- multiplications per round -/
def roundCost (P : PoseidonParams) (full : Bool) : Nat := (if full then width P else 1) * (P.a - 1)

theorem round_run (q : Nat) (hq : 0 < q) (P : PoseidonParams) (full : Bool) (r : Nat)
    (sp : List LinComb) {s s' : St} {out : List LinComb}
    (h : round P full r sp s = .ok (out, s')) :
    Fr s s' (roundCost P full) ∧ out.length = P.matrix.length ∧
      (Ok q s → out.map (red q) = specRound P q full (sp.map (red q)) r) := by
  unfold round at h
  cases hrc : P.roundConstants[r]? with
  | none =>
    rw [hrc] at h
    obtain ⟨rc, s0, h0, h⟩ := bind_ok.mp h
    exact absurd h0 (by simp [raise])
  | some rc =>
    rw [hrc] at h
    obtain ⟨rc1, s0, h0, ha⟩ := bind_ok.mp h
    clear h
    obtain ⟨e1, e2⟩ := pure_ok.mp h0
    clear h0
    subst e1 e2
    dsimp only at ha
    obtain ⟨sp2, s2, h2, hb⟩ := bind_ok.mp ha
    clear ha
    obtain ⟨sp3, s3, h3, hc⟩ := bind_ok.mp hb
    clear hb
    rw [getSt_bind'] at hc
    obtain ⟨rfl, rfl⟩ := pure_ok.mp hc
    obtain ⟨f2, l2, v2⟩ := sbox_run q hq P.a full (addRC sp rc1) h2
    obtain ⟨rfl, l3, w3, v3⟩ := mix_run q hq P.matrix sp2 h3
    have hrcD : P.roundConstants.getD r [] = rc1 := by
      rw [List.getD_eq_getElem?_getD, hrc]; rfl
    refine ⟨f2.cast ?_, by simpa using l3, ?_⟩
    · unfold roundCost width
      cases full with
      | true => simp only [↓reduceIte]; rw [← w3, l2]
      | false => rfl
    · intro ok
      rw [List.map_map]
      have : (red q ∘ fun x => reduceValue x s'.p) = red q := by
        funext x
        simp only [Function.comp]
        rw [f2.p, ok.1]; exact red_reduceValue q x
      rw [this, v3, v2 ok, addRC_red q hq]
      unfold specRound Spec.Poseidon.fullRound Spec.Poseidon.partialRound
      rw [hrcD]
      cases full <;> rfl

theorem rounds_run (q : Nat) (hq : 0 < q) (P : PoseidonParams) (full : Bool) :
    ∀ (rs : List Nat) (sp : List LinComb) {s s' : St} {out : List LinComb},
    rounds P full rs sp s = .ok (out, s') →
    Fr s s' (rs.length * roundCost P full) ∧ (rs ≠ [] → out.length = P.matrix.length) ∧
      (Ok q s → out.map (red q) = rs.foldl (specRound P q full) (sp.map (red q)))
  | [], sp, s, s', out, h => by
    unfold rounds at h
    obtain ⟨rfl, rfl⟩ := pure_ok.mp h
    exact ⟨(Fr.refl _).cast (by simp), by simp, fun _ => rfl⟩
  | r :: rs, sp, s, s', out, h => by
    unfold rounds at h
    obtain ⟨sp1, s1, h1, h⟩ := bind_ok.mp h
    obtain ⟨f1, l1, v1⟩ := round_run q hq P full r sp h1
    obtain ⟨f2, l2, v2⟩ := rounds_run q hq P full rs sp1 h
    refine ⟨(f1.trans f2).cast (by simp only [List.length_cons]; ring), ?_, ?_⟩
    · intro _
      cases rs with
      | nil =>
        unfold rounds at h
        obtain ⟨rfl, rfl⟩ := pure_ok.mp h
        exact l1
      | cons r' rs' => exact l2 (by simp)
    · intro ok
      rw [v2 (ok.fr f1), v1 ok]; rfl

/-- multiplications (= constraints = fresh private values) of one `permute` call -/
def permCount (P : PoseidonParams) : Nat := (2 * (P.rF / 2) * width P + P.rP) * (P.a - 1)

theorem permute_run (q : Nat) (hq : 0 < q) (P : PoseidonParams) (sp : List LinComb) {s s' : St}
    {out : List LinComb} (h : permute P sp s = .ok (out, s')) :
    Fr s s' (permCount P) ∧
      (Ok q s → out.map (red q) = Spec.Poseidon.permute P q (sp.map (red q))) := by
  unfold permute at h
  obtain ⟨sp1, s1, h1, h⟩ := bind_ok.mp h
  obtain ⟨sp2, s2, h2, h3⟩ := bind_ok.mp h
  obtain ⟨f1, _, v1⟩ := rounds_run q hq P true _ sp h1
  obtain ⟨f2, _, v2⟩ := rounds_run q hq P false _ sp1 h2
  obtain ⟨f3, _, v3⟩ := rounds_run q hq P true _ sp2 h3
  refine ⟨((f1.trans f2).trans f3).cast ?_, ?_⟩
  · simp only [List.length_map, List.length_range, roundCost, permCount, ↓reduceIte,
      Bool.false_eq_true]
    ring
  · intro ok
    rw [v3 ((ok.fr f1).fr f2), v2 (ok.fr f1), v1 ok]
    unfold Spec.Poseidon.permute
    simp only [List.foldl_map]
    rfl

/-! ## the sponge -/

open Spec.Poseidon in
theorem absorb_red (q : Nat) (hq : 0 < q) (sp blk : List LinComb) :
    (Hash.absorb sp blk).map (red q) = Spec.Poseidon.absorb q (sp.map (red q)) (blk.map (red q)) := by
  cases sp with
  | nil => simp [Hash.absorb, Spec.Poseidon.absorb]
  | cons c rest =>
    simp only [Hash.absorb, Spec.Poseidon.absorb, List.take_succ_cons, List.take_zero,
      List.drop_succ_cons, List.drop_zero, List.map_cons,
      List.singleton_append, List.cons.injEq, true_and]
    induction rest generalizing blk with
    | nil => simp
    | cons x rest ih =>
      cases blk with
      | nil => simp
      | cons b blk =>
        simp only [List.zip_cons_cons, List.map_cons, List.zipWith_cons_cons, List.cons.injEq]
        refine ⟨?_, ih blk⟩
        apply red_eq_of q hq _ _ (Nat.mod_lt _ hq)
        push_cast
        rw [add_value]
        exact ((Int.mod_modEq _ _).trans ((red_modEq q hq x).add (red_modEq q hq b))).symm

theorem hashRounds_run (q : Nat) (hq : 0 < q) (P : PoseidonParams) (ipr : Nat)
    (inputs : List LinComb) : ∀ (n k : Nat) (sp : List LinComb) {s s' : St} {out : List LinComb},
    hashRounds P ipr inputs (List.range' k n) sp s = .ok (out, s') →
    Fr s s' (n * permCount P) ∧
      (Ok q s → out.map (red q) =
        Spec.Poseidon.absorbAll P q ipr n (sp.map (red q)) ((inputs.map (red q)).drop (k * ipr)))
  | 0, k, sp, s, s', out, h => by
    simp only [List.range'_zero] at h
    unfold hashRounds at h
    obtain ⟨rfl, rfl⟩ := pure_ok.mp h
    exact ⟨(Fr.refl _).cast (by simp), fun _ => rfl⟩
  | n + 1, k, sp, s, s', out, h => by
    rw [List.range'_succ] at h
    unfold hashRounds at h
    obtain ⟨sp1, s1, h1, h⟩ := bind_ok.mp h
    obtain ⟨f1, v1⟩ := permute_run q hq P _ h1
    obtain ⟨f2, v2⟩ := hashRounds_run q hq P ipr inputs n (k + 1) sp1 h
    refine ⟨(f1.trans f2).cast (by ring), ?_⟩
    intro ok
    rw [v2 (ok.fr f1), v1 ok, absorb_red q hq]
    have e1 : k * ipr + ipr - k * ipr = ipr := by omega
    have e2 : (k + 1) * ipr = k * ipr + ipr := Nat.succ_mul k ipr
    simp only [Spec.Poseidon.absorbAll, List.map_take, List.map_drop, List.drop_drop, e2, e1]

theorem padded_length (ipr len : Nat) (h : 0 < ipr) :
    len + 1 + (ipr - len % ipr - 1) = ipr * (len / ipr + 1) := by
  have h1 := Nat.mod_lt len h
  have h2 := Nat.div_add_mod len ipr
  have h3 : ipr * (len / ipr + 1) = ipr * (len / ipr) + ipr := by ring
  omega

/-- multiplications of one `poseidon_hash` call on `len` inputs -/
def hashCount (P : PoseidonParams) (len : Nat) : Nat := (len / (P.t - 1) + 1) * permCount P

theorem poseidonHash_run (q : Nat) (hq : 1 < q) (P : PoseidonParams) (inputs : List LinComb)
    {s s' : St} {out : List LinComb} (h : poseidonHash P inputs s = .ok (out, s')) :
    Fr s s' (hashCount P inputs.length) ∧
      (Ok q s → out.map (red q) = Spec.Poseidon.hash P q (inputs.map (red q))) := by
  unfold poseidonHash at h
  simp only at h
  split at h
  · exact absurd h (by simp [raise])
  · rename_i hipr
    rw [getSt_bind'] at h
    split at h
    · exact absurd h (by simp [raise])
    · obtain ⟨sp, s1, h1, h⟩ := bind_ok.mp h
      obtain ⟨rfl, rfl⟩ := pure_ok.mp h
      have hlen : (inputs ++ [s.one] ++ List.replicate (P.t - 1 - inputs.length % (P.t - 1) - 1)
          LinComb.zero).length = (P.t - 1) * (inputs.length / (P.t - 1) + 1) := by
        simp only [List.length_append, List.length_cons, List.length_nil, List.length_replicate]
        exact padded_length _ _ (by omega)
      rw [List.range_eq_range', hlen, Nat.mul_div_cancel_left _ (by omega : 0 < P.t - 1)] at h1
      obtain ⟨f1, v1⟩ := hashRounds_run q (by omega) P _ _ _ 0 _ h1
      refine ⟨f1, ?_⟩
      intro ok
      have hone := ok.2
      rw [List.map_drop, v1 ok]
      unfold Spec.Poseidon.hash
      have hred : (inputs.map (red q)).map (· % q) = inputs.map (red q) := by
        rw [List.map_map]
        apply List.map_congr_left
        intro x _
        exact Nat.mod_eq_of_lt (red_lt q (by omega) x)
      have hone' : red q s.one = 1 := by
        unfold red; rw [hone]
        have : (1 : Int) % (q : Int) = 1 := Int.emod_eq_of_lt (by omega) (by omega)
        rw [this]; rfl
      have hzero : red q LinComb.zero = 0 := by simp [red]
      have hpad : (inputs ++ [s.one] ++ List.replicate (P.t - 1 - inputs.length % (P.t - 1) - 1)
          LinComb.zero).map (red q) = Spec.Poseidon.pad (P.t - 1) (inputs.map (red q)) := by
        simp only [List.map_append, List.map_cons, List.map_replicate, hone', hzero,
          Spec.Poseidon.pad, List.length_map, List.append_assoc, List.singleton_append]
        congr 3
        omega
      have hplen : (Spec.Poseidon.pad (P.t - 1) (inputs.map (red q))).length =
          (P.t - 1) * (inputs.length / (P.t - 1) + 1) := by
        rw [← hpad, List.length_map, hlen]
      simp only [hred, hplen, Nat.mul_div_cancel_left _ (by omega : 0 < P.t - 1), hpad,
        Nat.zero_mul, List.drop_zero, List.map_replicate, hzero]

/-! ## totality: on well-shaped parameters and a state of the right width nothing can raise -/

/-- shape of a parameter set: a `t × t` matrix and enough rows of `t` round constants -/
def ParamsWF (P : PoseidonParams) : Prop :=
  0 < P.t ∧ P.matrix.length = P.t ∧ (∀ row ∈ P.matrix, row.length = P.t) ∧
  2 * (P.rF / 2) + P.rP ≤ P.roundConstants.length ∧ (∀ rc ∈ P.roundConstants, rc.length = P.t)

instance (P : PoseidonParams) : Decidable (ParamsWF P) := by unfold ParamsWF; infer_instance

theorem ParamsWF.width {P : PoseidonParams} (h : ParamsWF P) : width P = P.t := by
  obtain ⟨h0, h1, h2, _⟩ := h
  unfold Hash.width
  cases hm : P.matrix with
  | nil => rw [hm] at h1; simp at h1; omega
  | cons row rest => simp only [List.headD_cons]; exact h2 row (by rw [hm]; simp)

theorem mapM'_total {α β : Type} (f : α → M β) (hf : ∀ x s, ∃ r s', f x s = .ok (r, s')) :
    ∀ (l : List α) (s : St), ∃ out s', mapM' f l s = .ok (out, s') ∧ out.length = l.length
  | [], s => ⟨[], s, rfl, rfl⟩
  | x :: l, s => by
    obtain ⟨y, s1, h1⟩ := hf x s
    obtain ⟨ys, s2, h2, hl⟩ := mapM'_total f hf l s1
    refine ⟨y :: ys, s2, ?_, by simp [hl]⟩
    unfold mapM'
    exact bind_ok.mpr ⟨y, s1, h1, bind_ok.mpr ⟨ys, s2, h2, rfl⟩⟩

theorem sbox_total (a : Nat) (full : Bool) (sp : List LinComb) (hne : sp ≠ []) (s : St) :
    ∃ out s', sbox a full sp s = .ok (out, s') ∧ out.length = sp.length := by
  unfold sbox
  cases full with
  | true => exact mapM'_total _ (fun x s => powLN_total x a s) sp s
  | false =>
    cases sp with
    | nil => exact absurd rfl hne
    | cons x xs =>
      obtain ⟨y, s1, h1⟩ := powLN_total x a s
      exact ⟨y :: xs, s1, bind_ok.mpr ⟨y, s1, h1, rfl⟩, by simp⟩

theorem mix_total (matrix : List (List Nat)) (sp : List LinComb) (hne : sp ≠ [])
    (hm : matrix ≠ []) (hrows : ∀ row ∈ matrix, row.length = sp.length) (s : St) :
    ∃ out s', mix matrix sp s = .ok (out, s') ∧ out.length = matrix.length := by
  unfold mix
  cases matrix with
  | nil => exact absurd rfl hm
  | cons row0 rest =>
    have h0 : row0.length = sp.length := hrows row0 (by simp)
    have hemp : sp.isEmpty = false := by cases sp <;> simp_all
    simp only [h0, bne_self_eq_false, Bool.false_eq_true, ↓reduceIte, hemp]
    have hf : ∀ (x : List Nat) (s : St), x ∈ row0 :: rest → ∃ r s',
        (if x.length < sp.length then (raise Err.index : M LinComb) else pure (dotRow x sp)) s
          = .ok (r, s') := by
      intro x s hx
      rw [if_neg (by rw [hrows x hx]; omega)]
      exact ⟨_, _, rfl⟩
    -- a membership-relativised `mapM'_total`
    have key : ∀ (l : List (List Nat)) (s : St), (∀ x ∈ l, x ∈ row0 :: rest) →
        ∃ out s', mapM' (fun row : List Nat => if row.length < sp.length then
          (raise Err.index : M LinComb) else pure (dotRow row sp)) l s = .ok (out, s') ∧
          out.length = l.length := by
      intro l
      induction l with
      | nil => intro s _; exact ⟨[], s, rfl, rfl⟩
      | cons x l ih =>
        intro s hl
        obtain ⟨y, s1, h1⟩ := hf x s (hl x (by simp))
        obtain ⟨ys, s2, h2, hlen⟩ := ih s1 (fun z hz => hl z (by simp [hz]))
        refine ⟨y :: ys, s2, ?_, by simp [hlen]⟩
        unfold mapM'
        exact bind_ok.mpr ⟨y, s1, h1, bind_ok.mpr ⟨ys, s2, h2, rfl⟩⟩
    exact key (row0 :: rest) s (fun x hx => hx)

theorem round_total (P : PoseidonParams) (hP : ParamsWF P) (full : Bool) (r : Nat)
    (hr : r < P.roundConstants.length) (sp : List LinComb) (hsp : sp.length = P.t) (s : St) :
    ∃ out s', round P full r sp s = .ok (out, s') ∧ out.length = P.t := by
  obtain ⟨h0, h1, h2, _, h4⟩ := hP
  have hrc : P.roundConstants[r]? = some P.roundConstants[r] := List.getElem?_eq_getElem hr
  have hlen1 : (addRC sp P.roundConstants[r]).length = P.t := by
    rw [addRC_length, hsp, h4 _ (List.getElem_mem hr)]; simp
  obtain ⟨sp2, s2, e2, l2⟩ := sbox_total P.a full (addRC sp P.roundConstants[r])
    (by intro h; rw [h] at hlen1; simp at hlen1; omega) s
  have hlen2 : sp2.length = P.t := l2.trans hlen1
  obtain ⟨sp3, s3, e3, l3⟩ := mix_total P.matrix sp2
    (by intro h; rw [h] at hlen2; simp at hlen2; omega)
    (by intro h; rw [h] at h1; simp at h1; omega)
    (fun row hrow => (h2 row hrow).trans hlen2.symm) s2
  refine ⟨sp3.map (fun x => reduceValue x s3.p), s3, ?_, by simp [l3, h1]⟩
  unfold round
  rw [hrc]
  refine bind_ok.mpr ⟨_, s, rfl, ?_⟩
  dsimp only
  exact bind_ok.mpr ⟨sp2, s2, e2, bind_ok.mpr ⟨sp3, s3, e3, rfl⟩⟩

theorem rounds_total (P : PoseidonParams) (hP : ParamsWF P) (full : Bool) :
    ∀ (rs : List Nat) (sp : List LinComb) (s : St), (∀ r ∈ rs, r < P.roundConstants.length) →
    sp.length = P.t → ∃ out s', rounds P full rs sp s = .ok (out, s') ∧ out.length = P.t
  | [], sp, s, _, hsp => ⟨sp, s, rfl, hsp⟩
  | r :: rs, sp, s, hrs, hsp => by
    obtain ⟨sp1, s1, e1, l1⟩ := round_total P hP full r (hrs r (by simp)) sp hsp s
    obtain ⟨out, s', e2, l2⟩ := rounds_total P hP full rs sp1 s1
      (fun r' hr' => hrs r' (by simp [hr'])) l1
    refine ⟨out, s', ?_, l2⟩
    unfold rounds
    exact bind_ok.mpr ⟨sp1, s1, e1, e2⟩

/-- on well-shaped parameters `permute` never raises on a state of `t` elements, whatever the values -/
theorem permute_total (P : PoseidonParams) (hP : ParamsWF P) (sp : List LinComb)
    (hsp : sp.length = P.t) (s : St) :
    ∃ out s', permute P sp s = .ok (out, s') ∧ out.length = P.t := by
  have hrc := hP.2.2.2.1
  obtain ⟨sp1, s1, e1, l1⟩ := rounds_total P hP true (List.range (P.rF / 2)) sp s
    (by intro r hr; simp only [List.mem_range] at hr; omega) hsp
  obtain ⟨sp2, s2, e2, l2⟩ := rounds_total P hP false
    ((List.range P.rP).map (P.rF / 2 + ·)) sp1 s1
    (by intro r hr; simp only [List.mem_map, List.mem_range] at hr; obtain ⟨i, hi, rfl⟩ := hr; omega) l1
  obtain ⟨sp3, s3, e3, l3⟩ := rounds_total P hP true
    ((List.range (P.rF / 2)).map (P.rF / 2 + P.rP + ·)) sp2 s2
    (by intro r hr; simp only [List.mem_map, List.mem_range] at hr; obtain ⟨i, hi, rfl⟩ := hr; omega) l2
  refine ⟨sp3, s3, ?_, l3⟩
  unfold permute
  exact bind_ok.mpr ⟨sp1, s1, e1, bind_ok.mpr ⟨sp2, s2, e2, e3⟩⟩

theorem absorb_length (sp blk : List LinComb) (h1 : 0 < sp.length) (h2 : blk.length = sp.length - 1) :
    (Hash.absorb sp blk).length = sp.length := by
  cases sp with
  | nil => simp at h1
  | cons c rest => simp [Hash.absorb, h2]

theorem hashRounds_total (P : PoseidonParams) (hP : ParamsWF P) (inputs : List LinComb) :
    ∀ (n k : Nat) (sp : List LinComb) (s : St), (k + n) * (P.t - 1) ≤ inputs.length →
    sp.length = P.t →
    ∃ out s', hashRounds P (P.t - 1) inputs (List.range' k n) sp s = .ok (out, s') ∧ out.length = P.t
  | 0, k, sp, s, _, hsp => ⟨sp, s, rfl, hsp⟩
  | n + 1, k, sp, s, hk, hsp => by
    have e2 : (k + 1) * (P.t - 1) = k * (P.t - 1) + (P.t - 1) := Nat.succ_mul k _
    have e3 : (k + (n + 1)) * (P.t - 1) = k * (P.t - 1) + (P.t - 1) + n * (P.t - 1) := by ring
    have hblk : (List.take ((k + 1) * (P.t - 1) - k * (P.t - 1))
        (List.drop (k * (P.t - 1)) inputs)).length = sp.length - 1 := by
      rw [List.length_take, List.length_drop, hsp]
      have : 0 ≤ n * (P.t - 1) := Nat.zero_le _
      omega
    obtain ⟨sp1, s1, h1, l1⟩ := permute_total P hP _
      ((absorb_length sp _ (by rw [hsp]; exact hP.1) hblk).trans hsp) s
    obtain ⟨out, s', h2, l2⟩ := hashRounds_total P hP inputs n (k + 1) sp1 s1
      (by rw [show k + 1 + n = k + (n + 1) by omega]; exact hk) l1
    refine ⟨out, s', ?_, l2⟩
    rw [List.range'_succ]
    unfold hashRounds
    exact bind_ok.mpr ⟨sp1, s1, h1, h2⟩

/-- on well-shaped parameters with `t ≥ 2`, `poseidon_hash` never raises, whatever the inputs -/
theorem poseidonHash_total (P : PoseidonParams) (hP : ParamsWF P) (ht : 2 ≤ P.t)
    (inputs : List LinComb) (s : St) :
    ∃ out s', poseidonHash P inputs s = .ok (out, s') ∧ out.length = P.t - 1 := by
  have hlen : (inputs ++ [s.one] ++ List.replicate (P.t - 1 - inputs.length % (P.t - 1) - 1)
      LinComb.zero).length = (P.t - 1) * (inputs.length / (P.t - 1) + 1) := by
    simp only [List.length_append, List.length_cons, List.length_nil, List.length_replicate]
    exact padded_length _ _ (by omega)
  obtain ⟨sp, s1, h1, l1⟩ := hashRounds_total P hP
    (inputs ++ [s.one] ++ List.replicate (P.t - 1 - inputs.length % (P.t - 1) - 1) LinComb.zero)
    (inputs.length / (P.t - 1) + 1) 0 (List.replicate P.t LinComb.zero) s
    (by rw [hlen, Nat.zero_add, Nat.mul_comm]) (by simp)
  refine ⟨sp.drop 1, s1, ?_, by simp [l1]⟩
  unfold poseidonHash
  simp only
  rw [if_neg (by omega), getSt_bind']
  rw [if_neg (by rw [hlen]; simp)]
  rw [hlen, Nat.mul_div_cancel_left _ (by omega : 0 < P.t - 1), List.range_eq_range']
  exact bind_ok.mpr ⟨sp, s1, h1, rfl⟩

/-! ## padding -/
open Spec.Poseidon in
theorem replicate_one_inj : ∀ (a b : Nat) (u v : List Nat),
    List.replicate a 0 ++ 1 :: u = List.replicate b 0 ++ 1 :: v → a = b ∧ u = v
  | 0, 0, u, v, h => by simpa using h
  | 0, b + 1, u, v, h => by simp [List.replicate_succ] at h
  | a + 1, 0, u, v, h => by simp [List.replicate_succ] at h
  | a + 1, b + 1, u, v, h => by
    simp only [List.replicate_succ, List.cons_append, List.cons.injEq, true_and] at h
    obtain ⟨h1, h2⟩ := replicate_one_inj a b u v h
    exact ⟨by omega, h2⟩

/-- "append 1, then any number of zeros" is injective: strip the trailing zeros, then the 1 -/
theorem pad_shape_injective (xs ys : List Nat) (a b : Nat)
    (h : xs ++ 1 :: List.replicate a 0 = ys ++ 1 :: List.replicate b 0) : xs = ys := by
  have h' := congrArg List.reverse h
  simp only [List.reverse_append, List.reverse_cons, List.reverse_replicate, List.append_assoc,
    List.singleton_append] at h'
  exact List.reverse_inj.mp (replicate_one_inj a b _ _ h').2

theorem pad_injective (rate : Nat) (xs ys : List Nat)
    (h : Spec.Poseidon.pad rate xs = Spec.Poseidon.pad rate ys) : xs = ys :=
  pad_shape_injective xs ys _ _ h

theorem pad_length (rate : Nat) (hr : 0 < rate) (xs : List Nat) :
    (Spec.Poseidon.pad rate xs).length = rate * (xs.length / rate + 1) := by
  simp only [Spec.Poseidon.pad, List.length_append, List.length_cons, List.length_replicate]
  have := padded_length rate xs.length hr
  omega

/-! ## the subset-sum hash -/

/-- `Σ bᵢ.value · coefᵢ` -/
def gghSum (coefs : List Int) (bits : List Bit) : Int :=
  ((bits.zip coefs).map fun bc => bc.1.value * bc.2).sum

theorem gghPlain_modEq (p : Int) : ∀ (cs bs : List Int) (total : Int),
    gghPlain p cs bs total ≡ total + ((bs.zip cs).map fun bc => bc.1 * bc.2).sum [ZMOD p]
  | [], bs, total => by cases bs <;> simp [gghPlain]
  | _ :: _, [], total => by simp [gghPlain]
  | c :: cs, b :: bs, total => by
    simp only [gghPlain, List.zip_cons_cons, List.map_cons, List.sum_cons]
    refine (gghPlain_modEq p cs bs _).trans ?_
    rw [← add_assoc]
    exact (Int.mod_modEq _ _).add_right _

theorem gghStep_modEq (p : Int) (total t' : Total) (b : Bit) (c : Int)
    (h : gghStep p total b c = .ok t') : t'.value ≡ total.value + b.value * c [ZMOD p] := by
  cases total <;> cases b <;> simp only [gghStep, Except.ok.injEq, reduceCtorEq] at h <;> subst h <;>
    simp only [Total.value, Bit.value, reduceValue_value, addI_value, mulI_value, add_value]
  · rw [add_comm]; exact Int.mod_modEq _ _
  · exact Int.mod_modEq _ _
  · exact Int.mod_modEq _ _

theorem gghNonplain_modEq (p : Int) : ∀ (cs : List Int) (bs : List Bit) (total t' : Total),
    gghNonplain p cs bs total = .ok t' → t'.value ≡ total.value + gghSum cs bs [ZMOD p]
  | [], bs, total, t', h => by
    cases bs <;> simp only [gghNonplain, Except.ok.injEq] at h <;> subst h <;> simp [gghSum]
  | _ :: _, [], total, t', h => by
    simp only [gghNonplain, Except.ok.injEq] at h; subst h; simp [gghSum]
  | c :: cs, b :: bs, total, t', h => by
    simp only [gghNonplain] at h
    cases hs : gghStep p total b c with
    | error e => rw [hs] at h; cases h
    | ok t1 =>
      rw [hs] at h
      have h1 := gghStep_modEq p total t1 b c hs
      have h2 := gghNonplain_modEq p cs bs t1 t' h
      simp only [gghSum, List.zip_cons_cons, List.map_cons, List.sum_cons] at h2 ⊢
      rw [← add_assoc]
      exact h2.trans (h1.add_right _)

theorem gghHash_run (coefs : List Int) (bits : List Bit) {s s' : St} {t : Total}
    (h : gghHash coefs bits s = .ok (t, s')) :
    s' = s ∧ t.value ≡ gghSum coefs bits [ZMOD s.p] := by
  unfold gghHash at h
  split at h
  · cases hn : gghNonplain s.p coefs bits (.int 0) with
    | error e => rw [hn] at h; cases h
    | ok t1 =>
      rw [hn] at h
      simp only [Except.ok.injEq, Prod.mk.injEq] at h
      obtain ⟨rfl, rfl⟩ := h
      have := gghNonplain_modEq s.p coefs bits _ _ hn
      simp only [Total.value, zero_add] at this
      exact ⟨rfl, this⟩
  · simp only [Except.ok.injEq, Prod.mk.injEq] at h
    obtain ⟨rfl, rfl⟩ := h
    refine ⟨rfl, ?_⟩
    have := gghPlain_modEq s.p coefs (bits.map Bit.value) 0
    simp only [zero_add] at this
    simp only [Total.value, gghSum]
    refine this.trans ?_
    rw [List.zip_map_left, List.map_map]
    rfl

end Pysnark.Hash
