import PysnarkModel.Model.PyInt
import Mathlib.NumberTheory.LucasPrimality
import Mathlib.Tactic.NormNum.Prime
/-!
# Pratt certificates on top of Mathlib's `lucas_primality`

`Py.powMod` (the model's square-and-multiply, structural on fuel) is shown to compute the power in
`ZMod m`; a Pratt step then reduces primality of `p` to kernel evaluation of a few modular
exponentiations (`decide +kernel`, no axioms beyond the standard three).
-/
namespace Pysnark.Pratt
open Pysnark.Py

theorem powModAux_cast (m : Nat) : ∀ fuel b e acc, e < 2 ^ fuel →
    ((powModAux m fuel b e acc : ℕ) : ZMod m) = (acc : ZMod m) * (b : ZMod m) ^ e := by
  intro fuel
  induction fuel with
  | zero => intro b e acc h; simp at h; subst h; simp [powModAux]
  | succ n ih =>
    intro b e acc h
    unfold powModAux
    split
    · next h0 => subst h0; simp
    · next h0 =>
      have hlt : e / 2 < 2 ^ n := by
        have : 2 ^ (n+1) = 2 * 2 ^ n := by ring
        omega
      rw [ih _ _ _ hlt]
      have he : e = 2 * (e / 2) + e % 2 := by omega
      rcases Nat.mod_two_eq_zero_or_one e with h2 | h2
      · simp only [h2]
        conv_rhs => rw [he, h2, Nat.add_zero, pow_mul]
        simp [ZMod.natCast_mod, sq]
      · simp only [h2]
        conv_rhs => rw [he, h2, pow_succ, pow_mul]
        simp [ZMod.natCast_mod, sq]; ring

theorem powMod_cast (b e m : Nat) : ((powMod b e m : ℕ) : ZMod m) = (b : ZMod m) ^ e := by
  unfold powMod
  rw [powModAux_cast _ _ _ _ _ (Nat.lt_log2_self)]
  simp [ZMod.natCast_mod]

theorem powModAux_lt (m : Nat) (hm : 0 < m) : ∀ fuel b e acc, acc < m → powModAux m fuel b e acc < m := by
  intro fuel
  induction fuel with
  | zero => intro b e acc h; simpa [powModAux]
  | succ n ih =>
    intro b e acc h
    unfold powModAux
    split
    · exact h
    · apply ih; split
      · exact Nat.mod_lt _ hm
      · exact h

theorem powMod_lt (b e m : Nat) (hm : 1 < m) : powMod b e m < m :=
  powModAux_lt m (by omega) _ _ _ _ (Nat.mod_lt _ (by omega))

theorem powMod_eq_one_iff (b e m : Nat) (hm : 1 < m) : powMod b e m = 1 ↔ (b : ZMod m) ^ e = 1 := by
  rw [← powMod_cast]
  constructor
  · intro h; rw [h]; simp
  · intro h
    have h1 : ((powMod b e m : ℕ) : ZMod m) = ((1 : ℕ) : ZMod m) := by simpa using h
    rw [ZMod.natCast_eq_natCast_iff'] at h1
    rw [Nat.mod_eq_of_lt (powMod_lt b e m hm), Nat.mod_eq_of_lt hm] at h1
    exact h1

theorem prime_dvd_prod_pow {q : ℕ} (hq : q.Prime) : ∀ fs : List (ℕ × ℕ),
    q ∣ (fs.map (fun qe => qe.1 ^ qe.2)).prod → (∀ qe ∈ fs, qe.1.Prime) → ∃ qe ∈ fs, qe.1 = q := by
  intro fs
  induction fs with
  | nil => intro h; simp at h; exact absurd h hq.one_lt.ne'
  | cons x xs ih =>
    intro h hp
    simp only [List.map_cons, List.prod_cons] at h
    rcases (hq.dvd_mul).mp h with h | h
    · have := hq.dvd_of_dvd_pow h
      have hx := hp x List.mem_cons_self
      exact ⟨x, List.mem_cons_self, ((Nat.prime_dvd_prime_iff_eq hq hx).mp this).symm⟩
    · obtain ⟨qe, hm, he⟩ := ih h (fun qe hqe => hp qe (List.mem_cons_of_mem _ hqe))
      exact ⟨qe, List.mem_cons_of_mem _ hm, he⟩

/-- Pratt certificate step -/
theorem pratt (p a : ℕ) (fs : List (ℕ × ℕ)) (hp : 1 < p)
    (hprod : (fs.map (fun qe => qe.1 ^ qe.2)).prod = p - 1)
    (hq : ∀ qe ∈ fs, qe.1.Prime)
    (h1 : powMod a (p-1) p = 1)
    (h2 : ∀ qe ∈ fs, powMod a ((p-1)/qe.1) p ≠ 1) : p.Prime := by
  apply lucas_primality p (a : ZMod p)
  · exact (powMod_eq_one_iff a (p-1) p hp).mp h1
  · intro q hqp hqd
    rw [← hprod] at hqd
    obtain ⟨qe, hm, rfl⟩ := prime_dvd_prod_pow hqp fs hqd hq
    intro hcon
    exact h2 qe hm ((powMod_eq_one_iff a _ p hp).mpr hcon)


end Pysnark.Pratt
