import PysnarkModel.Lemmas.PyTotalRun
/-!
# C05 at program level: the simple documented domain lies inside `pyDomBin`

Operands below `2^(bl-1)` in absolute value, `bl ≥ 1`, `2^(bl+1) < p` (the domain the harness
checks totality on) imply the exact bounds of `pyDomBin`, given the operator-specific side
conditions (positive divisor, non-negative operands of `>>`, `&`, `|`, `^`, bounded public
exponent / shift count, non-negative secret exponent / shift count [at most `bl` for `>>`], 0/1 next
to a boolean).
-/
set_option linter.unusedSimpArgs false
namespace Pysnark

theorem fitsAbs_of_abs_lt {bl : Nat} {d : Int} (h : |d| < 2 ^ bl) : fitsAbs bl d = true := by
  rw [fitsAbs_iff, bitLength_le_iff]
  rw [Int.abs_eq_natAbs] at h
  exact_mod_cast h

theorem nzModP_of_abs_lt {p d : Int} (h : |d| < p) : nzModP p d = true := by
  rw [nzModP_iff]
  by_cases h0 : d = 0
  · exact Or.inl h0
  · right
    intro hm
    exact h0 (Int.eq_zero_of_abs_lt_dvd (Int.dvd_of_emod_eq_zero hm) h)

/-- the side conditions of an operator beyond the size of its operands (`sb`: the exponent / shift
count is a SECRET integer: non-negative, and for `>>` at most the bit length) -/
def pySideOk (bl : Nat) (op : BinOp) (ba bb sb : Bool) (x y : Int) : Prop :=
  (ba = true → y = 0 ∨ y = 1) ∧ (bb = true → x = 0 ∨ x = 1) ∧
  match op with
  | .truediv => y ≠ 0
  | .floordiv | .mod | .divmod => 0 < y
  | .pow => if sb = true then 0 ≤ y else y ≤ 300
  | .lshift => if sb = true then 0 ≤ y else y ≤ 4096
  | .rshift => if sb = true then 0 ≤ y ∧ y ≤ bl else 0 ≤ x
  | .band | .bxor | .bor => 0 ≤ x ∧ 0 ≤ y
  | _ => True

theorem pyDomBin_of_small {p : Int} {bl : Nat} (hbl : 1 ≤ bl) (hp : 2 ^ (bl + 1) < p) {op : BinOp}
    {ba bb sb : Bool} {x y : Int} (hx : |x| < 2 ^ (bl - 1)) (hy : |y| < 2 ^ (bl - 1))
    (hs : pySideOk bl op ba bb sb x y) : pyDomBin p bl op ba bb sb x y = true := by
  obtain ⟨m, rfl⟩ : ∃ m, bl = m + 1 := ⟨bl - 1, by omega⟩
  simp only [Nat.add_sub_cancel] at hx hy
  have e1 : (2 : Int) ^ (m + 1) = 2 * 2 ^ m := by rw [pow_succ]; ring
  have e2 : (2 : Int) ^ (m + 1 + 1) = 4 * 2 ^ m := by rw [pow_succ, pow_succ]; ring
  have hpos : (0 : Int) < 2 ^ m := by positivity
  have ax := abs_lt.mp hx
  have ay := abs_lt.mp hy
  obtain ⟨c1, c2, hs⟩ := hs
  have hc1 : (!ba || is01 y) = true := by
    cases ba with
    | false => rfl
    | true => simpa using is01_iff.mpr (c1 rfl)
  have hc2 : (!bb || is01 x) = true := by
    cases bb with
    | false => rfl
    | true => simpa using is01_iff.mpr (c2 rfl)
  have small : ∀ d : Int, |d| < 2 * 2 ^ m → fitsAbs (m + 1) d = true := fun d hd =>
    fitsAbs_of_abs_lt (by rw [e1]; exact hd)
  have hbits : ∀ z : Int, 0 ≤ z → |z| < 2 ^ m → inBits (m + 1) z = true := by
    intro z z0 hz
    rw [inBits_iff, e1]
    have := abs_lt.mp hz
    omega
  cases op <;> simp only [pySideOk] at hs <;> simp only [pyDomBin, Bool.and_eq_true, hc1, hc2, and_true]
  · -- truediv
    have : nzModP p y = true := nzModP_of_abs_lt (by rw [e2] at hp; omega)
    rcases nzModP_iff.mp this with h0 | h0
    · exact absurd h0 hs
    · simpa using h0
  · simp only [decide_eq_true_eq]; exact ⟨hs, by rw [e1]; omega⟩
  · simp only [decide_eq_true_eq]; exact ⟨hs, by rw [e1]; omega⟩
  · simp only [decide_eq_true_eq]; exact ⟨hs, by rw [e1]; omega⟩
  · -- pow
    cases sb with
    | true => simpa using hbits y (by simpa using hs) hy
    | false => simpa using hs
  · -- lshift
    cases sb with
    | true => simpa using hbits y (by simpa using hs) hy
    | false => simpa using hs
  · -- rshift
    cases sb with
    | true =>
      simp only [if_true] at hs ⊢
      simp only [Bool.and_eq_true, decide_eq_true_eq]
      exact hs
    | false =>
      simp only [Bool.false_eq_true, if_false] at hs ⊢
      exact hbits x hs hx
  · exact ⟨hbits x hs.1 hx, hbits y hs.2 hy⟩
  · exact ⟨hbits x hs.1 hx, hbits y hs.2 hy⟩
  · exact ⟨hbits x hs.1 hx, hbits y hs.2 hy⟩
  · exact small _ (abs_lt.mpr ⟨by omega, by omega⟩)
  · exact small _ (abs_lt.mpr ⟨by omega, by omega⟩)
  · exact nzModP_of_abs_lt (by rw [e2] at hp; exact lt_of_lt_of_le (abs_lt.mpr ⟨by omega, by omega⟩) (by omega : 4 * 2 ^ m ≤ p))
  · exact nzModP_of_abs_lt (by rw [e2] at hp; exact lt_of_lt_of_le (abs_lt.mpr ⟨by omega, by omega⟩) (by omega : 4 * 2 ^ m ≤ p))
  · exact small _ (abs_lt.mpr ⟨by omega, by omega⟩)
  · exact small _ (abs_lt.mpr ⟨by omega, by omega⟩)

/-- the relation asserted by `assert_lt`, … on the reference values -/
def pyAssertHolds : Meth → Int → Int → Prop
  | .assertLt, x, y => x < y
  | .assertLe, x, y => x ≤ y
  | .assertGt, x, y => y < x
  | .assertGe, x, y => y ≤ x
  | .assertEq, x, y => x = y
  | .assertNe, x, y => x ≠ y
  | _, _, _ => True

theorem pyDomAssertCmp_of_small {p : Int} {bl : Nat} (hbl : 1 ≤ bl) (hp : 2 ^ (bl + 1) < p) {m : Meth}
    {x y : Int} (hx : |x| < 2 ^ (bl - 1)) (hy : |y| < 2 ^ (bl - 1)) (hr : pyAssertHolds m x y) :
    pyDomAssertCmp p bl m x y = true := by
  obtain ⟨k, rfl⟩ : ∃ k, bl = k + 1 := ⟨bl - 1, by omega⟩
  simp only [Nat.add_sub_cancel] at hx hy
  have e1 : (2 : Int) ^ (k + 1) = 2 * 2 ^ k := by rw [pow_succ]; ring
  have e2 : (2 : Int) ^ (k + 1 + 1) = 4 * 2 ^ k := by rw [pow_succ, pow_succ]; ring
  have hpos : (0 : Int) < 2 ^ k := by positivity
  have ax := abs_lt.mp hx
  have ay := abs_lt.mp hy
  have small : ∀ d : Int, |d| < 2 * 2 ^ k → fitsAbs (k + 1) d = true := fun d hd =>
    fitsAbs_of_abs_lt (by rw [e1]; exact hd)
  cases m <;> simp only [pyAssertHolds] at hr <;>
    simp only [pyDomAssertCmp, Bool.and_eq_true, decide_eq_true_eq]
  · exact ⟨hr, small _ (abs_lt.mpr ⟨by omega, by omega⟩)⟩
  · exact ⟨hr, small _ (abs_lt.mpr ⟨by omega, by omega⟩)⟩
  · exact hr
  · refine ⟨hr, ?_⟩
    have hnz : nzModP p (x - y) = true :=
      nzModP_of_abs_lt (by rw [e2] at hp; exact lt_of_lt_of_le (abs_lt.mpr ⟨by omega, by omega⟩) (by omega : 4 * 2 ^ k ≤ p))
    rcases nzModP_iff.mp hnz with h0 | h0
    · exact absurd (by omega : x = y) hr
    · exact h0
  · exact ⟨hr, small _ (abs_lt.mpr ⟨by omega, by omega⟩)⟩
  · exact ⟨hr, small _ (abs_lt.mpr ⟨by omega, by omega⟩)⟩

end Pysnark
